import FitProps.WriterEncLemmas
/-!
Helper lemmas about the writer model, part 3: the header rewrite (`updateFileHeader`) — writes that land inside
the destination, seeks, `WriteAt`; and the two facts about every writer primitive that need no assumption on
positions: success keeps the writer `Clean`, and a healthy destination gives success.
-/
namespace Fit.Writer
open Fit.Wire Fit.Crc

theorem overwrite_mid (base S q : Bytes) :
    overwrite (base ++ S) base.length q = base ++ q ++ S.drop q.length := by
  unfold overwrite
  have : base.length - (base ++ S).length = 0 := by simp
  rw [this]
  simp only [List.replicate_zero, List.append_nil]
  rw [List.take_left' rfl, List.drop_append]
  have h1 : base.drop (base.length + q.length) = [] := List.drop_eq_nil_of_le (by omega)
  have h2 : base.length + q.length - base.length = q.length := by omega
  rw [h1, h2, List.nil_append]

/-- a `Write` that lands on the first bytes of `S` inside `base ++ S` -/
theorem Dest.write_mid (F : Faults) (d : Dest) (b base S : Bytes) (hc : d.content = base ++ S) (hp : d.pos = base.length) :
    (d.write F b).2.1 ≤ b.length ∧
    (d.write F b).1.content = base ++ b.take (d.write F b).2.1 ++ S.drop (d.write F b).2.1 ∧
    (d.write F b).1.pos = base.length + (d.write F b).2.1 ∧
    ((d.write F b).2.2 = true → (d.write F b).2.1 = b.length) ∧
    (d.write F b).1.log = .write b (d.write F b).2.1 (d.write F b).2.2 :: d.log ∧
    ((d.write F b).2.2 = true ↔ F d.log.length = none) := by
  unfold Dest.write
  cases hF : F d.log.length with
  | none =>
    simp only [hc, hp, overwrite_mid base S b, List.take_length]
    simp
  | some j =>
    have hl : (b.take (min j b.length)).length = min j b.length := by simp
    simp only [hc, hp, overwrite_mid base S _, hl]
    simp
    omega

theorem Dest.writeAt_mid (F : Faults) (d : Dest) (b base S : Bytes) (hc : d.content = base ++ S) :
    (d.writeAt F b base.length).2.1 ≤ b.length ∧
    (d.writeAt F b base.length).1.content = base ++ b.take (d.writeAt F b base.length).2.1 ++ S.drop (d.writeAt F b base.length).2.1 ∧
    (d.writeAt F b base.length).1.pos = d.pos ∧
    ((d.writeAt F b base.length).2.2 = true → (d.writeAt F b base.length).2.1 = b.length) ∧
    (d.writeAt F b base.length).1.log = .writeAt b base.length (d.writeAt F b base.length).2.1 (d.writeAt F b base.length).2.2 :: d.log ∧
    ((d.writeAt F b base.length).2.2 = true ↔ F d.log.length = none) := by
  unfold Dest.writeAt
  cases hF : F d.log.length with
  | none =>
    simp only [hc, overwrite_mid base S b, List.take_length]
    simp
  | some j =>
    have hl : (b.take (min j b.length)).length = min j b.length := by simp
    simp only [hc, overwrite_mid base S _, hl]
    simp
    omega

theorem Dest.seekCur_spec (F : Faults) (d : Dest) (delta : Int) :
    (d.seekCur F delta).1.content = d.content ∧
    ((d.seekCur F delta).2 = true → ((d.seekCur F delta).1.pos : Int) = (d.pos : Int) + delta) ∧
    ((d.seekCur F delta).2 = false → (d.seekCur F delta).1.pos = d.pos) ∧
    (d.seekCur F delta).1.log = .seek delta (d.seekCur F delta).2 :: d.log ∧
    (F d.log.length = none → 0 ≤ (d.pos : Int) + delta → (d.seekCur F delta).2 = true) := by
  unfold Dest.seekCur
  cases hF : F d.log.length with
  | none =>
    by_cases hneg : (d.pos : Int) + delta < 0
    · rw [if_pos hneg]; refine ⟨rfl, by simp, by simp, rfl, ?_⟩; intro _ h; omega
    · rw [if_neg hneg]; refine ⟨rfl, ?_, by simp, rfl, by simp⟩
      intro _; simp only; omega
  | some j => simp

/-! ### success keeps the log free of failed operations; a healthy destination gives success -/

theorem Dest.write_log (F : Faults) (d : Dest) (p : Bytes) :
    (d.write F p).1.log = .write p (d.write F p).2.1 (d.write F p).2.2 :: d.log ∧
    ((d.write F p).2.2 = true ↔ F d.log.length = none) := by
  unfold Dest.write
  cases F d.log.length <;> simp

theorem Dest.writeAt_log (F : Faults) (d : Dest) (p : Bytes) (off : Nat) :
    (d.writeAt F p off).1.log = .writeAt p off (d.writeAt F p off).2.1 (d.writeAt F p off).2.2 :: d.log ∧
    ((d.writeAt F p off).2.2 = true ↔ F d.log.length = none) := by
  unfold Dest.writeAt
  cases F d.log.length <;> simp

theorem clean_cons {w : W} {d' : Dest} {op : DOp} {e : Bool} (hc : w.Clean) (hl : d'.log = op :: w.d.log)
    (hop : op.ok = true) (he : e = false) : W.Clean { w with d := d', berr := e } := by
  refine ⟨?_, he⟩
  intro x hx
  simp only [hl, List.mem_cons] at hx
  rcases hx with rfl | hx
  · exact hop
  · exact hc.log x hx

theorem bflush_clean (F : Faults) (w : W) (hc : w.Clean) (hok : (w.bflush F).2 = true) : (w.bflush F).1.Clean := by
  unfold W.bflush at hok ⊢
  rw [if_neg (by simp [hc.berr])] at hok ⊢
  by_cases hemp : w.buf.isEmpty = true
  · rw [if_pos hemp]; exact hc
  · rw [if_neg hemp] at hok ⊢
    by_cases hw : (w.d.write F w.buf).2.2 = true
    · rw [if_pos hw]
      have := clean_cons (e := w.berr) hc (Dest.write_log F w.d w.buf).1 (by simpa [DOp.ok] using hw) hc.berr
      exact ⟨this.log, this.berr⟩
    · rw [if_neg hw] at hok; cases hok

theorem bflush_live (F : Faults) (w : W) (hF : F = noFault) (hc : w.Clean) : (w.bflush F).2 = true := by
  unfold W.bflush
  rw [if_neg (by simp [hc.berr])]
  by_cases hemp : w.buf.isEmpty = true
  · rw [if_pos hemp]
  · rw [if_neg hemp]
    have : (w.d.write F w.buf).2.2 = true := (Dest.write_log F w.d w.buf).2.mpr (by rw [hF]; rfl)
    rw [if_pos this]

theorem flush_clean (F : Faults) (w : W) (hc : w.Clean) (hok : (w.flush F).2 = true) : (w.flush F).1.Clean := by
  unfold W.flush at hok ⊢
  by_cases hs : w.size = 0
  · rw [if_pos hs]; exact hc
  · rw [if_neg hs] at hok ⊢; exact bflush_clean F w hc hok

theorem flush_live (F : Faults) (w : W) (hF : F = noFault) (hc : w.Clean) : (w.flush F).2 = true := by
  unfold W.flush
  by_cases hs : w.size = 0
  · rw [if_pos hs]
  · rw [if_neg hs]; exact bflush_live F w hF hc

theorem direct_clean (F : Faults) (w : W) (p : Bytes) (e : Bool) (hc : w.Clean)
    (hok : (w.d.write F p).2.2 = true) (he : e = false) : W.Clean { w with d := (w.d.write F p).1, berr := e } :=
  clean_cons hc (Dest.write_log F w.d p).1 (by simpa [DOp.ok] using hok) he

theorem writeRest_clean (F : Faults) (size n plen : Nat) (p' : Bytes) (f : W × Bool) (hfc : f.2 = true → f.1.Clean)
    (hok : (W.writeRest F size n plen p' f).2.2 = true) : (W.writeRest F size n plen p' f).1.Clean := by
  obtain ⟨w2, fok⟩ := f
  unfold W.writeRest at hok ⊢
  cases fok with
  | false => simp at hok
  | true =>
    rw [if_neg (by simp)] at hok ⊢
    have hc2 : w2.Clean := hfc rfl
    by_cases hfit2 : p'.length ≤ size
    · rw [if_pos hfit2]; exact ⟨hc2.log, hc2.berr⟩
    · rw [if_neg hfit2] at hok ⊢
      exact direct_clean F w2 _ _ hc2 hok (by simp only at hok; simp [hok])

theorem writeRest_live (F : Faults) (size n plen : Nat) (p' : Bytes) (f : W × Bool) (hF : F = noFault) (hfl : f.2 = true) :
    (W.writeRest F size n plen p' f).2.2 = true := by
  obtain ⟨w2, fok⟩ := f
  simp only at hfl
  subst hfl
  unfold W.writeRest
  rw [if_neg (by simp)]
  by_cases hfit2 : p'.length ≤ size
  · rw [if_pos hfit2]
  · rw [if_neg hfit2]; exact (Dest.write_log F _ _).2.mpr (by rw [hF]; rfl)

theorem write_clean (F : Faults) (w : W) (p : Bytes) (hc : w.Clean) (hok : (w.write F p).2.2 = true) :
    (w.write F p).1.Clean := by
  unfold W.write at hok ⊢
  by_cases hs : w.size = 0
  · rw [if_pos hs] at hok ⊢
    exact direct_clean F w p w.berr hc hok hc.berr
  · rw [if_neg hs] at hok ⊢
    rw [if_neg (by simp [hc.berr])] at hok ⊢
    by_cases hfit : p.length ≤ w.size - w.buf.length
    · rw [if_pos hfit]; exact ⟨hc.log, hc.berr⟩
    · rw [if_neg hfit] at hok ⊢
      by_cases hemp : w.buf.isEmpty = true
      · rw [if_pos hemp] at hok ⊢
        exact direct_clean F w p _ hc hok (by simp only at hok; simp [hok])
      · rw [if_neg hemp] at hok ⊢
        have hc1 : W.Clean { w with buf := w.buf ++ p.take (w.size - w.buf.length) } := ⟨hc.log, hc.berr⟩
        exact writeRest_clean F _ _ _ _ _ (bflush_clean F _ hc1) hok

theorem write_live (F : Faults) (w : W) (p : Bytes) (hF : F = noFault) (hc : w.Clean) : (w.write F p).2.2 = true := by
  have hd : ∀ (d : Dest) (q : Bytes), (d.write F q).2.2 = true := fun d q => (Dest.write_log F d q).2.mpr (by rw [hF]; rfl)
  unfold W.write
  by_cases hs : w.size = 0
  · rw [if_pos hs]; exact hd _ _
  · rw [if_neg hs, if_neg (by simp [hc.berr])]
    by_cases hfit : p.length ≤ w.size - w.buf.length
    · rw [if_pos hfit]
    · rw [if_neg hfit]
      by_cases hemp : w.buf.isEmpty = true
      · rw [if_pos hemp]; exact hd _ _
      · rw [if_neg hemp]
        have hc1 : W.Clean { w with buf := w.buf ++ p.take (w.size - w.buf.length) } := ⟨hc.log, hc.berr⟩
        exact writeRest_live F _ _ _ _ _ hF (bflush_live F _ hF hc1)

theorem Dest.seekCur_log (F : Faults) (d : Dest) (delta : Int) :
    (d.seekCur F delta).1.log = .seek delta (d.seekCur F delta).2 :: d.log := (Dest.seekCur_spec F d delta).2.2.2.1

theorem seekCur_clean (F : Faults) (w : W) (delta : Int) (hc : w.Clean) (hok : (w.seekCur F delta).2 = true) :
    (w.seekCur F delta).1.Clean := by
  unfold W.seekCur at hok ⊢
  by_cases hf : (w.flush F).2 = true
  · rw [if_neg (by simp [hf])] at hok ⊢
    have hc1 := flush_clean F w hc hf
    have := clean_cons (e := (w.flush F).1.berr) hc1 (Dest.seekCur_log F (w.flush F).1.d delta) (by simpa [DOp.ok] using hok) hc1.berr
    exact ⟨this.log, this.berr⟩
  · rw [if_pos (by simp [hf])] at hok; exact absurd hok hf

theorem writeAt_clean (F : Faults) (w : W) (p : Bytes) (off : Nat) (hc : w.Clean) (hok : (w.writeAt F p off).2 = true) :
    (w.writeAt F p off).1.Clean := by
  unfold W.writeAt at hok ⊢
  by_cases hf : (w.flush F).2 = true
  · rw [if_neg (by simp [hf])] at hok ⊢
    have hc1 := flush_clean F w hc hf
    have := clean_cons (e := (w.flush F).1.berr) hc1 (Dest.writeAt_log F (w.flush F).1.d p off).1 (by simpa [DOp.ok] using hok) hc1.berr
    exact ⟨this.log, this.berr⟩
  · rw [if_pos (by simp [hf])] at hok; exact absurd hok hf

theorem writeAt_live (F : Faults) (w : W) (p : Bytes) (off : Nat) (hF : F = noFault) (hc : w.Clean) :
    (w.writeAt F p off).2 = true := by
  unfold W.writeAt
  rw [if_neg (by simp [flush_live F w hF hc])]
  exact (Dest.writeAt_log F _ p off).2.mpr (by rw [hF]; rfl)

theorem seekCur_live (F : Faults) (w : W) (delta : Int) (hF : F = noFault) (hc : w.Clean)
    (hpos : 0 ≤ ((w.flush F).1.d.pos : Int) + delta) : (w.seekCur F delta).2 = true := by
  unfold W.seekCur
  rw [if_neg (by simp [flush_live F w hF hc])]
  exact (Dest.seekCur_spec F _ delta).2.2.2.2 (by rw [hF]; rfl) hpos

theorem bflush_ok_berr (F : Faults) (w : W) (hok : (w.bflush F).2 = true) : (w.bflush F).1.berr = false := by
  unfold W.bflush at hok ⊢
  by_cases hbe : w.berr = true
  · rw [if_pos hbe] at hok; cases hok
  · rw [if_neg hbe] at hok ⊢
    by_cases hemp : w.buf.isEmpty = true
    · rw [if_pos hemp]; simpa using hbe
    · rw [if_neg hemp] at hok ⊢
      by_cases hw : (w.d.write F w.buf).2.2 = true
      · rw [if_pos hw]; simpa using hbe
      · rw [if_neg hw] at hok; cases hok

/-- `Seek` from the append position: flushes (what is accepted stays a prefix), then moves -/
theorem seekCur_good (F : Faults) (w : W) (delta : Int) (hg : w.Good) :
    (w.seekCur F delta).1.kind = w.kind ∧ (w.seekCur F delta).1.size = w.size ∧
    w.d.content <+: (w.seekCur F delta).1.d.content ∧ (w.seekCur F delta).1.d.content <+: w.acc ∧
    ((w.seekCur F delta).2 = true → (w.seekCur F delta).1.buf = [] ∧ (w.seekCur F delta).1.d.content = w.acc ∧
      ((w.seekCur F delta).1.d.pos : Int) = w.acc.length + delta ∧ (w.size ≠ 0 → (w.seekCur F delta).1.berr = false)) := by
  obtain ⟨ha, hbuf⟩ := flush_appended F w hg
  have hcont : (w.flush F).1.d.content <+: w.acc := by
    have := ha.pref
    rw [List.append_nil] at this
    exact (List.prefix_append _ _).trans this
  unfold W.seekCur
  by_cases hf : (w.flush F).2 = true
  · rw [if_neg (by simp [hf])]
    obtain ⟨hs1, hs2, hs3, hs4, hs5⟩ := Dest.seekCur_spec F (w.flush F).1.d delta
    have hfull := ha.full hf
    rw [List.append_nil, W.acc, hbuf hf, List.append_nil] at hfull
    refine ⟨ha.kind, ha.size, ?_, ?_, ?_⟩
    · simp only [hs1]; exact ha.grow
    · simp only [hs1]; exact hcont
    · intro hok
      refine ⟨hbuf hf, by simp only [hs1]; exact hfull, ?_, ?_⟩
      · have := hs2 hok
        rw [this, ha.good.atEnd, hfull]
      · intro hsz
        have : (w.bflush F).2 = true := by unfold W.flush at hf; rw [if_neg hsz] at hf; exact hf
        have hb := bflush_ok_berr F w this
        unfold W.flush; rw [if_neg hsz]; exact hb
  · rw [if_pos (by simp [hf])]
    exact ⟨ha.kind, ha.size, ha.grow, hcont, fun h => absurd h hf⟩

/-- what the header rewrite leaves: where the destination content can be, and what holds when it reports success -/
structure Rewrote (base S b : Bytes) (w w' : W) (ok : Bool) : Prop where
  kind : w'.kind = w.kind
  size : w'.size = w.size
  reach : (base <+: w'.d.content ∧ w'.d.content <+: base ++ S) ∨
    ∃ t, t ≤ b.length ∧ w'.d.content = base ++ b.take t ++ S.drop t
  done : ok = true → w'.Good ∧ w'.buf = [] ∧ w'.d.content = base ++ b ++ S.drop b.length

/-- the destination write of the new header and the seek forward, from the state right after the seek back -/
theorem seekFwd_after_write (F : Faults) (w2 : W) (b base S : Bytes) (δ : Int)
    (hbuf : w2.buf = []) (hberr : w2.size ≠ 0 → w2.berr = false)
    (hc : w2.d.content = base ++ b ++ S.drop b.length) (hp : w2.d.pos = base.length + b.length)
    (hbS : b.length ≤ S.length) (hδ : δ = (S.length : Int) - b.length) :
    (w2.seekCur F δ).1.kind = w2.kind ∧ (w2.seekCur F δ).1.size = w2.size ∧
    (w2.seekCur F δ).1.d.content = base ++ b ++ S.drop b.length ∧
    ((w2.seekCur F δ).2 = true → (w2.seekCur F δ).1.Good ∧ (w2.seekCur F δ).1.buf = []) ∧
    (F = noFault → (w2.seekCur F δ).2 = true) := by
  have hfl : w2.flush F = (w2, true) := by
    unfold W.flush
    by_cases hs : w2.size = 0
    · rw [if_pos hs]
    · rw [if_neg hs]; unfold W.bflush; rw [if_neg (by simp [hberr hs]), if_pos (by simp [hbuf])]
  obtain ⟨hs1, hs2, hs3, hs4, hs5⟩ := Dest.seekCur_spec F w2.d δ
  unfold W.seekCur
  rw [hfl]
  simp only [Bool.not_true, Bool.false_eq_true, if_false]
  refine ⟨trivial, trivial, by rw [hs1, hc], ?_, ?_⟩
  · intro hok
    refine ⟨⟨?_, fun _ => hbuf⟩, hbuf⟩
    have := hs2 hok
    simp only [hs1, hc, List.length_append, List.length_drop]
    simp only [hp] at this
    omega
  · intro hF
    apply hs5 (by rw [hF]; rfl)
    rw [hp, hδ]; omega

/-- the write of the new header and the seek forward, from the state right after the seek back: the destination sees
exactly one `Write` of the header (directly, or when the buffered writer is flushed by the seek) -/
theorem rewrite_from_mid (F : Faults) (w1 : W) (b base S : Bytes)
    (hbuf : w1.buf = []) (hberr : w1.size ≠ 0 → w1.berr = false)
    (hc : w1.d.content = base ++ S) (hp : w1.d.pos = base.length) (hb0 : b ≠ []) (hbS : b.length ≤ S.length)
    (res : W × Bool)
    (hres : res = if !(w1.write F b).2.2 then ((w1.write F b).1, false)
      else (w1.write F b).1.seekCur F ((S.length : Int) - (w1.write F b).2.1)) :
    res.1.kind = w1.kind ∧ res.1.size = w1.size ∧
    (∃ t, t ≤ b.length ∧ res.1.d.content = base ++ b.take t ++ S.drop t) ∧
    (res.2 = true → res.1.Good ∧ res.1.buf = [] ∧ res.1.d.content = base ++ b ++ S.drop b.length) ∧
    (F = noFault → res.2 = true) := by
  obtain ⟨hw1, hw2, hw3, hw4, hw5, hw6⟩ := Dest.write_mid F w1.d b base S hc hp
  -- the direct path, for either reason
  have hdirect : ∀ e : Bool, (w1.size ≠ 0 → (w1.d.write F b).2.2 = true → e = false) →
      res = (if !(w1.d.write F b).2.2 then (({ w1 with d := (w1.d.write F b).1, berr := e } : W), false)
        else ({ w1 with d := (w1.d.write F b).1, berr := e } : W).seekCur F ((S.length : Int) - (w1.d.write F b).2.1)) →
      res.1.kind = w1.kind ∧ res.1.size = w1.size ∧
      (∃ t, t ≤ b.length ∧ res.1.d.content = base ++ b.take t ++ S.drop t) ∧
      (res.2 = true → res.1.Good ∧ res.1.buf = [] ∧ res.1.d.content = base ++ b ++ S.drop b.length) ∧
      (F = noFault → res.2 = true) := by
    intro e he hr
    by_cases hok : (w1.d.write F b).2.2 = true
    · rw [if_neg (by simp [hok])] at hr
      have hn := hw4 hok
      rw [hn] at hr
      have hc2 : (w1.d.write F b).1.content = base ++ b ++ S.drop b.length := by rw [hw2, hn, List.take_length]
      have hp2 : (w1.d.write F b).1.pos = base.length + b.length := by rw [hw3, hn]
      obtain ⟨k1, k2, k3, k4, k5⟩ := seekFwd_after_write F { w1 with d := (w1.d.write F b).1, berr := e } b base S _
        hbuf (fun hs => he hs hok) hc2 hp2 hbS rfl
      rw [hr]
      exact ⟨k1, k2, ⟨b.length, Nat.le_refl _, by rw [k3, List.take_length]⟩, fun h => ⟨(k4 h).1, (k4 h).2, k3⟩, k5⟩
    · rw [if_pos (by simp [hok])] at hr
      rw [hr]
      refine ⟨rfl, rfl, ⟨_, hw1, hw2⟩, (by intro h; cases h), ?_⟩
      intro hF; exact absurd (hw6.mpr (by rw [hF]; rfl)) hok
  by_cases hs : w1.size = 0
  · have hwr : w1.write F b = ({ w1 with d := (w1.d.write F b).1 }, (w1.d.write F b).2.1, (w1.d.write F b).2.2) := by
      unfold W.write; rw [if_pos hs]
    rw [hwr] at hres
    exact hdirect w1.berr (fun h => absurd hs h) hres
  · by_cases hfit : b.length ≤ w1.size - w1.buf.length
    · -- buffered; the seek flushes it
      have hwr : w1.write F b = ({ w1 with buf := w1.buf ++ b }, b.length, true) := by
        unfold W.write; rw [if_neg hs, if_neg (by simp [hberr hs]), if_pos hfit]
      rw [hwr] at hres
      simp only [Bool.not_true, Bool.false_eq_true, if_false, hbuf, List.nil_append] at hres
      have hne : ¬ b.isEmpty = true := by simp [hb0]
      have hfl : W.flush F ({ w1 with buf := b } : W) =
          if (w1.d.write F b).2.2 = true then (({ w1 with d := (w1.d.write F b).1, buf := [] } : W), true)
          else (({ w1 with d := (w1.d.write F b).1, buf := b.drop (w1.d.write F b).2.1, berr := true } : W), false) := by
        unfold W.flush
        rw [if_neg hs]
        unfold W.bflush
        rw [if_neg (by simp [hberr hs]), if_neg hne]
      unfold W.seekCur at hres
      rw [hfl] at hres
      by_cases hok : (w1.d.write F b).2.2 = true
      · have hn := hw4 hok
        have hc2 : (w1.d.write F b).1.content = base ++ b ++ S.drop b.length := by rw [hw2, hn, List.take_length]
        have hp2 : (w1.d.write F b).1.pos = base.length + b.length := by rw [hw3, hn]
        simp only [hok, if_true, Bool.not_true, Bool.false_eq_true, if_false] at hres
        obtain ⟨hs1, hs2, hs3, hs4, hs5⟩ := Dest.seekCur_spec F (w1.d.write F b).1 ((S.length : Int) - b.length)
        rw [hres]
        refine ⟨rfl, rfl, ⟨b.length, Nat.le_refl _, by simp only [hs1, hc2, List.take_length]⟩, ?_, ?_⟩
        · intro h
          refine ⟨⟨?_, fun h0 => absurd h0 hs⟩, rfl, by simp only [hs1, hc2]⟩
          have := hs2 h
          simp only [hs1, hc2, List.length_append, List.length_drop]
          simp only [hp2] at this
          omega
        · intro hF
          apply hs5 (by rw [hF]; rfl)
          rw [hp2]; omega
      · simp only [hok, Bool.false_eq_true, if_false, Bool.not_false, if_true] at hres
        rw [hres]
        refine ⟨rfl, rfl, ⟨_, hw1, hw2⟩, (by intro h; cases h), ?_⟩
        intro hF; exact absurd (hw6.mpr (by rw [hF]; rfl)) hok
    · have hwr : w1.write F b = ({ w1 with d := (w1.d.write F b).1, berr := !(w1.d.write F b).2.2 }, (w1.d.write F b).2.1, (w1.d.write F b).2.2) := by
        unfold W.write; rw [if_neg hs, if_neg (by simp [hberr hs]), if_neg hfit, if_pos (by simp [hbuf])]
      rw [hwr] at hres
      exact hdirect _ (fun _ h => by simp [h]) hres

theorem rewriteSeek_spec (F : Faults) (w : W) (b base S : Bytes) (hg : w.Good) (hacc : w.acc = base ++ S)
    (hbase : base <+: w.d.content) (hb0 : b ≠ []) (hbS : b.length ≤ S.length) :
    Rewrote base S b w (w.rewriteSeek F b S.length).1 (w.rewriteSeek F b S.length).2 ∧
    (F = noFault → w.Clean → (w.rewriteSeek F b S.length).2 = true) := by
  obtain ⟨a1, a2, a3, a4, a5⟩ := seekCur_good F w (-(S.length : Int)) hg
  unfold W.rewriteSeek
  by_cases hs1 : (w.seekCur F (-(S.length : Int))).2 = true
  · rw [if_neg (by simp [hs1])]
    obtain ⟨b1, b2, b3, b4⟩ := a5 hs1
    have hpos : (w.seekCur F (-(S.length : Int))).1.d.pos = base.length := by
      rw [hacc] at b3; simp only [List.length_append] at b3; omega
    obtain ⟨k1, k2, k3, k4, k5⟩ := rewrite_from_mid F _ b base S b1 (fun h => b4 (by rw [← a2]; exact h)) (by rw [b2, hacc]) hpos hb0 hbS _ rfl
    refine ⟨⟨k1.trans a1, k2.trans a2, Or.inr k3, k4⟩, fun hF _ => k5 hF⟩
  · rw [if_pos (by simp [hs1])]
    refine ⟨⟨a1, a2, Or.inl ⟨hbase.trans a3, by rw [← hacc]; exact a4⟩, fun h => absurd h hs1⟩, ?_⟩
    intro hF hc
    exfalso; apply hs1
    apply seekCur_live F w _ hF hc
    obtain ⟨ha, hbuf⟩ := flush_appended F w hg
    have hok := flush_live F w hF hc
    have hfull := ha.full hok
    rw [List.append_nil, W.acc, hbuf hok, List.append_nil] at hfull
    rw [ha.good.atEnd, hfull, hacc]; simp only [List.length_append]; omega

theorem rewriteSeek_clean (F : Faults) (w : W) (b : Bytes) (sz : Int) (hc : w.Clean) (hok : (w.rewriteSeek F b sz).2 = true) :
    (w.rewriteSeek F b sz).1.Clean := by
  unfold W.rewriteSeek at hok ⊢
  by_cases hs1 : (w.seekCur F (-sz)).2 = true
  · rw [if_neg (by simp [hs1])] at hok ⊢
    have c1 := seekCur_clean F w _ hc hs1
    by_cases hw : ((w.seekCur F (-sz)).1.write F b).2.2 = true
    · rw [if_neg (by simp [hw])] at hok ⊢
      exact seekCur_clean F _ _ (write_clean F _ b c1 hw) hok
    · rw [if_pos (by simp [hw])] at hok; cases hok
  · rw [if_pos (by simp [hs1])] at hok; exact absurd hok hs1

theorem writeAt_spec (F : Faults) (w : W) (b base S : Bytes) (hg : w.Good) (hacc : w.acc = base ++ S)
    (hbase : base <+: w.d.content) (hbS : b.length ≤ S.length) :
    Rewrote base S b w (w.writeAt F b base.length).1 (w.writeAt F b base.length).2 := by
  obtain ⟨ha, hbuf⟩ := flush_appended F w hg
  unfold W.writeAt
  by_cases hf : (w.flush F).2 = true
  · rw [if_neg (by simp [hf])]
    have hfull := ha.full hf
    rw [List.append_nil, W.acc, hbuf hf, List.append_nil, hacc] at hfull
    obtain ⟨m1, m2, m3, m4, m5, m6⟩ := Dest.writeAt_mid F (w.flush F).1.d b base S hfull
    refine ⟨ha.kind, ha.size, Or.inr ⟨_, m1, m2⟩, ?_⟩
    intro hok
    have hn := m4 hok
    refine ⟨⟨?_, ha.good.unbuf⟩, hbuf hf, by rw [m2, hn, List.take_length]⟩
    simp only [m3, m2, hn, ha.good.atEnd, hfull, List.length_append, List.length_take, List.length_drop]
    omega
  · rw [if_pos (by simp [hf])]
    have hcont : (w.flush F).1.d.content <+: base ++ S := by
      have := ha.pref
      rw [List.append_nil, hacc] at this
      exact (List.prefix_append _ _).trans this
    exact ⟨ha.kind, ha.size, Or.inl ⟨hbase.trans ha.grow, hcont⟩, fun h => absurd h hf⟩

theorem hdrBytes_ne_nil (h : Hdr) (ds : Nat) : hdrBytes h ds ≠ [] := by
  unfold hdrBytes; split <;> simp

theorem hdrBytes_length (h : Hdr) (ds : Nat) : (hdrBytes h ds).length = if h.size = 14 then 14 else 12 := by
  unfold hdrBytes; split <;> simp [Wire.le16, le32]

theorem updateFileHeader_spec (F : Faults) (e : Enc) (h : Hdr) (hdrDs : Nat) (base S : Bytes)
    (hg : e.w.Good) (hacc : e.w.acc = base ++ S) (hbase : base <+: e.w.d.content)
    (hn : (e.n : Int) - e.lastHdrPos = S.length) (hat : e.w.kind = .at → e.lastHdrPos = base.length) (hcrc : e.crc = 0)
    (hdir : e.w.kind.direct = true) (hbS : (hdrBytes h e.dataSize).length ≤ S.length) (hne : hdrDs ≠ e.dataSize) :
    Rewrote base S (hdrBytes h e.dataSize) e.w (updateFileHeader F e h hdrDs).1.w (updateFileHeader F e h hdrDs).2.2 ∧
    (e.w.Clean → (updateFileHeader F e h hdrDs).2.2 = true → (updateFileHeader F e h hdrDs).1.w.Clean) ∧
    (F = noFault → e.w.Clean → (updateFileHeader F e h hdrDs).2.2 = true) ∧
    (updateFileHeader F e h hdrDs).1.n = e.n ∧ (updateFileHeader F e h hdrDs).2.1 = e.dataSize := by
  unfold updateFileHeader
  rw [if_neg hne, hcrc, hdrBytesFrom_zero]
  by_cases hsk : e.w.kind.seeker = true
  · simp only [hsk, if_true, hn]
    obtain ⟨r1, r2⟩ := rewriteSeek_spec F e.w (hdrBytes h e.dataSize) base S hg hacc hbase (hdrBytes_ne_nil _ _) hbS
    exact ⟨r1, rewriteSeek_clean F e.w _ _, r2, trivial, trivial⟩
  · have hk : e.w.kind = .at := by
      cases hkk : e.w.kind <;> simp [hkk, Kind.seeker, Kind.direct] at hsk hdir ⊢
    simp only [hk, Kind.seeker, Bool.false_eq_true, if_false, if_true, hat hk]
    refine ⟨?_, writeAt_clean F e.w _ _, writeAt_live F e.w _ _, trivial, trivial⟩
    have := writeAt_spec F e.w (hdrBytes h e.dataSize) base S hg hacc hbase hbS
    exact this

end Fit.Writer
