import FitProps.ValueAnyLemmas
import FitProps.ValueReencodeStrLemmas
/-!
# C06 — Protocol values marshal to their declared size and unmarshal to themselves

All statements are about `FitModel/Value.lean` (`Fit.Value`), the definitions the driver executes for the
families `value` / `unm` / `vany`.

PROPERTY THEOREMS (audited by ./check): C06_size_eq_len, C06_marshal_total, C06_marshal_bytes,
C06_unmarshal_marshal_partial, C06_unmarshal_marshal_full_fails, C06_norm_id, C06_norm_bool, C06_norm_string, C06_norm_strings,
C06_unmarshal_guard, C06_unmarshal_no_panic, C06_unmarshal_err_iff, C06_unmarshal_bool_array, C06_unmarshal_reencode,
C06_unmarshal_marshal_actual, C06_readBack_clean, C06_tag, C06_raw_len, C06_no_cross_type, C06_any_roundtrip,
C06_any_reflect_agrees, C06_any_wrap_unwrap, C06_any_unsupported, C06_any_names_transparent, C06_align_by_type

STRINGS: the domain of the round trip. `C06_unmarshal_marshal_partial` has the hypothesis `clean`: every string (piece) is valid
UTF-8 without a well-formed U+FFFD. It excludes TWO classes, kept apart here: (1) valid UTF-8 containing U+FFFD — inside the
property, the code is wrong there: finding KF-C06-1, `C06_unmarshal_marshal_full_fails`; (2) byte strings that are NOT valid
UTF-8 (`notUtf8`) — outside the property: a FIT string is UTF-8 by definition of the protocol, the encoder refuses such a string
(`errInvalidUTF8String`, C10_reject_bad_value) so the SDK never writes one, and `utf8String` documents what it does with
foreign bytes ("converts b into a valid UTF-8 string … RuneError … it will discard it"). What the code returns on ALL
strings, both classes included, is `C06_unmarshal_marshal_actual` (no `clean` hypothesis): `readBack`, which is `norm` on the
clean ones (`C06_readBack_clean`). `.string [0x61, 0xFF, 0x62]` ("a\xffb") reads back as "ab": example below.

`typedef.Bool` arrays (finding KF-C01-boolarr, repaired in /repo 5da5106): `UnmarshalValue` clamps the elements of a bool
ARRAY exactly as `proto.Bool` clamps a single value (`C06_unmarshal_bool_array`), so that what it returned for ANY bytes
re-marshals and reads back as itself (`C06_unmarshal_reencode`, every base type; before the repair `[]typedef.Bool{0x1C}` read back as
`{255}`). The round-trip theorem was unaffected (`MarshalAppend` already wrote 255 for such elements).

Known finding KF-C06-1 (F02): `utf8String` drops a well-formed U+FFFD; the round-trip theorem is therefore
`…_partial` (hypothesis `clean`), the full statement is `C06_unmarshal_marshal_full`, refuted on the witness.
-/
namespace Fit.C06
open Fit.Value Fit.Gen Fit.Utf8

/-- **Size = marshalled length.** For every value of the 24 types and every byte-order byte, the number
of bytes `MarshalAppend` appends equals `Size()`. -/
theorem C06_size_eq_len (v : Value) (arch : Nat) (bs : List Nat) (h : marshal v arch = some bs) :
    bs.length = size v := by
  obtain ⟨h0, h1, h2, h3, h4, h5, h6, h7, h8, h9, h10, h11, h12⟩ := protoSize_table
  cases v <;> simp only [marshal, Option.some.injEq, reduceCtorEq] at h <;> subst h <;>
    simp only [size, typeOf, h0, h1, h2, h3, h4, h5, h6, h7, h8, h9, h10, h11, h12, flatMap_enc_length,
      strBytes_length, List.length_map, List.length_cons, List.length_nil, enc_length, Nat.mul_one, Nat.one_mul]
  case sliceString vs =>
    split
    · rename_i hvs
      have : vs = [] := by simpa [List.isEmpty_iff] using hvs
      simp [this]
    · rename_i hvs
      have hne : vs ≠ [] := by simpa [List.isEmpty_iff] using hvs
      rw [flatMap_strBytes_length]
      have := mt (sum_strSize_eq_zero vs).mp hne
      simp [this]

/-- `MarshalAppend` fails (`ErrTypeNotSupported`, nothing appended) exactly for the invalid value, whose size is 0. -/
theorem C06_marshal_total (v : Value) (arch : Nat) :
    (marshal v arch = none ↔ v = .invalid) ∧ size .invalid = 0 := by
  refine ⟨?_, by decide⟩
  cases v <;> simp [marshal]

/-- what is appended are bytes -/
theorem C06_marshal_bytes (v : Value) (arch : Nat) (bs : List Nat) (hwf : wf v = true)
    (h : marshal v arch = some bs) : ∀ b ∈ bs, b < 256 := by
  have hflat : ∀ (w : Nat) (vs : List Nat), ∀ b ∈ vs.flatMap (enc w arch), b < 256 := by
    intro w vs b hb
    obtain ⟨x, _, hx⟩ := List.mem_flatMap.mp hb
    exact enc_lt w arch x b hx
  have hbb : ∀ x, boolByte x < 256 := by intro x; unfold boolByte; split <;> omega
  cases v <;> simp only [marshal, Option.some.injEq, reduceCtorEq] at h <;> subst h
  case string s => exact bytes_strBytes s (bytes_of_allLt s (by simpa [wf] using hwf))
  case sliceString vs =>
    intro b hb
    split at hb
    · simp only [List.mem_cons, List.not_mem_nil, or_false] at hb; omega
    · obtain ⟨s, hs, hbs⟩ := List.mem_flatMap.mp hb
      simp only [wf, List.all_eq_true] at hwf
      exact bytes_strBytes s (bytes_of_allLt s (hwf s hs)) b hbs
  case bool x => intro b hb; simp only [List.mem_cons, List.not_mem_nil, or_false] at hb; rw [hb]; exact hbb x
  case sliceBool vs =>
    intro b hb
    obtain ⟨x, _, hx⟩ := List.mem_map.mp hb
    rw [← hx]; exact hbb x
  case int8 | uint8 => intro b hb; simp only [List.mem_cons, List.not_mem_nil, or_false] at hb; omega
  case sliceInt8 | sliceUint8 =>
    intro b hb
    obtain ⟨x, _, hx⟩ := List.mem_map.mp hb
    omega
  case int16 | uint16 | int32 | uint32 | int64 | uint64 | float32 | float64 => exact enc_lt _ _ _
  all_goals exact hflat _ _

/-- **Round trip (partial: excludes the class of KF-C06-1).** For every well-formed value, every byte
order and every base type the value aligns with: unmarshalling the marshalled bytes with that base type
(and the array / bool flags of the value) returns the value's wire normal form `norm v` — the value itself
for the 20 numeric non-bool types (`C06_norm_id`), `typedef.Bool` bytes other than 0/1 read back as
`BoolInvalid`, a string cut at its first NUL, a string array as its non-empty NUL-free pieces.
Hypothesis `clean`: the strings (pieces) are valid UTF-8 **without a well-formed U+FFFD**. -/
theorem C06_unmarshal_marshal_partial (v : Value) (a bt : Nat) (bs : List Nat) (hwf : wf v = true)
    (hal : align v bt = true) (hcl : clean v = true) (hm : marshal v a = some bs) :
    unmarshal bs a bt (isBoolType v) (isSlice v) = .ok (norm v) := by
  cases v <;> simp only [marshal, Option.some.injEq, reduceCtorEq] at hm <;> subst hm <;>
    simp only [align, beq_iff_eq, Bool.or_eq_true, Bool.false_eq_true] at hal
  case bool b =>
    subst hal
    simp [unmarshal, btEnum, btSint8, isBoolType, isSlice, decScalar_single, mkBool_boolByte, norm]
  case string s =>
    subst hal
    have hb : Bytes s := bytes_of_allLt s (by simpa [wf] using hwf)
    simp [unmarshal, btEnum, btSint8, btByte, btUint8, btUint8z, btSint16, btUint16, btUint16z, btSint32, btUint32,
      btUint32z, btSint64, btUint64, btUint64z, btFloat32, btFloat64, btString, isBoolType, isSlice, norm,
      utf8String_strBytes s hb (by simpa [clean] using hcl)]
  case sliceString vs =>
    subst hal
    have hb : ∀ s ∈ vs, Bytes s := by
      intro s hs
      simp only [wf, List.all_eq_true] at hwf
      exact bytes_of_allLt s (hwf s hs)
    have key := unmarshalStrings_marshal vs hb (by simpa [clean] using hcl)
    simp only [List.isEmpty_iff] at key
    simp [unmarshal, btEnum, btSint8, btByte, btUint8, btUint8z, btSint16, btUint16, btUint16z, btSint32, btUint32,
      btUint32z, btSint64, btUint64, btUint64z, btFloat32, btFloat64, btString, isBoolType, isSlice, norm, key]
  case uint8 =>
    simp only [wf, decide_eq_true_eq] at hwf
    (try simp only [Nat.reducePow] at hwf)
    rcases hal with ((hal | hal) | hal) | hal <;> subst hal <;>
    simp [unmarshal, btEnum, btSint8, btByte, btUint8, btUint8z, btSint16, btUint16, btUint16z, btSint32, btUint32,
      btUint32z, btSint64, btUint64, btUint64z, btFloat32, btFloat64, btString, isBoolType, isSlice, norm,
      decScalar_enc, decScalar_single, decSlice_enc, Nat.mod_eq_of_lt hwf]
  case sliceUint8 =>
    simp only [wf, decide_eq_true_eq] at hwf
    (try simp only [Nat.reducePow] at hwf)
    rcases hal with ((hal | hal) | hal) | hal <;> subst hal <;>
    simp [unmarshal, btEnum, btSint8, btByte, btUint8, btUint8z, btSint16, btUint16, btUint16z, btSint32, btUint32,
      btUint32z, btSint64, btUint64, btUint64z, btFloat32, btFloat64, btString, isBoolType, isSlice, norm,
      decScalar_enc, decScalar_single, decSlice_enc, map_mod_of_allLt _ _ hwf]
  case uint16 | uint32 | uint64 =>
    simp only [wf, decide_eq_true_eq] at hwf
    (try simp only [Nat.reducePow] at hwf)
    rcases hal with hal | hal <;> subst hal <;>
    simp [unmarshal, btEnum, btSint8, btByte, btUint8, btUint8z, btSint16, btUint16, btUint16z, btSint32, btUint32,
      btUint32z, btSint64, btUint64, btUint64z, btFloat32, btFloat64, btString, isBoolType, isSlice, norm,
      decScalar_enc, decScalar_single, decSlice_enc, Nat.mod_eq_of_lt hwf]
  case sliceUint16 | sliceUint32 | sliceUint64 =>
    simp only [wf, decide_eq_true_eq] at hwf
    (try simp only [Nat.reducePow] at hwf)
    rcases hal with hal | hal <;> subst hal <;>
    simp [unmarshal, btEnum, btSint8, btByte, btUint8, btUint8z, btSint16, btUint16, btUint16z, btSint32, btUint32,
      btUint32z, btSint64, btUint64, btUint64z, btFloat32, btFloat64, btString, isBoolType, isSlice, norm,
      decScalar_enc, decScalar_single, decSlice_enc, map_mod_of_allLt _ _ hwf]
  case int8 | int16 | int32 | int64 | float32 | float64 =>
    simp only [wf, decide_eq_true_eq] at hwf
    (try simp only [Nat.reducePow] at hwf)
    subst hal
    simp [unmarshal, btEnum, btSint8, btByte, btUint8, btUint8z, btSint16, btUint16, btUint16z, btSint32, btUint32,
      btUint32z, btSint64, btUint64, btUint64z, btFloat32, btFloat64, btString, isBoolType, isSlice, norm,
      decScalar_enc, decScalar_single, decSlice_enc, Nat.mod_eq_of_lt hwf]
  case sliceBool | sliceInt8 | sliceInt16 | sliceInt32 | sliceInt64 | sliceFloat32 | sliceFloat64 =>
    simp only [wf, decide_eq_true_eq] at hwf
    (try simp only [Nat.reducePow] at hwf)
    subst hal
    simp [unmarshal, btEnum, btSint8, btByte, btUint8, btUint8z, btSint16, btUint16, btUint16z, btSint32, btUint32,
      btUint32z, btSint64, btUint64, btUint64z, btFloat32, btFloat64, btString, isBoolType, isSlice, norm,
      decScalar_enc, decScalar_single, decSlice_enc, map_mod_of_allLt _ _ hwf]

/-- non-vacuity of the hypotheses: a big-endian uint16 array, a multi-byte string with an embedded NUL -/
example : wf (.sliceUint16 [1, 0xFFFF]) = true ∧ align (.sliceUint16 [1, 0xFFFF]) btUint16z = true ∧
    clean (.sliceUint16 [1, 0xFFFF]) = true ∧ marshal (.sliceUint16 [1, 0xFFFF]) 1 = some [0, 1, 0xFF, 0xFF] := by decide
example : wf (.string [0xC3, 0xA9, 0, 0x41]) = true ∧ align (.string [0xC3, 0xA9, 0, 0x41]) btString = true ∧
    clean (.string [0xC3, 0xA9, 0, 0x41]) = true ∧ norm (.string [0xC3, 0xA9, 0, 0x41]) = .string [0xC3, 0xA9] := by decide

/-- the strings (pieces) of the value are valid UTF-8 (U+FFFD allowed) -/
def validStrings : Value → Bool
  | .string s => Fit.Utf8.valid (cutNul s)
  | .sliceString vs => (pieces vs).all Fit.Utf8.valid
  | _ => true

/-- the full-strength round trip: for every valid UTF-8 string, *including* those containing U+FFFD -/
def C06_unmarshal_marshal_full : Prop :=
  ∀ (v : Value) (a bt : Nat) (bs : List Nat), wf v = true → align v bt = true → validStrings v = true →
    marshal v a = some bs → unmarshal bs a bt (isBoolType v) (isSlice v) = .ok (norm v)

/-- **KF-C06-1 (F02).** The full statement is false: the valid UTF-8 string "a\uFFFDb" comes back as "ab". -/
theorem C06_unmarshal_marshal_full_fails : ¬ C06_unmarshal_marshal_full := by
  intro h
  have := h (.string [0x61, 0xEF, 0xBF, 0xBD, 0x62]) 0 btString [0x61, 0xEF, 0xBF, 0xBD, 0x62, 0]
    (by decide) (by decide) (by decide) (by decide)
  revert this
  decide

/-- the hypotheses of the partial theorem and the class of the finding partition the valid strings -/
example (v : Value) : validStrings v = true → (clean v = true ∨
    (match v with
      | .string s => hasFFFD (cutNul s) = true
      | .sliceString vs => (pieces vs).any hasFFFD = true
      | _ => False)) := by
  intro h
  cases v
  case string s =>
    simp only [validStrings] at h
    simp only [clean, cleanStr, h, Bool.true_and, Bool.not_eq_true']
    cases hasFFFD (cutNul s) <;> simp
  case sliceString vs =>
    simp only [validStrings, List.all_eq_true] at h
    by_cases hx : ∃ x ∈ pieces vs, hasFFFD x = true
    · right; simpa using hx
    · left
      simp only [clean, List.all_eq_true, cleanStr, Bool.and_eq_true, Bool.not_eq_true']
      intro x hx'
      refine ⟨h x hx', ?_⟩
      cases hq : hasFFFD x with
      | false => rfl
      | true => exact absurd ⟨x, hx', hq⟩ hx
  all_goals (left; rfl)

/-- class (2) of the header: some string (piece) of the value is not valid UTF-8 — not a FIT string; outside the property -/
def notUtf8 (v : Value) : Bool := !validStrings v

/-- **what the code returns** for the marshalled bytes of `v`, for ALL strings: a string through `utf8String` (stops at the
first NUL, drops every byte sequence `utf8.DecodeRune` rejects and every U+FFFD), a string array as its non-empty
NUL-terminated segments, each through `utf8String`, kept if non-empty; the normal form `norm` on the other 22 types -/
def readBack : Value → Value
  | .string s => .string (utf8String (strBytes s))
  | .sliceString vs => .sliceString (unmarshalStrings (if vs.isEmpty then [0] else vs.flatMap strBytes))
  | v => norm v

/-- **The round trip as the code behaves, for ALL strings** (no `clean` hypothesis: valid UTF-8 with U+FFFD and byte strings
that are not UTF-8 included): unmarshalling the marshalled bytes of a well-formed value under a base type it aligns with
returns `readBack v`. -/
theorem C06_unmarshal_marshal_actual (v : Value) (a bt : Nat) (bs : List Nat) (hwf : wf v = true)
    (hal : align v bt = true) (hm : marshal v a = some bs) :
    unmarshal bs a bt (isBoolType v) (isSlice v) = .ok (readBack v) := by
  cases v
  case string s =>
    simp only [marshal, Option.some.injEq] at hm; subst hm
    simp only [align, beq_iff_eq] at hal; subst hal
    simp [unmarshal, btEnum, btSint8, btByte, btUint8, btUint8z, btSint16, btUint16, btUint16z, btSint32, btUint32,
      btUint32z, btSint64, btUint64, btUint64z, btFloat32, btFloat64, btString, isBoolType, isSlice, readBack]
  case sliceString vs =>
    simp only [marshal, Option.some.injEq] at hm; subst hm
    simp only [align, beq_iff_eq] at hal; subst hal
    simp [unmarshal, btEnum, btSint8, btByte, btUint8, btUint8z, btSint16, btUint16, btUint16z, btSint32, btUint32,
      btUint32z, btSint64, btUint64, btUint64z, btFloat32, btFloat64, btString, isBoolType, isSlice, readBack]
  all_goals exact C06_unmarshal_marshal_partial _ a bt bs hwf hal rfl hm

/-- … which is the wire normal form on the domain of the property minus the class of KF-C06-1 -/
theorem C06_readBack_clean (v : Value) (hwf : wf v = true) (hcl : clean v = true) : readBack v = norm v := by
  cases v <;> try rfl
  case string s =>
    have hb : Bytes s := bytes_of_allLt s (by simpa [wf] using hwf)
    simp only [readBack, norm, utf8String_strBytes s hb (by simpa [clean] using hcl)]
  case sliceString vs =>
    have hb : ∀ s ∈ vs, Bytes s := by
      intro s hs
      simp only [wf, List.all_eq_true] at hwf
      exact bytes_of_allLt s (hwf s hs)
    have key := unmarshalStrings_marshal vs hb (by simpa [clean] using hcl)
    simp only [readBack, norm, key]


/-- the three classes partition the well-formed values; the audit's witness "a\xffb" is in class (2) and reads back as "ab" -/
example (v : Value) : clean v = true ∨ (validStrings v = true ∧ clean v = false) ∨ notUtf8 v = true := by
  cases h1 : clean v <;> cases h2 : validStrings v <;> simp [notUtf8, h2]
example : notUtf8 (.string [0x61, 0xFF, 0x62]) = true ∧ clean (.string [0x61, 0xFF, 0x62]) = false ∧
    readBack (.string [0x61, 0xFF, 0x62]) = .string [0x61, 0x62] ∧ Fit.Value.utf8Valid (.string [0x61, 0xFF, 0x62]) = false := by decide

/-- the normal form is the identity on the 20 types that are neither bool nor string -/
theorem C06_norm_id (v : Value) (h : isBoolType v = false)
    (hs : typeOf v ≠ typeString ∧ typeOf v ≠ typeSliceString) : norm v = v := by
  cases v <;> simp_all [norm, isBoolType, typeOf, typeString, typeSliceString]

/-- … and on `typedef.Bool` values of its domain {0 (false), 1 (true), 255 (invalid)} -/
theorem C06_norm_bool (b : Nat) (h : b = 0 ∨ b = 1 ∨ b = 255) : norm (.bool b) = .bool b := by
  rcases h with h | h | h <;> subst h <;> decide

/-- a string without NUL is its own normal form (a string ending in its terminator loses only that) -/
theorem C06_norm_string (s : List Nat) (h : ∀ b ∈ s, b ≠ 0) :
    norm (.string s) = .string s ∧ norm (.string (s ++ [0])) = .string s := by
  have h1 := takeWhile_nz_of_nulFree s h
  refine ⟨by simp [norm, cutNul, h1], ?_⟩
  have := takeWhile_nz_append_zero s
  simp [norm, cutNul, this, h1]

/-- an array of NUL-free strings loses exactly its empty strings -/
theorem C06_norm_strings (vs : List (List Nat)) (h : ∀ s ∈ vs, ∀ b ∈ s, b ≠ 0) :
    norm (.sliceString vs) = .sliceString (vs.filter fun s => !s.isEmpty) := by
  have hs : ∀ s : List Nat, (∀ b ∈ s, b ≠ 0) → ∀ cur, splitNul cur (s ++ [0]) = [cur ++ s] := by
    intro s
    induction s with
    | nil => intro _ cur; simp [splitNul]
    | cons x xs ih =>
      intro hx cur
      have hx0 : x ≠ 0 := hx x (by simp)
      simp only [List.cons_append, splitNul, hx0, ↓reduceIte]
      rw [ih (fun b hb => hx b (List.mem_cons_of_mem _ hb))]
      simp
  have hp : ∀ s ∈ vs, splitNul [] (strBytes s) = [s] := by
    intro s hsm
    have hnz := h s hsm
    have : strBytes s = s ++ [0] := by
      unfold strBytes
      split
      · rfl
      · rename_i hc
        simp only [Bool.or_eq_true, List.isEmpty_iff, bne_iff_ne, ne_eq, not_or, Decidable.not_not] at hc
        obtain ⟨ys, hys⟩ := List.getLast?_eq_some_iff.mp hc.2
        exact absurd rfl (hnz 0 (by rw [hys]; simp))
    rw [this, hs s hnz []]; rfl
  have hflat : ∀ (l : List (List Nat)), (∀ s ∈ l, splitNul [] (strBytes s) = [s]) →
      l.flatMap (fun s => splitNul [] (strBytes s)) = l := by
    intro l
    induction l with
    | nil => intro _; rfl
    | cons x xs ih =>
      intro hl
      simp only [List.flatMap_cons]
      rw [hl x (by simp), ih (fun s hs => hl s (List.mem_cons_of_mem _ hs))]
      rfl
  simp only [norm, pieces, hflat vs hp]

/-- **Which inputs the real code rejects by panicking.** A non-array read of a valid non-string base
type from fewer bytes than the base type's size indexes out of range. (The decoder never does this: C03.) -/
theorem C06_unmarshal_guard (bs : List Nat) (a bt : Nat) (isBool : Bool) (hv : btValid bt = true)
    (hs : bt ≠ btString) (hlen : bs.length < btSize bt) : unmarshal bs a bt isBool false = .panic := by
  rcases unmarshal_cases bs a bt isBool false with ⟨h, _⟩ | ⟨_, h, _⟩ | ⟨_, _, _, mk, h⟩
  · rw [hv] at h; cases h
  · rcases h with h | h
    · cases h
    · exact absurd h hs
  · rw [h]; exact decScalar_panic _ _ _ _ hlen

example : btValid btUint32 = true ∧ btUint32 ≠ btString ∧ [1, 2, 3].length < btSize btUint32 := by decide

/-- … and nothing else panics: in array mode, for strings, or with at least `size(baseType)` bytes the
answer is a value or `ErrTypeNotSupported`. -/
theorem C06_unmarshal_no_panic (bs : List Nat) (a bt : Nat) (isBool isArray : Bool)
    (h : isArray = true ∨ bt = btString ∨ btSize bt ≤ bs.length) : unmarshal bs a bt isBool isArray ≠ .panic := by
  rcases unmarshal_cases bs a bt isBool isArray with ⟨_, h'⟩ | ⟨_, _, v, h'⟩ | ⟨_, harr, hstr, mk, h'⟩
  · rw [h']; intro hc; cases hc
  · rw [h']; intro hc; cases hc
  · rw [h']
    rcases h with h | h | h
    · rw [harr] at h; cases h
    · exact absurd h hstr
    · exact decScalar_ne_panic _ _ _ _ h

/-- `ErrTypeNotSupported` exactly for the bytes that are not one of the 17 base types -/
theorem C06_unmarshal_err_iff (bs : List Nat) (a bt : Nat) (isBool isArray : Bool) :
    unmarshal bs a bt isBool isArray = .err ↔ btValid bt = false := by
  rcases unmarshal_cases bs a bt isBool isArray with ⟨hv, h'⟩ | ⟨hv, _, v, h'⟩ | ⟨hv, _, _, mk, h'⟩
  · simp [hv, h']
  · simp [hv, h']
  · rw [h', hv]
    unfold decScalar
    split <;> simp

/-! ### `typedef.Bool` arrays, and re-marshalling what `UnmarshalValue` returned -/

/-- **A bool ARRAY is read element by element exactly as a single bool is.** For a field whose profile type is bool
(one-byte base types enum / byte / uint8 / uint8z) and ANY bytes: the array read returns as many elements as there are
bytes, element `i` is what the scalar read of byte `i` alone returns, and every element lies in the domain of
`typedef.Bool` {0, 1, 255 = invalid}. (On the pinned tree the array read returned the bytes as they were: finding
KF-C01-boolarr.) -/
theorem C06_unmarshal_bool_array (bs : List Nat) (a bt : Nat)
    (hbt : bt = btEnum ∨ bt = btByte ∨ bt = btUint8 ∨ bt = btUint8z) :
    ∃ xs, unmarshal bs a bt true true = .ok (.sliceBool xs) ∧ xs.length = bs.length ∧
      (∀ i (h : i < bs.length) (h' : i < xs.length), unmarshal [bs[i]] a bt true false = .ok (.bool xs[i])) ∧
      (∀ x ∈ xs, x = 0 ∨ x = 1 ∨ x = 255) := by
  refine ⟨bs.map clampBool, ?_, by simp, ?_, ?_⟩
  · rcases hbt with h | h | h | h <;> subst h <;> simp [unmarshal, btEnum, btByte, btUint8, btUint8z, btSint8]
  · intro i h h'
    rcases hbt with h | h | h | h <;> subst h <;>
      simp [unmarshal, btEnum, btByte, btUint8, btUint8z, btSint8, decScalar_single, mkBool_eq]
  · intro x hx
    obtain ⟨b, _, rfl⟩ := List.mem_map.mp hx
    exact clampBool_cases b

example : unmarshal [0x1C, 1, 0, 0xFF, 2] 0 btEnum true true = .ok (.sliceBool [255, 1, 0, 255, 255]) := by decide

/-- **What `UnmarshalValue` returned re-marshals and reads back as itself.** For ANY bytes, EVERY base type (the 16 numeric
ones and string), any profile-bool / array flags and any two byte orders `a`, `a'`: the value read from the bytes can be
marshalled (it is never the invalid value) in byte order `a'`, and reading those bytes under the same base type and flags
returns that very value — scalars, arrays (a trailing partial element was dropped by the first read), `typedef.Bool` scalars
and, since /repo 5da5106, `typedef.Bool` arrays; strings and string arrays because what `utf8String` returns is NUL-free valid
UTF-8 without U+FFFD (`Fit.Utf8.utf8String_good`), on which it is the identity. This is the value layer of the last sentence
of C01 ("re-encoding what the decoder returned gives the same messages"). -/
theorem C06_unmarshal_reencode (bs : List Nat) (a a' bt : Nat) (isBool isArray : Bool) (v : Value)
    (hb : ∀ b ∈ bs, b < 256) (h : unmarshal bs a bt isBool isArray = .ok v) :
    ∃ bs', marshal v a' = some bs' ∧ unmarshal bs' a' bt isBool isArray = .ok v :=
  unmarshal_reencode_all bs a a' bt isBool isArray v hb h

/-- non-vacuity: a big-endian uint16 array with a trailing odd byte, re-marshalled little-endian; the former witness of
KF-C01-boolarr -/
example : unmarshal [1, 2, 3, 4, 5] 1 btUint16 false true = .ok (.sliceUint16 [0x0102, 0x0304]) ∧
    marshal (.sliceUint16 [0x0102, 0x0304]) 0 = some [2, 1, 4, 3] ∧
    unmarshal [2, 1, 4, 3] 0 btUint16 false true = .ok (.sliceUint16 [0x0102, 0x0304]) := by decide
example : unmarshal [0x1C, 1] 0 btEnum true true = .ok (.sliceBool [255, 1]) ∧
    marshal (.sliceBool [255, 1]) 0 = some [255, 1] ∧
    unmarshal [255, 1] 0 btEnum true true = .ok (.sliceBool [255, 1]) := by decide
/-- … and bytes that are not UTF-8 with an embedded U+FFFD, an empty segment and an unterminated tail, read as a string array -/
example : unmarshal [0x61, 0xFF, 0x62, 0, 0, 0xEF, 0xBF, 0xBD, 0x63, 0, 0x64] 0 btString false true = .ok (.sliceString [[0x61, 0x62], [0x63]]) ∧
    marshal (.sliceString [[0x61, 0x62], [0x63]]) 0 = some [0x61, 0x62, 0, 0x63, 0] ∧
    unmarshal [0x61, 0x62, 0, 0x63, 0] 0 btString false true = .ok (.sliceString [[0x61, 0x62], [0x63]]) := by decide

/-! ### tags and accessors -/

/-- **The tag never collides with the content.** For every value whose length fits the 59 length bits
(any slice that fits in memory), `Type()` computed on the representation — pointer inside `memptr` for
scalars, top 5 bits of `num` for slices and strings — is the constructor's type, and the length read back
through `vmask` is the length stored. -/
theorem C06_tag (v : Value) (h : len v < 2 ^ vshift) :
    (toRaw v).typeOf = typeOf v ∧ (isSlice v = true ∨ typeOf v = typeString → (toRaw v).len = len v) := by
  cases v
  case invalid => exact ⟨rfl, fun hc => by rcases hc with hc | hc <;> simp [isSlice, typeOf, typeInvalid, typeString] at hc⟩
  case string s => exact ⟨sliceNum_type _ _ h, fun _ => sliceNum_len _ _ h⟩
  case sliceBool vs | sliceInt8 vs | sliceUint8 vs | sliceInt16 vs | sliceUint16 vs | sliceInt32 vs | sliceUint32 vs
     | sliceInt64 vs | sliceUint64 vs | sliceFloat32 vs | sliceFloat64 vs | sliceString vs =>
    exact ⟨sliceNum_type _ _ h, fun _ => sliceNum_len _ _ h⟩
  all_goals
    refine ⟨scalar_tag _ _ (by decide), fun hc => ?_⟩
    rcases hc with hc | hc
    · simp [isSlice] at hc
    · simp only [typeOf] at hc; exact absurd hc (by decide)

/-- **No value is accepted by an accessor of another type.** Each of the 28 typed accessors returns its
wrong-type default (sentinel, "", nil) for every value whose type is not the accessor's. -/
theorem C06_no_cross_type (v : Value) : ∀ i ∈ accept v, accessorType i = typeOf v := by
  intro i hi
  cases v <;> simp only [accept] at hi
  case invalid => cases hi
  case uint8 | uint16 | uint32 | uint64 =>
    rcases List.mem_append.mp hi with h | h <;> (have := mem_ifNe h; subst this; rfl)
  case bool | int8 | int16 | int32 | int64 | float32 | float64 =>
    have := mem_ifNe hi; subst this; rfl
  all_goals
    split at hi
    · cases hi
    · simp only [List.mem_cons, List.not_mem_nil, or_false] at hi; subst hi; rfl

/-! ### `Any` -/

/-- `typedef.Bool` has three values -/
def boolDomain : Value → Bool
  | .bool b => b == 0 || b == 1 || b == 255
  | _ => true

/-- **Unwrapping and wrapping again preserves type and content**: `proto.Any(v.Any()) = v`. -/
theorem C06_any_roundtrip (v : Value) (h : boolDomain v = true) :
    ofAny (toAny v) = v ∧ typeOf (ofAny (toAny v)) = typeOf v := by
  have : ofAny (toAny v) = v := by
    cases v <;> try rfl
    case bool b =>
      simp only [boolDomain, Bool.or_eq_true, beq_iff_eq] at h
      rcases h with (h | h) | h <;> subst h <;> decide
  rw [this]; exact ⟨rfl, rfl⟩

/-- **The reflection path agrees with the typed constructors.** For every Go value — of an unnamed basic type (fast path),
of a NAMED type over any of them (every `typedef` type, slices of them, named slice types), behind a pointer, named types of
named types, pointers to named types — `proto.Any` returns what the typed constructor (`proto.Uint8`, `proto.SliceUint16`, …:
`ofAnyDirect`) returns for the value seen by KIND (`underlying`: names transparent, one pointer followed, `typedef.Bool`
behind a name or pointer a uint8, a `proto.Value` behind a pointer a struct). Guard: no float32 scalar signalling NaN through
reflection (`float32(rv.Float())` quiets it: platform behaviour of the Go conversion, reproduced by `quiet32`). -/
theorem C06_any_reflect_agrees (g : GoVal) (h : noSNaN32 g = true) : ofAny g = ofAnyDirect (underlying g) :=
  any_reflect_agrees g h

/-- **Wrapping then unwrapping preserves type and content**: `proto.Any(v).Any()` is the content of `v` unchanged, as the
unnamed Go type of its kind (`expectAny`): identical for the 11 scalar and 12 slice types of the fast path; a named type /
slice of a named type / pointer comes back as the basic type of its kind with the same elements; a Go `bool` as
`typedef.Bool` 0 / 1; a `typedef.Bool` outside {0, 1} as `BoolInvalid`; anything `proto.Any` does not support as nil. -/
theorem C06_any_wrap_unwrap (g : GoVal) (h : noSNaN32 g = true) : toAny (ofAny g) = expectAny g :=
  any_wrap_unwrap g h

/-- non-vacuity: `typedef.Sport(5)` (named uint8), `[]typedef.MesgNum{20, 0}` (slice of a named uint16), `*uint32`,
a named type of a named type, `*typedef.Bool(2)` (a uint8 by kind), a named float32 that is a quiet NaN -/
example : toAny (ofAny (.named (.uint8 5))) = .uint8 5 ∧ toAny (ofAny (.named (.uint16s [20, 0]))) = .uint16s [20, 0] ∧
    toAny (ofAny (.ptr (.uint32 7))) = .uint32 7 ∧ toAny (ofAny (.named (.named (.int16 3)))) = .int16 3 ∧
    toAny (ofAny (.ptr (.tbool 2))) = .uint8 2 ∧ toAny (ofAny (.tbool 2)) = .tbool 255 ∧
    noSNaN32 (.named (.float32 0x7FC00001)) = true ∧ noSNaN32 (.named (.float32 0x7F800001)) = false ∧
    noSNaN32 (.float32 0x7F800001) = true :=
  ⟨rfl, rfl, rfl, rfl, rfl, rfl, by decide, by decide, by decide⟩

/-- **Unsupported kinds give the invalid value** (never a value of another type): nil, `int` / `uint` / structs / maps /
`[]any` (named or not, behind a pointer or not), a pointer to a pointer, a pointer to a `proto.Value`. -/
theorem C06_any_unsupported (g : GoVal) (v : Value) :
    ofAny .nil = .invalid ∧ ofAny .unsupported = .invalid ∧ ofAny (.named .unsupported) = .invalid ∧
    ofAny (.ptr .unsupported) = .invalid ∧ ofAny (.ptr .nil) = .invalid ∧ ofAny (.ptr (.ptr g)) = .invalid ∧
    ofAny (.ptr (.value v)) = .invalid ∧ ofAny (.named (.ptr (.ptr g))) = .invalid := by
  refine ⟨rfl, rfl, rfl, rfl, rfl, rfl, rfl, ?_⟩
  simp [ofAny, strip, byKind]

/-- **Names are transparent**: a named type of a named type is its innermost kind, and a pointer to a named type is a
pointer to what it names. -/
theorem C06_any_names_transparent (g : GoVal) :
    ofAny (.named (.named g)) = ofAny (.named g) ∧ ofAny (.ptr (.named g)) = ofAny (.ptr g) := by
  constructor <;> simp [ofAny, strip]

/-- `Align` looks at a value only through its type (scalar and slice of the same element type agree
by definition of `align`). -/
theorem C06_align_by_type (v w : Value) (bt : Nat) (h : typeOf v = typeOf w) : align v bt = align w bt := by
  cases v <;> cases w <;> first | rfl | (exfalso; simp only [typeOf] at h; exact absurd h (by decide))

end Fit.C06
