import FitModel.Value
/-! # C06 (placeholder while the lemma files are written) -/
namespace Fit.C06
end Fit.C06
