import FitModel.Integrity
import FitModel.IntegritySpec
import FitProps.CrcAlgebra
import FitProps.C18
/-!
Helper lemmas about the integrity model (`FitModel/Integrity.lean`): closed form of `discardMessages`,
what a successful header decode says about the bytes, the reading invariant of `decodeMessages`
(every byte consumed is folded into the running CRC), fuel independence of the loops.
-/
namespace Fit.Integrity
open Fit.Crc Fit.Gen.Integ

/-! ### obligations on the regenerated constants -/
theorem reservedbuf_pos : 0 < reservedbuf := by decide
theorem dataTypeFIT_eq : dataTypeFIT = [0x2E, 0x46, 0x49, 0x54] := by decide

theorem write_eq_spec (p : List Nat) (hp : Bytes p) (c : Nat) (hc : c < 2 ^ 16) : write c p = crcSpec c p :=
  Fit.C18.C18_write_eq_spec p hp c hc

theorem write_append (c : Nat) (p q : List Nat) : write c (p ++ q) = write (write c p) q := by
  simp [write, List.foldl_append]

theorem not_hasN (l : List Nat) (n : Nat) : (!hasN l n) = true ↔ l.length < n := by
  rw [Bool.not_eq_true', ← Bool.not_eq_true, hasN_iff]; omega

/-! ### `discardMessages` in closed form -/

theorem discard_spec (fuel remaining crc : Nat) (bs : List Nat) (hf : remaining ≤ fuel) :
    discard fuel remaining crc bs =
      if bs.length < remaining then .error .eof else .ok (write crc (bs.take remaining), bs.drop remaining) := by
  induction fuel generalizing remaining crc bs with
  | zero =>
    have : remaining = 0 := by omega
    subst this; simp [discard, write]
  | succ fuel ih =>
    unfold discard
    by_cases h0 : remaining = 0
    · subst h0; simp [write]
    · simp only [h0, if_false]
      have hpos := reservedbuf_pos
      have hs1 : 1 ≤ min remaining reservedbuf := by omega
      have hs2 : min remaining reservedbuf ≤ remaining := Nat.min_le_left _ _
      by_cases hlen : bs.length < min remaining reservedbuf
      · have : (!hasN bs (min remaining reservedbuf)) = true := (not_hasN _ _).mpr hlen
        simp only [this, if_true]
        have : bs.length < remaining := by omega
        simp [this]
      · have : (!hasN bs (min remaining reservedbuf)) = false := by
          rw [Bool.eq_false_iff]; intro h; exact hlen ((not_hasN _ _).mp h)
        simp only [this, Bool.false_eq_true, if_false]
        rw [ih _ _ _ (by omega)]
        have hl : (bs.drop (min remaining reservedbuf)).length = bs.length - min remaining reservedbuf := by simp
        by_cases hr : bs.length < remaining
        · have : (bs.drop (min remaining reservedbuf)).length < remaining - min remaining reservedbuf := by rw [hl]; omega
          rw [if_pos this, if_pos hr]
        · have : ¬ (bs.drop (min remaining reservedbuf)).length < remaining - min remaining reservedbuf := by rw [hl]; omega
          rw [if_neg this, if_neg hr]
          have e1 : bs.take remaining = bs.take (min remaining reservedbuf) ++
              (bs.drop (min remaining reservedbuf)).take (remaining - min remaining reservedbuf) := by
            conv => lhs; rw [show remaining = min remaining reservedbuf + (remaining - min remaining reservedbuf) by omega]
            rw [List.take_add]
          have e2 : (bs.drop (min remaining reservedbuf)).drop (remaining - min remaining reservedbuf) = bs.drop remaining := by
            rw [List.drop_drop]; congr 1; omega
          rw [e1, write_append, e2]

end Fit.Integrity

namespace Fit.Integrity
open Fit.Crc Fit.Gen.Integ

/-! ### the file header -/

/-- the header decode looks at the first `size` bytes only -/
theorem decodeFileHeader_take (chk : Bool) (size : Nat) (t : List Nat) (hl : size - 1 ≤ t.length) :
    decodeFileHeader chk (size :: t) =
      match decodeFileHeader chk (size :: t.take (size - 1)) with
      | .error e => .error e
      | .ok (h, _) => .ok (h, t.drop (size - 1)) := by
  unfold decodeFileHeader
  by_cases hs : size ≠ 12 ∧ size ≠ 14
  · simp [hs]
  · simp only [hs, if_false]
    have h1 : hasN t (size - 1) = true := (hasN_iff _ _).mpr hl
    have h2 : hasN (t.take (size - 1)) (size - 1) = true := (hasN_iff _ _).mpr (by simp; omega)
    simp only [h1, h2, Bool.not_true, Bool.false_eq_true, if_false, List.take_take, Nat.min_self]
    repeat (first | rfl | split)

/-- what a successful header decode says about the stream -/
theorem decodeFileHeader_ok {chk : Bool} {bs : List Nat} {h : Hdr} {rest : List Nat}
    (H : decodeFileHeader chk bs = .ok (h, rest)) :
    (h.size = 12 ∨ h.size = 14) ∧ bs.head? = some h.size ∧ h.size ≤ bs.length ∧ rest = bs.drop h.size ∧
    h.dataSize ≠ 0 := by
  unfold decodeFileHeader at H
  cases bs with
  | nil => simp at H
  | cons size t =>
    simp only at H
    by_cases hs : size ≠ 12 ∧ size ≠ 14
    · simp [hs] at H
    · simp only [hs, if_false] at H
      have hsz : size = 12 ∨ size = 14 := by omega
      by_cases hn : (!hasN t (size - 1)) = true
      · simp [hn] at H
      · simp only [hn] at H
        have hlen : size - 1 ≤ t.length := by
          have := mt (not_hasN t (size - 1)).mpr hn
          omega
        have hdrop : t.drop (size - 1) = (size :: t).drop size := by
          rcases hsz with h | h <;> subst h <;> rfl
        repeat' split at H
        all_goals first
          | (cases H; done)
          | (cases H; exact ⟨hsz, rfl, by simp only [List.length_cons]; omega, hdrop, by assumption⟩)

end Fit.Integrity

namespace Fit.Integrity
open Fit.Crc Fit.Gen.Integ

/-! ### the reading invariant of `decodeMessages`: every byte consumed is folded into the running CRC -/

/-- `s'` is reached from `s` by reading `c`: a prefix of the remaining stream, counted in `cur`, folded into the CRC -/
def Reads (chk : Bool) (s s' : RS) : Prop :=
  ∃ c, s.rest = c ++ s'.rest ∧ s'.cur = s.cur + c.length ∧ s'.crc = (if chk then write s.crc c else s.crc)

theorem Reads.refl (chk : Bool) (s : RS) : Reads chk s s := ⟨[], by simp, by simp, by cases chk <;> simp [write]⟩

theorem Reads.trans {chk : Bool} {s1 s2 s3 : RS} (h1 : Reads chk s1 s2) (h2 : Reads chk s2 s3) : Reads chk s1 s3 := by
  obtain ⟨c1, r1, n1, k1⟩ := h1
  obtain ⟨c2, r2, n2, k2⟩ := h2
  refine ⟨c1 ++ c2, by rw [r1, r2, List.append_assoc], by rw [n2, n1, List.length_append, Nat.add_assoc], ?_⟩
  cases chk
  · simp_all
  · simp only [if_true] at *; rw [k2, k1, write_append]

theorem Reads.cur_le {chk : Bool} {s s' : RS} (h : Reads chk s s') : s.cur ≤ s'.cur := by
  obtain ⟨c, _, n, _⟩ := h; omega

theorem readN_reads {chk : Bool} {n : Nat} {s s' : RS} {b : List Nat} (H : readN chk n s = .ok (b, s')) :
    Reads chk s s' ∧ s'.cur = s.cur + n := by
  unfold readN at H
  split at H
  · cases H
  · rename_i hn
    have hlen : n ≤ s.rest.length := by
      have := mt (not_hasN s.rest n).mpr hn
      omega
    cases H
    exact ⟨⟨s.rest.take n, by simp, by simp [Nat.min_eq_left hlen], rfl⟩, rfl⟩

theorem decodeDefinition_reads {chk : Bool} {header : Nat} {s s' : RS} {st st' : DS}
    (H : decodeDefinition chk header s st = .ok (s', st')) : Reads chk s s' := by
  unfold decodeDefinition at H
  split at H
  · cases H
  · rename_i b s1 h1
    simp only at H
    split at H
    · cases H
    · rename_i fb s2 h2
      split at H
      · cases H
      · split at H
        · split at H
          · cases H
          · rename_i nb s3 h3
            split at H
            · cases H
            · rename_i db s4 h4
              cases H
              exact (readN_reads h1).1.trans ((readN_reads h2).1.trans ((readN_reads h3).1.trans (readN_reads h4).1))
        · cases H
          exact (readN_reads h1).1.trans (readN_reads h2).1

theorem decodeFields_reads {chk : Bool} (fs : List Triplet) {s s' : RS} {acc vals : List (Nat × Nat)}
    (H : decodeFields chk fs s acc = .ok (s', vals)) : Reads chk s s' := by
  induction fs generalizing s acc with
  | nil => unfold decodeFields at H; cases H; exact Reads.refl _ _
  | cons f fs ih =>
    obtain ⟨num, size, bt⟩ := f
    unfold decodeFields at H
    split at H
    · exact ih H
    · split at H
      · cases H
      · rename_i b s1 h1
        exact (readN_reads h1).1.trans (ih H)

theorem decodeDevFields_reads {chk : Bool} {descs : List Triplet} (fs : List Triplet) {s s' : RS}
    (H : decodeDevFields chk descs fs s = .ok s') : Reads chk s s' := by
  induction fs generalizing s with
  | nil => unfold decodeDevFields at H; cases H; exact Reads.refl _ _
  | cons f fs ih =>
    obtain ⟨num, size, ddi⟩ := f
    unfold decodeDevFields at H
    split at H
    · split at H
      · cases H
      · rename_i b s1 h1
        exact (readN_reads h1).1.trans (ih H)
    · split at H
      · cases H
      · split at H
        · exact ih H
        · split at H
          · cases H
          · rename_i b s1 h1
            exact (readN_reads h1).1.trans (ih H)

theorem decodeData_reads {chk : Bool} {header : Nat} {s s' : RS} {st st' : DS}
    (H : decodeData chk header s st = .ok (s', st')) : Reads chk s s' := by
  unfold decodeData at H
  simp only at H
  split at H
  · cases H
  · split at H
    · cases H
    · rename_i s1 vals h1
      split at H
      · cases H
      · rename_i s2 h2
        cases H
        exact (decodeFields_reads _ h1).trans (decodeDevFields_reads _ h2)

/-- one record: reads at least its header byte -/
theorem decodeMessage_reads {chk : Bool} {s s' : RS} {st st' : DS}
    (H : decodeMessage chk s st = .ok (s', st')) : Reads chk s s' ∧ s.cur + 1 ≤ s'.cur := by
  unfold decodeMessage at H
  split at H
  · cases H
  · rename_i b s1 h1
    have r1 := readN_reads h1
    simp only at H
    split at H
    · have r2 := decodeDefinition_reads H
      exact ⟨r1.1.trans r2, by have := r2.cur_le; omega⟩
    · have r2 := decodeData_reads H
      exact ⟨r1.1.trans r2, by have := r2.cur_le; omega⟩

/-- the record loop: reads, and (with enough fuel) ends at or beyond `dataSize` -/
theorem decodeMessages_reads {chk : Bool} {dataSize : Nat} (fuel : Nat) {s s' : RS} {st st' : DS}
    (H : decodeMessages chk dataSize fuel s st = .ok (s', st')) :
    Reads chk s s' ∧ (dataSize ≤ s'.cur ∨ s.cur + fuel ≤ s'.cur) := by
  induction fuel generalizing s st with
  | zero => unfold decodeMessages at H; cases H; exact ⟨Reads.refl _ _, Or.inr (by omega)⟩
  | succ fuel ih =>
    unfold decodeMessages at H
    split at H
    · split at H
      · cases H
      · rename_i s1 st1 h1
        have r1 := decodeMessage_reads h1
        have r2 := ih H
        refine ⟨r1.1.trans r2.1, ?_⟩
        rcases r2.2 with h | h
        · exact Or.inl h
        · exact Or.inr (by omega)
    · cases H
      exact ⟨Reads.refl _ _, Or.inl (by omega)⟩

end Fit.Integrity

namespace Fit.Integrity
open Fit.Crc Fit.Gen.Integ

/-! ### intact single-sequence files with a 14-byte header -/

export Fit.IntegritySpec (IsEncoderOutput14)

/-- the same, spelled out byte by byte -/
def Intact14 (f : List Nat) : Prop :=
  ∃ pv p0 p1 d0 d1 d2 d3 k0 k1 c0 c1 body,
    f = 14 :: pv :: p0 :: p1 :: d0 :: d1 :: d2 :: d3 :: 0x2E :: 0x46 :: 0x49 :: 0x54 :: k0 :: k1 :: (body ++ [c0, c1]) ∧
    body.length = d0 + 256 * d1 + 65536 * d2 + 16777216 * d3 ∧
    k0 + 256 * k1 = crcSpec 0 [14, pv, p0, p1, d0, d1, d2, d3, 0x2E, 0x46, 0x49, 0x54] ∧
    c0 + 256 * c1 = crcSpec 0 (f.take (14 + body.length)) ∧
    Bytes f

theorem parseSeqs_singleton {fuel off : Nat} {f : List Nat} {s : FitFormat.SeqView}
    (H : FitFormat.parseSeqs fuel off f = some [s]) : FitFormat.parseSeq off f = some (s, []) := by
  cases fuel with
  | zero => cases f <;> simp [FitFormat.parseSeqs] at H
  | succ fuel =>
    cases f with
    | nil => simp [FitFormat.parseSeqs] at H
    | cons a t =>
      simp only [FitFormat.parseSeqs] at H
      split at H
      · cases H
      · rename_i s' rest hs
        split at H
        · cases H
        · rename_i ss hss
          simp only [Option.some.injEq, List.cons.injEq] at H
          obtain ⟨h1, h2⟩ := H
          subst h1 h2
          have : rest = [] := by
            cases fuel with
            | zero => cases rest with
              | nil => rfl
              | cons _ _ => simp [FitFormat.parseSeqs] at hss
            | succ fuel => cases rest with
              | nil => rfl
              | cons _ _ =>
                simp only [FitFormat.parseSeqs] at hss
                split at hss
                · cases hss
                · split at hss <;> cases hss
          rw [hs, this]

theorem encoderOutput_intact {f : List Nat} (H : IsEncoderOutput14 f) : Intact14 f := by
  obtain ⟨hb, s, hp, hsz, hhc, hfc⟩ := H
  have hseq := parseSeqs_singleton hp
  unfold FitFormat.parseSeq at hseq
  split at hseq
  · cases hseq
  · rename_i h hh
    simp only at hseq
    split at hseq
    · cases hseq
    · rename_i hlen
      split at hseq
      · cases hseq
      · rename_i rs hrs
        split at hseq
        · rename_i c0 c1 rest hdrop
          simp only [Option.some.injEq, Prod.mk.injEq] at hseq
          obtain ⟨hs, hrest⟩ := hseq
          subst hs hrest
          simp only at hsz hhc hfc
          -- the header, byte by byte
          unfold FitFormat.parseHeader at hh
          split at hh
          · rename_i size pv p0 p1 d0 d1 d2 d3 t0 t1 t2 t3 rest
            split at hh
            · cases hh
            · rename_i htag
              have htag' : [t0, t1, t2, t3] = FitFormat.tag := by simpa using htag
              simp only [FitFormat.tag, List.cons.injEq, and_true] at htag'
              obtain ⟨e0, e1, e2, e3⟩ := htag'
              subst e0 e1 e2 e3
              split at hh
              · cases hh; simp at hsz
              · split at hh
                · rename_i h14
                  subst h14
                  split at hh
                  · rename_i k0 k1 body'
                    cases hh
                    simp only [FitFormat.le32, FitFormat.le16] at *
                    -- body' = body ++ [c0, c1]
                    simp only [List.drop_succ_cons, List.drop_zero] at hdrop
                    have hb' : body' = body'.take (d0 + 256 * d1 + 65536 * d2 + 16777216 * d3) ++ [c0, c1] := by
                      conv => lhs; rw [← List.take_append_drop (d0 + 256 * d1 + 65536 * d2 + 16777216 * d3) body']
                      rw [hdrop]
                    have hl : (body'.take (d0 + 256 * d1 + 65536 * d2 + 16777216 * d3)).length =
                        d0 + 256 * d1 + 65536 * d2 + 16777216 * d3 := by
                      have := congrArg List.length hdrop
                      simp at this
                      simp; omega
                    refine ⟨pv, p0, p1, d0, d1, d2, d3, k0, k1, c0, c1, _, by rw [← hb'], hl, ?_, ?_, hb⟩
                    · simpa [FitFormat.headerCrcStrict, FitFormat.slice] using hhc
                    · rw [hl]
                      simpa [FitFormat.fileCrcOk, FitFormat.slice] using hfc
                  · cases hh
                · cases hh
          · cases hh
        · cases hseq

end Fit.Integrity

namespace Fit.Integrity
open Fit.Crc Fit.Gen.Integ

/-- the decoder's header step on a 14-byte header that carries its computed CRC: accepted (unless the data size
is 0), whatever follows the header -/
theorem header14_decode (chk : Bool) (pv p0 p1 d0 d1 d2 d3 k0 k1 : Nat) (x : List Nat)
    (hb : Bytes [14, pv, p0, p1, d0, d1, d2, d3, 0x2E, 0x46, 0x49, 0x54])
    (hk : k0 + 256 * k1 = crcSpec 0 [14, pv, p0, p1, d0, d1, d2, d3, 0x2E, 0x46, 0x49, 0x54])
    (hD : d0 + 256 * d1 + 65536 * d2 + 16777216 * d3 ≠ 0) :
    decodeFileHeader chk (14 :: pv :: p0 :: p1 :: d0 :: d1 :: d2 :: d3 :: 0x2E :: 0x46 :: 0x49 :: 0x54 :: k0 :: k1 :: x) =
      .ok (⟨14, d0 + 256 * d1 + 65536 * d2 + 16777216 * d3, k0 + 256 * k1⟩, x) := by
  have hw : write (write 0 [14]) [pv, p0, p1, d0, d1, d2, d3, 0x2E, 0x46, 0x49, 0x54] =
      crcSpec 0 [14, pv, p0, p1, d0, d1, d2, d3, 0x2E, 0x46, 0x49, 0x54] := by
    rw [← write_eq_spec _ hb 0 (by decide)]; rfl
  unfold decodeFileHeader
  simp only [hasN, List.take, List.drop, le32, le16, dataTypeFIT_eq]
  simp only [hD, hw, ← hk]
  simp

end Fit.Integrity

namespace Fit.Integrity
open Fit.Crc Fit.Gen.Integ

/-! ### one sequence after its header -/

/-- one turn of the `CheckIntegrity` loop once the header has been accepted, in closed form -/
theorem checkLoop_step (fuel seq : Nat) (bs : List Nat) (h : Hdr) (rest : List Nat)
    (hh : decodeFileHeader true bs = .ok (h, rest)) :
    checkLoop (fuel + 1) seq bs =
      if rest.length < h.dataSize + 2 then .err .eof seq
      else if write 0 (rest.take h.dataSize) ≠ le16 (rest.drop h.dataSize) then .err .crc seq
      else checkLoop fuel (seq + 1) (rest.drop (h.dataSize + 2)) := by
  conv => lhs; unfold checkLoop
  simp only [hh]
  rw [discard_spec _ _ _ _ (Nat.le_refl _)]
  by_cases h1 : rest.length < h.dataSize
  · have : rest.length < h.dataSize + 2 := by omega
    simp [h1, this]
  · simp only [h1, if_false]
    have hl : (rest.drop h.dataSize).length = rest.length - h.dataSize := by simp
    by_cases h2 : rest.length < h.dataSize + 2
    · simp only [h2, if_true]
      match hd : rest.drop h.dataSize with
      | [] => rfl
      | [_] => rfl
      | a :: b :: t => rw [hd] at hl; simp at hl; omega
    · simp only [h2, if_false]
      match hd : rest.drop h.dataSize with
      | [] => rw [hd] at hl; simp at hl; omega
      | [_] => rw [hd] at hl; simp at hl; omega
      | a :: b :: t =>
        have : rest.drop (h.dataSize + 2) = t := by
          rw [← List.drop_drop, hd]; rfl
        simp only [this, le16]
        rfl

/-- NO FAKE SUCCESS of one `Decode`: if the body decodes, the stream is `c ++ [lo, hi] ++ rest'` where the records
consumed, `c`, cover at least `dataSize` bytes and — with checksums on — `[lo, hi]` is the CRC of exactly `c` -/
theorem decodeBody_ok {chk : Bool} {h : Hdr} {rest rest' : List Nat} {m : Nat}
    (H : decodeBody chk h rest = .ok (m, rest')) :
    ∃ c lo hi, rest = c ++ lo :: hi :: rest' ∧ h.dataSize ≤ c.length ∧ (chk = true → write 0 c = lo + 256 * hi) := by
  unfold decodeBody at H
  split at H
  · cases H
  · rename_i s st hm
    have ⟨⟨c, hr, hcur, hcrc⟩, hend⟩ := decodeMessages_reads _ hm
    simp only at hr hcur hcrc hend
    split at H
    · rename_i lo hi rest'' hs
      split at H
      · cases H
      · rename_i hcmp
        cases H
        refine ⟨c, lo, hi, by rw [hr, hs], by omega, ?_⟩
        intro hc
        subst hc
        simp only [true_and, Decidable.not_not, le16] at hcmp
        rw [← hcmp, hcrc]; rfl
    · cases H

end Fit.Integrity

namespace Fit.Integrity
open Fit.Crc Fit.Gen.Integ

/-! ### the trailing CRC as a residue -/

theorem two_of_length {l : List Nat} (h : l.length = 2) : ∃ a b, l = [a, b] := by
  match l, h with
  | [a, b], _ => exact ⟨a, b, rfl⟩

/-- for `r` = records ++ two CRC bytes: the decoder's comparison succeeds iff the CRC of all of `r` is 0 -/
theorem residue_iff (r : List Nat) (D : Nat) (hb : Bytes r) (hl : r.length = D + 2) :
    write 0 (r.take D) = le16 (r.drop D) ↔ crcSpec 0 r = 0 := by
  obtain ⟨a, b, hab⟩ := two_of_length (l := r.drop D) (by simp; omega)
  have hr : r = r.take D ++ [a, b] := by rw [← hab, List.take_append_drop]
  have ha : a < 256 := hb a (by rw [hr]; simp)
  have hb' : b < 256 := hb b (by rw [hr]; simp)
  rw [hab, write_eq_spec _ (hb.take D) 0 (by decide)]
  conv => rhs; rw [hr]
  rw [crc_eq_iff_residue_zero _ (hb.take D) a b ha hb']
  simp only [le16]
  exact eq_comm

/-- a 14-byte header carrying its computed CRC leaves the CRC register at 0 -/
theorem crc_header14_zero (H12 : List Nat) (k0 k1 : Nat) (hb : Bytes H12) (hk0 : k0 < 256) (hk1 : k1 < 256)
    (hk : k0 + 256 * k1 = crcSpec 0 H12) : crcSpec 0 (H12 ++ [k0, k1]) = 0 :=
  (crc_eq_iff_residue_zero H12 hb k0 k1 hk0 hk1).mpr hk

/-- an intact file: the part after the header (records and trailing CRC) has CRC residue 0, is `dataSize + 2` long -/
theorem intact_tail {f : List Nat} (H : Intact14 f) :
    ∃ pv p0 p1 d0 d1 d2 d3 k0 k1 rest,
      f = 14 :: pv :: p0 :: p1 :: d0 :: d1 :: d2 :: d3 :: 0x2E :: 0x46 :: 0x49 :: 0x54 :: k0 :: k1 :: rest ∧
      Bytes [14, pv, p0, p1, d0, d1, d2, d3, 0x2E, 0x46, 0x49, 0x54] ∧
      k0 + 256 * k1 = crcSpec 0 [14, pv, p0, p1, d0, d1, d2, d3, 0x2E, 0x46, 0x49, 0x54] ∧
      rest.length = d0 + 256 * d1 + 65536 * d2 + 16777216 * d3 + 2 ∧ Bytes rest ∧ crcSpec 0 rest = 0 := by
  obtain ⟨pv, p0, p1, d0, d1, d2, d3, k0, k1, c0, c1, body, hf, hlen, hk, hc, hb⟩ := H
  refine ⟨pv, p0, p1, d0, d1, d2, d3, k0, k1, body ++ [c0, c1], hf, ?_, hk, by simp [hlen], ?_, ?_⟩
  · intro x hx; apply hb x; rw [hf]
    simp only [List.mem_cons] at hx ⊢
    rcases hx with h | h | h | h | h | h | h | h | h | h | h | h | h
    all_goals first | (simp [h]; done) | (simp at h)
  · intro x hx; apply hb x; rw [hf]; simp only [List.mem_cons]; simp only [List.mem_append] at hx ⊢
    rcases hx with h | h
    · simp [h]
    · simp at h; rcases h with h | h <;> simp [h]
  · have hc0 : c0 < 256 := hb c0 (by rw [hf]; simp)
    have hc1 : c1 < 256 := hb c1 (by rw [hf]; simp)
    have hk0 : k0 < 256 := hb k0 (by rw [hf]; simp)
    have hk1 : k1 < 256 := hb k1 (by rw [hf]; simp)
    have hbody : Bytes body := by intro x hx; apply hb x; rw [hf]; simp [hx]
    have hH12 : Bytes [14, pv, p0, p1, d0, d1, d2, d3, 0x2E, 0x46, 0x49, 0x54] := by
      intro x hx; apply hb x; rw [hf]
      simp only [List.mem_cons] at hx ⊢
      rcases hx with h | h | h | h | h | h | h | h | h | h | h | h | h
      all_goals first | (simp [h]; done) | (simp at h)
    have hz := crc_header14_zero _ k0 k1 hH12 hk0 hk1 hk
    have htake : f.take (14 + body.length) =
        ([14, pv, p0, p1, d0, d1, d2, d3, 0x2E, 0x46, 0x49, 0x54] ++ [k0, k1]) ++ body := by
      rw [hf]
      show List.take (14 + body.length) (([14, pv, p0, p1, d0, d1, d2, d3, 0x2E, 0x46, 0x49, 0x54] ++ [k0, k1]) ++ (body ++ [c0, c1])) = _
      rw [show 14 + body.length = ([14, pv, p0, p1, d0, d1, d2, d3, 0x2E, 0x46, 0x49, 0x54] ++ [k0, k1]).length + body.length from rfl,
        List.take_length_add_append, List.take_left' rfl]
    rw [htake, crcSpec_append, hz] at hc
    exact (crc_eq_iff_residue_zero body hbody c0 c1 hc0 hc1).mpr hc

/-- CORE OF C04: corrupt the tail of an intact file by a burst — the decoder's CRC comparison fails -/
theorem tail_mismatch (rest e : List Nat) (D : Nat) (hr : Bytes rest) (he : Bytes e) (hl : rest.length = D + 2)
    (hle : e.length = rest.length) (hz : crcSpec 0 rest = 0) (hb : BurstWithin16 e) :
    write 0 ((xorL rest e).take D) ≠ le16 ((xorL rest e).drop D) := by
  intro h
  have hx := (residue_iff (xorL rest e) D (xorL_bytes _ _ hr he) (by rw [xorL_length _ _ hle.symm, hl])).mp h
  have hlin := crcSpec_linear rest e hle.symm 0 0
  rw [Nat.xor_self, hz, Nat.zero_xor] at hlin
  exact burst_nonzero e he hb (by rw [← hlin, hx])

end Fit.Integrity

namespace Fit.Integrity
open Fit.Crc Fit.Gen.Integ

/-! ### the `CheckIntegrity` loop: fuel independence, count shift, appended data -/

/-- add `k` to the count of completed sequences -/
def bump (k : Nat) : Result → Result
  | .ok n => .ok (n + k)
  | .err e n => .err e (n + k)

theorem checkLoop_nil (fuel seq : Nat) (hs : seq ≠ 0) : checkLoop (fuel + 1) seq [] = .ok seq := by
  simp [checkLoop, decodeFileHeader, hs]

theorem checkLoop_fuel (fuel fuel' seq : Nat) (bs : List Nat) (h1 : bs.length < fuel) (h2 : bs.length < fuel') :
    checkLoop fuel seq bs = checkLoop fuel' seq bs := by
  induction fuel generalizing fuel' seq bs with
  | zero => omega
  | succ fuel ih =>
    obtain ⟨fuel', rfl⟩ : ∃ k, fuel' = k + 1 := ⟨fuel' - 1, by omega⟩
    cases hh : decodeFileHeader true bs with
    | error e => unfold checkLoop; simp only [hh]
    | ok p =>
      obtain ⟨h, rest⟩ := p
      rw [checkLoop_step _ _ _ _ _ hh, checkLoop_step _ _ _ _ _ hh]
      obtain ⟨hsz, _, hle, hrest, _⟩ := decodeFileHeader_ok hh
      have hl : (rest.drop (h.dataSize + 2)).length < bs.length := by
        rw [hrest]; simp; omega
      rw [ih fuel' (seq + 1) _ (by omega) (by omega)]

theorem checkLoop_bump (fuel seq k : Nat) (bs : List Nat) (h : bs ≠ [] ∨ seq ≠ 0) :
    checkLoop fuel (seq + k) bs = bump k (checkLoop fuel seq bs) := by
  induction fuel generalizing seq bs with
  | zero => simp [checkLoop, bump]
  | succ fuel ih =>
    cases hh : decodeFileHeader true bs with
    | error e =>
      unfold checkLoop; simp only [hh]
      cases bs with
      | nil =>
        have : seq ≠ 0 := by rcases h with h | h; exact absurd rfl h; exact h
        have h2 : seq + k ≠ 0 := by omega
        simp [this, bump]
      | cons a t => simp [bump]
    | ok p =>
      obtain ⟨hd, rest⟩ := p
      rw [checkLoop_step _ _ _ _ _ hh, checkLoop_step _ _ _ _ _ hh]
      split
      · rfl
      · split
        · rfl
        · rw [show seq + k + 1 = (seq + 1) + k by omega]
          exact ih (seq + 1) _ (Or.inr (by omega))

/-- the header decode of a stream followed by more data -/
theorem decodeFileHeader_append {chk : Bool} {bs : List Nat} {h : Hdr} {rest : List Nat}
    (hh : decodeFileHeader chk bs = .ok (h, rest)) (s : List Nat) :
    decodeFileHeader chk (bs ++ s) = .ok (h, rest ++ s) := by
  obtain ⟨hsz, hhead, hle, hrest, _⟩ := decodeFileHeader_ok hh
  cases bs with
  | nil => simp at hhead
  | cons size t =>
    simp only [List.head?_cons, Option.some.injEq] at hhead
    subst hhead
    have hl : h.size - 1 ≤ t.length := by simp at hle; omega
    rw [decodeFileHeader_take chk _ t hl] at hh
    rw [List.cons_append, decodeFileHeader_take chk _ (t ++ s) (by simp; omega)]
    have e1 : (t ++ s).take (h.size - 1) = t.take (h.size - 1) := List.take_append_of_le_length hl
    rw [e1]
    split at hh
    · cases hh
    · rename_i h' r' hh'
      simp only [Except.ok.injEq, Prod.mk.injEq] at hh ⊢
      obtain ⟨e2, e3⟩ := hh
      exact ⟨e2, by rw [← e3, List.drop_append_of_le_length hl]⟩

theorem le16_append_of_two {l : List Nat} (h : 2 ≤ l.length) (s : List Nat) : le16 (l ++ s) = le16 l := by
  match l, h with
  | a :: b :: t, _ => rfl

/-- if the check accepts `bs`, then on `bs ++ s` (with `s ≠ []`) it arrives at `s` with the same count -/
theorem checkLoop_append (fuel seq n : Nat) (bs s : List Nat)
    (H : checkLoop fuel seq bs = .ok n) (hf : bs.length < fuel) (fuel' : Nat) (hf' : (bs ++ s).length < fuel') :
    checkLoop fuel' seq (bs ++ s) = checkLoop fuel' n s := by
  induction fuel generalizing fuel' seq bs with
  | zero => omega
  | succ fuel ih =>
    obtain ⟨fuel', rfl⟩ : ∃ k, fuel' = k + 1 := ⟨fuel' - 1, by omega⟩
    cases hh : decodeFileHeader true bs with
    | error e =>
      unfold checkLoop at H; simp only [hh] at H
      cases bs with
      | nil =>
        split at H
        · cases H; rfl
        · cases H
      | cons a t => simp at H
    | ok p =>
      obtain ⟨h, rest⟩ := p
      rw [checkLoop_step _ _ _ _ _ hh] at H
      rw [checkLoop_step _ _ _ _ _ (decodeFileHeader_append hh s)]
      obtain ⟨hsz, _, hle, hrest, _⟩ := decodeFileHeader_ok hh
      split at H
      · cases H
      · rename_i hlen
        split at H
        · cases H
        · rename_i hcrc
          have hlen' : h.dataSize + 2 ≤ rest.length := by omega
          have c1 : ¬ (rest ++ s).length < h.dataSize + 2 := by simp; omega
          have t1 : (rest ++ s).take h.dataSize = rest.take h.dataSize := List.take_append_of_le_length (by omega)
          have d1 : (rest ++ s).drop h.dataSize = rest.drop h.dataSize ++ s := List.drop_append_of_le_length (by omega)
          have d2 : (rest ++ s).drop (h.dataSize + 2) = rest.drop (h.dataSize + 2) ++ s := List.drop_append_of_le_length hlen'
          rw [if_neg c1, t1, d1, le16_append_of_two (by simp; omega), if_neg hcrc, d2]
          have hl : (rest.drop (h.dataSize + 2)).length + 14 ≤ bs.length + 2 := by
            rw [hrest]; simp; omega
          have hbl : (bs ++ s).length = bs.length + s.length := by simp
          have hrl : (rest.drop (h.dataSize + 2) ++ s).length = (rest.drop (h.dataSize + 2)).length + s.length := by simp
          rw [ih (seq + 1) _ H (by omega) fuel' (by omega)]
          exact checkLoop_fuel _ _ _ _ (by omega) (by omega)

end Fit.Integrity

namespace Fit.Integrity
open Fit.Crc Fit.Gen.Integ

/-! ### the decoder's header step against the protocol reading of the header (`FitFormat.parseHeader`) -/

/-- the decoder's header step on any stream that starts with 14 and carries the tag, evaluated -/
theorem header14_eval (pv p0 p1 d0 d1 d2 d3 k0 k1 : Nat) (x : List Nat)
    (hb : Bytes [14, pv, p0, p1, d0, d1, d2, d3, 0x2E, 0x46, 0x49, 0x54]) :
    decodeFileHeader true (14 :: pv :: p0 :: p1 :: d0 :: d1 :: d2 :: d3 :: 0x2E :: 0x46 :: 0x49 :: 0x54 :: k0 :: k1 :: x) =
      if d0 + 256 * d1 + 65536 * d2 + 16777216 * d3 = 0 then .error .notFit
      else if k0 + 256 * k1 = 0 then .ok (⟨14, d0 + 256 * d1 + 65536 * d2 + 16777216 * d3, k0 + 256 * k1⟩, x)
      else if crcSpec 0 [14, pv, p0, p1, d0, d1, d2, d3, 0x2E, 0x46, 0x49, 0x54] ≠ k0 + 256 * k1 then .error .crc
      else .ok (⟨14, d0 + 256 * d1 + 65536 * d2 + 16777216 * d3, k0 + 256 * k1⟩, x) := by
  have hw : write (write 0 [14]) [pv, p0, p1, d0, d1, d2, d3, 0x2E, 0x46, 0x49, 0x54] =
      crcSpec 0 [14, pv, p0, p1, d0, d1, d2, d3, 0x2E, 0x46, 0x49, 0x54] := by
    rw [← write_eq_spec _ hb 0 (by decide)]; rfl
  unfold decodeFileHeader
  simp only [hasN, List.take, List.drop, le32, le16, dataTypeFIT_eq, hw]
  simp

/-- what `parseHeader` returning a header says about the stream -/
theorem parseHeader_some {bs : List Nat} {h : FitFormat.Header} (H : FitFormat.parseHeader bs = some h) :
    ∃ pv p0 p1 d0 d1 d2 d3 t,
      bs = h.size :: pv :: p0 :: p1 :: d0 :: d1 :: d2 :: d3 :: 0x2E :: 0x46 :: 0x49 :: 0x54 :: t ∧
      h.dataSize = d0 + 256 * d1 + 65536 * d2 + 16777216 * d3 ∧
      ((h.size = 12 ∧ h.crc = none) ∨ (h.size = 14 ∧ ∃ k0 k1 t', t = k0 :: k1 :: t' ∧ h.crc = some (k0 + 256 * k1))) := by
  unfold FitFormat.parseHeader at H
  split at H
  · rename_i size pv p0 p1 d0 d1 d2 d3 t0 t1 t2 t3 rest
    split at H
    · cases H
    · rename_i htag
      have htag' : [t0, t1, t2, t3] = FitFormat.tag := by simpa using htag
      simp only [FitFormat.tag, List.cons.injEq, and_true] at htag'
      obtain ⟨e0, e1, e2, e3⟩ := htag'
      subst e0 e1 e2 e3
      split at H
      · rename_i h12
        cases H
        exact ⟨pv, p0, p1, d0, d1, d2, d3, rest, by rw [h12], rfl, Or.inl ⟨rfl, rfl⟩⟩
      · split at H
        · rename_i h14
          split at H
          · rename_i k0 k1 t'
            cases H
            exact ⟨pv, p0, p1, d0, d1, d2, d3, _, by rw [h14], rfl, Or.inr ⟨rfl, k0, k1, t', rfl, rfl⟩⟩
          · cases H
        · cases H
  · cases H

/-- the decoder accepts a header only where the protocol reading sees one -/
theorem parseHeader_of_decode {bs : List Nat} {h : Hdr} {rest : List Nat}
    (H : decodeFileHeader true bs = .ok (h, rest)) : FitFormat.parseHeader bs ≠ none := by
  unfold decodeFileHeader at H
  cases bs with
  | nil => simp at H
  | cons size t =>
    simp only at H
    by_cases hs : size ≠ 12 ∧ size ≠ 14
    · simp [hs] at H
    · simp only [hs, if_false] at H
      have hsz : size = 12 ∨ size = 14 := by omega
      by_cases hn : (!hasN t (size - 1)) = true
      · simp [hn] at H
      · simp only [hn] at H
        have hlen : size - 1 ≤ t.length := by
          have := mt (not_hasN t (size - 1)).mpr hn
          omega
        by_cases htag : (List.drop 7 (List.take (size - 1) t)).take 4 ≠ dataTypeFIT
        · simp [htag] at H
        · have htag' : (List.drop 7 (List.take (size - 1) t)).take 4 = dataTypeFIT := by simpa using htag
          rw [dataTypeFIT_eq] at htag'
          rcases hsz with h12 | h14
          · subst h12
            match t, hlen, htag' with
            | pv :: p0 :: p1 :: d0 :: d1 :: d2 :: d3 :: t0 :: t1 :: t2 :: t3 :: rest', _, htag' =>
              simp only [List.take, List.drop, List.cons.injEq, and_true] at htag'
              obtain ⟨e0, e1, e2, e3⟩ := htag'
              subst e0 e1 e2 e3
              simp [FitFormat.parseHeader, FitFormat.tag]
          · subst h14
            match t, hlen, htag' with
            | pv :: p0 :: p1 :: d0 :: d1 :: d2 :: d3 :: t0 :: t1 :: t2 :: t3 :: k0 :: k1 :: rest', _, htag' =>
              simp only [List.take, List.drop, List.cons.injEq, and_true] at htag'
              obtain ⟨e0, e1, e2, e3⟩ := htag'
              subst e0 e1 e2 e3
              simp [FitFormat.parseHeader, FitFormat.tag]

end Fit.Integrity

namespace Fit.Integrity
open Fit.Crc Fit.Gen.Integ

/-! ### `CheckIntegrity` against the reference, in lockstep -/

/-- verdict and count of a `CheckIntegrity` outcome -/
def verdict : Result → IntegritySpec.Verdict
  | .ok n => .ok n
  | .err _ n => .bad n

theorem check_ref_lockstep (fuel seq : Nat) (bs : List Nat) (hb : Bytes bs) (hf : bs.length < fuel)
    (hleg : IntegritySpec.legacyLoop fuel bs = false) :
    verdict (checkLoop fuel seq bs) = IntegritySpec.refLoop fuel seq bs := by
  induction fuel generalizing seq bs with
  | zero => omega
  | succ fuel ih =>
    cases bs with
    | nil =>
      by_cases hs : seq = 0 <;> simp [checkLoop, decodeFileHeader, IntegritySpec.refLoop, verdict, hs]
    | cons a t =>
      cases hp : FitFormat.parseHeader (a :: t) with
      | none =>
        have hr : IntegritySpec.refLoop (fuel + 1) seq (a :: t) = .bad seq := by
          simp [IntegritySpec.refLoop, IntegritySpec.seqValid, hp]
        rw [hr]
        cases hh : decodeFileHeader true (a :: t) with
        | ok p => exact absurd hp (parseHeader_of_decode (h := p.1) (rest := p.2) hh)
        | error e => unfold checkLoop; simp [hh, verdict]
      | some h =>
        unfold IntegritySpec.legacyLoop at hleg
        simp only [hp] at hleg
        obtain ⟨pv, p0, p1, d0, d1, d2, d3, t1, hbs, hD, hcase⟩ := parseHeader_some hp
        split at hleg
        · cases hleg
        · rename_i hcrc
          rcases hcase with ⟨_, hnone⟩ | ⟨h14, k0, k1, t', ht1, hk⟩
          · exact absurd (Or.inl hnone) hcrc
          · subst ht1
            have hk0 : k0 + 256 * k1 ≠ 0 := by
              intro h0; apply hcrc; right; rw [hk, h0]
            rw [h14] at hbs
            have hH12 : Bytes [14, pv, p0, p1, d0, d1, d2, d3, 0x2E, 0x46, 0x49, 0x54] := by
              intro x hx; apply hb x; rw [hbs]
              simp only [List.mem_cons] at hx ⊢
              rcases hx with h | h | h | h | h | h | h | h | h | h | h | h | h
              all_goals first | (simp [h]; done) | (simp at h)
            have hk0b : k0 < 256 := hb k0 (by rw [hbs]; simp)
            have hk1b : k1 < 256 := hb k1 (by rw [hbs]; simp)
            have ht'b : Bytes t' := by intro x hx; apply hb x; rw [hbs]; simp [hx]
            have hev := header14_eval pv p0 p1 d0 d1 d2 d3 k0 k1 t' hH12
            rw [← hbs, ← hD] at hev
            have htake12 : (a :: t).take 12 = [14, pv, p0, p1, d0, d1, d2, d3, 0x2E, 0x46, 0x49, 0x54] := by rw [hbs]; rfl
            -- the reference on this sequence
            have hsv : IntegritySpec.seqValid (a :: t) =
                if h.dataSize = 0 then none
                else if (k0 + 256 * k1 ≠ crcSpec 0 [14, pv, p0, p1, d0, d1, d2, d3, 0x2E, 0x46, 0x49, 0x54]) then none
                else match t'.drop h.dataSize with
                  | c0 :: c1 :: _ => if FitFormat.le16 c0 c1 = crcSpec 0 ((a :: t).take (14 + h.dataSize)) then some (14 + h.dataSize + 2) else none
                  | _ => none := by
              unfold IntegritySpec.seqValid
              simp only [hp, hk, IntegritySpec.headerCrcBad, htake12, h14]
              have hdrop : (a :: t).drop (14 + h.dataSize) = t'.drop h.dataSize := by
                rw [hbs, Nat.add_comm]; simp [List.drop_succ_cons]
              rw [hdrop]
              by_cases hz : h.dataSize = 0
              · simp [hz]
              · simp only [hz, if_false, hk0, ne_eq, not_false_eq_true, decide_true, Bool.true_and,
                  decide_eq_true_eq]
                rfl
            by_cases hz : h.dataSize = 0
            · -- data size 0: both reject
              rw [if_pos hz] at hev
              have hr : IntegritySpec.refLoop (fuel + 1) seq (a :: t) = .bad seq := by
                simp [IntegritySpec.refLoop, hsv, hz]
              rw [hr]; unfold checkLoop; simp [hev, verdict]
            · rw [if_neg hz, if_neg hk0] at hev
              by_cases hbad : crcSpec 0 [14, pv, p0, p1, d0, d1, d2, d3, 0x2E, 0x46, 0x49, 0x54] ≠ k0 + 256 * k1
              · -- header CRC wrong: both reject
                rw [if_pos hbad] at hev
                have hr : IntegritySpec.refLoop (fuel + 1) seq (a :: t) = .bad seq := by
                  have : k0 + 256 * k1 ≠ crcSpec 0 [14, pv, p0, p1, d0, d1, d2, d3, 0x2E, 0x46, 0x49, 0x54] := fun e => hbad e.symm
                  simp [IntegritySpec.refLoop, hsv, hz, this]
                rw [hr]; unfold checkLoop; simp [hev, verdict]
              · rw [if_neg hbad] at hev
                have hgood : k0 + 256 * k1 = crcSpec 0 [14, pv, p0, p1, d0, d1, d2, d3, 0x2E, 0x46, 0x49, 0x54] := by
                  have := Decidable.not_not.mp hbad; exact this.symm
                rw [checkLoop_step _ _ _ _ _ hev]
                simp only
                rw [if_neg hz, if_neg (by rw [hgood]; simp)] at hsv
                by_cases hlen : t'.length < h.dataSize + 2
                · -- truncated: both reject
                  rw [if_pos hlen]
                  have hr : IntegritySpec.refLoop (fuel + 1) seq (a :: t) = .bad seq := by
                    have hl : (t'.drop h.dataSize).length < 2 := by simp; omega
                    unfold IntegritySpec.refLoop
                    simp only [List.isEmpty_cons, Bool.false_eq_true, if_false, hsv]
                    match hd : t'.drop h.dataSize with
                    | [] => rfl
                    | [_] => rfl
                    | _ :: _ :: _ => rw [hd] at hl; simp at hl; omega
                  rw [hr]; rfl
                · rw [if_neg hlen]
                  obtain ⟨c0, c1, t'', hd⟩ : ∃ c0 c1 t'', t'.drop h.dataSize = c0 :: c1 :: t'' := by
                    have hl : 2 ≤ (t'.drop h.dataSize).length := by simp; omega
                    match hd : t'.drop h.dataSize, hl with
                    | c0 :: c1 :: t'', _ => exact ⟨c0, c1, t'', rfl⟩
                  have hd2 : t'.drop (h.dataSize + 2) = t'' := by rw [← List.drop_drop, hd]; rfl
                  -- the CRC over the whole sequence equals the CRC over the records (header residue 0)
                  have hcrc_eq : crcSpec 0 ((a :: t).take (14 + h.dataSize)) = write 0 (t'.take h.dataSize) := by
                    have : (a :: t).take (14 + h.dataSize) =
                        ([14, pv, p0, p1, d0, d1, d2, d3, 0x2E, 0x46, 0x49, 0x54] ++ [k0, k1]) ++ t'.take h.dataSize := by
                      rw [hbs, Nat.add_comm]; simp [List.take_succ_cons]
                    rw [this, crcSpec_append, crc_header14_zero _ k0 k1 hH12 hk0b hk1b hgood,
                      write_eq_spec _ (ht'b.take _) 0 (by decide)]
                  rw [hd] at hsv
                  simp only [hcrc_eq, FitFormat.le16] at hsv
                  rw [hd, hd2]
                  simp only [le16]
                  by_cases hc : ¬ write 0 (t'.take h.dataSize) = c0 + 256 * c1
                  · simp only [ne_eq, hc, not_false_eq_true, if_true]
                    have hr : IntegritySpec.refLoop (fuel + 1) seq (a :: t) = .bad seq := by
                      unfold IntegritySpec.refLoop
                      simp only [List.isEmpty_cons, Bool.false_eq_true, if_false, hsv]
                      rw [if_neg (fun e => hc e.symm)]
                    rw [hr]; rfl
                  · simp only [hc, if_false]
                    have hc' : c0 + 256 * c1 = write 0 (t'.take h.dataSize) := (Decidable.not_not.mp hc).symm
                    have hdropn : (a :: t).drop (14 + h.dataSize + 2) = t'' := by
                      rw [← hd2, hbs, show 14 + h.dataSize + 2 = (h.dataSize + 2) + 14 by omega]
                      simp [List.drop_succ_cons]
                    have hr : IntegritySpec.refLoop (fuel + 1) seq (a :: t) = IntegritySpec.refLoop fuel (seq + 1) t'' := by
                      conv => lhs; unfold IntegritySpec.refLoop
                      simp only [List.isEmpty_cons, Bool.false_eq_true, if_false, hsv]
                      rw [if_pos hc']
                      simp only [hdropn]
                    rw [hr]
                    rw [hsv, if_pos hc'] at hleg
                    simp only [hdropn] at hleg
                    have hlt : t''.length < fuel := by
                      have : t''.length ≤ t'.length := by rw [← hd2]; simp
                      have : (a :: t).length = t'.length + 14 := by rw [hbs]; simp
                      omega
                    exact ih (seq + 1) t'' (by rw [← hd2]; exact ht'b.drop _) hlt hleg

end Fit.Integrity
