import FitModel.Integrity
import FitModel.IntegritySpec
import FitProps.CrcAlgebra
import FitProps.C18
/-!
Helper lemmas about the integrity model (`FitModel/Integrity.lean`): closed form of `discardMessages`,
what a successful header decode says about the bytes, the reading invariant of `decodeMessages`
(every byte consumed is folded into the running CRC), fuel independence of the loops.
-/
namespace Fit.Integrity
open Fit.Crc Fit.Gen.Integ

/-! ### obligations on the regenerated constants -/
theorem reservedbuf_pos : 0 < reservedbuf := by decide
theorem dataTypeFIT_eq : dataTypeFIT = [0x2E, 0x46, 0x49, 0x54] := by decide

theorem write_eq_spec (p : List Nat) (hp : Bytes p) (c : Nat) (hc : c < 2 ^ 16) : write c p = crcSpec c p :=
  Fit.C18.C18_write_eq_spec p hp c hc

theorem write_append (c : Nat) (p q : List Nat) : write c (p ++ q) = write (write c p) q := by
  simp [write, List.foldl_append]

theorem not_hasN (l : List Nat) (n : Nat) : (!hasN l n) = true ↔ l.length < n := by
  rw [Bool.not_eq_true', ← Bool.not_eq_true, hasN_iff]; omega

/-! ### `discardMessages` in closed form -/

theorem discard_spec (fuel remaining crc : Nat) (bs : List Nat) (hf : remaining ≤ fuel) :
    discard fuel remaining crc bs =
      if bs.length < remaining then .error .eof else .ok (write crc (bs.take remaining), bs.drop remaining) := by
  induction fuel generalizing remaining crc bs with
  | zero =>
    have : remaining = 0 := by omega
    subst this; simp [discard, write]
  | succ fuel ih =>
    unfold discard
    by_cases h0 : remaining = 0
    · subst h0; simp [write]
    · simp only [h0, if_false]
      have hpos := reservedbuf_pos
      have hs1 : 1 ≤ min remaining reservedbuf := by omega
      have hs2 : min remaining reservedbuf ≤ remaining := Nat.min_le_left _ _
      by_cases hlen : bs.length < min remaining reservedbuf
      · have : (!hasN bs (min remaining reservedbuf)) = true := (not_hasN _ _).mpr hlen
        simp only [this, if_true]
        have : bs.length < remaining := by omega
        simp [this]
      · have : (!hasN bs (min remaining reservedbuf)) = false := by
          rw [Bool.eq_false_iff]; intro h; exact hlen ((not_hasN _ _).mp h)
        simp only [this, Bool.false_eq_true, if_false]
        rw [ih _ _ _ (by omega)]
        have hl : (bs.drop (min remaining reservedbuf)).length = bs.length - min remaining reservedbuf := by simp
        by_cases hr : bs.length < remaining
        · have : (bs.drop (min remaining reservedbuf)).length < remaining - min remaining reservedbuf := by rw [hl]; omega
          rw [if_pos this, if_pos hr]
        · have : ¬ (bs.drop (min remaining reservedbuf)).length < remaining - min remaining reservedbuf := by rw [hl]; omega
          rw [if_neg this, if_neg hr]
          have e1 : bs.take remaining = bs.take (min remaining reservedbuf) ++
              (bs.drop (min remaining reservedbuf)).take (remaining - min remaining reservedbuf) := by
            conv => lhs; rw [show remaining = min remaining reservedbuf + (remaining - min remaining reservedbuf) by omega]
            rw [List.take_add]
          have e2 : (bs.drop (min remaining reservedbuf)).drop (remaining - min remaining reservedbuf) = bs.drop remaining := by
            rw [List.drop_drop]; congr 1; omega
          rw [e1, write_append, e2]

end Fit.Integrity

namespace Fit.Integrity
open Fit.Crc Fit.Gen.Integ

/-! ### the file header -/

/-- the header decode looks at the first `size` bytes only -/
theorem decodeFileHeader_take (chk : Bool) (size : Nat) (t : List Nat) (hl : size - 1 ≤ t.length) :
    decodeFileHeader chk (size :: t) =
      match decodeFileHeader chk (size :: t.take (size - 1)) with
      | .error e => .error e
      | .ok (h, _) => .ok (h, t.drop (size - 1)) := by
  unfold decodeFileHeader
  by_cases hs : size ≠ 12 ∧ size ≠ 14
  · simp [hs]
  · simp only [hs, if_false]
    have h1 : hasN t (size - 1) = true := (hasN_iff _ _).mpr hl
    have h2 : hasN (t.take (size - 1)) (size - 1) = true := (hasN_iff _ _).mpr (by simp; omega)
    simp only [h1, h2, Bool.not_true, Bool.false_eq_true, if_false, List.take_take, Nat.min_self]
    repeat (first | rfl | split)

/-- what a successful header decode says about the stream -/
theorem decodeFileHeader_ok {chk : Bool} {bs : List Nat} {h : Hdr} {rest : List Nat}
    (H : decodeFileHeader chk bs = .ok (h, rest)) :
    (h.size = 12 ∨ h.size = 14) ∧ bs.head? = some h.size ∧ h.size ≤ bs.length ∧ rest = bs.drop h.size ∧
    h.dataSize ≠ 0 := by
  unfold decodeFileHeader at H
  cases bs with
  | nil => simp at H
  | cons size t =>
    simp only at H
    by_cases hs : size ≠ 12 ∧ size ≠ 14
    · simp [hs] at H
    · simp only [hs, if_false] at H
      have hsz : size = 12 ∨ size = 14 := by omega
      by_cases hn : (!hasN t (size - 1)) = true
      · simp [hn] at H
      · simp only [hn] at H
        have hlen : size - 1 ≤ t.length := by
          have := mt (not_hasN t (size - 1)).mpr hn
          omega
        have hdrop : t.drop (size - 1) = (size :: t).drop size := by
          rcases hsz with h | h <;> subst h <;> rfl
        repeat' split at H
        all_goals first
          | (cases H; done)
          | (cases H; exact ⟨hsz, rfl, by simp only [List.length_cons]; omega, hdrop, by assumption⟩)

end Fit.Integrity

namespace Fit.Integrity
open Fit.Crc Fit.Gen.Integ

/-! ### the reading invariant of `decodeMessages`: every byte consumed is folded into the running CRC -/

/-- `s'` is reached from `s` by reading `c`: a prefix of the remaining stream, counted in `cur`, folded into the CRC -/
def Reads (chk : Bool) (s s' : RS) : Prop :=
  ∃ c, s.rest = c ++ s'.rest ∧ s'.cur = s.cur + c.length ∧ s'.crc = (if chk then write s.crc c else s.crc)

theorem Reads.refl (chk : Bool) (s : RS) : Reads chk s s := ⟨[], by simp, by simp, by cases chk <;> simp [write]⟩

theorem Reads.trans {chk : Bool} {s1 s2 s3 : RS} (h1 : Reads chk s1 s2) (h2 : Reads chk s2 s3) : Reads chk s1 s3 := by
  obtain ⟨c1, r1, n1, k1⟩ := h1
  obtain ⟨c2, r2, n2, k2⟩ := h2
  refine ⟨c1 ++ c2, by rw [r1, r2, List.append_assoc], by rw [n2, n1, List.length_append, Nat.add_assoc], ?_⟩
  cases chk
  · simp_all
  · simp only [if_true] at *; rw [k2, k1, write_append]

theorem Reads.cur_le {chk : Bool} {s s' : RS} (h : Reads chk s s') : s.cur ≤ s'.cur := by
  obtain ⟨c, _, n, _⟩ := h; omega

theorem readN_reads {chk : Bool} {n : Nat} {s s' : RS} {b : List Nat} (H : readN chk n s = .ok (b, s')) :
    Reads chk s s' ∧ s'.cur = s.cur + n := by
  unfold readN at H
  split at H
  · cases H
  · rename_i hn
    have hlen : n ≤ s.rest.length := by
      have := mt (not_hasN s.rest n).mpr hn
      omega
    cases H
    exact ⟨⟨s.rest.take n, by simp, by simp [Nat.min_eq_left hlen], rfl⟩, rfl⟩

theorem decodeDefinition_reads {chk : Bool} {header : Nat} {s s' : RS} {st st' : DS}
    (H : decodeDefinition chk header s st = .ok (s', st')) : Reads chk s s' := by
  unfold decodeDefinition at H
  split at H
  · cases H
  · rename_i b s1 h1
    simp only at H
    split at H
    · cases H
    · rename_i fb s2 h2
      split at H
      · cases H
      · split at H
        · split at H
          · cases H
          · rename_i nb s3 h3
            split at H
            · cases H
            · rename_i db s4 h4
              cases H
              exact (readN_reads h1).1.trans ((readN_reads h2).1.trans ((readN_reads h3).1.trans (readN_reads h4).1))
        · cases H
          exact (readN_reads h1).1.trans (readN_reads h2).1

theorem decodeFields_reads {chk : Bool} (fs : List Triplet) {s s' : RS} {acc vals : List (Nat × Nat)}
    (H : decodeFields chk fs s acc = .ok (s', vals)) : Reads chk s s' := by
  induction fs generalizing s acc with
  | nil => unfold decodeFields at H; cases H; exact Reads.refl _ _
  | cons f fs ih =>
    obtain ⟨num, size, bt⟩ := f
    unfold decodeFields at H
    split at H
    · exact ih H
    · split at H
      · cases H
      · rename_i b s1 h1
        exact (readN_reads h1).1.trans (ih H)

theorem decodeDevFields_reads {chk : Bool} {descs : List Triplet} (fs : List Triplet) {s s' : RS}
    (H : decodeDevFields chk descs fs s = .ok s') : Reads chk s s' := by
  induction fs generalizing s with
  | nil => unfold decodeDevFields at H; cases H; exact Reads.refl _ _
  | cons f fs ih =>
    obtain ⟨num, size, ddi⟩ := f
    unfold decodeDevFields at H
    split at H
    · split at H
      · cases H
      · rename_i b s1 h1
        exact (readN_reads h1).1.trans (ih H)
    · split at H
      · cases H
      · split at H
        · exact ih H
        · split at H
          · cases H
          · rename_i b s1 h1
            exact (readN_reads h1).1.trans (ih H)

theorem decodeData_reads {chk : Bool} {header : Nat} {s s' : RS} {st st' : DS}
    (H : decodeData chk header s st = .ok (s', st')) : Reads chk s s' := by
  unfold decodeData at H
  simp only at H
  split at H
  · cases H
  · split at H
    · cases H
    · rename_i s1 vals h1
      split at H
      · cases H
      · rename_i s2 h2
        cases H
        exact (decodeFields_reads _ h1).trans (decodeDevFields_reads _ h2)

/-- one record: reads at least its header byte -/
theorem decodeMessage_reads {chk : Bool} {s s' : RS} {st st' : DS}
    (H : decodeMessage chk s st = .ok (s', st')) : Reads chk s s' ∧ s.cur + 1 ≤ s'.cur := by
  unfold decodeMessage at H
  split at H
  · cases H
  · rename_i b s1 h1
    have r1 := readN_reads h1
    simp only at H
    split at H
    · have r2 := decodeDefinition_reads H
      exact ⟨r1.1.trans r2, by have := r2.cur_le; omega⟩
    · have r2 := decodeData_reads H
      exact ⟨r1.1.trans r2, by have := r2.cur_le; omega⟩

/-- the record loop: reads, and (with enough fuel) ends at or beyond `dataSize` -/
theorem decodeMessages_reads {chk : Bool} {dataSize : Nat} (fuel : Nat) {s s' : RS} {st st' : DS}
    (H : decodeMessages chk dataSize fuel s st = .ok (s', st')) :
    Reads chk s s' ∧ (dataSize ≤ s'.cur ∨ s.cur + fuel ≤ s'.cur) := by
  induction fuel generalizing s st with
  | zero => unfold decodeMessages at H; cases H; exact ⟨Reads.refl _ _, Or.inr (by omega)⟩
  | succ fuel ih =>
    unfold decodeMessages at H
    split at H
    · split at H
      · cases H
      · rename_i s1 st1 h1
        have r1 := decodeMessage_reads h1
        have r2 := ih H
        refine ⟨r1.1.trans r2.1, ?_⟩
        rcases r2.2 with h | h
        · exact Or.inl h
        · exact Or.inr (by omega)
    · cases H
      exact ⟨Reads.refl _ _, Or.inl (by omega)⟩

end Fit.Integrity

namespace Fit.Integrity
open Fit.Crc Fit.Gen.Integ

/-! ### intact single-sequence files with a 14-byte header -/

/-- "ENCODER OUTPUT" as a predicate on bytes, stated with the independent framing reader: the stream is one
well-formed sequence with a 14-byte header that carries its computed CRC, and a correct file CRC. -/
def IsEncoderOutput14 (f : List Nat) : Prop :=
  Bytes f ∧ ∃ s, FitFormat.parseStream f = some [s] ∧ s.header.size = 14 ∧
    FitFormat.headerCrcStrict f s = true ∧ FitFormat.fileCrcOk f s = true

/-- the same, spelled out byte by byte -/
def Intact14 (f : List Nat) : Prop :=
  ∃ pv p0 p1 d0 d1 d2 d3 k0 k1 c0 c1 body,
    f = 14 :: pv :: p0 :: p1 :: d0 :: d1 :: d2 :: d3 :: 0x2E :: 0x46 :: 0x49 :: 0x54 :: k0 :: k1 :: (body ++ [c0, c1]) ∧
    body.length = d0 + 256 * d1 + 65536 * d2 + 16777216 * d3 ∧
    k0 + 256 * k1 = crcSpec 0 [14, pv, p0, p1, d0, d1, d2, d3, 0x2E, 0x46, 0x49, 0x54] ∧
    c0 + 256 * c1 = crcSpec 0 (f.take (14 + body.length)) ∧
    Bytes f

theorem parseSeqs_singleton {fuel off : Nat} {f : List Nat} {s : FitFormat.SeqView}
    (H : FitFormat.parseSeqs fuel off f = some [s]) : FitFormat.parseSeq off f = some (s, []) := by
  cases fuel with
  | zero => cases f <;> simp [FitFormat.parseSeqs] at H
  | succ fuel =>
    cases f with
    | nil => simp [FitFormat.parseSeqs] at H
    | cons a t =>
      simp only [FitFormat.parseSeqs] at H
      split at H
      · cases H
      · rename_i s' rest hs
        split at H
        · cases H
        · rename_i ss hss
          simp only [Option.some.injEq, List.cons.injEq] at H
          obtain ⟨h1, h2⟩ := H
          subst h1 h2
          have : rest = [] := by
            cases fuel with
            | zero => cases rest with
              | nil => rfl
              | cons _ _ => simp [FitFormat.parseSeqs] at hss
            | succ fuel => cases rest with
              | nil => rfl
              | cons _ _ =>
                simp only [FitFormat.parseSeqs] at hss
                split at hss
                · cases hss
                · split at hss <;> cases hss
          rw [hs, this]

theorem encoderOutput_intact {f : List Nat} (H : IsEncoderOutput14 f) : Intact14 f := by
  obtain ⟨hb, s, hp, hsz, hhc, hfc⟩ := H
  have hseq := parseSeqs_singleton hp
  unfold FitFormat.parseSeq at hseq
  split at hseq
  · cases hseq
  · rename_i h hh
    simp only at hseq
    split at hseq
    · cases hseq
    · rename_i hlen
      split at hseq
      · cases hseq
      · rename_i rs hrs
        split at hseq
        · rename_i c0 c1 rest hdrop
          simp only [Option.some.injEq, Prod.mk.injEq] at hseq
          obtain ⟨hs, hrest⟩ := hseq
          subst hs hrest
          simp only at hsz hhc hfc
          -- the header, byte by byte
          unfold FitFormat.parseHeader at hh
          split at hh
          · rename_i size pv p0 p1 d0 d1 d2 d3 t0 t1 t2 t3 rest
            split at hh
            · cases hh
            · rename_i htag
              have htag' : [t0, t1, t2, t3] = FitFormat.tag := by simpa using htag
              simp only [FitFormat.tag, List.cons.injEq, and_true] at htag'
              obtain ⟨e0, e1, e2, e3⟩ := htag'
              subst e0 e1 e2 e3
              split at hh
              · cases hh; simp at hsz
              · split at hh
                · rename_i h14
                  subst h14
                  split at hh
                  · rename_i k0 k1 body'
                    cases hh
                    simp only [FitFormat.le32, FitFormat.le16] at *
                    -- body' = body ++ [c0, c1]
                    simp only [List.drop_succ_cons, List.drop_zero] at hdrop
                    have hb' : body' = body'.take (d0 + 256 * d1 + 65536 * d2 + 16777216 * d3) ++ [c0, c1] := by
                      conv => lhs; rw [← List.take_append_drop (d0 + 256 * d1 + 65536 * d2 + 16777216 * d3) body']
                      rw [hdrop]
                    have hl : (body'.take (d0 + 256 * d1 + 65536 * d2 + 16777216 * d3)).length =
                        d0 + 256 * d1 + 65536 * d2 + 16777216 * d3 := by
                      have := congrArg List.length hdrop
                      simp at this
                      simp; omega
                    refine ⟨pv, p0, p1, d0, d1, d2, d3, k0, k1, c0, c1, _, by rw [← hb'], hl, ?_, ?_, hb⟩
                    · simpa [FitFormat.headerCrcStrict, FitFormat.slice] using hhc
                    · rw [hl]
                      simpa [FitFormat.fileCrcOk, FitFormat.slice] using hfc
                  · cases hh
                · cases hh
          · cases hh
        · cases hseq

end Fit.Integrity

namespace Fit.Integrity
open Fit.Crc Fit.Gen.Integ

/-- the decoder's header step on a 14-byte header that carries its computed CRC: accepted (unless the data size
is 0), whatever follows the header -/
theorem header14_decode (chk : Bool) (pv p0 p1 d0 d1 d2 d3 k0 k1 : Nat) (x : List Nat)
    (hb : Bytes [14, pv, p0, p1, d0, d1, d2, d3, 0x2E, 0x46, 0x49, 0x54])
    (hk : k0 + 256 * k1 = crcSpec 0 [14, pv, p0, p1, d0, d1, d2, d3, 0x2E, 0x46, 0x49, 0x54])
    (hD : d0 + 256 * d1 + 65536 * d2 + 16777216 * d3 ≠ 0) :
    decodeFileHeader chk (14 :: pv :: p0 :: p1 :: d0 :: d1 :: d2 :: d3 :: 0x2E :: 0x46 :: 0x49 :: 0x54 :: k0 :: k1 :: x) =
      .ok (⟨14, d0 + 256 * d1 + 65536 * d2 + 16777216 * d3, k0 + 256 * k1⟩, x) := by
  have hw : write (write 0 [14]) [pv, p0, p1, d0, d1, d2, d3, 0x2E, 0x46, 0x49, 0x54] =
      crcSpec 0 [14, pv, p0, p1, d0, d1, d2, d3, 0x2E, 0x46, 0x49, 0x54] := by
    rw [← write_eq_spec _ hb 0 (by decide)]; rfl
  unfold decodeFileHeader
  simp only [hasN, List.take, List.drop, le32, le16, dataTypeFIT_eq]
  simp only [hD, hw, ← hk]
  simp

end Fit.Integrity

namespace Fit.Integrity
open Fit.Crc Fit.Gen.Integ

/-! ### one sequence after its header -/

/-- one turn of the `CheckIntegrity` loop once the header has been accepted, in closed form -/
theorem checkLoop_step (fuel seq : Nat) (bs : List Nat) (h : Hdr) (rest : List Nat)
    (hh : decodeFileHeader true bs = .ok (h, rest)) :
    checkLoop (fuel + 1) seq bs =
      if rest.length < h.dataSize + 2 then .err .eof seq
      else if write 0 (rest.take h.dataSize) ≠ le16 (rest.drop h.dataSize) then .err .crc seq
      else checkLoop fuel (seq + 1) (rest.drop (h.dataSize + 2)) := by
  conv => lhs; unfold checkLoop
  simp only [hh]
  rw [discard_spec _ _ _ _ (Nat.le_refl _)]
  by_cases h1 : rest.length < h.dataSize
  · have : rest.length < h.dataSize + 2 := by omega
    simp [h1, this]
  · simp only [h1, if_false]
    have hl : (rest.drop h.dataSize).length = rest.length - h.dataSize := by simp
    by_cases h2 : rest.length < h.dataSize + 2
    · simp only [h2, if_true]
      match hd : rest.drop h.dataSize with
      | [] => rfl
      | [_] => rfl
      | a :: b :: t => rw [hd] at hl; simp at hl; omega
    · simp only [h2, if_false]
      match hd : rest.drop h.dataSize with
      | [] => rw [hd] at hl; simp at hl; omega
      | [_] => rw [hd] at hl; simp at hl; omega
      | a :: b :: t =>
        have : rest.drop (h.dataSize + 2) = t := by
          rw [← List.drop_drop, hd]; rfl
        simp only [this, le16]
        rfl

/-- NO FAKE SUCCESS of one `Decode`: if the body decodes, the stream is `c ++ [lo, hi] ++ rest'` where the records
consumed, `c`, cover at least `dataSize` bytes and — with checksums on — `[lo, hi]` is the CRC of exactly `c` -/
theorem decodeBody_ok {chk : Bool} {h : Hdr} {rest rest' : List Nat} {m : Nat}
    (H : decodeBody chk h rest = .ok (m, rest')) :
    ∃ c lo hi, rest = c ++ lo :: hi :: rest' ∧ h.dataSize ≤ c.length ∧ (chk = true → write 0 c = lo + 256 * hi) := by
  unfold decodeBody at H
  split at H
  · cases H
  · rename_i s st hm
    have ⟨⟨c, hr, hcur, hcrc⟩, hend⟩ := decodeMessages_reads _ hm
    simp only at hr hcur hcrc hend
    split at H
    · rename_i lo hi rest'' hs
      split at H
      · cases H
      · rename_i hcmp
        cases H
        refine ⟨c, lo, hi, by rw [hr, hs], by omega, ?_⟩
        intro hc
        subst hc
        simp only [true_and, Decidable.not_not, le16] at hcmp
        rw [← hcmp, hcrc]; rfl
    · cases H

end Fit.Integrity

namespace Fit.Integrity
open Fit.Crc Fit.Gen.Integ

/-! ### the trailing CRC as a residue -/

theorem two_of_length {l : List Nat} (h : l.length = 2) : ∃ a b, l = [a, b] := by
  match l, h with
  | [a, b], _ => exact ⟨a, b, rfl⟩

/-- for `r` = records ++ two CRC bytes: the decoder's comparison succeeds iff the CRC of all of `r` is 0 -/
theorem residue_iff (r : List Nat) (D : Nat) (hb : Bytes r) (hl : r.length = D + 2) :
    write 0 (r.take D) = le16 (r.drop D) ↔ crcSpec 0 r = 0 := by
  obtain ⟨a, b, hab⟩ := two_of_length (l := r.drop D) (by simp; omega)
  have hr : r = r.take D ++ [a, b] := by rw [← hab, List.take_append_drop]
  have ha : a < 256 := hb a (by rw [hr]; simp)
  have hb' : b < 256 := hb b (by rw [hr]; simp)
  rw [hab, write_eq_spec _ (hb.take D) 0 (by decide)]
  conv => rhs; rw [hr]
  rw [crc_eq_iff_residue_zero _ (hb.take D) a b ha hb']
  simp only [le16]
  exact eq_comm

/-- a 14-byte header carrying its computed CRC leaves the CRC register at 0 -/
theorem crc_header14_zero (H12 : List Nat) (k0 k1 : Nat) (hb : Bytes H12) (hk0 : k0 < 256) (hk1 : k1 < 256)
    (hk : k0 + 256 * k1 = crcSpec 0 H12) : crcSpec 0 (H12 ++ [k0, k1]) = 0 :=
  (crc_eq_iff_residue_zero H12 hb k0 k1 hk0 hk1).mpr hk

/-- an intact file: the part after the header (records and trailing CRC) has CRC residue 0, is `dataSize + 2` long -/
theorem intact_tail {f : List Nat} (H : Intact14 f) :
    ∃ pv p0 p1 d0 d1 d2 d3 k0 k1 rest,
      f = 14 :: pv :: p0 :: p1 :: d0 :: d1 :: d2 :: d3 :: 0x2E :: 0x46 :: 0x49 :: 0x54 :: k0 :: k1 :: rest ∧
      Bytes [14, pv, p0, p1, d0, d1, d2, d3, 0x2E, 0x46, 0x49, 0x54] ∧
      k0 + 256 * k1 = crcSpec 0 [14, pv, p0, p1, d0, d1, d2, d3, 0x2E, 0x46, 0x49, 0x54] ∧
      rest.length = d0 + 256 * d1 + 65536 * d2 + 16777216 * d3 + 2 ∧ Bytes rest ∧ crcSpec 0 rest = 0 := by
  obtain ⟨pv, p0, p1, d0, d1, d2, d3, k0, k1, c0, c1, body, hf, hlen, hk, hc, hb⟩ := H
  refine ⟨pv, p0, p1, d0, d1, d2, d3, k0, k1, body ++ [c0, c1], hf, ?_, hk, by simp [hlen], ?_, ?_⟩
  · intro x hx; apply hb x; rw [hf]
    simp only [List.mem_cons] at hx ⊢
    rcases hx with h | h | h | h | h | h | h | h | h | h | h | h | h
    all_goals first | (simp [h]; done) | (simp at h)
  · intro x hx; apply hb x; rw [hf]; simp only [List.mem_cons]; simp only [List.mem_append] at hx ⊢
    rcases hx with h | h
    · simp [h]
    · simp at h; rcases h with h | h <;> simp [h]
  · have hc0 : c0 < 256 := hb c0 (by rw [hf]; simp)
    have hc1 : c1 < 256 := hb c1 (by rw [hf]; simp)
    have hk0 : k0 < 256 := hb k0 (by rw [hf]; simp)
    have hk1 : k1 < 256 := hb k1 (by rw [hf]; simp)
    have hbody : Bytes body := by intro x hx; apply hb x; rw [hf]; simp [hx]
    have hH12 : Bytes [14, pv, p0, p1, d0, d1, d2, d3, 0x2E, 0x46, 0x49, 0x54] := by
      intro x hx; apply hb x; rw [hf]
      simp only [List.mem_cons] at hx ⊢
      rcases hx with h | h | h | h | h | h | h | h | h | h | h | h | h
      all_goals first | (simp [h]; done) | (simp at h)
    have hz := crc_header14_zero _ k0 k1 hH12 hk0 hk1 hk
    have htake : f.take (14 + body.length) =
        ([14, pv, p0, p1, d0, d1, d2, d3, 0x2E, 0x46, 0x49, 0x54] ++ [k0, k1]) ++ body := by
      rw [hf]
      show List.take (14 + body.length) (([14, pv, p0, p1, d0, d1, d2, d3, 0x2E, 0x46, 0x49, 0x54] ++ [k0, k1]) ++ (body ++ [c0, c1])) = _
      rw [show 14 + body.length = ([14, pv, p0, p1, d0, d1, d2, d3, 0x2E, 0x46, 0x49, 0x54] ++ [k0, k1]).length + body.length from rfl,
        List.take_length_add_append, List.take_left' rfl]
    rw [htake, crcSpec_append, hz] at hc
    exact (crc_eq_iff_residue_zero body hbody c0 c1 hc0 hc1).mpr hc

/-- CORE OF C04: corrupt the tail of an intact file by a burst — the decoder's CRC comparison fails -/
theorem tail_mismatch (rest e : List Nat) (D : Nat) (hr : Bytes rest) (he : Bytes e) (hl : rest.length = D + 2)
    (hle : e.length = rest.length) (hz : crcSpec 0 rest = 0) (hb : BurstWithin16 e) :
    write 0 ((xorL rest e).take D) ≠ le16 ((xorL rest e).drop D) := by
  intro h
  have hx := (residue_iff (xorL rest e) D (xorL_bytes _ _ hr he) (by rw [xorL_length _ _ hle.symm, hl])).mp h
  have hlin := crcSpec_linear rest e hle.symm 0 0
  rw [Nat.xor_self, hz, Nat.zero_xor] at hlin
  exact burst_nonzero e he hb (by rw [← hlin, hx])

end Fit.Integrity
