import FitModel.ProfileSpec
/-! What the Boolean tests of `FitModel/ProfileSpec.lean` used by the byte-for-byte clause and by reading rule R7 mean
(general lemmas: for all tables, no regenerated data). -/
namespace Fit.ProfileSpec

/-! ### byte for byte -/

theorem nbeq_true (a b : Nat) : (Nat.beq a b = true) ↔ a = b :=
  ⟨Nat.eq_of_beq_eq_true, fun h => by subst h; exact Nat.beq_refl a⟩

theorem nbeq_false (a b : Nat) : (Nat.beq a b = false) ↔ a ≠ b := by
  constructor
  · intro h e
    rw [(nbeq_true a b).mpr e] at h
    exact Bool.noConfusion h
  · intro h
    cases hb : Nat.beq a b with
    | false => rfl
    | true => exact absurd ((nbeq_true a b).mp hb) h

theorem TreeFile.listedIn_sound (others : List (Nat × Nat)) (t : TreeFile) (h : t.listedIn others = true) :
    (t.path, t.generator) ∈ others := by
  unfold TreeFile.listedIn at h
  simp only [List.any_eq_true, Bool.and_eq_true, nbeq_true] at h
  obtain ⟨p, hp, e1, e2⟩ := h
  have : p = (t.path, t.generator) := by cases p; simp_all
  exact this ▸ hp

/-- what `filesMatch … = true` means: every emitted file has a checked-in file of the same path with the same (non-zero)
digest whose header names `prog`, and every checked-in file is emitted or listed in `others` -/
theorem filesMatch_sound (others : List (Nat × Nat)) (prog : Nat) (tree : List TreeFile) (gen : List GenFile)
    (h : filesMatch others prog tree gen = true) :
    (∀ g ∈ gen, g.sha ≠ 0 ∧ ∃ t ∈ tree, t.path = g.path ∧ t.sha = g.sha ∧ t.generator = prog) ∧
    (∀ t ∈ tree, (∃ g ∈ gen, g.path = t.path) ∨ (t.path, t.generator) ∈ others) := by
  induction tree, gen using filesMatch.induct with
  | case1 => simp
  | case2 g gs => simp [filesMatch] at h
  | case3 t ts ih =>
    simp only [filesMatch, Bool.and_eq_true] at h
    have := ih h.2
    refine ⟨by simp, ?_⟩
    intro t' ht'
    rcases List.mem_cons.mp ht' with rfl | ht'
    · exact .inr (TreeFile.listedIn_sound others _ h.1)
    · exact this.2 t' ht'
  | case4 t ts g gs hp ih =>
    simp only [filesMatch, hp, Bool.and_eq_true, nbeq_true, Bool.not_eq_true', nbeq_false, ne_eq] at h
    obtain ⟨⟨⟨e1, e2⟩, e3⟩, hrest⟩ := h
    have hpe : t.path = g.path := (nbeq_true _ _).mp hp
    have := ih hrest
    constructor
    · intro g' hg'
      rcases List.mem_cons.mp hg' with rfl | hg'
      · exact ⟨e3, t, List.mem_cons_self, hpe, e1, e2⟩
      · obtain ⟨n0, t', ht', r⟩ := this.1 g' hg'
        exact ⟨n0, t', List.mem_cons_of_mem _ ht', r⟩
    · intro t' ht'
      rcases List.mem_cons.mp ht' with rfl | ht'
      · exact .inl ⟨g, List.mem_cons_self, hpe.symm⟩
      · rcases this.2 t' ht' with ⟨g', hg', r⟩ | r
        · exact .inl ⟨g', List.mem_cons_of_mem _ hg', r⟩
        · exact .inr r
  | case5 t ts g gs hp ih =>
    simp only [filesMatch, hp, Bool.and_eq_true] at h
    have := ih h.2
    constructor
    · intro g' hg'
      obtain ⟨n0, t', ht', r⟩ := this.1 g' hg'
      exact ⟨n0, t', List.mem_cons_of_mem _ ht', r⟩
    · intro t' ht'
      rcases List.mem_cons.mp ht' with rfl | ht'
      · exact .inr (TreeFile.listedIn_sound others _ h.1)
      · exact this.2 t' ht'

/-! ### reading rule R7 -/

/-- a row that is not marked deprecated is never dropped -/
theorem TypeRow.drops_of_not_dep (t : TypeRow) (c : Const) (h : c.dep = false) : t.drops c = false := by
  simp [TypeRow.drops, h]

/-- every row R7 does not drop is a constant of the de-duplicated type (with its mark forgotten) -/
theorem TypeRow.mem_dedupe (t : TypeRow) (c : Const) (hc : c ∈ t.consts) (h : t.drops c = false) :
    { c with dep := false } ∈ t.dedupe.consts := by
  simp only [TypeRow.dedupe, List.mem_map, List.mem_filter]
  exact ⟨c, ⟨hc, by simp [h]⟩, rfl⟩

/-- and nothing else is: every constant of the de-duplicated type is a row R7 does not drop -/
theorem TypeRow.of_mem_dedupe (t : TypeRow) (k : Const) (hk : k ∈ t.dedupe.consts) :
    ∃ c ∈ t.consts, t.drops c = false ∧ k = { c with dep := false } := by
  simp only [TypeRow.dedupe, List.mem_map, List.mem_filter] at hk
  obtain ⟨c, ⟨hc, hd⟩, e⟩ := hk
  exact ⟨c, hc, by simpa using hd, e.symm⟩

theorem TypeRow.aliasesSurvive_sound (t : TypeRow) (h : t.aliasesSurvive = true) (c : Const) (hc : c ∈ t.consts)
    (hd : t.drops c = true) : ∃ k ∈ t.consts, k.value = c.value ∧ k.dep = false ∧ k.name ≠ c.name := by
  unfold TypeRow.aliasesSurvive at h
  rw [List.all_eq_true] at h
  have := h c hc
  simp only [hd, Bool.not_true, Bool.false_or, List.any_eq_true, Bool.and_eq_true, beq_iff_eq, Bool.not_eq_true',
    bne_iff_ne, ne_eq] at this
  obtain ⟨k, hk, ⟨e1, e2⟩, e3⟩ := this
  exact ⟨k, hk, e1, e2, e3⟩

/-- **R7 loses no value**: if every dropped row has a surviving alias, every value of the spreadsheet type is the value
of a constant of the de-duplicated type -/
theorem TypeRow.dedupe_no_value_lost (t : TypeRow) (h : t.aliasesSurvive = true) (c : Const) (hc : c ∈ t.consts) :
    ∃ k ∈ t.dedupe.consts, k.value = c.value := by
  cases hd : t.drops c with
  | false => exact ⟨_, t.mem_dedupe c hc hd, rfl⟩
  | true =>
    obtain ⟨k, hk, e1, e2, _⟩ := t.aliasesSurvive_sound h c hc hd
    exact ⟨_, t.mem_dedupe k hk (t.drops_of_not_dep k e2), e1⟩

/-- forgetting the `dep` mark and rewriting names keep the number of rows -/
theorem TypeRow.plain_fix_length (tbl : List (Nat × Nat)) (t : TypeRow) : ((t.plain).fix tbl).consts.length = t.consts.length := by
  simp [TypeRow.plain, TypeRow.fix]

end Fit.ProfileSpec
