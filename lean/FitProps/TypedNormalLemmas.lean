import FitProps.TypedLemmas
/-!
More about `typedNormal` (C13, second wave): it is idempotent (normal forms are fixed points of message → struct →
message), it is what the property demands (`typedNormalFull`) outside the two finding classes, and for fixed-length
arrays `specVal` is `proto.Value.Valid` of the part that fits the array.
-/
namespace Fit.Typed
open Fit.Value Fit.Msg Fit.Gen

/-! ### `typedNormalFull` = `typedNormal` outside the classes of KF-C13-1 / KF-C13-2 -/

theorem anyMarked_false_of_no_stray (T : MesgTable) (m : Message) (h : hasStrayMark T m = false) (s : Slot)
    (hs : s ∈ T.slots) (hc : s.canExpand = false) : anyMarked T m.fields s.num = false := by
  simp only [hasStrayMark, List.any_eq_false] at h
  simp only [anyMarked, List.any_eq_false]
  intro f hf hcon
  apply h f hf
  simp only [Bool.and_eq_true] at hcon
  simp only [strayMark, hcon.1.1, hcon.2, Bool.and_self, Bool.true_and, List.any_eq_true]
  exact ⟨s, hs, by simp [hcon.1.2, hc]⟩

theorem typedNormalFull_eq (T : MesgTable) (fac : Nat → Field) (o : Options) (m : Message)
    (h1 : hasForeign T m = false) (h2 : hasStrayMark T m = false) (h3 : hasLostDev T m = false) :
    typedNormalFull T fac o m = typedNormal T fac o m := by
  have hdev : m.devFields = if T.hasDev = true then m.devFields else [] := by
    cases hd : T.hasDev with
    | true => simp
    | false =>
      simp only [hasLostDev, hd, Bool.not_false, Bool.true_and, Bool.not_eq_false', List.isEmpty_iff] at h3
      simp [h3]
  have hfields : (typedNormalFull T fac o m).fields = (typedNormal T fac o m).fields := by
    unfold typedNormalFull typedNormal
    simp only
    congr 1
    · apply filterMap_congr'
      intro s hs
      cases specVal s (lastStored T m.fields s.num) with
      | none => rfl
      | some v =>
        cases hc : s.canExpand with
        | true => rfl
        | false =>
          simp only [Bool.false_eq_true, ↓reduceIte, anyMarked_false_of_no_stray T m h2 s hs hc]
    · apply List.filter_congr
      intro f hf
      simp only [hasForeign, List.any_eq_false] at h1
      have := h1 f hf
      simp [this]
  have hd' : (typedNormalFull T fac o m).devFields = (typedNormal T fac o m).devFields := by
    unfold typedNormalFull typedNormal
    exact hdev
  have hn : (typedNormalFull T fac o m).num = (typedNormal T fac o m).num := rfl
  cases hA : typedNormalFull T fac o m
  cases hB : typedNormal T fac o m
  rw [hA, hB] at hfields hd' hn
  simp only at hfields hd' hn
  rw [hfields, hd', hn]

/-! ### `specVal` is idempotent -/

theorem withElems_withElems (v : Value) (a b : List Nat) : withElems (withElems v a) b = withElems v b := by
  cases v <;> rfl

theorem copyInto_length {α : Type} (dst src : List α) : (copyInto dst src).length = dst.length := by
  simp only [copyInto, List.length_append, List.length_take, List.length_drop]
  omega

theorem specVal_idem (s : Slot) (hw : s.wf = true) (x v : Value) (h : specVal s x = some v) : specVal s v = some v := by
  unfold specVal at h
  by_cases ht : typeOf x = s.ptype
  · simp only [ne_eq, ht, not_true_eq_false, ↓reduceIte] at h
    cases hk : s.kind with
    | scalar =>
      simp only [hk] at h
      split at h
      · cases h
      · injection h with h; subst h; unfold specVal; simp [ht, hk, *]
    | bool =>
      simp only [hk] at h
      split at h
      · injection h with h; subst h; unfold specVal; simp [ht, hk, *]
      · cases h
    | str =>
      simp only [hk] at h
      split at h
      · cases h
      · injection h with h; subst h; unfold specVal; simp [ht, hk, *]
    | slice =>
      simp only [hk] at h
      injection h with h; subst h; unfold specVal; simp [ht, hk]
    | time =>
      simp only [hk] at h
      simp only [Slot.wf, hk, Bool.and_eq_true, beq_iff_eq] at hw
      split at h
      · cases h
      · rename_i hne
        injection h with h; subst h
        unfold specVal
        have hne' : ¬ (numOf x % 2 ^ 32) % 2 ^ 32 = uint32Invalid := by rw [Nat.mod_mod]; exact hne
        simp only [typeOf, hw.1, typeUint32, ne_eq, not_true_eq_false, ↓reduceIte, hk]
        show (if numOf (Value.uint32 (numOf x % 2 ^ 32)) % 2 ^ 32 = uint32Invalid then none
          else some (Value.uint32 (numOf (Value.uint32 (numOf x % 2 ^ 32)) % 2 ^ 32))) = _
        have : numOf (Value.uint32 (numOf x % 2 ^ 32)) = numOf x % 2 ^ 32 := rfl
        rw [this, if_neg hne', Nat.mod_mod]
    | fixed n =>
      simp only [hk] at h
      simp only [Slot.wf, hk, Bool.and_eq_true, beq_iff_eq] at hw
      obtain ⟨⟨hd, _⟩, _⟩ := hw
      by_cases hs : s.ptype = typeSliceString
      · rw [hs] at ht
        cases x <;> simp [typeOf, typeBool, typeInvalid, typeInt8, typeUint8, typeInt16, typeUint16, typeInt32, typeUint32, typeInt64, typeUint64, typeFloat32, typeFloat64, typeString, typeSliceBool, typeSliceInt8, typeSliceUint8, typeSliceInt16, typeSliceUint16, typeSliceInt32, typeSliceUint32, typeSliceInt64, typeSliceUint64, typeSliceFloat32, typeSliceFloat64, typeSliceString] at ht
        rename_i vs
        simp only [specFixed] at h
        split at h
        · cases h
        · rename_i hne
          injection h with h; subst h
          unfold specVal
          have hl : (copyInto (List.replicate n ([] : List Nat)) vs).length = (List.replicate n ([] : List Nat)).length :=
            copyInto_length _ _
          simp only [typeOf, hs, ne_eq, not_true_eq_false, ↓reduceIte, hk, specFixed, copyInto_same _ _ hl, hne]
      · rw [if_neg hs] at hd
        simp only [Bool.and_eq_true, beq_iff_eq] at hd
        obtain ⟨hns, _⟩ := hd
        have hx := eq_mkSlice x s.ptype hns ht
        have hnotstr : ∀ vs, x ≠ .sliceString vs := by
          intro vs e; subst e; exact hs (by simpa [typeOf] using ht.symm)
        rw [specFixed_num n _ x hnotstr] at h
        split at h
        · cases h
        · rename_i hne
          injection h with h; subst h
          rw [hx, withElems_mkSlice _ _ _ hns]
          have hl : (copyInto (List.replicate n (btInvalid s.baseType)) (elems (mkSlice s.ptype (elems x)))).length =
              (List.replicate n (btInvalid s.baseType)).length := copyInto_length _ _
          have hnotstr' : ∀ vs, mkSlice s.ptype (copyInto (List.replicate n (btInvalid s.baseType)) (elems (mkSlice s.ptype (elems x)))) ≠ .sliceString vs := by
            intro vs e
            have := congrArg typeOf e
            rw [typeOf_mkSlice _ _ hns] at this
            exact hs (by simpa [typeOf] using this)
          unfold specVal
          rw [typeOf_mkSlice _ _ hns]
          simp only [ne_eq, not_true_eq_false, ↓reduceIte, hk]
          rw [specFixed_num n _ _ hnotstr', elems_mkSlice _ _ hns, copyInto_same _ _ hl, withElems_mkSlice _ _ _ hns]
          rw [hx, elems_mkSlice _ _ hns] at hne
          rw [elems_mkSlice _ _ hns]
          simp [hne]
  · simp [ht] at h

theorem specVal_invalid (s : Slot) (hw : s.wf = true) : specVal s .invalid = none := by
  unfold specVal
  have : typeOf Value.invalid ≠ s.ptype := by
    intro e
    have h0 : s.ptype = 0 := by rw [← e]; rfl
    cases hk : s.kind <;> simp [Slot.wf, hk, h0, isScalarType, isNumSliceType, typeBool, typeFloat64, typeString, typeUint32,
      typeSliceBool, typeSliceFloat64, typeSliceString] at hw
  simp [this]

/-! ### looking a number up in a message made of one field per slot -/

/-- `h` makes at most one field per slot, stored under the slot's number -/
def SlotFields (T : MesgTable) (S : List Slot) (h : Slot → Option Field) : Prop :=
  ∀ s ∈ S, ∀ f, h s = some f → stored T f = true ∧ ∀ k, numIs k f = (s.num == k)

theorem lookup_filterMap (T : MesgTable) (S : List Slot) (h : Slot → Option Field) (U : List Field)
    (hnd : nodup (S.map (·.num)) = true) (hS : SlotFields T S h) (hU : ∀ f ∈ U, stored T f = false) :
    ∀ s ∈ S, lastFrom T s.num .invalid (S.filterMap h ++ U) = ((h s).map (·.value)).getD .invalid ∧
      anyMarked T (S.filterMap h ++ U) s.num = ((h s).map (·.isExpanded)).getD false := by
  induction S with
  | nil => intro s hs; cases hs
  | cons s0 S ih =>
    rw [List.map_cons, nodup_cons] at hnd
    obtain ⟨hne, hnd'⟩ := hnd
    have hS' : SlotFields T S h := fun s hs => hS s (List.mem_cons_of_mem _ hs)
    have hnohit : ∀ k, (∀ s ∈ S, s.num ≠ k) → ∀ f ∈ S.filterMap h ++ U, (stored T f && numIs k f) = false := by
      intro k hk f hf
      rw [List.mem_append] at hf
      rcases hf with hf | hf
      · obtain ⟨s, hs, hfs⟩ := List.mem_filterMap.mp hf
        rw [(hS' s hs f hfs).2 k]
        have : (s.num == k) = false := by simpa using hk s hs
        simp [this]
      · simp [hU f hf]
    have hnomark : ∀ k, (∀ s ∈ S, s.num ≠ k) → anyMarked T (S.filterMap h ++ U) k = false := by
      intro k hk
      simp only [anyMarked, List.any_eq_false]
      intro f hf
      have := hnohit k hk f hf
      simp [this]
    intro s hs
    rw [List.filterMap_cons]
    rcases List.mem_cons.mp hs with rfl | hs'
    · have hz : ∀ q ∈ S, q.num ≠ s.num := fun q hq => hne q.num (List.mem_map.mpr ⟨q, hq, rfl⟩)
      cases he : h s with
      | none =>
        simp only [Option.map_none, Option.getD_none]
        exact ⟨lastFrom_no_hit T _ _ _ (hnohit _ hz), hnomark _ hz⟩
      | some f =>
        obtain ⟨hst, hnum⟩ := hS s (by simp) f he
        simp only [List.cons_append, Option.map_some, Option.getD_some]
        refine ⟨?_, ?_⟩
        · rw [lastFrom_cons, hst, hnum]
          simp only [beq_self_eq_true, Bool.and_self, ↓reduceIte]
          exact lastFrom_no_hit T _ _ _ (hnohit _ hz)
        · rw [anyMarked_cons, hnomark _ hz, hst, hnum]
          simp
    · have hpn : s0.num ≠ s.num := fun e => hne s.num (List.mem_map.mpr ⟨s, hs', rfl⟩) e.symm
      obtain ⟨ih1, ih2⟩ := ih hnd' hS' s hs'
      cases he : h s0 with
      | none => exact ⟨ih1, ih2⟩
      | some f =>
        obtain ⟨_, hnum⟩ := hS s0 (by simp) f he
        have hb : (s0.num == s.num) = false := by simpa using hpn
        simp only [List.cons_append]
        refine ⟨?_, ?_⟩
        · rw [lastFrom_cons, hnum, hb]; simpa using ih1
        · rw [anyMarked_cons, hnum, hb]; simpa using ih2

/-! ### `typedNormal` is idempotent -/

/-- the known field `typedNormal` makes for slot `s` -/
def normField (T : MesgTable) (fac : Nat → Field) (o : Options) (fs : List Field) (s : Slot) : Option Field :=
  match specVal s (lastStored T fs s.num) with
  | none => none
  | some v =>
    if s.canExpand then
      let ex := s.num < T.markBound && anyMarked T fs s.num
      if ex && !o.includeExpanded then none else some { fac s.num with value := v, isExpanded := ex }
    else some { fac s.num with value := v }

theorem typedNormal_fields (T : MesgTable) (fac : Nat → Field) (o : Options) (m : Message) :
    (typedNormal T fac o m).fields = T.slots.filterMap (normField T fac o m.fields) ++ m.fields.filter (fun f => !stored T f) := rfl

theorem normField_slotFields (T : MesgTable) (hw : T.wf = true) (fac : Nat → Field) (hf : facOk T fac = true) (o : Options)
    (fs : List Field) : SlotFields T T.slots (normField T fac o fs) := by
  intro s hs f hfe
  obtain ⟨b, hb, hn, hk, _⟩ := facOk_slot T fac hf s hs
  have hg := (wf_slot T hw s hs).2.2.1
  have hbase : f.base = some b := by
    unfold normField at hfe
    split at hfe
    · cases hfe
    · split at hfe
      · simp only at hfe
        split at hfe
        · cases hfe
        · injection hfe with hfe; rw [← hfe]; exact hb
      · injection hfe with hfe; rw [← hfe]; exact hb
  refine ⟨by simp [stored, hbase, hn, hk, hg], fun k => by simp [numIs, hbase, hn]⟩

theorem typedNormal_idem (T : MesgTable) (hw : T.wf = true) (fac : Nat → Field) (hf : facOk T fac = true) (o : Options)
    (m : Message) : typedNormal T fac o (typedNormal T fac o m) = typedNormal T fac o m := by
  have hU : ∀ f ∈ m.fields.filter (fun f => !stored T f), stored T f = false := by
    intro f hfm; simpa using (List.mem_filter.mp hfm).2
  have hnd : nodup (T.slots.map (·.num)) = true := by
    exact wf_nodup T hw
  have hSF := normField_slotFields T hw fac hf o m.fields
  have hlook := lookup_filterMap T T.slots (normField T fac o m.fields) _ hnd hSF hU
  have hfields := typedNormal_fields T fac o m
  -- the known part
  have hknown : T.slots.filterMap (normField T fac o (typedNormal T fac o m).fields) =
      T.slots.filterMap (normField T fac o m.fields) := by
    apply filterMap_congr'
    intro s hs
    obtain ⟨hl, hm⟩ := hlook s hs
    have hsw := (wf_slot T hw s hs).1
    have hmb := (wf_slot T hw s hs).2.2.2
    obtain ⟨b, hb, hn, hk, hex⟩ := facOk_slot T fac hf s hs
    unfold normField
    rw [hfields]
    simp only [lastStored]
    rw [hl, hm]
    -- case analysis on what the first pass made of the slot
    unfold normField
    simp only [lastStored]
    cases hsv : specVal s (lastFrom T s.num Value.invalid m.fields) with
    | none => simp [specVal_invalid s hsw]
    | some v =>
      have hidem := specVal_idem s hsw _ v hsv
      cases hc : s.canExpand with
      | true =>
        simp only [↓reduceIte]
        by_cases hdrop : ((decide (s.num < T.markBound) && anyMarked T m.fields s.num) && !o.includeExpanded) = true
        · simp [hdrop, specVal_invalid s hsw]
        · simp only [hdrop, Bool.false_eq_true, ↓reduceIte, Option.map_some, Option.getD_some, hidem]
          have hlt : s.num < T.markBound := hmb hc
          simp only [hlt, decide_true, Bool.true_and] at hdrop ⊢
          simp [hdrop]
      | false =>
        simp only [Bool.false_eq_true, ↓reduceIte, Option.map_some, Option.getD_some, hidem]
  -- the unknown part
  have hunk : (typedNormal T fac o m).fields.filter (fun f => !stored T f) = m.fields.filter (fun f => !stored T f) := by
    rw [hfields, List.filter_append]
    have h1 : (T.slots.filterMap (normField T fac o m.fields)).filter (fun f => !stored T f) = [] := by
      rw [List.filter_eq_nil_iff]
      intro f hfm
      obtain ⟨s, hs, hfs⟩ := List.mem_filterMap.mp hfm
      simp [(hSF s hs f hfs).1]
    rw [h1, List.filter_filter]
    simp
  have hdev : (typedNormal T fac o m).devFields = if T.hasDev then m.devFields else [] := rfl
  show ({ num := T.num
          fields := T.slots.filterMap (normField T fac o (typedNormal T fac o m).fields) ++
            (typedNormal T fac o m).fields.filter (fun f => !stored T f)
          devFields := if T.hasDev then (typedNormal T fac o m).devFields else [] } : Message) = _
  rw [hknown, hunk, hdev]
  show _ = ({ num := T.num, fields := _, devFields := _ } : Message)
  congr 1
  cases T.hasDev <;> rfl

/-! ### fixed-length arrays: `specVal` against `proto.Value.Valid` -/

theorem copyInto_replicate_cons {α : Type} (n : Nat) (a e : α) (es : List α) :
    copyInto (List.replicate (n + 1) a) (e :: es) = e :: copyInto (List.replicate n a) es := by
  simp [copyInto, List.replicate_succ]

theorem copyInto_replicate_eq {α : Type} (a : α) : ∀ (n : Nat) (es : List α),
    (copyInto (List.replicate n a) es = List.replicate n a) ↔ ∀ e ∈ es.take n, e = a
  | 0, es => by simp [copyInto]
  | n + 1, [] => by simp [copyInto]
  | n + 1, e :: es => by
    rw [copyInto_replicate_cons, List.replicate_succ, List.cons.injEq, copyInto_replicate_eq a n es]
    simp [List.take_succ_cons]

/-- the part of an array value that fits a fixed-length array of `n` elements (`copy(arr[:], v)` ignores the rest) -/
def fitPart (n : Nat) : Value → Value
  | .sliceString vs => .sliceString (vs.take n)
  | v => withElems v ((elems v).take n)

theorem any_ne_iff (a : Nat) (l : List Nat) : l.any (· != a) = true ↔ ∃ e ∈ l, e ≠ a := by
  simp [List.any_eq_true]

set_option maxRecDepth 4000 in
/-- **Fixed-length numeric arrays.** For a slot `[n]T` (T numeric) and a value of the slot's type, the typed layer keeps
the field exactly when the protocol calls the part of the value that fits the array valid
(`proto.Value.Valid(baseType)`: some element is not the base type's invalid). Side condition for "= `Valid` of the value
itself": the value has at most `n` elements (`fitPart n v = v`) — an over-long array whose only valid elements lie beyond
`n` is valid for the protocol and worth nothing to the struct. -/
theorem specVal_fixed_num_eq_valid (s : Slot) (n : Nat) (hk : s.kind = .fixed n) (hw : s.wf = true) (v : Value)
    (ht : typeOf v = s.ptype) (hns : s.ptype ≠ typeSliceString) :
    (specVal s v).isSome = valid (fitPart n v) s.baseType := by
  simp only [Slot.wf, hk, Bool.and_eq_true, beq_iff_eq] at hw
  obtain ⟨⟨hd, _⟩, hal⟩ := hw
  rw [if_neg hns] at hd
  simp only [Bool.and_eq_true, beq_iff_eq] at hd
  obtain ⟨hnum, hd⟩ := hd
  rw [hd, ← ht] at hal
  have hnotstr : ∀ vs, v ≠ .sliceString vs := by
    intro vs e; subst e; exact hns (by simpa [typeOf] using ht.symm)
  simp only [specVal, ht, ne_eq, not_true_eq_false, ↓reduceIte, hk]
  rw [specFixed_num n _ v hnotstr]
  have hiff := copyInto_replicate_eq (btInvalid s.baseType) n (elems v)
  have hsome : (if copyInto (List.replicate n (btInvalid s.baseType)) (elems v) = List.replicate n (btInvalid s.baseType) then none
      else some (withElems v (copyInto (List.replicate n (btInvalid s.baseType)) (elems v)))).isSome =
      ((elems v).take n).any (· != btInvalid s.baseType) := by
    rw [Bool.eq_iff_iff, any_ne_iff]
    by_cases hc : copyInto (List.replicate n (btInvalid s.baseType)) (elems v) = List.replicate n (btInvalid s.baseType)
    · have := hiff.mp hc
      simp only [hc, ↓reduceIte, Option.isSome_none, Bool.false_eq_true, false_iff, not_exists, not_and]
      intro x hx hne; exact hne (this x hx)
    · simp only [hc, ↓reduceIte, Option.isSome_some, true_iff]
      apply Classical.byContradiction
      intro hne
      apply hc; apply hiff.mpr
      intro e he
      apply Classical.byContradiction
      intro h; exact hne ⟨e, he, h⟩
  rw [hsome]
  rw [← ht] at hnum
  cases v <;>
    simp [typeOf, isNumSliceType, typeBool, typeInvalid, typeInt8, typeUint8, typeInt16, typeUint16, typeInt32, typeUint32,
      typeInt64, typeUint64, typeFloat32, typeFloat64, typeString, typeSliceBool, typeSliceInt8, typeSliceUint8,
      typeSliceInt16, typeSliceUint16, typeSliceInt32, typeSliceUint32, typeSliceInt64, typeSliceUint64,
      typeSliceFloat32, typeSliceFloat64, typeSliceString] at hnum <;>
    simp [typeOf, mkSlice, align, typeSliceBool, typeSliceInt8, typeSliceUint8, typeSliceInt16, typeSliceUint16, typeSliceInt32,
      typeSliceUint32, typeSliceInt64, typeSliceUint64, typeSliceFloat32, typeSliceFloat64] at hal <;>
    (first
      | (rcases hal with ((h | h) | h) | h <;>
          simp [h, fitPart, withElems, elems, valid, btInvalid, btEnum, btByte, btUint8, btUint8z, btSint8, btSint16, btUint16,
            btUint16z, btSint32, btUint32, btUint32z, btSint64, btUint64, btUint64z, btFloat32, btFloat64, enumInvalid,
            byteInvalid, uint8Invalid, uint8zInvalid])
      | (rcases hal with h | h <;>
          simp [h, fitPart, withElems, elems, valid, btInvalid, btEnum, btByte, btUint8, btUint8z, btSint8, btSint16, btUint16,
            btUint16z, btSint32, btUint32, btUint32z, btSint64, btUint64, btUint64z, btFloat32, btFloat64, uint16Invalid,
            uint16zInvalid, uint32Invalid, uint32zInvalid, uint64Invalid, uint64zInvalid])
      | (simp [hal, fitPart, withElems, elems, valid, btInvalid, btEnum, btByte, btUint8, btUint8z, btSint8, btSint16, btUint16,
            btUint16z, btSint32, btUint32, btUint32z, btSint64, btUint64, btUint64z, btFloat32, btFloat64, sint8Invalid,
            sint16Invalid, sint32Invalid, sint64Invalid, float32Invalid, float64Invalid, boolInvalid, enumInvalid]))

/-- **Fixed-length string arrays**: kept exactly when one of the first `n` strings is not empty; in particular whenever
the protocol calls the fitting part valid (the converse fails only for the one-NUL string `"\x00"`, which `Valid` rejects
and the typed layer keeps, as for scalar strings). -/
theorem specVal_fixed_str (s : Slot) (n : Nat) (hk : s.kind = .fixed n) (hs : s.ptype = typeSliceString)
    (vs : List (List Nat)) :
    (specVal s (.sliceString vs)).isSome = (vs.take n).any (· != []) ∧
    (valid (fitPart n (.sliceString vs)) s.baseType = true → (specVal s (.sliceString vs)).isSome = true) := by
  have hiff := copyInto_replicate_eq ([] : List Nat) n vs
  have h1 : (specVal s (.sliceString vs)).isSome = (vs.take n).any (· != []) := by
    simp only [specVal, typeOf, hs, ne_eq, not_true_eq_false, ↓reduceIte, hk, specFixed]
    rw [Bool.eq_iff_iff, List.any_eq_true]
    by_cases hc : copyInto (List.replicate n ([] : List Nat)) vs = List.replicate n []
    · have := hiff.mp hc
      simp only [hc, ↓reduceIte, Option.isSome_none, Bool.false_eq_true, false_iff, not_exists, not_and]
      intro x hx; simp [this x hx]
    · simp only [hc, ↓reduceIte, Option.isSome_some, true_iff]
      apply Classical.byContradiction
      intro hne
      apply hc; apply hiff.mpr
      intro e he
      apply Classical.byContradiction
      intro h; exact hne ⟨e, he, by simpa using h⟩
  refine ⟨h1, ?_⟩
  intro hv
  rw [h1]
  simp only [fitPart, valid, List.any_eq_true] at hv ⊢
  obtain ⟨x, hx, hxv⟩ := hv
  refine ⟨x, hx, ?_⟩
  cases x with
  | nil => simp [strValid] at hxv
  | cons _ _ => simp

end Fit.Typed
