import FitProps.DecProgLemmas
import FitModel.DecHist
/-!
Every history program of `FitModel/DecHist.lean` is a STRICT client of the read buffer: every request is at most
`reservedbuf` bytes; a request that fails — for whatever reason — ends the program at once (the decoder's error is sticky:
the remaining calls are answered without reading); the two end-of-stream errors give outcomes that differ in that error's
class only; a failure of the reader itself ends up as the decoder's error. `Strict` implies `Good` (chunk independence,
C08), no panic over any reader (C03) and "reader failures are returned" (C08, second sentence).
-/
namespace Fit.DecHist
open Fit.ReadBuffer Fit.Gen.Integ
open Fit.DecProg (Err Ev St Hdr Def Triplet triplets validBaseType lastVal consts_ok isBytes_headD triplets_lt DefsOK lookup_ok)

inductive Strict {α β : Type} (μ : α → β) (Q : RErr → α → Prop) (B : Nat) : Prog α → Prop
  | ret (a : α) : Strict μ Q B (.ret a)
  | read (n : Nat) (k : Except RErr Bytes → Prog α) :
      n ≤ B →
      (∀ bs, bs.length = n → IsBytes bs → Strict μ Q B (k (.ok bs))) →
      (∀ e, ∃ a, k (.error e) = .ret a ∧ Q e a) →
      (2 ≤ n → ∃ a a', k (.error .eof) = .ret a ∧ k (.error .unexpectedEof) = .ret a' ∧ μ a = μ a') →
      Strict μ Q B (.read n k)

theorem Strict.good {α β : Type} {μ : α → β} {Q : RErr → α → Prop} {B : Nat} {p : Prog α} (h : Strict μ Q B p) :
    Good μ B p := by
  induction h with
  | ret a => exact Good.ret a
  | read n k hn _ herr hm ih =>
    obtain ⟨a, ha, _⟩ := herr .eof
    exact Good.read n k hn ih (by rw [ha]; exact Good.ret a) hm

/-- over ANY reader (any fragmentation, failures anywhere), from any buffer state `Reset` can leave: no panic -/
theorem Strict.no_panic {α β : Type} {μ : α → β} {Q : RErr → α → Prop} {p : Prog α}
    (h : Strict μ Q Fit.Gen.Reader.reservedbuf p) :
    ∀ (b : RB) (rest : Bytes), Inv b rest → IsBytes rest → runRB p b ≠ .panic := by
  induction h with
  | ret a => intro b rest _ _; simp [runRB]
  | read n k hn _ herr _ ih =>
    intro b rest hinv hb
    simp only [runRB]
    rcases readN_sound hinv n hn with ⟨b', hr, hlen, hinv'⟩ | ⟨e, b', hr⟩
    · rw [hr]
      simp only
      exact ih (rest.take n) (by simp [hlen]) (isBytes_take hb n) b' _ hinv' (isBytes_drop hb n)
    · rw [hr]
      simp only
      obtain ⟨a, ha, _⟩ := herr e
      rw [ha]
      simp [runRB]

/-- a failure of the reader that `ReadN` hands to the client ends the run with an outcome satisfying `Q` -/
theorem Strict.keeps {α β : Type} {μ : α → β} {Q : RErr → α → Prop} {p : Prog α}
    (h : Strict μ Q Fit.Gen.Reader.reservedbuf p) :
    ∀ (b : RB) (rest : Bytes), Inv b rest → IsBytes rest → ∀ e, firstReaderErr p b = some e →
      ∃ o, runRB p b = .done o ∧ Q e o := by
  induction h with
  | ret a => intro b rest _ _ e he; simp [firstReaderErr] at he
  | read n k hn _ herr _ ih =>
    intro b rest hinv hb e he
    simp only [firstReaderErr] at he
    simp only [runRB]
    rcases readN_sound hinv n hn with ⟨b', hr, hlen, hinv'⟩ | ⟨e', b', hr⟩
    · rw [hr] at he ⊢
      simp only at he ⊢
      exact ih (rest.take n) (by simp [hlen]) (isBytes_take hb n) b' _ hinv' (isBytes_drop hb n) e he
    · rw [hr] at he ⊢
      simp only at he ⊢
      obtain ⟨a, ha, hq⟩ := herr e'
      by_cases hf : e'.isReaderFailure = true
      · simp only [hf, if_true, Option.some.injEq] at he
        subst he
        exact ⟨a, by rw [ha]; rfl, hq⟩
      · simp only [hf] at he
        rw [ha] at he
        simp [firstReaderErr] at he

/-! ### the history programs are strict -/

/-- a failure of the reader itself ends up as the decoder's error -/
def Q (e : RErr) (o : Out) : Prop := e.isReaderFailure = true → o.err = some (.dec (.io e))

abbrev S (p : Prog Out) : Prop := Strict Out.merge Q Fit.Gen.Reader.reservedbuf p

/-- what the record level needs of a failure continuation: it ends the program, hands a failure of the reader back as the
decoder's error, and does not tell the two end-of-stream errors apart beyond their class -/
structure FlOK (fl : St → Err → Prog Out) : Prop where
  ret : ∀ st e, ∃ a, fl st e = .ret a
  q : ∀ st e, ∃ a, fl st (.io e) = .ret a ∧ Q e a
  m : ∀ st, ∃ a a', fl st (.io .eof) = .ret a ∧ fl st (.io .unexpectedEof) = .ret a' ∧ a.merge = a'.merge

theorem FlOK.strict {fl : St → Err → Prog Out} (h : FlOK fl) (st : St) (e : Err) : S (fl st e) := by
  obtain ⟨a, ha⟩ := h.ret st e
  rw [ha]; exact Strict.ret a

section
variable {fl : St → Err → Prog Out} (hfl : FlOK fl)
include hfl

theorem s_rdN (chk : Bool) (n : Nat) (st : St) (k : Bytes → St → Prog Out) (hn : n ≤ Fit.Gen.Reader.reservedbuf)
    (hk : ∀ b, b.length = n → IsBytes b → S (k b { st with cur := st.cur + n, crc := if chk then Fit.Crc.write st.crc b else st.crc })) :
    S (rdN fl chk n st k) := by
  unfold rdN
  exact Strict.read n _ hn (fun bs h1 h2 => hk bs h1 h2) (fun e => hfl.q st e) (fun _ => hfl.m st)

theorem s_fields (chk : Bool) (fs : List Triplet) (hfs : ∀ t ∈ fs, t.2.1 < 256) :
    ∀ (st : St) (acc : List (Nat × Bytes)) (k : St → List (Nat × Bytes) → Prog Out),
      (∀ st' acc', st'.defs = st.defs → S (k st' acc')) → S (fields fl chk fs st acc k) := by
  induction fs with
  | nil => intro st acc k hk; exact hk st acc rfl
  | cons t fs ih =>
    intro st acc k hk
    obtain ⟨num, size, bt⟩ := t
    have hsz : size < 256 := hfs (num, size, bt) (by simp)
    have hfs' : ∀ t ∈ fs, t.2.1 < 256 := fun t ht => hfs t (by simp [ht])
    simp only [fields]
    split
    · exact ih hfs' st acc k hk
    · refine s_rdN hfl chk size st _ (by have := consts_ok.2.1; omega) (fun b _ _ => ?_)
      exact ih hfs' _ _ k (fun st' acc' h => hk st' acc' (by rw [h]))

theorem s_devFields (chk : Bool) (descs : List Triplet) (fs : List Triplet) (hfs : ∀ t ∈ fs, t.2.1 < 256) :
    ∀ (st : St) (cnt : List (Nat × Nat × Bytes)) (k : St → List (Nat × Nat × Bytes) → Prog Out),
      (∀ st' cnt', st'.defs = st.defs → S (k st' cnt')) → S (devFields fl chk descs fs st cnt k) := by
  induction fs with
  | nil => intro st cnt k hk; exact hk st cnt rfl
  | cons t fs ih =>
    intro st cnt k hk
    obtain ⟨num, size, ddi⟩ := t
    have hsz : size < 256 := hfs (num, size, ddi) (by simp)
    have hfs' : ∀ t ∈ fs, t.2.1 < 256 := fun t ht => hfs t (by simp [ht])
    have hb : size ≤ Fit.Gen.Reader.reservedbuf := by have := consts_ok.2.1; omega
    simp only [devFields]
    split
    · refine s_rdN hfl chk size st _ hb (fun b _ _ => ?_)
      exact ih hfs' _ _ k (fun st' c' h => hk st' c' (by rw [h]))
    · split
      · exact hfl.strict _ _
      · split
        · exact ih hfs' st cnt k hk
        · refine s_rdN hfl chk size st _ hb (fun b _ _ => ?_)
          exact ih hfs' _ _ k (fun st' c' h => hk st' c' (by rw [h]))

theorem s_definition (chk : Bool) (header : Nat) (st : St) (k : St → Prog Out) (hst : DefsOK st.defs)
    (hk : ∀ st', DefsOK st'.defs → S (k st')) : S (definition fl chk header st k) := by
  have hc := consts_ok
  unfold definition
  refine s_rdN hfl chk 5 st _ (by omega) (fun b _ hb => ?_)
  have hn : (b.drop 4).headD 0 < 256 := isBytes_headD (isBytes_drop hb 4)
  refine s_rdN hfl chk _ _ _ (by omega) (fun fb _ hfb => ?_)
  have hf := triplets_lt hfb
  simp only
  split
  · exact hfl.strict _ _
  · split
    · refine s_rdN hfl chk 1 _ _ (by omega) (fun nb _ hnb => ?_)
      have hnd : nb.headD 0 < 256 := isBytes_headD hnb
      refine s_rdN hfl chk _ _ _ (by omega) (fun db _ hdb => ?_)
      apply hk
      intro p hp
      simp only [List.mem_cons] at hp
      rcases hp with rfl | hp
      · exact ⟨hf, triplets_lt hdb⟩
      · exact hst p hp
    · apply hk
      intro p hp
      simp only [List.mem_cons] at hp
      rcases hp with rfl | hp
      · exact ⟨hf, by intro t ht; cases ht⟩
      · exact hst p hp

theorem s_data (chk : Bool) (header : Nat) (st : St) (k : Nat → St → Prog Out) (hst : DefsOK st.defs)
    (hk : ∀ m st', DefsOK st'.defs → S (k m st')) : S (data fl chk header st k) := by
  unfold data
  simp only
  split
  · exact hfl.strict _ _
  · rename_i d hd
    obtain ⟨h1, h2⟩ := lookup_ok hst hd
    refine s_fields hfl chk d.fields h1 st [] _ (fun st' vals hdefs => ?_)
    refine s_devFields hfl chk _ d.devFields h2 _ [] _ (fun st'' nd hdefs' => ?_)
    apply hk
    simp only at hdefs' ⊢
    rw [hdefs', hdefs]; exact hst

theorem s_message (chk : Bool) (st : St) (k : Bool → St → Prog Out) (hst : DefsOK st.defs)
    (hk : ∀ f st', DefsOK st'.defs → S (k f st')) : S (message fl chk st k) := by
  unfold message
  refine s_rdN hfl chk 1 st _ (by have := consts_ok; omega) (fun b _ _ => ?_)
  simp only
  split
  · exact s_definition hfl chk _ _ _ hst (hk false)
  · exact s_data hfl chk _ _ _ hst (fun m st' h => hk _ st' h)

theorem s_messages (chk : Bool) (dataSize : Nat) (fuel : Nat) :
    ∀ (fid : Bool) (st : St) (k : Bool → St → Prog Out), DefsOK st.defs → (∀ f st', DefsOK st'.defs → S (k f st')) →
      S (messages fl chk dataSize fuel fid st k) := by
  induction fuel with
  | zero => intro fid st k hst hk; exact hk fid st hst
  | succ fuel ih =>
    intro fid st k hst hk
    simp only [messages]
    split
    · exact s_message hfl chk st _ hst (fun f st' hst' => ih _ st' k hst' hk)
    · exact hk fid st hst

theorem s_messagesCtx (chk : Bool) (dataSize : Nat) (onCtx : St → Prog Out) (hctx : ∀ st, S (onCtx st)) (fuel : Nat) :
    ∀ (n : Nat) (fid : Bool) (st : St) (k : Bool → St → Prog Out), DefsOK st.defs → (∀ f st', DefsOK st'.defs → S (k f st')) →
      S (messagesCtx fl chk dataSize onCtx fuel n fid st k) := by
  induction fuel with
  | zero =>
    intro n fid st k hst hk
    cases n with
    | zero => simp only [messagesCtx]; exact hctx st
    | succ n => simp only [messagesCtx]; exact hk fid st hst
  | succ fuel ih =>
    intro n fid st k hst hk
    cases n with
    | zero => simp only [messagesCtx]; exact hctx st
    | succ n =>
      simp only [messagesCtx]
      split
      · exact s_message hfl chk st _ hst (fun f st' hst' => ih n _ st' k hst' hk)
      · exact hk fid st hst

theorem s_peekLoop (chk : Bool) (dataSize : Nat) (fuel : Nat) :
    ∀ (fid : Bool) (st : St) (k : Bool → St → Prog Out), DefsOK st.defs → (∀ f st', DefsOK st'.defs → S (k f st')) →
      S (peekLoop fl chk dataSize fuel fid st k) := by
  induction fuel with
  | zero => intro fid st k hst hk; exact hk fid st hst
  | succ fuel ih =>
    intro fid st k hst hk
    simp only [peekLoop]
    split
    · exact s_message hfl chk st _ hst (fun f st' hst' => ih _ st' k hst' hk)
    · exact hk fid st hst

theorem s_fileCrc (chk : Bool) (st : St) (k : Nat → Prog Out) (hk : ∀ c, S (k c)) : S (fileCrc fl chk st k) := by
  unfold fileCrc
  refine Strict.read 2 _ (by have := consts_ok; omega) (fun bs _ _ => ?_) (fun e => hfl.q st e) (fun _ => hfl.m st)
  simp only
  split
  · exact hfl.strict _ _
  · exact hk _

theorem s_discard (chk : Bool) (dataSize : Nat) (fuel : Nat) :
    ∀ (st : St) (k : St → Prog Out), DefsOK st.defs → (∀ st', DefsOK st'.defs → S (k st')) →
      S (discard fl chk dataSize fuel st k) := by
  induction fuel with
  | zero => intro st k hst hk; exact hk st hst
  | succ fuel ih =>
    intro st k hst hk
    simp only [discard]
    split
    · refine s_rdN hfl chk _ st _ ?_ (fun b _ _ => ih _ k hst hk)
      have := consts_ok.2.2.1
      rw [← this]; exact Nat.min_le_right _ _
    · exact hk st hst

end

/-! ### the decoder object -/

theorem stickyRes_merge (e e' : HErr) (he : e.merge = e'.merge) (op : Op) : (stickyRes e op).merge = (stickyRes e' op).merge := by
  cases op <;> simp [stickyRes, OpRes.merge, he]

theorem finish_merge (d : Dec) (ops : List Op) (st : St) (r r' : OpRes) (e e' : HErr) (hr : r.merge = r'.merge)
    (he : e.merge = e'.merge) :
    (finish { d with st := st, err := some e, res := r :: d.res } ops).merge =
      (finish { d with st := st, err := some e', res := r' :: d.res } ops).merge := by
  simp only [finish, Out.merge, List.reverse_cons, List.map_append, List.map_reverse, List.map_cons, List.map_nil,
    List.map_map, Option.map_some, hr, he, Out.mk.injEq, and_true, true_and, List.append_cancel_left_eq]
  apply List.map_congr_left
  intro op _
  exact stickyRes_merge e e' he op

theorem flOK_failOp (d : Dec) (ops : List Op) : FlOK (failOp d ops) where
  ret st e := ⟨_, rfl⟩
  q st e := ⟨_, rfl, fun _ => rfl⟩
  m st := ⟨_, _, rfl, rfl, finish_merge d ops st _ _ _ _ rfl rfl⟩

theorem s_fileHeader (chk : Bool) (onFirst : RErr → Prog Out) (onErr : Err → Prog Out) (k : Hdr → Prog Out)
    (h1 : ∀ e, ∃ a, onFirst e = .ret a ∧ Q e a) (h2 : ∀ e, ∃ a, onErr e = .ret a)
    (h2q : ∀ e, ∃ a, onErr (.io e) = .ret a ∧ Q e a)
    (h3 : ∃ a a', onErr (.io .eof) = .ret a ∧ onErr (.io .unexpectedEof) = .ret a' ∧ a.merge = a'.merge)
    (hk : ∀ h, S (k h)) : S (fileHeader chk onFirst onErr k) := by
  have hc := consts_ok
  have h2s : ∀ e, S (onErr e) := fun e => by obtain ⟨a, ha⟩ := h2 e; rw [ha]; exact Strict.ret a
  unfold fileHeader
  refine Strict.read 1 _ (by omega) (fun b0 _ _ => ?_) h1 (fun h => by omega)
  simp only
  split
  · exact h2s _
  · rename_i hsz
    have hsize : b0.headD 0 - 1 ≤ Fit.Gen.Reader.reservedbuf := by omega
    refine Strict.read _ _ hsize (fun b _ _ => ?_) h2q (fun _ => h3)
    simp only
    repeat' split
    all_goals first | exact h2s _ | exact hk _

/-- the invariant of the decoder object between calls -/
def DecOK (d : Dec) : Prop := DefsOK d.st.defs

theorem decOK_renew (d : Dec) (evs : List Ev) (r : OpRes) : DecOK (d.renew evs r) := by
  intro p hp; cases hp

theorem s_headerOnce (chk : Bool) (d : Dec) (onFirst : RErr → Prog Out) (onErr : Err → Dec → Prog Out) (k : Hdr → Dec → Prog Out)
    (hd : DecOK d)
    (h1 : ∀ e, ∃ a, onFirst e = .ret a ∧ Q e a) (h2 : ∀ e d', ∃ a, onErr e d' = .ret a)
    (h2q : ∀ e d', ∃ a, onErr (.io e) d' = .ret a ∧ Q e a)
    (h3 : ∀ d', ∃ a a', onErr (.io .eof) d' = .ret a ∧ onErr (.io .unexpectedEof) d' = .ret a' ∧ a.merge = a'.merge)
    (hk : ∀ h d', DecOK d' → S (k h d')) : S (headerOnce chk d onFirst onErr k) := by
  unfold headerOnce
  split
  · exact hk _ d hd
  · exact s_fileHeader chk _ _ _ h1 (fun e => h2 e _) (fun e => h2q e _) (h3 _) (fun h => hk h _ hd)

/-- the failure continuations of a call inside `run` -/
theorem hdrFail_first (d : Dec) (ops : List Op) : ∀ e, ∃ a, hdrFail d ops (.io e) = .ret a ∧ Q e a :=
  fun e => (flOK_failOp d ops).q d.st e

theorem hdrFail_ret (ops : List Op) : ∀ (e : Err) (d' : Dec), ∃ a, hdrFail d' ops e = .ret a := fun _ _ => ⟨_, rfl⟩
theorem hdrFail_q (ops : List Op) : ∀ (e : RErr) (d' : Dec), ∃ a, hdrFail d' ops (.io e) = .ret a ∧ Q e a :=
  fun e d' => (flOK_failOp d' ops).q d'.st e
theorem hdrFail_m (ops : List Op) : ∀ d' : Dec, ∃ a a', hdrFail d' ops (.io .eof) = .ret a ∧
    hdrFail d' ops (.io .unexpectedEof) = .ret a' ∧ a.merge = a'.merge := fun d' => (flOK_failOp d' ops).m d'.st

theorem flOK_verdict (seq : Nat) (d : Dec) : FlOK (fun (st : St) (e : Err) => ciVerdict seq d st (some e)) where
  ret _ _ := ⟨_, rfl⟩
  q _ _ := ⟨_, rfl, fun _ => rfl⟩
  m _ := ⟨_, _, rfl, rfl, by simp [Out.merge, OpRes.merge, HErr.merge, Fit.DecProg.Err.merge, RErr.merge]⟩

theorem s_ciLoop (fuel : Nat) : ∀ (seq : Nat) (d : Dec), DecOK d → S (ciLoop fuel seq d) := by
  induction fuel with
  | zero => intro seq d _; exact Strict.ret _
  | succ fuel ih =>
    intro seq d hd
    simp only [ciLoop]
    refine s_headerOnce true d _ _ _ hd ?_ (fun _ _ => ⟨_, rfl⟩) (fun _ _ => ⟨_, rfl, fun _ => rfl⟩) ?_ (fun h d' hd' => ?_)
    · intro e
      by_cases hc : d.moved = true ∧ e = .eof
      · refine ⟨_, if_pos hc, ?_⟩
        intro hf; rw [hc.2] at hf; cases hf
      · exact ⟨_, if_neg hc, fun _ => rfl⟩
    · intro d'
      exact ⟨_, _, rfl, rfl, by simp [Out.merge, OpRes.merge, HErr.merge, Fit.DecProg.Err.merge, RErr.merge]⟩
    · refine s_discard (flOK_verdict seq d') true _ _ _ _ hd' (fun st' hst' => ?_)
      refine s_fileCrc (flOK_verdict seq d') true st' _ (fun c => ?_)
      exact ih _ _ hst'

/-- **every history of calls is a strict client of the read buffer** -/
theorem s_run (fuelCi : Nat) : ∀ (ops : List Op) (d : Dec), DecOK d → S (run fuelCi ops d)
  | [], d, _ => by unfold run; exact Strict.ret _
  | op :: ops, d, hd => by
    have hrec : ∀ d', DecOK d' → S (run fuelCi ops d') := fun d' h => s_run fuelCi ops d' h
    have htail : ∀ (h : Hdr) (d' : Dec) (st : St), S (fileCrc (failOp d' ops) d'.chk st fun c =>
        run fuelCi ops (d'.renew (.seq h.size h.protoVer h.profileVer h.dataSize h.crc c st.msgs :: st.evs) (.fit h c st.msgs))) :=
      fun h d' st => s_fileCrc (flOK_failOp d' ops) _ _ _ (fun c => hrec _ (decOK_renew _ _ _))
    unfold run
    cases he : d.err with
    | some e => exact Strict.ret _
    | none =>
      simp only
      cases op with
      | decode =>
        refine s_headerOnce d.chk d _ _ _ hd (hdrFail_first d ops) (hdrFail_ret ops) (hdrFail_q ops) (hdrFail_m ops) (fun h d' hd' => ?_)
        exact s_messages (flOK_failOp d' ops) _ _ _ _ _ _ hd' (fun _ st _ => htail h d' st)
      | decodeCtx c =>
        cases c with
        | false =>
          refine s_headerOnce d.chk d _ _ _ hd (hdrFail_first d ops) (hdrFail_ret ops) (hdrFail_q ops) (hdrFail_m ops) (fun h d' hd' => ?_)
          exact s_messages (flOK_failOp d' ops) _ _ _ _ _ _ hd' (fun _ st _ => htail h d' st)
        | true => exact Strict.ret _
      | decodeCtxAt n =>
        refine s_headerOnce d.chk d _ _ _ hd (hdrFail_first d ops) (hdrFail_ret ops) (hdrFail_q ops) (hdrFail_m ops) (fun h d' hd' => ?_)
        exact s_messagesCtx (flOK_failOp d' ops) _ _ _ (fun _ => Strict.ret _) _ _ _ _ _ hd' (fun _ st _ => htail h d' st)
      | peekHeader =>
        refine s_headerOnce d.chk d _ _ _ hd (hdrFail_first d ops) (hdrFail_ret ops) (hdrFail_q ops) (hdrFail_m ops) (fun h d' hd' => ?_)
        exact hrec _ hd'
      | peekFileId =>
        refine s_headerOnce d.chk d _ _ _ hd (hdrFail_first d ops) (hdrFail_ret ops) (hdrFail_q ops) (hdrFail_m ops) (fun h d' hd' => ?_)
        exact s_peekLoop (flOK_failOp d' ops) _ _ _ _ _ _ hd' (fun _ st hst => hrec _ hst)
      | discard =>
        refine s_headerOnce false d _ _ _ hd (hdrFail_first d ops) (hdrFail_ret ops) (hdrFail_q ops) (hdrFail_m ops) (fun h d' hd' => ?_)
        refine s_discard (flOK_failOp d' ops) _ _ _ _ _ hd' (fun st _ => ?_)
        exact s_rdN (flOK_failOp d' ops) _ _ _ _ (by have := consts_ok; omega) (fun _ _ _ => hrec _ (decOK_renew _ _ _))
      | next =>
        dsimp only
        split
        · exact hrec _ hd
        · refine s_headerOnce d.chk d _ _ _ hd (fun e => ⟨_, rfl, fun _ => rfl⟩) (fun _ _ => ⟨_, rfl⟩)
            (fun _ _ => ⟨_, rfl, fun _ => rfl⟩) (fun d' => ⟨_, _, rfl, rfl, ?_⟩) (fun h d' hd' => hrec _ hd')
          exact finish_merge d' ops d'.st _ _ _ _ rfl rfl
      | checkIntegrity => exact s_ciLoop fuelCi 0 d hd

theorem s_history (chk : Bool) (fuelCi : Nat) (ops : List Op) : S (history chk fuelCi ops) :=
  s_run fuelCi ops _ (by intro p hp; cases hp)

end Fit.DecHist
