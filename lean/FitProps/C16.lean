import FitProps.RawLemmas
import FitProps.AgreeLemmas
/-!
# C16 — Raw decoder segments exactly the bytes and agrees with the full decoder

PROPERTY THEOREMS (audited by ./check): see `checklib/props/C16.py`.

`Fit.Raw.decode failAt fuel {}` is the model of `(*RawDecoder).Decode(r, fn)` (`fn` failing at its `failAt`-th call, if
any; `fuel` bounds the number of sequences), run on the exact-n reader over the stream `bs` (`C08_raw_chunk_indep`: any
clean fragmentation of the reader gives the same). Its outcome lists the callback invocations `(flag, bytes)`.
-/
namespace Fit.C16
open Fit.ReadBuffer Fit.Raw Fit.Gen.Reader

/-- outcome of the raw decoder on a stream -/
def rawOut (failAt : Option Nat) (fuel : Nat) (bs : Bytes) : Out := runExact (decode failAt fuel {}) bs
/-- the byte count `n` it returns -/
def rawN (failAt : Option Nat) (fuel : Nat) (bs : Bytes) : Nat := consumedExact (decode failAt fuel {}) bs

theorem raw_post (failAt : Option Nat) (fuel : Nat) (bs : Bytes) (hb : IsBytes bs) :
    Post bs (runExactR (decode failAt fuel {}) bs) :=
  decode_post failAt fuel {} bs (by simp [flat]) (by rfl) (by rfl) hb

/-- CONCATENATION. Whatever the stream (valid or not), whatever the callback does: the segments handed to the
callback, concatenated, are a prefix of the stream — exactly its first bytes, in order, nothing skipped or repeated;
never more than the byte count `n` the decoder returns, which never exceeds the stream; and when the decoder
returns without error they are EXACTLY the `n` bytes it reports as consumed. -/
theorem C16_concat (failAt : Option Nat) (fuel : Nat) (bs : Bytes) (hb : IsBytes bs) :
    flat (rawOut failAt fuel bs).segs = bs.take (flat (rawOut failAt fuel bs).segs).length ∧
    (flat (rawOut failAt fuel bs).segs).length ≤ rawN failAt fuel bs ∧ rawN failAt fuel bs ≤ bs.length ∧
    ((rawOut failAt fuel bs).status = none → flat (rawOut failAt fuel bs).segs = bs.take (rawN failAt fuel bs)) := by
  obtain ⟨⟨mid, hcat, hmid⟩, _, _, _⟩ := raw_post failAt fuel bs hb
  have hn := consumed_eq (decode failAt fuel {}) bs
  rw [runExactR_fst] at hcat hmid
  unfold rawOut rawN
  generalize runExact (decode failAt fuel {}) bs = o at *
  generalize (runExactR (decode failAt fuel {}) bs).2 = fin at *
  generalize consumedExact (decode failAt fuel {}) bs = n at *
  have hl : (flat o.segs).length + mid.length + fin.length = bs.length := by
    rw [← hcat]; simp only [List.length_append]
  refine ⟨?_, by omega, by omega, fun hs => ?_⟩
  · rw [← hcat, List.append_assoc, List.take_append_of_le_length (Nat.le_refl _), List.take_length]
  · have hm := hmid hs
    subst hm
    have hn' : n = (flat o.segs).length := by simp at hl; omega
    rw [hn', ← hcat]; simp

/-- LENGTHS. Every segment has the length the protocol (the independent reading `FitFormat`) prescribes for it given
the preceding definitions: a file header as long as its first byte says (12 or 14); a definition record
6 + 3·fields (+ 1 + 3·developer fields when the header byte has the developer-data bit) as `FitFormat.parseDefinition`
reads it, and it rebinds its local message type; a data record one header byte plus the sum of the sizes of the
live definition of the local message type its header addresses (compressed-timestamp headers included) — there is
such a definition, and definitions do not survive a sequence; a CRC 2 bytes. For every stream and every callback. -/
theorem C16_lengths (failAt : Option Nat) (fuel : Nat) (bs : Bytes) (hb : IsBytes bs) :
    lengthsOK (rawOut failAt fuel bs).segs = true := by
  have := (raw_post failAt fuel bs hb).2.1
  rwa [runExactR_fst] at this

/-- POSITIONS. Every segment SITS where the protocol prescribes (`layoutOK`, FitModel/Raw.lean — `C16_lengths` alone
would accept a CRC segment reported in the middle of the records): a file header only between sequences; after a header
announcing `dataSize` bytes (as the independent `FitFormat.parseHeader` reads it) definition and data records only
while the records reported so far fall short of `dataSize` (the last one may overrun it, as the decoder lets it); the
2-byte CRC segment exactly when they have reached it, closing the sequence; and a run without error ends between two
sequences (`layoutClosed`). For every stream and every callback. The proof also shows that the inner loop's fuel
(`dataSize` iterations) is never what ends it: every record has at least one byte. -/
theorem C16_layout (failAt : Option Nat) (fuel : Nat) (bs : Bytes) (hb : IsBytes bs) :
    layoutOK (rawOut failAt fuel bs).segs = true ∧
    ((rawOut failAt fuel bs).status = none → layoutClosed (rawOut failAt fuel bs).segs = true) := by
  have := (raw_post failAt fuel bs hb).2.2
  rwa [runExactR_fst] at this

/-- non-vacuity of `layoutOK`: it rejects a CRC segment before the records have reached the data size, a record after
they have, and a second header inside a sequence — series on which `lengthsOK` holds -/
example :
    let hdr : Seg := ⟨rawFlagFileHeader, [14, 32, 0, 0, 9, 0, 0, 0, 46, 70, 73, 84, 0, 0]⟩
    let df : Seg := ⟨rawFlagMesgDef, [64, 0, 0, 0, 0, 1, 0, 1, 2]⟩
    let crc : Seg := ⟨rawFlagCRC, [7, 9]⟩
    layoutOK [hdr, df, crc] = true ∧ layoutClosed [hdr, df, crc] = true ∧
    lengthsOK [hdr, crc, df] = true ∧ layoutOK [hdr, crc, df] = false ∧
    lengthsOK [hdr, df, df, crc] = true ∧ layoutOK [hdr, df, df, crc] = false ∧
    lengthsOK [hdr, hdr, df, crc] = true ∧ layoutOK [hdr, hdr, df, crc] = false ∧ layoutClosed [hdr, df] = false := by
  decide +kernel

/-- THE BYTE COUNT THE DRIVER PRINTS. The `raw` operation of the correspondence family runs the model over the reader's
schedule and counts the bytes of every `io.ReadFull` (`runFullN … 0`); the theorems above speak of `rawOut` / `rawN`
(the exact-n reader, `consumedExact`). Over every schedule without reader failures — `bytes.NewReader`, any clean
fragmentation — they are the same outcome and the same count. -/
theorem C16_count_is_consumed (failAt : Option Nat) (fuel : Nat) (s : Sched) (hs : Clean s) :
    runFullN (decode failAt fuel {}) s 0 = (rawOut failAt fuel (bytesOf s), rawN failAt fuel (bytesOf s)) := by
  rw [runFullN_eq_exact _ s 0 hs]; simp [rawOut, rawN]

example : runFullN (decode none 3 {}) [⟨[14, 32, 0, 0, 9], none⟩, ⟨[0, 0, 0, 46, 70, 73, 84, 0, 0, 64, 0, 0], none⟩, ⟨[0, 0, 1, 0, 1, 2, 7], none⟩, ⟨[9], some .eof⟩] 0
    = (rawOut none 3 [14, 32, 0, 0, 9, 0, 0, 0, 46, 70, 73, 84, 0, 0, 64, 0, 0, 0, 0, 1, 0, 1, 2, 7, 9], 25) := by decide +kernel

/-- non-vacuity: a one-record file is segmented into header, definition, CRC; `lengthsOK` rejects a wrong cut -/
example : (rawOut none 2 [14, 32, 0, 0, 9, 0, 0, 0, 46, 70, 73, 84, 0, 0,  64, 0, 0, 0, 0, 1, 0, 1, 2,  7, 9]).segs.map (·.bytes.length) = [14, 9, 2] ∧
    lengthsOK [⟨rawFlagFileHeader, [14, 32, 0, 0, 9, 0, 0, 0, 46, 70, 73, 84, 0, 0]⟩, ⟨rawFlagMesgDef, [64, 0, 0, 0, 0, 1, 0, 1]⟩] = false := by
  decide +kernel

/-- READER FAILURES. `RawDecoder.Decode` over ANY reader: if an `io.ReadFull` of the decoder meets a failure of the reader
(any error of the reader other than the end-of-stream errors), `Decode` returns exactly that error — at whatever
point (header, record header, definition, data, CRC), whatever the callback does. (C08's second sentence for the raw
decoder, which reads from the reader without the read buffer; stated here because it is about `FitModel/Raw.lean`.) -/
theorem C16_reader_error (failAt : Option Nat) (fuel : Nat) (s : Sched) (e : RErr)
    (h : firstFullErr (decode failAt fuel {}) s = some e) :
    (runFull (decode failAt fuel {}) s).status = some (.io e) :=
  rkeeps_run _ (rkeeps_decode failAt fuel {}) s e h

example : firstFullErr (decode none 3 {}) [⟨[14, 32, 0], none⟩, ⟨[0], some (.custom 5)⟩] = some (.custom 5) := by decide +kernel

/-! ## agreement with the full decoder -/

open Fit.Agree in
/-- AGREEMENT. Whenever the full decoder (checksum ignored) ACCEPTS a stream — every `Decode` of the
`for dec.Next() { dec.Decode() }` loop succeeds and the loop ends because the stream ends exactly at a sequence
boundary — the raw decoder accepts it too (no error), consumes all of it, reports the same number of sequences, and
its definition and data segments are, in order, exactly the full decoder's definition and message events: same
kind, same header byte (hence the same local message number, compressed-timestamp headers whose bit 6 overlaps the
definition flag included), and for definitions the same architecture, global message number, field definitions
and developer field definitions. For every stream: any definition shapes (0..255 fields, developer fields, fields
of size 0, undersized, oversized), any number of chained sequences. -/
theorem C16_agree (fuel : Nat) (bs : Bytes) (hb : IsBytes bs)
    (hacc : (runExact (DecProg.decodeLoop false fuel true []) bs).status = none)
    (hclean : (runExact (DecProg.decodeLoop false fuel true []) bs).clean = true) :
    (rawOut none fuel bs).status = none ∧ rawN none fuel bs = bs.length ∧
    (rawOut none fuel bs).seqs = seqCount (runExact (DecProg.decodeLoop false fuel true []) bs).evs ∧
    rawItems (rawOut none fuel bs).segs = decItems (runExact (DecProg.decodeLoop false fuel true []) bs).evs := by
  have h := loop_agree fuel true [] {} bs ⟨rfl, rfl⟩ (fun h => by cases h) hb
  unfold Agree at h
  rw [runExactR_fst, runExactR_fst] at h
  obtain ⟨h1, h2, h3, h4⟩ := h hacc hclean
  have hn := consumed_eq (decode none fuel {}) bs
  rw [h4] at hn
  exact ⟨h1, by simpa [rawN] using hn, h3, h2⟩

/-- non-vacuity: a two-sequence stream with a definition, a compressed-timestamp data record of local type 2 (header
0xC5: bit 6 set) and a plain one is accepted by the full decoder model; the raw decoder reports 2 sequences -/
example :
    let bs : Bytes := [14, 32, 0, 0, 16, 0, 0, 0, 46, 70, 73, 84, 0, 0,  0x42, 0, 0, 20, 0, 2, 3, 1, 2, 4, 0, 2,  0xC5, 9,  2, 7,  0, 0,
                       12, 32, 0, 0, 9, 0, 0, 0, 46, 70, 73, 84,  0x40, 0, 1, 0, 0, 1, 0, 1, 2,  0, 0]
    (runExact (DecProg.decodeLoop false 5 true []) bs).status = none ∧
    (runExact (DecProg.decodeLoop false 5 true []) bs).clean = true ∧ (rawOut none 5 bs).seqs = 2 := by
  decide +kernel

/-- non-vacuity WITH DEVELOPER FIELDS: a definition whose header has the developer-data bit (0x60: 1 field of 1 byte,
1 developer field of 2 bytes — 13 bytes), a data record of that type (1 + 1 + 2 bytes), then a second local type
defined without developer fields and used by a compressed-timestamp record. The full decoder model accepts (checksum
ignored), the raw decoder reports header, definition (13 bytes), data (4), definition (9), data (2), CRC -/
example :
    let bs : Bytes := [14, 32, 0, 0, 28, 0, 0, 0, 46, 70, 73, 84, 0, 0,
                       0x60, 0, 0, 20, 0, 1, 3, 1, 2, 1, 0, 2, 0,   0x00, 7, 0xAA, 0xBB,
                       0x41, 0, 0, 21, 0, 1, 4, 1, 2,   0xA3, 5,   0, 0]
    (runExact (DecProg.decodeLoop false 3 true []) bs).status = none ∧
    (runExact (DecProg.decodeLoop false 3 true []) bs).clean = true ∧
    (rawOut none 3 bs).status = none ∧ (rawOut none 3 bs).seqs = 1 ∧
    (rawOut none 3 bs).segs.map (fun s => (s.flag, s.bytes.length)) =
      [(rawFlagFileHeader, 14), (rawFlagMesgDef, 13), (rawFlagMesgData, 4), (rawFlagMesgDef, 9), (rawFlagMesgData, 2), (rawFlagCRC, 2)] ∧
    lengthsOK (rawOut none 3 bs).segs = true ∧ layoutClosed (rawOut none 3 bs).segs = true := by
  decide +kernel

end Fit.C16
