import FitProps.DecoderApiHistLemmas
/-!
From the operation-dependent bookkeeping of the simulation proof (`SameOp.specRun`) to the specification of C07
(`specRun`, which fixes the extent of a sequence by the protocol alone): on a history none of whose operations lies in
the class of KF-C07-4 (`noOverrun`: no predecessor whose last record overruns its declared data size), everything the
specification demands is demanded by the bookkeeping too — so `SameOp.sim_run` carries over.
-/
namespace Fit.DecApi

def Phase.toSame : Phase → SameOp.Phase
  | .start => .start
  | .header => .header
  | .fileId k l => .fileId k l
  | .peekFailed e k => .peekFailed e k
  | .dead e => .dead e

/-- the specification state as the bookkeeping sees it (the flag `lost` dropped) -/
def Spec.toSame (p : Spec) : SameOp.Spec := ⟨p.o, p.cur, p.whole, p.atStart, p.ph.toSame⟩

/-- the two book-keepings agree on everything but — once a sequence was left somewhere else than at its protocol end —
the position in the stream -/
def Rel (p : Spec) (q : SameOp.Spec) : Prop :=
  q.o = p.o ∧ q.whole = p.whole ∧ q.ph = p.ph.toSame ∧ q.atStart = p.atStart ∧ (p.lost = false → q.cur = p.cur)

theorem Rel.eq_toSame {p : Spec} {q : SameOp.Spec} (h : Rel p q) (hl : p.lost = false) : q = p.toSame := by
  obtain ⟨h1, h2, h3, h4, h5⟩ := h
  cases q
  simp only [Spec.toSame] at *
  subst h1 h2 h3 h4
  rw [h5 hl]

theorem rel_toSame (p : Spec) : Rel p p.toSame := ⟨rfl, rfl, rfl, rfl, fun _ => rfl⟩

theorem toSame_st (p : Spec) : p.toSame.st = p.st := rfl

theorem rel_next (p : Spec) (rest : List Nat) (hl : p.lost = false) : Rel (p.next rest) (p.toSame.advance rest) := by
  refine ⟨rfl, rfl, rfl, rfl, ?_⟩
  intro h
  simp only [Spec.next, hl, Bool.false_or, decide_eq_false_iff_not, ne_eq, Decidable.not_not] at h
  exact h

theorem rel_with_ph (p : Spec) (ph : Phase) :
    Rel { p with ph := ph } { p.toSame with ph := ph.toSame } := ⟨rfl, rfl, rfl, rfl, fun _ => rfl⟩

theorem rel_decode (p : Spec) (k : Nat) (sticky : Option Err) (hl : p.lost = false) :
    Rel (specDecode p k sticky).1 (SameOp.specDecode p.toSame k sticky).1 ∧
      (specDecode p k sticky).2 = (SameOp.specDecode p.toSame k sticky).2 := by
  unfold specDecode SameOp.specDecode
  rw [toSame_st]
  rcases stepDecode p.st with ⟨s', out, evs⟩
  cases sticky with
  | some e => exact ⟨rel_with_ph p _, rfl⟩
  | none =>
    cases out with
    | fit f => exact ⟨rel_next p _ hl, rfl⟩
    | err e => exact ⟨rel_with_ph p _, rfl⟩
    | _ => exact ⟨rel_toSame p, rfl⟩

theorem rel_decodeAt (p : Spec) (d k : Nat) (hl : p.lost = false) :
    Rel (specDecodeAt p d k).1 (SameOp.specDecodeAt p.toSame d k).1 ∧
      (specDecodeAt p d k).2 = (SameOp.specDecodeAt p.toSame d k).2 := by
  unfold specDecodeAt SameOp.specDecodeAt
  rw [toSame_st]
  rcases stepDecodeCtxAt k p.st with ⟨s', out, evs⟩
  cases out with
  | fit f => exact ⟨rel_next p _ hl, rfl⟩
  | err e => exact ⟨rel_with_ph p _, rfl⟩
  | _ => exact ⟨rel_toSame p, rfl⟩

theorem rel_discard (p : Spec) (hl : p.lost = false) :
    Rel (specDiscard p).1 (SameOp.specDiscard p.toSame).1 ∧ (specDiscard p).2 = (SameOp.specDiscard p.toSame).2 := by
  unfold specDiscard SameOp.specDiscard
  rw [toSame_st]
  rcases stepDiscard p.st with ⟨s', out, evs⟩
  cases out with
  | done => exact ⟨rel_next p _ hl, rfl⟩
  | err e => exact ⟨rel_with_ph p _, rfl⟩
  | _ => exact ⟨rel_toSame p, rfl⟩

theorem rel_peekHeader (p : Spec) :
    Rel (specPeekHeader p).1 (SameOp.specPeekHeader p.toSame).1 ∧ (specPeekHeader p).2 = (SameOp.specPeekHeader p.toSame).2 := by
  unfold specPeekHeader SameOp.specPeekHeader
  rw [toSame_st]
  rcases stepPeekHeader p.st with ⟨s', out, evs⟩
  cases out <;> exact ⟨⟨rfl, rfl, rfl, rfl, fun _ => rfl⟩, rfl⟩

theorem rel_peekFileId (p : Spec) :
    Rel (specPeekFileId p).1 (SameOp.specPeekFileId p.toSame).1 ∧ (specPeekFileId p).2 = (SameOp.specPeekFileId p.toSame).2 := by
  unfold specPeekFileId SameOp.specPeekFileId
  rw [toSame_st]
  rcases stepPeekFileId p.st with ⟨s', out, evs⟩
  cases out <;> exact ⟨⟨rfl, rfl, rfl, rfl, fun _ => rfl⟩, rfl⟩

theorem toSame_peeked (p : Spec) : p.toSame.peeked = p.peeked := rfl

/-- one step, position not lost, operation outside the class: same demand, related states -/
theorem step_toSame (p : Spec) (op : Op) (hl : p.lost = false) (hx : p.excluded op = false) :
    Rel (specStep p op).1 (SameOp.specStep p.toSame op).1 ∧ (specStep p op).2 = (SameOp.specStep p.toSame op).2 := by
  have hph : p.toSame.ph = p.ph.toSame := rfl
  cases op with
  | reset o b =>
    have h1 : specStep p (.reset o b) = (Spec.fresh o b, some (.done, [])) := by unfold specStep; cases p.ph <;> rfl
    have h2 : SameOp.specStep p.toSame (.reset o b) = (SameOp.Spec.fresh o b, some (.done, [])) := by
      unfold SameOp.specStep; cases p.toSame.ph <;> rfl
    rw [h1, h2]
    exact ⟨rel_toSame (Spec.fresh o b), rfl⟩
  | decode =>
    unfold specStep SameOp.specStep
    rw [hph]
    cases p.ph with
    | start => exact rel_decode p 0 none hl
    | header => exact rel_decode p 0 none hl
    | fileId k l => exact rel_decode p k none hl
    | peekFailed e k => exact rel_decode p k (some e) hl
    | dead e => exact ⟨rel_toSame p, rfl⟩
  | decodeCtx c =>
    unfold specStep SameOp.specStep
    rw [hph]
    cases c <;> cases p.ph <;>
      first
      | exact rel_decode p _ _ hl
      | exact ⟨rel_toSame p, rfl⟩
      | exact ⟨rel_with_ph p _, rfl⟩
  | decodeCtxAt k =>
    unfold specStep SameOp.specStep
    rw [hph]
    cases p.ph with
    | start => exact rel_decodeAt p 0 k hl
    | header => exact rel_decodeAt p 0 k hl
    | fileId d l => exact rel_decodeAt p d (p.peeked + k) hl
    | peekFailed e k => exact ⟨rel_with_ph p _, rfl⟩
    | dead e => exact ⟨rel_toSame p, rfl⟩
  | peekHeader =>
    unfold specStep SameOp.specStep
    rw [hph]
    cases p.ph with
    | start =>
      have h := rel_peekHeader p
      refine ⟨h.1, ?_⟩
      show some ((specPeekHeader p).2, ([] : List Event)) = some ((SameOp.specPeekHeader p.toSame).2, [])
      rw [h.2]
    | header => exact ⟨rel_toSame p, rfl⟩
    | fileId d l => exact ⟨rel_toSame p, rfl⟩
    | peekFailed e k => exact ⟨rel_toSame p, rfl⟩
    | dead e => exact ⟨rel_toSame p, rfl⟩
  | peekFileId =>
    unfold specStep SameOp.specStep
    rw [hph]
    cases p.ph with
    | start => exact rel_peekFileId p
    | header => exact rel_peekFileId p
    | fileId d l => exact ⟨rel_toSame p, rfl⟩
    | peekFailed e k => exact ⟨rel_toSame p, rfl⟩
    | dead e => exact ⟨rel_toSame p, rfl⟩
  | discard =>
    unfold Spec.excluded at hx
    unfold specStep SameOp.specStep
    rw [hph]
    cases hq : p.ph with
    | start => exact rel_discard p hl
    | header => exact rel_discard p hl
    | fileId d l =>
      cases l with
      | false => exact rel_discard p hl
      | true => rw [hq, hl] at hx; cases hx
    | peekFailed e k => exact ⟨rel_with_ph p _, rfl⟩
    | dead e => exact ⟨rel_toSame p, rfl⟩
  | next =>
    unfold specStep SameOp.specStep
    rw [hph]
    cases p.ph with
    | start =>
      have h := rel_peekHeader p
      have hat : p.toSame.atStart = p.atStart := rfl
      simp only [Phase.toSame]
      cases hs : p.atStart with
      | true =>
        simp only [hat, hs, if_true]
        exact ⟨rel_toSame p, trivial⟩
      | false =>
        simp only [hat, hs, Bool.false_eq_true, if_false]
        refine ⟨h.1, ?_⟩
        rw [h.2]
        exact rfl
    | header => exact ⟨rel_toSame p, rfl⟩
    | fileId d l => exact ⟨rel_toSame p, rfl⟩
    | peekFailed e k => exact ⟨rel_toSame p, rfl⟩
    | dead e => exact ⟨rel_toSame p, rfl⟩
  | checkIntegrity =>
    unfold specStep SameOp.specStep
    rw [hph]
    cases p.ph <;> first | exact ⟨rel_toSame p, rfl⟩ | exact ⟨⟨rfl, rfl, rfl, rfl, fun _ => rfl⟩, rfl⟩

/-- **one step under the class exclusion**: whatever the specification demands the bookkeeping demands, and the
states stay related (after an overrun only `Reset` / `CheckIntegrity` + re-seek are outside the class) -/
theorem rel_step (p : Spec) (q : SameOp.Spec) (op : Op) (h : Rel p q) (hx : p.excluded op = false) :
    Rel (specStep p op).1 (SameOp.specStep q op).1 ∧
      ∀ r, (specStep p op).2 = some r → (SameOp.specStep q op).2 = some r := by
  cases hl : p.lost with
  | false =>
    rw [h.eq_toSame hl]
    have := step_toSame p op hl hx
    exact ⟨this.1, fun r hr => by rw [← this.2]; exact hr⟩
  | true =>
    obtain ⟨h1, h2, h3, h4, _⟩ := h
    cases op with
    | reset o b =>
      have e1 : specStep p (.reset o b) = (Spec.fresh o b, some (.done, [])) := by unfold specStep; cases p.ph <;> rfl
      have e2 : SameOp.specStep q (.reset o b) = (SameOp.Spec.fresh o b, some (.done, [])) := by
        unfold SameOp.specStep; cases q.ph <;> rfl
      rw [e1, e2]
      exact ⟨rel_toSame (Spec.fresh o b), fun r hr => hr⟩
    | checkIntegrity =>
      unfold specStep SameOp.specStep
      rw [h3]
      cases p.ph <;>
        first
        | exact ⟨⟨h1, h2, h3 ▸ rfl, h4, fun hh => by rw [hl] at hh; cases hh⟩, fun r hr => by cases hr⟩
        | exact ⟨⟨h1, h2, rfl, rfl, fun _ => h2⟩, fun r hr => by cases hr⟩
    | discard => simp [Spec.excluded, hl] at hx
    | _ => simp [Spec.excluded, hl] at hx

theorem agree_of_sameOp : ∀ (ops : List Op) (a : Api) (p : Spec) (q : SameOp.Spec), Rel p q → noOverrun p ops = true →
    (∀ x ∈ (run a ops).zip (SameOp.specRun q ops), ∀ r, x.2 = some r → x.1 = r) →
    ∀ x ∈ (run a ops).zip (specRun p ops), ∀ r, x.2 = some r → x.1 = r
  | [], _, _, _, _, _, _ => by intro x hx; cases hx
  | op :: ops, a, p, q, hrel, hno, hold => by
    unfold noOverrun at hno
    simp only [Bool.and_eq_true, Bool.not_eq_true'] at hno
    have hstep := rel_step p q op hrel hno.1
    intro x hx r hr
    unfold run specRun at hx
    simp only [List.zip_cons_cons, List.mem_cons] at hx
    unfold run SameOp.specRun at hold
    simp only [List.zip_cons_cons, List.mem_cons] at hold
    rcases hx with rfl | hx
    · exact hold _ (Or.inl rfl) r (hstep.2 r hr)
    · exact agree_of_sameOp ops _ _ _ hstep.1 hno.2 (fun y hy => hold y (Or.inr hy)) x hx r hr

end Fit.DecApi
