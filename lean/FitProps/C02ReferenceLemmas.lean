import FitProps.WireLemmas
import FitProps.BridgeLemmas
import FitProps.CrcAlgebra
import FitProps.C18
import FitProps.C02ChainLemmas
import FitModel.IntegritySpec
/-!
Helper lemmas for `C02_reference_accepts`: the declarative reference of the FIT integrity rules (`IntegritySpec.reference`,
the specification of property C04: file CRC over the WHOLE sequence) on what the wire-level encoder model writes with
14-byte headers — rules 1–4 hold of each encoded sequence whatever follows it, and the walk over a chain counts one
sequence per FIT value. (For a 12-byte header rule 4 fails: KF-C02-legacy-crc.)
-/
namespace Fit.C02
open Fit.Wire
open Fit.Crc (write crcSpec crc_append_self crcSpec_append)

/-- the reference's rules 1–4 on one encoded sequence with a 14-byte header, whatever follows -/
theorem seqValid_encodeFit (o : Opts) (h : Hdr) (ms : List WMsg) (hf : FitOK o h ms) (h14 : h.size = 14)
    (hpv : h.protoVer < 256) (hrb0 : Fit.C18.Bytes (encodeMsgs o (freshEnc o) ms)) (tail : Bytes) :
    IntegritySpec.seqValid (encodeFit o h ms ++ tail) = some (encodeFit o h ms).length := by
  have hpos := encodeMsgs_pos o (freshEnc o) ms hf.nonempty
  have hsmall := hf.small
  have hrb : Fit.C18.Bytes (encodeMsgs o (freshEnc o) ms) := hrb0
  clear hrb0
  have hmod : (encodeMsgs o (freshEnc o) ms).length % 4294967296 = (encodeMsgs o (freshEnc o) ms).length := Nat.mod_eq_of_lt hsmall
  generalize hR : encodeMsgs o (freshEnc o) ms = R at *
  have hE : encodeFit o h ms = hdrBytes h R.length ++ R ++ Wire.le16 (write 0 R) := by
    simp only [encodeFit, hR, hmod]
  have hlenH : (hdrBytes h R.length).length = 14 := by rw [hdrBytes_len h R.length hf.size, h14]
  have hbb : Fit.C18.Bytes (b12 h R.length) := by
    intro b hb
    simp only [b12, Wire.le16, Wire.le32, List.cons_append, List.nil_append, List.mem_cons, List.not_mem_nil, or_false] at hb
    rcases hb with rfl | rfl | rfl | rfl | rfl | rfl | rfl | rfl | rfl | rfl | rfl | rfl <;> omega
  have hw12 := Fit.C18.C18_write_eq_spec _ hbb 0 (by decide)
  have hwR := Fit.C18.C18_write_eq_spec R hrb 0 (by decide)
  have hhdr : hdrBytes h R.length = b12 h R.length ++ Wire.le16 (crcSpec 0 (b12 h R.length)) := by
    have hw' := hw12
    simp only [b12, h14] at hw'
    simp only [hdrBytes, h14, if_true, b12, hw']
  have hzero : crcSpec 0 (hdrBytes h R.length) = 0 := by
    rw [hhdr]
    have := crc_append_self (b12 h R.length) hbb
    simpa [Fit.Crc.le16, Wire.le16] using this
  have hph := Bridge.parseHeader_hdrBytes h R.length (R ++ Wire.le16 (write 0 R) ++ tail) hf.size hf.profile hsmall
  have hbs : encodeFit o h ms ++ tail = hdrBytes h R.length ++ (R ++ Wire.le16 (write 0 R) ++ tail) := by
    rw [hE]; simp only [List.append_assoc]
  have h12len : (b12 h R.length).length = 12 := by simp [b12, Wire.le16, Wire.le32]
  have htake12 : (encodeFit o h ms ++ tail).take 12 = b12 h R.length := by
    rw [hbs, hhdr, List.append_assoc, ← h12len, List.take_left]
  have hdropn : (encodeFit o h ms ++ tail).drop (14 + R.length) = Wire.le16 (write 0 R) ++ tail := by
    rw [hbs, ← hlenH, ← List.drop_drop, List.drop_left, List.append_assoc, List.drop_left]
  have htaken : (encodeFit o h ms ++ tail).take (14 + R.length) = hdrBytes h R.length ++ R := by
    rw [hbs, ← hlenH, List.take_length_add_append, List.append_assoc, List.take_left]
  have hlt : write 0 R < 65536 := Fit.Crc.write_lt 0 (by decide) R
  unfold IntegritySpec.seqValid
  rw [hbs, hph, ← hbs]
  simp only [h14, if_true]
  rw [if_neg (by omega)]
  have hcb : IntegritySpec.headerCrcBad (encodeFit o h ms ++ tail) (some (write 0 (b12 h R.length))) = false := by
    simp only [IntegritySpec.headerCrcBad, htake12, hw12]
    simp
  rw [hcb]
  simp only [Bool.false_eq_true, if_false, hdropn, htaken, Wire.le16, List.cons_append, List.nil_append]
  rw [crcSpec_append, hzero, ← hwR]
  have : FitFormat.le16 (write 0 R % 256) (write 0 R / 256 % 256) = write 0 R := by
    simp only [FitFormat.le16]; omega
  rw [if_pos this, hE]
  simp [hlenH, Wire.le16]
  omega

theorem refLoop_encodeChain (o : Opts) : ∀ (fits : List (Hdr × List WMsg)), (∀ f ∈ fits, FitOK o f.1 f.2) →
    (∀ f ∈ fits, f.1.protoVer < 256 ∧ Fit.C18.Bytes (encodeMsgs o (freshEnc o) f.2)) → (∀ f ∈ fits, f.1.size = 14) → ∀ (fuel seq : Nat), (encodeChain o fits).length < fuel →
    seq + fits.length ≠ 0 →
    IntegritySpec.refLoop fuel seq (encodeChain o fits) = .ok (seq + fits.length)
  | [], _, _, _, fuel, seq, hfuel, hne => by
    obtain ⟨f2, rfl⟩ : ∃ f2, fuel = f2 + 1 := ⟨fuel - 1, by omega⟩
    have : seq ≠ 0 := by simpa using hne
    simp [encodeChain, IntegritySpec.refLoop, this]
  | f :: fits, hall, hbytes, h14, fuel, seq, hfuel, _ => by
    obtain ⟨f2, rfl⟩ : ∃ f2, fuel = f2 + 1 := ⟨fuel - 1, by omega⟩
    have e := encodeChain_cons' o f fits
    have hsv := seqValid_encodeFit o f.1 f.2 (hall f (by simp)) (h14 f (by simp)) (hbytes f (by simp)).1 (hbytes f (by simp)).2 (encodeChain o fits)
    have hpos := Bridge.encodeFit_length_pos o f.1 f.2
    have hne : (encodeFit o f.1 f.2 ++ encodeChain o fits).isEmpty = false := by
      cases hE : encodeFit o f.1 f.2 with
      | nil => simp [hE] at hpos
      | cons a t => rfl
    rw [e] at hfuel ⊢
    unfold IntegritySpec.refLoop
    simp only [hne, Bool.false_eq_true, if_false, hsv, List.drop_left]
    have := refLoop_encodeChain o fits (fun x hx => hall x (by simp [hx])) (fun x hx => hbytes x (by simp [hx]))
      (fun x hx => h14 x (by simp [hx])) f2 (seq + 1) (by simp at hfuel; omega) (by omega)
    rw [this]; simp; omega

end Fit.C02
