import FitModel.Value
import FitModel.BaseTypeSpec
import FitModel.Generated.Go_basetype
import FitProps.Go2LeanLemmas
/-!
Agreement of the definitions GENERATED from profile/basetype/basetype.go (`Go.basetype.*`) with what the hand-written
model assumes about base types: `Fit.Value.btSize` / `btValid` (over the table `Fit.Gen.baseTypeSizes`, which the harness
regenerates by CALLING `Size()` on the compiled package), and `Fit.Gen.baseTypeList`.
-/
namespace Fit.Go2Lean
open Fit.Value Fit.Gen Fit.BaseTypeSpec

/-- `var sizes [256]byte` as written in the source (keyed literal, values computed by go/types) is the table the model
reads through `btSize` -/
theorem bt_sizes : Go.basetype.sizes = baseTypeSizes := by decide +kernel

/-- `BaseType.Size()` never panics (a byte indexes a 256-array) and is `btSize`, for every byte -/
theorem bt_size : ∀ t < 256, Go.basetype.BaseType.Size t = some (btSize t) := by decide +kernel

/-- `BaseType.Valid()` is `btValid`, for every byte -/
theorem bt_valid : ∀ t < 256, Go.basetype.BaseType.Valid t = some (btValid t) := by decide +kernel

/-- `List()` is the list of the 17 base types the model enumerates -/
theorem bt_list : Go.basetype.List_ = baseTypeList := by decide +kernel

/-! ### against the FIT protocol's table of base types (a fixed reference: it does not move with the code) -/

/-- `Size()` as written in the source is the protocol's size for the 17 base types and 0 for every other byte -/
theorem bt_spec_size : ∀ t < 256, Go.basetype.BaseType.Size t = some (((fitBaseTypes.lookup t).map (·.1)).getD 0) := by
  decide +kernel

/-- `Valid()` holds exactly of the 17 base types of the protocol -/
theorem bt_spec_valid : ∀ t < 256, Go.basetype.BaseType.Valid t = some ((fitBaseTypes.lookup t).isSome) := by decide +kernel

/-- `List()` lists the protocol's base types, in the protocol's order (type number order) -/
theorem bt_spec_list : Go.basetype.List_ = fitBaseTypes.map (·.1) := by decide +kernel

/-- `String()` / `FromString` use the protocol's names -/
theorem bt_spec_names : ∀ p ∈ fitBaseTypes, Go.basetype.BaseType.String_ p.1 = p.2.2 ∧ Go.basetype.FromString p.2.2 = p.1 := by
  decide +kernel

end Fit.Go2Lean
