import FitModel.Value
import FitModel.BaseTypeSpec
import FitModel.Generated.Go_basetype
import FitProps.Go2LeanLemmas
/-!
Agreement of the definitions GENERATED from profile/basetype/basetype.go (`Go.basetype.*`) with what the hand-written
model assumes about base types: `Fit.Value.btSize` / `btValid` (over the table `Fit.Gen.baseTypeSizes`, which the harness
regenerates by CALLING `Size()` on the compiled package), and `Fit.Gen.baseTypeList`.
-/
namespace Fit.Go2Lean
open Fit.Value Fit.Gen Fit.BaseTypeSpec

/-- `var sizes [256]byte` as written in the source (keyed literal, values computed by go/types) is the table the model
reads through `btSize` -/
theorem bt_sizes : Go.basetype.sizes = baseTypeSizes := by decide +kernel

/-- `BaseType.Size()` never panics (a byte indexes a 256-array) and is `btSize`, for every byte -/
theorem bt_size : ∀ t < 256, Go.basetype.BaseType.Size t = some (btSize t) := by decide +kernel

/-- `BaseType.Valid()` is `btValid`, for every byte -/
theorem bt_valid : ∀ t < 256, Go.basetype.BaseType.Valid t = some (btValid t) := by decide +kernel

/-- `List()` is the list of the 17 base types the model enumerates -/
theorem bt_list : Go.basetype.List_ = baseTypeList := by decide +kernel

/-- the masks and the invalid sentinels of the source (values computed by go/types) are the ones the model reads from the
regenerated constants (bit patterns; the signed ones are the maximum of their type) -/
theorem bt_consts :
    Go.basetype.BaseTypeNumMask = baseTypeNumMask ∧ Go.basetype.EndianAbilityMask = endianAbilityMask ∧
    Go.basetype.EnumInvalid = enumInvalid ∧ Go.basetype.Sint8Invalid = (sint8Invalid : Int) ∧ Go.basetype.Uint8Invalid = uint8Invalid ∧
    Go.basetype.Sint16Invalid = (sint16Invalid : Int) ∧ Go.basetype.Uint16Invalid = uint16Invalid ∧
    Go.basetype.Sint32Invalid = (sint32Invalid : Int) ∧ Go.basetype.Uint32Invalid = uint32Invalid ∧
    Go.basetype.Float32Invalid = float32Invalid ∧ Go.basetype.Float64Invalid = float64Invalid ∧
    Go.basetype.Uint8zInvalid = uint8zInvalid ∧ Go.basetype.Uint16zInvalid = uint16zInvalid ∧ Go.basetype.Uint32zInvalid = uint32zInvalid ∧
    Go.basetype.ByteInvalid = byteInvalid ∧ Go.basetype.Sint64Invalid = (sint64Invalid : Int) ∧
    Go.basetype.Uint64Invalid = uint64Invalid ∧ Go.basetype.Uint64zInvalid = uint64zInvalid := by decide

/-- the base type field of the protocol: the type number in bits 0–4 (`BaseTypeNumMask`) counts the 17 types in order, and
bit 7 (`EndianAbilityMask`) is set exactly for the types wider than one byte -/
theorem bt_spec_field : (fitBaseTypes.map (fun p => p.1 &&& Go.basetype.BaseTypeNumMask)) = List.range 17 ∧
    ∀ p ∈ fitBaseTypes, ((p.1 &&& Go.basetype.EndianAbilityMask) == Go.basetype.EndianAbilityMask) = decide (p.2.1 > 1) := by
  decide +kernel

/-! ### against the FIT protocol's table of base types (a fixed reference: it does not move with the code) -/

/-- `Size()` as written in the source is the protocol's size for the 17 base types and 0 for every other byte -/
theorem bt_spec_size : ∀ t < 256, Go.basetype.BaseType.Size t = some (((fitBaseTypes.lookup t).map (·.1)).getD 0) := by
  decide +kernel

/-- `Valid()` holds exactly of the 17 base types of the protocol -/
theorem bt_spec_valid : ∀ t < 256, Go.basetype.BaseType.Valid t = some ((fitBaseTypes.lookup t).isSome) := by decide +kernel

/-- `List()` lists the protocol's base types, in the protocol's order (type number order) -/
theorem bt_spec_list : Go.basetype.List_ = fitBaseTypes.map (·.1) := by decide +kernel

/-- `String()` / `FromString` use the protocol's names -/
theorem bt_spec_names : ∀ p ∈ fitBaseTypes, Go.basetype.BaseType.String_ p.1 = p.2.2 ∧ Go.basetype.FromString p.2.2 = p.1 := by
  decide +kernel

end Fit.Go2Lean
