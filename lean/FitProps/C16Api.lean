import FitProps.C16
import FitProps.Links
/-!
# C16, continued — agreement stated for the decoder's API model (C)

In its own file because `FitProps/Links.lean` (the link theorems between the models) imports `FitProps/C16.lean`.
PROPERTY THEOREMS (audited by ./check): `C16_agree_api`, `C16_api_results_are_fits`.
-/
namespace Fit.C16
open Fit.ReadBuffer Fit.Raw Fit.Gen.Reader

/-! ## agreement with the decoder's API model (C) -/

open Fit.DecApi Fit.Link Fit.Links in
/-- what `apiOf` collects: one `.fit` result per sequence event of the run of (D), nothing else -/
theorem C16_api_results_are_fits (evs : List DecProg.Ev) : ∀ (i : IState), (∀ c ∈ i.done, ∃ f, c.1 = .fit f) →
    (∀ c ∈ (evs.foldl iStep i).done, ∃ f, c.1 = .fit f) ∧
    (evs.foldl iStep i).done.length = i.done.length + Agree.seqCount evs := by
  induction evs with
  | nil => intro i h; exact ⟨h, by simp [Agree.seqCount]⟩
  | cons e es ih =>
    intro i h
    have key : (∀ c ∈ (iStep i e).done, ∃ f, c.1 = .fit f) ∧
        (iStep i e).done.length = i.done.length + (if Agree.isSeq e then 1 else 0) := by
      cases e with
      | def_ header arch mesgNum fields devs => exact ⟨h, by simp [iStep, Agree.isSeq]⟩
      | msg header a b c vals devs =>
        simp only [iStep]
        split <;> exact ⟨h, by simp [Agree.isSeq]⟩
      | seq size pv prof ds hcrc fcrc x =>
        refine ⟨?_, by simp [iStep, Agree.isSeq]⟩
        intro c hc
        simp only [iStep, List.mem_append, List.mem_singleton] at hc
        rcases hc with hc | hc
        · exact h c hc
        · exact ⟨_, by rw [hc]⟩
    obtain ⟨h1, h2⟩ := ih (iStep i e) key.1
    refine ⟨h1, ?_⟩
    rw [List.foldl_cons, h2, key.2]
    simp only [Agree.seqCount, List.filter_cons]
    split <;> simp <;> omega

open Fit.DecApi Fit.Link Fit.Links in
/-- AGREEMENT, AT THE LEVEL OF THE DECODER'S API MODEL (C). `C16_agree` speaks of the reader-client model (D) of the full
decoder; by the link theorem `Link_decprog_eq_api` the results of the `Decode()` calls of `for dec.Next() { dec.Decode() }`
on the API model (C) — FITs with decoded values, listener calls — are a function (`apiOf`) of that same run of (D), for
every option set with the checksum ignored and every factory in the link's domain. So whenever (D) accepts the stream:
the API model returns FITs only, one per sequence; the raw decoder accepts, consumes everything and reports exactly as
many sequences as the API model returned FITs; and its definition / data segments are the items of the run (`C16_agree`)
from which the API model's messages and listener calls are rebuilt. -/
theorem C16_agree_api (o : Opts) (ho : o.chk = false) (fuel : Nat) (bs : Bytes) (hb : ReadBuffer.IsBytes bs) (hlen : bs.length < 4294967296)
    (hfac : FacOK o.fac) (hbt : facBtOK o.fac = true) (hfd : facFdOK o.fac = true)
    (hacc : (runExact (DecProg.decodeLoop false fuel true []) bs).status = none)
    (hclean : (runExact (DecProg.decodeLoop false fuel true []) bs).clean = true) :
    normCalls (apiLoop fuel (Api.fresh o bs)) = apiOf o (runExact (DecProg.decodeLoop false fuel true []) bs) ∧
    (∀ c ∈ normCalls (apiLoop fuel (Api.fresh o bs)), ∃ f, c.1 = .fit f) ∧
    (rawOut none fuel bs).status = none ∧ rawN none fuel bs = bs.length ∧
    (rawOut none fuel bs).seqs = (normCalls (apiLoop fuel (Api.fresh o bs))).length ∧
    Agree.rawItems (rawOut none fuel bs).segs = Agree.decItems (runExact (DecProg.decodeLoop false fuel true []) bs).evs := by
  have hl := Link_decprog_eq_api o bs fuel hb hlen hfac hbt hfd
  rw [ho] at hl
  obtain ⟨a1, a2, a3, a4⟩ := C16_agree fuel bs hb hacc hclean
  have hd := C16_api_results_are_fits (runExact (DecProg.decodeLoop false fuel true []) bs).evs { t := St.fresh o [] } (by simp)
  have hap : apiOf o (runExact (DecProg.decodeLoop false fuel true []) bs) =
      ((runExact (DecProg.decodeLoop false fuel true []) bs).evs.foldl iStep { t := St.fresh o [] }).done := by
    simp [apiOf, hacc]
  refine ⟨hl, ?_, a1, a2, ?_, a4⟩
  · rw [hl, hap]; exact hd.1
  · rw [hl, hap, hd.2, a3]; simp

end Fit.C16
