import FitModel.ProfileSpec
/-! Definitions used in the statements of C17 (`FitProps/C17.lean`) that depend on NO regenerated table. The statements are
sharded: each `C17Defs<Group>` / `C17<Group>Lemmas` pair imports only the regenerated tables of its group, so that a changed
table makes lake re-check only the shards that read it (in parallel):

| shard | regenerated tables it reads |
|---|---|
| `C17DefsMesg`, `C17MesgLemmas` | `Xlsx` (messages), `ProfileTables` (factory dump), `Mesgdef` |
| `C17DefsTypes`, `C17TypesLemmas` | `XlsxTypes`, `ProfileTypes`, `ProfileStrs` (profile_gen.go rows) |
| `C17StrLemmas` | `ProfileStrs`, `ProfileTypes`, `ProfileTables` (base-type sizes) |
| `C17DefsUntyped`, `C17UntypedLemmas`, `C17UntypedNodupLemmas`, `C17MesgnumLemmas` | `Untyped`, `Xlsx` / `XlsxTypes` |
| `C17BytesLemmas` | `GenDigest` (generator re-run), `TreeDigest` (checked-in `*_gen.go` of the whole tree) |
-/
namespace Fit.C17
open Fit.ProfileSpec

/-- the packed numbers of `Fit.ProfileSpec.f14` (the complete list of KF-C17-1) are these texts -/
example : f14.map (fun p => (unpack p.1, unpack p.2)) =
    [("cadence_zone_high_bondary".toUTF8.toList.map UInt8.toNat, "cadence_zone_high_boundary".toUTF8.toList.map UInt8.toNat),
     ("connect_iq_app_managment".toUTF8.toList.map UInt8.toNat, "connect_iq_app_management".toUTF8.toList.map UInt8.toNat),
     ("degrees_farenheit".toUTF8.toList.map UInt8.toNat, "degrees_fahrenheit".toUTF8.toList.map UInt8.toNat)] := by
  decide +kernel

/-- the packed numbers of `Fit.ProfileSpec.r7Dropped` (the complete list of what reading rule R7 drops) are these texts -/
example : r7Dropped.map (fun p => (unpack p.1, unpack p.2.1, p.2.2)) =
    [("weather_report".toUTF8.toList.map UInt8.toNat, "forecast".toUTF8.toList.map UInt8.toNat, 1)] := by
  decide +kernel

/-- The generator of C17, as the first line of its output names it. -/
def fitgenProgram : Nat := 0x1696e7465726e616c2f636d642f66697467656e2f6d61696e2e676f

/-- **The `*_gen.go` files of the tree that are NOT output of internal/cmd/fitgen**, the complete list: (path, the other
`go generate` program its first line names). Both are derived from the COMPILED profile packages, not from Profile.xlsx
(`lookup_gen.go` is tied by C19). Any other `*_gen.go` anywhere in the tree that the generator does not emit breaks `C17_bytes`. -/
def otherGenerators : List (Nat × Nat) := [
  (0x1636d642f6669747072696e742f7072696e7465722f747970656465665f67656e2e676f, 0x1636d642f666974636f6e762f6669747072696e742f747970656465662e676f),
  (0x1636d642f666974636f6e762f6669746373762f6c6f6f6b75705f67656e2e676f, 0x1636d642f666974636f6e762f6669746373762f6c6f6f6b75702e676f)]

example : otherGenerators.map (fun p => (unpack p.1, unpack p.2)) =
    [("cmd/fitprint/printer/typedef_gen.go".toUTF8.toList.map UInt8.toNat, "cmd/fitconv/fitprint/typedef.go".toUTF8.toList.map UInt8.toNat),
     ("cmd/fitconv/fitcsv/lookup_gen.go".toUTF8.toList.map UInt8.toNat, "cmd/fitconv/fitcsv/lookup.go".toUTF8.toList.map UInt8.toNat)] ∧
    unpack fitgenProgram = "internal/cmd/fitgen/main.go".toUTF8.toList.map UInt8.toNat := by
  decide +kernel

end Fit.C17
