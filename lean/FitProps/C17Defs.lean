import FitModel.ProfileSpec
/-! Definitions used in the statements of C17 (`FitProps/C17.lean`) that depend on NO regenerated table. The statements are
sharded: each `C17Defs<Group>` / `C17<Group>Lemmas` pair imports only the regenerated tables of its group, so that a changed
table makes lake re-check only the shards that read it (in parallel):

| shard | regenerated tables it reads |
|---|---|
| `C17DefsMesg`, `C17MesgLemmas` | `Xlsx` (messages), `ProfileTables` (factory dump), `Mesgdef` |
| `C17DefsTypes`, `C17TypesLemmas` | `XlsxTypes`, `ProfileTypes`, `ProfileStrs` (profile_gen.go rows) |
| `C17StrLemmas` | `ProfileStrs`, `ProfileTypes`, `ProfileTables` (base-type sizes) |
| `C17DefsUntyped`, `C17UntypedLemmas`, `C17UntypedNodupLemmas`, `C17MesgnumLemmas` | `Untyped`, `Xlsx` / `XlsxTypes` |
-/
namespace Fit.C17
open Fit.ProfileSpec

/-- the packed numbers of `Fit.ProfileSpec.f14` (the complete list of KF-C17-1) are these texts -/
example : f14.map (fun p => (unpack p.1, unpack p.2)) =
    [("cadence_zone_high_bondary".toUTF8.toList.map UInt8.toNat, "cadence_zone_high_boundary".toUTF8.toList.map UInt8.toNat),
     ("connect_iq_app_managment".toUTF8.toList.map UInt8.toNat, "connect_iq_app_management".toUTF8.toList.map UInt8.toNat),
     ("degrees_farenheit".toUTF8.toList.map UInt8.toNat, "degrees_fahrenheit".toUTF8.toList.map UInt8.toNat)] := by
  decide +kernel

end Fit.C17
