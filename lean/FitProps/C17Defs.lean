import FitModel.ProfileSpec
import FitModel.Generated.Xlsx
import FitModel.Generated.XlsxTypes
import FitModel.Generated.ProfileTables
import FitModel.Generated.ProfileTypes
import FitModel.Generated.ProfileStrs
import FitModel.Generated.GenDigest
import FitModel.Generated.Untyped
/-! Definitions used in the statements of C17 (`FitProps/C17.lean`). The kernel evaluations of the statements live in
the `C17*Lemmas` modules, one per group of tables, so that lake re-checks them in parallel. -/
namespace Fit.C17
open Fit.ProfileSpec Fit.Gen

/-- (spreadsheet spelling, generated spelling): `cadence_zone_high_bondary → …_boundary` (field 8 of message
`zones_target`… see the KF entry), `connect_iq_app_managment → …_management` (constant of
`connectivity_capabilities`), `degrees_farenheit → degrees_fahrenheit` (constant of `exd_data_units`) -/
def f14 : List (Nat × Nat) := [
  (0x1636164656e63655f7a6f6e655f686967685f626f6e64617279, 0x1636164656e63655f7a6f6e655f686967685f626f756e64617279),
  (0x1636f6e6e6563745f69715f6170705f6d616e61676d656e74, 0x1636f6e6e6563745f69715f6170705f6d616e6167656d656e74),
  (0x1646567726565735f666172656e68656974, 0x1646567726565735f66616872656e68656974)]

/-- the packed numbers above are these texts -/
example : f14.map (fun p => (unpack p.1, unpack p.2)) =
    [("cadence_zone_high_bondary".toUTF8.toList.map UInt8.toNat, "cadence_zone_high_boundary".toUTF8.toList.map UInt8.toNat),
     ("connect_iq_app_managment".toUTF8.toList.map UInt8.toNat, "connect_iq_app_management".toUTF8.toList.map UInt8.toNat),
     ("degrees_farenheit".toUTF8.toList.map UInt8.toNat, "degrees_fahrenheit".toUTF8.toList.map UInt8.toNat)] := by
  decide +kernel

/-- the full statement: the factory's tables are the spreadsheet's rows -/
def C17_factory_eq_xlsx_full : Prop := Prof.mesgs = Xlsx.mesgs

/-- the full statement for the types: the compiled constants are the spreadsheet's (deprecated duplicates aside) -/
def C17_types_eq_xlsx_full : Prop := Prof.types = Xlsx.types.map TypeRow.dedupe

def btSize (t : Nat) : Nat := Prof.btSizes.getD t 0

/-- what the spreadsheet prescribes for package fieldnum: one constant per field of every message, named message ++ field -/
def expectedFieldnum (ms : List Mesg) : List (Nat × Nat) :=
  (ms.flatMap fun m => m.fields.map fun f => (joinIdent m.name f.name, f.num)) ++ [(0x1496e76616c6964 /- "Invalid" -/, 255)]

/-- … and for package mesgnum: the constants of the type `mesg_num` -/
def expectedMesgnum (ts : List TypeRow) : List (Nat × Nat) :=
  match ts.find? (·.name == 0x16d6573675f6e756d /- "mesg_num" -/) with
  | some t => (t.consts.map fun c => (c.name, c.value)) ++ [(0x1496e76616c6964 /- "Invalid" -/, 65535)]
  | none => []

def expectedBaseNames (ts : List TypeRow) : List (Nat × Nat) :=
  match ts.find? (·.name == 0x16669745f626173655f74797065 /- "fit_base_type" -/) with
  | some t => t.consts.map fun c => (c.name, c.value)
  | none => []

end Fit.C17
