import FitModel.ProfileSpec
import FitModel.Generated.Xlsx
import FitModel.Generated.XlsxTypes
import FitModel.Generated.ProfileTables
import FitModel.Generated.ProfileTypes
import FitModel.Generated.ProfileStrs
import FitModel.Generated.Untyped
import FitModel.Typed
import FitModel.Generated.Mesgdef
/-! Definitions used in the statements of C17 (`FitProps/C17.lean`). The kernel evaluations of the statements live in
the `C17*Lemmas` modules, one per group of tables, so that lake re-checks them in parallel. -/
namespace Fit.C17
open Fit.ProfileSpec Fit.Gen

/-- (spreadsheet spelling, generated spelling): `cadence_zone_high_bondary → …_boundary` (field 8 of message
`zones_target`… see the KF entry), `connect_iq_app_managment → …_management` (constant of
`connectivity_capabilities`), `degrees_farenheit → degrees_fahrenheit` (constant of `exd_data_units`) -/
def f14 : List (Nat × Nat) := [
  (0x1636164656e63655f7a6f6e655f686967685f626f6e64617279, 0x1636164656e63655f7a6f6e655f686967685f626f756e64617279),
  (0x1636f6e6e6563745f69715f6170705f6d616e61676d656e74, 0x1636f6e6e6563745f69715f6170705f6d616e6167656d656e74),
  (0x1646567726565735f666172656e68656974, 0x1646567726565735f66616872656e68656974)]

/-- the packed numbers above are these texts -/
example : f14.map (fun p => (unpack p.1, unpack p.2)) =
    [("cadence_zone_high_bondary".toUTF8.toList.map UInt8.toNat, "cadence_zone_high_boundary".toUTF8.toList.map UInt8.toNat),
     ("connect_iq_app_managment".toUTF8.toList.map UInt8.toNat, "connect_iq_app_management".toUTF8.toList.map UInt8.toNat),
     ("degrees_farenheit".toUTF8.toList.map UInt8.toNat, "degrees_fahrenheit".toUTF8.toList.map UInt8.toNat)] := by
  decide +kernel

/-- the full statement: the factory's tables are the spreadsheet's rows -/
def C17_factory_eq_xlsx_full : Prop := Prof.mesgs = Xlsx.mesgs

/-- the full statement for the types: the compiled constants are the spreadsheet's (deprecated duplicates aside) -/
def C17_types_eq_xlsx_full : Prop := Prof.types = Xlsx.types.map TypeRow.dedupe

def btSize (t : Nat) : Nat := Prof.btSizes.getD t 0

/-- what the spreadsheet prescribes for package fieldnum: one constant per field of every message, named message ++ field -/
def expectedFieldnum (ms : List Mesg) : List (Nat × Nat) :=
  (ms.flatMap fun m => m.fields.map fun f => (joinIdent m.name f.name, f.num)) ++ [(0x1496e76616c6964 /- "Invalid" -/, 255)]

/-- … and for package mesgnum: the constants of the type `mesg_num` -/
def expectedMesgnum (ts : List TypeRow) : List (Nat × Nat) :=
  match ts.find? (·.name == 0x16d6573675f6e756d /- "mesg_num" -/) with
  | some t => (t.consts.map fun c => (c.name, c.value)) ++ [(0x1496e76616c6964 /- "Invalid" -/, 65535)]
  | none => []

def expectedBaseNames (ts : List TypeRow) : List (Nat × Nat) :=
  match ts.find? (·.name == 0x16669745f626173655f74797065 /- "fit_base_type" -/) with
  | some t => t.consts.map fun c => (c.name, c.value)
  | none => []

/-! ### the typed messages (profile/mesgdef) against the spreadsheet -/

/-- the field numbers of a message that a component (of a field or of a sub-field) expands into -/
def componentTargets (m : Mesg) : List Nat :=
  m.fields.flatMap fun f => f.comps.map (·.num) ++ f.subs.flatMap fun s => s.comps.map (·.num)

def isTimeType (p : Nat) : Bool :=
  p == 0x1646174655f74696d65 /- "date_time" -/ || p == 0x16c6f63616c5f646174655f74696d65 /- "local_date_time" -/

def isBoolType (p : Nat) : Bool := p == 0x1626f6f6c /- "bool" -/

/-- One slot of a typed struct (as probed from the compiled code) is what the spreadsheet row of that field prescribes:
same base type; eligible for the expanded bitmap iff some component of the message expands into it; a `time.Time` iff the
type is date_time / local_date_time; a `typedef.Bool` iff the type is bool; a string iff the base type is string; a slice
iff the Array cell is `[N]`; an array of n iff it is `[n]`; a scalar otherwise. -/
def slotMatches (m : Mesg) (fl : FixedLens) (s : Fit.Typed.Slot) : Bool :=
  match m.fields.find? (·.num == s.num) with
  | none => false
  | some f =>
    s.baseType == f.baseType && (s.canExpand == (componentTargets m).contains s.num) &&
    match s.kind with
    | .time => isTimeType f.ptype && !f.array
    | .bool => isBoolType f.ptype && !f.array
    | .str => f.baseType == 7 && !f.array
    | .scalar => !f.array && f.baseType != 7 && !isBoolType f.ptype && !isTimeType f.ptype
    | .slice => f.array && fixedLenOf fl m.num f.num == 0
    | .fixed n => f.array && fixedLenOf fl m.num f.num == n && n != 0

/-- a typed struct against its message: same name (up to case / underscores), one slot per field and vice versa, each
slot as prescribed, and ToMesg emits the fields in the order of the sheet rows -/
def tableMatchesXlsx (ms : List Mesg) (fl : FixedLens) (order : List (Nat × List Nat)) (T : Fit.Typed.MesgTable) : Bool :=
  match ms.find? (·.num == T.num) with
  | none => false
  | some m =>
    normIdent T.name == normIdent m.name && T.slots.all (slotMatches m fl) &&
    (match order.find? (·.1 == T.num) with
     | some o => T.slots.map (·.num) == o.2
     | none => false)

end Fit.C17
