import FitProps.Go2LeanEncoderMesgDef
/-!
# C02 — tie of the definition-record bytes to the source by translation

The well-formedness theorems of C02 are about `Fit.Wire.encodeFit`, whose definition records are `Fit.Wire.defBytes`.
`proto/proto_marshal.go` `MessageDefinition.MarshalAppend` (the whole function) and the statements of
`encoder/encoder.go` `newMessageDefinition` that set the fixed part of a definition are translated to Lean from the CURRENT
source on every run (`FitModel/Generated/Go_protomarshal.lean`, `Go_encodermesgdef.lean`); these theorems state that the
translated code produces exactly `defBytes`, and the length a definition record has ("every data message is preceded by a
live definition …": the reader of C02 consumes 6 + 3·fields (+ 1 + 3·developer fields) bytes for it).

PROPERTY THEOREMS (audited by ./check): C02_go2lean_def_wire, C02_go2lean_enc_def_wire, C02_go2lean_def_length
-/
namespace Fit.C02
open Fit.Go2Lean

theorem C02_go2lean_def_wire (arch : Nat) (m : Fit.Wire.WMsg) (b : List Nat) :
    Go.protomarshal.MessageDefinition.MarshalAppend (pmDefOf arch m) b = some (b ++ Fit.Wire.defBytes arch m) :=
  pm_def_wire arch m b

theorem C02_go2lean_enc_def_wire (h0 r0 a0 n0 arch : Nat) (m : Fit.Wire.WMsg) (b : List Nat) :
    Go.protomarshal.MessageDefinition.MarshalAppend (pmEncDefOf h0 r0 a0 n0 arch m) b = some (b ++ Fit.Wire.defBytes arch m) :=
  pm_enc_def_wire h0 r0 a0 n0 arch m b

theorem C02_go2lean_def_length (m : Go.protomarshal.MessageDefinition) (b out : List Nat)
    (h : Go.protomarshal.MessageDefinition.MarshalAppend m b = some out) :
    out.length = b.length + 6 + 3 * m.FieldDefinitions.length +
      (if m.Header &&& 32 = 32 then 1 + 3 * m.DeveloperFieldDefinitions.length else 0) := pm_def_length m b out h

end Fit.C02
