import FitProps.LinkLemmasMsg
/-!
LINK (C) ↔ (D), part 5: one definition record; one record; the record loop.
-/
set_option linter.unusedSimpArgs false
set_option linter.unusedVariables false

namespace Fit.Link
open Fit.DecApi Fit.Gen Fit.Gen.DecApi Fit.Crc Fit.Value

theorem parseFieldDefs_eq : ∀ (fb : List Nat),
    parseFieldDefs fb = if (DecProg.triplets fb).any (fun t => !DecProg.validBaseType t.2.2) then none
      else some ((DecProg.triplets fb).map fieldDefOf)
  | a :: sz :: bt :: rest => by
    unfold parseFieldDefs DecProg.triplets
    have ih := parseFieldDefs_eq rest
    simp only [List.any_cons, List.map_cons, validBaseType, validBaseType_eq]
    by_cases hv : btValid bt = true
    · simp only [hv, Bool.not_true, Bool.false_eq_true, if_false, Bool.false_or]
      rw [ih]
      simp only [validBaseType_eq]
      by_cases hany : ((DecProg.triplets rest).any fun t => !btValid t.2.2) = true
      · simp only [hany, if_true]
      · simp only [hany, if_false, Bool.false_eq_true]; rfl
    · have hv' : btValid bt = false := by simpa using hv
      simp only [hv', Bool.not_false, if_true, Bool.true_or]
  | [] => by simp [parseFieldDefs, DecProg.triplets]
  | [_] => by simp [parseFieldDefs, DecProg.triplets]
  | [_, _] => by simp [parseFieldDefs, DecProg.triplets]

theorem parseDevDefs_eq : ∀ (db : List Nat), parseDevDefs db = (DecProg.triplets db).map devDefOf
  | a :: sz :: i :: rest => by
    unfold parseDevDefs DecProg.triplets
    rw [parseDevDefs_eq rest]; rfl
  | [] => by simp [parseDevDefs, DecProg.triplets]
  | [_] => by simp [parseDevDefs, DecProg.triplets]
  | [_, _] => by simp [parseDevDefs, DecProg.triplets]

theorem tripF_fieldDefOf (l : List DecProg.Triplet) : (l.map fieldDefOf).map tripF = l := by
  induction l with
  | nil => rfl
  | cons a t ih => simp only [List.map_cons, ih]; rfl

theorem tripD_devDefOf (l : List DecProg.Triplet) : (l.map devDefOf).map tripD = l := by
  induction l with
  | nil => rfl
  | cons a t ih => simp only [List.map_cons, ih]; rfl

theorem len5' {l : List Nat} (h : l.length = 5) : ∃ a b c d e, l = [a, b, c, d, e] := by
  match l, h with
  | [a, b, c, d, e], _ => exact ⟨a, b, c, d, e, rfl⟩

theorem fail_evs {st st' : DecProg.St} (e : DecProg.Err) (h : st'.evs = st.evs) : DecProg.fail st' e = DecProg.fail st e := by
  simp only [DecProg.fail, h]

open Fit.ReadBuffer in
/-- one `readN` of (C) against one `rdN` of (D) on the exact-n reader -/
theorem rdN_link {β : Type} (obs : DecProg.Out → β) (hobs : EofBlind obs) (chk : Bool) (n : Nat) (s : St) (st : DecProg.St)
    (kD : Bytes → DecProg.St → DecProg.P) (R : β) (hcd : CD chk s st) (hn : n ≤ reservedbuf)
    (h : match readN n s with
      | .ok (b, s') => ∀ st', Same st st' → CD chk s' st' → s' = adv s n → b = s.rest.take n → n ≤ s.rest.length →
          obs (runExact (kD b st') s'.rest) = R
      | .err e => errC (errD e) = e → R = obs (DecProg.fail st (errD e))
      | .panic => True
      | .hang => True) :
    obs (runExact (DecProg.rdN chk n st kD) s.rest) = R := by
  unfold DecProg.rdN
  rw [readN_adv n s hn] at h
  by_cases hl : n ≤ s.rest.length
  · rw [runExact_read_ok _ _ _ hl]
    simp only [hl, if_true] at h
    exact h _ ⟨rfl, rfl, rfl, rfl⟩ (hcd.adv n hl) trivial trivial trivial
  · rw [runExact_read_short _ _ _ (by omega)]
    simp only [hl, if_false] at h
    rw [h rfl]; simp only [runExact]; exact hobs _ _ _ _ rfl

/-- (D)'s state after a definition record -/
def defSt (stl : DecProg.St) (header arch mesgNum : Nat) (ft dt : List DecProg.Triplet) : DecProg.St :=
  { stl with defs := (header &&& Fit.Gen.Integ.localMesgNumMask, ⟨arch, mesgNum, ft, dt⟩) :: stl.defs,
             evs := DecProg.Ev.def_ header arch mesgNum ft dt :: stl.evs }

open Fit.ReadBuffer in
/-- **one definition record**: (C), (D) on the exact-n reader, and the reconstruction -/
theorem definition_link {β : Type} (obs : DecProg.Out → β) (hobs : EofBlind obs) (o : Opts) (chk : Bool) (header : Nat)
    (s : St) (st : DecProg.St) (k : DecProg.St → DecProg.P) (R : β) (done : List (Out × List Event)) (pend : List Event)
    (hcd : CD chk s st) (hT : Tables s st) (hF : Follows o s st done pend)
    (h : match decodeDefinition header s with
      | .ok (s', ev) => ∀ st', CD chk s' st' → Tables s' st' → Follows o s' st' done (pend ++ ev.toList) →
          obs (runExact (k st') s'.rest) = R
      | .err e => errC (errD e) = e → R = obs (DecProg.fail st (errD e))
      | .panic => True
      | .hang => True) :
    obs (runExact (DecProg.definition chk header st k) s.rest) = R := by
  obtain ⟨t, hfold, hsh⟩ := hF
  -- the last step, common to definitions with and without developer fields
  have finish : ∀ (sl : St) (stl : DecProg.St) (reserved arch mesgNum : Nat) (ft dt : List DecProg.Triplet),
      Quiet' s sl → Same st stl → CD chk sl stl →
      (∀ st', CD chk { sl with look := { sl.look with defs := (header &&& localMesgNumMask,
            ⟨header, reserved, arch, mesgNum, ft.map fieldDefOf, dt.map devDefOf⟩) :: sl.look.defs } } st' →
          Tables { sl with look := { sl.look with defs := (header &&& localMesgNumMask,
            ⟨header, reserved, arch, mesgNum, ft.map fieldDefOf, dt.map devDefOf⟩) :: sl.look.defs } } st' →
          Follows o { sl with look := { sl.look with defs := (header &&& localMesgNumMask,
            ⟨header, reserved, arch, mesgNum, ft.map fieldDefOf, dt.map devDefOf⟩) :: sl.look.defs } } st' done
            (pend ++ (if sl.o.dl = true then some (Event.mesgDef ⟨header, reserved, arch, mesgNum, ft.map fieldDefOf, dt.map devDefOf⟩) else none).toList) →
          obs (runExact (k st') sl.rest) = R) →
      obs (runExact (k (defSt stl header arch mesgNum ft dt)) sl.rest) = R := by
    intro sl stl reserved arch mesgNum ft dt hq hs hcdl hk
    unfold defSt
    apply hk
    · exact ⟨hcdl.chk, hcdl.cur, hcdl.crc, hcdl.small, hcdl.bytes⟩
    · constructor
      · simp only [List.map_cons, defD, tripF_fieldDefOf, tripD_devDefOf]
        rw [hs.defs, hT.defs, hq.look]; rfl
      · simp only; rw [hs.descs, hT.descs, hq.look]
    · refine ⟨{ t with look := { t.look with defs := (header &&& localMesgNumMask, mesgDefOf header arch mesgNum ft dt) :: t.look.defs } }, ?_, ?_⟩
      · simp only
        rw [fold_cons, hs.evs, hfold]
        simp only [iStep, List.map_append, hsh.o, hq.o]
        congr 1
        split <;> simp [normEvent, mesgDefOf]
      · have hsl := hq.shadow hsh
        exact ⟨hsl.o, ⟨hsl.look.descs, hsl.look.devIdx, by simp only [List.map_cons, hsl.look.defs]; rfl⟩, hsl.ts, hsl.lastOff,
          hsl.acc, hsl.msgs, hsl.fileId⟩
  unfold DecProg.definition
  unfold decodeDefinition at h
  simp only [Bind.bind, Res.bind] at h
  apply rdN_link obs hobs chk 5 s st _ R hcd (by decide)
  cases hr1 : readN 5 s with
  | err e => rw [hr1] at h; exact h
  | panic => trivial
  | hang => trivial
  | ok p1 =>
    obtain ⟨b, s1⟩ := p1
    rw [hr1] at h
    simp only at h ⊢
    intro st1 hs1 hcd1 hs1e hbe hl5
    have hnl : ¬ (header &&& localMesgNumMask ≥ 16) := by have := localNum_lt header; omega
    simp only [hnl, if_false] at h
    obtain ⟨b0, b1, b2, b3, b4, hb⟩ := len5' (show b.length = 5 by rw [hbe]; simp; omega)
    have hb4 : b4 < 256 := by
      have : b4 ∈ s.rest.take 5 := by rw [← hbe, hb]; simp
      exact hcd.bytes b4 (List.mem_of_mem_take this)
    subst hb
    have e0 : idx [b0, b1, b2, b3, b4] 0 = DecApi.Res.ok b0 := rfl
    have e1 : idx [b0, b1, b2, b3, b4] 1 = DecApi.Res.ok b1 := rfl
    have e4 : idx [b0, b1, b2, b3, b4] 4 = DecApi.Res.ok b4 := rfl
    have es : slice [b0, b1, b2, b3, b4] 2 4 = DecApi.Res.ok [b2, b3] := by simp [slice]
    simp only [e0, e1, e4, es] at h
    simp only [List.drop_succ_cons, List.drop_zero, List.headD_cons]
    have hmn : (if b1 = Fit.Gen.Integ.littleEndian then DecProg.le16 [b2, b3, b4] else DecProg.be16 [b2, b3, b4]) =
        (if b1 = littleEndian then DecApi.le16 [b2, b3] else DecApi.be16 [b2, b3]) := rfl
    rw [hmn]
    generalize hmesg : (if b1 = littleEndian then DecApi.le16 [b2, b3] else DecApi.be16 [b2, b3]) = mesgNum at h ⊢
    have hq1 : Quiet' s s1 := by rw [hs1e]; exact Quiet'.adv s 5
    apply rdN_link obs hobs chk (b4 * 3) s1 st1 _ R hcd1 (by simp [reservedbuf]; omega)
    cases hr2 : readN (b4 * 3) s1 with
    | err e => rw [hr2] at h; simp only at h ⊢; intro he; rw [h he]; exact congrArg obs (fail_evs _ hs1.evs).symm
    | panic => trivial
    | hang => trivial
    | ok p2 =>
      obtain ⟨fb, s2⟩ := p2
      rw [hr2] at h
      simp only at h ⊢
      intro st2 hs2 hcd2 hs2e _ _
      have hq2 : Quiet' s s2 := by rw [hs2e]; exact hq1.trans (Quiet'.adv s1 _)
      have hs02 : Same st st2 := hs1.trans hs2
      rw [parseFieldDefs_eq] at h
      by_cases hany : ((DecProg.triplets fb).any fun t => !DecProg.validBaseType t.2.2) = true
      · simp only [hany, if_true] at h ⊢
        rw [h rfl]; simp only [runExact, errD]
        exact congrArg obs (fail_evs _ hs02.evs)
      · simp only [hany, if_false, Bool.false_eq_true] at h ⊢
        have hdm : (header &&& Fit.Gen.Integ.devDataMask = Fit.Gen.Integ.devDataMask) ↔ (header &&& devDataMask = devDataMask) := Iff.rfl
        by_cases hdev : header &&& devDataMask = devDataMask
        · have hdev' : header &&& Fit.Gen.Integ.devDataMask = Fit.Gen.Integ.devDataMask := hdev
          rw [if_pos hdev']
          rw [if_pos hdev] at h
          apply rdN_link obs hobs chk 1 s2 st2 _ R hcd2 (by decide)
          cases hr3 : readN 1 s2 with
          | err e => rw [hr3] at h; simp only at h ⊢; intro he; rw [h he]; exact congrArg obs (fail_evs _ hs02.evs).symm
          | panic => trivial
          | hang => trivial
          | ok p3 =>
            obtain ⟨nb, s3⟩ := p3
            rw [hr3] at h
            simp only at h ⊢
            intro st3 hs3 hcd3 hs3e hnbe hl1
            obtain ⟨x, hx⟩ : ∃ x, nb = [x] := by
              have : nb.length = 1 := by rw [hnbe]; simp; omega
              match nb, this with
              | [x], _ => exact ⟨x, rfl⟩
            have hx256 : x < 256 := by
              have : x ∈ s2.rest.take 1 := by rw [← hnbe, hx]; simp
              exact hcd2.bytes x (List.mem_of_mem_take this)
            subst hx
            have ex : idx [x] 0 = DecApi.Res.ok x := rfl
            simp only [ex, List.headD_cons] at h ⊢
            have hq3 : Quiet' s s3 := by rw [hs3e]; exact hq2.trans (Quiet'.adv s2 _)
            apply rdN_link obs hobs chk (x * 3) s3 st3 _ R hcd3 (by simp [reservedbuf]; omega)
            cases hr4 : readN (x * 3) s3 with
            | err e => rw [hr4] at h; simp only at h ⊢; intro he; rw [h he]; exact congrArg obs (fail_evs _ (hs02.trans hs3).evs).symm
            | panic => trivial
            | hang => trivial
            | ok p4 =>
              obtain ⟨db, s4⟩ := p4
              rw [hr4] at h
              simp only [Pure.pure, parseDevDefs_eq] at h ⊢
              intro st4 hs4 hcd4 hs4e _ _
              have hq4 : Quiet' s s4 := by rw [hs4e]; exact hq3.trans (Quiet'.adv s3 _)
              exact finish s4 st4 b0 b1 mesgNum (DecProg.triplets fb) (DecProg.triplets db) hq4 ((hs02.trans hs3).trans hs4) hcd4 h
        · have hdev' : ¬ (header &&& Fit.Gen.Integ.devDataMask = Fit.Gen.Integ.devDataMask) := hdev
          rw [if_neg hdev']
          rw [if_neg hdev] at h
          simp only [Pure.pure] at h
          exact finish s2 st2 b0 b1 mesgNum (DecProg.triplets fb) [] hq2 hs02 hcd2 h

theorem Tables.of_quiet {s s' : St} {st st' : DecProg.St} (h : Tables s st) (hq : Quiet' s s') (hs : Same st st') : Tables s' st' :=
  ⟨by rw [hs.defs, h.defs, hq.look], by rw [hs.descs, h.descs, hq.look]⟩

open Fit.ReadBuffer in
/-- **one record** -/
theorem message_link {β : Type} (obs : DecProg.Out → β) (hobs : EofBlind obs) (o : Opts) (chk : Bool)
    (s : St) (st : DecProg.St) (k : DecProg.St → DecProg.P) (R : β) (done : List (Out × List Event)) (pend : List Event)
    (hcd : CD chk s st) (hT : Tables s st) (hF : Follows o s st done pend) (hi : Inv s)
    (hbt : facBtOK s.o.fac = true) (hfd : facFdOK s.o.fac = true)
    (h : match decodeMessage s with
      | .ok (s', ev) => ∀ st', CD chk s' st' → Tables s' st' → Follows o s' st' done (pend ++ ev.toList) →
          obs (runExact (k st') s'.rest) = R
      | .err e => errC (errD e) = e → R = obs (DecProg.fail st (errD e))
      | .panic => True
      | .hang => True) :
    obs (runExact (DecProg.message chk st k) s.rest) = R := by
  unfold DecProg.message
  unfold decodeMessage at h
  simp only [Bind.bind, Res.bind] at h
  apply rdN_link obs hobs chk 1 s st _ R hcd (by decide)
  cases hr1 : readN 1 s with
  | err e => rw [hr1] at h; exact h
  | panic => trivial
  | hang => trivial
  | ok p1 =>
    obtain ⟨b, s1⟩ := p1
    rw [hr1] at h
    simp only at h ⊢
    intro st1 hs1 hcd1 hs1e hbe hl1
    obtain ⟨x, hx⟩ : ∃ x, b = [x] := by
      have : b.length = 1 := by rw [hbe]; simp; omega
      match b, this with
      | [x], _ => exact ⟨x, rfl⟩
    subst hx
    have ex : idx [x] 0 = DecApi.Res.ok x := rfl
    simp only [ex] at h
    generalize hy : ([x] : List Nat).headD 0 = y
    have hyx : y = x := by rw [← hy]; rfl
    subst hyx
    have hq1 : Quiet' s s1 := by rw [hs1e]; exact Quiet'.adv s 1
    have hi1 : Inv s1 := by
      have := readN_sat 1 s (by decide) hi
      rw [hr1] at this
      exact this.2.2.1
    have hT1 := hT.of_quiet hq1 hs1
    have hF1 := hF.of_quiet hq1 hs1.evs
    have hmask : (y &&& (Fit.Gen.Integ.mesgCompressedHeaderMask ||| Fit.Gen.Integ.mesgDefinitionMask) = Fit.Gen.Integ.mesgDefinitionMask) ↔
        (y &&& (mesgCompressedHeaderMask ||| mesgDefinitionMask) = mesgDefinitionMask) := Iff.rfl
    by_cases hm : y &&& (mesgCompressedHeaderMask ||| mesgDefinitionMask) = mesgDefinitionMask
    · rw [if_pos (hmask.mpr hm)]
      rw [if_pos hm] at h
      apply definition_link obs hobs o chk y s1 st1 k R done pend hcd1 hT1 hF1
      cases hd : decodeDefinition y s1 with
      | err e => rw [hd] at h; simp only at h ⊢; intro he; rw [h he]; exact congrArg obs (fail_evs _ hs1.evs).symm
      | panic => trivial
      | hang => trivial
      | ok p => obtain ⟨s2, ev⟩ := p; rw [hd] at h; exact h
    · rw [if_neg (fun hh => hm (hmask.mp hh))]
      rw [if_neg hm] at h
      apply data_link obs hobs o chk y s1 st1 k R done pend hcd1 hT1 hF1 hi1 (by rw [hq1.o]; exact hbt) (by rw [hq1.o]; exact hfd)
      cases hd : decodeData y s1 with
      | err e => rw [hd] at h; simp only at h ⊢; intro he; rw [h he]; exact congrArg obs (fail_evs _ hs1.evs).symm
      | panic => trivial
      | hang => trivial
      | ok p => obtain ⟨s2, ev⟩ := p; rw [hd] at h; exact h

theorem reads_sum {s s' : St} (h : Reads s s') (hs : s.q.cur + s.rest.length < 4294967296) :
    s'.q.cur + s'.rest.length = s.q.cur + s.rest.length := by
  obtain ⟨c, r1, r2, _⟩ := h
  rw [r1, List.length_append] at hs ⊢
  rw [r2, Nat.mod_eq_of_lt (by omega)]; omega

open Fit.ReadBuffer in
/-- **the record loop** (`decodeMessages`): (D) runs with fuel `fuelD` (enough: every record advances the byte counter), (C)
with `fuelC` (enough: every record consumes at least a byte) -/
theorem messages_link {β : Type} (obs : DecProg.Out → β) (hobs : EofBlind obs) (o : Opts) (chk : Bool) (ds : Nat)
    (k : DecProg.St → DecProg.P) (R : β) (done : List (Out × List Event)) :
    ∀ (fuelC fuelD : Nat) (s : St) (st : DecProg.St) (pend : List Event),
    CD chk s st → Tables s st → Follows o s st done pend → Inv s → facBtOK s.o.fac = true → facFdOK s.o.fac = true →
    s.q.hdr.dataSize = ds → ds ≤ st.cur + fuelD → s.rest.length < fuelC →
    (match decodeMessages fuelC s with
      | (sf, evs, .ok ()) => ∀ st', CD chk sf st' → Tables sf st' → Follows o sf st' done (pend ++ evs) →
          obs (runExact (k st') sf.rest) = R
      | (sf, evs, .err e) => ∀ st', Follows o sf st' done (pend ++ evs) → errC (errD e) = e → R = obs (DecProg.fail st' (errD e))
      | (_, _, .panic) => True
      | (_, _, .hang) => True) →
    obs (runExact (DecProg.messages chk ds fuelD st k) s.rest) = R := by
  intro fuelC
  induction fuelC with
  | zero => intro fuelD s st pend _ _ _ _ _ _ _ _ hf; omega
  | succ fuelC ih =>
    intro fuelD s st pend hcd hT hF hi hbt hfd hds hfD hfC h
    unfold decodeMessages at h
    by_cases hlt : s.q.cur < s.q.hdr.dataSize
    · simp only [hlt, if_true] at h
      obtain ⟨fuelD', rfl⟩ : ∃ f, fuelD = f + 1 := ⟨fuelD - 1, by have := hcd.cur; omega⟩
      unfold DecProg.messages
      have hltD : st.cur < ds := by rw [hcd.cur, ← hds]; exact hlt
      simp only [hltD, if_true]
      apply message_link obs hobs o chk s st _ R done pend hcd hT hF hi hbt hfd
      have hsat := decodeMessage_sat s hi
      cases hm : decodeMessage s with
      | err e =>
        rw [hm] at h
        simp only [loopFail] at h ⊢
        exact h st (by simpa using hF)
      | panic => trivial
      | hang => trivial
      | ok p =>
        obtain ⟨s', ev⟩ := p
        rw [hm] at h hsat
        obtain ⟨⟨hi', hr'⟩, hlen'⟩ := hsat
        simp only at hi' hr' hlen' h ⊢
        intro st' hcd' hT' hF'
        have hsum := reads_sum hr' hcd.small
        apply ih fuelD' s' st' (pend ++ ev.toList) hcd' hT' hF' hi' (by rw [hr'.o]; exact hbt) (by rw [hr'.o]; exact hfd)
          (by rw [hr'.hdr]; exact hds) (by have := hcd'.cur; have := hcd.cur; omega) (by omega)
        rcases hdm : decodeMessages fuelC s' with ⟨sf, evs, r⟩
        rw [hdm] at h
        simp only at h ⊢
        cases r with
        | ok u => cases u; simp only at h ⊢; intro st2 h1 h2 h3; exact h st2 h1 h2 (by simpa [List.append_assoc] using h3)
        | err e => simp only at h ⊢; intro st2 h3; exact h st2 (by simpa [List.append_assoc] using h3)
        | panic => trivial
        | hang => trivial
    · simp only [hlt, if_false] at h
      have hnD : ¬ st.cur < ds := by rw [hcd.cur, ← hds]; exact hlt
      have := h st hcd hT (by simpa using hF)
      cases fuelD with
      | zero => simpa [DecProg.messages] using this
      | succ f => simpa [DecProg.messages, hnD] using this

end Fit.Link
