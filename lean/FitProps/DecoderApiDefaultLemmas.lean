import FitModel.DecoderApiDefault
import FitProps.DecoderApiIndepLemmas
/-!
The default configuration (`FitModel/DecoderApiDefault.lean`) inherits what is proved about the decoder-API model (C): its
results are a function, call by call, of (C)'s results — so no call panics or hangs (C03) and history independence (C07)
carries over: the expansion of what the decoder object returns equals the expansion of what new decoders return.
-/
namespace Fit.DecApi.Default
open Fit.DecApi

theorem facOK_std : FacOK stdFactory := by
  refine ⟨fun _ _ => 0, fun _ _ => (by decide : (0 : Nat) < 256), ?_⟩
  intro e he c hc
  simp only [stdFactory, List.mem_map] at he
  obtain ⟨x, _, rfl⟩ := he
  simp at hc

/-- the specification demands something of every call but `CheckIntegrity` -/
theorem spec_none (p : Spec) (op : Op) (h : (specStep p op).2 = none) : op = .checkIntegrity := by
  cases op with
  | checkIntegrity => rfl
  | reset o b =>
    have : specStep p (.reset o b) = (Spec.fresh o b, some (.done, [])) := by unfold specStep; cases p.ph <;> rfl
    rw [this] at h; cases h
  | decode => unfold specStep at h; cases hp : p.ph <;> simp [hp, specDecode] at h
  | decodeCtx c => unfold specStep at h; cases c <;> cases hp : p.ph <;> simp [hp, specDecode] at h
  | decodeCtxAt k => unfold specStep at h; cases hp : p.ph <;> simp [hp, specDecodeAt] at h
  | peekHeader => unfold specStep at h; cases hp : p.ph <;> simp [hp] at h
  | peekFileId => unfold specStep at h; cases hp : p.ph <;> simp [hp, specPeekFileId] at h
  | discard => unfold specStep at h; cases hp : p.ph <;> simp [hp, specDiscard] at h
  | next => unfold specStep at h; cases hp : p.ph <;> simp [hp] at h <;> (split at h <;> simp at h)

/-- **expansion is applied call by call to (C)'s results**: where the specification and the decoder object agree, their
expansions agree -/
theorem walk_agree (o : Opts) : ∀ (ops : List Op) (a : Api) (p : Spec) (x : XSt),
    (∀ y ∈ (Fit.DecApi.run a ops).zip (specRun p ops), ∀ r, y.2 = some r → y.1 = r) →
    ∀ y ∈ (walk o x (ops.zip ((Fit.DecApi.run a ops).map some))).zip (walk o x (ops.zip (specRun p ops))),
      ∀ r, y.2 = some r → y.1 = some r
  | [], _, _, _, _ => by intro y hy; simp [Fit.DecApi.run, specRun, walk] at hy
  | op :: ops, a, p, x, hag => by
    unfold Fit.DecApi.run specRun at hag ⊢
    simp only [List.zip_cons_cons, List.mem_cons, List.map_cons, walk] at hag ⊢
    have hhead := hag _ (Or.inl rfl)
    have htail : ∀ y ∈ (Fit.DecApi.run (step a op).1 ops).zip (specRun (specStep p op).1 ops), ∀ r, y.2 = some r → y.1 = r :=
      fun y hy => hag y (Or.inr hy)
    -- the expansion states after the call coincide
    have hst : (walkOne o x op (some ((step a op).2.1, (step a op).2.2))).1 = (walkOne o x op (specStep p op).2).1 := by
      cases hs : (specStep p op).2 with
      | some r =>
        have := hhead r hs
        simp only at this
        rw [← this]
      | none =>
        have hop := spec_none p op hs
        subst hop
        simp [walkOne, endsSeq]
    intro y hy r hr
    rcases hy with rfl | hy
    · simp only at hr ⊢
      cases hs : (specStep p op).2 with
      | some r0 =>
        have := hhead r0 hs
        simp only at this
        rw [hs] at hr
        rw [← this] at hr
        exact hr
      | none => rw [hs] at hr; simp [walkOne] at hr
    · have ih := walk_agree o ops (step a op).1 (specStep p op).1 (walkOne o x op (specStep p op).2).1 htail
      rw [hst] at hy
      exact ih y hy r hr

/-- every result of the default decoder is (C)'s result of that call with the FIT's messages expanded -/
theorem walk_out (o : Opts) : ∀ (l : List (Op × (Out × List Event))) (x : XSt),
    ∀ y ∈ walk o x (l.map fun t => (t.1, some t.2)), ∃ t ∈ l, ∃ msgs evs, y = some (xoutOf o msgs t.2.1, evs)
  | [], _ => by intro y hy; simp [walk] at hy
  | t :: l, x => by
    intro y hy
    simp only [List.map_cons, walk, List.mem_cons] at hy
    rcases hy with rfl | hy
    · exact ⟨t, by simp, _, _, rfl⟩
    · obtain ⟨t', ht', h⟩ := walk_out o l _ y hy
      exact ⟨t', by simp [ht'], h⟩

end Fit.DecApi.Default
