import FitProps.RawLemmas
import FitProps.LinkLemmasInteg
import FitProps.LinkLemmasDefs
/-!
LINK independent framing spec (`FitModel/FitFormat.lean`) → raw decoder model (`FitModel/Raw.lean`, C16): whenever the
spec segments a stream, the raw decoder accepts it and hands its callback exactly those segments (kind, offset, length).
(C16 proves the converse-flavoured local statement `C16_lengths`; this is the global one the first builder left open.)
-/
set_option linter.unusedSimpArgs false
set_option linter.unusedVariables false

namespace Fit.Link
open Fit.ReadBuffer Fit.Raw Fit.Gen.Reader

theorem layout_append (off : Nat) (a b : List Seg) : layout off (a ++ b) = layout off a ++ layout (off + (flat a).length) b := by
  induction a generalizing off with
  | nil => simp [layout, flat]
  | cons s ss ih =>
    simp only [List.cons_append, layout, ih, flat, List.flatMap_cons, List.length_append]
    simp only [flat] at ih
    rw [Nat.add_assoc]

/-- the table of record lengths never exceeds the `BytesArray` -/
def LensOK (lens : Lens) : Prop := ∀ i, lens.get i ≤ rawBytesArrayLen

theorem lensOK_nil : LensOK [] := by intro i; simp [Lens.get]

theorem lensOK_cons {lens : Lens} (h : LensOK lens) (k v : Nat) (hv : v ≤ rawBytesArrayLen) : LensOK ((k, v) :: lens) := by
  intro i
  by_cases hi : (k == i) = true
  · simp [Lens.get, List.find?, hi]; exact hv
  · have hi' : (k == i) = false := by simpa using hi
    have := h i
    simp only [Lens.get] at this ⊢
    simp only [List.find?, hi']; exact this

/-- what a successful `parseDefinition` says about the bytes -/
theorem parseDefinition_some {h off : Nat} {bs : List Nat} {r : FitFormat.Rec} {rest' : List Nat}
    (H : FitFormat.parseDefinition h off bs = some (r, rest')) :
    ∃ res arch g0 g1 nf fb, fb.length = 3 * nf ∧ r.kind = .definition ∧ r.off = off ∧ r.localNum = h &&& 0xF ∧
      FitFormat.sizeSum r.fields = sizeSum fb ∧
      ((FitFormat.hasDevData h = false ∧ bs = [res, arch, g0, g1, nf] ++ fb ++ rest' ∧ r.len = 6 + 3 * nf ∧
          FitFormat.sizeSum r.devFields = 0) ∨
        (FitFormat.hasDevData h = true ∧ ∃ nd db, db.length = 3 * nd ∧ bs = [res, arch, g0, g1, nf] ++ fb ++ [nd] ++ db ++ rest' ∧
          r.len = 6 + 3 * nf + 1 + 3 * nd ∧ FitFormat.sizeSum r.devFields = sizeSum db)) := by
  unfold FitFormat.parseDefinition at H
  match bs, H with
  | res :: arch :: g0 :: g1 :: nf :: rest, H =>
    simp only at H
    by_cases h1 : (!FitFormat.hasN rest (3 * nf)) = true
    · simp [h1] at H
    · simp only [h1, Bool.false_eq_true, if_false] at H
      have hl1 : 3 * nf ≤ rest.length := by
        have : FitFormat.hasN rest (3 * nf) = true := by simpa using h1
        exact (FitFormat.hasN_iff _ _).mp this
      have hfb : (rest.take (3 * nf)).length = 3 * nf := by simp; omega
      by_cases hd : FitFormat.hasDevData h = true
      · simp only [hd, if_true] at H
        match hrd : rest.drop (3 * nf), H with
        | nd :: rest2, H =>
          simp only at H
          by_cases h2 : (!FitFormat.hasN rest2 (3 * nd)) = true
          · simp [h2] at H
          · simp only [h2, Bool.false_eq_true, if_false] at H
            have hl2 : 3 * nd ≤ rest2.length := by
              have : FitFormat.hasN rest2 (3 * nd) = true := by simpa using h2
              exact (FitFormat.hasN_iff _ _).mp this
            injection H with H
            injection H with H1 H2
            subst H1 H2
            refine ⟨res, arch, g0, g1, nf, rest.take (3 * nf), hfb, rfl, rfl, rfl, by simp [sizeSum_triplets], Or.inr ⟨hd, nd, rest2.take (3 * nd), by simp; omega, ?_, rfl, by simp [sizeSum_triplets]⟩⟩
            have e1 : rest = rest.take (3 * nf) ++ rest.drop (3 * nf) := (List.take_append_drop _ _).symm
            have e2 : rest2 = rest2.take (3 * nd) ++ rest2.drop (3 * nd) := (List.take_append_drop _ _).symm
            rw [hrd] at e1
            conv => lhs; rw [e1, e2]
            simp
      · have hd' : FitFormat.hasDevData h = false := by simpa using hd
        simp only [hd', Bool.false_eq_true, if_false] at H
        injection H with H
        injection H with H1 H2
        subst H1 H2
        refine ⟨res, arch, g0, g1, nf, rest.take (3 * nf), hfb, rfl, rfl, rfl, by simp [sizeSum_triplets], Or.inl ⟨hd', ?_, rfl, rfl⟩⟩
        simp [List.take_append_drop]

theorem runExact_read_app {α : Type} (b rest : Bytes) (k : Except RErr Bytes → Prog α) :
    runExact (.read b.length k) (b ++ rest) = runExact (k (.ok b)) rest := by
  rw [runExact_read_ok _ _ _ (by simp)]
  simp

theorem isBytes_app {a b : Bytes} (h : IsBytes (a ++ b)) : IsBytes a ∧ IsBytes b :=
  ⟨fun x hx => h x (by simp [hx]), fun x hx => h x (by simp [hx])⟩

/-- **the records of a sequence**: where the spec parses `body` into records, the raw decoder's record loop consumes exactly
`body`, reporting one segment per record with the record's kind, offset and length -/
theorem records_raw : ∀ (fuelR : Nat) (defs : FitFormat.Defs) (off : Nat) (body : List Nat) (rs : List FitFormat.Rec),
    FitFormat.parseRecords fuelR defs off body = some rs → IsBytes body →
    ∀ (lens : Lens), RelLens lens defs → LensOK lens →
    ∀ (fuelM used ds : Nat) (st : St) (k : St → P) (rest : Bytes), used + body.length = ds → body.length ≤ fuelM →
    ∃ newsegs, runExact (msgs none ds fuelM used lens st k) (body ++ rest) =
        runExact (k { st with segs := newsegs.reverse ++ st.segs }) rest ∧
      layout off newsegs = rs.map (fun r => (r.kind, r.off, r.len)) ∧ flat newsegs = body := by
  intro fuelR
  induction fuelR with
  | zero =>
    intro defs off body rs H hb lens hrl hlo fuelM used ds st k rest hu hf
    cases body with
    | nil =>
      simp only [FitFormat.parseRecords] at H
      cases H
      refine ⟨[], ?_, rfl, rfl⟩
      have hnl : ¬ used < ds := by simp at hu; omega
      cases fuelM <;> simp [msgs, hnl]
    | cons h t => simp [FitFormat.parseRecords] at H
  | succ fuelR ih =>
    intro defs off body rs H hb lens hrl hlo fuelM used ds st k rest hu hf
    cases body with
    | nil =>
      simp only [FitFormat.parseRecords] at H
      cases H
      refine ⟨[], ?_, rfl, rfl⟩
      have hnl : ¬ used < ds := by simp at hu; omega
      cases fuelM <;> simp [msgs, hnl]
    | cons h rest0 =>
      obtain ⟨fuelM', rfl⟩ : ∃ f, fuelM = f + 1 := ⟨fuelM - 1, by simp at hf; omega⟩
      have hlt : used < ds := by simp at hu; omega
      have hh : h < 256 := hb h (by simp)
      have hbits := hdr_bits h hh
      unfold FitFormat.parseRecords at H
      unfold msgs
      simp only [hlt, if_true]
      have hread1 : ∀ (kk : Except RErr Bytes → P), runExact (.read 1 kk) (h :: rest0 ++ rest) = runExact (kk (.ok [h])) (rest0 ++ rest) := by
        intro kk; rw [runExact_read_ok _ _ _ (by simp)]; rfl
      rw [hread1]
      simp only [List.headD_cons]
      by_cases hdef : FitFormat.isDefinition h = true
      · -- a definition record
        simp only [hdef, if_true] at H
        have hmask : h &&& (mesgCompressedHeaderMask ||| mesgDefinitionMask) = mesgDefinitionMask := hbits.1.mpr hdef
        simp only [hmask, if_true]
        cases hpd : FitFormat.parseDefinition h off rest0 with
        | none => simp [hpd] at H
        | some p =>
          obtain ⟨r, rest'⟩ := p
          simp only [hpd] at H
          cases hrec : FitFormat.parseRecords fuelR (defs.set r.localNum (FitFormat.sizeSum r.fields + FitFormat.sizeSum r.devFields)) (off + r.len) rest' with
          | none => simp [hrec] at H
          | some rs' =>
            simp only [hrec] at H
            cases H
            obtain ⟨res, arch, g0, g1, nf, fb, hfbl, hkind, hoff, hloc, hsf, hcase⟩ := parseDefinition_some hpd
            have hlocm : h &&& localMesgNumMask = r.localNum := by rw [hloc]; exact hbits.2.2.2 hdef
            rcases hcase with ⟨hnd, hbs, hlen, hsd⟩ | ⟨hnd, nd, db, hdbl, hbs, hlen, hsd⟩
            · -- without developer fields
              have hdm : ¬ (h &&& devDataMask = devDataMask) := fun hc => by have := hbits.2.2.1.mp hc; rw [hnd] at this; cases this
              subst hbs
              have hb' := isBytes_app (isBytes_app (show IsBytes (([h] ++ [res, arch, g0, g1, nf] ++ fb) ++ rest') from by simpa using hb)).1
              have hnf : nf < 256 := hb nf (by simp)
              have e5 : ∀ (kk : Except RErr Bytes → P) (tl : Bytes), runExact (.read 5 kk) ([res, arch, g0, g1, nf] ++ tl) = runExact (kk (.ok [res, arch, g0, g1, nf])) tl :=
                fun kk tl => runExact_read_app [res, arch, g0, g1, nf] tl kk
              simp only [List.append_assoc] at *
              rw [e5]
              simp only [List.drop_succ_cons, List.drop_zero, List.headD_cons]
              have hfbl' : nf * 3 = fb.length := by omega
              rw [hfbl', runExact_read_app]
              simp only [hdm, if_false, emit]
              have hlens' : RelLens ((h &&& localMesgNumMask, 1 + sizeSum fb) :: lens)
                  (defs.set r.localNum (FitFormat.sizeSum r.fields + FitFormat.sizeSum r.devFields)) := by
                rw [hlocm, hsf, hsd, Nat.add_zero, Nat.add_comm]
                exact relLens_set hrl _ _
              have hlo' : LensOK ((h &&& localMesgNumMask, 1 + sizeSum fb) :: lens) := by
                apply lensOK_cons hlo
                have := lenMesg_fits fb [] (isBytes_app (isBytes_app (show IsBytes ((fb ++ rest') ++ []) from by
                  simp; exact fun x hx => hb x (by simp [hx]))).1).1 (by intro x hx; cases hx) (by omega) (by simp)
                simpa [sizeSum] using this
              obtain ⟨segs', hrun, hlay, hflat⟩ := ih _ (off + r.len) rest' rs' hrec
                (fun x hx => hb x (by simp [hx])) _ hlens' hlo' fuelM' (used + (6 + fb.length)) ds
                { st with segs := ⟨rawFlagMesgDef, [h] ++ [res, arch, g0, g1, nf] ++ fb⟩ :: st.segs } k rest
                (by simp at hu ⊢; omega) (by simp at hf ⊢; omega)
              refine ⟨⟨rawFlagMesgDef, [h] ++ [res, arch, g0, g1, nf] ++ fb⟩ :: segs', ?_, ?_, ?_⟩
              · simp only [List.append_assoc, List.cons_append, List.nil_append] at hrun ⊢
                rw [hrun]
                simp
              · simp only [layout, List.map_cons, kindOfFlag, hkind, hoff]
                have : ([h] ++ [res, arch, g0, g1, nf] ++ fb).length = r.len := by simp; omega
                rw [this, hlay]
                simp [rawFlagMesgDef, rawFlagFileHeader]
              · simp only [flat, List.flatMap_cons] at hflat ⊢
                rw [hflat]; simp
            · -- with developer fields
              have hdm : h &&& devDataMask = devDataMask := hbits.2.2.1.mpr hnd
              subst hbs
              have hnf : nf < 256 := hb nf (by simp)
              have hndb : nd < 256 := hb nd (by simp)
              have e5 : ∀ (kk : Except RErr Bytes → P) (tl : Bytes), runExact (.read 5 kk) ([res, arch, g0, g1, nf] ++ tl) = runExact (kk (.ok [res, arch, g0, g1, nf])) tl :=
                fun kk tl => runExact_read_app [res, arch, g0, g1, nf] tl kk
              have e1 : ∀ (kk : Except RErr Bytes → P) (tl : Bytes), runExact (.read 1 kk) ([nd] ++ tl) = runExact (kk (.ok [nd])) tl :=
                fun kk tl => runExact_read_app [nd] tl kk
              simp only [List.append_assoc] at *
              rw [e5]
              simp only [List.drop_succ_cons, List.drop_zero, List.headD_cons]
              have hfbl' : nf * 3 = fb.length := by omega
              have hdbl' : nd * 3 = db.length := by omega
              rw [hfbl', runExact_read_app]
              simp only [hdm, if_true]
              rw [e1]
              simp only [List.headD_cons]
              rw [hdbl', runExact_read_app]
              simp only [emit]
              have hbfb : IsBytes fb := fun x hx => hb x (by simp [hx])
              have hbdb : IsBytes db := fun x hx => hb x (by simp [hx])
              have hlens' : RelLens ((h &&& localMesgNumMask, 1 + sizeSum fb + sizeSum db) :: lens)
                  (defs.set r.localNum (FitFormat.sizeSum r.fields + FitFormat.sizeSum r.devFields)) := by
                rw [hlocm, hsf, hsd]
                have : 1 + sizeSum fb + sizeSum db = (sizeSum fb + sizeSum db) + 1 := by omega
                rw [this]
                exact relLens_set hrl _ _
              have hlo' : LensOK ((h &&& localMesgNumMask, 1 + sizeSum fb + sizeSum db) :: lens) :=
                lensOK_cons hlo _ _ (lenMesg_fits fb db hbfb hbdb (by omega) (by omega))
              obtain ⟨segs', hrun, hlay, hflat⟩ := ih _ (off + r.len) rest' rs' hrec
                (fun x hx => hb x (by simp [hx])) _ hlens' hlo' fuelM' (used + (6 + fb.length + 1 + db.length)) ds
                { st with segs := ⟨rawFlagMesgDef, [h] ++ [res, arch, g0, g1, nf] ++ fb ++ [nd] ++ db⟩ :: st.segs } k rest
                (by simp at hu ⊢; omega) (by simp at hf ⊢; omega)
              refine ⟨⟨rawFlagMesgDef, [h] ++ [res, arch, g0, g1, nf] ++ fb ++ [nd] ++ db⟩ :: segs', ?_, ?_, ?_⟩
              · simp only [List.append_assoc, List.cons_append, List.nil_append] at hrun ⊢
                rw [hrun]
                simp
              · simp only [layout, List.map_cons, kindOfFlag, hkind, hoff]
                have : ([h] ++ [res, arch, g0, g1, nf] ++ fb ++ [nd] ++ db).length = r.len := by simp; omega
                rw [this, hlay]
                simp [rawFlagMesgDef, rawFlagFileHeader]
              · simp only [flat, List.flatMap_cons] at hflat ⊢
                rw [hflat]; simp
      · -- a data record
        have hdef' : FitFormat.isDefinition h = false := by simpa using hdef
        simp only [hdef', Bool.false_eq_true, if_false] at H
        have hmask : ¬ (h &&& (mesgCompressedHeaderMask ||| mesgDefinitionMask) = mesgDefinitionMask) :=
          fun hc => hdef (hbits.1.mp hc)
        simp only [hmask, if_false]
        cases hdn : defs (FitFormat.localNum h) with
        | none => simp [hdn] at H
        | some n =>
          simp only [hdn] at H
          by_cases hn : (!FitFormat.hasN rest0 n) = true
          · simp [hn] at H
          · simp only [hn, Bool.false_eq_true, if_false] at H
            have hln : n ≤ rest0.length := by
              have : FitFormat.hasN rest0 n = true := by simpa using hn
              exact (FitFormat.hasN_iff _ _).mp this
            cases hrec : FitFormat.parseRecords fuelR defs (off + 1 + n) (rest0.drop n) with
            | none => simp [hrec] at H
            | some rs' =>
              simp only [hrec] at H
              cases H
              have hget : lens.get (localMesgNum h) = n + 1 := by
                rw [hbits.2.1]; have := hrl (FitFormat.localNum h); rw [hdn] at this; exact this
              have hfit : ¬ rawBytesArrayLen < lens.get (localMesgNum h) := by have := hlo (localMesgNum h); omega
              simp only [hget, Nat.succ_ne_zero, if_false, Nat.add_sub_cancel]
              rw [hget] at hfit
              simp only [hfit, if_false]
              have hsplit : rest0 ++ rest = rest0.take n ++ (rest0.drop n ++ rest) := by
                rw [← List.append_assoc, List.take_append_drop]
              have htl : (rest0.take n).length = n := by simp; omega
              rw [hsplit]
              conv => enter [1, x, 1, 1, 1]; rw [← htl]
              rw [runExact_read_app]
              simp only [emit]
              obtain ⟨segs', hrun, hlay, hflat⟩ := ih defs (off + 1 + n) (rest0.drop n) rs' hrec
                (fun x hx => hb x (by simp [List.mem_of_mem_drop hx])) lens hrl hlo fuelM' (used + (n + 1)) ds
                { st with segs := ⟨rawFlagMesgData, [h] ++ rest0.take n⟩ :: st.segs } k rest
                (by simp at hu ⊢; omega) (by simp at hf ⊢; omega)
              refine ⟨⟨rawFlagMesgData, [h] ++ rest0.take n⟩ :: segs', ?_, ?_, ?_⟩
              · simp only [htl]; rw [hrun]; simp
              · simp only [layout, List.map_cons, kindOfFlag]
                have : ([h] ++ rest0.take n).length = 1 + n := by simp; omega
                rw [this, ← Nat.add_assoc, hlay]
                simp [rawFlagMesgData, rawFlagFileHeader, rawFlagMesgDef]
              · simp only [flat, List.flatMap_cons] at hflat ⊢
                rw [hflat]; simp

/-- what a successful `parseHeader` says about the bytes -/
theorem parseHeader_some {bs : List Nat} {h : FitFormat.Header} (H : FitFormat.parseHeader bs = some h) :
    ∃ t, bs = h.size :: t ∧ (h.size = 12 ∨ h.size = 14) ∧ h.size - 1 ≤ t.length ∧
      ((t.take (h.size - 1)).drop 7).take 4 = dataTypeFIT ∧ h.dataSize = le32 ((t.take (h.size - 1)).drop 3) := by
  unfold FitFormat.parseHeader at H
  match bs, H with
  | size :: pv :: p0 :: p1 :: d0 :: d1 :: d2 :: d3 :: t0 :: t1 :: t2 :: t3 :: rest, H =>
    simp only at H
    by_cases htag : [t0, t1, t2, t3] ≠ FitFormat.tag
    · simp [htag] at H
    · simp only [htag, if_false] at H
      have htag' : [t0, t1, t2, t3] = dataTypeFIT := by
        have : [t0, t1, t2, t3] = FitFormat.tag := by simpa using htag
        rw [this]; decide
      by_cases h12 : size = 12
      · subst h12
        simp only [if_true] at H
        cases H
        exact ⟨_, rfl, Or.inl rfl, by simp, by simpa using htag', by simp [le32, FitFormat.le32]⟩
      · simp only [h12, if_false] at H
        by_cases h14 : size = 14
        · subst h14
          simp only [if_true] at H
          match rest, H with
          | c0 :: c1 :: rest', H =>
            simp only at H
            cases H
            exact ⟨_, rfl, Or.inr rfl, by simp, by simpa using htag', by simp [le32, FitFormat.le32]⟩
        · simp [h14] at H

/-- `Decode` after the records of a sequence: the CRC, then the next sequence -/
def afterRecords (fuel : Nat) (st : St) : P :=
  .read 2 fun
    | .error e => .ret (fail st (.io e))
    | .ok c => emit none st rawFlagCRC c fun st => decode none fuel { st with seqs := st.seqs + 1 }

theorem decode_succ (fuel : Nat) (st : St) : decode none (fuel + 1) st =
    .read 1 fun
      | .error e => if st.seqs ≠ 0 ∧ e = .eof then .ret (done st) else .ret (fail st (.io e))
      | .ok b0 =>
        if b0.headD 0 ≠ 12 ∧ b0.headD 0 ≠ 14 then .ret (fail st .notFit)
        else
          .read (b0.headD 0 - 1) fun
            | .error e => .ret (fail st (.io e))
            | .ok b =>
              if (b.drop 7).take 4 ≠ dataTypeFIT then .ret (fail st .notFit)
              else
                emit none st rawFlagFileHeader (b0 ++ b) fun st =>
                  msgs none (le32 (b.drop 3)) (le32 (b.drop 3)) 0 [] st (afterRecords fuel) := by
  unfold decode afterRecords
  rfl

/-- **the sequences of a stream**: where the spec parses the stream into sequences, the raw decoder accepts it and reports
exactly the spec's segmentation -/
theorem seqs_raw : ∀ (fuelS off : Nat) (bs : List Nat) (seqs : List FitFormat.SeqView),
    FitFormat.parseSeqs fuelS off bs = some seqs → IsBytes bs →
    ∀ (fuelD : Nat) (st : St), seqs.length < fuelD → (bs ≠ [] ∨ st.seqs ≠ 0) →
    ∃ newsegs, runExact (decode none fuelD st) bs = ⟨(newsegs.reverse ++ st.segs).reverse, none, st.seqs + seqs.length⟩ ∧
      layout off newsegs = (seqs.map FitFormat.segmentsOf).flatten ∧ flat newsegs = bs := by
  intro fuelS
  induction fuelS with
  | zero =>
    intro off bs seqs H hb fuelD st hfd hne
    cases bs with
    | cons b t => simp [FitFormat.parseSeqs] at H
    | nil =>
      simp only [FitFormat.parseSeqs] at H
      cases H
      obtain ⟨f, rfl⟩ : ∃ f, fuelD = f + 1 := ⟨fuelD - 1, by omega⟩
      have hs : st.seqs ≠ 0 := by rcases hne with h | h; exact absurd rfl h; exact h
      refine ⟨[], ?_, rfl, rfl⟩
      unfold decode
      rw [runExact_read_short _ _ _ (by simp)]
      simp [hs, runExact, done]
  | succ fuelS ih =>
    intro off bs seqs H hb fuelD st hfd hne
    cases bs with
    | nil =>
      simp only [FitFormat.parseSeqs] at H
      cases H
      obtain ⟨f, rfl⟩ : ∃ f, fuelD = f + 1 := ⟨fuelD - 1, by omega⟩
      have hs : st.seqs ≠ 0 := by rcases hne with h | h; exact absurd rfl h; exact h
      refine ⟨[], ?_, rfl, rfl⟩
      unfold decode
      rw [runExact_read_short _ _ _ (by simp)]
      simp [hs, runExact, done]
    | cons b0 t0 =>
      unfold FitFormat.parseSeqs at H
      cases hps : FitFormat.parseSeq off (b0 :: t0) with
      | none => simp [hps] at H
      | some p =>
        obtain ⟨s, rest⟩ := p
        simp only [hps] at H
        cases hrec : FitFormat.parseSeqs fuelS (off + s.len) rest with
        | none => simp [hrec] at H
        | some ss =>
          simp only [hrec] at H
          cases H
          -- take the sequence apart
          unfold FitFormat.parseSeq at hps
          cases hph : FitFormat.parseHeader (b0 :: t0) with
          | none => simp [hph] at hps
          | some h =>
            simp only [hph] at hps
            by_cases hn : (!FitFormat.hasN (List.drop h.size (b0 :: t0)) (h.dataSize + 2)) = true
            · simp [hn] at hps
            · simp only [hn, Bool.false_eq_true, if_false] at hps
              have hbody : h.dataSize + 2 ≤ (List.drop h.size (b0 :: t0)).length := by
                have : FitFormat.hasN (List.drop h.size (b0 :: t0)) (h.dataSize + 2) = true := by simpa using hn
                exact (FitFormat.hasN_iff _ _).mp this
              cases hpr : FitFormat.parseRecords h.dataSize FitFormat.Defs.empty (off + h.size) ((List.drop h.size (b0 :: t0)).take h.dataSize) with
              | none => simp [hpr] at hps
              | some rs =>
                simp only [hpr] at hps
                match hcr : (List.drop h.size (b0 :: t0)).drop h.dataSize, hps with
                | c0 :: c1 :: rest2, hps =>
                  simp only at hps
                  injection hps with hps
                  injection hps with hs hr
                  subst hr
                  obtain ⟨t, hbt, hsz, hlt, htag, hds⟩ := parseHeader_some hph
                  injection hbt with hb0 ht0
                  subst hb0 ht0
                  obtain ⟨fuelD', rfl⟩ : ∃ f, fuelD = f + 1 := ⟨fuelD - 1, by omega⟩
                  have hsz1 : 1 ≤ h.size := by rcases hsz with h1 | h1 <;> omega
                  have hdrop : List.drop h.size (h.size :: t0) = t0.drop (h.size - 1) := by
                    obtain ⟨m, hm⟩ : ∃ m, h.size = m + 1 := ⟨h.size - 1, by omega⟩
                    rw [hm]; simp
                  rw [hdrop] at hbody hpr hcr
                  have hbt : IsBytes t0 := fun x hx => hb x (by simp [hx])
                  -- the stream: header, records, CRC, the rest
                  generalize hrecs : List.take h.dataSize (List.drop (h.size - 1) t0) = recs at hpr
                  have hrl : recs.length = h.dataSize := by
                    have := hbody; simp only [List.length_drop] at this
                    rw [← hrecs]; simp; omega
                  have hbodyeq : List.drop (h.size - 1) t0 = recs ++ c0 :: c1 :: rest2 := by
                    rw [← hrecs, ← hcr, List.take_append_drop]
                  have hbr : IsBytes recs := by
                    rw [← hrecs]; exact fun x hx => hbt x (List.mem_of_mem_drop (List.mem_of_mem_take hx))
                  have hb2 : IsBytes rest2 := by
                    have : IsBytes (List.drop (h.size - 1) t0) := fun x hx => hbt x (List.mem_of_mem_drop hx)
                    rw [hbodyeq] at this
                    exact fun x hx => this x (by simp [hx])
                  obtain ⟨nr, hrun, hlay, hflat⟩ := records_raw h.dataSize FitFormat.Defs.empty (off + h.size) recs rs hpr hbr []
                    relLens_empty lensOK_nil h.dataSize 0 h.dataSize
                    { st with segs := ⟨rawFlagFileHeader, [h.size] ++ t0.take (h.size - 1)⟩ :: st.segs }
                    (afterRecords fuelD') (c0 :: c1 :: rest2) (by omega) (by omega)
                  obtain ⟨ni, hruni, hlayi, hflati⟩ := ih (off + s.len) rest2 ss hrec hb2 fuelD'
                    { segs := ⟨rawFlagCRC, [c0, c1]⟩ :: (nr.reverse ++ ⟨rawFlagFileHeader, [h.size] ++ t0.take (h.size - 1)⟩ :: st.segs),
                      seqs := st.seqs + 1 }
                    (by simp at hfd; omega) (Or.inr (by simp))
                  refine ⟨[⟨rawFlagFileHeader, [h.size] ++ t0.take (h.size - 1)⟩] ++ nr ++ [⟨rawFlagCRC, [c0, c1]⟩] ++ ni, ?_, ?_, ?_⟩
                  · rw [decode_succ]
                    rw [runExact_read_ok _ _ _ (by simp)]
                    simp only [List.take_succ_cons, List.take_zero, List.drop_succ_cons, List.drop_zero, List.headD_cons]
                    have hns : ¬ (h.size ≠ 12 ∧ h.size ≠ 14) := by omega
                    simp only [hns, if_false]
                    rw [runExact_read_ok _ _ _ hlt]
                    simp only [htag, ne_eq, not_true_eq_false, if_false, ← hds, emit]
                    rw [hbodyeq, hrun]
                    unfold afterRecords
                    rw [runExact_read_ok _ _ _ (by simp)]
                    simp only [List.take_succ_cons, List.take_zero, List.drop_succ_cons, List.drop_zero, emit]
                    rw [hruni]
                    simp [Nat.add_assoc, Nat.add_comm, Nat.add_left_comm]
                  · have hsl : s.len = h.size + h.dataSize + 2 := by rw [← hs]; rfl
                    have hfl : (flat nr).length = h.dataSize := by rw [hflat, hrl]
                    have hhl : ([h.size] ++ t0.take (h.size - 1)).length = h.size := by simp; omega
                    have L0 : (flat [(⟨rawFlagFileHeader, [h.size] ++ t0.take (h.size - 1)⟩ : Seg)]).length = h.size := by
                      simp only [flat, List.flatMap_cons, List.flatMap_nil, List.append_nil]; exact hhl
                    have L1 : (flat ([(⟨rawFlagFileHeader, [h.size] ++ t0.take (h.size - 1)⟩ : Seg)] ++ nr)).length = h.size + h.dataSize := by
                      rw [flat_append, List.length_append, L0, hfl]
                    have L2 : (flat ([(⟨rawFlagFileHeader, [h.size] ++ t0.take (h.size - 1)⟩ : Seg)] ++ nr ++ [⟨rawFlagCRC, [c0, c1]⟩])).length =
                        h.size + h.dataSize + 2 := by
                      rw [flat_append, List.length_append, L1]; rfl
                    simp only [List.map_cons, List.flatten_cons]
                    rw [layout_append, layout_append, layout_append, L0, L1, L2, hlay]
                    have e1 : off + (h.size + h.dataSize + 2) = off + s.len := by rw [hsl]
                    rw [e1, hlayi, ← hs]
                    simp [layout, kindOfFlag, FitFormat.segmentsOf, rawFlagCRC, rawFlagFileHeader, rawFlagMesgDef, rawFlagMesgData, Nat.add_assoc]
                    omega
                  · simp only [flat, List.flatMap_append, List.flatMap_cons, List.flatMap_nil, List.append_nil] at hflat hflati ⊢
                    rw [hflat, hflati]
                    have : t0 = t0.take (h.size - 1) ++ t0.drop (h.size - 1) := (List.take_append_drop _ _).symm
                    conv => rhs; rw [this, hbodyeq]
                    simp

theorem parseSeq_shorter {off : Nat} {bs : List Nat} {s : FitFormat.SeqView} {rest : List Nat}
    (H : FitFormat.parseSeq off bs = some (s, rest)) : rest.length < bs.length := by
  unfold FitFormat.parseSeq at H
  cases hph : FitFormat.parseHeader bs with
  | none => simp [hph] at H
  | some h =>
    simp only [hph] at H
    split at H
    · cases H
    · split at H
      · cases H
      · split at H
        · rename_i c0 c1 r hcr
          injection H with H
          injection H with _ hr
          subst hr
          have := congrArg List.length hcr
          simp only [List.length_drop, List.length_cons] at this
          omega
        · cases H

theorem parseSeqs_len : ∀ (fuel off : Nat) (bs : List Nat) (seqs : List FitFormat.SeqView),
    FitFormat.parseSeqs fuel off bs = some seqs → seqs.length ≤ bs.length
  | 0, _, [], _, H => by simp [FitFormat.parseSeqs] at H; subst H; simp
  | 0, _, _ :: _, _, H => by simp [FitFormat.parseSeqs] at H
  | _ + 1, _, [], _, H => by simp [FitFormat.parseSeqs] at H; subst H; simp
  | fuel + 1, off, b :: t, seqs, H => by
    unfold FitFormat.parseSeqs at H
    cases hps : FitFormat.parseSeq off (b :: t) with
    | none => simp [hps] at H
    | some p =>
      obtain ⟨s, rest⟩ := p
      simp only [hps] at H
      cases hrec : FitFormat.parseSeqs fuel (off + s.len) rest with
      | none => simp [hrec] at H
      | some ss =>
        simp only [hrec] at H
        cases H
        have h1 := parseSeqs_len fuel _ rest ss hrec
        have h2 := parseSeq_shorter hps
        simp only [List.length_cons] at h2 ⊢
        omega

end Fit.Link
