import FitProps.C17Defs
import FitModel.Generated.Xlsx
import FitModel.Generated.XlsxTypes
import FitModel.Generated.Untyped
/-! C17: definitions of the statements about the untyped constants (shard "Untyped"). -/
namespace Fit.C17
open Fit.ProfileSpec Fit.Gen

/-- what the spreadsheet prescribes for package fieldnum: one constant per field of every message, named message ++ field -/
def expectedFieldnum (ms : List Mesg) : List (Nat × Nat) :=
  (ms.flatMap fun m => m.fields.map fun f => (joinIdent m.name f.name, f.num)) ++ [(0x1496e76616c6964 /- "Invalid" -/, 255)]

/-- … and for package mesgnum: the constants of the type `mesg_num` -/
def expectedMesgnum (ts : List TypeRow) : List (Nat × Nat) :=
  match ts.find? (·.name == 0x16d6573675f6e756d /- "mesg_num" -/) with
  | some t => (t.consts.map fun c => (c.name, c.value)) ++ [(0x1496e76616c6964 /- "Invalid" -/, 65535)]
  | none => []

end Fit.C17
