import FitProps.C12Lemmas
/-!
Lemmas for `C12_csv_text`: the float64 `raw/scale − offset` of a raw value of at most 32 bits is written by the CSV
writer with a '.' (`ScaleOffset.csvHasDot`), so the reader takes the scaled path.
-/
namespace Fit.C12L
open Fit.F64 Fit.ScaleOffset Fit.Gen

theorem decode_fabs (x : Nat) (s : Bool) (m : Nat) (e : Int) (h : decode x = .fin s m e) :
    decode (fabs x) = .fin false m e := by
  unfold fabs
  have e1 : x % 2 ^ 63 / 2 ^ (52 + 11) % 2 = 0 := by omega
  have e2 : x % 2 ^ 63 / 2 ^ 52 % 2 ^ 11 = x / 2 ^ 52 % 2 ^ 11 := by omega
  have e3 : x % 2 ^ 63 % 2 ^ 52 = x % 2 ^ 52 := by omega
  simp only [decode, Fmt.decode, b64, e1, e2, e3] at h ⊢
  split_ifs at h ⊢ <;> simp_all

theorem fabs_lt (x : Nat) : fabs x < 2 ^ 63 := Nat.mod_lt _ (by norm_num)

theorem isFin_fabs (x : Nat) (q : ℚ) (h : IsFin x q) : IsFin (fabs x) |q| := by
  obtain ⟨s, m, e, hd, rfl⟩ := h
  refine ⟨false, m, e, decode_fabs x s m e hd, ?_⟩
  rw [abs_toQ, toQ_fin]; simp [sgn]

theorem isFin_tenM4 : IsFin tenM4Bits (0x1a36e2eb1c432d * (2 : ℚ) ^ (-66 : Int)) := by
  refine ⟨false, 0x1a36e2eb1c432d, -66, by decide +kernel, ?_⟩
  rw [toQ_fin]; simp [sgn]

theorem tenM4_le : (0x1a36e2eb1c432d : ℚ) * (2 : ℚ) ^ (-66 : Int) ≤ 1 / 9999 := by
  rw [show (-66 : Int) = -((66 : Nat) : Int) by norm_num, zpow_neg, zpow_natCast]; norm_num

theorem isFin_two63 : IsFin two63Bits ((2 : ℚ) ^ 63) := by
  refine ⟨false, 2 ^ 52, 11, by decide +kernel, ?_⟩
  rw [toQ_fin]; simp only [sgn, Bool.false_eq_true, if_false, one_mul]
  rw [show (11 : Int) = ((11 : Nat) : Int) by norm_num, zpow_natCast]; norm_num

/-- `|x| < 10^-4` is false for a datum of magnitude at least 1/9999 -/
theorem flt_tenM4_false (v : Nat) (q : ℚ) (hv : IsFin v q) (hq : 1 / 9999 ≤ |q|) : flt (fabs v) tenM4Bits = false := by
  have h := fgt_false tenM4Bits (fabs v) (by decide) (lt_trans (fabs_lt v) (by norm_num)) _ _ isFin_tenM4 (isFin_fabs v q hv)
    (lt_of_lt_of_le (by positivity) hq) (le_trans tenM4_le hq)
  simpa [fgt] using h

/-- `|x| > 2^63` is false for a datum of magnitude at most 2^63 -/
theorem fgt_two63_false (v : Nat) (q : ℚ) (hv : IsFin v q) (hq : |q| ≤ 2 ^ 63) : fgt (fabs v) two63Bits = false :=
  fgt_false (fabs v) two63Bits (lt_trans (fabs_lt v) (by norm_num)) (by decide) _ _ (isFin_fabs v q hv) isFin_two63
    (by positivity) hq

/-- a zero (of either sign) is a whole value for the CSV writer -/
theorem whole_of_zero (v : Nat) (hv : IsFin v 0) : csvIsWhole v = true := by
  obtain ⟨s, m, e, hd, hq⟩ := hv
  have hm : m = 0 := by
    rw [toQ_fin] at hq
    have h2 : (2 : ℚ) ^ e ≠ 0 := by positivity
    have hs : sgn s ≠ 0 := by cases s <;> simp [sgn]
    have : (m : ℚ) = 0 := by
      rcases mul_eq_zero.mp hq with h | h
      · rcases mul_eq_zero.mp h with h' | h'
        · exact absurd h' hs
        · exact h'
      · exact absurd h h2
    exact_mod_cast this
  subst hm
  have hf := decode_fabs v s 0 e hd
  have hz : fabs v = 0 := by
    rcases bits_of_decode (fabs v) 0 e (fabs_lt v) hf with ⟨_, _, h⟩ | ⟨h, _⟩
    · exact h
    · omega
  have htr : truncInt s 0 e = 0 := by
    unfold truncInt; cases s <;> split_ifs <;> simp
  have hc : cvt .i64 v = 0 := by
    simp only [cvt, cvtt, hd, htr, IntTy.bits]
    decide
  have ho : ofInt (IntTy.i64.toInt 0) = 0 := by decide +kernel
  have hk : key v = 0 := by
    unfold key; unfold fabs at hz; rw [hz]; split_ifs <;> simp
  have hn : isNaN v = false := by simp [isNaN, hd]
  have hn0 : isNaN 0 = false := by decide +kernel
  have hk0 : key 0 = 0 := by decide
  simp [csvIsWhole, hc, ho, feq, hn, hn0, hk, hk0]

/-- the pattern of the datum decodes finite: the writer's text has a '.' when the value is zero or of a magnitude in
[1/9999, 2^63] -/
theorem hasDot_of_range (v : Nat) (q : ℚ) (hv : IsFin v q) (h : q = 0 ∨ (1 / 9999 ≤ |q| ∧ |q| ≤ 2 ^ 63)) :
    csvHasDot v = true := by
  obtain ⟨s, m, e, hd, hq⟩ := id hv
  unfold csvHasDot
  simp only [hd]
  rcases h with h0 | ⟨h1, h2⟩
  · subst h0; simp [whole_of_zero v hv]
  · simp [flt_tenM4_false v q hv h1, fgt_two63_false v q hv h2]

/-- `x` is a finite datum whose value is an integer -/
def isIntBits (x : Nat) : Bool :=
  match decode x with
  | .fin _ m e => decide (0 ≤ e) || m % 2 ^ (-e).toNat == 0
  | _ => false

theorem isIntBits_spec (x : Nat) (q : ℚ) (hx : IsFin x q) (h : isIntBits x = true) : ∃ n : Int, q = n := by
  obtain ⟨s, m, e, hd, rfl⟩ := hx
  simp only [isIntBits, hd, Bool.or_eq_true, decide_eq_true_eq, beq_iff_eq] at h
  have hsgn : ∃ k : Int, sgn s = k := by cases s <;> [exact ⟨1, by simp [sgn]⟩; exact ⟨-1, by simp [sgn]⟩]
  obtain ⟨k, hk⟩ := hsgn
  rw [toQ_fin, hk]
  rcases h with h | h
  · refine ⟨k * m * 2 ^ e.toNat, ?_⟩
    have : (2 : ℚ) ^ e = (2 : ℚ) ^ (e.toNat : Int) := by rw [Int.toNat_of_nonneg h]
    rw [this, zpow_natCast]; push_cast; ring
  · by_cases he : 0 ≤ e
    · refine ⟨k * m * 2 ^ e.toNat, ?_⟩
      have : (2 : ℚ) ^ e = (2 : ℚ) ^ (e.toNat : Int) := by rw [Int.toNat_of_nonneg he]
      rw [this, zpow_natCast]; push_cast; ring
    · obtain ⟨c, hc⟩ := Nat.dvd_of_mod_eq_zero h
      refine ⟨k * c, ?_⟩
      have he' : e = -(((-e).toNat : Nat) : Int) := by omega
      have hp : (2 : ℚ) ^ e = ((2 : ℚ) ^ (-e).toNat)⁻¹ := by
        conv_lhs => rw [he']
        rw [zpow_neg, zpow_natCast]
      have hpos : ((2 : ℚ) ^ (-e).toNat) ≠ 0 := by positivity
      rw [hp, hc]; push_cast
      field_simp

/-- the scale is below 2^11 -/
def smallScale (s : Nat) : Bool :=
  match decode s with
  | .fin _ m e => decide (m < 2 ^ 53) && decide (e ≤ -42)
  | _ => false

theorem smallScale_spec (s : Nat) (S : ℚ) (hs : IsFin s S) (h : smallScale s = true) : |S| ≤ 2 ^ 11 := by
  obtain ⟨sg, m, e, hd, rfl⟩ := hs
  simp only [smallScale, hd, Bool.and_eq_true, decide_eq_true_eq] at h
  rw [abs_toQ]
  have hmq : (m : ℚ) ≤ (2 : ℚ) ^ 53 := by exact_mod_cast h.1.le
  have hp : (2 : ℚ) ^ e ≤ (2 : ℚ) ^ (-42 : Int) := zpow_le_zpow_right₀ (by norm_num) h.2
  have e11 : (2 : ℚ) ^ 53 * (2 : ℚ) ^ (-42 : Int) = 2 ^ 11 := by
    rw [← zpow_natCast, ← zpow_add₀ (by norm_num : (2 : ℚ) ≠ 0)]; norm_num
  calc (m : ℚ) * (2 : ℚ) ^ e ≤ (2 : ℚ) ^ 53 * (2 : ℚ) ^ (-42 : Int) :=
        mul_le_mul hmq hp (by positivity) (by positivity)
    _ = 2 ^ 11 := e11

/-- the offset is zero -/
def zeroOffset (o : Nat) : Bool :=
  match decode o with
  | .fin _ m _ => m == 0
  | _ => false

theorem zeroOffset_spec (o : Nat) (O : ℚ) (ho : IsFin o O) (h : zeroOffset o = true) : O = 0 := by
  obtain ⟨sg, m, e, hd, rfl⟩ := ho
  simp only [zeroOffset, hd, beq_iff_eq] at h
  rw [toQ_fin, h]; simp

/-- the scale is at most 2^16 -/
def scale16 (s : Nat) : Bool :=
  match decode s with
  | .fin _ m e => decide (m < 2 ^ 53) && (decide (e ≤ -37) || (decide (e = -36) && m == 2 ^ 52))
  | _ => false

theorem scale16_spec (s : Nat) (S : ℚ) (hs : IsFin s S) (h : scale16 s = true) : |S| ≤ 2 ^ 16 := by
  obtain ⟨sg, m, e, hd, rfl⟩ := hs
  simp only [scale16, hd, Bool.and_eq_true, Bool.or_eq_true, decide_eq_true_eq, beq_iff_eq] at h
  rw [abs_toQ]
  obtain ⟨hm, h⟩ := h
  rcases h with h | ⟨he, hm2⟩
  · have hmq : (m : ℚ) ≤ (2 : ℚ) ^ 53 := by exact_mod_cast hm.le
    have hp : (2 : ℚ) ^ e ≤ (2 : ℚ) ^ (-37 : Int) := zpow_le_zpow_right₀ (by norm_num) h
    have e16 : (2 : ℚ) ^ 53 * (2 : ℚ) ^ (-37 : Int) = 2 ^ 16 := by
      rw [← zpow_natCast, ← zpow_add₀ (by norm_num : (2 : ℚ) ≠ 0)]; norm_num
    calc (m : ℚ) * (2 : ℚ) ^ e ≤ (2 : ℚ) ^ 53 * (2 : ℚ) ^ (-37 : Int) :=
          mul_le_mul hmq hp (by positivity) (by positivity)
      _ = 2 ^ 16 := e16
  · rw [he, hm2]
    have e16 : ((2 ^ 52 : Nat) : ℚ) * (2 : ℚ) ^ (-36 : Int) = 2 ^ 16 := by
      rw [show (-36 : Int) = -((36 : Nat) : Int) by norm_num, zpow_neg, zpow_natCast]; norm_num
    rw [e16]

/-- decidable side condition on a pair for the CSV text: the pair is in range and either has no offset and a scale
of at most 2^16, or scale and offset are integers and the scale is below 2^11 (then `raw/scale − offset` is zero or
at least 1/scale in magnitude) -/
def csvPairOK (s o : Nat) : Bool :=
  pairOK s o && ((zeroOffset o && scale16 s) || (isIntBits s && isIntBits o && smallScale s))

theorem decode_bounds (x : Nat) (s : Bool) (m : Nat) (e : Int) (h : decode x = .fin s m e) : m < 2 ^ 53 ∧ -1074 ≤ e := by
  rcases bits_of_decode (fabs x) m e (fabs_lt x) (decode_fabs x s m e h) with ⟨h1, h2, _⟩ | ⟨_, h2, h3, _, _⟩
  · exact ⟨by omega, by omega⟩
  · exact ⟨h2, h3⟩

/-- a rounding loses at most a 2^-53-th of the magnitude (and 2^-1075) -/
theorem near_lower (q z : ℚ) (h : Near q z) : (1 - 1 / 2 ^ 53) * |z| - 1 / 2 ^ 80 ≤ |q| := by
  have h1 := h.1
  have he := eta_le
  have : |z| ≤ |q - z| + |q| := by
    have := abs_sub_abs_le_abs_sub z q
    rw [abs_sub_comm z q] at this; linarith
  have : (1 - 1 / 2 ^ 53) * |z| = |z| - |z| / 2 ^ 53 := by ring
  linarith

/-- the two operations of `Apply` on a raw value of at most 33 bits: both results are finite, each one rounding -/
theorem apply_near (r : Int) (hr : r.natAbs ≤ 2 ^ 32) (s o : Nat) (S O : ℚ) (hs : IsFin s S) (ho : IsFin o O)
    (ho64 : o < 2 ^ 64) (hS : 1 / 2 ≤ S) (hO : |O| ≤ 2 ^ 10) :
    ∃ q1 q2 : ℚ, IsFin (apply (ofInt r) s o) q2 ∧ Near q1 ((r : ℚ) / S) ∧ Near q2 (q1 - O) ∧ |(r : ℚ) / S| ≤ 2 ^ 33 ∧
      |q1| ≤ 2 ^ 34 ∧ |q2| ≤ 2 ^ 36 := by
  have hSpos : 0 < S := by linarith
  have hrq : |(r : ℚ)| ≤ 2 ^ 32 := by
    rw [← Int.cast_abs, ← Nat.cast_natAbs]; exact_mod_cast hr
  have hR := ofInt_fin r (by omega)
  have b0 : |(r : ℚ) / S| ≤ 2 ^ 33 := by
    rw [abs_div, abs_of_pos hSpos, div_le_iff₀ hSpos]
    calc |(r : ℚ)| ≤ 2 ^ 32 := hrq
      _ = 2 ^ 33 * (1 / 2) := by norm_num
      _ ≤ 2 ^ 33 * S := by gcongr
  obtain ⟨q1, f1, n1⟩ := div_fin _ s _ S hR hs hSpos.ne' (lt_big _ (by linarith [b0]))
  have b1 : |q1| ≤ 2 ^ 34 := by
    have := near_bound q1 _ _ n1 b0
    have : (2 : ℚ) ^ 33 + 2 ^ 33 / 2 ^ 53 + 1 / 2 ^ 80 ≤ 2 ^ 34 := by norm_num
    linarith
  have b1' : |q1 - O| ≤ 2 ^ 35 := by
    have := abs_sub q1 O
    have : (2 : ℚ) ^ 34 + 2 ^ 10 ≤ 2 ^ 35 := by norm_num
    linarith
  obtain ⟨q2, f2, n2⟩ := sub_fin _ o ho64 q1 O f1 ho (lt_big _ (by linarith [b1']))
  have b2 : |q2| ≤ 2 ^ 36 := by
    have := near_bound q2 _ _ n2 b1'
    have : (2 : ℚ) ^ 35 + 2 ^ 35 / 2 ^ 53 + 1 / 2 ^ 80 ≤ 2 ^ 36 := by norm_num
    linarith
  exact ⟨q1, q2, f2, n1, n2, b0, b1, b2⟩

/-- **the text of a scaled value has a '.'**: for a raw value of magnitude at least 7 (a pair in range without
offset, scale at most 2^16), and for every raw value when scale and offset are integers -/
theorem csv_text_main (r : Int) (hr : r.natAbs ≤ 2 ^ 32) (s o : Nat) (h : csvPairOK s o = true)
    (hbig : zeroOffset o = true → 7 ≤ r.natAbs) : csvHasDot (apply (ofInt r) s o) = true := by
  unfold csvPairOK at h
  simp only [Bool.and_eq_true, Bool.or_eq_true] at h
  obtain ⟨hok, hcase⟩ := h
  obtain ⟨S, O, hs, ho, ho64, _, hS, hS', hO⟩ := pairOK_spec s o hok
  have hSpos : 0 < S := by linarith
  obtain ⟨q1, q2, f2, n1, n2, b0, b1, b2⟩ := apply_near r hr s o S O hs ho ho64 hS hO
  have hup : |q2| ≤ 2 ^ 63 := le_trans b2 (by norm_num)
  apply hasDot_of_range _ q2 f2
  rcases hcase with ⟨hz, h16⟩ | ⟨⟨hiS, hiO⟩, hsm⟩
  · -- no offset
    right
    have hO0 := zeroOffset_spec o O ho hz
    have hrb := hbig hz
    have hS16 := scale16_spec s S hs h16
    rw [abs_of_pos hSpos] at hS16
    have hrq : (7 : ℚ) ≤ |(r : ℚ)| := by
      rw [← Int.cast_abs, ← Nat.cast_natAbs]; exact_mod_cast hrb
    have hz1 : 7 / 2 ^ 16 ≤ |(r : ℚ) / S| := by
      rw [abs_div, abs_of_pos hSpos, le_div_iff₀ hSpos]
      calc (7 : ℚ) / 2 ^ 16 * S ≤ 7 / 2 ^ 16 * 2 ^ 16 := by gcongr
        _ = 7 := by norm_num
        _ ≤ |(r : ℚ)| := hrq
    have l1 := near_lower q1 _ n1
    have l2 := near_lower q2 _ n2
    rw [hO0, sub_zero] at l2
    refine ⟨?_, hup⟩
    have c1 : (1 - 1 / 2 ^ 53) * (7 / 2 ^ 16) - 1 / 2 ^ 80 ≤ |q1| := by
      have : (1 - 1 / 2 ^ 53 : ℚ) * (7 / 2 ^ 16) ≤ (1 - 1 / 2 ^ 53) * |(r : ℚ) / S| :=
        mul_le_mul_of_nonneg_left hz1 (by norm_num)
      linarith
    have c2 : (1 - 1 / 2 ^ 53 : ℚ) * ((1 - 1 / 2 ^ 53) * (7 / 2 ^ 16) - 1 / 2 ^ 80) ≤ (1 - 1 / 2 ^ 53) * |q1| :=
      mul_le_mul_of_nonneg_left c1 (by norm_num)
    have : (1 : ℚ) / 9999 ≤ (1 - 1 / 2 ^ 53) * ((1 - 1 / 2 ^ 53) * (7 / 2 ^ 16) - 1 / 2 ^ 80) - 1 / 2 ^ 80 := by norm_num
    linarith
  · -- integer scale and offset
    obtain ⟨nS, hnS⟩ := isIntBits_spec s S hs hiS
    obtain ⟨nO, hnO⟩ := isIntBits_spec o O ho hiO
    have hSs := smallScale_spec s S hs hsm
    rw [abs_of_pos hSpos] at hSs
    -- r/S − O = n/S with n an integer
    set n : Int := r - nO * nS with hn
    have hE : (r : ℚ) / S - O = (n : ℚ) / S := by
      rw [hn]; push_cast; rw [← hnS, ← hnO]; field_simp
    by_cases hn0 : n = 0
    · left
      have hz1 : (r : ℚ) / S = O := by
        have : (r : ℚ) / S - O = 0 := by rw [hE, hn0]; simp
        linarith
      obtain ⟨so, mo, eo, hdo, hqo⟩ := id ho
      obtain ⟨hmo, heo⟩ := decode_bounds o so mo eo hdo
      have hq1 : q1 = O := by
        have := n1.2 mo eo hmo heo (by rw [hz1, ← hqo, abs_toQ])
        rw [this, hz1]
      have := n2.2 0 0 (by norm_num) (by norm_num) (by rw [hq1]; simp)
      rw [this, hq1]; simp
    · right
      refine ⟨?_, hup⟩
      have hn1 : (1 : ℚ) ≤ |(n : ℚ)| := by
        have : 1 ≤ |n| := Int.one_le_abs hn0
        rw [← Int.cast_abs]; exact_mod_cast this
      have hEl : 1 / 2 ^ 11 ≤ |(r : ℚ) / S - O| := by
        rw [hE, abs_div, abs_of_pos hSpos, le_div_iff₀ hSpos]
        calc (1 : ℚ) / 2 ^ 11 * S ≤ 1 / 2 ^ 11 * 2 ^ 11 := by gcongr
          _ = 1 := by norm_num
          _ ≤ |(n : ℚ)| := hn1
      have he := eta_le
      have d1 : |q1 - (r : ℚ) / S| ≤ 1 / 2 ^ 19 := by
        have h1 := n1.1
        have : |(r : ℚ) / S| / 2 ^ 53 ≤ 2 ^ 33 / 2 ^ 53 := by gcongr
        have : (2 : ℚ) ^ 33 / 2 ^ 53 + 1 / 2 ^ 80 ≤ 1 / 2 ^ 19 := by norm_num
        linarith
      have hlow : 1 / 2 ^ 12 ≤ |q1 - O| := by
        have : |(r : ℚ) / S - O| ≤ |q1 - O| + |q1 - (r : ℚ) / S| := by
          have := abs_sub_le ((r : ℚ) / S) q1 O
          rw [abs_sub_comm ((r : ℚ) / S) q1] at this
          linarith
        have : (1 : ℚ) / 2 ^ 12 ≤ 1 / 2 ^ 11 - 1 / 2 ^ 19 := by norm_num
        linarith
      have l2 := near_lower q2 _ n2
      have c2 : (1 - 1 / 2 ^ 53 : ℚ) * (1 / 2 ^ 12) ≤ (1 - 1 / 2 ^ 53) * |q1 - O| :=
        mul_le_mul_of_nonneg_left hlow (by norm_num)
      have : (1 : ℚ) / 9999 ≤ (1 - 1 / 2 ^ 53) * (1 / 2 ^ 12) - 1 / 2 ^ 80 := by norm_num
      linarith

end Fit.C12L
