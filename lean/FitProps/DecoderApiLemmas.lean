import FitModel.DecoderApiSpec
import FitProps.C06
/-! Helper lemmas about the decoder-API model (`FitModel/DecoderApi.lean`): a small Hoare-style layer over the
`Res` monad (`Res.Sat`), the reading invariant (`Reads`: every byte consumed by `readN` is counted in `cur` and
folded into the running CRC), the state invariant (`Inv`: the stream is a byte string and every live definition has
valid base types), and one specification lemma per function of the model. -/
namespace Fit.DecApi
open Fit.Crc Fit.Value Fit.Gen Fit.Gen.DecApi

theorem fail_err {α} (s : St) (r : Res α) (e : Err) (h : (fail s r).2 = .err e) : (fail s r).1.q.err = some e := by
  cases r <;> simp_all [fail]

/-- a state whose per-sequence state and look-ups are the initial ones is the state of a decoder just created -/
theorem eq_fresh_of_clean (s : St) (hq : s.q = {}) (hl : s.look = {}) : s = St.fresh s.o s.rest := by
  cases s; simp_all [St.fresh]

def Res.Sat {α} (P : α → Prop) : Res α → Prop
  | .ok a => P a
  | .err _ => True
  | .panic => False
  | .hang => False

theorem Res.Sat.bind {α β} {P : α → Prop} {Q : β → Prop} {r : Res α} {f : α → Res β}
    (h1 : Res.Sat P r) (h2 : ∀ a, P a → Res.Sat Q (f a)) : Res.Sat Q (r >>= f) := by
  cases r <;> simp_all [Res.Sat, Bind.bind, Res.bind]

theorem Res.Sat.mono {α} {P Q : α → Prop} {r : Res α} (h1 : Res.Sat P r) (h2 : ∀ a, P a → Q a) : Res.Sat Q r := by
  cases r <;> simp_all [Res.Sat]

@[simp] theorem Res.Sat.pure {α} {P : α → Prop} (a : α) : Res.Sat P (Pure.pure a : Res α) ↔ P a := Iff.rfl
@[simp] theorem Res.Sat.ok {α} {P : α → Prop} (a : α) : Res.Sat P (Res.ok a) ↔ P a := Iff.rfl
@[simp] theorem Res.Sat.err {α} {P : α → Prop} (e : Err) : Res.Sat P (Res.err e : Res α) ↔ True := Iff.rfl
@[simp] theorem Res.Sat.panic {α} {P : α → Prop} : Res.Sat P (Res.panic : Res α) ↔ False := Iff.rfl
@[simp] theorem Res.Sat.hang {α} {P : α → Prop} : Res.Sat P (Res.hang : Res α) ↔ False := Iff.rfl

theorem Res.pure_bind {α β} (a : α) (f : α → Res β) : (Pure.pure a >>= f) = f a := rfl

def IsBytes (l : List Nat) : Prop := ∀ b ∈ l, b < 256

theorem IsBytes.append {a b : List Nat} : IsBytes (a ++ b) ↔ IsBytes a ∧ IsBytes b := by
  simp [IsBytes, or_imp, forall_and]

/-- a definition as `decodeMessageDefinition` stores it: valid base types, sizes are bytes -/
def DefOK (d : MesgDef) : Prop := (∀ f ∈ d.fields, btValid f.bt = true ∧ f.size < 256) ∧ (∀ f ∈ d.devs, f.size < 256)

def DefsOK (l : Look) : Prop := ∀ p ∈ l.defs, DefOK p.2

/-- the factory's components are acyclic: some ranking of the fields (below 256 — there are at most 256 field numbers per
message) strictly decreases from every field to the destinations of its components. This is the contract of
`decoder.Factory`: `expandComponents` recurses through the components of the destination fields. -/
def FacOK (fac : Factory) : Prop :=
  ∃ rk : Nat → Nat → Nat, (∀ m n, rk m n < 256) ∧ ∀ e ∈ fac, ∀ c ∈ e.info.comps, rk e.mesgNum c.fieldNum < rk e.mesgNum e.num

theorem create_comps (fac : Factory) (rk : Nat → Nat → Nat)
    (h : ∀ e ∈ fac, ∀ c ∈ e.info.comps, rk e.mesgNum c.fieldNum < rk e.mesgNum e.num) (m n : Nat) :
    ∀ c ∈ (fac.create m n).comps, rk m c.fieldNum < rk m n := by
  unfold Factory.create
  cases hf : fac.find? (fun e => e.mesgNum == m && e.num == n) with
  | none => intro c hc; simp [FieldInfo.unknown] at hc
  | some e =>
    have hm := List.mem_of_find?_eq_some hf
    have hp := List.find?_some hf
    simp only [Bool.and_eq_true, beq_iff_eq] at hp
    intro c hc
    have := h e hm c hc
    rw [← hp.1, ← hp.2]; exact this

theorem expandOne_info (fac : Factory) (m : Nat) (many : Bool) (c : Comp) (x x' : ExpSt) (v : Value) (info : FieldInfo)
    (h : expandOne fac m many c x = (x', some (v, info))) : info = fac.create m c.fieldNum := by
  unfold expandOne at h
  split at h
  · cases h
  · simp only at h
    split at h
    · cases h
    · cases h; rfl

theorem expandComps_some (fac : Factory) (rk : Nat → Nat → Nat)
    (hf : ∀ e ∈ fac, ∀ c ∈ e.info.comps, rk e.mesgNum c.fieldNum < rk e.mesgNum e.num) (m : Nat) :
    ∀ (fuel k : Nat) (v : Value) (bt : Nat) (comps : List Comp) (st : List DField × List AccEntry),
      (∀ c ∈ comps, rk m c.fieldNum < k) → k ≤ fuel →
      (expandComps fac m fuel v bt comps st).isSome = true
  | 0, k, v, bt, comps, st, hc, hk => by
    unfold expandComps
    cases comps with
    | nil => rfl
    | cons c cs => have := hc c (by simp); omega
  | fuel + 1, k, v, bt, comps, st, hc, hk => by
    unfold expandComps
    split
    · rfl
    split
    · rfl
    split
    · rfl
    rename_i bits _
    simp only [Option.isSome_map]
    -- the fold keeps `some`
    have key : ∀ (cs : List Comp) (r : ExpSt), (∀ c ∈ cs, rk m c.fieldNum < k) →
        (cs.foldl (fun (r : Option ExpSt) c =>
          match r with
          | none => none
          | some x =>
            match expandOne fac m (decide (comps.length > 1)) c x with
            | (x', none) => some x'
            | (x', some (value, info)) =>
              match expandComps fac m fuel value info.bt info.comps (x'.fields, x'.acc) with
              | none => none
              | some (fields, acc) => some { x' with fields := fields, acc := acc }) (some r)).isSome = true := by
      intro cs
      induction cs with
      | nil => intro r _; rfl
      | cons c cs ih =>
        intro r hcs
        simp only [List.foldl_cons]
        rcases he : expandOne fac m (decide (comps.length > 1)) c r with ⟨x', o⟩
        cases o with
        | none => exact ih x' (fun c' hc' => hcs c' (by simp [hc']))
        | some p =>
          obtain ⟨value, info⟩ := p
          simp only
          have hinfo := expandOne_info fac m _ c r x' value info he
          have hck := hcs c (by simp)
          have hsome := expandComps_some fac rk hf m fuel (rk m c.fieldNum) value info.bt info.comps (x'.fields, x'.acc)
            (by rw [hinfo]; exact create_comps fac rk hf m c.fieldNum) (by omega)
          cases hx : expandComps fac m fuel value info.bt info.comps (x'.fields, x'.acc) with
          | none => rw [hx] at hsome; cases hsome
          | some q => exact ih _ (fun c' hc' => hcs c' (by simp [hc']))
    exact key comps _ hc

theorem expandAll_some (fac : Factory) (hf : FacOK fac) (m : Nat) :
    ∀ (n i : Nat) (st : List DField × List AccEntry), (expandAll fac m n i st).isSome = true
  | 0, _, _ => rfl
  | n + 1, i, (fields, acc) => by
    unfold expandAll
    cases hfi : fields[i]? with
    | none => rfl
    | some f =>
      simp only
      obtain ⟨rk, hrk, hdec⟩ := hf
      have h := expandComps_some fac rk hdec m 256 (rk m f.num) f.value f.bt (fac.create m f.num).comps (fields, acc)
        (create_comps fac rk hdec m f.num) (by have := hrk m f.num; omega)
      cases hx : expandComps fac m 256 f.value f.bt (fac.create m f.num).comps (fields, acc) with
      | none => rw [hx] at h; cases h
      | some st => exact expandAll_some fac ⟨rk, hrk, hdec⟩ m n (i + 1) st

/-- the state invariant: the stream is a byte string, live definitions are well-formed, `cur` is a uint32, and the
factory's components are acyclic (the contract of `decoder.Factory`: the real code recurses through them) -/
def Inv (s : St) : Prop := IsBytes s.rest ∧ DefsOK s.look ∧ s.q.cur < 4294967296 ∧ FacOK s.o.fac

/-- `s'` is `s` after consuming the bytes `c` through `readN` -/
def Reads (s s' : St) : Prop :=
  ∃ c, s.rest = c ++ s'.rest ∧ s'.q.cur = (s.q.cur + c.length) % 4294967296 ∧
    s'.q.crc16 = (if s.o.chk then write s.q.crc16 c else s.q.crc16) ∧ s'.o = s.o ∧ s'.q.hdr = s.q.hdr ∧
    s'.q.hdrDone = s.q.hdrDone ∧ s'.q.err = s.q.err

theorem Reads.trans {a b c : St} (h1 : Reads a b) (h2 : Reads b c) : Reads a c := by
  obtain ⟨c1, r1, u1, w1, o1, h1, d1, e1⟩ := h1
  obtain ⟨c2, r2, u2, w2, o2, h2, d2, e2⟩ := h2
  refine ⟨c1 ++ c2, by rw [r1, r2, List.append_assoc], ?_, ?_, by rw [o2, o1], by rw [h2, h1], by rw [d2, d1], by rw [e2, e1]⟩
  · rw [u2, u1, List.length_append]; omega
  · rw [w2, w1, o1]; split <;> simp [write, List.foldl_append]

theorem hasN_iff (l : List Nat) (n : Nat) : Fit.Integrity.hasN l n = true ↔ n ≤ l.length := Fit.Integrity.hasN_iff l n

theorem rawRead_sat (k : Nat) (s : St) (hk : k ≤ reservedbuf) :
    Res.Sat (fun (p : List Nat × St) => s.rest = p.1 ++ p.2.rest ∧ p.1.length = k ∧ p.2 = { s with rest := p.2.rest }) (rawRead k s) := by
  unfold rawRead
  split
  · omega
  · split
    · rename_i h
      rw [hasN_iff] at h
      simp [List.take_append_drop, h]
    · trivial

theorem readN_sat (k : Nat) (s : St) (hk : k ≤ reservedbuf) (hi : Inv s) :
    Res.Sat (fun (p : List Nat × St) => p.1.length = k ∧ IsBytes p.1 ∧ Inv p.2 ∧ Reads s p.2 ∧ p.2.look = s.look) (readN k s) := by
  unfold readN
  refine Res.Sat.bind (rawRead_sat k s hk) ?_
  rintro ⟨b, s'⟩ ⟨h1, h2, h3⟩
  simp only at h1 h2 h3
  have hb : IsBytes (b ++ s'.rest) := h1 ▸ hi.1
  rw [IsBytes.append] at hb
  simp only [Res.Sat.pure]
  refine ⟨h2, hb.1, ⟨hb.2, ?_, ?_, ?_⟩, ⟨b, h1, ?_⟩, ?_⟩
  · rw [h3]; exact hi.2.1
  · exact Nat.mod_lt _ (by decide)
  · rw [h3]; exact hi.2.2.2
  · rw [h3]; simp [h2]
  · rw [h3]


theorem idx_sat (b : List Nat) (i : Nat) (h : i < b.length) : Res.Sat (fun x => x = b[i]) (idx b i) := by
  unfold idx; simp [List.getElem?_eq_getElem h]

theorem slice_sat (b : List Nat) (lo hi : Nat) (h : lo ≤ hi ∧ hi ≤ b.length) :
    Res.Sat (fun x => x = (b.drop lo).take (hi - lo)) (slice b lo hi) := by
  unfold slice; simp [h]

/-- what `decodeFileHeader` accepted: `hb` are the header bytes, `c0` the running CRC before -/
structure HdrOK (chk : Bool) (c0 : Nat) (hb : List Nat) (h : Hdr) : Prop where
  len : hb.length = h.size
  size : h.size = 12 ∨ h.size = 14
  first : hb[0]? = some h.size
  tag : (hb.drop 8).take 4 = dataTypeFIT
  dataSize : h.dataSize = le32 (hb.drop 4) ∧ h.dataSize ≠ 0
  crc : chk = true → h.size = 14 → h.crc ≠ 0 → write c0 (hb.take 12) = h.crc

theorem decodeFileHeader_sat (s : St) (hi : Inv s) :
    Res.Sat (fun s' => ∃ hb h, s.rest = hb ++ s'.rest ∧ s' = { s with rest := s'.rest, q := { s.q with hdr := h, crc16 := 0 } } ∧
      HdrOK s.o.chk s.q.crc16 hb h) (decodeFileHeader s) := by
  unfold decodeFileHeader
  refine Res.Sat.bind (rawRead_sat 1 s (by decide)) ?_
  rintro ⟨b, s1⟩ ⟨h1, h2, h3⟩
  simp only at h1 h2 h3 ⊢
  refine Res.Sat.bind (idx_sat b 0 (by omega)) ?_
  intro size hsize
  split
  · trivial
  rename_i hsz
  have hsz' : size = 12 ∨ size = 14 := by omega
  refine Res.Sat.bind (rawRead_sat (size - 1) s1 (by rcases hsz' with h | h <;> subst h <;> decide)) ?_
  rintro ⟨b2, s2⟩ ⟨g1, g2, g3⟩
  simp only at g1 g2 g3 ⊢
  refine Res.Sat.bind (slice_sat b2 7 11 (by omega)) ?_
  intro dt hdt
  split
  · trivial
  rename_i htag
  refine Res.Sat.bind (idx_sat b2 0 (by omega)) ?_
  intro pv hpv
  refine Res.Sat.bind (slice_sat b2 1 3 (by omega)) ?_
  intro prof hprof
  refine Res.Sat.bind (slice_sat b2 3 7 (by omega)) ?_
  intro ds hds
  obtain ⟨x, rfl⟩ : ∃ x, b = [x] := by
    match b, h2 with
    | [x], _ => exact ⟨x, rfl⟩
  simp only [List.getElem_cons_zero] at hsize
  subst hsize
  have e2 : s2 = { s with rest := s2.rest } := by rw [g3, h3]
  have hrest : s.rest = (size :: b2) ++ s2.rest := by rw [h1, g1]; simp
  have hlen : (size :: b2).length = size := by simp [g2]; omega
  have htag' : (List.drop 8 (size :: b2)).take 4 = dataTypeFIT := by
    have : ¬ (dt ≠ dataTypeFIT) := htag
    simp only [ne_eq, Decidable.not_not] at this
    rw [← this, hdt]; simp
  have hds' : le32 ds = le32 (List.drop 4 (size :: b2)) := by
    rw [hds]; simp [le32]
  have hc1 : s1.q.crc16 = s.q.crc16 := by rw [h3]
  have hchk : s2.o.chk = s.o.chk := by rw [e2]
  split
  · trivial
  rename_i hds0
  split
  · rename_i h14
    refine Res.Sat.bind (slice_sat b2 11 13 (by omega)) ?_
    intro crcb hcrcb
    split
    · rename_i hor
      simp only [Res.Sat.pure]
      refine ⟨size :: b2, ⟨size, pv, le16 prof, le32 ds, le16 crcb⟩, hrest, ?_, ⟨hlen, hsz', by simp, htag', ⟨hds', hds0⟩, ?_⟩⟩
      · rw [e2]
      · intro hc _ hne
        rcases hor with hor | hor
        · exact absurd hor hne
        · rw [hchk, hc] at hor; cases hor
    · refine Res.Sat.bind (slice_sat b2 0 (b2.length - 2) (by omega)) ?_
      intro body hbody
      split
      · trivial
      · rename_i hw
        simp only [Res.Sat.pure]
        refine ⟨size :: b2, ⟨size, pv, le16 prof, le32 ds, le16 crcb⟩, hrest, ?_, ⟨hlen, hsz', by simp, htag', ⟨hds', hds0⟩, ?_⟩⟩
        · rw [e2]
        · intro _ _ _
          simp only [ne_eq, Decidable.not_not] at hw
          rw [← hw, hc1, hbody]
          have : b2.length - 2 = 11 := by omega
          simp [write, this]
  · rename_i h14
    rw [Res.pure_bind]
    split
    · simp only [Res.Sat.pure]
      refine ⟨size :: b2, ⟨size, pv, le16 prof, le32 ds, le16 [0, 0]⟩, hrest, ?_, ⟨hlen, hsz', by simp, htag', ⟨hds', hds0⟩, ?_⟩⟩
      · rw [e2]
      · intro _ h14'; exact absurd h14' h14
    · rename_i hor
      exact absurd (Or.inl (by simp [le16])) hor
theorem parseFieldDefs_valid : ∀ (b : List Nat) (fs : List FieldDef), IsBytes b → parseFieldDefs b = some fs →
    ∀ f ∈ fs, btValid f.bt = true ∧ f.size < 256
  | a :: sz :: bt :: rest, fs, hb, h => by
    unfold parseFieldDefs at h
    split at h
    · cases h
    · rename_i hv
      split at h
      · rename_i fs' hfs
        cases h
        intro f hf
        rcases List.mem_cons.mp hf with rfl | hf
        · exact ⟨by simpa [validBaseType] using hv, hb sz (by simp)⟩
        · exact parseFieldDefs_valid rest fs' (fun x hx => hb x (by simp [hx])) hfs f hf
      · cases h
  | [], fs, _, h => by simp [parseFieldDefs] at h; subst h; intro f hf; cases hf
  | [_], fs, _, h => by simp [parseFieldDefs] at h; subst h; intro f hf; cases hf
  | [_, _], fs, _, h => by simp [parseFieldDefs] at h; subst h; intro f hf; cases hf

theorem parseDevDefs_valid : ∀ (b : List Nat), IsBytes b → ∀ f ∈ parseDevDefs b, f.size < 256
  | a :: sz :: i :: rest, hb => by
    intro f hf
    unfold parseDevDefs at hf
    rcases List.mem_cons.mp hf with rfl | hf
    · exact hb sz (by simp)
    · exact parseDevDefs_valid rest (fun x hx => hb x (by simp [hx])) f hf
  | [], _ => by intro f hf; simp [parseDevDefs] at hf
  | [_], _ => by intro f hf; simp [parseDevDefs] at hf
  | [_, _], _ => by intro f hf; simp [parseDevDefs] at hf

theorem IsBytes.getElem {b : List Nat} (h : IsBytes b) (i : Nat) (hi : i < b.length) : b[i] < 256 :=
  h _ (List.getElem_mem hi)

/-- what a record-level function guarantees: the invariant again, and the reading relation -/
def MsgOK (s s' : St) : Prop := Inv s' ∧ Reads s s'

theorem Reads.refl_of {s s' : St} (hc : s.q.cur < 4294967296) (h : s' = { s with look := s'.look, q := { s.q with ts := s'.q.ts, lastOff := s'.q.lastOff, acc := s'.q.acc, msgs := s'.q.msgs, fileId := s'.q.fileId, crc := s'.q.crc } }) : Reads s s' := by
  refine ⟨[], ?_, ?_, ?_, ?_, ?_, ?_, ?_⟩ <;> rw [h] <;> simp [write]
  omega

theorem localNum_lt (header : Nat) : header &&& localMesgNumMask < 16 := by
  have := @Nat.and_le_right header localMesgNumMask
  simp only [localMesgNumMask] at *; omega

theorem decodeDefinition_sat (header : Nat) (s : St) (hi : Inv s) :
    Res.Sat (fun (p : St × Option Event) => MsgOK s p.1) (decodeDefinition header s) := by
  unfold decodeDefinition
  refine Res.Sat.bind (readN_sat 5 s (by decide) hi) ?_
  rintro ⟨b, s1⟩ ⟨h1, hb1, i1, r1, l1⟩
  simp only at h1 hb1 i1 r1 l1 ⊢
  split
  · rename_i h; exact absurd (localNum_lt header) (by omega)
  refine Res.Sat.bind (idx_sat b 0 (by omega)) ?_
  intro reserved _
  refine Res.Sat.bind (idx_sat b 1 (by omega)) ?_
  intro arch _
  refine Res.Sat.bind (slice_sat b 2 4 (by omega)) ?_
  intro mn _
  refine Res.Sat.bind (idx_sat b 4 (by omega)) ?_
  intro n hn
  have hn256 : n < 256 := hn ▸ hb1.getElem 4 (by omega)
  refine Res.Sat.bind (readN_sat (n * 3) s1 (by simp [reservedbuf]; omega) i1) ?_
  rintro ⟨fb, s2⟩ ⟨h2, hb2, i2, r2, l2⟩
  simp only at h2 hb2 i2 r2 l2 ⊢
  split
  · trivial
  rename_i fields hfields
  have hv := parseFieldDefs_valid fb fields hb2 hfields
  have r12 : Reads s s2 := r1.trans r2
  refine Res.Sat.bind (P := fun (p : List DevDef × St) => Inv p.2 ∧ Reads s p.2 ∧ p.2.look = s.look ∧ ∀ f ∈ p.1, f.size < 256) ?_ ?_
  · split
    · refine Res.Sat.bind (readN_sat 1 s2 (by decide) i2) ?_
      rintro ⟨nb, s3⟩ ⟨h3, hb3, i3, r3, l3⟩
      simp only at h3 hb3 i3 r3 l3 ⊢
      refine Res.Sat.bind (idx_sat nb 0 (by omega)) ?_
      intro k hk
      have hk256 : k < 256 := hk ▸ hb3.getElem 0 (by omega)
      refine Res.Sat.bind (readN_sat (k * 3) s3 (by simp [reservedbuf]; omega) i3) ?_
      rintro ⟨db, s4⟩ ⟨h4, hb4, i4, r4, l4⟩
      simp only at h4 hb4 i4 r4 l4 ⊢
      simp only [Res.Sat.pure]
      exact ⟨i4, (r12.trans r3).trans r4, by rw [l4, l3, l2, l1], parseDevDefs_valid db hb4⟩
    · simp only [Res.Sat.pure]
      exact ⟨i2, r12, by rw [l2, l1], by intro f hf; cases hf⟩
  · rintro ⟨devs, s5⟩ ⟨i5, r5, l5, hd5⟩
    simp only at i5 r5 l5 hd5 ⊢
    simp only [Res.Sat.pure]
    refine ⟨⟨i5.1, ?_, i5.2.2.1, i5.2.2.2⟩, ?_⟩
    · intro p hp
      simp only at hp
      rcases List.mem_cons.mp hp with rfl | hp
      · exact ⟨hv, hd5⟩
      · exact i5.2.1 p hp
    · refine r5.trans (Reads.refl_of i5.2.2.1 ?_)
      rfl
/-- `s'` differs from `s` only in fields the framing does not look at -/
def Quiet (s s' : St) : Prop :=
  s'.o = s.o ∧ s'.rest = s.rest ∧ s'.look.defs = s.look.defs ∧ s'.q.cur = s.q.cur ∧ s'.q.crc16 = s.q.crc16 ∧
    s'.q.hdr = s.q.hdr ∧ s'.q.hdrDone = s.q.hdrDone ∧ s'.q.err = s.q.err

theorem Quiet.inv {s s' : St} (h : Quiet s s') (hi : Inv s) : Inv s' := by
  obtain ⟨h1, h2, h3, h4, _⟩ := h
  refine ⟨h2 ▸ hi.1, ?_, h4 ▸ hi.2.2.1, h1 ▸ hi.2.2.2⟩
  intro p hp; exact hi.2.1 p (h3 ▸ hp)

theorem Quiet.reads {a s s' : St} (h : Quiet s s') (hr : Reads a s) : Reads a s' := by
  obtain ⟨c, r1, r2, r3, r4, r5, r6, r7⟩ := hr
  obtain ⟨h1, h2, _, h4, h5, h6, h7, h8⟩ := h
  exact ⟨c, by rw [h2, r1], by rw [h4, r2], by rw [h5, r3], by rw [h1, r4], by rw [h6, r5], by rw [h7, r6], by rw [h8, r7]⟩

theorem Quiet.msgOK {a s s' : St} (h : Quiet s s') (hm : MsgOK a s) : MsgOK a s' := ⟨h.inv hm.1, h.reads hm.2⟩

theorem Quiet.refl (s : St) : Quiet s s := ⟨rfl, rfl, rfl, rfl, rfl, rfl, rfl, rfl⟩

theorem Quiet.trans {a b c : St} (h1 : Quiet a b) (h2 : Quiet b c) : Quiet a c := by
  obtain ⟨a1, a2, a3, a4, a5, a6, a7, a8⟩ := h1
  obtain ⟨b1, b2, b3, b4, b5, b6, b7, b8⟩ := h2
  exact ⟨b1.trans a1, b2.trans a2, b3.trans a3, b4.trans a4, b5.trans a5, b6.trans a6, b7.trans a7, b8.trans a8⟩

theorem noteTs_quiet (num : Nat) (v : Value) (s : St) : Quiet s (noteTs num v s) := by
  unfold noteTs; split
  · split
    · exact ⟨rfl, rfl, rfl, rfl, rfl, rfl, rfl, rfl⟩
    · exact Quiet.refl s
  · exact Quiet.refl s

theorem noteTs_look (num : Nat) (v : Value) (s : St) : (noteTs num v s).look = s.look := by
  unfold noteTs; split
  · split <;> rfl
  · rfl

theorem noteAcc_quiet (a : Bool) (m n : Nat) (v : Value) (s : St) : Quiet s (noteAcc a m n v s) := by
  unfold noteAcc; split
  · exact ⟨rfl, rfl, rfl, rfl, rfl, rfl, rfl, rfl⟩
  · exact Quiet.refl s

theorem noteAcc_look (a : Bool) (m n : Nat) (v : Value) (s : St) : (noteAcc a m n v s).look = s.look := by
  unfold noteAcc; split <;> rfl

theorem readValue_sat (size arch bt : Nat) (isBool isArray ov : Bool) (s : St) (hi : Inv s) (hs : size < 256)
    (hnp : isArray = true ∨ bt = btString ∨ btSize bt ≤ size) :
    Res.Sat (fun (p : Value × St) => MsgOK s p.2 ∧ p.2.look = s.look) (readValue size arch bt isBool isArray ov s) := by
  unfold readValue
  refine Res.Sat.bind (readN_sat size s (by simp [reservedbuf]; omega) hi) ?_
  rintro ⟨b, s1⟩ ⟨h1, hb1, i1, r1, l1⟩
  simp only at h1 hb1 i1 r1 l1 ⊢
  have hne := Fit.C06.C06_unmarshal_no_panic b arch bt isBool
    (if ov = true ∧ bt = btString then decide (strcount b > 1) else isArray) (by
      split
      · rename_i h; exact Or.inr (Or.inl h.2)
      · rcases hnp with h | h | h
        · exact Or.inl h
        · exact Or.inr (Or.inl h)
        · exact Or.inr (Or.inr (by omega)))
  split
  · simp only [Res.Sat.pure]; exact ⟨⟨i1, r1⟩, l1⟩
  · trivial
  · rename_i h; exact absurd h hne

theorem modP_sat (a m : Nat) (h : m ≠ 0) : Res.Sat (fun r => r = a % m) (modP a m) := by
  unfold modP; simp [h]

theorem btValid_pos {bt : Nat} (h : btValid bt = true) : btSize bt ≠ 0 := by
  simp [btValid] at h; omega

theorem arrTest_sat (size bt : Nat) (h : btValid bt = true) :
    Res.Sat (fun (_ : Bool) => True)
      (if size > btSize bt then do let r ← modP size (btSize bt); pure (decide (r = 0)) else pure false : Res Bool) := by
  split
  · refine Res.Sat.bind (modP_sat _ _ (btValid_pos h)) ?_
    intro r _; simp
  · simp

theorem fieldShape_sat (info : FieldInfo) (fd : FieldDef) (h : btValid fd.bt = true) :
    Res.Sat (fun _ => True) (fieldShape info fd) := by
  unfold fieldShape
  split
  · simp
  · dsimp only
    exact Res.Sat.bind (arrTest_sat _ _ h) (by intro _ _; simp)

theorem readShape_np (size bt : Nat) (isBool isArray : Bool) :
    (readShape size bt isBool isArray).2.2 = true ∨ (readShape size bt isBool isArray).1 = btString ∨
      btSize (readShape size bt isBool isArray).1 ≤ size := by
  unfold readShape
  split
  · exact Or.inl rfl
  · exact Or.inr (Or.inr (by simp only; omega))

theorem decodeField_sat (d : MesgDef) (fd : FieldDef) (s : St) (hi : Inv s) (hfd : btValid fd.bt = true ∧ fd.size < 256) :
    Res.Sat (fun (p : Option DField × St) => MsgOK s p.2 ∧ p.2.look = s.look) (decodeField d fd s) := by
  unfold decodeField
  refine Res.Sat.bind (fieldShape_sat _ _ hfd.1) ?_
  rintro ⟨bt, isBoolF, arrayF, ov⟩ _
  simp only
  split
  · simp only [Res.Sat.pure]
    exact ⟨⟨hi, Reads.refl_of hi.2.2.1 rfl⟩, trivial⟩
  · refine Res.Sat.bind (readValue_sat _ _ _ _ _ _ s hi hfd.2 (readShape_np _ _ _ _)) ?_
    rintro ⟨v, s1⟩ ⟨m1, l1⟩
    simp only at m1 l1 ⊢
    simp only [Res.Sat.pure]
    exact ⟨((noteTs_quiet _ _ _).trans (noteAcc_quiet _ _ _ _ _)).msgOK m1, by rw [noteAcc_look, noteTs_look, l1]⟩

theorem MsgOK.trans {a b c : St} (h1 : MsgOK a b) (h2 : MsgOK b c) : MsgOK a c := ⟨h2.1, h1.2.trans h2.2⟩

theorem decodeFields_sat (d : MesgDef) : ∀ (fds : List FieldDef) (acc : List DField) (s : St), Inv s →
    (∀ f ∈ fds, btValid f.bt = true ∧ f.size < 256) →
    Res.Sat (fun (p : List DField × St) => MsgOK s p.2 ∧ p.2.look = s.look) (decodeFields d fds acc s)
  | [], acc, s, hi, _ => by
    unfold decodeFields
    exact ⟨⟨hi, Reads.refl_of hi.2.2.1 rfl⟩, rfl⟩
  | fd :: fds, acc, s, hi, hf => by
    unfold decodeFields
    refine Res.Sat.bind (decodeField_sat d fd s hi (hf fd (by simp))) ?_
    rintro ⟨f, s1⟩ ⟨m1, l1⟩
    simp only at m1 l1 ⊢
    refine Res.Sat.mono (decodeFields_sat d fds _ s1 m1.1 (fun f hf' => hf f (by simp [hf']))) ?_
    rintro ⟨fs, s2⟩ ⟨m2, l2⟩
    exact ⟨m1.trans m2, l2.trans l1⟩
theorem Reads.len {s s' : St} (h : Reads s s') : s'.rest.length ≤ s.rest.length := by
  obtain ⟨c, r1, _⟩ := h
  rw [r1, List.length_append]; omega

theorem decodeDevField_sat (d : MesgDef) (dd : DevDef) (fdsc : Desc) (s : St) (hi : Inv s) (hdd : dd.size < 256) :
    Res.Sat (fun (p : Option DDev × St) => MsgOK s p.2 ∧ p.2.look = s.look) (decodeDevField d dd fdsc s) := by
  unfold decodeDevField
  split
  · trivial
  rename_i hv
  have hv' : btValid fdsc.bt = true := by simpa [validBaseType] using hv
  dsimp only
  refine Res.Sat.bind (arrTest_sat _ _ hv') ?_
  intro arr _
  split
  · simp only [Res.Sat.pure]
    exact ⟨⟨hi, Reads.refl_of hi.2.2.1 rfl⟩, trivial⟩
  · refine Res.Sat.bind (readValue_sat _ _ _ _ _ _ s hi hdd (readShape_np _ _ _ _)) ?_
    rintro ⟨v, s1⟩ ⟨m1, l1⟩
    simp only at m1 l1 ⊢
    simp only [Res.Sat.pure]
    exact ⟨m1, l1⟩

theorem decodeDevFields_sat (d : MesgDef) : ∀ (dds : List DevDef) (acc : List DDev) (s : St), Inv s →
    (∀ f ∈ dds, f.size < 256) →
    Res.Sat (fun (p : List DDev × St) => MsgOK s p.2 ∧ p.2.look = s.look) (decodeDevFields d dds acc s)
  | [], acc, s, hi, _ => by
    unfold decodeDevFields
    exact ⟨⟨hi, Reads.refl_of hi.2.2.1 rfl⟩, rfl⟩
  | dd :: dds, acc, s, hi, hf => by
    unfold decodeDevFields
    split
    · refine Res.Sat.bind (readN_sat dd.size s (by have := hf dd (by simp); simp [reservedbuf]; omega) hi) ?_
      rintro ⟨b, s1⟩ ⟨_, _, i1, r1, l1⟩
      simp only at i1 r1 l1 ⊢
      refine Res.Sat.mono (decodeDevFields_sat d dds _ s1 i1 (fun f hf' => hf f (by simp [hf']))) ?_
      rintro ⟨fs, s2⟩ ⟨m2, l2⟩
      exact ⟨MsgOK.trans ⟨i1, r1⟩ m2, l2.trans l1⟩
    · refine Res.Sat.bind (decodeDevField_sat d dd _ s hi (hf dd (by simp))) ?_
      rintro ⟨f, s1⟩ ⟨m1, l1⟩
      simp only at m1 l1 ⊢
      refine Res.Sat.mono (decodeDevFields_sat d dds _ s1 m1.1 (fun f hf' => hf f (by simp [hf']))) ?_
      rintro ⟨fs, s2⟩ ⟨m2, l2⟩
      exact ⟨m1.trans m2, l2.trans l1⟩

theorem compressedTs_quiet (header : Nat) (d : MesgDef) (s : St) : Quiet s (compressedTs header d s).1 :=
  ⟨rfl, rfl, rfl, rfl, rfl, rfl, rfl, rfl⟩

theorem noteMesg_quiet (mesgNum : Nat) (fields : List DField) (s : St) : Quiet s (noteMesg mesgNum fields s) := by
  unfold noteMesg
  dsimp only
  split <;> split <;> (try split) <;> exact ⟨rfl, rfl, rfl, rfl, rfl, rfl, rfl, rfl⟩

theorem pushMsg_quiet (m : Msg) (s : St) : Quiet s (pushMsg m s) := by
  unfold pushMsg; split <;> exact ⟨rfl, rfl, rfl, rfl, rfl, rfl, rfl, rfl⟩

theorem lookup_ok (l : Look) (h : DefsOK l) (i : Nat) (d : MesgDef) (hd : l.lookup i = some d) : DefOK d := by
  unfold Look.lookup at hd
  cases hf : l.defs.find? (fun x => x.1 == i) with
  | none => simp [hf] at hd
  | some p =>
    simp [hf] at hd
    subst hd
    exact h p (List.mem_of_find?_eq_some hf)

theorem decodeData_sat (header : Nat) (s : St) (hi : Inv s) :
    Res.Sat (fun (p : St × Option Event) => MsgOK s p.1) (decodeData header s) := by
  unfold decodeData
  dsimp only
  split
  · trivial
  rename_i d hd
  have hdok := lookup_ok s.look hi.2.1 _ d hd
  refine Res.Sat.bind (P := fun (p : List DField × St) => MsgOK s p.2) ?_ ?_
  · split
    · have hq := compressedTs_quiet header d s
      refine Res.Sat.mono (decodeFields_sat d d.fields _ _ (hq.inv hi) hdok.1) ?_
      rintro ⟨fs, s2⟩ ⟨m2, _⟩
      exact MsgOK.trans ⟨hq.inv hi, hq.reads (Reads.refl_of hi.2.2.1 rfl)⟩ m2
    · refine Res.Sat.mono (decodeFields_sat d d.fields _ _ hi hdok.1) ?_
      rintro ⟨fs, s2⟩ ⟨m2, _⟩
      exact m2
  · rintro ⟨fields0, s0⟩ m0
    simp only at m0 ⊢
    -- component expansion: never out of fuel (the factory's components are acyclic), touches the accumulator only
    refine Res.Sat.bind (P := fun (p : List DField × St) => MsgOK s p.2) ?_ ?_
    · split
      · have hsome := expandAll_some s0.o.fac m0.1.2.2.2 d.mesgNum fields0.length 0 (fields0, s0.q.acc)
        cases hx : expandAll s0.o.fac d.mesgNum fields0.length 0 (fields0, s0.q.acc) with
        | none => rw [hx] at hsome; cases hsome
        | some st =>
          simp only [Res.Sat.pure]
          exact Quiet.msgOK ⟨rfl, rfl, rfl, rfl, rfl, rfl, rfl, rfl⟩ m0
      · simpa using m0
    rintro ⟨fields, s1⟩ m1
    simp only at m1 ⊢
    have m1' := (noteMesg_quiet d.mesgNum fields s1).msgOK m1
    refine Res.Sat.bind (P := fun (p : List DDev × St) => MsgOK s p.2) ?_ ?_
    · split
      · simpa using m1'
      · refine Res.Sat.mono (decodeDevFields_sat d d.devs [] _ m1'.1 hdok.2) ?_
        rintro ⟨ds, s2⟩ ⟨m2, _⟩
        exact m1'.trans m2
    · rintro ⟨devs, s2⟩ m2
      simp only at m2 ⊢
      simp only [Res.Sat.pure]
      exact (pushMsg_quiet _ _).msgOK m2

theorem readN_rest (k : Nat) (s : St) (b : List Nat) (s' : St) (h : readN k s = .ok (b, s')) :
    s.rest = b ++ s'.rest ∧ b.length = k := by
  unfold readN rawRead at h
  split at h
  · cases h
  · split at h
    · rename_i hn
      rw [hasN_iff] at hn
      simp only [Bind.bind, Res.bind, Pure.pure] at h
      cases h
      simp [hn]
    · cases h

theorem decodeMessage_sat (s : St) (hi : Inv s) :
    Res.Sat (fun (p : St × Option Event) => MsgOK s p.1 ∧ p.1.rest.length < s.rest.length) (decodeMessage s) := by
  unfold decodeMessage
  cases hr : readN 1 s with
  | err e => trivial
  | panic => have := readN_sat 1 s (by decide) hi; rw [hr] at this; exact this
  | hang => have := readN_sat 1 s (by decide) hi; rw [hr] at this; exact this
  | ok p =>
  obtain ⟨b, s1⟩ := p
  have := readN_sat 1 s (by decide) hi
  rw [hr] at this
  obtain ⟨h1, _, i1, r1, _⟩ := this
  simp only at h1 i1 r1
  have hlt : s1.rest.length < s.rest.length := by
    have := readN_rest 1 s b s1 hr
    rw [this.1, List.length_append]; omega
  show Res.Sat _ (Res.bind (Res.ok (b, s1)) _)
  simp only [Res.bind]
  refine Res.Sat.bind (idx_sat b 0 (by omega)) ?_
  intro header _
  split
  · refine Res.Sat.mono (decodeDefinition_sat header s1 i1) ?_
    rintro ⟨s2, ev⟩ m2
    exact ⟨MsgOK.trans ⟨i1, r1⟩ m2, by have := m2.2.len; simp only at this ⊢; omega⟩
  · refine Res.Sat.mono (decodeData_sat header s1 i1) ?_
    rintro ⟨s2, ev⟩ m2
    exact ⟨MsgOK.trans ⟨i1, r1⟩ m2, by have := m2.2.len; simp only at this ⊢; omega⟩
/-- how a record loop may end: normally or with an error — never with a panic, never out of fuel -/
def Ended : Res Unit → Prop
  | .ok _ => True
  | .err _ => True
  | .panic => False
  | .hang => False

theorem Reads.refl (s : St) (h : s.q.cur < 4294967296) : Reads s s := Reads.refl_of h rfl

theorem decodeMessages_sat : ∀ (fuel : Nat) (s : St), Inv s → s.rest.length < fuel →
    Ended (decodeMessages fuel s).2.2 ∧ Inv (decodeMessages fuel s).1 ∧ Reads s (decodeMessages fuel s).1 ∧
      ((decodeMessages fuel s).2.2 = .ok () → ¬ (decodeMessages fuel s).1.q.cur < (decodeMessages fuel s).1.q.hdr.dataSize)
  | 0, s, _, hf => by omega
  | fuel + 1, s, hi, hf => by
    unfold decodeMessages
    split
    · have hm := decodeMessage_sat s hi
      split
      · rename_i s' ev heq
        rw [heq] at hm
        obtain ⟨m1, hlt⟩ := hm
        simp only at m1 hlt
        have ih := decodeMessages_sat fuel s' m1.1 (by omega)
        refine ⟨ih.1, ih.2.1, m1.2.trans ih.2.2.1, ih.2.2.2⟩
      · rename_i r hne
        cases hr : decodeMessage s with
        | ok p => exact absurd hr (by intro h; exact hne p.1 p.2 h)
        | err e => simp [loopFail, Ended, hi, Reads.refl s hi.2.2.1]
        | panic => rw [hr] at hm; exact hm.elim
        | hang => rw [hr] at hm; exact hm.elim
    · rename_i hc
      exact ⟨trivial, hi, Reads.refl s hi.2.2.1, fun _ => hc⟩

theorem decodeMessagesCtx_sat : ∀ (fuel k : Nat) (s : St), Inv s → s.rest.length < fuel →
    Ended (decodeMessagesCtx fuel k s).2.2 ∧ Inv (decodeMessagesCtx fuel k s).1 ∧ Reads s (decodeMessagesCtx fuel k s).1 ∧
      ((decodeMessagesCtx fuel k s).2.2 = .ok () → ¬ (decodeMessagesCtx fuel k s).1.q.cur < (decodeMessagesCtx fuel k s).1.q.hdr.dataSize)
  | fuel, 0, s, hi, _ => by
    unfold decodeMessagesCtx
    exact ⟨trivial, hi, Reads.refl s hi.2.2.1, by intro h; cases h⟩
  | 0, k + 1, s, _, hf => by omega
  | fuel + 1, k + 1, s, hi, hf => by
    unfold decodeMessagesCtx
    split
    · have hm := decodeMessage_sat s hi
      split
      · rename_i s' ev heq
        rw [heq] at hm
        obtain ⟨m1, hlt⟩ := hm
        simp only at m1 hlt
        have ih := decodeMessagesCtx_sat fuel k s' m1.1 (by omega)
        refine ⟨ih.1, ih.2.1, m1.2.trans ih.2.2.1, ih.2.2.2⟩
      · rename_i r hne
        cases hr : decodeMessage s with
        | ok p => exact absurd hr (by intro h; exact hne p.1 p.2 h)
        | err e => simp [loopFail, Ended, hi, Reads.refl s hi.2.2.1]
        | panic => rw [hr] at hm; exact hm.elim
        | hang => rw [hr] at hm; exact hm.elim
    · rename_i hc
      exact ⟨trivial, hi, Reads.refl s hi.2.2.1, fun _ => hc⟩

/-- a context cancelled during the call changes the record loop in one way only: it ends it with the context error -/
theorem decodeMessagesCtx_cases : ∀ (fuel k : Nat) (s : St),
    decodeMessagesCtx fuel k s = decodeMessages fuel s ∨ (decodeMessagesCtx fuel k s).2.2 = .err .ctx
  | fuel, 0, s => by
    right; unfold decodeMessagesCtx; rfl
  | 0, k + 1, s => by
    left; unfold decodeMessagesCtx decodeMessages; rfl
  | fuel + 1, k + 1, s => by
    unfold decodeMessagesCtx decodeMessages
    split
    · cases hr : decodeMessage s with
      | ok p =>
        obtain ⟨s', ev⟩ := p
        simp only
        rcases decodeMessagesCtx_cases fuel k s' with h | h
        · left; rw [h]
        · right; exact h
      | err e => left; rfl
      | panic => left; rfl
      | hang => left; rfl
    · left; rfl

theorem peekLoop_sat : ∀ (fuel : Nat) (s : St), Inv s → s.rest.length < fuel →
    Ended (peekLoop fuel s).2.2 ∧ Inv (peekLoop fuel s).1 ∧ Reads s (peekLoop fuel s).1 ∧
      ((peekLoop fuel s).2.2 = .ok () →
        ¬ ((peekLoop fuel s).1.q.fileId.isNone ∧ (peekLoop fuel s).1.q.cur < (peekLoop fuel s).1.q.hdr.dataSize))
  | 0, s, _, hf => by omega
  | fuel + 1, s, hi, hf => by
    unfold peekLoop
    split
    · have hm := decodeMessage_sat s hi
      split
      · rename_i s' ev heq
        rw [heq] at hm
        obtain ⟨m1, hlt⟩ := hm
        simp only at m1 hlt
        have ih := peekLoop_sat fuel s' m1.1 (by omega)
        refine ⟨ih.1, ih.2.1, m1.2.trans ih.2.2.1, ih.2.2.2⟩
      · rename_i r hne
        cases hr : decodeMessage s with
        | ok p => exact absurd hr (by intro h; exact hne p.1 p.2 h)
        | err e => simp [loopFail, Ended, hi, Reads.refl s hi.2.2.1]
        | panic => rw [hr] at hm; exact hm.elim
        | hang => rw [hr] at hm; exact hm.elim
    · rename_i hc
      exact ⟨trivial, hi, Reads.refl s hi.2.2.1, fun _ => hc⟩

theorem discardMessages_sat : ∀ (fuel : Nat) (s : St), Inv s → s.rest.length < fuel →
    Res.Sat (fun s' => Inv s' ∧ Reads s s' ∧ s'.look = s.look ∧ ¬ s'.q.cur < s'.q.hdr.dataSize) (discardMessages fuel s)
  | 0, s, _, hf => by omega
  | fuel + 1, s, hi, hf => by
    unfold discardMessages
    split
    · rename_i hc
      dsimp only
      cases hr : readN (min (s.q.hdr.dataSize - s.q.cur) reservedbuf) s with
      | err e => trivial
      | panic => have := readN_sat (min (s.q.hdr.dataSize - s.q.cur) reservedbuf) s (Nat.min_le_right _ _) hi; rw [hr] at this; exact this
      | hang => have := readN_sat (min (s.q.hdr.dataSize - s.q.cur) reservedbuf) s (Nat.min_le_right _ _) hi; rw [hr] at this; exact this
      | ok p =>
        obtain ⟨b, s1⟩ := p
        have h := readN_sat (min (s.q.hdr.dataSize - s.q.cur) reservedbuf) s (Nat.min_le_right _ _) hi
        rw [hr] at h
        obtain ⟨h1, _, i1, r1, l1⟩ := h
        simp only at h1 i1 r1 l1
        have hrest := readN_rest _ s b s1 hr
        have hlt : s1.rest.length < s.rest.length := by
          rw [hrest.1, List.length_append, hrest.2]
          have : 0 < min (s.q.hdr.dataSize - s.q.cur) reservedbuf := by
            simp only [reservedbuf]; omega
          omega
        show Res.Sat _ (Res.bind (Res.ok (b, s1)) _)
        simp only [Res.bind]
        refine Res.Sat.mono (discardMessages_sat fuel s1 i1 (by omega)) ?_
        rintro s2 ⟨i2, r2, l2, c2⟩
        exact ⟨i2, r1.trans r2, l2.trans l1, c2⟩
    · rename_i hc
      exact ⟨hi, Reads.refl s hi.2.2.1, rfl, hc⟩

theorem decodeCRC_sat (s : St) (hi : Inv s) :
    Res.Sat (fun s' => ∃ c0 c1, s.rest = [c0, c1] ++ s'.rest ∧
      s' = { s with rest := s'.rest, q := { s.q with crc := c0 + 256 * c1, crc16 := 0 } } ∧
      (s.o.chk = true → s.q.crc16 = c0 + 256 * c1)) (decodeCRC s) := by
  unfold decodeCRC
  refine Res.Sat.bind (rawRead_sat 2 s (by decide)) ?_
  rintro ⟨b, s1⟩ ⟨h1, h2, h3⟩
  simp only at h1 h2 h3 ⊢
  obtain ⟨c0, c1, rfl⟩ : ∃ c0 c1, b = [c0, c1] := by
    match b, h2 with
    | [x, y], _ => exact ⟨x, y, rfl⟩
  refine Res.Sat.bind (idx_sat _ 0 (by simp)) ?_
  intro lo hlo
  refine Res.Sat.bind (idx_sat _ 1 (by simp)) ?_
  intro hi' hhi
  simp only [List.getElem_cons_zero, List.getElem_cons_succ] at hlo hhi
  subst hlo hhi
  have hchk : s1.o.chk = s.o.chk := by rw [h3]
  have hcrc : s1.q.crc16 = s.q.crc16 := by rw [h3]
  split
  · trivial
  · rename_i hne
    simp only [Res.Sat.pure]
    refine ⟨lo, hi', h1, ?_, ?_⟩
    · rw [h3]
    · intro hc
      simp only [hchk, hc, hcrc, true_and, ne_eq, Decidable.not_not] at hne
      exact hne

theorem headerOnce_sat (s : St) (hi : Inv s) (he : s.q.err = none) :
    Res.Sat (fun s' => Inv s' ∧ s'.o = s.o ∧ s'.look = s.look ∧ s'.q.hdrDone = true ∧ s'.q.err = none ∧
      s'.rest.length ≤ s.rest.length) (headerOnce s) := by
  unfold headerOnce
  split
  · rename_i hd
    simp only [he]
    exact ⟨hi, rfl, rfl, hd, he, Nat.le_refl _⟩
  · have h := decodeFileHeader_sat s hi
    cases hr : decodeFileHeader s with
    | err e => trivial
    | panic => rw [hr] at h; exact h
    | hang => rw [hr] at h; exact h
    | ok s' =>
      rw [hr] at h
      obtain ⟨hb, hd, h1, h2, _⟩ := h
      simp only [Res.Sat.ok]
      have hi' : Inv s' := by
        rw [h2]
        refine ⟨?_, hi.2.1, hi.2.2.1, hi.2.2.2⟩
        have : IsBytes (hb ++ s'.rest) := h1 ▸ hi.1
        exact (IsBytes.append.mp this).2
      refine ⟨⟨hi'.1, hi'.2.1, hi'.2.2⟩, ?_, ?_, ?_, ?_, ?_⟩
      · rw [h2]
      · rw [h2]
      · trivial
      · show s'.q.err = none
        rw [h2]; exact he
      · show s'.rest.length ≤ s.rest.length
        rw [h1, List.length_append]; omega
/-- an API step neither panics nor hangs and leaves a state that satisfies the invariant -/
def StepGood (r : StepOut) : Prop :=
  r.2.1 ≠ .panic ∧ r.2.1 ≠ .hang ∧ Inv r.1 ∧ ∀ e, r.2.1 = .err e → r.1.q.err = some e

theorem Inv.setQ {s : St} (hi : Inv s) (q : Seq) (hq : q.cur < 4294967296) : Inv { s with q := q } :=
  ⟨hi.1, hi.2.1, hq, hi.2.2.2⟩

theorem fail_good {α} {P : α → Prop} (s : St) (r : Res α) (hi : Inv s) (h : Res.Sat P r) (hne : ∀ a, r ≠ .ok a) :
    (fail s r).2 ≠ .panic ∧ (fail s r).2 ≠ .hang ∧ Inv (fail s r).1 ∧ ∀ e, (fail s r).2 = .err e → (fail s r).1.q.err = some e := by
  cases r with
  | ok a => exact absurd rfl (hne a)
  | err e => exact ⟨by simp [fail], by simp [fail], hi.setQ _ hi.2.2.1, by intro e' h; simp only [fail, Out.err.injEq] at h; subst h; rfl⟩
  | panic => exact h.elim
  | hang => exact h.elim

theorem failHeader_good {α} {P : α → Prop} (s : St) (r : Res α) (hi : Inv s) (h : Res.Sat P r) (hne : ∀ a, r ≠ .ok a) :
    StepGood (failHeader s r) := by
  unfold failHeader StepGood
  exact fail_good _ r (hi.setQ _ hi.2.2.1) h hne

theorem DefsOK.empty : DefsOK {} := by intro p hp; cases hp

theorem Inv.resetSeq {s : St} (hi : Inv s) : Inv (resetSeq s) := ⟨hi.1, DefsOK.empty, (by decide : (0 : Nat) < 4294967296), hi.2.2.2⟩
theorem Inv.release {s : St} (hi : Inv s) : Inv (release s) := ⟨hi.1, DefsOK.empty, hi.2.2.1, hi.2.2.2⟩

theorem decodeBody_good (s : St) (hi : Inv s) (he : s.q.err = none) : StepGood (decodeBody s) := by
  unfold decodeBody
  have hh := headerOnce_sat s hi he
  cases hr : headerOnce s with
  | err e => exact failHeader_good s _ hi (P := fun _ => True) trivial (by intro a h; cases h)
  | panic => rw [hr] at hh; exact hh.elim
  | hang => rw [hr] at hh; exact hh.elim
  | ok s1 =>
    rw [hr] at hh
    obtain ⟨i1, _⟩ := hh
    simp only
    have hm := decodeMessages_sat (fuelOf s1) s1 i1 (by simp [fuelOf])
    rcases hd : decodeMessages (fuelOf s1) s1 with ⟨s2, evs, r⟩
    rw [hd] at hm
    obtain ⟨hend, i2, _, _⟩ := hm
    simp only at hend i2
    cases r with
    | ok u =>
      simp only
      have hc := decodeCRC_sat s2 i2
      cases hcr : decodeCRC s2 with
      | ok s3 =>
        rw [hcr] at hc
        obtain ⟨c0, c1, h1, h2, _⟩ := hc
        refine ⟨by simp, by simp, ?_, by intro e h; cases h⟩
        simp only
        refine Inv.release (Inv.resetSeq ?_)
        rw [h2]
        have : IsBytes ([c0, c1] ++ s3.rest) := h1 ▸ i2.1
        exact ⟨(IsBytes.append.mp this).2, i2.2.1, i2.2.2.1, i2.2.2.2⟩
      | err e =>
        have := fail_good s2 (Res.err e : Res St) i2 (P := fun _ => True) trivial (by intro a h; cases h)
        exact ⟨this.1, this.2.1, Inv.release this.2.2.1, this.2.2.2⟩
      | panic => rw [hcr] at hc; exact hc.elim
      | hang => rw [hcr] at hc; exact hc.elim
    | err e =>
      have := fail_good s2 (Res.err e : Res Unit) i2 (P := fun _ => True) trivial (by intro a h; cases h)
      exact ⟨this.1, this.2.1, Inv.release this.2.2.1, this.2.2.2⟩
    | panic => exact hend.elim
    | hang => exact hend.elim


theorem decodeTail_good (l : LoopOut) (hend : Ended l.2.2) (i2 : Inv l.1) : StepGood (decodeTail l) := by
  obtain ⟨s2, evs, r⟩ := l
  simp only at hend i2
  unfold decodeTail
  cases r with
  | ok u =>
    simp only
    have hc := decodeCRC_sat s2 i2
    cases hcr : decodeCRC s2 with
    | ok s3 =>
      rw [hcr] at hc
      obtain ⟨c0, c1, h1, h2, _⟩ := hc
      refine ⟨by simp, by simp, ?_, by intro e h; cases h⟩
      simp only
      refine Inv.release (Inv.resetSeq ?_)
      rw [h2]
      have : IsBytes ([c0, c1] ++ s3.rest) := h1 ▸ i2.1
      exact ⟨(IsBytes.append.mp this).2, i2.2.1, i2.2.2.1, i2.2.2.2⟩
    | err e =>
      have := fail_good s2 (Res.err e : Res St) i2 (P := fun _ => True) trivial (by intro a h; cases h)
      exact ⟨this.1, this.2.1, Inv.release this.2.2.1, this.2.2.2⟩
    | panic => rw [hcr] at hc; exact hc.elim
    | hang => rw [hcr] at hc; exact hc.elim
  | err e =>
    have := fail_good s2 (Res.err e : Res Unit) i2 (P := fun _ => True) trivial (by intro a h; cases h)
    exact ⟨this.1, this.2.1, Inv.release this.2.2.1, this.2.2.2⟩
  | panic => exact hend.elim
  | hang => exact hend.elim

theorem decodeBodyAt_good (k : Nat) (s : St) (hi : Inv s) (he : s.q.err = none) : StepGood (decodeBodyAt k s) := by
  unfold decodeBodyAt
  have hh := headerOnce_sat s hi he
  cases hr : headerOnce s with
  | err e => exact failHeader_good s _ hi (P := fun _ => True) trivial (by intro a h; cases h)
  | panic => rw [hr] at hh; exact hh.elim
  | hang => rw [hr] at hh; exact hh.elim
  | ok s1 =>
    rw [hr] at hh
    obtain ⟨i1, _⟩ := hh
    simp only
    have hm := decodeMessagesCtx_sat (fuelOf s1) k s1 i1 (by simp [fuelOf])
    exact decodeTail_good _ hm.1 hm.2.1

theorem StepGood.sticky (s : St) (hi : Inv s) (o : Out) (ho : o ≠ .panic ∧ o ≠ .hang)
    (he : ∀ e, o = .err e → s.q.err = some e) : StepGood (s, o, []) :=
  ⟨ho.1, ho.2, hi, he⟩

theorem stepDecode_good (s : St) (hi : Inv s) : StepGood (stepDecode s) := by
  unfold stepDecode
  split
  · rename_i e0 he0
    exact StepGood.sticky s hi _ ⟨by simp, by simp⟩ (by intro e h; cases h; exact he0)
  · rename_i he; exact decodeBody_good s hi he

theorem stepDecodeCtx_good (c : Bool) (s : St) (hi : Inv s) : StepGood (stepDecodeCtx c s) := by
  unfold stepDecodeCtx
  split
  · rename_i e0 he0
    exact StepGood.sticky s hi _ ⟨by simp, by simp⟩ (by intro e h; cases h; exact he0)
  · rename_i he
    split
    · exact ⟨by simp, by simp, hi.setQ _ hi.2.2.1, by intro e h; cases h; rfl⟩
    · exact decodeBody_good s hi he

theorem stepDecodeCtxAt_good (k : Nat) (s : St) (hi : Inv s) : StepGood (stepDecodeCtxAt k s) := by
  unfold stepDecodeCtxAt
  split
  · rename_i e0 he0
    exact StepGood.sticky s hi _ ⟨by simp, by simp⟩ (by intro e h; cases h; exact he0)
  · rename_i he; exact decodeBodyAt_good k s hi he

/-- `DecodeWithContext` with a context cancelled while it runs never returns a FIT that `Decode` would not return:
whenever it returns one, the cancellation came too late to be seen and the call is `Decode` itself (state, FIT,
listener calls) -/
theorem stepDecodeCtxAt_fit (k : Nat) (s s' : St) (f : Fit) (evs : List Event)
    (h : stepDecodeCtxAt k s = (s', .fit f, evs)) : stepDecode s = (s', .fit f, evs) := by
  unfold stepDecodeCtxAt at h
  unfold stepDecode
  cases he : s.q.err with
  | some e => rw [he] at h; cases h
  | none =>
    rw [he] at h
    simp only at h ⊢
    unfold decodeBodyAt at h
    unfold decodeBody
    cases hr : headerOnce s with
    | ok s1 =>
      rw [hr] at h
      simp only at h ⊢
      rcases decodeMessagesCtx_cases (fuelOf s1) k s1 with hc | hc
      · rw [hc] at h
        exact h
      · rcases hd : decodeMessagesCtx (fuelOf s1) k s1 with ⟨s2, evs2, r⟩
        rw [hd] at hc h
        simp only at hc
        subst hc
        simp [decodeTail, fail] at h
    | err e => rw [hr] at h; simp [failHeader, fail] at h
    | panic => rw [hr] at h; simp [failHeader, fail] at h
    | hang => rw [hr] at h; simp [failHeader, fail] at h

theorem stepPeekHeader_good (s : St) (hi : Inv s) : StepGood (stepPeekHeader s) := by
  unfold stepPeekHeader
  split
  · rename_i e0 he0
    exact StepGood.sticky s hi _ ⟨by simp, by simp⟩ (by intro e h; cases h; exact he0)
  · rename_i he
    have hh := headerOnce_sat s hi he
    cases hr : headerOnce s with
    | err e => exact failHeader_good s _ hi (P := fun _ => True) trivial (by intro a h; cases h)
    | panic => rw [hr] at hh; exact hh.elim
    | hang => rw [hr] at hh; exact hh.elim
    | ok s1 => rw [hr] at hh; exact ⟨by simp, by simp, hh.1, by intro e h; cases h⟩

theorem stepPeekFileId_good (s : St) (hi : Inv s) : StepGood (stepPeekFileId s) := by
  unfold stepPeekFileId
  split
  · rename_i e0 he0
    exact StepGood.sticky s hi _ ⟨by simp, by simp⟩ (by intro e h; cases h; exact he0)
  · rename_i he
    have hh := headerOnce_sat s hi he
    cases hr : headerOnce s with
    | err e => exact failHeader_good s _ hi (P := fun _ => True) trivial (by intro a h; cases h)
    | panic => rw [hr] at hh; exact hh.elim
    | hang => rw [hr] at hh; exact hh.elim
    | ok s1 =>
      rw [hr] at hh
      simp only
      have hm := peekLoop_sat (fuelOf s1) s1 hh.1 (by simp [fuelOf])
      rcases hd : peekLoop (fuelOf s1) s1 with ⟨s2, evs, r⟩
      rw [hd] at hm
      obtain ⟨hend, i2, _, hf⟩ := hm
      simp only at hend i2 hf
      cases r with
      | ok u => exact ⟨by simp, by simp, i2, by intro e h; cases h⟩
      | err e =>
        exact fail_good s2 (Res.err e : Res Unit) i2 (P := fun _ => True) trivial (by intro a h; cases h)
      | panic => exact hend.elim
      | hang => exact hend.elim

theorem Inv.setO {s : St} (hi : Inv s) (o : Opts) (hf : o.fac = s.o.fac) : Inv { s with o := o } :=
  ⟨hi.1, hi.2.1, hi.2.2.1, by show FacOK o.fac; rw [hf]; exact hi.2.2.2⟩

theorem stepDiscard_good (s : St) (hi : Inv s) : StepGood (stepDiscard s) := by
  unfold stepDiscard
  split
  · rename_i e0 he0
    exact StepGood.sticky s hi _ ⟨by simp, by simp⟩ (by intro e h; cases h; exact he0)
  · rename_i he
    dsimp only
    have hi0 : Inv { s with o := { s.o with chk := false } } := hi.setO _ rfl
    have hh := headerOnce_sat _ hi0 he
    cases hr : headerOnce { s with o := { s.o with chk := false } } with
    | err e =>
      have := failHeader_good _ (Res.err e : Res St) hi0 (P := fun _ => True) trivial (by intro a h; cases h)
      exact ⟨this.1, this.2.1, this.2.2.1.setO _ rfl, this.2.2.2⟩
    | panic => rw [hr] at hh; exact hh.elim
    | hang => rw [hr] at hh; exact hh.elim
    | ok s1 =>
      rw [hr] at hh
      simp only
      have hd := discardMessages_sat (fuelOf s1) s1 hh.1 (by simp [fuelOf])
      cases hdr : discardMessages (fuelOf s1) s1 with
      | err e =>
        have := fail_good s1 (Res.err e : Res St) hh.1 (P := fun _ => True) trivial (by intro a h; cases h)
        exact ⟨this.1, this.2.1, this.2.2.1.setO _ rfl, this.2.2.2⟩
      | panic => rw [hdr] at hd; exact hd.elim
      | hang => rw [hdr] at hd; exact hd.elim
      | ok s2 =>
        rw [hdr] at hd
        simp only
        have hrd := readN_sat 2 s2 (by decide) hd.1
        cases hrr : readN 2 s2 with
        | err e =>
          have := fail_good s2 (Res.err e : Res (List Nat × St)) hd.1 (P := fun _ => True) trivial (by intro a h; cases h)
          exact ⟨this.1, this.2.1, this.2.2.1.setO _ rfl, this.2.2.2⟩
        | panic => rw [hrr] at hrd; exact hrd.elim
        | hang => rw [hrr] at hrd; exact hrd.elim
        | ok p =>
          rw [hrr] at hrd
          exact ⟨by simp, by simp, (Inv.resetSeq hrd.2.2.1).setO _ rfl, by intro e h; cases h⟩

theorem stepNext_good (z : Bool) (s : St) (hi : Inv s) : StepGood (stepNext z s) := by
  unfold stepNext
  split
  · exact StepGood.sticky s hi _ ⟨by simp, by simp⟩ (by intro e h; cases h)
  · rename_i he
    split
    · exact StepGood.sticky s hi _ ⟨by simp, by simp⟩ (by intro e h; cases h)
    · have hh := headerOnce_sat s hi he
      cases hr : headerOnce s with
      | err e => exact ⟨by simp, by simp, hi.setQ _ hi.2.2.1, by intro e h; cases h⟩
      | panic => rw [hr] at hh; exact hh.elim
      | hang => rw [hr] at hh; exact hh.elim
      | ok s1 => rw [hr] at hh; exact ⟨by simp, by simp, hh.1, by intro e h; cases h⟩

theorem ciLoop_good : ∀ (fuel : Nat) (z : Bool) (seq : Nat) (s : St), Inv s → s.q.err = none → s.rest.length < fuel →
    Ended (ciLoop fuel z seq s).2
  | 0, _, _, s, _, _, hf => by omega
  | fuel + 1, z, seq, s, hi, he, hf => by
    unfold ciLoop
    have hh := headerOnce_sat s hi he
    cases hr : headerOnce s with
    | err e => simp only; split <;> trivial
    | panic => rw [hr] at hh; exact hh.elim
    | hang => rw [hr] at hh; exact hh.elim
    | ok s1 =>
      rw [hr] at hh
      simp only
      have hd := discardMessages_sat (fuelOf s1) s1 hh.1 (by simp [fuelOf])
      cases hdr : discardMessages (fuelOf s1) s1 with
      | err e => trivial
      | panic => rw [hdr] at hd; exact hd.elim
      | hang => rw [hdr] at hd; exact hd.elim
      | ok s2 =>
        rw [hdr] at hd
        simp only
        have hc := decodeCRC_sat s2 hd.1
        cases hcr : decodeCRC s2 with
        | err e => trivial
        | panic => rw [hcr] at hc; exact hc.elim
        | hang => rw [hcr] at hc; exact hc.elim
        | ok s3 =>
          rw [hcr] at hc
          obtain ⟨c0, c1, h1, h2, _⟩ := hc
          simp only
          have hlen : s3.rest.length < s.rest.length := by
            have l1 := hh.2.2.2.2.2
            have l2 := hd.2.1.len
            rw [h1] at l2
            simp only [List.length_append, List.length_cons, List.length_nil] at l2
            omega
          have i3 : Inv s3 := by
            rw [h2]
            have : IsBytes ([c0, c1] ++ s3.rest) := h1 ▸ hd.1.1
            exact ⟨(IsBytes.append.mp this).2, hd.1.2.1, hd.1.2.2⟩
          have e3 : s3.q.err = none := by
            rw [h2]
            show s2.q.err = none
            obtain ⟨_, _, _, _, _, _, _, e2⟩ := hd.2.1
            rw [e2, hh.2.2.2.2.1]
          refine ciLoop_good fuel false (seq + 1) _ (i3.setQ _ (by show (0 : Nat) < 4294967296; decide)) e3 (by simp only; omega)

/-! ### the decoder object -/

def ApiInv (a : Api) : Prop := Inv a.d ∧ IsBytes a.whole

/-- the streams handed to the decoder are byte strings, the factories acyclic -/
def OpOK : Op → Prop
  | .reset o b => IsBytes b ∧ FacOK o.fac
  | _ => True

theorem Api.fresh_inv (o : Opts) (bytes : List Nat) (h : IsBytes bytes) (hf : FacOK o.fac) : ApiInv (Api.fresh o bytes) :=
  ⟨⟨h, DefsOK.empty, (by decide : (0 : Nat) < 4294967296), hf⟩, h⟩

theorem stepCheckIntegrity_good (a : Api) (ha : ApiInv a) :
    (stepCheckIntegrity a).2.1 ≠ .panic ∧ (stepCheckIntegrity a).2.1 ≠ .hang ∧ ApiInv (stepCheckIntegrity a).1 ∧
      ∀ e, (stepCheckIntegrity a).2.1 = .err e → (stepCheckIntegrity a).1.d.q.err = some e := by
  unfold stepCheckIntegrity
  dsimp only
  split
  · exact ⟨by simp, by simp, ha, by intro e h; cases h⟩
  · rename_i he
    have hg := ciLoop_good (fuelOf a.d) (a.n == 0) 0 { a.d with o := { a.d.o with chk := true } } (ha.1.setO _ rfl) he
      (by simp [fuelOf])
    have fin : ApiInv { d := { resetSeq a.d with rest := a.whole }, whole := a.whole, n := 0 } :=
      ⟨⟨ha.2, DefsOK.empty, (by decide : (0 : Nat) < 4294967296), ha.1.2.2.2⟩, ha.2⟩
    rcases hc : ciLoop (fuelOf a.d) (a.n == 0) 0 { a.d with o := { a.d.o with chk := true } } with ⟨seq, r⟩
    rw [hc] at hg
    cases r with
    | ok u => exact ⟨by simp, by simp, fin, by intro e h; cases h⟩
    | err e => exact ⟨by simp, by simp, fin, by intro e h; cases h⟩
    | panic => exact hg.elim
    | hang => exact hg.elim

/-- every API operation, on every state the invariant describes: no panic, no hang, the invariant again, and an
error it returns is the decoder's sticky error afterwards -/
theorem step_good (a : Api) (op : Op) (ha : ApiInv a) (hop : OpOK op) :
    (step a op).2.1 ≠ .panic ∧ (step a op).2.1 ≠ .hang ∧ ApiInv (step a op).1 ∧
      ∀ e, (step a op).2.1 = .err e → (step a op).1.d.q.err = some e := by
  have lift : ∀ r : StepOut, StepGood r → r.2.1 ≠ .panic ∧ r.2.1 ≠ .hang ∧ ApiInv (a.advance r.1) ∧
      ∀ e, r.2.1 = .err e → (a.advance r.1).d.q.err = some e :=
    fun r h => ⟨h.1, h.2.1, ⟨h.2.2.1, ha.2⟩, h.2.2.2⟩
  cases op with
  | decode => exact lift _ (stepDecode_good a.d ha.1)
  | decodeCtx c => exact lift _ (stepDecodeCtx_good c a.d ha.1)
  | decodeCtxAt k => exact lift _ (stepDecodeCtxAt_good k a.d ha.1)
  | peekHeader => exact lift _ (stepPeekHeader_good a.d ha.1)
  | peekFileId => exact lift _ (stepPeekFileId_good a.d ha.1)
  | discard => exact lift _ (stepDiscard_good a.d ha.1)
  | next => exact lift _ (stepNext_good _ a.d ha.1)
  | reset o b =>
    exact ⟨by simp [step, stepReset], by simp [step, stepReset],
      ⟨⟨hop.1, DefsOK.empty, (by decide : (0 : Nat) < 4294967296), hop.2⟩, hop.1⟩, by intro e h; simp [step, stepReset] at h⟩
  | checkIntegrity => exact stepCheckIntegrity_good a ha

theorem run_good : ∀ (ops : List Op) (a : Api), ApiInv a → (∀ op ∈ ops, OpOK op) →
    ∀ r ∈ run a ops, r.1 ≠ .panic ∧ r.1 ≠ .hang
  | [], _, _, _ => by intro r hr; cases hr
  | op :: ops, a, ha, hops => by
    intro r hr
    unfold run at hr
    have hg := step_good a op ha (hops op (by simp))
    rcases List.mem_cons.mp hr with rfl | hr
    · exact ⟨hg.1, hg.2.1⟩
    · exact run_good ops _ hg.2.2.1 (fun o ho => hops o (by simp [ho])) r hr
/-- what a successful `Decode` of a fresh decoder on `bytes` implies -/
structure Accepted (o : Opts) (bytes : List Nat) (f : Fit) (rest : List Nat) : Prop where
  split : ∃ hb recs c0 c1, bytes = hb ++ recs ++ [c0, c1] ++ rest ∧ HdrOK o.chk 0 hb f.hdr ∧
    f.hdr.dataSize ≤ recs.length ∧ f.crc = c0 + 256 * c1 ∧ (o.chk = true → write 0 recs = f.crc)

theorem decode_fresh_accepted (o : Opts) (bytes : List Nat) (hb : IsBytes bytes) (hfac : FacOK o.fac) (hlen : bytes.length < 4294967296)
    (s' : St) (f : Fit) (evs : List Event) (h : stepDecode (St.fresh o bytes) = (s', .fit f, evs)) :
    Accepted o bytes f s'.rest := by
  have hi : Inv (St.fresh o bytes) := ⟨hb, DefsOK.empty, (by decide : (0 : Nat) < 4294967296), hfac⟩
  unfold stepDecode decodeBody at h
  simp only [St.fresh] at h
  have hh := decodeFileHeader_sat (St.fresh o bytes) hi
  unfold headerOnce at h
  simp only [Bool.false_eq_true, if_false] at h
  simp only [St.fresh] at hh
  cases hr : decodeFileHeader { o := o, rest := bytes } with
  | err e => rw [hr] at h; simp [failHeader, fail] at h
  | panic => rw [hr] at hh; exact hh.elim
  | hang => rw [hr] at hh; exact hh.elim
  | ok s1 =>
    rw [hr] at hh h
    obtain ⟨hbs, hd, h1, h2, hok⟩ := hh
    simp only at h h1 h2 hok
    have i1 : Inv { s1 with q := { s1.q with hdrDone := true } } := by
      rw [h2]
      have : IsBytes (hbs ++ s1.rest) := h1 ▸ hb
      exact ⟨(IsBytes.append.mp this).2, DefsOK.empty, (by decide : (0 : Nat) < 4294967296), hfac⟩
    have hm := decodeMessages_sat (fuelOf { s1 with q := { s1.q with hdrDone := true } }) _ i1 (by simp [fuelOf])
    rcases hd' : decodeMessages (fuelOf { s1 with q := { s1.q with hdrDone := true } }) { s1 with q := { s1.q with hdrDone := true } } with ⟨s2, evs2, r⟩
    rw [hd'] at hm h
    obtain ⟨_, i2, r2, hex⟩ := hm
    simp only at i2 r2 hex h
    cases r with
    | err e => simp [fail] at h
    | panic => simp [fail] at h
    | hang => simp [fail] at h
    | ok u =>
      simp only at h
      have hc := decodeCRC_sat s2 i2
      cases hcr : decodeCRC s2 with
      | err e => rw [hcr] at h; simp [fail] at h
      | panic => rw [hcr] at hc; exact hc.elim
      | hang => rw [hcr] at hc; exact hc.elim
      | ok s3 =>
        rw [hcr] at hc h
        obtain ⟨c0, c1, g1, g2, gchk⟩ := hc
        simp only [Prod.mk.injEq, Out.fit.injEq] at h
        obtain ⟨hs', hf, _⟩ := h
        obtain ⟨c, rc, ucur, ucrc, uo, uhdr, _, _⟩ := r2
        simp only at rc ucur ucrc uo uhdr
        have hs1o : s1.o = o := by rw [h2]
        have hs1q : s1.q.cur = 0 ∧ s1.q.crc16 = 0 ∧ s1.q.hdr = hd := by rw [h2]; exact ⟨rfl, rfl, rfl⟩
        have hclen : c.length < 4294967296 := by
          have : bytes.length = hbs.length + (c.length + s2.rest.length) := by
            rw [h1, rc]; simp
          omega
        refine ⟨hbs, c, c0, c1, ?_, ?_, ?_, ?_, ?_⟩
        · rw [← hs']; simp only [release, resetSeq]
          rw [h1, rc, g1]; simp
        · rw [← hf]; show HdrOK o.chk 0 hbs s3.q.hdr
          rw [g2]; show HdrOK o.chk 0 hbs s2.q.hdr
          rw [uhdr, hs1q.2.2]; exact hok
        · rw [← hf]; show s3.q.hdr.dataSize ≤ c.length
          rw [g2]; show s2.q.hdr.dataSize ≤ c.length
          have := hex rfl
          rw [ucur, hs1q.1, Nat.zero_add, Nat.mod_eq_of_lt hclen] at this
          omega
        · rw [← hf]; show s3.q.crc = _
          rw [g2]
        · intro hchk
          rw [← hf]; show write 0 c = s3.q.crc
          rw [g2]; show write 0 c = c0 + 256 * c1
          have := gchk (by rw [uo, hs1o]; exact hchk)
          rw [← this, ucrc, hs1o, hchk, hs1q.2.1]; rfl
/-- the answer a dead decoder (sticky error `e`) gives to an operation -/
def stickyOut (e : Err) : Op → Out
  | .next => .bool false
  | .checkIntegrity => .integrity 0 (some e)
  | _ => .err e

theorem step_sticky (a : Api) (e : Err) (h : a.d.q.err = some e) (op : Op) (hop : ∀ o b, op ≠ .reset o b) :
    (step a op).2 = (stickyOut e op, []) ∧ (step a op).1 = a := by
  cases op <;>
    simp_all [step, stickyOut, stepDecode, stepDecodeCtx, stepDecodeCtxAt, stepPeekHeader, stepPeekFileId, stepDiscard, stepNext,
      stepCheckIntegrity, Api.advance]
end Fit.DecApi
