import FitModel.DecoderApiSpec
/-! Helper lemmas about the decoder-API model (`FitModel/DecoderApi.lean`). -/
namespace Fit.DecApi

theorem fail_err {α} (s : St) (r : Res α) (e : Err) (h : (fail s r).2 = .err e) : (fail s r).1.q.err = some e := by
  cases r <;> simp_all [fail]

/-- a state whose per-sequence state and look-ups are the initial ones is the state of a decoder just created -/
theorem eq_fresh_of_clean (s : St) (hq : s.q = {}) (hl : s.look = {}) : s = St.fresh s.o s.rest := by
  cases s; simp_all [St.fresh]

end Fit.DecApi
