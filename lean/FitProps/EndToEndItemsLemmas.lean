import FitProps.EndToEndSemLemmas
/-!
`GoodItems` for encoder output (C01 end to end): the items the framing decoder returns for the wire form of validated
messages interpret — by the decoder-API model's field decoding — to those messages in one of their allowed forms.
-/
set_option linter.unusedSimpArgs false
namespace Fit.E2E
open Fit.Gen Fit.Gen.DecApi Fit.Value Fit.DecApi Fit.Crc Fit.Msg Fit.Wire

/-- what validation guarantees of a kept field / of the kept messages (C10_post), the validator's state threaded -/
def FieldOK (f : Field) : Prop :=
  ∃ b, f.base = some b ∧ align f.value b.baseType = true ∧ size f.value ≤ 255

def KeptOK : Fit.Validator.State → List Message → Prop
  | _, [] => True
  | st, m :: ms =>
    m.fields.length ≤ 255 ∧ m.devFields.length ≤ 255 ∧ (∀ f ∈ m.fields, FieldOK f) ∧
    (∀ d ∈ m.devFields, ∃ fd, Fit.Validator.lookupFd (Fit.Validator.remember st m.num m.fields).fds d = some fd ∧
      align d.value fd.btId = true ∧ size d.value ≤ 255) ∧
    KeptOK (Fit.Validator.remember st m.num m.fields) ms

/-- the typing assumptions on one kept message (`inDomain`, unpacked) -/
structure MsgDom (fac : Factory) (m : Message) : Prop where
  num : m.num < 65536
  wff : ∀ f ∈ m.fields, wf f.value = true
  wfd : ∀ d ∈ m.devFields, wf d.value = true
  plain : plainKeys m = true
  agree : ∀ f ∈ m.fields, f.base.isSome = true ∧ agreeField fac m.num f = true
  fnums : ∀ f ∈ m.fields, ∀ b, f.base = some b → b.num < 256
  dnums : ∀ d ∈ m.devFields, d.num < 256 ∧ d.devIdx < 256

theorem inDomain_unpack (fac : Factory) (kept : List Message) (h : inDomain fac kept = true) :
    facOKB fac = true ∧ ∀ m ∈ kept, MsgDom fac m := by
  simp only [inDomain, Bool.and_eq_true, List.all_eq_true, decide_eq_true_eq, wfMsg, byteNums] at h
  refine ⟨h.1, fun m hm => ?_⟩
  obtain ⟨⟨⟨⟨h1, h2, h3⟩, h4⟩, h5⟩, h6, h7⟩ := h.2 m hm
  refine ⟨h1, h2, h3, h4, h5, ?_, h7⟩
  intro f hf b hb
  have := h6 f hf
  rw [hb] at this
  simpa using this

/-! ### the wire form of validated fields -/

/-- the record fields the framing decoder returns for the wire form of `fs` -/
def recOf (arch : Nat) (fs : List Field) : List (Wire.FieldDef × List Nat) :=
  recFieldsOf ⟨0, fs.filterMap (toWField arch), []⟩

theorem removeFirst_toW (arch : Nat) : ∀ (fs : List Field), (∀ f ∈ fs, f.base.isSome = true) →
    Wire.removeFirst tsFieldNum (fs.filterMap (toWField arch)) = (removeTs fs).filterMap (toWField arch) := by
  intro fs
  induction fs with
  | nil => intro _; rfl
  | cons f fs ih =>
    intro h
    have hf := h f (by simp)
    cases hb : f.base with
    | none => rw [hb] at hf; cases hf
    | some b =>
      have htw : toWField arch f = some ⟨b.num, b.baseType, typeOf f.value, (marshal f.value arch).getD []⟩ := by
        simp [toWField, hb]
      simp only [List.filterMap_cons, htw, Wire.removeFirst, removeTs, hb]
      by_cases hn : (b.num == tsFieldNum) = true
      · simp [hn]
      · simp only [hn, Bool.false_eq_true, ↓reduceIte, List.filterMap_cons, htw]
        rw [ih (fun g hg => h g (List.mem_cons_of_mem _ hg))]

/-- every field of the record interprets to its `dfieldBack`, and the two decoders agree on its timestamp -/
theorem interp_fields (fac : Factory) (hfac : facOKB fac = true) (m arch : Nat) : ∀ (fs : List Field),
    (∀ f ∈ fs, FieldOK f ∧ wf f.value = true ∧ agreeField fac m f = true) →
    InterpAll fac m arch (cvFs (recOf arch fs)) (fs.map (dfieldBack fac m)) ∧
    TsAgreeAll (fac.create m fieldNumTimestamp).known arch (recOf arch fs) (fs.map (dfieldBack fac m)) := by
  intro fs
  induction fs with
  | nil => intro _; exact ⟨trivial, trivial⟩
  | cons f fs ih =>
    intro h
    obtain ⟨⟨b, hb, hal, hsz⟩, hwf, hag⟩ := h f (by simp)
    obtain ⟨ih1, ih2⟩ := ih (fun g hg => h g (List.mem_cons_of_mem _ hg))
    -- the marshalled bytes
    have hmar : ∃ bs, marshal f.value arch = some bs := by
      cases hv : marshal f.value arch with
      | some bs => exact ⟨bs, rfl⟩
      | none =>
        have : f.value = .invalid := by cases hx : f.value <;> rw [hx] at hv <;> simp [marshal] at hv
        rw [this] at hal; simp [align] at hal
    obtain ⟨bs, hm⟩ := hmar
    have hlen : bs.length = size f.value := marshal_length _ _ _ hm
    have htw : toWField arch f = some ⟨b.num, b.baseType, typeOf f.value, bs⟩ := by simp [toWField, hb, hm]
    have hrec : recOf arch (f :: fs) = (⟨b.num, size f.value % 256, b.baseType⟩, bs) :: recOf arch fs := by
      simp [recOf, recFieldsOf, htw, hlen]
    rw [hrec]
    refine ⟨⟨?_, ih1⟩, ⟨?_, ih2⟩⟩
    · exact interpField_marshal fac m arch f b bs hb hwf hal hsz hag hm
    · intro hn
      simp only at hn
      rw [tsOfRes_proj, dfieldBack_proj]
      exact ts_marshal fac hfac m arch f b bs hb hn hwf hal hsz hag hm

/-! ### developer fields -/

/-- the decoded developer field a validated developer field comes back as, under the validator's field descriptions -/
def ddevBack (fds : List Fit.Validator.FieldDesc) (d : DevField) : Option DDev :=
  match Fit.Validator.lookupFd fds d with
  | none => none
  | some fd =>
    if size d.value = 0 then none else
    some ⟨d.num, d.devIdx, reread fd.btId (decide (fd.btId &&& baseTypeNumMask = profileBool)) (inferArray fd.btId d.value) d.value⟩

theorem ddevBack_proj (fds : List Fit.Validator.FieldDesc) (d : DevField) :
    (ddevBack fds d).map projD = devBack reread true fds d := by
  unfold ddevBack devBack
  cases Fit.Validator.lookupFd fds d with
  | none => rfl
  | some fd =>
    simp only
    by_cases hz : size d.value = 0
    · simp [hz]
    · simp [hz, projD, devReadAs]

def recDevOf (arch : Nat) (ds : List DevField) : List (Wire.DevDef × List Nat) :=
  recDevsOf ⟨0, [], ds.map (toWDev arch)⟩

theorem find_desc (fds : List Fit.Validator.FieldDesc) (d : DevField) :
    (fds.map cvDesc).find? (fun f => f.ddi == d.devIdx && f.fdn == d.num) = (Fit.Validator.lookupFd fds d).map cvDesc := by
  unfold Fit.Validator.lookupFd
  rw [List.find?_map]
  rfl

theorem interp_devs (arch : Nat) (fds : List Fit.Validator.FieldDesc) : ∀ (ds : List DevField),
    (∀ d ∈ ds, (∃ fd, Fit.Validator.lookupFd fds d = some fd ∧ align d.value fd.btId = true ∧ size d.value ≤ 255) ∧
      wf d.value = true) →
    InterpDevs (fds.map cvDesc) arch (cvDs (recDevOf arch ds)) (ds.map (ddevBack fds)) := by
  intro ds
  induction ds with
  | nil => intro _; trivial
  | cons d ds ih =>
    intro h
    obtain ⟨⟨fd, hl, hal, hsz⟩, hwf⟩ := h d (by simp)
    have hmar : ∃ bs, marshal d.value arch = some bs := by
      cases hv : marshal d.value arch with
      | some bs => exact ⟨bs, rfl⟩
      | none =>
        have : d.value = .invalid := by cases hx : d.value <;> rw [hx] at hv <;> simp [marshal] at hv
        rw [this] at hal; simp [align] at hal
    obtain ⟨bs, hm⟩ := hmar
    have hlen : bs.length = size d.value := marshal_length _ _ _ hm
    have hrec : recDevOf arch (d :: ds) = (⟨d.num, size d.value % 256, d.devIdx⟩, bs) :: recDevOf arch ds := by
      simp [recDevOf, recDevsOf, toWDev, hm, hlen]
    rw [hrec]
    refine ⟨?_, ih (fun g hg => h g (List.mem_cons_of_mem _ hg))⟩
    simp only [cvD]
    have hf := find_desc fds d
    rw [hl] at hf
    simp only [Option.map_some] at hf
    rw [hf]
    simp only
    have := interpDev_marshal arch d (cvDesc fd) bs hwf (by simpa [cvDesc] using hal) hsz hm
    rw [this]
    simp only [ddevBack, hl, cvDesc]
    rfl

/-! ### the messages -/

theorem dfieldBack_expanded (fac : Factory) (m : Nat) (f : Field) : ∀ d, dfieldBack fac m f = some d → d.expanded = false := by
  intro d h
  unfold dfieldBack at h
  cases hb : f.base with
  | none => rw [hb] at h; cases h
  | some b =>
    rw [hb] at h
    simp only at h
    split at h
    · cases h
    · cases h; rfl

theorem tsDField_proj (fac : Factory) (m t : Nat) :
    projF (tsDField fac m t) = tsField fac m t ∧ (tsDField fac m t).expanded = false ∧ (tsDField fac m t).num = 253 := by
  unfold tsDField tsField projF
  split <;> simp_all [fieldNumTimestamp]

theorem filterMap_map_id {α β : Type} (g : α → Option β) (l : List α) : (l.map g).filterMap id = l.filterMap g := by
  induction l with
  | nil => rfl
  | cons x xs ih => simp only [List.map_cons, List.filterMap_cons, id, ih]

/-- the projection of the message a data record interprets to -/
theorem proj_msg (fac : Factory) (hd num : Nat) (pre : List DField) (used : List Field) (fds : List Fit.Validator.FieldDesc)
    (devs : List DevField) (hpre : ∀ d ∈ pre, d.expanded = false) :
    proj ⟨hd, num, pre ++ (used.map (dfieldBack fac num)).filterMap id, (devs.map (ddevBack fds)).filterMap id⟩ =
      ⟨num, pre.map projF ++ used.filterMap (fieldBack reread true fac num), devs.filterMap (devBack reread true fds)⟩ := by
  have hfil : (pre ++ (used.map (dfieldBack fac num)).filterMap id).filter (fun f => !f.expanded) =
      pre ++ (used.map (dfieldBack fac num)).filterMap id := by
    apply List.filter_eq_self.mpr
    intro d hd'
    rcases List.mem_append.mp hd' with h | h
    · simp [hpre d h]
    · rw [filterMap_map_id] at h
      obtain ⟨f, _, hf⟩ := List.mem_filterMap.mp h
      simp [dfieldBack_expanded fac num f d hf]
  simp only [proj, hfil, List.map_append]
  congr 1
  · congr 1
    rw [filterMap_map_id]
    have : ∀ l : List Field, (l.filterMap (dfieldBack fac num)).map (fun f => (⟨f.num, f.bt, f.value⟩ : NField)) =
        l.filterMap (fieldBack reread true fac num) := by
      intro l
      induction l with
      | nil => rfl
      | cons x xs ih =>
        have hx := dfieldBack_proj fac num x
        simp only [List.filterMap_cons]
        cases hd : dfieldBack fac num x with
        | none => rw [hd] at hx; simp only [Option.map_none] at hx; rw [← hx]; exact ih
        | some d => rw [hd] at hx; simp only [Option.map_some] at hx; rw [← hx]; simp only [List.map_cons, ih]; rfl
    exact this used
  · rw [filterMap_map_id]
    induction devs with
    | nil => rfl
    | cons x xs ih =>
      have hx := ddevBack_proj fds x
      simp only [List.filterMap_cons]
      cases hd : ddevBack fds x with
      | none => rw [hd] at hx; simp only [Option.map_none] at hx; rw [← hx]; exact ih
      | some d => rw [hd] at hx; simp only [Option.map_some] at hx; rw [← hx]; simp only [List.map_cons, ih]; rfl

theorem recFieldsOf_toWire (arch : Nat) (m : Message) : recFieldsOf (toWire arch m) = recOf arch m.fields := rfl
theorem recDevsOf_toWire (arch : Nat) (m : Message) : recDevsOf (toWire arch m) = recDevOf arch m.devFields := rfl

theorem dataOf_cons_def (i : Nat) (d : Wire.MesgDef) (items : List Wire.Item) : dataOf (.def_ i d :: items) = dataOf items := rfl
theorem dataOf_cons_data (r : Wire.WRec) (items : List Wire.Item) : dataOf (.data r :: items) = r :: dataOf items := rfl

/-- **The items of an encoder-written record stream interpret to the validated messages.** If the data records among
`items` match the wire form of the validated messages `kept` (`RecMatches`: what `C01_wire_records` gives), then the
decoder-API model's field decoding succeeds on every one of them, agrees with the framing decoder on every timestamp, finds
for every developer field the field description the validator resolved, and the messages it produces are `kept` — each
as `fieldBack reread` / `devBack reread` say, in one of the two allowed places of its timestamp. -/
theorem good_items (fac : Factory) (hfac : facOKB fac = true) (arch : Nat) : ∀ (items : List Wire.Item) (kept : List Message)
    (vst : Fit.Validator.State),
    AllMatch (RecMatches arch) (kept.map (toWire arch)) (dataOf items) →
    KeptOK vst kept → (∀ m ∈ kept, MsgDom fac m) →
    ∃ msgs, GoodItems fac (vst.fds.map cvDesc) items msgs ∧
      seqMatches reread true fac arch vst kept (msgs.map proj) = true := by
  intro items
  induction items with
  | nil =>
    intro kept vst hm _ _
    cases kept with
    | nil => exact ⟨[], rfl, rfl⟩
    | cons k ks => simp only [List.map_cons, dataOf, List.filterMap_nil] at hm; cases hm
  | cons it items ih =>
    intro kept vst hm hk hdom
    cases it with
    | def_ i d =>
      rw [dataOf_cons_def] at hm
      obtain ⟨msgs, h1, h2⟩ := ih kept vst hm hk hdom
      exact ⟨msgs, h1, h2⟩
    | data r =>
      rw [dataOf_cons_data] at hm
      cases kept with
      | nil => simp only [List.map_nil] at hm; cases hm
      | cons km kms =>
        simp only [List.map_cons] at hm
        cases hm with
        | cons hrec hrest =>
          obtain ⟨hnum, harch, hdevs, hcase⟩ := hrec
          obtain ⟨_, _, hF, hD, hkrest⟩ := hk
          have hd := hdom km (by simp)
          have hnum' : r.num = km.num := hnum
          -- IH on the rest, under the validator's state after this message
          obtain ⟨msgs', g1, g2⟩ := ih kms (Fit.Validator.remember vst km.num km.fields) hrest hkrest
            (fun m hm' => hdom m (List.mem_cons_of_mem _ hm'))
          -- the fields that travel in the record
          have key : ∀ (used : List Field) (pre : List DField), (used = km.fields ∨ used = removeTs km.fields) →
              r.fields = recOf arch used → (∀ d ∈ pre, d.num = 253 ∧ d.expanded = false) →
              (∀ rs, fieldsOfRec fac r rs = pre ++ rs.filterMap id) →
              ∃ msgs, GoodItems fac (vst.fds.map cvDesc) (.data r :: items) msgs ∧
                msgs.map proj = ⟨km.num, pre.map projF ++ used.filterMap (fieldBack reread true fac km.num),
                  km.devFields.filterMap (devBack reread true (Fit.Validator.remember vst km.num km.fields).fds)⟩ :: msgs'.map proj := by
            intro used pre hused hfields hpre hts
            have hsub : ∀ f ∈ used, f ∈ km.fields := by
              rcases hused with h | h
              · rw [h]; exact fun f hf => hf
              · rw [h]; exact mem_removeTs km.fields
            obtain ⟨i1, i2⟩ := interp_fields fac hfac km.num arch used
              (fun f hf => ⟨hF f (hsub f hf), hd.wff f (hsub f hf), (hd.agree f (hsub f hf)).2⟩)
            have hfo : fieldsOfRec fac r (used.map (dfieldBack fac km.num)) = pre ++ used.filterMap (dfieldBack fac km.num) := by
              rw [hts, filterMap_map_id]
            have hdesc := desc_sync fac hfac km used pre (fun d hd' => (hpre d hd').1) hused hd.agree hd.plain vst
            have i3 := interp_devs arch (Fit.Validator.remember vst km.num km.fields).fds km.devFields
              (fun d hd' => ⟨hD d hd', hd.wfd d hd'⟩)
            refine ⟨⟨r.header, r.num, fieldsOfRec fac r (used.map (dfieldBack fac km.num)),
              (km.devFields.map (ddevBack (Fit.Validator.remember vst km.num km.fields).fds)).filterMap id⟩ :: msgs', ?_, ?_⟩
            · simp only [GoodItems]
              refine ⟨used.map (dfieldBack fac km.num), km.devFields.map (ddevBack (Fit.Validator.remember vst km.num km.fields).fds),
                msgs', ?_, ?_, ?_, rfl, ?_⟩
              · rw [hnum', harch, hfields]; exact i1
              · rw [hnum', harch, hfields]; exact i2
              · rw [hfo, hnum', hdesc, harch, hdevs, recDevsOf_toWire]; exact i3
              · rw [hfo, hnum', hdesc]; exact g1
            · simp only [List.map_cons]
              congr 1
              rw [hfo, hnum', ← filterMap_map_id (dfieldBack fac km.num) used]
              exact proj_msg fac r.header km.num pre used _ km.devFields (fun d hd' => (hpre d hd').2)
          rcases hcase with ⟨hts, hfs⟩ | ⟨hts, hvalid, hfs⟩
          · -- the timestamp (if any) stayed in the message
            obtain ⟨msgs, m1, m2⟩ := key km.fields [] (Or.inl rfl) (by rw [hfs, recFieldsOf_toWire])
              (fun d hd' => by cases hd') (fun rs => by simp [fieldsOfRec, hts])
            refine ⟨msgs, m1, ?_⟩
            rw [m2]
            simp only [seqMatches, List.map_nil, List.nil_append, Bool.and_eq_true]
            refine ⟨?_, g2⟩
            simp only [msgVariants]
            split <;> simp
          · -- the timestamp travelled in the record header
            have hfs' : r.fields = recOf arch (removeTs km.fields) := by
              rw [hfs]
              simp only [recFieldsOf, recOf, toWire]
              rw [removeFirst_toW arch km.fields (fun f hf => (hd.agree f hf).1)]
            obtain ⟨msgs, m1, m2⟩ := key (removeTs km.fields) [tsDField fac r.num (tsOf arch (toWire arch km))] (Or.inr rfl) hfs'
              (fun d hd' => by
                simp only [List.mem_cons, List.not_mem_nil, or_false] at hd'
                rw [hd']; exact ⟨(tsDField_proj fac _ _).2.2, (tsDField_proj fac _ _).2.1⟩)
              (fun rs => by simp [fieldsOfRec, hts])
            refine ⟨msgs, m1, ?_⟩
            rw [m2]
            simp only [seqMatches, Bool.and_eq_true]
            refine ⟨?_, g2⟩
            have hne : (tsOf arch (toWire arch km) != u32Invalid) = true := by simpa using hvalid
            simp only [msgVariants, hne, ↓reduceIte, List.map_cons, List.map_nil, (tsDField_proj fac _ _).1, hnum',
              List.singleton_append]
            simp

end Fit.E2E
