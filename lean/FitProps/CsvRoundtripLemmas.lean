import FitProps.CsvArithLemmas
import FitProps.CsvFileLemmas
/-! The file-level round trip of fitconv with the arithmetic as the code computes it (`Arith.so`), for messages made of
known fields (scalar or array; raw, unscaled or scaled), unknown fields and unknown messages (kept with the verbose
option, dropped without). -/
set_option linter.unusedSimpArgs false
set_option linter.unusedVariables false
namespace Fit.Csv
open Fit.Value Fit.Msg Fit.Gen Fit.Gen.Csv Fit.F64 Fit.ScaleOffset

/-- the field as it comes back (its number and base type from the profile or from the `unknown(N)` cell, its value
element by element), or `none` when the reader passes it over (an unknown field without the verbose option) -/
def expField (o : Opts) (m : Message) (f : Field) : Option Field :=
  match pfield m.num (fieldNumOf f) with
  | some p => some (mkField p.num p.bt (csvNorm f.value))
  | none => if o.verbose then some (mkField (fieldNumOf f) (fieldBtOf f) (csvNorm f.value)) else none

/-- an unknown message without the verbose option is not written under a name the reader can map back -/
def mesgDropped (o : Opts) (n : Nat) : Bool := !o.verbose && (decide (n ≥ mfgRangeMin) || (mesgNames.lookup n).isNone)

/-- the message as it comes back: its fields as `expField`, minus the component targets the reader removes -/
def expMesg (o : Opts) (m : Message) : Option Message :=
  if mesgDropped o m.num then none else some (backMesg (expField o m) m)

/-- the conditions on one field of a message: a known field without sub-field substitution whose value is what the
decoder produces for its base type — written raw / unscaled (scalar or array), or scaled (integer scalar of at most
32 bits) —, or an unknown field (with verbose: number and base type recoverable from the cell) -/
def GoodField (o : Opts) (m : Message) (f : Field) : Prop :=
  match pfield m.num (fieldNumOf f) with
  | some p =>
    m.num < mfgRangeMin ∧ substitute m.fields p.subs = none ∧
    (((o.raw = true ∨ isScaledField p.scale p.offset = false) ∧ (elemsOf f.value).2 = p.array ∧
        valueOK p.bt p.isBool f.value = true) ∨
     (o.raw = false ∧ isScaledField p.scale p.offset = true ∧ p.array = false ∧ p.isBool = false ∧
        scalarOK p.bt false f.value = true ∧ (int32Scalar f.value).isSome = true))
  | none =>
    o.verbose = false ∨
    (fieldNumOf f < 256 ∧ baseTypeNames.any (fun q => q.1 == fieldBtOf f) = true ∧ valueOK (fieldBtOf f) false f.value = true ∧
      ((elemsOf f.value).2 = true → (elemsOf f.value).1.length ≠ 1))

instance (o : Opts) (m : Message) (f : Field) : Decidable (GoodField o m f) := by
  unfold GoodField
  split <;> infer_instance

theorem pfield_mem {mesgNum num : Nat} {p : PField} (h : pfield mesgNum num = some p) :
    ∃ pm, pm ∈ profile ∧ pm.num = mesgNum ∧ p ∈ pm.fields ∧ p.num = num := by
  unfold pfield at h
  cases hpm : pmesg mesgNum with
  | none => rw [hpm] at h; cases h
  | some pm =>
    rw [hpm] at h
    simp only at h
    unfold pmesg at hpm
    refine ⟨pm, List.mem_of_find?_eq_some hpm, by simpa using List.find?_some hpm, List.mem_of_find?_eq_some h,
      by simpa using List.find?_some h⟩

theorem csvNorm_int32Scalar {v : Value} (h : (int32Scalar v).isSome = true) : csvNorm v = v := by
  cases v <;> simp [int32Scalar] at h <;> rfl

theorem goodField_rt (o : Opts) (hdeg : o.degrees = false) (m : Message) (f : Field) (h : GoodField o m f) :
    FieldRT Arith.so o m f (expField o m f) := by
  intro ds
  unfold GoodField at h
  unfold expField
  cases hp : pfield m.num (fieldNumOf f) with
  | some p =>
    rw [hp] at h
    simp only at h ⊢
    obtain ⟨hn, hsub, hk⟩ := h
    obtain ⟨pm, hpm, hnum, hpf, hfn⟩ := pfield_mem hp
    rcases hk with ⟨hraw, harr, hv⟩ | ⟨hraw, hsc, harr, hb, hv, hi⟩
    · exact field_rt_value Arith.so o ds m f pm p hpm hnum hn hpf hfn.symm hdeg hraw hsub harr hv
    · obtain ⟨⟨ty, pat⟩, hi'⟩ := Option.isSome_iff_exists.mp hi
      rw [csvNorm_int32Scalar hi]
      exact field_rt_scaled_so o ds m f pm p hpm hnum hn hpf hfn.symm hdeg hraw hsc hsub harr hb hv ty pat hi'
  | none =>
    rw [hp] at h
    simp only at h ⊢
    cases hverb : o.verbose
    · simp only [Bool.false_eq_true, ↓reduceIte]
      exact unknown_field_skipped Arith.so o m f hverb hp ds
    · simp only [↓reduceIte]
      rcases h with h | ⟨h1, h2, h3, h4⟩
      · rw [hverb] at h; cases h
      · have h2' : ∃ s, (fieldBtOf f, s) ∈ baseTypeNames := by
          obtain ⟨q, hq, he⟩ := List.any_eq_true.mp h2
          have : q.1 = fieldBtOf f := by simpa using he
          exact ⟨q.2, by rw [← this]; exact hq⟩
        exact unknown_field_rt Arith.so o ds m f hverb hp h1 h2' h3 h4

/-- the conditions on one message -/
structure GoodMesg (o : Opts) (m : Message) : Prop where
  nodev : m.devFields = []
  notDesc : m.num ≠ mnFieldDescription
  small : m.num < 65536
  fields : ∀ f ∈ m.fields, GoodField o m f
  nonempty : mesgDropped o m.num = false → removeExpanded m.num (m.fields.filterMap (expField o m)) ≠ []

instance (o : Opts) (m : Message) : Decidable (GoodMesg o m) :=
  decidable_of_iff (m.devFields = [] ∧ m.num ≠ mnFieldDescription ∧ m.num < 65536 ∧ (∀ f ∈ m.fields, GoodField o m f) ∧
      (mesgDropped o m.num = false → removeExpanded m.num (m.fields.filterMap (expField o m)) ≠ []))
    ⟨fun ⟨a, b, c, d, e⟩ => ⟨a, b, c, d, e⟩, fun ⟨a, b, c, d, e⟩ => ⟨a, b, c, d, e⟩⟩

theorem fileId_known : mesgNames.lookup mnFileId = some "file_id" ∧ mnFileId < mfgRangeMin := by decide +kernel

theorem goodMesg_ok (o : Opts) (hdeg : o.degrees = false) (m : Message) (h : GoodMesg o m) :
    MesgOK Arith.so o (expField o) (expMesg o) m := by
  unfold MesgOK expMesg
  cases hd : mesgDropped o m.num
  · left
    simp only [Bool.false_eq_true, ↓reduceIte, and_true]
    refine ⟨?_, h.nodev, h.notDesc, fun f hf => goodField_rt o hdeg m f (h.fields f hf), h.nonempty hd⟩
    -- the name resolves to the number
    simp only [mesgDropped, Bool.and_eq_false_iff, Bool.not_eq_false', Bool.or_eq_false_iff, decide_eq_false_iff_not,
      Option.isNone_eq_false_iff, Option.isSome_iff_exists] at hd
    by_cases hk : ¬ (m.num ≥ mfgRangeMin) ∧ ∃ s, mesgNames.lookup m.num = some s
    · obtain ⟨hlow, s, hs⟩ := hk
      left
      have : mesgNameOf o m.num = txt s := by simp [mesgNameOf, hlow, hs]
      rw [this]
      exact mesg_facts hs (by omega)
    · have hverb : o.verbose = true := by
        rcases hd with h1 | h1
        · exact h1
        · exact absurd h1 hk
      right
      have hname : mesgNameOf o m.num = formatUnknown m.num := by
        unfold mesgNameOf
        by_cases hge : m.num ≥ mfgRangeMin
        · simp [hge, hverb]
        · have : mesgNames.lookup m.num = none := by
            cases hl : mesgNames.lookup m.num with
            | none => rfl
            | some s => exact absurd ⟨hge, s, hl⟩ hk
          simp [hge, this, hverb]
      rw [hname, digitsOf_formatUnknown]
      obtain ⟨d1, _, d3⟩ := natDigits_spec m.num
      refine ⟨lookupMesgNum_unknown _ (prefix_formatUnknown _), ?_, d1, h.small⟩
      cases hh : natDigits m.num with
      | nil => exact absurd hh d3
      | cons _ _ => rfl
  · right
    simp only [↓reduceIte, and_true]
    simp only [mesgDropped, Bool.and_eq_true, Bool.not_eq_true', Bool.or_eq_true, decide_eq_true_eq, Option.isNone_iff_eq_none] at hd
    obtain ⟨hverb, hk⟩ := hd
    have hname : mesgNameOf o m.num = unknownTxt := by
      unfold mesgNameOf
      rcases hk with hge | hl
      · simp [hge, hverb]
      · by_cases hge : m.num ≥ mfgRangeMin
        · simp [hge, hverb]
        · simp [hge, hl, hverb]
    refine ⟨?_, h.nodev, h.notDesc, ?_⟩
    · rw [hname]
      exact ⟨lookupMesgNum_unknown _ (by decide +kernel), by decide +kernel⟩
    · intro hfid
      rw [hfid] at hk
      rcases hk with hge | hl
      · have := fileId_known.2; omega
      · rw [fileId_known.1] at hl; cases hl

/-- **FIT → CSV → FIT, file by file, with the arithmetic as the code computes it** -/
theorem roundtrip_so (o : Opts) (hdeg : o.degrees = false) (files : List (List Message)) (hne : files ≠ [])
    (hshape : ∀ f ∈ files, FileShape f) (hgood : ∀ f ∈ files, ∀ m ∈ f, GoodMesg o m) :
    fromCsvPre Arith.so (toCsv o files) = .ok ⟨files.map (·.filterMap (expMesg o)), files.length⟩ :=
  fromCsvPre_rt Arith.so o (expField o) (expMesg o) files hne hshape
    (fun f hf m hm => goodMesg_ok o hdeg m (hgood f hf m hm))

end Fit.Csv
