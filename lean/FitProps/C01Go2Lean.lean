import FitProps.Go2LeanTimestamp
import FitProps.Go2LeanRecordHeader
import FitProps.Go2LeanLru
import FitProps.Go2LeanProtoMarshal
import FitProps.Go2LeanEncoderMesgDef
/-!
# C01 — tie of the compressed-timestamp arithmetic to the source by translation

The statement blocks that do the compressed-timestamp arithmetic — decoder/decoder.go (`decodeMessageData`: the header's
5-bit time offset advances `d.timestamp`; `decodeFields`: a decoded timestamp field sets `d.timestamp` / `d.lastTimeOffset`)
and encoder/encoder.go (`compressTimestampIntoHeader`: whether the timestamp goes into the header, roll-over of
`e.timestampReference`, the header byte) — are translated to Lean from the CURRENT source on every run
(`FitModel/Generated/Go_decoder.lean`, `Go_encoder.lean`; each block is selected by the function name and the variable it
assigns, and the translation fails loudly when that anchor is gone). The theorems state that they equal the corresponding
functions of the models the round-trip theorems of C01 are about.

PROPERTY THEOREMS (audited by ./check): C01_go2lean_dec_header, C01_go2lean_dec_header_wire, C01_go2lean_dec_field,
C01_go2lean_dec_field_wire, C01_go2lean_dec_isCompressed, C01_go2lean_enc_decide, C01_go2lean_hdr_dec_kind,
C01_go2lean_hdr_dec_local, C01_go2lean_hdr_enc, C01_go2lean_hdr_roundtrip, C01_go2lean_lru_put, C01_go2lean_lru_run,
C01_go2lean_lru_new, C01_go2lean_lru_resize

The LRU of local message definitions (encoder/lru.go, all seven methods, `FitModel/Generated/Go_encoderlru.lean`) is tied to
`Fit.Wire.Lru` by a simulation (`FitProps/Go2LeanLru.lean`): see the four `C01_go2lean_lru_*` theorems at the end.
-/
namespace Fit.C01
open Fit.Go2Lean

theorem C01_go2lean_dec_header (header : Nat) (d : Fit.DecApi.MesgDef) (s : Fit.DecApi.St) :
    let o := Go.decoder.decodeMessageData_timestamp s.q.lastOff s.q.ts header
    (Fit.DecApi.compressedTs header d s).1.q.ts = o.d_timestamp ∧
    (Fit.DecApi.compressedTs header d s).1.q.lastOff = o.d_lastTimeOffset := ts_dec_header header d s

theorem C01_go2lean_dec_header_wire (h : Nat) (s : Fit.Wire.DecState) (hl : s.lastOff < 32) :
    let o := Go.decoder.decodeMessageData_timestamp s.lastOff s.timestamp h
    (Fit.Wire.decompressHdr s h).1.timestamp = o.d_timestamp ∧ (Fit.Wire.decompressHdr s h).1.lastOff = o.d_lastTimeOffset ∧
    (Fit.Wire.decompressHdr s h).2 = o.d_timestamp := ts_dec_header_wire h s hl

theorem C01_go2lean_dec_field (t : Nat) (s : Fit.DecApi.St) (ht : t < 2 ^ 32) :
    let o := Go.decoder.decodeFields_timestamp s.q.lastOff s.q.ts t
    (Fit.DecApi.setTs t s).q.ts = o.d_timestamp ∧ (Fit.DecApi.setTs t s).q.lastOff = o.d_lastTimeOffset := ts_dec_field t s ht

theorem C01_go2lean_dec_field_wire (t lo ts : Nat) :
    (Go.decoder.decodeFields_timestamp lo ts t).d_timestamp = t ∧
    (Go.decoder.decodeFields_timestamp lo ts t).d_lastTimeOffset = t % 32 := ts_dec_field_wire t lo ts

theorem C01_go2lean_dec_isCompressed : ∀ h < 256,
    Go.decoder.decodeMessageData_isCompressed h = Fit.FitFormat.isCompressed h := ts_dec_isCompressed

theorem C01_go2lean_enc_decide (arch tsRef tsLast hdr : Nat) (m : Fit.Wire.WMsg) :
    let o := Go.encoder.compressTimestampIntoHeader_decide tsRef tsLast hdr (Fit.Wire.encTsOf arch m)
    o.e_timestampReference = (Fit.Wire.compressTs arch tsRef tsLast m).1 ∧
    (match (Fit.Wire.compressTs arch tsRef tsLast m).2.2 with
     | none => o.ret = some false ∧ o.mesg_Header = hdr
     | some off => o.ret = none ∧ o.mesg_Header = 0x80 ||| off) := ts_enc_decide arch tsRef tsLast hdr m

/-! the record header bits: definition / developer-data flags and the local message type, decoder and encoder side -/

theorem C01_go2lean_hdr_dec_kind : ∀ h < 256, Go.decoder.decodeMessage_isDefinition h = Fit.FitFormat.isDefinition h ∧
    Go.decoder.decodeMessageDefinition_hasDevData h = Fit.FitFormat.hasDevData h := hdr_dec_kind

theorem C01_go2lean_hdr_dec_local : ∀ h < 256,
    (Go.decoder.decodeMessageData_localMesgNum h).localMesgNum &&& 15 = Fit.FitFormat.localNum h ∧
    (h ≥ 128 → (Go.decoder.decodeMessageData_localMesgNum h).localMesgNum < 4) := hdr_dec_local

theorem C01_go2lean_hdr_enc (i t : Nat) :
    (Go.encoder.encodeMessage_header true i (0x80 ||| t)).mesg_Header = (0x80 ||| t) ||| ((i <<< 5) % 256) ∧
    (Go.encoder.encodeMessage_header false i 0).mesg_Header = i := hdr_enc i t

theorem C01_go2lean_hdr_roundtrip : (∀ i < 4, ∀ t < 32,
      (Go.decoder.decodeMessageData_localMesgNum (Go.encoder.encodeMessage_header true i (0x80 ||| t)).mesg_Header).localMesgNum = i) ∧
    (∀ i < 16, (Go.decoder.decodeMessageData_localMesgNum (Go.encoder.encodeMessage_header false i 0).mesg_Header).localMesgNum = i) :=
  hdr_roundtrip

/-- Non-vacuity: a header that compresses (reference 0x10000000, timestamp 5 s later) and one that rolls over. -/
example : (Go.encoder.compressTimestampIntoHeader_decide 0x10000000 0x10000000 0 0x10000005).ret = none ∧
    (Go.encoder.compressTimestampIntoHeader_decide 0x10000000 0x10000000 0 0x10000005).mesg_Header = 0x85 ∧
    (Go.encoder.compressTimestampIntoHeader_decide 0x10000000 0x10000000 0 0x10000025).ret = some false ∧
    (Go.encoder.compressTimestampIntoHeader_decide 0x10000000 0x10000000 0 0x10000025).e_timestampReference = 0x10000025 ∧
    (Go.decoder.decodeMessageData_timestamp 30 0x1000001E 0x83).d_timestamp = 0x10000023 := by decide +kernel

/-! ### the LRU of local message definitions (encoder/lru.go) -/

/-- `Put` translated from the source simulates the model's `Lru.put`: from every Go state `g` that a model state `m` stands
for (`LruRep`: same bucket, same capacity, same item under every live index, plus the invariant of lru.go), for every item
and every hidden tail (capacity and stale contents of the slice that `replaceLeastRecentlyUsed` re-uses), the Go code does
not panic, returns the local message number and the is-new flag of the model, and ends in a state the model's next state
stands for. -/
theorem C01_go2lean_lru_put (g : Go.encoderlru.lru) (m : Fit.Wire.Lru) (h : LruRep g m) (item tail : List Nat) :
    ∃ g', Go.encoderlru.lru.Put g item tail = some (g', (m.put item).2.1, (m.put item).2.2) ∧
      LruRep g' (m.put item).1 := lru_put g m h item tail

/-- along every sequence of definitions: the local message numbers and is-new flags of the translated code are the model's -/
theorem C01_go2lean_lru_run (g : Go.encoderlru.lru) (m : Fit.Wire.Lru) (h : LruRep g m) (ops : List (List Nat × List Nat)) :
    goLruRun g ops = some (modelLruRun m (ops.map (·.1))) := lru_run g m h ops

/-- `newLRU(size)` (= `ResetWithNewSize(size)` on the zero value) is the model's `Lru.empty size` — so `LruRep` is not vacuous
and the run theorem applies from the encoder's initial state -/
theorem C01_go2lean_lru_new (size : Nat) (h0 : 0 < size) (h1 : size < 256) (tail1 : List (List Nat)) :
    ∃ g', Go.encoderlru.lru.ResetWithNewSize ⟨[], []⟩ size [] tail1 = some g' ∧ LruRep g' (Fit.Wire.Lru.empty size) :=
  lru_new size h0 h1 tail1

/-- `ResetWithNewSize(size)` from ANY state (the encoder re-uses its LRU), whatever the capacity of the item slice (a byte)
and whatever lies behind its length: the model's `Lru.empty size`. `tail` / `tail1` are the hidden part of `l.items` at
`cap(l.items)` and at the re-slice after `l.Reset()` (which assigns elements only: same length). -/
theorem C01_go2lean_lru_resize (g : Go.encoderlru.lru) (size : Nat) (h0 : 0 < size) (h1 : size < 256)
    (tail tail1 : List (List Nat)) (hcap : g.items.length + tail.length < 256) (hsame : tail1.length = tail.length) :
    ∃ g', Go.encoderlru.lru.ResetWithNewSize g size tail tail1 = some g' ∧ LruRep g' (Fit.Wire.Lru.empty size) :=
  lru_resize g size h0 h1 tail tail1 hcap hsame

/-- non-vacuity: three `Put`s into a new LRU of two entries — store, store, hit — run through both sides -/
example : goLruRun ⟨[[], []], []⟩ [([1], []), ([2], [7]), ([1], [])] = some [(0, true), (1, true), (0, false)] := by decide

/-! the bytes of a definition record and the header byte of a data record: proto/proto_marshal.go, translated as unit
`protomarshal` (`FitModel/Generated/Go_protomarshal.lean`); `MessageDefinition.MarshalAppend` is translated WHOLE.
PROPERTY THEOREMS (audited by ./check): C01_go2lean_def_marshal, C01_go2lean_def_wire, C01_go2lean_def_header,
C01_go2lean_def_length, C01_go2lean_data_header -/

theorem C01_go2lean_def_marshal (m : Go.protomarshal.MessageDefinition) (b : List Nat) :
    Go.protomarshal.MessageDefinition.MarshalAppend m b = some (b ++ pmDefSpec m) := pm_def_marshal m b

theorem C01_go2lean_def_wire (arch : Nat) (m : Fit.Wire.WMsg) (b : List Nat) :
    Go.protomarshal.MessageDefinition.MarshalAppend (pmDefOf arch m) b = some (b ++ Fit.Wire.defBytes arch m) :=
  pm_def_wire arch m b

theorem C01_go2lean_def_header :
    Go.protomarshal.MesgDefinitionMask = 0x40 ∧ Go.protomarshal.DevDataMask = 0x20 ∧
    Go.protomarshal.LittleEndian = 0 ∧ Go.protomarshal.BigEndian = 1 ∧
    (∀ h, (Go.protomarshal.NewMessageDefinition_devHeader h).mesgDef_Header = h ||| 0x20) ∧
    (Go.protomarshal.NewMessageDefinition_devHeader Go.protomarshal.MesgDefinitionMask).mesgDef_Header = 0x60 := pm_def_header

theorem C01_go2lean_def_length (m : Go.protomarshal.MessageDefinition) (b out : List Nat)
    (h : Go.protomarshal.MessageDefinition.MarshalAppend m b = some out) :
    out.length = b.length + 6 + 3 * m.FieldDefinitions.length +
      (if m.Header &&& 32 = 32 then 1 + 3 * m.DeveloperFieldDefinitions.length else 0) := pm_def_length m b out h

theorem C01_go2lean_data_header (b : List Nat) (hdr : Nat) (m : Fit.Wire.WMsg) :
    (Go.protomarshal.Message_MarshalAppend_header b hdr).b = b ++ [hdr] ∧
    (Go.protomarshal.Message_MarshalAppend_header [] hdr).b ++ Fit.Wire.payload m = hdr :: Fit.Wire.payload m :=
  pm_data_header b hdr m

/-! the same for the definition as the ENCODER builds it (encoder/encoder.go `newMessageDefinition`, unit `encodermesgdef`).
PROPERTY THEOREMS (audited by ./check): C01_go2lean_enc_def_wire -/

theorem C01_go2lean_enc_def_wire (h0 r0 a0 n0 arch : Nat) (m : Fit.Wire.WMsg) (b : List Nat) :
    Go.protomarshal.MessageDefinition.MarshalAppend (pmEncDefOf h0 r0 a0 n0 arch m) b = some (b ++ Fit.Wire.defBytes arch m) :=
  pm_enc_def_wire h0 r0 a0 n0 arch m b

end Fit.C01
