import FitProps.C02
import FitProps.EndToEndLemmas
/-!
# C02: the byte hypothesis of the whole-stream theorems, discharged

`C02_wellformed`, `C02_wellformed_mixed`, `C02_crc_whole_sequence_partial`, `C02_integrity_accepts_as_built` (and C04's
`C04_encoder_output`) take the hypothesis that the encoder's output is a BYTE stream (`C02_ByteOK`: protocol version and
record bytes below 256 — true by type in the code, a fact about `Nat`s in the model). `FitOK` / `MsgOK` alone do not imply
it (they bound the field DATA only: a field number 300 passes `fitOKB`). `C02_byteok_of_typed` derives it from `FitOK`
plus the byte typing of the message's numbers (`E2E.MsgTyped`: field numbers, developer field numbers / indexes / data
below 256 — what a `proto.Message` holds by type), via `E2E.encodeMsgs_bytes` (FitProps/EndToEndLemmas.lean). Kept in a
file of its own so that FitProps/C02.lean does not import the end-to-end development.
-/
namespace Fit.C02
open Fit.Wire

/-- THE OUTPUT IS A BYTE STREAM: for options in range, a sequence validation lets through (`FitOK`) whose numbers are
bytes (`MsgTyped`) and a protocol version byte, the record bytes the encoder model writes are all below 256. -/
theorem C02_byteok_of_typed (o : Opts) (ho : OptsOK o) (h : Hdr) (ms : List WMsg) (hf : FitOK o h ms)
    (ht : ∀ m ∈ ms, Fit.E2E.MsgTyped m) (hp : h.protoVer < 256) : C02_ByteOK o (h, ms) :=
  ⟨hp, Fit.E2E.encodeMsgs_bytes (fun _ => false) o ho.arch ms (freshEnc o) DecState.fresh
    (fun m hm => ⟨hf.msgs m hm, ht m hm⟩) (DefInv.fresh o.arch o.lruCap ho.capPos ho.cap16 _) ho.cap4 (fun _ => Or.inl rfl)⟩

/-- `FitOK` alone does not give it: a field number 300 passes `fitOKB` and ends up on the wire as the "byte" 300 -/
example : fitOKB ⟨0, false, 1⟩ ⟨14, 32, 2158⟩ [⟨0, [⟨300, 0, 3, [4]⟩], []⟩] = true ∧
    ¬ (∀ b ∈ encodeMsgs ⟨0, false, 1⟩ (freshEnc ⟨0, false, 1⟩) [⟨0, [⟨300, 0, 3, [4]⟩], []⟩], b < 256) := by
  decide +kernel

end Fit.C02
