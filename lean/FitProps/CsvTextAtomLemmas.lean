import FitProps.CsvTextSimLemmas
import FitModel.CsvArith
/-! The text of a piece read back by `parseValueT` (ParseInt/ParseUint on decimal text, strings as they are) gives what the
cell-level reader gives on the piece: the hypothesis `Sim` of the simulation, for every piece. The float pieces are the
assumption `FloatOK`. -/
set_option linter.unusedSimpArgs false
set_option linter.unusedVariables false
namespace Fit.Csv
open Fit.Value Fit.Msg Fit.Gen Fit.Gen.Csv

def isFloatAtom : Atom → Bool
  | .flt _ | .scaled _ _ _ | .degrees _ => true
  | _ => false

/-- **the assumption about float text**, for the float pieces `P` holds of (those that occur in the CSV at hand):
strconv — `ParseFloat(FormatFloat(x)) = x`, the text of a scaled value holds a '.' — and the float arithmetic of the
scaled path: whenever the cell-level reader reads such a piece, `parseValue` on its text gives the same value; and its
text holds neither a quote nor a `|` -/
structure FloatOK (tp : TextParam) (P : Atom → Prop) : Prop where
  read : ∀ a, P a → isFloatAtom a = true → ∀ bt isBool sc off units v,
    parseAtom Arith.so a bt isBool sc off units = .ok v → parseValueT tp (tp.floatText a) bt isBool sc off units = .ok v
  chars : ∀ a, P a → isFloatAtom a = true → ∀ b ∈ tp.floatText a, b ≠ 34 ∧ b ≠ 124

/-- no float piece at all: nothing is assumed -/
theorem floatOK_of_none (tp : TextParam) (P : Atom → Prop) (h : ∀ a, P a → isFloatAtom a = false) : FloatOK tp P :=
  { read := fun a ha hf => absurd hf (by rw [h a ha]; decide)
    chars := fun a ha hf => absurd hf (by rw [h a ha]; decide) }

/-- a piece as the text layer sees it -/
def rawOf (tp : TextParam) (a : Atom) : Atom := .raw (atomText tp a)

theorem parseAtom_raw (ar : Arith) (t : Txt) (bt : Nat) (isBool : Bool) (sc off : Nat) (units : Txt) :
    parseAtom ar (.raw t) bt isBool sc off units = ar.raw t bt isBool sc off units := by
  simp [parseAtom]

theorem rmap_ite {α β : Type} (g : α → β) (c : Bool) (a : α) :
    rmap g (if c then R.ok a else R.err) = if c then R.ok (g a) else R.err := by
  cases c <;> rfl

/-- **an integer piece**: `parseValue` on the decimal text gives what the cell-level reader gives on the integer — for
every base type, `typedef.Bool` included, range errors included -/
theorem sim_int (tp : TextParam) (i : Int) (bt : Nat) (isBool : Bool) (sc off : Nat) (units : Txt) (v : Value)
    (h : parseAtom Arith.so (.int i) bt isBool sc off units = .ok v) :
    parseValueT tp (intText i) bt isBool sc off units = .ok v := by
  unfold parseAtom at h
  unfold parseValueT
  simp only [intText_noDot, Bool.and_false, Bool.false_eq_true, ↓reduceIte, parseUintT_intText, rmap_ite,
    parseIntT_intText 8 (by decide), parseIntT_intText 16 (by decide), parseIntT_intText 32 (by decide), parseIntT_intText 64 (by decide)] at h ⊢
  by_cases c1 : (units == degreesTxt && bt == btSint32) = true
  · simp only [c1, ↓reduceIte] at h; cases h
  · simp only [c1, Bool.false_eq_true, ↓reduceIte] at h ⊢
    by_cases c2 : isBool = true
    · simp only [c2, ↓reduceIte] at h ⊢; exact h
    · simp only [c2, Bool.false_eq_true, ↓reduceIte] at h ⊢
      by_cases c3 : btIsUint8 bt = true
      · simp only [c3, ↓reduceIte] at h ⊢; exact h
      · simp only [c3, Bool.false_eq_true, ↓reduceIte] at h ⊢
        by_cases c4 : (bt == btSint8) = true
        · simp only [c4, ↓reduceIte] at h ⊢; exact h
        · simp only [c4, Bool.false_eq_true, ↓reduceIte] at h ⊢
          by_cases c5 : (bt == btSint16) = true
          · simp only [c5, ↓reduceIte] at h ⊢; exact h
          · simp only [c5, Bool.false_eq_true, ↓reduceIte] at h ⊢
            by_cases c6 : (bt == btUint16 || bt == btUint16z) = true
            · simp only [c6, ↓reduceIte] at h ⊢; exact h
            · simp only [c6, Bool.false_eq_true, ↓reduceIte] at h ⊢
              by_cases c7 : (bt == btSint32) = true
              · simp only [c7, ↓reduceIte] at h ⊢; exact h
              · simp only [c7, Bool.false_eq_true, ↓reduceIte] at h ⊢
                by_cases c8 : (bt == btUint32 || bt == btUint32z) = true
                · simp only [c8, ↓reduceIte] at h ⊢; exact h
                · simp only [c8, Bool.false_eq_true, ↓reduceIte] at h ⊢
                  by_cases c9 : (bt == btSint64) = true
                  · simp only [c9, ↓reduceIte] at h ⊢; exact h
                  · simp only [c9, Bool.false_eq_true, ↓reduceIte] at h ⊢
                    by_cases c10 : (bt == btUint64 || bt == btUint64z) = true
                    · simp only [c10, ↓reduceIte] at h ⊢; exact h
                    · simp only [c10, Bool.false_eq_true, ↓reduceIte] at h ⊢
                      by_cases c11 : (bt == btString) = true
                      · simp only [c11, ↓reduceIte] at h ⊢; exact h
                      · simp only [c11, Bool.false_eq_true, ↓reduceIte] at h ⊢
                        by_cases c12 : (bt == btFloat32 || bt == btFloat64) = true
                        · simp only [c12, ↓reduceIte] at h; cases h
                        · simp only [c12, Bool.false_eq_true, ↓reduceIte] at h ⊢; exact h

/-- **a string piece**: read by a string field it is the text itself; no other base type reads it -/
theorem sim_str (tp : TextParam) (s : Txt) (bt : Nat) (isBool : Bool) (sc off : Nat) (units : Txt) (v : Value)
    (h : parseAtom Arith.so (.str s) bt isBool sc off units = .ok v) :
    parseValueT tp s bt isBool sc off units = .ok v := by
  unfold parseAtom at h
  unfold parseValueT
  simp only at h
  by_cases c1 : (units == degreesTxt && bt == btSint32) = true
  · simp only [c1, ↓reduceIte] at h; cases h
  · simp only [c1, Bool.false_eq_true, ↓reduceIte] at h ⊢
    by_cases c2 : isBool = true
    · simp only [c2, ↓reduceIte] at h; cases h
    · simp only [c2, Bool.false_eq_true, ↓reduceIte] at h ⊢
      by_cases c11 : (bt == btString) = true
      · have e : bt = btString := by simpa using c11
        subst e
        simp only [beq_self_eq_true, ↓reduceIte] at h
        simp [h, btIsUint8, btString, btEnum, btByte, btUint8, btUint8z, btSint8, btSint16, btUint16, btUint16z, btSint32, btUint32,
          btUint32z, btSint64, btUint64, btUint64z] at h ⊢
      · simp only [c11, Bool.false_eq_true, ↓reduceIte] at h
        by_cases c0 : (bt == btFloat32 || bt == btFloat64 || btIsUint8 bt || bt == btSint8 || bt == btSint16 || bt == btUint16 ||
            bt == btUint16z || bt == btSint32 || bt == btUint32 || bt == btUint32z || bt == btSint64 || bt == btUint64 || bt == btUint64z) = true
        · simp only [c0, ↓reduceIte] at h
          split at h <;> cases h
        · simp only [c0, Bool.false_eq_true, ↓reduceIte] at h
          by_cases cd : hasDot s = true
          · simp only [cd, ↓reduceIte] at h; cases h
          · simp only [cd, Bool.false_eq_true, ↓reduceIte] at h
            simp only [Bool.or_eq_true, not_or, Bool.not_eq_true] at c0
            obtain ⟨⟨⟨⟨⟨⟨⟨⟨⟨⟨⟨⟨a1, a2⟩, a3⟩, a4⟩, a5⟩, a6⟩, a7⟩, a8⟩, a9⟩, a10⟩, a11⟩, a12⟩, a13⟩ := c0
            have c11' : (bt == btString) = false := by simpa using c11
            have cd' : hasDot s = false := by simpa using cd
            simp only [a1, a2, a3, a4, a5, a6, a7, a8, a9, a10, a11, a12, a13, c11', cd', bne, Bool.not_false, Bool.and_false,
              Bool.or_self, Bool.false_eq_true, ↓reduceIte]
            exact h

/-- **every piece**: what the simulation needs — the reader over the text follows the reader over the pieces -/
theorem sim_raw (tp : TextParam) (P : Atom → Prop) (hf : FloatOK tp P) : ∀ a, P a → Sim Arith.so (Arith.so.withText tp) (rawOf tp) a := by
  intro a hP bt isBool sc off units v h
  show parseAtom (Arith.so.withText tp) (.raw (atomText tp a)) bt isBool sc off units = .ok v
  rw [parseAtom_raw]
  show parseValueT tp (atomText tp a) bt isBool sc off units = .ok v
  cases a with
  | int i => exact sim_int tp i bt isBool sc off units v h
  | str s => exact sim_str tp s bt isBool sc off units v h
  | flt b => exact hf.read _ hP rfl bt isBool sc off units v h
  | scaled x s o => exact hf.read _ hP rfl bt isBool sc off units v h
  | degrees x => exact hf.read _ hP rfl bt isBool sc off units v h
  | raw t =>
    rw [parseAtom_raw] at h
    have : Arith.so.raw t bt isBool sc off units = .unmodelled := rfl
    rw [this] at h; cases h

end Fit.Csv
