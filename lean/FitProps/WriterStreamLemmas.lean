import FitProps.WriterOutcomeLemmas
/-!
Helper lemmas about the writer model, part 5: the stream encoder against the batch encoder, and the
call-level "success means no failed operation" facts that need no assumption on the writer's state.
-/
namespace Fit.Writer
open Fit.Wire Fit.Crc

/-! ### the stream encoder is the direct-update path, call by call -/

theorem writeAll_written (F : Faults) (o : Opts) (h : Hdr) : ∀ (ms : List WMsg) (s : Stream), s.written = true →
    Stream.writeAll F o h s ms = ({ s with e := (encodeMessages F o s.e ms).1 }, (encodeMessages F o s.e ms).2)
  | [], s, _ => by simp [Stream.writeAll, encodeMessages]
  | m :: ms, s, hw => by
    unfold Stream.writeAll encodeMessages
    have hwm : s.writeMessage F o h m = ({ s with e := (encodeMessage F o s.e m).1 }, (encodeMessage F o s.e m).2) := by
      unfold Stream.writeMessage Stream.ensureHeader
      simp [hw]
    rw [hwm]
    by_cases hok : (encodeMessage F o s.e m).2 = true
    · simp only [hok, if_true]
      exact writeAll_written F o h ms { s with e := (encodeMessage F o s.e m).1 } hw
    · simp only [hok, Bool.false_eq_true, if_false]

/-- the data size the kept header holds after a sequence -/
def nextHdrDs (c : StreamCfg) (o : Opts) (ms : List WMsg) : Nat :=
  if c.clearsHeader then 0 else (encodeMsgs o (freshEnc o) ms).length % 4294967296

theorem stream_sequence_eq (F : Faults) (c : StreamCfg) (o : Opts) (h : Hdr) (s : Stream) (m : WMsg) (ms : List WMsg)
    (hw : s.written = false) (hdir : s.e.w.kind.direct = true) :
    (s.sequence F c o h (m :: ms)).1.e.w = (encode F o s.e ⟨h, s.hdrDs, m :: ms⟩).1.w ∧
    (s.sequence F c o h (m :: ms)).2 = (encode F o s.e ⟨h, s.hdrDs, m :: ms⟩).2 ∧
    ((s.sequence F c o h (m :: ms)).2 = true →
      (s.sequence F c o h (m :: ms)).1.e = (encode F o s.e ⟨h, s.hdrDs, m :: ms⟩).1 ∧
      (s.sequence F c o h (m :: ms)).1.written = false ∧
      (s.sequence F c o h (m :: ms)).1.hdrDs =
        if c.clearsHeader then 0 else (updateFileHeader F (encodeBody F o s.e h s.hdrDs (m :: ms)).1 h s.hdrDs).2.1) := by
  unfold Stream.sequence Stream.writeAll Stream.writeMessage Stream.ensureHeader encode encodeDirect encodeBody encodeMessages
  simp only [hw, hdir, if_true, Bool.false_eq_true, if_false]
  by_cases h1 : (encodeFileHeader F s.e h s.hdrDs).2 = true
  · simp only [h1, Bool.not_true, Bool.false_eq_true, if_false]
    by_cases h2 : (encodeMessage F o (encodeFileHeader F s.e h s.hdrDs).1 m).2 = true
    · simp only [h2, if_true]
      rw [writeAll_written F o h ms _ rfl]
      simp only
      by_cases h3 : (encodeMessages F o (encodeMessage F o (encodeFileHeader F s.e h s.hdrDs).1 m).1 ms).2 = true
      · simp only [h3, if_true, Bool.not_true, Bool.false_eq_true, if_false]
        unfold Stream.sequenceCompleted
        simp only
        by_cases h4 : (encodeCRC F (encodeMessages F o (encodeMessage F o (encodeFileHeader F s.e h s.hdrDs).1 m).1 ms).1).2 = true
        · simp only [h4, Bool.not_true, Bool.false_eq_true, if_false]
          by_cases h5 : (updateFileHeader F (encodeCRC F (encodeMessages F o (encodeMessage F o (encodeFileHeader F s.e h s.hdrDs).1 m).1 ms).1).1 h s.hdrDs).2.2 = true
          · simp only [h5, Bool.not_true, Bool.false_eq_true, if_false]
            simp [Enc.reset]
          · simp only [h5, Bool.not_false, if_true]
            simp [Enc.reset]
        · simp only [h4, Bool.not_false, if_true]
          simp [Enc.reset]
      · simp only [h3, Bool.false_eq_true, if_false, Bool.not_false, if_true]
        simp [Enc.reset]
    · simp only [h2, Bool.false_eq_true, if_false, Bool.not_false, if_true]
      simp [Enc.reset]
  · simp only [h1, Bool.not_false, if_true, Bool.false_eq_true, if_false]
    simp [Enc.reset]

theorem updateFileHeader_ds (F : Faults) (e : Enc) (h : Hdr) (hdrDs : Nat) : (updateFileHeader F e h hdrDs).2.1 = e.dataSize := by
  unfold updateFileHeader
  by_cases hsame : hdrDs = e.dataSize
  · rw [if_pos hsame]; exact hsame
  · rw [if_neg hsame]
    simp only
    split
    · rfl
    · split <;> rfl

/-- the FIT values a stream encoder's sequences amount to: its own header, and as the caller's data size what the
kept header holds when the sequence starts -/
def streamFits (c : StreamCfg) (o : Opts) (h : Hdr) : Nat → List (List WMsg) → List FitIn
  | _, [] => []
  | d, ms :: rest => ⟨h, d, ms⟩ :: streamFits c o h (nextHdrDs c o ms) rest

/-- STREAM = BATCH, under every fault schedule: message-by-message writing followed by `SequenceCompleted`, sequence after
sequence, drives the writer exactly as `Encode` of the corresponding FIT values does — same destination operations,
same outcome, same number of completed sequences. -/
theorem stream_chain_eq (F : Faults) (c : StreamCfg) (o : Opts) (h : Hdr) : ∀ (mss : List (List WMsg)) (s : Stream),
    (∀ ms ∈ mss, ms ≠ []) → s.written = false → s.e.Ready o → s.e.w.kind.direct = true →
    (Stream.chain F c o h s mss).1.e.w = (encodeChainW F o s.e (streamFits c o h s.hdrDs mss)).1.w ∧
    (Stream.chain F c o h s mss).2 = (encodeChainW F o s.e (streamFits c o h s.hdrDs mss)).2
  | [], s, _, _, _, _ => by simp [Stream.chain, streamFits, encodeChainW]
  | [] :: _, _, hne, _, _, _ => absurd rfl (hne [] (by simp))
  | (m :: ms) :: rest, s, hne, hw, hr, hdir => by
    obtain ⟨q1, q2, q3⟩ := stream_sequence_eq F c o h s m ms hw hdir
    unfold Stream.chain streamFits encodeChainW
    by_cases hok : (s.sequence F c o h (m :: ms)).2 = true
    · have hok2 : (encode F o s.e ⟨h, s.hdrDs, m :: ms⟩).2 = true := by rw [← q2]; exact hok
      obtain ⟨r1, r2, r3⟩ := q3 hok
      have ho := encode_outcome F o s.e ⟨h, s.hdrDs, m :: ms⟩ hr.idle hr.fresh hr.own
      rw [hok2] at ho
      have hr1 : (s.sequence F c o h (m :: ms)).1.e.Ready o := by rw [r1]; exact ho.ready hr
      have hd1 : (s.sequence F c o h (m :: ms)).1.e.w.kind.direct = true := by rw [r1, ho.kind]; exact hdir
      have hds : (s.sequence F c o h (m :: ms)).1.hdrDs = nextHdrDs c o (m :: ms) := by
        rw [r3, updateFileHeader_ds]
        unfold nextHdrDs
        split
        · rfl
        · have hbok : (encodeBody F o s.e h s.hdrDs (m :: ms)).2 = true := by
            have := hok2
            unfold encode encodeDirect at this
            simp only [hdir, if_true] at this
            by_cases hb : (encodeBody F o s.e h s.hdrDs (m :: ms)).2 = true
            · exact hb
            · simp [hb] at this
          exact ((encodeBody_spec F o s.e h s.hdrDs (m :: ms) hr.idle.good hr.fresh).2.2 hbok).2.2
      obtain ⟨i1, i2⟩ := stream_chain_eq F c o h rest (s.sequence F c o h (m :: ms)).1
        (fun x hx => hne x (by simp [hx])) r2 hr1 hd1
      simp only [hok, hok2, Bool.not_true, Bool.false_eq_true, if_false]
      rw [hds, r1] at i1 i2
      rw [i1, i2]
      exact ⟨rfl, rfl⟩
    · have hok' : (s.sequence F c o h (m :: ms)).2 = false := by simpa using hok
      have hok2 : (encode F o s.e ⟨h, s.hdrDs, m :: ms⟩).2 = false := by rw [← q2]; exact hok'
      simp only [hok', hok2, Bool.not_false, if_true]
      exact ⟨q1, trivial⟩

/-! ### an API call that reports success has seen no failed destination operation — from ANY state -/

theorem writeRecord_clean (F : Faults) (e : Enc) (b : Bytes) (hc : e.w.Clean) (hok : (writeRecord F e b).2 = true) :
    (writeRecord F e b).1.w.Clean := by
  unfold writeRecord at hok ⊢
  by_cases hw : (e.w.write F b).2.2 = true
  · rw [if_pos hw]; exact write_clean F e.w b hc hw
  · rw [if_neg hw] at hok; cases hok

theorem encodeMessage_clean (F : Faults) (o : Opts) (e : Enc) (m : WMsg) (hc : e.w.Clean)
    (hok : (encodeMessage F o e m).2 = true) : (encodeMessage F o e m).1.w.Clean := by
  unfold encodeMessage at hok ⊢
  generalize encodeMsgParts o e.es m = parts at hok ⊢
  obtain ⟨es', d?, rec⟩ := parts
  cases d? with
  | none => exact writeRecord_clean F _ rec hc hok
  | some db =>
    simp only at hok ⊢
    by_cases h1 : (writeRecord F { e with es := es' } db).2 = true
    · rw [if_pos h1] at hok ⊢
      exact writeRecord_clean F _ rec (writeRecord_clean F _ db hc h1) hok
    · rw [if_neg h1] at hok; exact absurd hok h1

theorem encodeMessages_clean (F : Faults) (o : Opts) : ∀ (ms : List WMsg) (e : Enc), e.w.Clean →
    (encodeMessages F o e ms).2 = true → (encodeMessages F o e ms).1.w.Clean
  | [], e, hc, _ => hc
  | m :: ms, e, hc, hok => by
    unfold encodeMessages at hok ⊢
    by_cases h1 : (encodeMessage F o e m).2 = true
    · rw [if_pos h1] at hok ⊢
      exact encodeMessages_clean F o ms _ (encodeMessage_clean F o e m hc h1) hok
    · rw [if_neg h1] at hok; exact absurd hok h1

theorem encodeFileHeader_clean (F : Faults) (e : Enc) (h : Hdr) (ds : Nat) (hc : e.w.Clean)
    (hok : (encodeFileHeader F e h ds).2 = true) : (encodeFileHeader F e h ds).1.w.Clean :=
  write_clean F e.w _ hc hok

theorem encodeCRC_clean (F : Faults) (e : Enc) (hc : e.w.Clean) (hok : (encodeCRC F e).2 = true) :
    (encodeCRC F e).1.w.Clean := by
  unfold encodeCRC at hok ⊢
  by_cases hw : (e.w.write F (Wire.le16 e.crc)).2.2 = true
  · rw [if_pos hw]; exact write_clean F e.w _ hc hw
  · rw [if_neg hw] at hok; cases hok

theorem updateFileHeader_clean (F : Faults) (e : Enc) (h : Hdr) (hdrDs : Nat) (hc : e.w.Clean)
    (hok : (updateFileHeader F e h hdrDs).2.2 = true) : (updateFileHeader F e h hdrDs).1.w.Clean := by
  unfold updateFileHeader at hok ⊢
  by_cases hsame : hdrDs = e.dataSize
  · rw [if_pos hsame]; exact hc
  · rw [if_neg hsame] at hok ⊢
    simp only at hok ⊢
    by_cases hsk : e.w.kind.seeker = true
    · rw [if_pos hsk] at hok ⊢; exact rewriteSeek_clean F e.w _ _ hc hok
    · rw [if_neg hsk] at hok ⊢
      by_cases hat : e.w.kind = .at
      · rw [if_pos hat] at hok ⊢; exact writeAt_clean F e.w _ _ hc hok
      · rw [if_neg hat] at hok; cases hok

theorem encodeBody_clean (F : Faults) (o : Opts) (e : Enc) (h : Hdr) (ds : Nat) (ms : List WMsg) (hc : e.w.Clean)
    (hok : (encodeBody F o e h ds ms).2 = true) : (encodeBody F o e h ds ms).1.w.Clean := by
  unfold encodeBody at hok ⊢
  by_cases h1 : (encodeFileHeader F e h ds).2 = true
  · rw [if_neg (by simp [h1])] at hok ⊢
    have c1 := encodeFileHeader_clean F e h ds hc h1
    by_cases h2 : (encodeMessages F o (encodeFileHeader F e h ds).1 ms).2 = true
    · rw [if_neg (by simp [h2])] at hok ⊢
      exact encodeCRC_clean F _ (encodeMessages_clean F o ms _ c1 h2) hok
    · rw [if_pos (by simp [h2])] at hok; exact absurd hok h2
  · rw [if_pos (by simp [h1])] at hok; exact absurd hok h1

/-- `Encode` from any state -/
theorem encode_clean (F : Faults) (o : Opts) (e : Enc) (f : FitIn) (hc : e.w.Clean) (hok : (encode F o e f).2 = true) :
    (encode F o e f).1.w.Clean := by
  unfold encode at hok ⊢
  have hstrat : ∀ r : Enc × Bool, (r.2 = true → r.1.w.Clean) →
      (if !r.2 then (r.1.reset o, false) else ({ r.1.reset o with w := ((r.1.reset o).w.flush F).1 }, ((r.1.reset o).w.flush F).2)).2 = true →
      (if !r.2 then (r.1.reset o, false) else ({ r.1.reset o with w := ((r.1.reset o).w.flush F).1 }, ((r.1.reset o).w.flush F).2)).1.w.Clean := by
    intro r hr hk
    by_cases h1 : r.2 = true
    · rw [if_neg (by simp [h1])] at hk ⊢
      exact flush_clean F r.1.w (hr h1) hk
    · rw [if_pos (by simp [h1])] at hk; cases hk
  apply hstrat _ _ hok
  intro hr
  by_cases hdir : e.w.kind.direct = true
  · rw [if_pos hdir] at hr ⊢
    unfold encodeDirect at hr ⊢
    by_cases hb : (encodeBody F o e f.hdr f.ds0 f.msgs).2 = true
    · rw [if_neg (by simp [hb])] at hr ⊢
      exact updateFileHeader_clean F _ _ _ (encodeBody_clean F o e _ _ _ hc hb) hr
    · rw [if_pos (by simp [hb])] at hr; exact absurd hr hb
  · rw [if_neg hdir] at hr ⊢
    unfold encodeEarly at hr ⊢
    exact encodeBody_clean F o (e.reset o) _ _ _ hc hr

/-- `Encode` with its validators, from any state, any message validator -/
theorem encodeV_clean {σ : Type} (V : MsgValidator σ) (F : Faults) (o : Opts) (e : Enc) (f : FitIn) (hc : e.w.Clean)
    (hok : (encodeV V F o e f).2 = .ok) : (encodeV V F o e f).1.w.Clean := by
  unfold encodeV at hok ⊢
  by_cases h1 : f.msgs.isEmpty = true
  · rw [if_pos h1] at hok; cases hok
  · rw [if_neg h1] at hok ⊢
    by_cases h2 : (!f.msgs.all (protoOK f.hdr.protoVer)) = true
    · rw [if_pos h2] at hok; cases hok
    · rw [if_neg h2] at hok ⊢
      cases hv : validateAll V V.init f.msgs with
      | none => rw [hv] at hok; cases hok
      | some ms' =>
        rw [hv] at hok
        simp only at hok ⊢
        by_cases h3 : (encode F o e { f with msgs := ms' }).2 = true
        · exact encode_clean F o e _ hc h3
        · simp [h3] at hok

theorem ensureHeader_clean (F : Faults) (h : Hdr) (s : Stream) (hc : s.e.w.Clean) (hok : (s.ensureHeader F h).2 = true) :
    (s.ensureHeader F h).1.e.w.Clean := by
  unfold Stream.ensureHeader at hok ⊢
  by_cases hw : s.written = true
  · rw [if_pos hw]; exact hc
  · rw [if_neg hw] at hok ⊢
    exact encodeFileHeader_clean F s.e h s.hdrDs hc hok

/-- `WriteMessage` from any state, any validator -/
theorem writeMessageV_clean {σ : Type} (V : MsgValidator σ) (F : Faults) (o : Opts) (h : Hdr) (s : Stream) (vs : σ) (m : WMsg)
    (hc : s.e.w.Clean) (hok : (s.writeMessageV V F o h vs m).2.2 = .ok) : (s.writeMessageV V F o h vs m).1.e.w.Clean := by
  unfold Stream.writeMessageV at hok ⊢
  by_cases h1 : (s.ensureHeader F h).2 = true
  · rw [if_neg (by simp [h1])] at hok ⊢
    have c1 := ensureHeader_clean F h s hc h1
    by_cases h2 : (!protoOK h.protoVer m) = true
    · rw [if_pos h2] at hok; cases hok
    · rw [if_neg h2] at hok ⊢
      cases hv : V.step vs m with
      | mk vs' r =>
        rw [hv] at hok
        cases r with
        | none => cases hok
        | some m' =>
          simp only at hok ⊢
          by_cases h3 : (encodeMessage F o (s.ensureHeader F h).1.e m').2 = true
          · exact encodeMessage_clean F o _ m' c1 h3
          · simp [h3] at hok
  · rw [if_pos (by simp [h1])] at hok; cases hok

theorem sequenceCompleted_clean (F : Faults) (c : StreamCfg) (o : Opts) (h : Hdr) (s : Stream) (hc : s.e.w.Clean)
    (hok : (s.sequenceCompleted F c o h).2 = true) : (s.sequenceCompleted F c o h).1.e.w.Clean := by
  unfold Stream.sequenceCompleted at hok ⊢
  by_cases h1 : (encodeCRC F s.e).2 = true
  · rw [if_neg (by simp [h1])] at hok ⊢
    have c1 := encodeCRC_clean F s.e hc h1
    by_cases h2 : (updateFileHeader F (encodeCRC F s.e).1 h s.hdrDs).2.2 = true
    · rw [if_neg (by simp [h2])] at hok ⊢
      exact flush_clean F _ (updateFileHeader_clean F _ h s.hdrDs c1 h2) hok
    · rw [if_pos (by simp [h2])] at hok; cases hok
  · rw [if_pos (by simp [h1])] at hok; cases hok

/-- `SequenceCompleted` from any state -/
theorem sequenceCompletedV_clean {σ : Type} (V : MsgValidator σ) (F : Faults) (c : StreamCfg) (o : Opts) (h : Hdr) (s : Stream) (vs : σ)
    (hc : s.e.w.Clean) (hok : (s.sequenceCompletedV V F c o h vs).2.2 = .ok) : (s.sequenceCompletedV V F c o h vs).1.e.w.Clean := by
  unfold Stream.sequenceCompletedV at hok ⊢
  by_cases h1 : (encodeCRC F s.e).2 = true
  · rw [if_neg (by simp [h1])] at hok ⊢
    by_cases h2 : (updateFileHeader F (encodeCRC F s.e).1 h s.hdrDs).2.2 = true
    · rw [if_neg (by simp [h2])] at hok ⊢
      simp only at hok ⊢
      by_cases h3 : (s.sequenceCompleted F c o h).2 = true
      · exact sequenceCompleted_clean F c o h s hc h3
      · simp [h3] at hok
    · rw [if_pos (by simp [h2])] at hok; cases hok
  · rw [if_pos (by simp [h1])] at hok; cases hok

theorem fitsOf_streamFits (c : StreamCfg) (o : Opts) (h : Hdr) : ∀ (d : Nat) (mss : List (List WMsg)),
    fitsOf (streamFits c o h d mss) = mss.map fun ms => (h, ms)
  | _, [] => rfl
  | d, ms :: rest => by
    simp only [streamFits, fitsOf, List.map_cons]
    exact congrArg _ (fitsOf_streamFits c o h _ rest)

/-- VALIDATION ORDER: validating each message right before it is written (stream) and validating all messages up front
(batch) hand the same messages to `encodeMessage`, in the same order, with the same validator state — whenever the
batch gate accepts the list. -/
theorem writeAllV_eq {σ : Type} (V : MsgValidator σ) (F : Faults) (o : Opts) (h : Hdr) :
    ∀ (ms ms' : List WMsg) (s : Stream) (vs : σ), ms.all (protoOK h.protoVer) = true → validateAll V vs ms = some ms' →
    (Stream.writeAllV V F o h s vs ms).1 = (Stream.writeAll F o h s ms').1 ∧
    (Stream.writeAllV V F o h s vs ms).2.2 = (if (Stream.writeAll F o h s ms').2 then Res.ok else Res.err)
  | [], ms', s, vs, _, hv => by
    simp only [validateAll, Option.some.injEq] at hv
    subst hv
    simp [Stream.writeAllV, Stream.writeAll]
  | m :: ms, ms', s, vs, hp, hv => by
    simp only [List.all_cons, Bool.and_eq_true] at hp
    unfold validateAll at hv
    cases hstep : V.step vs m with
    | mk vs' r =>
      rw [hstep] at hv
      cases r with
      | none => simp at hv
      | some m' =>
        simp only at hv
        cases hrest : validateAll V vs' ms with
        | none => rw [hrest] at hv; simp at hv
        | some rest' =>
          rw [hrest] at hv
          simp only [Option.map_some, Option.some.injEq] at hv
          subst hv
          unfold Stream.writeAllV Stream.writeAll
          have hwm : s.writeMessageV V F o h vs m =
              ((s.writeMessage F o h m').1, (if (s.ensureHeader F h).2 then vs' else vs),
                if (s.writeMessage F o h m').2 then Res.ok else Res.err) := by
            unfold Stream.writeMessageV Stream.writeMessage
            by_cases h1 : (s.ensureHeader F h).2 = true
            · simp [h1, hp.1, hstep]
            · simp [h1]
          rw [hwm]
          by_cases hok : (s.writeMessage F o h m').2 = true
          · have h1 : (s.ensureHeader F h).2 = true := by
              unfold Stream.writeMessage at hok
              by_cases h1 : (s.ensureHeader F h).2 = true
              · exact h1
              · simp [h1] at hok
            simp only [hok, h1, if_true]
            exact writeAllV_eq V F o h ms rest' _ vs' hp.2 hrest
          · simp [hok]

end Fit.Writer
