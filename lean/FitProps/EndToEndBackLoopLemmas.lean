import FitProps.EndToEndBackFieldLemmas
import FitProps.EndToEndSemLemmas
/-!
Loop layer of the RE-ENCODING direction of C01: an invariant of the decoder-API model over ARBITRARY byte streams —
every message `Fit.DecApi` returns (`decodeChain`: the `Next` / `Decode` loop, component expansion off) consists of good
fields (`FieldGood`) and good developer fields (`DevGood`), message number below 65536. Nothing here assumes that the bytes
were written by an encoder.
-/
set_option linter.unusedSimpArgs false
set_option linter.unusedVariables false
namespace Fit.E2E
open Fit.Gen Fit.Gen.DecApi Fit.Value Fit.Utf8 Fit.DecApi Fit.Crc

/-! ### results that are `ok` -/

/-- the result, if it is `ok`, satisfies `P` (nothing is said about errors and panics) -/
def OkSat {α} (P : α → Prop) (r : Res α) : Prop := ∀ a, r = .ok a → P a

theorem OkSat.bind {α β} {P : α → Prop} {Q : β → Prop} {r : Res α} {f : α → Res β}
    (h1 : OkSat P r) (h2 : ∀ a, P a → OkSat Q (f a)) : OkSat Q (r >>= f) := by
  intro b hb
  cases r with
  | ok a => exact h2 a (h1 a rfl) b hb
  | err e => cases hb
  | panic => cases hb
  | hang => cases hb

theorem OkSat.bind' {α β} {P : α → Prop} {Q : β → Prop} {r : Res α} {f : α → Res β}
    (h1 : OkSat P r) (h2 : ∀ a, P a → OkSat Q (f a)) : OkSat Q (r.bind f) := OkSat.bind h1 h2

theorem OkSat.pure {α} {P : α → Prop} (a : α) (h : P a) : OkSat P (Pure.pure a : Res α) := by
  intro b hb; cases hb; exact h

theorem OkSat.ok {α} {P : α → Prop} (a : α) (h : P a) : OkSat P (Res.ok a) := by
  intro b hb; cases hb; exact h

theorem OkSat.err {α} {P : α → Prop} (e : Err) : OkSat P (Res.err e : Res α) := by intro b hb; cases hb
theorem OkSat.panic {α} {P : α → Prop} : OkSat P (Res.panic : Res α) := by intro b hb; cases hb
theorem OkSat.hang {α} {P : α → Prop} : OkSat P (Res.hang : Res α) := by intro b hb; cases hb

/-! ### the invariant -/

/-- a definition whose numbers are bytes and whose base types are valid -/
def DefB (d : MesgDef) : Prop :=
  d.mesgNum < 65536 ∧ (∀ f ∈ d.fields, f.num < 256 ∧ f.size < 256 ∧ btValid f.bt = true) ∧
    (∀ f ∈ d.devs, f.num < 256 ∧ f.size < 256 ∧ f.idx < 256)

/-- a decoded message all of whose fields and developer fields are good -/
def MsgGood (fac : Factory) (m : Msg) : Prop :=
  m.num < 65536 ∧ (∀ d ∈ m.fields, FieldGood fac m.num d) ∧ (∀ d ∈ m.devs, DevGood d)

structure GInv (s : St) : Prop where
  bytes : Bytes s.rest
  defs : ∀ p ∈ s.look.defs, DefB p.2
  msgs : ∀ m ∈ s.q.msgs, MsgGood s.o.fac m
  plain : PlainOpts s.o
  fac : facOKB s.o.fac = true

/-- `s'` is `s` after reading some bytes: only the stream, the byte counter and the running checksum moved -/
def Adv (s s' : St) : Prop :=
  (∃ c, s.rest = c ++ s'.rest) ∧ s'.o = s.o ∧ s'.look = s.look ∧ s'.q.msgs = s.q.msgs

theorem Adv.refl (s : St) : Adv s s := ⟨⟨[], rfl⟩, rfl, rfl, rfl⟩

theorem Adv.trans {a b c : St} (h1 : Adv a b) (h2 : Adv b c) : Adv a c := by
  obtain ⟨⟨c1, r1⟩, o1, l1, m1⟩ := h1
  obtain ⟨⟨c2, r2⟩, o2, l2, m2⟩ := h2
  exact ⟨⟨c1 ++ c2, by rw [r1, r2, List.append_assoc]⟩, by rw [o2, o1], by rw [l2, l1], by rw [m2, m1]⟩

theorem Adv.ginv {s s' : St} (h : Adv s s') (g : GInv s) : GInv s' := by
  obtain ⟨⟨c, r⟩, o, l, m⟩ := h
  refine ⟨?_, by rw [l]; exact g.defs, by rw [m, o]; exact g.msgs, by rw [o]; exact g.plain, by rw [o]; exact g.fac⟩
  intro x hx
  exact g.bytes x (by rw [r]; exact List.mem_append_right _ hx)

theorem readN_ok' (k : Nat) (s : St) (hs : Bytes s.rest) :
    OkSat (fun (p : List Nat × St) => p.1 = s.rest.take k ∧ p.1.length = k ∧ Bytes p.1 ∧ Adv s p.2 ∧ p.2.rest = s.rest.drop k ∧
      p.2.q.ts = s.q.ts ∧ p.2.q.lastOff = s.q.lastOff) (readN k s) := by
  intro p hp
  unfold readN rawRead at hp
  split at hp
  · cases hp
  · split at hp
    · rename_i hn
      rw [hasN_iff] at hn
      simp only [Bind.bind, Res.bind, Pure.pure] at hp
      cases hp
      refine ⟨rfl, by simp [hn], fun x hx => hs x (List.mem_of_mem_take hx), ⟨⟨s.rest.take k, (List.take_append_drop k s.rest).symm⟩, rfl, rfl, rfl⟩, rfl, rfl, rfl⟩
    · cases hp

/-! ### definitions -/

theorem parseFieldDefs_b : ∀ (b : List Nat) (fs : List FieldDef), Bytes b → parseFieldDefs b = some fs →
    ∀ f ∈ fs, f.num < 256 ∧ f.size < 256 ∧ btValid f.bt = true
  | a :: sz :: bt :: rest, fs, hb, h => by
    unfold parseFieldDefs at h
    split at h
    · cases h
    · rename_i hv
      split at h
      · rename_i fs' hfs
        cases h
        intro f hf
        rcases List.mem_cons.mp hf with rfl | hf
        · exact ⟨hb a (by simp), hb sz (by simp), by simpa [validBaseType] using hv⟩
        · exact parseFieldDefs_b rest fs' (fun x hx => hb x (by simp [hx])) hfs f hf
      · cases h
  | [], fs, _, h => by simp [parseFieldDefs] at h; subst h; intro f hf; cases hf
  | [_], fs, _, h => by simp [parseFieldDefs] at h; subst h; intro f hf; cases hf
  | [_, _], fs, _, h => by simp [parseFieldDefs] at h; subst h; intro f hf; cases hf

theorem parseDevDefs_b : ∀ (b : List Nat), Bytes b → ∀ f ∈ parseDevDefs b, f.num < 256 ∧ f.size < 256 ∧ f.idx < 256
  | a :: sz :: i :: rest, hb => by
    intro f hf
    unfold parseDevDefs at hf
    rcases List.mem_cons.mp hf with rfl | hf
    · exact ⟨hb a (by simp), hb sz (by simp), hb i (by simp)⟩
    · exact parseDevDefs_b rest (fun x hx => hb x (by simp [hx])) f hf
  | [], _ => by intro f hf; simp [parseDevDefs] at hf
  | [_], _ => by intro f hf; simp [parseDevDefs] at hf
  | [_, _], _ => by intro f hf; simp [parseDevDefs] at hf

theorem idx_ok (b : List Nat) (i : Nat) : OkSat (fun x => x ∈ b) (idx b i) := by
  intro x hx
  unfold idx at hx
  split at hx
  · rename_i y hy
    cases hx
    exact List.mem_of_getElem? hy
  · cases hx

theorem slice_ok (b : List Nat) (lo hi : Nat) : OkSat (fun x => x = (b.drop lo).take (hi - lo)) (slice b lo hi) := by
  intro x hx
  unfold slice at hx
  split at hx
  · cases hx; rfl
  · cases hx

theorem le16_lt (b : List Nat) (hb : Bytes b) : le16 b < 65536 := by
  unfold le16
  have h0 : b.getD 0 0 < 256 := by
    cases b with
    | nil => simp
    | cons x _ => simpa using hb x (by simp)
  have h1 : b.getD 1 0 < 256 := by
    match b, hb with
    | [], _ => simp
    | [_], _ => simp
    | _ :: y :: _, hb => simpa using hb y (by simp)
  omega

theorem be16_lt (b : List Nat) (hb : Bytes b) : be16 b < 65536 := by
  unfold be16
  have h0 : b.getD 0 0 < 256 := by
    cases b with
    | nil => simp
    | cons x _ => simpa using hb x (by simp)
  have h1 : b.getD 1 0 < 256 := by
    match b, hb with
    | [], _ => simp
    | [_], _ => simp
    | _ :: y :: _, hb => simpa using hb y (by simp)
  omega

theorem decodeDefinition_g (header : Nat) (s : St) (g : GInv s) :
    OkSat (fun (p : St × Option Event) => GInv p.1 ∧ p.1.q.msgs = s.q.msgs ∧ p.1.o = s.o) (decodeDefinition header s) := by
  unfold decodeDefinition
  refine OkSat.bind (readN_ok' 5 s g.bytes) ?_
  rintro ⟨b, s1⟩ ⟨_, _, hb1, a1, _⟩
  simp only at hb1 a1 ⊢
  split
  · exact OkSat.panic
  refine OkSat.bind (idx_ok b 0) ?_
  intro reserved _
  refine OkSat.bind (idx_ok b 1) ?_
  intro arch _
  refine OkSat.bind (slice_ok b 2 4) ?_
  intro mn hmn
  refine OkSat.bind (idx_ok b 4) ?_
  intro n _
  have g1 := a1.ginv g
  refine OkSat.bind (readN_ok' (n * 3) s1 g1.bytes) ?_
  rintro ⟨fb, s2⟩ ⟨_, _, hb2, a2, _⟩
  simp only at hb2 a2 ⊢
  split
  · exact OkSat.err _
  rename_i fields hfields
  have hv := parseFieldDefs_b fb fields hb2 hfields
  have g2 := a2.ginv g1
  have a12 := a1.trans a2
  refine OkSat.bind (P := fun (p : List DevDef × St) => Adv s p.2 ∧ ∀ f ∈ p.1, f.num < 256 ∧ f.size < 256 ∧ f.idx < 256) ?_ ?_
  · split
    · refine OkSat.bind (readN_ok' 1 s2 g2.bytes) ?_
      rintro ⟨nb, s3⟩ ⟨_, _, hb3, a3, _⟩
      simp only at hb3 a3 ⊢
      refine OkSat.bind (idx_ok nb 0) ?_
      intro k _
      have g3 := a3.ginv g2
      refine OkSat.bind (readN_ok' (k * 3) s3 g3.bytes) ?_
      rintro ⟨db, s4⟩ ⟨_, _, hb4, a4, _⟩
      simp only at hb4 a4 ⊢
      exact OkSat.pure _ ⟨(a12.trans a3).trans a4, parseDevDefs_b db hb4⟩
    · exact OkSat.pure _ ⟨a12, by intro f hf; cases hf⟩
  · rintro ⟨devs, s5⟩ ⟨a5, hd5⟩
    simp only at a5 hd5 ⊢
    apply OkSat.pure
    have g5 := a5.ginv g
    have hmn' : Bytes mn := by
      rw [hmn]; intro x hx
      exact hb1 x (List.mem_of_mem_drop (List.mem_of_mem_take hx))
    refine ⟨⟨g5.bytes, ?_, g5.msgs, g5.plain, g5.fac⟩, a5.2.2.2, a5.2.1⟩
    intro p hp
    simp only at hp
    rcases List.mem_cons.mp hp with rfl | hp
    · refine ⟨?_, hv, hd5⟩
      show (if arch = littleEndian then le16 mn else be16 mn) < 65536
      split
      · exact le16_lt mn hmn'
      · exact be16_lt mn hmn'
    · exact g5.defs p hp

/-! ### fields of a data record -/

theorem noteTs_adv (num : Nat) (v : Value) (s : St) : Adv s (noteTs num v s) := by
  unfold noteTs
  split
  · split
    · exact ⟨⟨[], rfl⟩, rfl, rfl, rfl⟩
    · exact Adv.refl _
  · exact Adv.refl _

theorem noteAcc_off (a : Bool) (m n : Nat) (v : Value) (s : St) (h : s.o.exp = false) : noteAcc a m n v s = s := by
  simp [noteAcc, h]

/-- the stream, the options, the look-ups and the messages after one field was decoded -/
theorem afterField_adv (d : MesgDef) (fd : FieldDef) (s : St) (r : Option DField) (hp : PlainOpts s.o) :
    Adv s (afterField d fd s r) := by
  cases r with
  | none => exact Adv.refl s
  | some f =>
    have hadv : Adv s (adv s fd.size) :=
      ⟨⟨s.rest.take fd.size, (List.take_append_drop _ _).symm⟩, rfl, rfl, rfl⟩
    have h2 := noteTs_adv fd.num f.value (adv s fd.size)
    show Adv s (noteAcc _ _ _ _ (noteTs fd.num f.value (adv s fd.size)))
    rw [noteAcc_off _ _ _ _ _ (by rw [h2.2.1]; exact hp.exp)]
    exact hadv.trans h2

theorem noteTs_o (num : Nat) (v : Value) (s : St) : (noteTs num v s).o = s.o := by
  unfold noteTs; split
  · split <;> rfl
  · rfl

theorem decodeField_g (d : MesgDef) (fd : FieldDef) (s : St) (g : GInv s)
    (hfd : fd.num < 256 ∧ fd.size < 256 ∧ btValid fd.bt = true) :
    OkSat (fun (p : Option DField × St) => Adv s p.2 ∧ ∀ f, p.1 = some f → FieldGood s.o.fac d.mesgNum f) (decodeField d fd s) := by
  intro p hp
  by_cases hl : fd.size ≤ s.rest.length
  · rw [decodeField_eq d fd s hfd.2.1 hl] at hp
    obtain ⟨r, hr, hp⟩ := Res.bind_ok hp
    cases hp
    refine ⟨?_, ?_⟩
    · exact afterField_adv d fd s r g.plain
    · intro f hf
      subst hf
      have hb : Bytes (s.rest.take fd.size) := fun x hx => g.bytes x (List.mem_of_mem_take hx)
      exact interpField_good s.o.fac d.mesgNum d.arch fd _ f hb (by simp; omega) hfd.1 hfd.2.2 hr
  · -- the stream ends inside the field: the read fails (or the field has size zero: impossible here)
    exfalso
    unfold decodeField at hp
    simp only [bind, Res.bind, pure] at hp
    cases hsh : fieldShape (s.o.fac.create d.mesgNum fd.num) fd with
    | err e => rw [hsh] at hp; cases hp
    | panic => rw [hsh] at hp; cases hp
    | hang => rw [hsh] at hp; cases hp
    | ok sh =>
      rw [hsh] at hp
      simp only at hp
      have hz : fd.size ≠ 0 := by omega
      simp only [hz, if_false] at hp
      unfold readValue at hp
      have hkb : fd.size ≤ reservedbuf := by have : reservedbuf = 765 := rfl; omega
      rw [readN_eq fd.size s hkb, if_neg hl] at hp
      simp [bind, Res.bind] at hp

theorem decodeFields_g (d : MesgDef) : ∀ (fds : List FieldDef) (acc : List DField) (s : St), GInv s →
    (∀ fd ∈ fds, fd.num < 256 ∧ fd.size < 256 ∧ btValid fd.bt = true) → (∀ f ∈ acc, FieldGood s.o.fac d.mesgNum f) →
    OkSat (fun (p : List DField × St) => Adv s p.2 ∧ ∀ f ∈ p.1, FieldGood s.o.fac d.mesgNum f) (decodeFields d fds acc s) := by
  intro fds
  induction fds with
  | nil =>
    intro acc s g _ hacc
    simp only [decodeFields]
    exact OkSat.ok _ ⟨Adv.refl s, hacc⟩
  | cons fd fds ih =>
    intro acc s g hfds hacc
    simp only [decodeFields]
    refine OkSat.bind (decodeField_g d fd s g (hfds fd (by simp))) ?_
    rintro ⟨r, s1⟩ ⟨a1, hr⟩
    simp only at a1 hr ⊢
    have g1 := a1.ginv g
    have ho : s1.o = s.o := a1.2.1
    have hacc' : ∀ f ∈ (match r with | some f => acc ++ [f] | none => acc), FieldGood s1.o.fac d.mesgNum f := by
      rw [ho]
      intro f hf
      cases r with
      | none => exact hacc f hf
      | some f0 =>
        rcases List.mem_append.mp hf with h | h
        · exact hacc f h
        · simp at h; subst h; exact hr _ rfl
    clear hr
    have := ih _ s1 g1 (fun x hx => hfds x (List.mem_cons_of_mem _ hx)) hacc'
    intro p hp
    obtain ⟨a2, h2⟩ := this p hp
    exact ⟨a1.trans a2, by rw [← ho]; exact h2⟩

/-! ### developer fields -/

theorem decodeDevField_g (d : MesgDef) (dd : DevDef) (fdsc : Desc) (s : St) (g : GInv s)
    (hdd : dd.num < 256 ∧ dd.size < 256 ∧ dd.idx < 256) :
    OkSat (fun (p : Option DDev × St) => Adv s p.2 ∧ ∀ f, p.1 = some f → DevGood f) (decodeDevField d dd fdsc s) := by
  intro p hp
  by_cases hl : dd.size ≤ s.rest.length
  · rw [decodeDevField_eq d dd fdsc s hdd.2.1 hl] at hp
    obtain ⟨r, hr, hp⟩ := Res.bind_ok hp
    cases hp
    refine ⟨?_, ?_⟩
    · cases r with
      | none => exact Adv.refl s
      | some f => exact ⟨⟨s.rest.take dd.size, (List.take_append_drop _ _).symm⟩, rfl, rfl, rfl⟩
    · intro f hf
      subst hf
      have hb : Bytes (s.rest.take dd.size) := fun x hx => g.bytes x (List.mem_of_mem_take hx)
      exact interpDev_good d.arch dd fdsc _ f hb (by simp; omega) hdd.1 hdd.2.2 hr
  · exfalso
    unfold decodeDevField at hp
    cases hv : validBaseType fdsc.bt with
    | false => simp [hv] at hp
    | true =>
      simp only [hv, Bool.not_true, Bool.false_eq_true, if_false, bind, Res.bind, pure] at hp
      have hz : dd.size ≠ 0 := by omega
      cases harr : (if dd.size > btSize fdsc.bt then (modP dd.size (btSize fdsc.bt)).bind (fun r => Res.ok (decide (r = 0))) else Res.ok false : Res Bool) with
      | err e => simp only [Res.bind] at harr; rw [harr] at hp; cases hp
      | panic => simp only [Res.bind] at harr; rw [harr] at hp; cases hp
      | hang => simp only [Res.bind] at harr; rw [harr] at hp; cases hp
      | ok arr =>
        simp only [Res.bind] at harr
        rw [harr] at hp
        simp only [hz, if_false] at hp
        unfold readValue at hp
        have hkb : dd.size ≤ reservedbuf := by have : reservedbuf = 765 := rfl; omega
        rw [readN_eq dd.size s hkb, if_neg hl] at hp
        simp [bind, Res.bind] at hp

theorem decodeDevFields_g (d : MesgDef) : ∀ (dds : List DevDef) (acc : List DDev) (s : St), GInv s →
    (∀ dd ∈ dds, dd.num < 256 ∧ dd.size < 256 ∧ dd.idx < 256) → (∀ f ∈ acc, DevGood f) →
    OkSat (fun (p : List DDev × St) => Adv s p.2 ∧ ∀ f ∈ p.1, DevGood f) (decodeDevFields d dds acc s) := by
  intro dds
  induction dds with
  | nil =>
    intro acc s g _ hacc
    simp only [decodeDevFields]
    exact OkSat.ok _ ⟨Adv.refl s, hacc⟩
  | cons dd dds ih =>
    intro acc s g hdds hacc
    simp only [decodeDevFields]
    split
    · refine OkSat.bind (readN_ok' dd.size s g.bytes) ?_
      rintro ⟨_, s1⟩ ⟨_, _, _, a1, _⟩
      simp only at a1 ⊢
      have := ih acc s1 (a1.ginv g) (fun x hx => hdds x (List.mem_cons_of_mem _ hx)) hacc
      intro p hp
      obtain ⟨a2, h2⟩ := this p hp
      exact ⟨a1.trans a2, h2⟩
    · rename_i fdsc _
      refine OkSat.bind (decodeDevField_g d dd fdsc s g (hdds dd (by simp))) ?_
      rintro ⟨r, s1⟩ ⟨a1, hr⟩
      simp only at a1 hr ⊢
      have hacc' : ∀ f ∈ (match r with | some f => acc ++ [f] | none => acc), DevGood f := by
        intro f hf
        cases r with
        | none => exact hacc f hf
        | some f0 =>
          rcases List.mem_append.mp hf with h | h
          · exact hacc f h
          · simp at h; subst h; exact hr _ rfl
      clear hr
      have := ih _ s1 (a1.ginv g) (fun x hx => hdds x (List.mem_cons_of_mem _ hx)) hacc'
      intro p hp
      obtain ⟨a2, h2⟩ := this p hp
      exact ⟨a1.trans a2, h2⟩

/-! ### data records -/

theorem pow_256_4 : (256 : Nat) ^ 4 = 4294967296 := by decide

theorem tsField_good (fac : Factory) (hfac : facOKB fac = true) (m t : Nat) (ht : t < 4294967296) :
    FieldGood fac m (if (fac.create m fieldNumTimestamp).known then
      ⟨fieldNumTimestamp, (fac.create m fieldNumTimestamp).bt, true, (fac.create m fieldNumTimestamp).isBool,
        (fac.create m fieldNumTimestamp).array, .uint32 t, false⟩
      else ⟨fieldNumTimestamp, btUint32, false, false, false, .uint32 t, false⟩) := by
  have ht' : t < 256 ^ btSize btUint32 := by
    rw [show btSize btUint32 = 4 from by decide +kernel, pow_256_4]; exact ht
  have hn : NumBt btUint32 := ⟨by decide +kernel, by decide⟩
  have hv : Value.uint32 t = scalarOf btUint32 false t := by
    simp [scalarOf, btUint32, btSint8, btEnum, btByte, btUint8, btUint8z, btSint16, btUint16, btUint16z, btSint32]
  cases hk : (fac.create m fieldNumTimestamp).known with
  | true =>
    obtain ⟨h1, h2, h3⟩ := facOK_ts fac hfac m hk
    simp only [if_true, h1, h2, h3]
    rw [hv]
    exact good_known fac m fieldNumTimestamp 4 btUint32 false false _ (by decide) (by decide) hk h1 h3 h2
      (Or.inr ⟨by decide +kernel, Or.inl ⟨hn, Or.inr ⟨rfl, t, rfl, ht'⟩⟩⟩)
  | false =>
    simp only [Bool.false_eq_true, if_false]
    rw [hv]
    have := good_unknown fac m fieldNumTimestamp 4 btUint32 false (scalarOf btUint32 false t) (by decide) hk (by decide +kernel)
      (Or.inr ⟨by decide +kernel, by
        rw [if_neg (by decide)]
        exact Or.inl ⟨hn, Or.inr ⟨by decide +kernel, t, rfl, ht'⟩⟩⟩)
    have e : decide (4 > btSize btUint32 ∧ 4 % btSize btUint32 = 0) = false := by decide +kernel
    rw [e] at this
    exact this

/-- the timestamp field a compressed-timestamp header yields is good -/
theorem compressedTs_g (header : Nat) (d : MesgDef) (s : St) (g : GInv s) :
    Adv s (compressedTs header d s).1 ∧ ∀ f ∈ (compressedTs header d s).2, FieldGood s.o.fac d.mesgNum f := by
  refine ⟨⟨⟨[], rfl⟩, rfl, rfl, rfl⟩, ?_⟩
  intro f hf
  simp only [compressedTs, List.mem_cons, List.not_mem_nil, or_false] at hf
  subst hf
  exact tsField_good s.o.fac g.fac d.mesgNum _ (Nat.mod_lt _ (by decide))

theorem noteMesg_adv (mesgNum : Nat) (fields : List DField) (s : St) :
    (noteMesg mesgNum fields s).o = s.o ∧ (noteMesg mesgNum fields s).rest = s.rest ∧
    (noteMesg mesgNum fields s).look.defs = s.look.defs ∧ (noteMesg mesgNum fields s).q.msgs = s.q.msgs := by
  unfold noteMesg
  simp only
  split <;> split <;> (try split) <;> exact ⟨rfl, rfl, rfl, rfl⟩

theorem noteMesg_ginv (mesgNum : Nat) (fields : List DField) (s : St) (g : GInv s) : GInv (noteMesg mesgNum fields s) := by
  obtain ⟨h1, h2, h3, h4⟩ := noteMesg_adv mesgNum fields s
  exact ⟨by rw [h2]; exact g.bytes, by rw [h3]; exact g.defs, by rw [h4, h1]; exact g.msgs, by rw [h1]; exact g.plain, by rw [h1]; exact g.fac⟩

theorem decodeData_g (header : Nat) (s : St) (g : GInv s) :
    OkSat (fun (p : St × Option Event) => GInv p.1 ∧ p.1.o = s.o) (decodeData header s) := by
  unfold decodeData
  simp only
  split
  · exact OkSat.err _
  rename_i d hd
  have hdef : DefB d := by
    unfold Look.lookup at hd
    cases hf : s.look.defs.find? (·.1 == ((if decide (header &&& mesgCompressedHeaderMask = mesgCompressedHeaderMask) = true then
        (header &&& compressedLocalMesgNumMask) >>> compressedBitShift else header) &&& localMesgNumMask)) with
    | none => rw [hf] at hd; cases hd
    | some p =>
      rw [hf] at hd
      simp only [Option.map_some, Option.some.injEq] at hd
      subst hd
      exact g.defs p (List.mem_of_find?_eq_some hf)
  -- the state and the fields in front (compressed timestamp)
  have hpre : ∃ s0 pre, (if decide (header &&& mesgCompressedHeaderMask = mesgCompressedHeaderMask) = true then compressedTs header d s else (s, [])) = (s0, pre) ∧
      Adv s s0 ∧ ∀ f ∈ pre, FieldGood s.o.fac d.mesgNum f := by
    split
    · exact ⟨_, _, rfl, compressedTs_g header d s g⟩
    · exact ⟨s, [], rfl, Adv.refl s, by intro f hf; cases hf⟩
  obtain ⟨s0, pre, he, a0, hpre⟩ := hpre
  rw [he]
  simp only
  have g0 := a0.ginv g
  have ho0 : s0.o = s.o := a0.2.1
  refine OkSat.bind (decodeFields_g d d.fields pre s0 g0 hdef.2.1 (by rw [ho0]; exact hpre)) ?_
  rintro ⟨fields, s1⟩ ⟨a1, hfields⟩
  simp only at a1 hfields ⊢
  have g1 := a1.ginv g0
  have ho1 : s1.o = s.o := by rw [a1.2.1, ho0]
  have hexp : s1.o.exp = false := by rw [ho1]; exact g.plain.exp
  simp only [hexp, Bool.false_eq_true, if_false, pure, bind, Res.bind]
  have g2 := noteMesg_ginv d.mesgNum fields s1 g1
  have ho2 : (noteMesg d.mesgNum fields s1).o = s.o := by rw [(noteMesg_adv _ _ _).1, ho1]
  refine OkSat.bind' (P := fun (p : List DDev × St) => Adv (noteMesg d.mesgNum fields s1) p.2 ∧ ∀ f ∈ p.1, DevGood f) ?_ ?_
  · split
    · exact OkSat.ok _ ⟨Adv.refl _, by intro f hf; cases hf⟩
    · exact decodeDevFields_g d d.devs [] _ g2 hdef.2.2 (by intro f hf; cases hf)
  · rintro ⟨devs, s3⟩ ⟨a3, hdevs⟩
    simp only at a3 hdevs ⊢
    apply OkSat.ok
    have g3 := a3.ginv g2
    have ho3 : s3.o = s.o := by rw [a3.2.1, ho2]
    have hbo : s3.o.bo = false := by rw [ho3]; exact g.plain.bo
    simp only [pushMsg, hbo, Bool.not_false, if_true]
    refine ⟨⟨g3.bytes, g3.defs, ?_, g3.plain, g3.fac⟩, ho3⟩
    intro m hm
    simp only at hm
    rcases List.mem_cons.mp hm with rfl | hm
    · refine ⟨hdef.1, ?_, hdevs⟩
      show ∀ f ∈ fields, FieldGood s3.o.fac d.mesgNum f
      rw [ho3, ← ho0]; exact hfields
    · exact g3.msgs m hm

theorem decodeMessage_g (s : St) (g : GInv s) :
    OkSat (fun (p : St × Option Event) => GInv p.1 ∧ p.1.o = s.o) (decodeMessage s) := by
  unfold decodeMessage
  refine OkSat.bind (readN_ok' 1 s g.bytes) ?_
  rintro ⟨b, s1⟩ ⟨_, _, _, a1, _⟩
  simp only at a1 ⊢
  refine OkSat.bind (idx_ok b 0) ?_
  intro header _
  have g1 := a1.ginv g
  split
  · intro p hp
    obtain ⟨h1, _, h3⟩ := decodeDefinition_g header s1 g1 p hp
    exact ⟨h1, by rw [h3, a1.2.1]⟩
  · intro p hp
    obtain ⟨h1, h2⟩ := decodeData_g header s1 g1 p hp
    exact ⟨h1, by rw [h2, a1.2.1]⟩

/-- the record loop keeps the invariant, however it ends -/
theorem decodeMessages_g : ∀ (fuel : Nat) (s : St), GInv s →
    GInv (decodeMessages fuel s).1 ∧ (decodeMessages fuel s).1.o = s.o := by
  intro fuel
  induction fuel with
  | zero => intro s g; exact ⟨g, rfl⟩
  | succ f ih =>
    intro s g
    simp only [decodeMessages]
    split
    · cases hm : decodeMessage s with
      | ok p =>
        obtain ⟨s', ev⟩ := p
        obtain ⟨g', ho⟩ := decodeMessage_g s g _ hm
        simp only
        obtain ⟨h1, h2⟩ := ih s' g'
        exact ⟨h1, by rw [h2, ho]⟩
      | err e => exact ⟨g, rfl⟩
      | panic => exact ⟨g, rfl⟩
      | hang => exact ⟨g, rfl⟩
    · exact ⟨g, rfl⟩

/-! ### header, CRC, `Decode`, and the `Next` / `Decode` loop -/

theorem rawRead_ok' (k : Nat) (s : St) : OkSat (fun (p : List Nat × St) => Adv s p.2) (rawRead k s) := by
  intro p hp
  unfold rawRead at hp
  split at hp
  · cases hp
  · split at hp
    · cases hp
      exact ⟨⟨s.rest.take k, (List.take_append_drop k s.rest).symm⟩, rfl, rfl, rfl⟩
    · cases hp

theorem any_ok {α} (r : Res α) : OkSat (fun _ => True) r := fun _ _ => trivial

theorem decodeFileHeader_g (s : St) : OkSat (fun s' => Adv s s') (decodeFileHeader s) := by
  unfold decodeFileHeader
  refine OkSat.bind (rawRead_ok' 1 s) ?_
  rintro ⟨b, s1⟩ a1
  simp only at a1 ⊢
  refine OkSat.bind (any_ok _) ?_
  intro size _
  split
  · exact OkSat.err _
  refine OkSat.bind (rawRead_ok' (size - 1) s1) ?_
  rintro ⟨b2, s2⟩ a2
  simp only at a2 ⊢
  refine OkSat.bind (any_ok _) ?_
  intro dt _
  split
  · exact OkSat.err _
  refine OkSat.bind (any_ok _) ?_
  intro pv _
  refine OkSat.bind (any_ok _) ?_
  intro prof _
  refine OkSat.bind (any_ok _) ?_
  intro ds _
  split
  · exact OkSat.err _
  have a12 := a1.trans a2
  split <;>
  · refine OkSat.bind (any_ok _) ?_
    intro crcb _
    split
    · exact OkSat.pure _ (a12.trans ⟨⟨[], rfl⟩, rfl, rfl, rfl⟩)
    refine OkSat.bind (any_ok _) ?_
    intro body _
    split
    · exact OkSat.err _
    · exact OkSat.pure _ (a12.trans ⟨⟨[], rfl⟩, rfl, rfl, rfl⟩)

theorem headerOnce_g (s : St) : OkSat (fun s' => Adv s s') (headerOnce s) := by
  unfold headerOnce
  split
  · split
    · exact OkSat.err _
    · exact OkSat.ok _ (Adv.refl s)
  · intro s' hs'
    cases hd : decodeFileHeader s with
    | ok s1 =>
      rw [hd] at hs'
      simp only [Res.ok.injEq] at hs'
      subst hs'
      exact (decodeFileHeader_g s s1 hd).trans ⟨⟨[], rfl⟩, rfl, rfl, rfl⟩
    | err e => rw [hd] at hs'; cases hs'
    | panic => rw [hd] at hs'; cases hs'
    | hang => rw [hd] at hs'; cases hs'

theorem decodeCRC_g (s : St) : OkSat (fun s' => Adv s s') (decodeCRC s) := by
  unfold decodeCRC
  refine OkSat.bind (rawRead_ok' 2 s) ?_
  rintro ⟨b, s1⟩ a1
  simp only at a1 ⊢
  refine OkSat.bind (any_ok _) ?_
  intro lo _
  refine OkSat.bind (any_ok _) ?_
  intro hi _
  split
  · exact OkSat.err _
  · exact OkSat.pure _ (a1.trans ⟨⟨[], rfl⟩, rfl, rfl, rfl⟩)

/-- what a decoder between two sequences looks like: the invariant, and no message kept -/
def Idle (o : Opts) (s : St) : Prop := GInv s ∧ s.q.msgs = [] ∧ s.o = o

theorem fail_no_fit {α} (s : St) (r : Res α) (h : ∀ a, r ≠ .ok a) (f : Fit) : (fail s r).2 ≠ .fit f := by
  cases r with
  | ok a => exact absurd rfl (h a)
  | err e => simp [fail]
  | panic => simp [fail]
  | hang => simp [fail]

/-- a successful `Decode` of an idle decoder returns good messages and leaves an idle decoder -/
theorem stepDecode_g (o : Opts) (s s' : St) (f : Fit) (evs : List Event) (hi : Idle o s)
    (h : stepDecode s = (s', .fit f, evs)) : (∀ m ∈ f.msgs, MsgGood o.fac m) ∧ Idle o s' := by
  obtain ⟨g, hm, ho⟩ := hi
  unfold stepDecode at h
  split at h
  · cases h
  unfold decodeBody at h
  cases hh : headerOnce s with
  | ok s1 =>
    rw [hh] at h
    simp only at h
    have a1 := headerOnce_g s s1 hh
    have g1 := a1.ginv g
    obtain ⟨g2, ho2⟩ := decodeMessages_g (fuelOf s1) s1 g1
    rcases hd : decodeMessages (fuelOf s1) s1 with ⟨s2, evs2, r⟩
    rw [hd] at h g2 ho2
    simp only at g2 ho2
    cases r with
    | ok u =>
      simp only at h
      cases hc : decodeCRC s2 with
      | ok s3 =>
        rw [hc] at h
        simp only [Prod.mk.injEq, Out.fit.injEq] at h
        obtain ⟨h1, h2, _⟩ := h
        have a3 := decodeCRC_g s2 s3 hc
        have g3 := a3.ginv g2
        have ho3 : s3.o = o := by rw [a3.2.1, ho2, a1.2.1, ho]
        refine ⟨?_, ?_⟩
        · rw [← h2]
          intro m hm'
          simp only [List.mem_reverse] at hm'
          rw [← ho3]; exact g3.msgs m hm'
        · rw [← h1]
          exact ⟨⟨g3.bytes, (fun p hp => by cases hp), (fun m hm' => by cases hm'), g3.plain, g3.fac⟩, rfl, ho3⟩
      | err e => rw [hc] at h; simp [fail] at h
      | panic => rw [hc] at h; simp [fail] at h
      | hang => rw [hc] at h; simp [fail] at h
    | err e => simp [fail] at h
    | panic => simp [fail] at h
    | hang => simp [fail] at h
  | err e => rw [hh] at h; simp [failHeader, fail] at h
  | panic => rw [hh] at h; simp [failHeader, fail] at h
  | hang => rw [hh] at h; simp [failHeader, fail] at h

/-- `Next` returning true leaves an idle decoder idle -/
theorem stepNext_g (o : Opts) (z : Bool) (s s' : St) (evs : List Event) (hi : Idle o s)
    (h : stepNext z s = (s', .bool true, evs)) : Idle o s' := by
  obtain ⟨g, hm, ho⟩ := hi
  unfold stepNext at h
  split at h
  · cases h
  · split at h
    · cases h; exact ⟨g, hm, ho⟩
    · split at h
      · rename_i s1 hh
        cases h
        have a1 := headerOnce_g s s' hh
        exact ⟨a1.ginv g, by rw [a1.2.2.2, hm], by rw [a1.2.1, ho]⟩
      · cases h
      · cases h
      · cases h

theorem decodeLoop_g (o : Opts) : ∀ (fuel : Nat) (a : Api), Idle o a.d →
    ∀ f ∈ (decodeLoop fuel a).1, ∀ m ∈ f.msgs, MsgGood o.fac m := by
  intro fuel
  induction fuel with
  | zero => intro a _ f hf; simp [decodeLoop] at hf
  | succ n ih =>
    intro a hi f hf
    simp only [decodeLoop] at hf
    rcases hn : DecApi.step a .next with ⟨a1, out1, ev1⟩
    rw [hn] at hf
    have hn' : stepNext (a.n == 0) a.d = (a1.d, out1, ev1) := by
      simp only [DecApi.step, Prod.mk.injEq] at hn
      obtain ⟨h1, h2, h3⟩ := hn
      rw [← h1, ← h2, ← h3]; rfl
    cases out1 with
    | bool b =>
      cases b with
      | true =>
        simp only at hf
        have hi1 := stepNext_g o _ a.d a1.d ev1 hi hn'
        rcases hd : DecApi.step a1 .decode with ⟨a2, out2, ev2⟩
        rw [hd] at hf
        have hd' : stepDecode a1.d = (a2.d, out2, ev2) := by
          simp only [DecApi.step, Prod.mk.injEq] at hd
          obtain ⟨h1, h2, h3⟩ := hd
          rw [← h1, ← h2, ← h3]; rfl
        cases out2 with
        | fit f0 =>
          simp only at hf
          obtain ⟨hgood, hi2⟩ := stepDecode_g o a1.d a2.d f0 ev2 hi1 hd'
          rcases List.mem_cons.mp hf with rfl | hf
          · exact hgood
          · exact ih a2 hi2 f hf
        | header _ => simp at hf
        | fileId _ => simp at hf
        | done => simp at hf
        | bool _ => simp at hf
        | integrity _ _ => simp at hf
        | err _ => simp at hf
        | panic => simp at hf
        | hang => simp at hf
      | false => simp at hf
    | fit _ => simp at hf
    | header _ => simp at hf
    | fileId _ => simp at hf
    | done => simp at hf
    | integrity _ _ => simp at hf
    | err _ => simp at hf
    | panic => simp at hf
    | hang => simp at hf

/-- **every message the decoder returns for ANY byte stream is good** (component expansion off, no listeners; the
factory reads field 253 as a plain uint32 wherever it knows it): the sequences returned by the `Next` / `Decode` loop —
also those returned before a later sequence fails — consist of messages whose number is below 65536, whose fields are
`FieldGood` and whose developer fields are `DevGood` -/
theorem decodeChain_good (o : Opts) (input : List Nat) (hb : Bytes input) (ho : PlainOpts o) (hfac : facOKB o.fac = true) :
    ∀ f ∈ (decodeChain o input).1, ∀ m ∈ f.msgs, MsgGood o.fac m := by
  unfold decodeChain
  apply decodeLoop_g o
  refine ⟨⟨hb, ?_, ?_, ho, hfac⟩, rfl, rfl⟩
  · intro p hp; cases hp
  · intro m hm; cases hm

end Fit.E2E
