import FitModel.Listener
import FitModel.ListenerK
/-! The listener model without options (`FitModel/Listener.lean`, on which theorems of C03 are stated) IS the model with
options (`FitModel/ListenerK.lean`, which the driver runs and C14 is stated on) at the trivial configuration type: the
embedding `toK` commutes with every step of either thread, with the initial state and with the one-thread specification.
So every run of the old model is a run of the new one (with `κ = Unit`, `proc' _ = proc`), and vice versa. Core Lean only. -/
namespace Fit.ListenerK.Legacy
open Fit

def cmdK {M : Type} : Listener.Cmd M → ListenerK.Cmd M Unit
  | .onMesg m => .onMesg m
  | .file => .file
  | .close => .close
  | .reset n => .reset n ()

def afterK : Listener.After → ListenerK.After Unit
  | .file => .file
  | .close => .close
  | .reset n => .reset n ()

def pcK {M : Type} : Listener.PC M → ListenerK.PC M Unit
  | .idle => .idle
  | .onTake m => .onTake m
  | .onSend m t => .onSend m t
  | .closing k a => .closing k (afterK a)
  | .closingPut k t a => .closingPut k t (afterK a)
  | .closeWait a => .closeWait (afterK a)
  | .fin => .fin

def wcK : Listener.WC → ListenerK.WC
  | .recv => .recv
  | .proc t => .proc t
  | .ret t => .ret t
  | .exited => .exited

def toK {M σ : Type} (s : Listener.St M σ) : ListenerK.St M σ Unit :=
  { script := s.script.map cmdK, p := pcK s.p, c := wcK s.c, cfg := (), N := s.N, P := s.P, pool := s.pool, queue := s.queue,
    mem := s.mem, closed := s.closed, done := s.done, active := s.active, file := s.file, results := s.results, nextId := s.nextId }

variable {M σ : Type} (proc : σ → M → σ) (init : σ)

theorem toK_init (N : Nat) (script : List (Listener.Cmd M)) :
    toK (Listener.initSt init N script : Listener.St M σ) = ListenerK.initSt init N () (script.map cmdK) := rfl

theorem toK_finishClose (a : Listener.After) (s : Listener.St M σ) :
    toK (Listener.finishClose init a s) = ListenerK.finishClose init (afterK a) (toK s) := by
  obtain ⟨script, p, c, N, P, pool, queue, mem, closed, done, active, file, results, nextId⟩ := s
  cases a with
  | file => rfl
  | close => rfl
  | reset n =>
    simp only [Listener.finishClose, ListenerK.finishClose, afterK, Listener.resize, ListenerK.resize, toK]
    by_cases h : Listener.poolSize n = P
    · have h' : ListenerK.poolSize n = P := h
      simp only [h, h', if_true]; rfl
    · have h' : ¬ ListenerK.poolSize n = P := h
      simp only [h, h', if_false]; rfl

theorem toK_startClose (a : Listener.After) (s : Listener.St M σ) :
    toK (Listener.startClose init a s) = ListenerK.startClose init (afterK a) (toK s) := by
  unfold Listener.startClose ListenerK.startClose
  by_cases h : s.active = true
  · have h' : (toK s).active = true := h
    rw [if_pos h, if_pos h']
    by_cases hP : s.P = 0
    · have hP' : (toK s).P = 0 := hP
      rw [if_pos hP, if_pos hP']; rfl
    · have hP' : ¬ (toK s).P = 0 := hP
      rw [if_neg hP, if_neg hP']; rfl
  · have h' : ¬ (toK s).active = true := h
    rw [if_neg h, if_neg h']
    exact toK_finishClose init a s

/-- the producer's step commutes with the embedding -/
theorem toK_stepP (s : Listener.St M σ) : ListenerK.stepP init (toK s) = (Listener.stepP init s).map toK := by
  obtain ⟨script, p, c, N, P, pool, queue, mem, closed, done, active, file, results, nextId⟩ := s
  cases p with
  | idle =>
    cases script with
    | nil => rfl
    | cons cmd cs =>
      cases cmd with
      | onMesg m => cases active <;> rfl
      | file =>
        show some (ListenerK.startClose init (afterK .file) (toK ⟨cs, .idle, c, N, P, pool, queue, mem, closed, done, active, file, results, nextId⟩)) = _
        rw [← toK_startClose]; rfl
      | close =>
        show some (ListenerK.startClose init (afterK .close) (toK ⟨cs, .idle, c, N, P, pool, queue, mem, closed, done, active, file, results, nextId⟩)) = _
        rw [← toK_startClose]; rfl
      | reset n =>
        show some (ListenerK.startClose init (afterK (.reset n)) (toK ⟨cs, .idle, c, N, P, pool, queue, mem, closed, done, active, file, results, nextId⟩)) = _
        rw [← toK_startClose]; rfl
  | onTake m => cases pool <;> rfl
  | onSend m t =>
    simp only [ListenerK.stepP, Listener.stepP, toK, pcK]
    by_cases h1 : queue.length < N
    · simp only [h1, if_true]; rfl
    · simp only [h1, if_false]
      cases c with
      | recv =>
        by_cases h2 : N = 0
        · simp only [h2, wcK, and_self, if_true, Option.map_some]; rfl
        · simp [h2]
      | proc t' => simp [wcK]
      | ret t' => simp [wcK]
      | exited => simp [wcK]
  | closing k a => cases pool <;> rfl
  | closingPut k t a =>
    simp only [ListenerK.stepP, Listener.stepP, toK, pcK]
    by_cases h1 : pool.length < P
    · simp only [h1, if_true, Option.map_some]
      by_cases hk : k + 1 < P
      · simp only [hk, if_true]; rfl
      · simp only [hk, if_false]; rfl
    · simp only [h1, if_false]; rfl
  | closeWait a =>
    cases done with
    | false => rfl
    | true =>
      show some (ListenerK.finishClose init (afterK a) (toK ⟨script, .closeWait a, c, N, P, pool, queue, mem, closed, true, active, file, results, nextId⟩)) = _
      rw [← toK_finishClose]; rfl
  | fin => rfl

/-- the worker's step commutes with the embedding -/
theorem toK_stepC (s : Listener.St M σ) :
    ListenerK.stepC (fun _ : Unit => proc) (toK s) = (Listener.stepC proc s).map toK := by
  obtain ⟨script, p, c, N, P, pool, queue, mem, closed, done, active, file, results, nextId⟩ := s
  cases c with
  | recv =>
    cases queue with
    | cons t q => rfl
    | nil => cases closed <;> rfl
  | proc t =>
    simp only [ListenerK.stepC, Listener.stepC, toK, wcK, Option.map_some]
    cases mem t <;> rfl
  | ret t =>
    simp only [ListenerK.stepC, Listener.stepC, toK, wcK]
    by_cases h1 : pool.length < P
    · simp only [h1, if_true]; rfl
    · simp only [h1, if_false]; rfl
  | exited => rfl

/-- every reachable state of the model without options is (the image of) a reachable state of the model with options -/
theorem toK_reachable {N : Nat} {script : List (Listener.Cmd M)} {s : Listener.St M σ}
    (h : Listener.Reachable proc init N script s) :
    ListenerK.Reachable (fun _ : Unit => proc) init N () (script.map cmdK) (toK s) := by
  induction h with
  | init => rw [toK_init]; exact ListenerK.Reachable.init
  | step _ hstep ih =>
    rcases hstep with h | h
    · refine ListenerK.Reachable.step ih (Or.inl ?_)
      rw [toK_stepP, h]; rfl
    · refine ListenerK.Reachable.step ih (Or.inr ?_)
      rw [toK_stepC, h]; rfl

/-- the one-thread specifications agree -/
theorem toK_seqRun (a : Bool) (f : σ) (script : List (Listener.Cmd M)) :
    ListenerK.seqRun (fun _ : Unit => proc) init () a f (script.map cmdK) = Listener.seqRun proc init a f script := by
  induction script generalizing a f with
  | nil => rfl
  | cons c cs ih =>
    cases c with
    | onMesg m => simp only [List.map_cons, cmdK, ListenerK.seqRun, Listener.seqRun]; exact ih _ _
    | file => simp only [List.map_cons, cmdK, ListenerK.seqRun, Listener.seqRun]; rw [ih]
    | close => simp only [List.map_cons, cmdK, ListenerK.seqRun, Listener.seqRun]; exact ih _ _
    | reset n => simp only [List.map_cons, cmdK, ListenerK.seqRun, Listener.seqRun]; exact ih _ _

end Fit.ListenerK.Legacy
