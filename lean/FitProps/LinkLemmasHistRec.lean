import FitProps.Links
import FitProps.DecHistLemmas
/-!
LINK (C) ↔ (D'), the record loop: `DecHist`'s record-level functions are copies of `DecProg`'s with the failure continuation and
the result type as parameters. Here: a binary logical relation over those parameters (`*_par`: two instances of a record-level
function are related by every relation on programs that is closed under `read` and relates the two failure continuations and the
two success continuations), `DecProg`'s functions as instances (`*_inst`), and with them `messages_link` (stated for `DecProg`)
transferred to every client of `DecHist.messages` (`messagesH_link`).
-/
set_option linter.unusedSimpArgs false
set_option linter.unusedVariables false

namespace Fit.LinkH
open Fit.DecApi Fit.Link Fit.ReadBuffer

/-! ### the logical relation -/

section Par
variable {α₁ α₂ : Type} (R : Prog α₁ → Prog α₂ → Prop)
  (hR : ∀ (n : Nat) (c₁ : Except RErr Bytes → Prog α₁) (c₂ : Except RErr Bytes → Prog α₂), (∀ r, R (c₁ r) (c₂ r)) → R (.read n c₁) (.read n c₂))
  {fl₁ : DecProg.St → DecProg.Err → Prog α₁} {fl₂ : DecProg.St → DecProg.Err → Prog α₂}
  (hfl : ∀ st e, R (fl₁ st e) (fl₂ st e))
include hR hfl

theorem rdN_par (chk : Bool) (n : Nat) (st : DecProg.St) (k₁ : Bytes → DecProg.St → Prog α₁) (k₂ : Bytes → DecProg.St → Prog α₂)
    (hk : ∀ b st, R (k₁ b st) (k₂ b st)) : R (DecHist.rdN fl₁ chk n st k₁) (DecHist.rdN fl₂ chk n st k₂) := by
  unfold DecHist.rdN
  apply hR
  intro r
  cases r with
  | error e => exact hfl st (.io e)
  | ok b => exact hk b _

theorem fields_par (chk : Bool) : ∀ (fs : List DecProg.Triplet) (st : DecProg.St) (acc : List (Nat × Bytes))
    (k₁ : DecProg.St → List (Nat × Bytes) → Prog α₁) (k₂ : DecProg.St → List (Nat × Bytes) → Prog α₂),
    (∀ st acc, R (k₁ st acc) (k₂ st acc)) → R (DecHist.fields fl₁ chk fs st acc k₁) (DecHist.fields fl₂ chk fs st acc k₂)
  | [], st, acc, k₁, k₂, hk => by simp only [DecHist.fields]; exact hk st acc
  | (num, size, bt) :: fs, st, acc, k₁, k₂, hk => by
    simp only [DecHist.fields]
    split
    · exact fields_par chk fs st acc k₁ k₂ hk
    · exact rdN_par R hR hfl chk size st _ _ (fun b st' => fields_par chk fs st' _ k₁ k₂ hk)

theorem devFields_par (chk : Bool) (descs : List DecProg.Triplet) : ∀ (fs : List DecProg.Triplet) (st : DecProg.St)
    (acc : List (Nat × Nat × Bytes)) (k₁ : DecProg.St → List (Nat × Nat × Bytes) → Prog α₁)
    (k₂ : DecProg.St → List (Nat × Nat × Bytes) → Prog α₂),
    (∀ st acc, R (k₁ st acc) (k₂ st acc)) →
      R (DecHist.devFields fl₁ chk descs fs st acc k₁) (DecHist.devFields fl₂ chk descs fs st acc k₂)
  | [], st, acc, k₁, k₂, hk => by simp only [DecHist.devFields]; exact hk st acc
  | (num, size, ddi) :: fs, st, acc, k₁, k₂, hk => by
    simp only [DecHist.devFields]
    split
    · exact rdN_par R hR hfl chk size st _ _ (fun b st' => devFields_par chk descs fs st' _ k₁ k₂ hk)
    · split
      · exact hfl _ _
      · split
        · exact devFields_par chk descs fs st acc k₁ k₂ hk
        · exact rdN_par R hR hfl chk size st _ _ (fun b st' => devFields_par chk descs fs st' _ k₁ k₂ hk)

theorem definition_par (chk : Bool) (header : Nat) (st : DecProg.St) (k₁ : DecProg.St → Prog α₁) (k₂ : DecProg.St → Prog α₂)
    (hk : ∀ st, R (k₁ st) (k₂ st)) : R (DecHist.definition fl₁ chk header st k₁) (DecHist.definition fl₂ chk header st k₂) := by
  unfold DecHist.definition
  refine rdN_par R hR hfl chk 5 st _ _ (fun b st => ?_)
  refine rdN_par R hR hfl chk _ st _ _ (fun fb st => ?_)
  dsimp only
  split
  · exact hfl _ _
  · split
    · refine rdN_par R hR hfl chk 1 st _ _ (fun nb st => ?_)
      refine rdN_par R hR hfl chk _ st _ _ (fun db st => ?_)
      exact hk _
    · exact hk _

theorem data_par (chk : Bool) (header : Nat) (st : DecProg.St) (k₁ : Nat → DecProg.St → Prog α₁) (k₂ : Nat → DecProg.St → Prog α₂)
    (hk : ∀ m st, R (k₁ m st) (k₂ m st)) : R (DecHist.data fl₁ chk header st k₁) (DecHist.data fl₂ chk header st k₂) := by
  unfold DecHist.data
  dsimp only
  split
  · exact hfl _ _
  · refine fields_par R hR hfl chk _ st [] _ _ (fun st vals => ?_)
    refine devFields_par R hR hfl chk _ _ _ [] _ _ (fun st devs => ?_)
    exact hk _ _

theorem message_par (chk : Bool) (st : DecProg.St) (k₁ : Bool → DecProg.St → Prog α₁) (k₂ : Bool → DecProg.St → Prog α₂)
    (hk : ∀ f st, R (k₁ f st) (k₂ f st)) : R (DecHist.message fl₁ chk st k₁) (DecHist.message fl₂ chk st k₂) := by
  unfold DecHist.message
  refine rdN_par R hR hfl chk 1 st _ _ (fun b st => ?_)
  dsimp only
  split
  · exact definition_par R hR hfl chk _ st _ _ (hk false)
  · exact data_par R hR hfl chk _ st _ _ (fun m st => hk _ st)

theorem messages_par (chk : Bool) (ds : Nat) : ∀ (fuel : Nat) (fid : Bool) (st : DecProg.St) (k₁ : Bool → DecProg.St → Prog α₁)
    (k₂ : Bool → DecProg.St → Prog α₂), (∀ f st, R (k₁ f st) (k₂ f st)) →
      R (DecHist.messages fl₁ chk ds fuel fid st k₁) (DecHist.messages fl₂ chk ds fuel fid st k₂)
  | 0, fid, st, k₁, k₂, hk => by simp only [DecHist.messages]; exact hk fid st
  | fuel + 1, fid, st, k₁, k₂, hk => by
    simp only [DecHist.messages]
    split
    · exact message_par R hR hfl chk st _ _ (fun f st' => messages_par chk ds fuel _ st' k₁ k₂ hk)
    · exact hk fid st

end Par

/-! ### `DecProg`'s record level is an instance of `DecHist`'s -/

/-- `DecProg`'s hard-wired failure continuation -/
def flP : DecProg.St → DecProg.Err → DecProg.P := fun st e => .ret (DecProg.fail st e)

theorem rdN_inst (chk : Bool) (n : Nat) (st : DecProg.St) (k : Bytes → DecProg.St → DecProg.P) :
    DecProg.rdN chk n st k = DecHist.rdN flP chk n st k := rfl

theorem fields_inst (chk : Bool) : ∀ (fs : List DecProg.Triplet) (st : DecProg.St) (acc : List (Nat × Bytes))
    (k : DecProg.St → List (Nat × Bytes) → DecProg.P), DecProg.fields chk fs st acc k = DecHist.fields flP chk fs st acc k
  | [], st, acc, k => rfl
  | (num, size, bt) :: fs, st, acc, k => by
    simp only [DecProg.fields, DecHist.fields, rdN_inst]
    split
    · exact fields_inst chk fs st acc k
    · congr
      funext b st'
      exact fields_inst chk fs st' _ k

theorem devFields_inst (chk : Bool) (descs : List DecProg.Triplet) : ∀ (fs : List DecProg.Triplet) (st : DecProg.St)
    (acc : List (Nat × Nat × Bytes)) (k : DecProg.St → List (Nat × Nat × Bytes) → DecProg.P),
    DecProg.devFields chk descs fs st acc k = DecHist.devFields flP chk descs fs st acc k
  | [], st, acc, k => rfl
  | (num, size, ddi) :: fs, st, acc, k => by
    simp only [DecProg.devFields, DecHist.devFields, rdN_inst]
    cases List.find? (fun d => decide (d.fst = ddi ∧ d.snd.fst = num)) descs with
    | none =>
      dsimp only
      congr
      funext b st'
      exact devFields_inst chk descs fs st' _ k
    | some d =>
      dsimp only
      by_cases h1 : (!DecProg.validBaseType d.2.2) = true
      · rw [if_pos h1, if_pos h1]; rfl
      · rw [if_neg h1, if_neg h1]
        by_cases h2 : size = 0
        · rw [if_pos h2, if_pos h2]; exact devFields_inst chk descs fs st acc k
        · rw [if_neg h2, if_neg h2]
          congr
          funext b st'
          exact devFields_inst chk descs fs st' _ k

theorem definition_inst (chk : Bool) (header : Nat) (st : DecProg.St) (k : DecProg.St → DecProg.P) :
    DecProg.definition chk header st k = DecHist.definition flP chk header st k := rfl

theorem data_inst (chk : Bool) (header : Nat) (st : DecProg.St) (k : DecProg.St → DecProg.P) :
    DecProg.data chk header st k = DecHist.data flP chk header st (fun _ st => k st) := by
  unfold DecProg.data DecHist.data
  simp only [fields_inst, devFields_inst]
  rfl

theorem message_inst (chk : Bool) (st : DecProg.St) (k : DecProg.St → DecProg.P) :
    DecProg.message chk st k = DecHist.message flP chk st (fun _ st => k st) := by
  unfold DecProg.message DecHist.message
  simp only [rdN_inst, definition_inst, data_inst]

theorem messages_inst (chk : Bool) (ds : Nat) : ∀ (fuel : Nat) (fid : Bool) (st : DecProg.St) (k : DecProg.St → DecProg.P),
    DecProg.messages chk ds fuel st k = DecHist.messages flP chk ds fuel fid st (fun _ st => k st)
  | 0, fid, st, k => rfl
  | fuel + 1, fid, st, k => by
    simp only [DecProg.messages, DecHist.messages, message_inst]
    split
    · congr
      funext f st'
      exact messages_inst chk ds fuel _ st' k
    · rfl

/-! ### the exact-n reader with the unread part -/

theorem runExactR_fst {α : Type} : ∀ (p : Prog α) (bs : Bytes), (runExactR p bs).1 = runExact p bs
  | .ret a, bs => rfl
  | .read n k, bs => by
    simp only [runExactR, runExact]
    exact runExactR_fst _ _

theorem exactRead_suffix (bs : Bytes) (n : Nat) : ∃ pre, bs = pre ++ (exactRead bs n).2 := by
  unfold exactRead
  split
  · exact ⟨bs.take n, (List.take_append_drop n bs).symm⟩
  · split <;> exact ⟨bs, by simp⟩

theorem runExactR_suffix {α : Type} : ∀ (p : Prog α) (bs : Bytes), ∃ pre, bs = pre ++ (runExactR p bs).2
  | .ret a, bs => ⟨[], rfl⟩
  | .read n k, bs => by
    simp only [runExactR]
    obtain ⟨pre, h⟩ := runExactR_suffix (k (exactRead bs n).1) (exactRead bs n).2
    obtain ⟨pre0, h0⟩ := exactRead_suffix bs n
    exact ⟨pre0 ++ pre, by rw [List.append_assoc, ← h, ← h0]⟩

theorem suffix_eq {l a b p q : List Nat} (h1 : l = p ++ a) (h2 : l = q ++ b) (hlen : a.length = b.length) : a = b := by
  have : p ++ a = q ++ b := by rw [← h1, ← h2]
  exact (List.append_inj' this hlen).2

/-! ### the capture instance -/

abbrev Cap := (Bool × DecProg.St) ⊕ (DecProg.St × DecProg.Err)
def capFl : DecProg.St → DecProg.Err → Prog Cap := fun st e => .ret (.inr (st, e))
def capK : Bool → DecProg.St → Prog Cap := fun f st => .ret (.inl (f, st))

/-- every client's run of the record loop factors through the capture instance: where the loop ends (state, "file_id seen" /
state, error) and what it leaves unread do not depend on the client -/
theorem messages_cap {α : Type} (fl : DecProg.St → DecProg.Err → Prog α) (k : Bool → DecProg.St → Prog α) (chk : Bool) (ds fuel : Nat)
    (fid : Bool) (st : DecProg.St) (bs : Bytes) :
    runExact (DecHist.messages fl chk ds fuel fid st k) bs =
      match runExactR (DecHist.messages capFl chk ds fuel fid st capK) bs with
      | (.inl (f, st'), r) => runExact (k f st') r
      | (.inr (st', e), r) => runExact (fl st' e) r := by
  have := messages_par (α₁ := Cap) (α₂ := α)
    (fun p₀ p₂ => ∀ bs, runExact p₂ bs = match runExactR p₀ bs with
      | (.inl (f, st'), r) => runExact (k f st') r
      | (.inr (st', e), r) => runExact (fl st' e) r)
    (by intro n c₁ c₂ h bs; simp only [runExact, runExactR]; exact h _ _)
    (fl₁ := capFl) (fl₂ := fl) (by intro st e bs; rfl) chk ds fuel fid st capK k (by intro f st bs; rfl)
  exact this bs

/-! ### probes -/

def okOut : DecProg.Out := { evs := [], status := none, clean := true }
def badOut : DecProg.Out := { evs := [], status := none, clean := false }

open Classical in
/-- a client that ends with `okOut` exactly when `n` bytes are left unread and `P` holds -/
noncomputable def probe (n : Nat) (P : Prop) : DecProg.P :=
  .read n fun
    | .error _ => .ret badOut
    | .ok _ => .read 1 fun
      | .ok _ => .ret badOut
      | .error _ => .ret (if P then okOut else badOut)

theorem probe_ok (n : Nat) (P : Prop) (rest : Bytes) : runExact (probe n P) rest = okOut ↔ rest.length = n ∧ P := by
  unfold probe
  by_cases h : n ≤ rest.length
  · rw [runExact_read_ok _ _ _ h]
    dsimp only
    by_cases h2 : 1 ≤ (rest.drop n).length
    · rw [runExact_read_ok _ _ _ h2]
      simp only [runExact]
      rw [List.length_drop] at h2
      constructor
      · intro hc; cases hc
      · intro hc; omega
    · rw [runExact_read_short _ _ _ (by omega)]
      simp only [runExact]
      rw [List.length_drop] at h2
      by_cases hp : P
      · rw [if_pos hp]; exact ⟨fun _ => ⟨by omega, hp⟩, fun _ => rfl⟩
      · rw [if_neg hp]; exact ⟨fun hc => (by cases hc), fun hc => absurd hc.2 hp⟩
  · rw [runExact_read_short _ _ _ (by omega)]
    simp only [runExact]
    constructor
    · intro hc; cases hc
    · intro hc; omega

/-! ### the record loop, for every client of `DecHist.messages` -/

theorem eofBlind_ok : EofBlind (fun out => out = okOut) := by
  intro st st' e e' _
  simp [DecProg.fail, okOut]

theorem eofBlind_err (e0 : DecApi.Err) (P : DecProg.St → Prop) :
    EofBlind (fun out => out.status.map errC = some e0 ∧ ∃ st'', P st'' ∧ out.evs = st''.evs.reverse) := by
  intro st st' e e' h
  simp [DecProg.fail, errC, h]

theorem follows_evs {o : Opts} {s : St} {st st' : DecProg.St} {done : List (Out × List Event)} {pend : List Event}
    (h : Follows o s st done pend) (he : st'.evs = st.evs) : Follows o s st' done pend := by
  obtain ⟨t, h1, h2⟩ := h
  exact ⟨t, by rw [he]; exact h1, h2⟩

/-- **`decodeMessages` of (C) against `DecHist.messages`, for every client**: where (C)'s loop ends without error, (D')'s hands
its success continuation a state that corresponds (`CD`, `Tables`, `Follows`) with exactly (C)'s remaining stream unread; where
(C)'s loop fails, (D')'s calls its failure continuation with an error of that class; (C)'s loop neither panics nor hangs -/
theorem messagesH_link {α : Type} (fl : DecProg.St → DecProg.Err → Prog α) (k : Bool → DecProg.St → Prog α) (o : Opts) (chk : Bool)
    (ds : Nat) (done : List (Out × List Event)) (fuelC fuelD : Nat) (fid : Bool) (s : St) (st : DecProg.St) (pend : List Event)
    (hcd : CD chk s st) (hT : Tables s st) (hF : Follows o s st done pend) (hi : Inv s) (hbt : facBtOK s.o.fac = true)
    (hfd : facFdOK s.o.fac = true) (hds : s.q.hdr.dataSize = ds) (hfD : ds ≤ st.cur + fuelD) (hfC : s.rest.length < fuelC) :
    match decodeMessages fuelC s with
    | (sf, evs, .ok ()) => ∃ f st', CD chk sf st' ∧ Tables sf st' ∧ Follows o sf st' done (pend ++ evs) ∧
        runExact (DecHist.messages fl chk ds fuelD fid st k) s.rest = runExact (k f st') sf.rest
    | (sf, evs, .err e) => ∃ st' e' r, errC e' = e ∧ Follows o sf st' done (pend ++ evs) ∧
        runExact (DecHist.messages fl chk ds fuelD fid st k) s.rest = runExact (fl st' e') r
    | (_, _, .panic) => False
    | (_, _, .hang) => False := by
  have hsat := decodeMessages_sat fuelC s hi hfC
  have hcap2 := messages_cap fl k chk ds fuelD fid st s.rest
  rcases hdm : decodeMessages fuelC s with ⟨sf, evs, r⟩
  rw [hdm] at hsat
  obtain ⟨hend, _, hreads, _⟩ := hsat
  dsimp only at hend hreads ⊢
  cases r with
  | panic => exact hend
  | hang => exact hend
  | ok u =>
    cases u
    dsimp only
    have hml := messages_link (fun out => out = okOut) eofBlind_ok o chk ds
      (fun st' => probe sf.rest.length (CD chk sf st' ∧ Tables sf st' ∧ Follows o sf st' done (pend ++ evs))) True done
      fuelC fuelD s st pend hcd hT hF hi hbt hfd hds hfD hfC
      (by rw [hdm]; dsimp only; intro st' h1 h2 h3; exact eq_true ((probe_ok _ _ _).mpr ⟨rfl, h1, h2, h3⟩))
    have hml' := of_eq_true hml
    rw [messages_inst chk ds fuelD fid st, messages_cap] at hml'
    rcases hc : runExactR (DecHist.messages capFl chk ds fuelD fid st capK) s.rest with ⟨c, rest⟩
    rw [hc] at hml' hcap2
    cases c with
    | inl p =>
      obtain ⟨f, st'⟩ := p
      dsimp only at hml' hcap2
      obtain ⟨hlen, h1, h2, h3⟩ := (probe_ok _ _ _).mp hml'
      obtain ⟨pre, hpre⟩ := runExactR_suffix (DecHist.messages capFl chk ds fuelD fid st capK) s.rest
      rw [hc] at hpre
      obtain ⟨cc, hcc, _⟩ := hreads
      have hrest : rest = sf.rest := suffix_eq hpre hcc hlen
      subst hrest
      exact ⟨f, st', h1, h2, h3, hcap2⟩
    | inr p =>
      obtain ⟨st', e'⟩ := p
      dsimp only at hml'
      simp [flP, runExact, DecProg.fail, okOut] at hml'
  | err e =>
    dsimp only
    have hml := messages_link (fun out => out.status.map errC = some e ∧
        ∃ st'', Follows o sf st'' done (pend ++ evs) ∧ out.evs = st''.evs.reverse)
      (eofBlind_err e _) o chk ds
      (fun _ => .ret badOut) True done fuelC fuelD s st pend hcd hT hF hi hbt hfd hds hfD hfC
      (by rw [hdm]; dsimp only; intro st' hf he; exact (eq_true ⟨by simp [DecProg.fail, he], st', hf, rfl⟩).symm)
    have hml' := of_eq_true hml
    rw [messages_inst chk ds fuelD fid st, messages_cap] at hml'
    rcases hc : runExactR (DecHist.messages capFl chk ds fuelD fid st capK) s.rest with ⟨c, rest⟩
    rw [hc] at hml' hcap2
    cases c with
    | inl p =>
      obtain ⟨f, st'⟩ := p
      dsimp only at hml'
      simp [runExact, badOut] at hml'
    | inr p =>
      obtain ⟨st', e'⟩ := p
      dsimp only at hml' hcap2
      obtain ⟨h1, st'', h2, h3⟩ := hml'
      refine ⟨st', e', rest, ?_, follows_evs h2 ?_, hcap2⟩
      · simpa [flP, runExact, DecProg.fail] using h1
      · have : st'.evs.reverse = st''.evs.reverse := h3
        simpa using this

end Fit.LinkH
