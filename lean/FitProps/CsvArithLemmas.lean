import FitProps.C12
import FitProps.CsvLemmas
import FitModel.CsvArith
/-! The arithmetic hypothesis of the CSV round trip, discharged by C12 for the fields of the profile. -/
set_option linter.unusedSimpArgs false
namespace Fit.Csv
open Fit.Value Fit.Msg Fit.Gen Fit.Gen.Csv Fit.F64 Fit.ScaleOffset

/-- every field of the CSV profile table that is written scaled uses a (scale, offset) pair of the regenerated
arithmetic table (`Generated/ProfileArith.lean`, the pairs `C12_profile_pairs_in_range` is about): ties the two
regenerated tables together -/
def scaledPairsOK : Bool :=
  profile.all fun m => m.fields.all fun f =>
    !isScaledField f.scale f.offset || Fit.C12.profilePairs.contains (f.scale, f.offset)

set_option maxRecDepth 100000 in
theorem scaledPairsOK_true : scaledPairsOK = true := by decide +kernel

/-- an integer scalar of at most 32 bits, as `scalarV` -/
def int32Scalar : Value → Option (IntTy × Nat)
  | .int8 v => some (.i8, v) | .uint8 v => some (.u8, v) | .int16 v => some (.i16, v) | .uint16 v => some (.u16, v)
  | .int32 v => some (.i32, v) | .uint32 v => some (.u32, v)
  | _ => none

/-- a decoded integer scalar of at most 32 bits of a field with base type `bt` comes back from the scaled text
(`Arith.so`: kit/scaleoffset + fitcsv.parseValue over binary64) for every (scale, offset) pair of the profile -/
theorem arith_so_profile (bt : Nat) (v : Value) (hv : scalarOK bt false v = true) (ty : IntTy) (pat : Nat)
    (hi : int32Scalar v = some (ty, pat)) (pr : Nat × Nat) (hpr : pr ∈ Fit.C12.profilePairs) :
    Arith.so.scaled v bt pr.1 pr.2 = some v := by
  have key : ∀ (ty : IntTy) (hty : ty.bits ≤ 32) (p : Nat) (hp : p < 2 ^ ty.bits) (hbt : csvTgt bt = some (.int ty)),
      Arith.so.scaled (Fit.C12.scalarV ty p) bt pr.1 pr.2 = some (Fit.C12.scalarV ty p) := by
    intro ty hty p hp hbt
    simp only [Arith.so, Fit.C12.scalarOf_scalarV, Fit.C12.C12_csv ty hty p hp bt hbt pr hpr, Option.getD_some]
  cases v <;> simp only [int32Scalar, Option.some.injEq, Prod.mk.injEq, reduceCtorEq] at hi
  case int8 x =>
    obtain ⟨rfl, rfl⟩ := hi
    simp only [scalarOK, Bool.not_false, Bool.true_and, Bool.and_eq_true, beq_iff_eq, decide_eq_true_eq] at hv
    obtain ⟨rfl, hx⟩ := hv
    exact key .i8 (by decide) _ hx (by decide)
  case uint8 x =>
    obtain ⟨rfl, rfl⟩ := hi
    simp only [scalarOK, Bool.not_false, Bool.true_and, Bool.and_eq_true, decide_eq_true_eq, btIsUint8, Bool.or_eq_true, beq_iff_eq] at hv
    obtain ⟨hb, hx⟩ := hv
    refine key .u8 (by decide) _ hx ?_
    rcases hb with ((h | h) | h) | h <;> subst h <;> decide
  case int16 x =>
    obtain ⟨rfl, rfl⟩ := hi
    simp only [scalarOK, Bool.not_false, Bool.true_and, Bool.and_eq_true, beq_iff_eq, decide_eq_true_eq] at hv
    obtain ⟨rfl, hx⟩ := hv
    exact key .i16 (by decide) _ hx (by decide)
  case uint16 x =>
    obtain ⟨rfl, rfl⟩ := hi
    simp only [scalarOK, Bool.not_false, Bool.true_and, Bool.and_eq_true, decide_eq_true_eq, Bool.or_eq_true, beq_iff_eq] at hv
    obtain ⟨hb, hx⟩ := hv
    refine key .u16 (by decide) _ hx ?_
    rcases hb with h | h <;> subst h <;> decide
  case int32 x =>
    obtain ⟨rfl, rfl⟩ := hi
    simp only [scalarOK, Bool.not_false, Bool.true_and, Bool.and_eq_true, beq_iff_eq, decide_eq_true_eq] at hv
    obtain ⟨rfl, hx⟩ := hv
    exact key .i32 (by decide) _ hx (by decide)
  case uint32 x =>
    obtain ⟨rfl, rfl⟩ := hi
    simp only [scalarOK, Bool.not_false, Bool.true_and, Bool.and_eq_true, decide_eq_true_eq, Bool.or_eq_true, beq_iff_eq] at hv
    obtain ⟨hb, hx⟩ := hv
    refine key .u32 (by decide) _ hx ?_
    rcases hb with h | h <;> subst h <;> decide

theorem isIntScalar_of_int32Scalar {v : Value} {ty : IntTy} {pat : Nat} (h : int32Scalar v = some (ty, pat)) :
    isIntScalar v = true := by
  cases v <;> simp [int32Scalar] at h <;> rfl

/-- **a scaled field of the profile survives the default (scaled) round trip through its cell**, with the arithmetic
as the code computes it: no hypothesis on the arithmetic is left -/
theorem field_rt_scaled_so (o : Opts) (ds : List Desc) (msg : Message) (fld : Field) (pm : PMesg) (p : PField)
    (hpm : pm ∈ profile) (hnum : pm.num = msg.num) (hn : msg.num < mfgRangeMin) (hp : p ∈ pm.fields)
    (hfn : fieldNumOf fld = p.num) (hdeg : o.degrees = false) (hraw : o.raw = false) (hsc : isScaledField p.scale p.offset = true)
    (hsub : substitute msg.fields p.subs = none) (harr : p.array = false) (hb : p.isBool = false)
    (hv : scalarOK p.bt false fld.value = true) (ty : IntTy) (pat : Nat) (hi : int32Scalar fld.value = some (ty, pat)) :
    readCell Arith.so ds msg.num (writeField o msg fld) = .ok (.field (mkField p.num p.bt fld.value)) := by
  have hpair : (p.scale, p.offset) ∈ Fit.C12.profilePairs := by
    have h := scaledPairsOK_true
    simp only [scaledPairsOK, List.all_eq_true, Bool.or_eq_true, Bool.not_eq_true', List.contains_iff_mem] at h
    rcases h pm hpm p hp with h | h
    · rw [hsc] at h; cases h
    · exact h
  have hns : (p.bt == btString) = false := by
    cases hfv : fld.value <;> rw [hfv] at hv hi <;> simp [int32Scalar] at hi <;>
      simp only [scalarOK, Bool.not_false, Bool.true_and, Bool.and_eq_true, beq_iff_eq, decide_eq_true_eq, btIsUint8, Bool.or_eq_true] at hv <;>
      first
        | (obtain ⟨h1, _⟩ := hv; rw [h1]; decide)
        | (obtain ⟨h1 | h1, _⟩ := hv <;> rw [h1] <;> decide)
        | (obtain ⟨((h1 | h1) | h1) | h1, _⟩ := hv <;> rw [h1] <;> decide)
  exact field_rt_scaled Arith.so o ds msg fld pm p hpm hnum hn hp hfn hdeg hraw hsc hsub harr hb
    (isIntScalar_of_int32Scalar hi) hns (arith_so_profile p.bt fld.value hv ty pat hi (p.scale, p.offset) hpair)

end Fit.Csv
