import FitModel.DecoderApi
import FitModel.Generated.Go_decodersize
import FitProps.Go2LeanBasetype
/-!
Agreement of the size arithmetic of decoder/decoder.go, GENERATED from the source as blocks and conditions
(`Go.decodersize.*`: what decides array-ness of a field the profile does not know and of a developer field — with the call
`BaseType.Size()` resolved to the definition generated from profile/basetype —, the position counter of `readN`, the test
of the message loop, the size-0 skip, the header size test), with the decoder model `Fit.DecApi` that the theorems of C03
are about. The undersized fallback of `decodeFields` is deliberately not among the items.
-/
set_option linter.unusedSimpArgs false
set_option linter.unusedVariables false

namespace Fit.Go2Lean
open Fit.DecApi Fit.Value Fit.Gen Fit.Gen.DecApi

/-- the array test `size > bsz && size % bsz == 0` as the model writes it (a zero divisor reached is the Go panic) -/
theorem ds_arr (size bsz : Nat) :
    ((if size > bsz then do let r ← modP size bsz; pure (decide (r = 0)) else pure false : Res Bool)) =
    (match (if decide (size > bsz) = true then (Go.modN size bsz).bind (fun r => some (r == 0)) else some false) with
     | none => .panic | some a => .ok a) := by
  by_cases h : size > bsz
  · by_cases hz : bsz = 0
    · subst hz
      have h0 : 0 < size := h
      simp [h0, modP, Go.modN, bind, Res.bind]
    · simp [h, hz, modP, Go.modN, bind, Res.bind, pure]
      cases hd : decide (size % bsz = 0) <;> simp_all
  · simp [h, pure]

/-- `decodeFields`, a field the profile does not know: base type and profile type come from the definition, the field is an
array iff its size is a proper multiple of the base type's size, a string decides by counting its terminators — the block
translated from the source IS the model's `fieldShape` for an unknown field (its `none` is the model's panic: `% 0` for a
base type of size 0), whatever the overwritten variables held -/
theorem ds_unknownShape (info : FieldInfo) (fd : FieldDef) (hk : info.known = false) (hbt : fd.bt < 256)
    (a : Bool) (b c : Nat) (d : Bool) :
    fieldShape info fd = (match Go.decodersize.decodeFields_unknownShape a b c fd.bt fd.size d with
      | none => .panic
      | some o => .ok (o.field_BaseType, decide (o.field_Type = profileBool), o.field_Array, o.overrideStringArray)) := by
  unfold fieldShape Go.decodersize.decodeFields_unknownShape
  simp only [hk, Bool.false_eq_true, if_false, bt_size fd.bt hbt, Option.bind_eq_bind, Option.bind_some, Option.pure_def]
  rw [ds_arr fd.size (btSize fd.bt)]
  have hm : baseTypeNumMask = 31 := by decide
  have hs : btString = 7 := by decide
  cases (if decide (fd.size > btSize fd.bt) = true then (Go.modN fd.size (btSize fd.bt)).bind fun r => some (r == 0)
      else some false) with
  | none => rfl
  | some arr =>
    have e1 : (fd.bt == 7) = decide (fd.bt = 7) := by cases h7 : decide (fd.bt = 7) <;> simp_all
    have e2 : (7 == fd.bt) = decide (fd.bt = 7) := by   -- the comparison written the other way round
      cases h7 : decide (fd.bt = 7) <;> simp_all <;> omega
    simp [hm, hs, e1, e2, bind, Res.bind, pure]

/-- `decodeDeveloperFields`: the same inference with the base type of the field description -/
theorem ds_devShape (info : FieldInfo) (hk : info.known = false) (dd : DevDef) (fdsc : Desc) (hbt : fdsc.bt < 256) :
    fieldShape info ⟨dd.num, dd.size, fdsc.bt⟩ = (match Go.decodersize.decodeDeveloperFields_shape dd.size fdsc.bt with
      | none => .panic
      | some o => .ok (o.baseType, decide (o.profileType = profileBool), o.isArray, decide (fdsc.bt = btString))) := by
  unfold fieldShape Go.decodersize.decodeDeveloperFields_shape
  simp only [hk, Bool.false_eq_true, if_false, bt_size fdsc.bt hbt, Option.bind_eq_bind, Option.bind_some, Option.pure_def]
  rw [ds_arr dd.size (btSize fdsc.bt)]
  have hm : baseTypeNumMask = 31 := by decide
  cases (if decide (dd.size > btSize fdsc.bt) = true then (Go.modN dd.size (btSize fdsc.bt)).bind fun r => some (r == 0)
      else some false) with
  | none => rfl
  | some arr => simp [hm, bind, Res.bind, pure]

/-- the model's `decodeDevField` takes base type, bool-ness and array-ness exactly as `fieldShape` gives them for an
unknown field of the described base type (so `ds_devShape` is about what `decodeDevField` does) -/
theorem ds_devField_shape (d : MesgDef) (dd : DevDef) (fdsc : Desc) (s : St) (info : FieldInfo) (hk : info.known = false) :
    decodeDevField d dd fdsc s =
      (if !validBaseType fdsc.bt then .err .baseType else do
        let (bt, isBoolF, arr, ovr) ← fieldShape info ⟨dd.num, dd.size, fdsc.bt⟩
        if dd.size = 0 then pure (none, s) else
        let rs := readShape dd.size bt isBoolF arr
        let (v, s) ← readValue dd.size d.arch rs.1 rs.2.1 rs.2.2 ovr s
        let v := if rs.1 ≠ bt then convertBytesToValue (sliceUint8Of v) d.arch bt else v
        pure (some ⟨dd.num, dd.idx, v⟩, s)) := by
  unfold decodeDevField fieldShape
  simp only [hk, Bool.false_eq_true, if_false]
  split
  · rfl
  · cases (if dd.size > btSize fdsc.bt then do let r ← modP dd.size (btSize fdsc.bt); pure (decide (r = 0)) else pure false : Res Bool) <;> rfl

/-- `readN`: the position counter `d.cur` (a uint32) advances by the number of bytes read -/
theorem ds_readN_cur (k : Nat) (hk : k < 2 ^ 31) (s : St) (b : List Nat) (s' : St) (dn : Int)
    (h : readN k s = .ok (b, s')) : s'.q.cur = (Go.decodersize.readN_counters s.q.cur dn (k : Int)).d_cur := by
  unfold readN at h
  cases hr : rawRead k s with
  | ok p =>
    obtain ⟨b0, s0⟩ := p
    have hq : s0.q = s.q := by
      unfold rawRead at hr
      split at hr
      · cases hr
      · split at hr
        · cases hr; rfl
        · cases hr
    simp only [hr, bind, Res.bind, pure] at h
    cases h
    simp only [Go.decodersize.readN_counters, Id.run, hq]
    have : Int.toNat ((k : Int) % 4294967296) = k := by omega
    show _ = (s.q.cur + (Int.toNat ((k : Int) % 2 ^ 32))) % 2 ^ 32
    have e : (2 : Int) ^ 32 = 4294967296 := by decide
    rw [e, this]
  | err e => simp [hr, bind, Res.bind] at h
  | panic => simp [hr, bind, Res.bind] at h
  | hang => simp [hr, bind, Res.bind] at h

/-- `decodeMessages`: the loop test `d.cur < d.fileHeader.DataSize` -/
theorem ds_more (fuel : Nat) (s : St) :
    (Go.decodersize.decodeMessages_more s.q.cur s.q.hdr.dataSize = false → decodeMessages (fuel + 1) s = (s, [], .ok ())) ∧
    (Go.decodersize.decodeMessages_more s.q.cur s.q.hdr.dataSize = true → decodeMessages 0 s = (s, [], .hang)) := by
  constructor <;> intro h <;> simp [Go.decodersize.decodeMessages_more] at h <;> simp [decodeMessages, h] <;> omega


/-- a field definition of size 0 is skipped (no bytes read, no field) -/
theorem ds_sizeZero (d : MesgDef) (fd : FieldDef) (s : St) (sh : Nat × Bool × Bool × Bool)
    (hs : fieldShape (s.o.fac.create d.mesgNum fd.num) fd = .ok sh)
    (hz : Go.decodersize.decodeFields_sizeZero fd.size = true) : decodeField d fd s = .ok (none, s) := by
  have h0 : fd.size = 0 := by simpa [Go.decodersize.decodeFields_sizeZero] using hz
  unfold decodeField
  simp only [hs, bind, Res.bind, h0, if_true, pure]

theorem ds_devSizeZero (d : MesgDef) (dd : DevDef) (fdsc : Desc) (s : St) (hv : validBaseType fdsc.bt = true)
    (hbt : btSize fdsc.bt ≠ 0)
    (hz : Go.decodersize.decodeDeveloperFields_sizeZero dd.size = true) : decodeDevField d dd fdsc s = .ok (none, s) := by
  have h0 : dd.size = 0 := by simpa [Go.decodersize.decodeDeveloperFields_sizeZero] using hz
  unfold decodeDevField
  simp [hv, h0, bind, Res.bind, pure]

/-- the file header: a size byte other than 12 and 14 is "not a FIT file" -/
theorem ds_header_badSize (s s1 : St) (size : Nat) (h : rawRead 1 s = .ok ([size], s1))
    (hb : Go.decodersize.decodeFileHeader_badSize size = true) : decodeFileHeader s = .err .notFit := by
  have : size ≠ 12 ∧ size ≠ 14 := by simpa [Go.decodersize.decodeFileHeader_badSize] using hb
  unfold decodeFileHeader
  simp [h, bind, Res.bind, idx, this]
end Fit.Go2Lean
