import FitModel.Typed
/-!
Lemmas about the generic typed-layer model (`FitModel/Typed.lean`), for every table.
-/
namespace Fit.Typed
open Fit.Value Fit.Msg Fit.Gen

/-! ### the Reset loop -/

/-- state after the loop: a left fold of the marks of the stored fields -/
def stateFrom (T : MesgTable) (st : Nat) (fs : List Field) : Nat :=
  fs.foldl (fun st f =>
    match f.base with
    | some b => if stored T f && (b.num < T.markBound && f.isExpanded) then st ||| (1 <<< b.num) else st
    | none => st) st

theorem stored_iff (T : MesgTable) (f : Field) (b : FieldBase) (h : f.base = some b) :
    stored T f = (b.num < T.guard && b.nameKnown) := by
  simp [stored, h]

theorem step_ok (T : MesgTable) (hp : T.panics = []) (acc : Acc) (f : Field) (b : FieldBase) (h : f.base = some b) :
    step T acc f = .ok
      { vals := fun k => if stored T f && numIs k f then f.value else acc.vals k
        state := if stored T f && (b.num < T.markBound && f.isExpanded) then acc.state ||| (1 <<< b.num) else acc.state
        unknown := acc.unknown ++ (if stored T f then [] else [f]) } := by
  unfold step
  simp only [h, hp]
  by_cases hs : (b.num < T.guard && b.nameKnown) = true
  · have hs' : stored T f = true := by rw [stored_iff T f b h]; exact hs
    have hg : ¬ (b.num ≥ T.guard) := by
      simp only [Bool.and_eq_true, decide_eq_true_eq] at hs; omega
    have hn : b.nameKnown = true := by simp only [Bool.and_eq_true] at hs; exact hs.2
    simp only [hs', hn, ge_iff_le, Bool.not_true, Bool.or_false, decide_eq_true_eq, Bool.true_and, List.append_nil,
      List.contains_nil, Bool.false_eq_true, ↓reduceIte]
    have : ¬ (T.guard ≤ b.num) := hg
    simp only [this, ↓reduceIte]
    have hv : (fun k => if k = b.num then f.value else acc.vals k) = (fun k => if numIs k f = true then f.value else acc.vals k) := by
      funext k
      simp only [numIs, h, beq_iff_eq]
      by_cases hk : k = b.num
      · simp [hk]
      · have : ¬ (b.num = k) := fun e => hk e.symm
        simp [hk, this]
    rw [hv]
  · have hs' : stored T f = false := by
      rw [stored_iff T f b h]; simpa using hs
    have : (decide (b.num ≥ T.guard) || !b.nameKnown) = true := by
      simp only [Bool.and_eq_true, decide_eq_true_eq, not_and, Bool.not_eq_true] at hs
      by_cases hg : b.num < T.guard
      · simp [hs hg]
      · simp; left; omega
    simp only [this, ↓reduceIte, hs', Bool.false_and, Bool.false_eq_true]

theorem run_ok (T : MesgTable) (hp : T.panics = []) (fs : List Field) (acc : Acc) (h : ∀ f ∈ fs, f.base ≠ none) :
    run T acc fs = .ok
      { vals := fun k => lastFrom T k (acc.vals k) fs
        state := stateFrom T acc.state fs
        unknown := acc.unknown ++ fs.filter (fun f => !stored T f) } := by
  induction fs generalizing acc with
  | nil => simp [run, lastFrom, stateFrom]
  | cons f fs ih =>
    have hf : f.base ≠ none := h f (by simp)
    obtain ⟨b, hb⟩ := Option.ne_none_iff_exists'.mp hf
    rw [run, step_ok T hp acc f b hb]
    simp only
    rw [ih _ (fun g hg => h g (by simp [hg]))]
    congr 1
    simp only [lastFrom, List.foldl_cons, stateFrom, hb, List.filter_cons, List.append_assoc]
    congr 1
    by_cases hs : stored T f = true <;> simp [hs]

theorem run_panic_of_nil (T : MesgTable) (fs : List Field) (acc : Acc) (h : ∃ f ∈ fs, f.base = none) :
    run T acc fs = .panic := by
  induction fs generalizing acc with
  | nil => simp at h
  | cons f fs ih =>
    rw [run]
    cases hb : f.base with
    | none => simp [step, hb]
    | some b =>
      have : ∃ g ∈ fs, g.base = none := by
        obtain ⟨g, hg, hgb⟩ := h
        simp only [List.mem_cons] at hg
        rcases hg with rfl | hg
        · simp [hb] at hgb
        · exact ⟨g, hg, hgb⟩
      cases hstep : step T acc f with
      | panic => rfl
      | ok a => exact ih a this

/-! ### values, slots -/

theorem isScalarType_iff (t : Nat) : isScalarType t = true ↔ 1 ≤ t ∧ t ≤ 11 := by
  simp [isScalarType, typeBool, typeFloat64]
  constructor
  · intro h; exact ⟨of_decide_eq_true h.1, of_decide_eq_true h.2⟩
  · intro h; exact ⟨decide_eq_true h.1, decide_eq_true h.2⟩

theorem typeOf_mkScalar (t n : Nat) (h : isScalarType t = true) : typeOf (mkScalar t n) = t := by
  rw [isScalarType_iff] at h
  have : t = 1 ∨ t = 2 ∨ t = 3 ∨ t = 4 ∨ t = 5 ∨ t = 6 ∨ t = 7 ∨ t = 8 ∨ t = 9 ∨ t = 10 ∨ t = 11 := by omega
  rcases this with rfl | rfl | rfl | rfl | rfl | rfl | rfl | rfl | rfl | rfl | rfl <;> rfl

theorem eq_mkScalar (v : Value) (t : Nat) (h : isScalarType t = true) (ht : typeOf v = t) : v = mkScalar t (numOf v) := by
  subst ht
  cases v <;> first | rfl | (simp [isScalarType, typeOf, typeInvalid, typeBool, typeFloat64, typeString, typeSliceBool, typeSliceInt8, typeSliceUint8, typeSliceInt16, typeSliceUint16, typeSliceInt32, typeSliceUint32, typeSliceInt64, typeSliceUint64, typeSliceFloat32, typeSliceFloat64, typeSliceString] at h)

theorem mkScalar_inj (t a b : Nat) (h : isScalarType t = true) (e : mkScalar t a = mkScalar t b) : a = b := by
  rw [isScalarType_iff] at h
  have : t = 1 ∨ t = 2 ∨ t = 3 ∨ t = 4 ∨ t = 5 ∨ t = 6 ∨ t = 7 ∨ t = 8 ∨ t = 9 ∨ t = 10 ∨ t = 11 := by omega
  rcases this with rfl | rfl | rfl | rfl | rfl | rfl | rfl | rfl | rfl | rfl | rfl <;>
    (simp [mkScalar, typeBool, typeInt8, typeUint8, typeInt16, typeUint16, typeInt32, typeUint32, typeInt64, typeUint64, typeFloat32, typeFloat64] at e; exact e)

theorem isNumSliceType_iff (t : Nat) : isNumSliceType t = true ↔ 13 ≤ t ∧ t ≤ 23 := by
  simp [isNumSliceType, typeSliceBool, typeSliceFloat64]
  constructor
  · intro h; exact ⟨of_decide_eq_true h.1, of_decide_eq_true h.2⟩
  · intro h; exact ⟨decide_eq_true h.1, decide_eq_true h.2⟩

theorem eq_mkSlice (v : Value) (t : Nat) (h : isNumSliceType t = true) (ht : typeOf v = t) : v = mkSlice t (elems v) := by
  subst ht
  rw [isNumSliceType_iff] at h
  cases v <;> first | rfl | (simp [typeOf, typeInvalid, typeBool, typeInt8, typeUint8, typeInt16, typeUint16, typeInt32, typeUint32, typeInt64, typeUint64, typeFloat32, typeFloat64, typeString, typeSliceString] at h)

theorem mkSlice_inj (t : Nat) (a b : List Nat) (h : isNumSliceType t = true) (e : mkSlice t a = mkSlice t b) : a = b := by
  rw [isNumSliceType_iff] at h
  have : t = 13 ∨ t = 14 ∨ t = 15 ∨ t = 16 ∨ t = 17 ∨ t = 18 ∨ t = 19 ∨ t = 20 ∨ t = 21 ∨ t = 22 ∨ t = 23 := by omega
  rcases this with rfl | rfl | rfl | rfl | rfl | rfl | rfl | rfl | rfl | rfl | rfl <;>
    (simp [mkSlice, typeSliceBool, typeSliceInt8, typeSliceUint8, typeSliceInt16, typeSliceUint16, typeSliceInt32, typeSliceUint32, typeSliceInt64, typeSliceUint64, typeSliceFloat32, typeSliceFloat64] at e; exact e)

theorem withElems_mkSlice (t : Nat) (a b : List Nat) (h : isNumSliceType t = true) : withElems (mkSlice t a) b = mkSlice t b := by
  rw [isNumSliceType_iff] at h
  have : t = 13 ∨ t = 14 ∨ t = 15 ∨ t = 16 ∨ t = 17 ∨ t = 18 ∨ t = 19 ∨ t = 20 ∨ t = 21 ∨ t = 22 ∨ t = 23 := by omega
  rcases this with rfl | rfl | rfl | rfl | rfl | rfl | rfl | rfl | rfl | rfl | rfl <;> rfl

theorem elems_mkSlice (t : Nat) (a : List Nat) (h : isNumSliceType t = true) : elems (mkSlice t a) = a := by
  rw [isNumSliceType_iff] at h
  have : t = 13 ∨ t = 14 ∨ t = 15 ∨ t = 16 ∨ t = 17 ∨ t = 18 ∨ t = 19 ∨ t = 20 ∨ t = 21 ∨ t = 22 ∨ t = 23 := by omega
  rcases this with rfl | rfl | rfl | rfl | rfl | rfl | rfl | rfl | rfl | rfl | rfl <;> rfl

theorem typeOf_mkSlice (t : Nat) (a : List Nat) (h : isNumSliceType t = true) : typeOf (mkSlice t a) = t := by
  rw [isNumSliceType_iff] at h
  have : t = 13 ∨ t = 14 ∨ t = 15 ∨ t = 16 ∨ t = 17 ∨ t = 18 ∨ t = 19 ∨ t = 20 ∨ t = 21 ∨ t = 22 ∨ t = 23 := by omega
  rcases this with rfl | rfl | rfl | rfl | rfl | rfl | rfl | rfl | rfl | rfl | rfl <;> rfl

/-- numeric fixed arrays: the closure reads a padded / cut copy -/
theorem readFixed_mkSlice (t : Nat) (d a : List Nat) (h : isNumSliceType t = true) :
    readFixed (mkSlice t d) (mkSlice t a) = mkSlice t (copyInto d a) := by
  have h' := h
  rw [isNumSliceType_iff] at h
  have : t = 13 ∨ t = 14 ∨ t = 15 ∨ t = 16 ∨ t = 17 ∨ t = 18 ∨ t = 19 ∨ t = 20 ∨ t = 21 ∨ t = 22 ∨ t = 23 := by omega
  rcases this with rfl | rfl | rfl | rfl | rfl | rfl | rfl | rfl | rfl | rfl | rfl <;> rfl


theorem emit_read_scalar (s : Slot) (hk : s.kind = .scalar) (hw : s.wf = true) (v : Value) :
    emit s (read s v) = specVal s v := by
  simp only [Slot.wf, hk, Bool.and_eq_true, beq_iff_eq, bne_iff_ne] at hw
  obtain ⟨⟨⟨⟨hst, _hnb⟩, hd⟩, hse⟩, _⟩ := hw
  by_cases ht : typeOf v = s.ptype
  · have hv := eq_mkScalar v s.ptype hst ht
    simp only [read, hk, ht, ↓reduceIte, emit, specVal, ne_eq, not_true_eq_false]
    rw [hse, hd]
    by_cases hn : numOf v = btInvalid s.baseType
    · have : v = mkScalar s.ptype (btInvalid s.baseType) := by rw [← hn]; exact hv
      rw [if_pos this, if_pos hn]
    · have : ¬ v = mkScalar s.ptype (btInvalid s.baseType) := by
        intro e; rw [hv] at e; exact hn (mkScalar_inj _ _ _ hst e)
      rw [if_neg this, if_neg hn]
  · simp only [read, hk, ht, ↓reduceIte, emit, specVal, ne_eq, not_false_eq_true, hse]


theorem emit_read_bool (s : Slot) (hk : s.kind = .bool) (hw : s.wf = true) (v : Value) :
    emit s (read s v) = specVal s v := by
  simp only [Slot.wf, hk, Bool.and_eq_true, beq_iff_eq] at hw
  obtain ⟨⟨hpt, hd⟩, _⟩ := hw
  by_cases ht : typeOf v = s.ptype
  · simp only [read, hk, ht, ↓reduceIte, emit, specVal, ne_eq, not_true_eq_false]
    rw [hpt] at ht
    cases v <;> simp [typeOf, typeBool, typeInvalid, typeInt8, typeUint8, typeInt16, typeUint16, typeInt32, typeUint32, typeInt64, typeUint64, typeFloat32, typeFloat64, typeString, typeSliceBool, typeSliceInt8, typeSliceUint8, typeSliceInt16, typeSliceUint16, typeSliceInt32, typeSliceUint32, typeSliceInt64, typeSliceUint64, typeSliceFloat32, typeSliceFloat64, typeSliceString] at ht
    rename_i n
    by_cases h2 : n < 2 <;> simp [boolValid, numOf, h2]
  · simp only [read, hk, ht, ↓reduceIte, emit, specVal, ne_eq, not_false_eq_true, hd, boolValid, boolInvalid]
    simp

theorem emit_read_str (s : Slot) (hk : s.kind = .str) (hw : s.wf = true) (v : Value) :
    emit s (read s v) = specVal s v := by
  simp only [Slot.wf, hk, Bool.and_eq_true, beq_iff_eq] at hw
  obtain ⟨⟨_, hd⟩, _⟩ := hw
  by_cases ht : typeOf v = s.ptype
  · simp only [read, hk, ht, ↓reduceIte, emit, specVal, ne_eq, not_true_eq_false]
  · simp only [read, hk, ht, ↓reduceIte, emit, specVal, ne_eq, not_false_eq_true, hd]

theorem emit_read_time (s : Slot) (hk : s.kind = .time) (hw : s.wf = true) (v : Value) :
    emit s (read s v) = specVal s v := by
  simp only [Slot.wf, hk, Bool.and_eq_true, beq_iff_eq] at hw
  obtain ⟨hpt, _⟩ := hw
  by_cases ht : typeOf v = s.ptype
  · rw [hpt] at ht
    cases v <;> simp [typeOf, typeBool, typeInvalid, typeInt8, typeUint8, typeInt16, typeUint16, typeInt32, typeUint32, typeInt64, typeUint64, typeFloat32, typeFloat64, typeString, typeSliceBool, typeSliceInt8, typeSliceUint8, typeSliceInt16, typeSliceUint16, typeSliceInt32, typeSliceUint32, typeSliceInt64, typeSliceUint64, typeSliceFloat32, typeSliceFloat64, typeSliceString] at ht
    rename_i n
    simp only [read, hk, emit, specVal, hpt, typeOf, ne_eq, not_true_eq_false, ↓reduceIte, numOf]
    by_cases hn : n % 2 ^ 32 = uint32Invalid
    · simp [hn, zeroTime]
    · simp only [hn, ↓reduceIte]
      have : ¬ ((n % 2 ^ 32 : Nat) : Int) < 0 := by omega
      have hmin : min ((n % 2 ^ 32 : Nat) : Int) durSatSec = ((n % 2 ^ 32 : Nat) : Int) := by
        have : n % 2 ^ 32 < 2 ^ 32 := Nat.mod_lt _ (by decide)
        simp only [durSatSec]; omega
      simp only [this, ↓reduceIte, hmin, Int.toNat_natCast, Nat.mod_mod]
  · have : read s v = .time zeroTime := by
      rw [hpt] at ht
      cases v <;> simp_all [read, typeOf]
    simp only [this, emit, hk, specVal, ne_eq, ht, not_false_eq_true, ↓reduceIte, zeroTime]
    rfl

theorem emit_read_slice (s : Slot) (hk : s.kind = .slice) (hw : s.wf = true) (v : Value) :
    emit s (read s v) = specVal s v := by
  simp only [Slot.wf, hk, Bool.and_eq_true, beq_iff_eq, Bool.or_eq_true] at hw
  obtain ⟨⟨hpt, hd⟩, _⟩ := hw
  by_cases ht : typeOf v = s.ptype
  · simp only [read, hk, ht, ↓reduceIte, emit, specVal, ne_eq, not_true_eq_false]
    have : v ≠ .invalid := by
      intro e; subst e
      rcases hpt with h | h
      · rw [isNumSliceType_iff] at h; simp [typeOf, typeInvalid] at ht; omega
      · simp [typeOf, typeInvalid, typeSliceString] at ht h; omega
    simp [this]
  · simp only [read, hk, ht, ↓reduceIte, emit, specVal, ne_eq, not_false_eq_true, hd]


theorem specFixed_num (n inv : Nat) (v : Value) (h : ∀ vs, v ≠ .sliceString vs) :
    specFixed n inv v = (if copyInto (List.replicate n inv) (elems v) = List.replicate n inv then none
      else some (withElems v (copyInto (List.replicate n inv) (elems v)))) := by
  cases v <;> first | rfl | exact absurd rfl (h _)

theorem emit_read_fixed (s : Slot) (n : Nat) (hk : s.kind = .fixed n) (hw : s.wf = true) (v : Value) :
    emit s (read s v) = specVal s v := by
  simp only [Slot.wf, hk, Bool.and_eq_true, beq_iff_eq] at hw
  obtain ⟨⟨hd, hse⟩, _⟩ := hw
  by_cases ht : typeOf v = s.ptype
  · simp only [read, hk, ht, ↓reduceIte, emit, specVal, ne_eq, not_true_eq_false, hse]
    by_cases hs : s.ptype = typeSliceString
    · rw [if_pos hs] at hd
      simp only [beq_iff_eq] at hd
      rw [hs] at ht
      cases v <;> simp [typeOf, typeBool, typeInvalid, typeInt8, typeUint8, typeInt16, typeUint16, typeInt32, typeUint32, typeInt64, typeUint64, typeFloat32, typeFloat64, typeString, typeSliceBool, typeSliceInt8, typeSliceUint8, typeSliceInt16, typeSliceUint16, typeSliceInt32, typeSliceUint32, typeSliceInt64, typeSliceUint64, typeSliceFloat32, typeSliceFloat64, typeSliceString] at ht
      rename_i vs
      simp only [hd, readFixed, specFixed]
      by_cases he : copyInto (List.replicate n ([] : List Nat)) vs = List.replicate n [] <;> simp [he]
    · rw [if_neg hs] at hd
      simp only [Bool.and_eq_true, beq_iff_eq] at hd
      obtain ⟨hns, hd⟩ := hd
      have hv := eq_mkSlice v s.ptype hns ht
      have hnotstr : ∀ vs, v ≠ .sliceString vs := by
        intro vs e; subst e; exact hs (by simpa [typeOf] using ht.symm)
      have hgoal : specFixed n (btInvalid s.baseType) v =
          (if copyInto (List.replicate n (btInvalid s.baseType)) (elems v) = List.replicate n (btInvalid s.baseType) then none
            else some (withElems v (copyInto (List.replicate n (btInvalid s.baseType)) (elems v)))) :=
        specFixed_num n _ v hnotstr
      rw [hgoal, hd]
      rw [hv, readFixed_mkSlice _ _ _ hns, withElems_mkSlice _ _ _ hns, elems_mkSlice _ _ hns]
      by_cases he : copyInto (List.replicate n (btInvalid s.baseType)) (elems v) = List.replicate n (btInvalid s.baseType)
      · simp [he]
      · have : ¬ mkSlice s.ptype (copyInto (List.replicate n (btInvalid s.baseType)) (elems v)) = mkSlice s.ptype (List.replicate n (btInvalid s.baseType)) :=
          fun e => he (mkSlice_inj _ _ _ hns e)
        simp [he, this]
  · simp only [read, hk, ht, ↓reduceIte, emit, specVal, ne_eq, not_false_eq_true, hse]

/-- **The slot lemma**: for a well-formed slot, reading a value with the slot's accessor and testing / rebuilding it
as ToMesg does gives exactly the protocol-level worth of the value (`specVal`). -/
theorem emit_read (s : Slot) (hw : s.wf = true) (v : Value) : emit s (read s v) = specVal s v := by
  cases hk : s.kind with
  | scalar => exact emit_read_scalar s hk hw v
  | bool => exact emit_read_bool s hk hw v
  | str => exact emit_read_str s hk hw v
  | time => exact emit_read_time s hk hw v
  | slice => exact emit_read_slice s hk hw v
  | fixed n => exact emit_read_fixed s n hk hw v

/-! ### the expanded-field bitmap -/

theorem testBit_one_shiftLeft (n j : Nat) : (1 <<< n).testBit j = decide (n = j) := by
  rw [Nat.one_shiftLeft, Nat.testBit_two_pow]

theorem anyMarked_cons (T : MesgTable) (f : Field) (fs : List Field) (j : Nat) :
    anyMarked T (f :: fs) j = ((stored T f && numIs j f && f.isExpanded) || anyMarked T fs j) := by
  simp [anyMarked]

theorem testBit_stateFrom (T : MesgTable) (fs : List Field) (st j : Nat) :
    (stateFrom T st fs).testBit j = (st.testBit j || (decide (j < T.markBound) && anyMarked T fs j)) := by
  induction fs generalizing st with
  | nil => simp [stateFrom, anyMarked]
  | cons f fs ih =>
    have hunf : stateFrom T st (f :: fs) = stateFrom T (match f.base with
        | some b => if stored T f && (b.num < T.markBound && f.isExpanded) then st ||| (1 <<< b.num) else st
        | none => st) fs := by unfold stateFrom; (rw [List.foldl_cons] <;> rfl)
    rw [hunf, ih, anyMarked_cons]
    cases hb : f.base with
    | none => simp [stored, hb]
    | some b =>
      simp only [numIs, hb]
      by_cases hc : (stored T f && (decide (b.num < T.markBound) && f.isExpanded)) = true
      · simp only [hc, ↓reduceIte, Nat.testBit_or, testBit_one_shiftLeft]
        simp only [Bool.and_eq_true, decide_eq_true_eq] at hc
        obtain ⟨h1, h2, h3⟩ := hc
        by_cases hj : b.num = j
        · subst hj; simp [h1, h2, h3]
        · have : (b.num == j) = false := by simpa using hj
          simp [hj, this]
      · simp only [hc, Bool.false_eq_true, ↓reduceIte]
        by_cases hj : b.num = j
        · subst hj
          have : (stored T f && f.isExpanded && decide (b.num < T.markBound)) = false := by
            rw [Bool.not_eq_true] at hc
            rw [← hc]
            cases stored T f <;> cases f.isExpanded <;> cases decide (b.num < T.markBound) <;> rfl
          cases h1 : stored T f <;> cases h3 : f.isExpanded <;> cases h2 : decide (b.num < T.markBound) <;> simp_all
        · have : (b.num == j) = false := by simpa using hj
          simp [this]

theorem isExpanded_ofState (T : MesgTable) (st : Struct) (fs : List Field) (h : st.state = stateFrom T 0 fs) (j : Nat) :
    isExpanded T st j = (decide (j < T.markBound) && anyMarked T fs j) := by
  unfold isExpanded
  by_cases hj : j ≥ T.markBound
  · have : ¬ j < T.markBound := by omega
    simp [hj, this]
  · have : j < T.markBound := by omega
    simp [hj, this, h, testBit_stateFrom]

theorem zip_map_self {α β : Type} (l : List α) (g : α → β) : l.zip (l.map g) = l.map (fun a => (a, g a)) := by
  induction l with
  | nil => rfl
  | cons a l ih => simp [ih]

/-! ### message → struct → message; no panic -/

theorem filterMap_congr' {α β : Type} (l : List α) (f g : α → Option β) (h : ∀ a ∈ l, f a = g a) :
    l.filterMap f = l.filterMap g := by
  induction l with
  | nil => rfl
  | cons a l ih =>
    simp only [List.filterMap_cons, h a (by simp)]
    rw [ih (fun b hb => h b (by simp [hb]))]

theorem wf_panics (T : MesgTable) (hw : T.wf = true) : T.panics = [] := by
  simp only [MesgTable.wf, Bool.and_eq_true, List.isEmpty_iff] at hw
  exact hw.1.1.1.1

theorem wf_hasDev (T : MesgTable) (hw : T.wf = true) : T.hasDev = true := by
  simp only [MesgTable.wf, Bool.and_eq_true] at hw
  exact hw.2

theorem wf_nodup (T : MesgTable) (hw : T.wf = true) : nodup (T.slots.map (·.num)) = true := by
  simp only [MesgTable.wf, Bool.and_eq_true] at hw
  exact hw.1.1.2

theorem wf_slot (T : MesgTable) (hw : T.wf = true) (s : Slot) (hs : s ∈ T.slots) :
    s.wf = true ∧ s.readNum = s.num ∧ s.num < T.guard ∧ (s.canExpand = true → s.num < T.markBound) := by
  simp only [MesgTable.wf, Bool.and_eq_true, List.all_eq_true, beq_iff_eq, decide_eq_true_eq, Bool.or_eq_true,
    Bool.not_eq_true'] at hw
  have h := hw.1.2 s hs
  refine ⟨h.1.1.1, h.1.1.2, h.1.2, ?_⟩
  intro hc
  rcases h.2 with h2 | h2
  · rw [hc] at h2; cases h2
  · exact h2

/-- what `ofMesg` returns when it does not panic -/
theorem ofMesg_ok (T : MesgTable) (hp : T.panics = []) (m : Message) (st : Struct) (h : ofMesg T m = .ok st) :
    (∀ f ∈ m.fields, f.base ≠ none) ∧
    st = { vals := T.slots.map fun s => read s (lastStored T m.fields s.readNum)
           state := stateFrom T 0 m.fields
           unknown := m.fields.filter (fun f => !stored T f)
           dev := if T.hasDev then m.devFields else [] } := by
  have hall : ∀ f ∈ m.fields, f.base ≠ none := by
    intro f hf hn
    have := run_panic_of_nil T m.fields Acc.init ⟨f, hf, hn⟩
    simp [ofMesg, this] at h
  refine ⟨hall, ?_⟩
  have hr := run_ok T hp m.fields Acc.init hall
  unfold ofMesg at h
  rw [hr] at h
  injection h with h
  rw [← h]
  simp [Acc.init, lastStored]

/-- **message → struct → message** is `typedNormal` (any factory, any options), for every well-formed table -/
theorem toMesg_ofMesg (T : MesgTable) (hw : T.wf = true) (fac : Nat → Field) (o : Options) (m : Message) (st : Struct)
    (h : ofMesg T m = .ok st) : toMesg T fac o st = typedNormal T fac o m := by
  obtain ⟨_, hst⟩ := ofMesg_ok T (wf_panics T hw) m st h
  have hstate : st.state = stateFrom T 0 m.fields := by rw [hst]
  have hvals : st.vals = T.slots.map fun s => read s (lastStored T m.fields s.readNum) := by rw [hst]
  have hunk : st.unknown = m.fields.filter (fun f => !stored T f) := by rw [hst]
  have hdev : st.dev = if T.hasDev then m.devFields else [] := by rw [hst]
  unfold toMesg typedNormal
  congr 1
  · rw [hvals, zip_map_self, List.filterMap_map, hunk]
    congr 1
    apply filterMap_congr'
    intro s hs
    obtain ⟨hsw, hrn, _, _⟩ := wf_slot T hw s hs
    simp only [Function.comp, emitField, hrn, emit_read s hsw]
    cases specVal s (lastStored T m.fields s.num) with
    | none => rfl
    | some v =>
      simp only [isExpanded_ofState T st m.fields hstate]
  · rw [hdev]; cases T.hasDev <;> rfl

/-- Reset never panics on fields that have a `FieldBase`, whatever their numbers and value types -/
theorem ofMesg_no_panic (T : MesgTable) (hw : T.wf = true) (m : Message) (h : ∀ f ∈ m.fields, f.base ≠ none) :
    ofMesg T m ≠ .panic := by
  simp [ofMesg, run_ok T (wf_panics T hw) m.fields Acc.init h]

/-! ### reading back what ToMesg emits -/

theorem copyInto_same {α : Type} (dst src : List α) (h : src.length = dst.length) : copyInto dst src = src := by
  unfold copyInto
  rw [← h, List.take_length, List.drop_eq_nil_of_le (by omega)]
  simp

theorem typeOf_invalid_ne (t : Nat) (h : 1 ≤ t) : ¬ typeOf Value.invalid = t := by
  simp [typeOf, typeInvalid]; omega

theorem read_emit_scalar (s : Slot) (hk : s.kind = .scalar) (hw : s.wf = true) (x : SlotVal) (hr : shapeOk s x = true) :
    read s ((emit s x).getD .invalid) = x := by
  simp only [Slot.wf, hk, Bool.and_eq_true, beq_iff_eq, bne_iff_ne] at hw
  obtain ⟨⟨⟨⟨hst, _⟩, hd⟩, hse⟩, _⟩ := hw
  cases x with
  | time t => simp [shapeOk, hk] at hr
  | val v =>
    simp only [shapeOk, hk, beq_iff_eq] at hr
    have h1 : 1 ≤ s.ptype := ((isScalarType_iff _).mp hst).1
    by_cases hv : v = s.sentinel
    · simp only [emit, hk, hv, ↓reduceIte, Option.getD_none, read, typeOf_invalid_ne _ h1, hse]
    · simp only [emit, hk, hv, ↓reduceIte, Option.getD_some, read, hr]

theorem read_emit_str (s : Slot) (hk : s.kind = .str) (hw : s.wf = true) (x : SlotVal) (hr : shapeOk s x = true) :
    read s ((emit s x).getD .invalid) = x := by
  simp only [Slot.wf, hk, Bool.and_eq_true, beq_iff_eq] at hw
  obtain ⟨⟨hpt, hd⟩, _⟩ := hw
  cases x with
  | time t => simp [shapeOk, hk] at hr
  | val v =>
    simp only [shapeOk, hk, beq_iff_eq] at hr
    have h1 : 1 ≤ s.ptype := by rw [hpt]; simp [typeString]
    by_cases hv : v = .string []
    · simp only [emit, hk, hv, ↓reduceIte, Option.getD_none, read, typeOf_invalid_ne _ h1, hd]
    · simp only [emit, hk, hv, ↓reduceIte, Option.getD_some, read, hr]

theorem read_emit_slice (s : Slot) (hk : s.kind = .slice) (hw : s.wf = true) (x : SlotVal) (hr : shapeOk s x = true) :
    read s ((emit s x).getD .invalid) = x := by
  simp only [Slot.wf, hk, Bool.and_eq_true, beq_iff_eq, Bool.or_eq_true] at hw
  obtain ⟨⟨hpt, hd⟩, _⟩ := hw
  cases x with
  | time t => simp [shapeOk, hk] at hr
  | val v =>
    simp only [shapeOk, hk, beq_iff_eq, Bool.or_eq_true] at hr
    have h1 : 1 ≤ s.ptype := by
      rcases hpt with h | h
      · have := ((isNumSliceType_iff _).mp h).1; omega
      · rw [h]; simp [typeSliceString]
    by_cases hv : v = .invalid
    · simp only [emit, hk, hv, ↓reduceIte, Option.getD_none, read, typeOf_invalid_ne _ h1, hd]
    · have ht : typeOf v = s.ptype := by rcases hr with h | h; exact absurd h hv; exact h
      simp only [emit, hk, hv, ↓reduceIte, Option.getD_some, read, ht]

theorem read_emit_fixed (s : Slot) (n : Nat) (hk : s.kind = .fixed n) (hw : s.wf = true) (x : SlotVal) (hr : shapeOk s x = true) :
    read s ((emit s x).getD .invalid) = x := by
  simp only [Slot.wf, hk, Bool.and_eq_true, beq_iff_eq] at hw
  obtain ⟨⟨hd, hse⟩, _⟩ := hw
  cases x with
  | time t => simp [shapeOk, hk] at hr
  | val v =>
    simp only [shapeOk, hk, beq_iff_eq, Bool.and_eq_true] at hr
    obtain ⟨ht, hlen⟩ := hr
    have h1 : 1 ≤ s.ptype := by
      by_cases hs : s.ptype = typeSliceString
      · rw [hs]; simp [typeSliceString]
      · rw [if_neg hs] at hd
        simp only [Bool.and_eq_true] at hd
        have := ((isNumSliceType_iff _).mp hd.1).1; omega
    by_cases hv : v = s.sentinel
    · simp only [emit, hk, hv, ↓reduceIte, Option.getD_none, read, typeOf_invalid_ne _ h1, hse]
    · simp only [emit, hk, hv, ↓reduceIte, Option.getD_some, read, ht]
      congr 1
      by_cases hs : s.ptype = typeSliceString
      · rw [if_pos hs] at hd
        simp only [beq_iff_eq] at hd
        rw [hs] at ht
        cases v <;> simp [typeOf, typeBool, typeInvalid, typeInt8, typeUint8, typeInt16, typeUint16, typeInt32, typeUint32, typeInt64, typeUint64, typeFloat32, typeFloat64, typeString, typeSliceBool, typeSliceInt8, typeSliceUint8, typeSliceInt16, typeSliceUint16, typeSliceInt32, typeSliceUint32, typeSliceInt64, typeSliceUint64, typeSliceFloat32, typeSliceFloat64, typeSliceString] at ht
        rename_i vs
        simp only [beq_iff_eq] at hlen
        simp only [hd, readFixed]
        rw [copyInto_same _ _ (by simp [hlen])]
      · rw [if_neg hs] at hd
        simp only [Bool.and_eq_true, beq_iff_eq] at hd
        obtain ⟨hns, hd⟩ := hd
        have hvv := eq_mkSlice v s.ptype hns ht
        have hl : (elems v).length = n := by
          cases v <;> first | (simpa using hlen) | exact absurd (by simpa [typeOf] using ht.symm) hs
        rw [hd, hvv, readFixed_mkSlice _ _ _ hns, copyInto_same _ _ (by simp [elems_mkSlice _ _ hns, hl])]

/-! ### the message ToMesg emits, looked up by Reset -/

/-- the field ToMesg builds for slot `s` with value `v` -/
def mkF (T : MesgTable) (fac : Nat → Field) (st : Struct) (s : Slot) (v : Value) : Field :=
  if s.canExpand then { fac s.num with value := v, isExpanded := isExpanded T st s.num } else { fac s.num with value := v }

theorem emitField_incl (T : MesgTable) (fac : Nat → Field) (st : Struct) (s : Slot) (x : SlotVal) :
    emitField T fac { includeExpanded := true } st s x = (emit s x).map (mkF T fac st s) := by
  unfold emitField mkF
  cases emit s x with
  | none => rfl
  | some v => cases hc : s.canExpand <;> simp

/-- slot-level content of `facOk` -/
def FacOkS (fac : Nat → Field) (s : Slot) : Prop :=
  ∃ b, (fac s.num).base = some b ∧ b.num = s.num ∧ b.nameKnown = true ∧ (s.canExpand = true ∨ (fac s.num).isExpanded = false)

theorem facOk_slot (T : MesgTable) (fac : Nat → Field) (h : facOk T fac = true) (s : Slot) (hs : s ∈ T.slots) : FacOkS fac s := by
  simp only [facOk, List.all_eq_true] at h
  have := h s hs
  cases hb : (fac s.num).base with
  | none => simp [hb] at this
  | some b =>
    simp only [hb, Bool.and_eq_true, beq_iff_eq, Bool.or_eq_true, Bool.not_eq_true'] at this
    exact ⟨b, hb, this.1.1, this.1.2, this.2⟩

theorem mkF_base (T : MesgTable) (fac : Nat → Field) (st : Struct) (s : Slot) (v : Value) :
    (mkF T fac st s v).base = (fac s.num).base := by
  unfold mkF; cases s.canExpand <;> rfl

theorem mkF_value (T : MesgTable) (fac : Nat → Field) (st : Struct) (s : Slot) (v : Value) :
    (mkF T fac st s v).value = v := by
  unfold mkF; cases s.canExpand <;> rfl

theorem mkF_stored (T : MesgTable) (fac : Nat → Field) (st : Struct) (s : Slot) (v : Value)
    (hf : FacOkS fac s) (hg : s.num < T.guard) : stored T (mkF T fac st s v) = true := by
  obtain ⟨b, hb, hn, hk, _⟩ := hf
  simp [stored, mkF_base, hb, hn, hk, hg]

theorem mkF_numIs (T : MesgTable) (fac : Nat → Field) (st : Struct) (s : Slot) (v : Value) (k : Nat)
    (hf : FacOkS fac s) : numIs k (mkF T fac st s v) = (s.num == k) := by
  obtain ⟨b, hb, hn, _, _⟩ := hf
  simp [numIs, mkF_base, hb, hn]

theorem mkF_isExpanded (T : MesgTable) (fac : Nat → Field) (st : Struct) (s : Slot) (v : Value) (hf : FacOkS fac s) :
    (mkF T fac st s v).isExpanded = (s.canExpand && isExpanded T st s.num) := by
  obtain ⟨b, _, _, _, he⟩ := hf
  unfold mkF
  cases hc : s.canExpand
  · rcases he with he | he
    · rw [hc] at he; cases he
    · simp [he]
  · simp

/-- the known fields ToMesg emits with IncludeExpandedFields -/
def knownOf (T : MesgTable) (fac : Nat → Field) (st : Struct) (Z : List (Slot × SlotVal)) : List Field :=
  Z.filterMap fun p => (emit p.1 p.2).map (mkF T fac st p.1)

theorem lastFrom_cons (T : MesgTable) (k : Nat) (init : Value) (f : Field) (fs : List Field) :
    lastFrom T k init (f :: fs) = lastFrom T k (if stored T f && numIs k f then f.value else init) fs := by
  simp [lastFrom]

theorem lastFrom_no_hit (T : MesgTable) (k : Nat) (init : Value) (fs : List Field)
    (h : ∀ f ∈ fs, (stored T f && numIs k f) = false) : lastFrom T k init fs = init := by
  induction fs generalizing init with
  | nil => rfl
  | cons f fs ih =>
    rw [lastFrom_cons, h f (by simp)]
    exact ih _ (fun g hg => h g (by simp [hg]))

theorem lastFrom_append (T : MesgTable) (k : Nat) (init : Value) (a b : List Field) :
    lastFrom T k init (a ++ b) = lastFrom T k (lastFrom T k init a) b := by
  simp [lastFrom, List.foldl_append]

theorem knownOf_cons (T : MesgTable) (fac : Nat → Field) (st : Struct) (p : Slot × SlotVal) (Z : List (Slot × SlotVal)) :
    knownOf T fac st (p :: Z) = (match emit p.1 p.2 with | none => [] | some v => [mkF T fac st p.1 v]) ++ knownOf T fac st Z := by
  unfold knownOf
  rw [List.filterMap_cons]
  cases emit p.1 p.2 <;> rfl

theorem mem_knownOf (T : MesgTable) (fac : Nat → Field) (st : Struct) (Z : List (Slot × SlotVal)) (f : Field)
    (h : f ∈ knownOf T fac st Z) : ∃ p ∈ Z, ∃ v, emit p.1 p.2 = some v ∧ f = mkF T fac st p.1 v := by
  unfold knownOf at h
  rw [List.mem_filterMap] at h
  obtain ⟨p, hp, he⟩ := h
  cases hv : emit p.1 p.2 with
  | none => simp [hv] at he
  | some v => simp [hv] at he; exact ⟨p, hp, v, hv, he.symm⟩

theorem nodup_cons (a : Nat) (as : List Nat) : nodup (a :: as) = true ↔ (∀ b ∈ as, b ≠ a) ∧ nodup as = true := by
  simp only [nodup, Bool.and_eq_true, Bool.not_eq_true', List.contains_eq_mem, decide_eq_false_iff_not]
  constructor
  · intro ⟨h1, h2⟩; exact ⟨fun b hb e => h1 (e ▸ hb), h2⟩
  · intro ⟨h1, h2⟩; exact ⟨fun hm => h1 a hm rfl, h2⟩

/-- in the emitted message, the last stored field of a slot's number carries that slot's value — or there is none -/
theorem lastFrom_knownOf (T : MesgTable) (fac : Nat → Field) (st : Struct) (Z : List (Slot × SlotVal)) (U : List Field)
    (hnd : nodup (Z.map (·.1.num)) = true) (hok : ∀ p ∈ Z, FacOkS fac p.1 ∧ p.1.num < T.guard)
    (hU : ∀ f ∈ U, stored T f = false) :
    ∀ p ∈ Z, lastFrom T p.1.num .invalid (knownOf T fac st Z ++ U) = (emit p.1 p.2).getD .invalid := by
  induction Z with
  | nil => intro p hp; cases hp
  | cons p0 Z ih =>
    rw [List.map_cons, nodup_cons] at hnd
    obtain ⟨hne, hnd'⟩ := hnd
    have hok' : ∀ p ∈ Z, FacOkS fac p.1 ∧ p.1.num < T.guard := fun p hp => hok p (by simp [hp])
    have hnohit : ∀ k, (∀ p ∈ Z, p.1.num ≠ k) → ∀ f ∈ knownOf T fac st Z ++ U, (stored T f && numIs k f) = false := by
      intro k hk f hf
      rw [List.mem_append] at hf
      rcases hf with hf | hf
      · obtain ⟨p, hp, v, _, rfl⟩ := mem_knownOf T fac st Z f hf
        rw [mkF_numIs T fac st p.1 v k (hok' p hp).1]
        have : (p.1.num == k) = false := by simpa using hk p hp
        simp [this]
      · simp [hU f hf]
    intro p hp
    rw [knownOf_cons, List.append_assoc]
    rcases List.mem_cons.mp hp with rfl | hp'
    · -- the head slot: its own field (if any) is the only hit
      have hz : ∀ q ∈ Z, q.1.num ≠ p.1.num := fun q hq => hne q.1.num (List.mem_map.mpr ⟨q, hq, rfl⟩)
      cases he : emit p.1 p.2 with
      | none =>
        simp only [List.nil_append, Option.getD_none]
        exact lastFrom_no_hit T _ _ _ (hnohit _ hz)
      | some v =>
        simp only [List.singleton_append, Option.getD_some]
        rw [lastFrom_cons, mkF_stored T fac st p.1 v (hok p (by simp)).1 (hok p (by simp)).2,
          mkF_numIs T fac st p.1 v _ (hok p (by simp)).1, mkF_value]
        simp only [beq_self_eq_true, Bool.and_self, ↓reduceIte]
        exact lastFrom_no_hit T _ _ _ (hnohit _ hz)
    · -- a later slot: the head's field has another number
      have hpn : p0.1.num ≠ p.1.num := fun e => hne p.1.num (List.mem_map.mpr ⟨p, hp', rfl⟩) e.symm
      have hskip : lastFrom T p.1.num .invalid ((match emit p0.1 p0.2 with | none => [] | some v => [mkF T fac st p0.1 v]) ++ (knownOf T fac st Z ++ U))
          = lastFrom T p.1.num .invalid (knownOf T fac st Z ++ U) := by
        cases emit p0.1 p0.2 with
        | none => rfl
        | some v =>
          simp only [List.singleton_append]
          rw [lastFrom_cons, mkF_numIs T fac st p0.1 v _ (hok p0 (by simp)).1]
          have : (p0.1.num == p.1.num) = false := by simpa using hpn
          simp [this]
      rw [hskip]
      exact ih hnd' hok' p hp'

/-! ### struct → message → struct -/

theorem anyMarked_append (T : MesgTable) (a b : List Field) (j : Nat) :
    anyMarked T (a ++ b) j = (anyMarked T a j || anyMarked T b j) := by
  simp [anyMarked, List.any_append]

theorem anyMarked_not_stored (T : MesgTable) (U : List Field) (j : Nat) (hU : ∀ f ∈ U, stored T f = false) :
    anyMarked T U j = false := by
  simp only [anyMarked, List.any_eq_false]
  intro f hf
  simp [hU f hf]

theorem anyMarked_knownOf (T : MesgTable) (fac : Nat → Field) (st : Struct) (Z : List (Slot × SlotVal)) (j : Nat)
    (hok : ∀ p ∈ Z, FacOkS fac p.1 ∧ p.1.num < T.guard) :
    anyMarked T (knownOf T fac st Z) j =
      Z.any (fun p => (emit p.1 p.2).isSome && (p.1.num == j) && (p.1.canExpand && isExpanded T st p.1.num)) := by
  induction Z with
  | nil => rfl
  | cons p Z ih =>
    rw [knownOf_cons, anyMarked_append, ih (fun q hq => hok q (by simp [hq])), List.any_cons]
    congr 1
    cases he : emit p.1 p.2 with
    | none => simp [anyMarked]
    | some v =>
      simp only [anyMarked, List.any_cons, List.any_nil, Bool.or_false, Option.isSome_some, Bool.true_and]
      rw [mkF_stored T fac st p.1 v (hok p (by simp)).1 (hok p (by simp)).2, mkF_numIs T fac st p.1 v j (hok p (by simp)).1,
        mkF_isExpanded T fac st p.1 v (hok p (by simp)).1]
      simp

theorem testBit_le_log2 (n j : Nat) (h : n.testBit j = true) : j < n.log2 + 1 := by
  by_cases hj : j < n.log2 + 1
  · exact hj
  · exfalso
    have h1 : n < 2 ^ (n.log2 + 1) := Nat.lt_log2_self
    have h2 : 2 ^ (n.log2 + 1) ≤ 2 ^ j := Nat.pow_le_pow_right (by omega) (by omega)
    have : n.testBit j = false := Nat.testBit_lt_two_pow (by omega)
    rw [this] at h; cases h

theorem zip_fst_snd {α β : Type} (a : List α) (b : List β) (h : b.length = a.length) :
    (a.zip b).map Prod.fst = a ∧ (a.zip b).map Prod.snd = b :=
  ⟨List.map_fst_zip (by omega), List.map_snd_zip (by omega)⟩

/-! ### MarkAsExpandedField -/

theorem testBit_clear (x k j : Nat) : (x ^^^ (x &&& (1 <<< k))).testBit j = (x.testBit j && !decide (k = j)) := by
  rw [Nat.testBit_xor, Nat.testBit_and, testBit_one_shiftLeft]
  cases x.testBit j <;> cases decide (k = j) <;> rfl

/-- marking an eligible number sets exactly that bit to `flag`; an ineligible number is refused and nothing changes -/
theorem markAsExpanded_spec (T : MesgTable) (st : Struct) (k : Nat) (flag : Bool) (j : Nat) :
    (markAsExpanded T st k flag).2 = eligible T k ∧
    (markAsExpanded T st k flag).1.state.testBit j =
      (if eligible T k = true ∧ k = j then flag else st.state.testBit j) ∧
    (markAsExpanded T st k flag).1.vals = st.vals ∧ (markAsExpanded T st k flag).1.unknown = st.unknown ∧
    (markAsExpanded T st k flag).1.dev = st.dev := by
  unfold markAsExpanded
  cases he : eligible T k
  · simp
  · simp only [↓reduceIte, true_and, and_true]
    cases flag
    · simp only [Bool.false_eq_true, ↓reduceIte, testBit_clear]
      by_cases hk : k = j <;> simp [hk]
    · simp only [↓reduceIte, Nat.testBit_or, testBit_clear, testBit_one_shiftLeft]
      by_cases hk : k = j <;> simp [hk]

/-! ### the specification's "invalid" is the protocol's `Valid` -/

set_option maxRecDepth 4000 in
/-- for a numeric scalar slot, the typed layer's "invalid" is exactly `proto.Value.Valid(baseType)` of the C06 model -/
theorem specVal_scalar_eq_valid (s : Slot) (hk : s.kind = .scalar) (hw : s.wf = true) (v : Value)
    (hv : Value.wf v = true) (ht : typeOf v = s.ptype) :
    specVal s v = if valid v s.baseType then some v else none := by
  simp only [Slot.wf, hk, Bool.and_eq_true, beq_iff_eq, bne_iff_ne] at hw
  obtain ⟨⟨⟨⟨hst, hnb⟩, hd⟩, _⟩, hal⟩ := hw
  rw [hd, ← ht] at hal
  simp only [specVal, ht, ne_eq, not_true_eq_false, ↓reduceIte, hk]
  rw [← ht] at hst hnb
  cases v <;>
    simp [typeOf, isScalarType, typeBool, typeInvalid, typeInt8, typeUint8, typeInt16, typeUint16, typeInt32, typeUint32,
      typeInt64, typeUint64, typeFloat32, typeFloat64, typeString, typeSliceBool, typeSliceInt8, typeSliceUint8,
      typeSliceInt16, typeSliceUint16, typeSliceInt32, typeSliceUint32, typeSliceInt64, typeSliceUint64,
      typeSliceFloat32, typeSliceFloat64, typeSliceString] at hst hnb <;>
    simp [typeOf, mkScalar, align, typeBool, typeInt8, typeUint8, typeInt16, typeUint16, typeInt32, typeUint32,
      typeInt64, typeUint64, typeFloat32, typeFloat64] at hal <;>
    simp [Value.wf] at hv <;>
    (first
      | (rcases hal with ((h | h) | h) | h <;>
          simp [h, valid, btInvalid, numOf, btEnum, btByte, btUint8, btUint8z, btSint8, btSint16, btUint16, btUint16z, btSint32,
            btUint32, btUint32z, btSint64, btUint64, btUint64z, btFloat32, btFloat64, enumInvalid, byteInvalid, uint8Invalid,
            uint8zInvalid, Nat.mod_eq_of_lt hv])
      | (rcases hal with h | h <;>
          simp [h, valid, btInvalid, numOf, btEnum, btByte, btUint8, btUint8z, btSint8, btSint16, btUint16, btUint16z, btSint32,
            btUint32, btUint32z, btSint64, btUint64, btUint64z, btFloat32, btFloat64, uint16Invalid, uint16zInvalid,
            uint32Invalid, uint32zInvalid, uint64Invalid, uint64zInvalid, Nat.mod_eq_of_lt hv])
      | (simp [hal, valid, btInvalid, numOf, btEnum, btByte, btUint8, btUint8z, btSint8, btSint16, btUint16, btUint16z, btSint32,
            btUint32, btUint32z, btSint64, btUint64, btUint64z, btFloat32, btFloat64, sint8Invalid, sint16Invalid,
            sint32Invalid, sint64Invalid, float32Invalid, float64Invalid, Nat.mod_eq_of_lt hv]))

theorem specVal_bool_eq_valid (s : Slot) (hk : s.kind = .bool) (hw : s.wf = true) (v : Value) (ht : typeOf v = s.ptype) :
    specVal s v = if valid v s.baseType then some v else none := by
  simp only [Slot.wf, hk, Bool.and_eq_true, beq_iff_eq] at hw
  obtain ⟨⟨hpt, _⟩, _⟩ := hw
  simp only [specVal, ht, ne_eq, not_true_eq_false, ↓reduceIte, hk]
  rw [hpt] at ht
  cases v <;> simp [typeOf, typeBool, typeInvalid, typeInt8, typeUint8, typeInt16, typeUint16, typeInt32, typeUint32, typeInt64, typeUint64, typeFloat32, typeFloat64, typeString, typeSliceBool, typeSliceInt8, typeSliceUint8, typeSliceInt16, typeSliceUint16, typeSliceInt32, typeSliceUint32, typeSliceInt64, typeSliceUint64, typeSliceFloat32, typeSliceFloat64, typeSliceString] at ht
  rename_i n
  by_cases h : n < 2 <;> simp [numOf, valid, h]

theorem specVal_time_eq_valid (s : Slot) (hk : s.kind = .time) (hw : s.wf = true) (v : Value)
    (hv : Value.wf v = true) (ht : typeOf v = s.ptype) :
    specVal s v = if valid v s.baseType then some v else none := by
  simp only [Slot.wf, hk, Bool.and_eq_true, beq_iff_eq] at hw
  obtain ⟨hpt, hbt⟩ := hw
  simp only [specVal, ht, ne_eq, not_true_eq_false, ↓reduceIte, hk, hbt]
  rw [hpt] at ht
  cases v <;> simp [typeOf, typeBool, typeInvalid, typeInt8, typeUint8, typeInt16, typeUint16, typeInt32, typeUint32, typeInt64, typeUint64, typeFloat32, typeFloat64, typeString, typeSliceBool, typeSliceInt8, typeSliceUint8, typeSliceInt16, typeSliceUint16, typeSliceInt32, typeSliceUint32, typeSliceInt64, typeSliceUint64, typeSliceFloat32, typeSliceFloat64, typeSliceString] at ht
  rename_i n
  simp [Value.wf] at hv
  have hm : n % 2 ^ 32 = n := Nat.mod_eq_of_lt (by omega)
  have hm' : n % 4294967296 = n := by simpa using hm
  by_cases h : n = uint32Invalid <;> simp [numOf, valid, btUint32, btUint32z, h, hm', uint32Invalid] <;> simp_all [uint32Invalid]

/-- a string the protocol calls valid is kept (the typed layer also keeps the one-NUL string, which `Valid` rejects) -/
theorem specVal_str_of_valid (s : Slot) (hk : s.kind = .str) (v : Value) (ht : typeOf v = s.ptype)
    (hval : valid v s.baseType = true) : specVal s v = some v := by
  simp only [specVal, ht, ne_eq, not_true_eq_false, ↓reduceIte, hk]
  have : v ≠ .string [] := by
    intro e; subst e; simp [valid, strValid] at hval
  simp [this]

/-- an array value of the field's type is always kept, whatever its elements -/
theorem specVal_slice (s : Slot) (hk : s.kind = .slice) (v : Value) (ht : typeOf v = s.ptype) : specVal s v = some v := by
  simp only [specVal, ht, ne_eq, not_true_eq_false, ↓reduceIte, hk]

end Fit.Typed
