import FitProps.C04
import FitProps.C02
/-!
# C04, bridged to the encoder: the corruption theorems stated over `Wire.encodeFit` / `Wire.encodeChain`

`C04_burst` / `C04_bitflip` / `C04_truncation` (FitProps/C04.lean) speak about byte strings that satisfy
`IsEncoderOutput14`. `C04_encoder_output` proves that the wire-level model of the encoder (the model `C01`, `C02`, `C09`
are about) produces such byte strings for every 14-byte-header sequence — from C02's whole-stream theorem
`C02_wellformed_mixed` — so the corruption theorems hold for the encoder's output itself (`…_encoder`), and, through
`C04_append` and `C02_integrity_accepts`, for a corrupted or truncated sequence anywhere in a chain as far as
`CheckIntegrity` goes (`…_chain_encoder`: the count of valid leading sequences is the number of files before it).

PROPERTY THEOREMS (audited by ./check): C04_encoder_output, C04_burst_encoder, C04_bitflip_encoder, C04_truncation_encoder,
C04_intact_encoder, C04_burst_chain_encoder, C04_truncation_chain_encoder
-/
namespace Fit.C04
open Fit.Crc Fit.Integrity Fit.Wire
open Fit.C02 (C02_ByteOK)

/-- **The encoder produces "encoder output".** Every successful encode of one sequence with a 14-byte header (the
default) is a byte string that satisfies `IsEncoderOutput14`: bytes; exactly one well-formed sequence under the
independent framing reader; 14-byte header carrying its computed CRC; file CRC correct over the whole sequence.
Hypotheses: what validation lets through (`FitOK`), options in range, and that the output is a byte stream
(`C02_ByteOK`, true by type in the code; derived from the typing of validated messages by `C02_byteok_of_typed`). -/
theorem C04_encoder_output (o : Opts) (ho : OptsOK o) (h : Wire.Hdr) (ms : List WMsg) (hf : FitOK o h ms)
    (h14 : h.size = 14) (hb : C02_ByteOK o (h, ms)) : IsEncoderOutput14 (encodeFit o h ms) := by
  have hall : ∀ f ∈ [(h, ms)], FitOK o f.1 f.2 := by intro f hfm; simp at hfm; subst hfm; exact hf
  have hbytes : ∀ f ∈ [(h, ms)], C02_ByteOK o f := by intro f hfm; simp at hfm; subst hfm; exact hb
  have hchain : encodeChain o [(h, ms)] = encodeFit o h ms := by simp [encodeChain]
  obtain ⟨seqs, hs, hl, hp⟩ := Fit.C02.C02_wellformed_mixed o ho [(h, ms)] hall hbytes
  have hB := Fit.C02.encodeChain_bytes o [(h, ms)] hall hbytes
  rw [hchain] at hs hp hB
  match seqs, hl with
  | [s], _ =>
    obtain ⟨hsz, _, hstrict, _, hcrc, _⟩ := hp ((h, ms), s) (by simp)
    exact ⟨hB, s, hs, by rw [hsz]; exact h14, hstrict, hcrc h14⟩

/-- **Bursts, over the encoder's output.** -/
theorem C04_burst_encoder (o : Opts) (ho : OptsOK o) (h : Wire.Hdr) (ms : List WMsg) (hf : FitOK o h ms)
    (h14 : h.size = 14) (hb : C02_ByteOK o (h, ms)) (e : List Nat) (he : Bytes e)
    (hl : e.length = (encodeFit o h ms).length - 14) (hbst : BurstWithin16 e) :
    Rejected (corrupt (encodeFit o h ms) e) :=
  C04_burst _ e (C04_encoder_output o ho h ms hf h14 hb) he hl hbst

/-- **Single-bit flips, over the encoder's output.** -/
theorem C04_bitflip_encoder (o : Opts) (ho : OptsOK o) (h : Wire.Hdr) (ms : List WMsg) (hf : FitOK o h ms)
    (h14 : h.size = 14) (hb : C02_ByteOK o (h, ms)) (j i : Nat) (hj : j < (encodeFit o h ms).length - 14) (hi : i < 8) :
    Rejected (corrupt (encodeFit o h ms) (bitError ((encodeFit o h ms).length - 14) j i)) :=
  C04_bitflip _ (C04_encoder_output o ho h ms hf h14 hb) j i hj hi

/-- **Truncation, over the encoder's output.** -/
theorem C04_truncation_encoder (o : Opts) (ho : OptsOK o) (h : Wire.Hdr) (ms : List WMsg) (hf : FitOK o h ms)
    (h14 : h.size = 14) (hb : C02_ByteOK o (h, ms)) (k : Nat) (hk : k < (encodeFit o h ms).length) :
    Rejected ((encodeFit o h ms).take k) :=
  C04_truncation _ (C04_encoder_output o ho h ms hf h14 hb) k hk

/-- … and the intact output is accepted (C02_integrity_accepts for one sequence): the rejections are not vacuous -/
theorem C04_intact_encoder (o : Opts) (h : Wire.Hdr) (ms : List WMsg) (hf : FitOK o h ms) :
    checkIntegrity (encodeFit o h ms) = .ok 1 :=
  Fit.C02.checkIntegrity_encodeFit o h ms hf

/-- the check on a stream that starts with complete encoder output -/
theorem check_after_chain (o : Opts) (fits : List (Wire.Hdr × List WMsg)) (hall : ∀ f ∈ fits, FitOK o f.1 f.2)
    (s : List Nat) (hs : s ≠ []) :
    checkIntegrity (encodeChain o fits ++ s) = bump fits.length (checkIntegrity s) := by
  cases fits with
  | nil =>
    have : ∀ r : Result, bump 0 r = r := by intro r; cases r <;> rfl
    simp [encodeChain, this]
  | cons f fs =>
    exact C04_append _ s _ (Fit.C02.C02_integrity_accepts o (f :: fs) (by simp) hall) hs

theorem bump_not_ok {k : Nat} {r : Result} (h : ∀ n, r ≠ .ok n) : ∀ n, bump k r ≠ .ok n := by
  intro n
  cases r with
  | ok m => exact absurd rfl (h m)
  | err e m => simp [bump]

/-- **A corrupted sequence inside a chain.** `fitsA` (any header sizes) encoded, then a 14-byte-header sequence whose
records or trailing CRC carry a burst within 16 bits, then anything (`tail`, e.g. further sequences): `CheckIntegrity`
fails, and the number of valid leading sequences it reports is the number of files before the corrupted one. -/
theorem C04_burst_chain_encoder (o : Opts) (ho : OptsOK o) (fitsA : List (Wire.Hdr × List WMsg))
    (hallA : ∀ f ∈ fitsA, FitOK o f.1 f.2) (h : Wire.Hdr) (ms : List WMsg) (hf : FitOK o h ms)
    (h14 : h.size = 14) (hb : C02_ByteOK o (h, ms)) (e : List Nat) (he : Bytes e)
    (hl : e.length = (encodeFit o h ms).length - 14) (hbst : BurstWithin16 e) (tail : List Nat) :
    checkIntegrity (encodeChain o fitsA ++ (corrupt (encodeFit o h ms) e ++ tail)) = .err .crc fitsA.length := by
  have hout := C04_encoder_output o ho h ms hf h14 hb
  obtain ⟨pv, p0, p1, d0, d1, d2, d3, k0, k1, rest, hfe, hH, hk, hrl, hrb, hz⟩ := intact_tail (encoderOutput_intact hout)
  have hle : e.length = rest.length := by rw [hl, hfe]; simp
  have hc : corrupt (encodeFit o h ms) e ++ tail =
      14 :: pv :: p0 :: p1 :: d0 :: d1 :: d2 :: d3 :: 0x2E :: 0x46 :: 0x49 :: 0x54 :: k0 :: k1 :: (xorL rest e ++ tail) := by
    rw [corrupt, hfe]; rfl
  have hne : corrupt (encodeFit o h ms) e ++ tail ≠ [] := by rw [hc]; simp
  rw [check_after_chain o fitsA hallA _ hne, hc]
  -- the data size is not 0: the encoder wrote at least one record byte
  have hD : d0 + 256 * d1 + 65536 * d2 + 16777216 * d3 ≠ 0 := by
    have hlen := (Fit.C02.C02_datasize o h ms hf.small).2
    have hpos := encodeMsgs_pos o (freshEnc o) ms hf.nonempty
    rw [if_pos h14] at hlen
    have : (encodeFit o h ms).length = rest.length + 14 := by rw [hfe]; simp
    omega
  have hh := header14_decode true pv p0 p1 d0 d1 d2 d3 k0 k1 (xorL rest e ++ tail) hH hk hD
  have hxl : (xorL rest e).length = d0 + 256 * d1 + 65536 * d2 + 16777216 * d3 + 2 := by
    rw [xorL_length _ _ hle.symm, hrl]
  have hmis := tail_mismatch rest e _ hrb he hrl hle hz hbst
  unfold checkIntegrity
  rw [checkLoop_step _ _ _ _ _ hh]
  simp only
  rw [if_neg (by simp [hxl])]
  have ht : (xorL rest e ++ tail).take (d0 + 256 * d1 + 65536 * d2 + 16777216 * d3) =
      (xorL rest e).take (d0 + 256 * d1 + 65536 * d2 + 16777216 * d3) := List.take_append_of_le_length (by omega)
  have hd : (xorL rest e ++ tail).drop (d0 + 256 * d1 + 65536 * d2 + 16777216 * d3) =
      (xorL rest e).drop (d0 + 256 * d1 + 65536 * d2 + 16777216 * d3) ++ tail := List.drop_append_of_le_length (by omega)
  rw [ht, hd, le16_append_of_two (by simp; omega), if_pos hmis]
  simp [bump]

/-- **A truncated sequence at the end of a chain.** `fitsA` encoded, then a 14-byte-header sequence cut after `j`
bytes, `0 < j <` its length (cut exactly at a sequence boundary the stream is a valid shorter chain): `CheckIntegrity` fails. -/
theorem C04_truncation_chain_encoder (o : Opts) (ho : OptsOK o) (fitsA : List (Wire.Hdr × List WMsg))
    (hallA : ∀ f ∈ fitsA, FitOK o f.1 f.2) (h : Wire.Hdr) (ms : List WMsg) (hf : FitOK o h ms)
    (h14 : h.size = 14) (hb : C02_ByteOK o (h, ms)) (j : Nat) (hj0 : 0 < j) (hj : j < (encodeFit o h ms).length) :
    ∀ n, checkIntegrity (encodeChain o fitsA ++ (encodeFit o h ms).take j) ≠ .ok n := by
  have hne : (encodeFit o h ms).take j ≠ [] := by
    intro hnil
    have := congrArg List.length hnil
    simp only [List.length_take, List.length_nil] at this; omega
  rw [check_after_chain o fitsA hallA _ hne]
  exact bump_not_ok (C04_truncation_encoder o ho h ms hf h14 hb j hj).1

/-- the hypotheses are met by an ordinary sequence, and the conclusion of `C04_encoder_output` holds of its bytes by evaluation -/
example :
    let o : Opts := ⟨0, false, 1⟩
    let h : Wire.Hdr := ⟨14, 32, 2158⟩
    let ms : List WMsg := [⟨0, [⟨0, 0, 3, [4]⟩], []⟩, ⟨20, [⟨253, 0x86, 7, [1, 2, 3, 4]⟩], []⟩]
    optsOKB o = true ∧ fitOKB o h ms = true ∧ h.protoVer < 256 ∧ (∀ b ∈ encodeMsgs o (freshEnc o) ms, b < 256) ∧
    decide (IsEncoderOutput14 (encodeFit o h ms)) = true := by
  decide +kernel

end Fit.C04
