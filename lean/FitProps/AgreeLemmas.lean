import FitProps.RawLemmas
import FitProps.DecProgLemmas
/-!
Simulation of the two framers: the full decoder's `Next`/`Decode` loop (`FitModel/DecProg.lean`, checksum ignored) and
the raw decoder (`FitModel/Raw.lean`) run on the same stream. Both consume the same number of bytes per record —
the full decoder reads exactly `size` bytes per field and developer field whatever their interpretation (size 0:
nothing; undersized, oversized: as given), the raw decoder their sum at once — so whenever the full decoder gets
through a record, the raw decoder does, and reports the corresponding item.
-/
set_option linter.unusedSimpArgs false
set_option linter.unusedVariables false

namespace Fit.Agree
open Fit.ReadBuffer

abbrev Triplet := Nat × Nat × Nat

/-- what the two decoders report, in a common form: a definition (header byte — hence local message number —,
architecture, global message number, field and developer field definitions), a data message (header byte —
hence kind and local message number), the end of a sequence -/
inductive Item
  | def_ (header arch mesgNum : Nat) (fields devs : List Triplet)
  | data (header : Nat)
  | seqEnd
  deriving DecidableEq, Repr

def ofEv : DecProg.Ev → Item
  | .def_ h a m f d => .def_ h a m f d
  | .msg h _ _ _ _ _ => .data h
  | .seq .. => .seqEnd

/-- a definition segment of the raw decoder, read as the protocol lays it out -/
def parseDef (bs : Bytes) : Item :=
  match bs with
  | h :: _ :: arch :: m0 :: m1 :: nf :: rest =>
    .def_ h arch (if arch = Fit.Gen.Integ.littleEndian then m0 + 256 * m1 else 256 * m0 + m1)
      (DecProg.triplets (rest.take (nf * 3)))
      (if h &&& Fit.Gen.Reader.devDataMask = Fit.Gen.Reader.devDataMask then DecProg.triplets ((rest.drop (nf * 3)).drop 1) else [])
  | _ => .seqEnd

def ofSeg (s : Raw.Seg) : Option Item :=
  if s.flag = Fit.Gen.Reader.rawFlagFileHeader then none
  else if s.flag = Fit.Gen.Reader.rawFlagMesgDef then some (parseDef s.bytes)
  else if s.flag = Fit.Gen.Reader.rawFlagMesgData then some (.data (s.bytes.headD 0))
  else some .seqEnd

def decItems (evs : List DecProg.Ev) : List Item := evs.map ofEv
def rawItems (segs : List Raw.Seg) : List Item := segs.filterMap ofSeg

/-- sum of the sizes of field definitions -/
def sizes (ts : List Triplet) : Nat := (ts.map (·.2.1)).foldl (· + ·) 0

theorem foldl_add (l : List Nat) (a : Nat) : l.foldl (· + ·) a = a + l.foldl (· + ·) 0 := by
  induction l generalizing a with
  | nil => simp
  | cons x xs ih => simp only [List.foldl_cons]; rw [ih (a + x), ih (0 + x)]; omega

theorem sizes_cons (t : Triplet) (ts : List Triplet) : sizes (t :: ts) = t.2.1 + sizes ts := by
  simp only [sizes, List.map_cons, List.foldl_cons]; rw [foldl_add]; omega

theorem sizes_triplets (b : Bytes) : sizes (DecProg.triplets b) = Raw.sizeSum b := by
  induction b using Raw.sizeSum.induct with
  | case1 a s c rest ih => rw [DecProg.triplets, sizes_cons, ih, Raw.sizeSum]
  | case2 b hne =>
    rw [Raw.sizeSum, DecProg.triplets]
    · rfl
    · exact hne
    · exact hne

/-- the decoder's `decodeFields` on the exact reader (checksum off): it consumes exactly the sum of the sizes, whatever
the sizes (0: skipped) — or the run ends with an error -/
theorem fields_wp (Φ : DecProg.Out × Bytes → Prop) (hfail : ∀ o fin, o.status ≠ none → Φ (o, fin))
    (fs : List Triplet) : ∀ (st : DecProg.St) (acc : List (Nat × Bytes)) (k : DecProg.St → List (Nat × Bytes) → DecProg.P) (rest : Bytes),
    (sizes fs ≤ rest.length → ∀ st' acc', st'.evs = st.evs → st'.defs = st.defs → st'.cur = st.cur + sizes fs →
        st'.descs = st.descs → st'.msgs = st.msgs → Φ (runExactR (k st' acc') (rest.drop (sizes fs)))) →
    Φ (runExactR (DecProg.fields false fs st acc k) rest) := by
  induction fs with
  | nil =>
    intro st acc k rest h
    simpa [DecProg.fields, sizes] using h (by simp [sizes]) st acc rfl rfl (by simp [sizes]) rfl rfl
  | cons t fs ih =>
    intro st acc k rest h
    obtain ⟨num, size, bt⟩ := t
    rw [sizes_cons] at h
    simp only at h
    simp only [DecProg.fields]
    by_cases hz : size = 0
    · subst hz
      simp only [if_true]
      apply ih
      intro hl st' acc' h1 h2 h3 h4 h5
      have := h (by omega) st' acc' h1 h2 (by omega) h4 h5
      simpa using this
    · simp only [hz, if_false, DecProg.rdN]
      rw [Raw.run_read]
      split
      case isFalse => simp only [runExactR]; exact hfail _ _ (by simp [DecProg.fail])
      case isTrue hl =>
        apply ih
        intro hl' st' acc' h1 h2 h3 h4 h5
        rw [List.length_drop] at hl'
        have := h (by omega) st' acc' (by rw [h1]) (by rw [h2]) (by rw [h3]; simp; omega) (by rw [h4]) (by rw [h5])
        rw [List.drop_drop]
        exact this

theorem devFields_wp (Φ : DecProg.Out × Bytes → Prop) (hfail : ∀ o fin, o.status ≠ none → Φ (o, fin))
    (descs : List Triplet) (fs : List Triplet) : ∀ (st : DecProg.St) (cnt : List (Nat × Nat × Bytes)) (k : DecProg.St → List (Nat × Nat × Bytes) → DecProg.P) (rest : Bytes),
    (sizes fs ≤ rest.length → ∀ st' cnt', st'.evs = st.evs → st'.defs = st.defs → st'.cur = st.cur + sizes fs →
        st'.descs = st.descs → st'.msgs = st.msgs → Φ (runExactR (k st' cnt') (rest.drop (sizes fs)))) →
    Φ (runExactR (DecProg.devFields false descs fs st cnt k) rest) := by
  induction fs with
  | nil =>
    intro st cnt k rest h
    simpa [DecProg.devFields, sizes] using h (by simp [sizes]) st cnt rfl rfl (by simp [sizes]) rfl rfl
  | cons t fs ih =>
    intro st cnt k rest h
    obtain ⟨num, size, ddi⟩ := t
    rw [sizes_cons] at h
    simp only at h
    have hread : ∀ (g : Bytes → List (Nat × Nat × Bytes)), Φ (runExactR (DecProg.rdN false size st fun b st => DecProg.devFields false descs fs st (g b) k) rest) := by
      intro g
      simp only [DecProg.rdN]
      rw [Raw.run_read]
      split
      case isFalse => simp only [runExactR]; exact hfail _ _ (by simp [DecProg.fail])
      case isTrue hl =>
        apply ih
        intro hl' st' c' h1 h2 h3 h4 h5
        rw [List.length_drop] at hl'
        have := h (by omega) st' c' (by rw [h1]) (by rw [h2]) (by rw [h3]; simp; omega) (by rw [h4]) (by rw [h5])
        rw [List.drop_drop]
        exact this
    simp only [DecProg.devFields]
    split
    · exact hread (fun _ => cnt)
    · split
      · simp only [runExactR]; exact hfail _ _ (by simp [DecProg.fail])
      · split
        · rename_i hz
          subst hz
          apply ih
          intro hl st' c' h1 h2 h3 h4 h5
          have := h (by omega) st' c' h1 h2 (by omega) h4 h5
          simpa using this
        · exact hread (fun b => cnt ++ [(num, ddi, b)])

def isSeq : DecProg.Ev → Bool
  | .seq .. => true
  | _ => false

def seqCount (evs : List DecProg.Ev) : Nat := (evs.filter isSeq).length

/-- what agreement means for two finished runs (outcome, unread rest): if the full decoder accepted — no error and the
loop ended at a clean end of stream — then the raw decoder accepted, consumed everything, and reported as many
sequences and the same series of items -/
def Agree (rd : DecProg.Out × Bytes) (rr : Raw.Out × Bytes) : Prop :=
  rd.1.status = none → rd.1.clean = true →
    rr.1.status = none ∧ rawItems rr.1.segs = decItems rd.1.evs ∧ rr.1.seqs = seqCount rd.1.evs ∧ rr.2 = []

theorem agree_fail (o : DecProg.Out) (fin : Bytes) (rr : Raw.Out × Bytes) (h : o.status ≠ none) : Agree (o, fin) rr :=
  fun hs => absurd hs h

theorem agree_unclean (o : DecProg.Out) (fin : Bytes) (rr : Raw.Out × Bytes) (h : o.status ≠ none ∨ o.clean = false) :
    Agree (o, fin) rr := by
  intro hs hc
  rcases h with h | h
  · exact absurd hs h
  · rw [h] at hc; cases hc

theorem agree_read (n : Nat) (kd : Except RErr Bytes → DecProg.P) (kr : Except RErr Bytes → Raw.P) (rest : Bytes)
    (hkd : ∀ e, ∃ o, kd (.error e) = .ret o ∧ (o.status ≠ none ∨ o.clean = false))
    (hok : n ≤ rest.length →
      Agree (runExactR (kd (.ok (rest.take n))) (rest.drop n)) (runExactR (kr (.ok (rest.take n))) (rest.drop n))) :
    Agree (runExactR (.read n kd) rest) (runExactR (.read n kr) rest) := by
  rw [Raw.run_read, Raw.run_read]
  by_cases hl : n ≤ rest.length
  · simp only [hl, if_true]; exact hok hl
  · simp only [hl, if_false]
    obtain ⟨o, ho, hs⟩ := hkd (if rest.isEmpty then .eof else .unexpectedEof)
    rw [ho]
    exact agree_unclean o _ _ hs

theorem agree_rdN (n : Nat) (st : DecProg.St) (k : Bytes → DecProg.St → DecProg.P) (kr : Except RErr Bytes → Raw.P) (rest : Bytes)
    (hok : n ≤ rest.length →
      Agree (runExactR (k (rest.take n) { st with cur := st.cur + n }) (rest.drop n)) (runExactR (kr (.ok (rest.take n))) (rest.drop n))) :
    Agree (runExactR (DecProg.rdN false n st k) rest) (runExactR (.read n kr) rest) := by
  unfold DecProg.rdN
  refine agree_read n _ kr rest (fun e => ⟨_, rfl, Or.inl (by simp [DecProg.fail])⟩) (fun hl => ?_)
  have := hok hl
  simpa using this

theorem consts_eq :
    Fit.Gen.Integ.mesgCompressedHeaderMask = Fit.Gen.Reader.mesgCompressedHeaderMask ∧
    Fit.Gen.Integ.mesgDefinitionMask = Fit.Gen.Reader.mesgDefinitionMask ∧
    Fit.Gen.Integ.devDataMask = Fit.Gen.Reader.devDataMask ∧
    Fit.Gen.Integ.localMesgNumMask = Fit.Gen.Reader.localMesgNumMask ∧
    Fit.Gen.Integ.dataTypeFIT = Fit.Gen.Reader.dataTypeFIT := by decide

/-- header byte arithmetic of the two decoders, on bytes -/
theorem local_eq : ∀ h, h < 256 →
    (if h &&& Fit.Gen.Integ.mesgCompressedHeaderMask = Fit.Gen.Integ.mesgCompressedHeaderMask
      then (h &&& Fit.Gen.Integ.compressedLocalMesgNumMask) >>> Fit.Gen.Integ.compressedBitShift else h) &&& Fit.Gen.Integ.localMesgNumMask
    = Raw.localMesgNum h := by decide +kernel

/-- the two decoders between two records of the same sequence -/
structure Rel (std : DecProg.St) (str : Raw.St) (lens : Raw.Lens) : Prop where
  items : rawItems str.segs.reverse = decItems std.evs.reverse
  seqs : str.seqs = seqCount std.evs
  tbl : ∀ i, lens.get i = match std.lookup i with | some d => 1 + sizes d.fields + sizes d.devFields | none => 0
  bound : ∀ i, lens.get i ≤ Fit.Gen.Reader.rawBytesArrayLen

/-- … and between two sequences -/
structure RelS (evs : List DecProg.Ev) (str : Raw.St) : Prop where
  items : rawItems str.segs.reverse = decItems evs.reverse
  seqs : str.seqs = seqCount evs

theorem rawItems_push (segs : List Raw.Seg) (s : Raw.Seg) : rawItems (s :: segs).reverse = rawItems segs.reverse ++ (ofSeg s).toList := by
  simp only [rawItems, List.reverse_cons, List.filterMap_append, List.filterMap_cons, List.filterMap_nil]
  cases ofSeg s <;> simp

theorem decItems_push (evs : List DecProg.Ev) (e : DecProg.Ev) : decItems (e :: evs).reverse = decItems evs.reverse ++ [ofEv e] := by
  simp [decItems]

theorem lens_get_cons (lens : Raw.Lens) (k v i : Nat) : Raw.Lens.get ((k, v) :: lens) i = if k = i then v else lens.get i := by
  by_cases h : k = i
  · subst h; simp [Raw.Lens.get]
  · have : (k == i) = false := by simpa using h
    simp [Raw.Lens.get, List.find?, this, h]

theorem lookup_cons (st' st : DecProg.St) (k : Nat) (d : DecProg.Def) (hd : st'.defs = (k, d) :: st.defs) (i : Nat) :
    st'.lookup i = if k = i then some d else st.lookup i := by
  by_cases h : k = i
  · subst h; simp [DecProg.St.lookup, hd]
  · have : (k == i) = false := by simpa using h
    simp [DecProg.St.lookup, hd, List.find?, this, h]

theorem triplets_length_le (b : Bytes) : (DecProg.triplets b).length ≤ b.length / 3 := by
  induction b using DecProg.triplets.induct with
  | case1 a s c rest ih => simp only [DecProg.triplets, List.length_cons]; omega
  | case2 b hne => rw [DecProg.triplets]; simp; exact hne

theorem emit_none (st : Raw.St) (flag : Nat) (bytes : Bytes) (k : Raw.St → Raw.P) :
    Raw.emit none st flag bytes k = k { st with segs := ⟨flag, bytes⟩ :: st.segs } := by
  simp [Raw.emit]

theorem lookup_congr {st st' : DecProg.St} (h : st'.defs = st.defs) (i : Nat) : st'.lookup i = st.lookup i := by
  simp [DecProg.St.lookup, h]

theorem seqCount_def (evs : List DecProg.Ev) (h a m : Nat) (f d : List Triplet) :
    seqCount (.def_ h a m f d :: evs) = seqCount evs := by simp [seqCount, isSeq]
theorem seqCount_msg (evs : List DecProg.Ev) (h m a b : Nat) (p : List (Nat × Bytes)) (q : List (Nat × Nat × Bytes)) :
    seqCount (.msg h m a b p q :: evs) = seqCount evs := by simp [seqCount, isSeq]

theorem messages_agree (ds : Nat) (fuel : Nat) : ∀ (std : DecProg.St) (str : Raw.St) (lens : Raw.Lens) (used : Nat) (rest : Bytes)
    (kd : DecProg.St → DecProg.P) (kr : Raw.St → Raw.P),
    Rel std str lens → used = std.cur → IsBytes rest →
    (∀ std' str' rest', RelS std'.evs str' → IsBytes rest' → Agree (runExactR (kd std') rest') (runExactR (kr str') rest')) →
    Agree (runExactR (DecProg.messages false ds fuel std kd) rest) (runExactR (Raw.msgs none ds fuel used lens str kr) rest) := by
  induction fuel with
  | zero => intro std str lens used rest kd kr hrel _ hb hk; exact hk std str rest ⟨hrel.items, hrel.seqs⟩ hb
  | succ fuel ih =>
    intro std str lens used rest kd kr hrel hused hb hk
    subst hused
    simp only [DecProg.messages, Raw.msgs]
    by_cases hlt : std.cur < ds
    · simp only [hlt, if_true]
      unfold DecProg.message
      refine agree_rdN 1 std _ _ rest (fun hl1 => ?_)
      obtain ⟨h, rest1, rfl⟩ : ∃ h rest1, rest = h :: rest1 := by
        cases rest with
        | nil => simp at hl1
        | cons h t => exact ⟨h, t, rfl⟩
      have hh : h < 256 := hb h (by simp)
      have hb1 : IsBytes rest1 := fun x hx => hb x (by simp [hx])
      simp only [List.take_succ_cons, List.take_zero, List.drop_succ_cons, List.drop_zero, List.headD_cons,
        consts_eq.1, consts_eq.2.1]
      by_cases hdef : h &&& (Fit.Gen.Reader.mesgCompressedHeaderMask ||| Fit.Gen.Reader.mesgDefinitionMask) = Fit.Gen.Reader.mesgDefinitionMask
      · simp only [hdef, if_true]
        unfold DecProg.definition
        refine agree_rdN 5 _ _ _ rest1 (fun hl5 => ?_)
        obtain ⟨r, a, g0, g1, nf, hb5⟩ := Raw.len5 (l := rest1.take 5) (by rw [List.length_take]; exact Nat.min_eq_left hl5)
        have hs5 := Raw.split_at hl5
        rw [hb5] at hs5
        have hnf : nf < 256 := hb1 nf (by rw [hs5]; simp)
        simp only [hb5, List.drop_succ_cons, List.drop_zero, List.headD_cons]
        have hb2 : IsBytes (rest1.drop 5) := isBytes_drop hb1 5
        generalize rest1.drop 5 = R2 at *
        subst hs5
        refine agree_rdN (nf * 3) _ _ _ R2 (fun hlf => ?_)
        have hsf := Raw.split_at hlf
        have hfl : (R2.take (nf * 3)).length = nf * 3 := by rw [List.length_take]; exact Nat.min_eq_left hlf
        have hbF : IsBytes (R2.take (nf * 3)) := isBytes_take hb2 _
        have hb3 : IsBytes (R2.drop (nf * 3)) := isBytes_drop hb2 _
        generalize R2.take (nf * 3) = F at *
        generalize R2.drop (nf * 3) = R3 at *
        subst hsf
        simp only [consts_eq.2.2.1, consts_eq.2.2.2.1]
        by_cases hinv : (DecProg.triplets F).any (fun t => !DecProg.validBaseType t.2.2) = true
        · simp only [hinv, if_true, runExactR]
          exact agree_fail _ _ _ (by simp [DecProg.fail])
        · simp only [hinv, Bool.false_eq_true, if_false]
          by_cases hdev : h &&& Fit.Gen.Reader.devDataMask = Fit.Gen.Reader.devDataMask
          · simp only [hdev, if_true]
            refine agree_rdN 1 _ _ _ R3 (fun hl1' => ?_)
            obtain ⟨nd, hnb⟩ := Raw.len1 (l := R3.take 1) (by rw [List.length_take]; exact Nat.min_eq_left hl1')
            have hsn := Raw.split_at hl1'
            rw [hnb] at hsn
            have hnd : nd < 256 := hb3 nd (by rw [hsn]; simp)
            simp only [hnb, List.headD_cons]
            have hb4 : IsBytes (R3.drop 1) := isBytes_drop hb3 1
            generalize R3.drop 1 = R4 at *
            subst hsn
            refine agree_rdN (nd * 3) _ _ _ R4 (fun hld => ?_)
            have hsd := Raw.split_at hld
            have hdl : (R4.take (nd * 3)).length = nd * 3 := by rw [List.length_take]; exact Nat.min_eq_left hld
            have hbD : IsBytes (R4.take (nd * 3)) := isBytes_take hb4 _
            have hb5' : IsBytes (R4.drop (nd * 3)) := isBytes_drop hb4 _
            generalize R4.take (nd * 3) = D at *
            generalize R4.drop (nd * 3) = R5 at *
            subst hsd
            simp only [emit_none]
            refine ih _ _ _ _ R5 kd kr ?_ ?_ hb5' hk
            · refine ⟨?_, ?_, ?_, ?_⟩
              · simp only [rawItems_push, decItems_push, hrel.items]
                congr 1
                have hF : (F ++ nd :: D).take (nf * 3) = F := by
                  rw [List.take_append_of_le_length (by omega), List.take_of_length_le (by omega)]
                have hD : ((F ++ nd :: D).drop (nf * 3)).drop 1 = D := by
                  rw [List.drop_append_of_le_length (by omega), List.drop_of_length_le (l := F) (by omega)]; rfl
                simp [ofSeg, ofEv, parseDef, hF, hD, hdev, DecProg.le16, DecProg.be16,
                  show ¬ (Fit.Gen.Reader.rawFlagMesgDef = Fit.Gen.Reader.rawFlagFileHeader) by decide]
              · simp only [seqCount_def]; exact hrel.seqs
              · intro i
                rw [lens_get_cons, lookup_cons _ std _ _ rfl]
                split
                · simp only [sizes_triplets]
                · exact hrel.tbl i
              · intro i
                rw [lens_get_cons]
                split
                · exact Raw.lenMesg_fits F D hbF hbD (by omega) (by omega)
                · exact hrel.bound i
            · simp only; omega
          · simp only [hdev, if_false]
            simp only [emit_none]
            refine ih _ _ _ _ R3 kd kr ?_ ?_ hb3 hk
            · refine ⟨?_, ?_, ?_, ?_⟩
              · simp only [rawItems_push, decItems_push, hrel.items]
                congr 1
                have hF : F.take (nf * 3) = F := List.take_of_length_le (by omega)
                simp [ofSeg, ofEv, parseDef, hF, hdev, DecProg.le16, DecProg.be16,
                  show ¬ (Fit.Gen.Reader.rawFlagMesgDef = Fit.Gen.Reader.rawFlagFileHeader) by decide]
              · simp only [seqCount_def]; exact hrel.seqs
              · intro i
                rw [lens_get_cons, lookup_cons _ std _ _ rfl]
                split
                · simp only [sizes_triplets]; simp [sizes]
                · exact hrel.tbl i
              · intro i
                rw [lens_get_cons]
                split
                · have := Raw.lenMesg_fits F [] hbF (fun _ h => by cases h) (by omega) (by simp)
                  simpa [Raw.sizeSum] using this
                · exact hrel.bound i
            · simp only; omega
      · simp only [hdef, if_false]
        unfold DecProg.data
        simp only [local_eq h hh]
        have htbl := hrel.tbl (Raw.localMesgNum h)
        have hbnd := hrel.bound (Raw.localMesgNum h)
        rw [lookup_congr (st := std) (st' := { std with cur := std.cur + 1 }) rfl]
        cases hlk : std.lookup (Raw.localMesgNum h) with
        | none => simp only [runExactR]; exact agree_fail _ _ _ (by simp [DecProg.fail])
        | some d =>
          rw [hlk] at htbl
          simp only at htbl
          simp only
          refine fields_wp (fun rd => Agree rd _) (fun o fin hs => agree_fail o fin _ hs) d.fields _ _ _ rest1 ?_
          intro hl st' acc' e1 e2 e3 e4 e5
          refine devFields_wp (fun rd => Agree rd _) (fun o fin hs => agree_fail o fin _ hs) _ d.devFields _ [] _ _ ?_
          intro hl2 st'' nd f1 f2 f3 f4 f5
          rw [List.length_drop] at hl2
          have hne : ¬ (Raw.Lens.get lens (Raw.localMesgNum h) = 0) := by omega
          have hnb : ¬ (Fit.Gen.Reader.rawBytesArrayLen < Raw.Lens.get lens (Raw.localMesgNum h)) := by omega
          simp only [hne, hnb, if_false]
          rw [Raw.run_read]
          have hlr : Raw.Lens.get lens (Raw.localMesgNum h) - 1 ≤ rest1.length := by omega
          simp only [hlr, if_true, emit_none]
          have hdrop : (rest1.drop (sizes d.fields)).drop (sizes d.devFields) = rest1.drop (Raw.Lens.get lens (Raw.localMesgNum h) - 1) := by
            rw [List.drop_drop]; congr 1; omega
          rw [hdrop]
          refine ih _ _ lens _ _ kd kr ?_ ?_ (isBytes_drop hb1 _) hk
          · refine ⟨?_, ?_, ?_, hrel.bound⟩
            · simp only [rawItems_push, decItems_push, f1, e1, hrel.items]
              congr 1
            · simp only [seqCount_msg, f1, e1]; exact hrel.seqs
            · intro i
              rw [lookup_congr (st := std) (by simp only [f2, e2]) i]
              exact hrel.tbl i
          · simp only [f3, e3]; omega
    · simp only [hlt, if_false]
      exact hk std str rest ⟨hrel.items, hrel.seqs⟩ hb

theorem seqCount_seq (evs : List DecProg.Ev) (a b c d e f g : Nat) :
    seqCount (.seq a b c d e f g :: evs) = seqCount evs + 1 := by simp [seqCount, List.filter, isSeq]

theorem seqCount_reverse (evs : List DecProg.Ev) : seqCount evs.reverse = seqCount evs := by
  simp [seqCount, List.filter_reverse]

theorem loop_agree (fuel : Nat) : ∀ (first : Bool) (evs : List DecProg.Ev) (str : Raw.St) (rest : Bytes),
    RelS evs str → (first = false → str.seqs ≠ 0) → IsBytes rest →
    Agree (runExactR (DecProg.decodeLoop false fuel first evs) rest) (runExactR (Raw.decode none fuel str) rest) := by
  induction fuel with
  | zero => intro first evs str rest _ _ _; intro _ hc; simp [DecProg.decodeLoop, runExactR] at hc
  | succ fuel ih =>
    intro first evs str rest hrel hfirst hb
    simp only [DecProg.decodeLoop, Raw.decode, DecProg.fileHeader]
    rw [Raw.run_read, Raw.run_read]
    by_cases hl1 : 1 ≤ rest.length
    · simp only [hl1, if_true]
      obtain ⟨b0, rest1, rfl⟩ : ∃ h rest1, rest = h :: rest1 := by
        cases rest with
        | nil => simp at hl1
        | cons h t => exact ⟨h, t, rfl⟩
      have hb1 : IsBytes rest1 := fun x hx => hb x (by simp [hx])
      simp only [List.take_succ_cons, List.take_zero, List.drop_succ_cons, List.drop_zero, List.headD_cons]
      by_cases hsz : b0 ≠ 12 ∧ b0 ≠ 14
      · simp only [eq_true hsz, if_true]
        cases first
        · intro _ hc; simp [runExactR, DecProg.Err.endsIteration] at hc
        · exact agree_fail _ _ _ (by simp [runExactR])
      · simp only [eq_false hsz, if_false]
        refine agree_read _ _ _ rest1 (fun e => ?_) (fun hlh => ?_)
        · cases first <;> cases e <;> first
            | exact ⟨_, rfl, Or.inr rfl⟩
            | exact ⟨_, rfl, Or.inl (by simp)⟩
        · have hb2 : IsBytes (rest1.drop (b0 - 1)) := isBytes_drop hb1 _
          generalize rest1.take (b0 - 1) = B at *
          generalize rest1.drop (b0 - 1) = R2 at *
          simp only [consts_eq.2.2.2.2]
          by_cases htag : (B.drop 7).take 4 ≠ Fit.Gen.Reader.dataTypeFIT
          · simp only [eq_true htag, if_true]
            cases first
            · exact agree_unclean _ _ _ (Or.inr (by simp [runExactR, DecProg.Err.endsIteration]))
            · exact agree_fail _ _ _ (by simp [runExactR])
          · simp only [eq_false htag, if_false]
            by_cases hds : DecProg.le32 (B.drop 3) = 0
            · simp only [hds, if_true]
              cases first
              · exact agree_unclean _ _ _ (Or.inr (by simp [runExactR, DecProg.Err.endsIteration]))
              · exact agree_fail _ _ _ (by simp [runExactR])
            · simp only [hds, if_false, or_true, if_true, emit_none]
              have hle : DecProg.le32 (B.drop 3) = Raw.le32 (B.drop 3) := by
                unfold DecProg.le32 Raw.le32; rfl
              rw [← hle]
              refine messages_agree _ _ { evs := evs } _ [] 0 R2 _ _ ?_ rfl hb2 ?_
              · refine ⟨?_, hrel.seqs, ?_, ?_⟩
                · simp only [rawItems_push, hrel.items]
                  simp [ofSeg]
                · intro i; simp [Raw.Lens.get, DecProg.St.lookup]
                · intro i; simp [Raw.Lens.get]
              · intro std' str' rest' hrel' hb'
                unfold DecProg.fileCrc
                refine agree_read 2 _ _ rest' (fun e => ⟨_, rfl, Or.inl (by simp [DecProg.fail])⟩) (fun hl2 => ?_)
                simp only [Bool.false_eq_true, false_and, if_false, emit_none]
                refine ih false _ _ _ ?_ (fun _ => by simp) (isBytes_drop hb' 2)
                refine ⟨?_, ?_⟩
                · simp only [rawItems_push, decItems_push, hrel'.items]
                  congr 1
                · simp only [seqCount_seq, hrel'.seqs]
    · simp only [hl1, if_false]
      have hr : rest = [] := by cases rest with | nil => rfl | cons _ _ => simp at hl1
      subst hr
      simp only [List.isEmpty_nil, if_true, runExactR]
      cases first
      · have hs := hfirst rfl
        simp only [Bool.false_eq_true, if_false, hs, ne_eq, not_false_eq_true, and_self, if_true, Bool.false_or,
          DecProg.Err.endsIteration, Bool.not_true]
        unfold Agree
        simp only [runExactR, Raw.done, seqCount_reverse]
        intro _ _
        exact ⟨trivial, hrel.items, hrel.seqs, trivial⟩
      · exact agree_fail _ _ _ (by simp)

end Fit.Agree
