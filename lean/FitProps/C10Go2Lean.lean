import FitProps.Go2LeanBasetype
/-!
# C10 — tie of the base-type facts to the source by translation

The model of C10 reads the declared size / validity of a base type through `Fit.Value.btSize` / `btValid`. These are
what `BaseType.Size()` / `Valid()`, translated from the CURRENT source of profile/basetype/basetype.go on every run
(`FitModel/Generated/Go_basetype.lean`), compute — for every byte, without panic.

PROPERTY THEOREMS (audited by ./check): C10_go2lean_size, C10_go2lean_valid
-/
namespace Fit.C10
open Fit.Value Fit.Go2Lean

theorem C10_go2lean_size : ∀ t < 256, Go.basetype.BaseType.Size t = some (btSize t) := bt_size
theorem C10_go2lean_valid : ∀ t < 256, Go.basetype.BaseType.Valid t = some (btValid t) := bt_valid

end Fit.C10
