import FitProps.Go2LeanBasetype
import FitProps.Go2LeanProtoValidator
/-!
# C10 — tie of the base-type facts to the source by translation

The model of C10 reads the declared size / validity of a base type through `Fit.Value.btSize` / `btValid`. These are
what `BaseType.Size()` / `Valid()`, translated from the CURRENT source of profile/basetype/basetype.go on every run
(`FitModel/Generated/Go_basetype.lean`), compute — for every byte, without panic.

The conditions of the protocol validator (proto/validator.go: "protocol version is 1.0", "base type added after 1.0") and the
packing of `proto.Version` (proto/version.go) are translated likewise (`Go_proto.lean`) and equal the model's `ver = protoV1`
and `afterV1`.

PROPERTY THEOREMS (audited by ./check): C10_go2lean_size, C10_go2lean_valid, C10_go2lean_validator, C10_go2lean_version
-/
namespace Fit.C10
open Fit.Value Fit.Go2Lean

theorem C10_go2lean_size : ∀ t < 256, Go.basetype.BaseType.Size t = some (btSize t) := bt_size
theorem C10_go2lean_valid : ∀ t < 256, Go.basetype.BaseType.Valid t = some (btValid t) := bt_valid

open Fit.Validator Fit.Gen in
theorem C10_go2lean_validator : (∀ v < 256, Go.proto.ValidateMessageDefinition_isV1 v = decide (v = protoV1) ∧
      Go.proto.ValidateMessage_isV1 v = decide (v = protoV1)) ∧
    (∀ bt < 256, Go.proto.ValidateMessageDefinition_afterV1 bt = afterV1 bt ∧ Go.proto.ValidateMessage_afterV1 bt = afterV1 bt) :=
  proto_validator

theorem C10_go2lean_version : (∀ v < 256, Go.proto.Version.Major v = v / 16 ∧ Go.proto.Version.Minor v = v % 16) ∧
    (∀ maj < 16, ∀ min < 16, Go.proto.Version.Major (Go.proto.CreateVersion maj min) = maj ∧
      Go.proto.Version.Minor (Go.proto.CreateVersion maj min) = min) ∧
    Go.proto.V1 = Go.proto.CreateVersion 1 0 ∧ Go.proto.V2 = Go.proto.CreateVersion 2 0 := proto_version

end Fit.C10
