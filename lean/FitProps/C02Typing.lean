import FitProps.C02
import FitProps.EndToEndLemmas
/-!
# C02 — the byte-stream hypothesis `C02_ByteOK` of `C02_wellformed*`, DERIVED from the typing of the input

`C02_wellformed_mixed` / `C02_wellformed` (FitProps/C02.lean) take `hbytes : ∀ f ∈ fits, C02_ByteOK o f` — "the protocol
version is a byte and every record byte the encoder writes is a byte" — a statement about the encoder's OUTPUT. This file
removes it from the hypotheses: it is a consequence of the typing of the encoder's INPUT.

* `C02_byteOK_of_typing`: `OptsOK o`, `FitOK o f.1 f.2` and the byte typing of the input
  (`f.1.protoVer < 256 ∧ ∀ m ∈ f.2, Fit.E2E.MsgTyped m`) give `C02_ByteOK o f`. The second field is
  `E2E.encodeMsgs_bytes` (FitProps/EndToEndLemmas.lean: induction over the messages with the LRU invariant `DefInv`, from
  the fresh encoder state), bridged from `Fit.DecApi.IsBytes` to `Fit.C18.Bytes` (the same predicate, `∀ b ∈ l, b < 256`).
* `C02_wellformed_mixed_of_typing`, `C02_wellformed_of_typing`: the conclusions of `C02_wellformed_mixed` / `C02_wellformed`,
  word for word, with `hbytes` replaced by the byte typing of the input — `C02_ByteOK` no longer occurs in a hypothesis.
* `C02_crc_whole_sequence_of_typing`: the conclusion of `C02_crc_whole_sequence_partial` (which takes
  `Bytes (encodeMsgs …)`), from the byte typing of the input.

WHAT REMAINS A HYPOTHESIS, and why. The model's numbers are `Nat`; the code's are `byte`s. `FitOK` / `MsgOK` already say
that field DATA are bytes and base types are valid (hence < 256); they do not bound the other numbers the encoder copies
to the wire verbatim. `Fit.E2E.MsgTyped m` is exactly that remainder and nothing else — it is the weakest such predicate,
not the typing of decoded `Message`s:
  - every field number `f.num < 256`                         (`proto.Field.Num` is a `byte`),
  - every developer field's `d.num < 256` and `d.idx < 256`  (`DeveloperField.Num`, `.DeveloperDataIndex` are `byte`s),
  - every developer field's data are bytes                   (`[]byte`; `MsgOK` bounds only their length),
and `f.1.protoVer < 256` (`FileHeader.ProtocolVersion` is a `byte`; `FitOK` constrains the header's size and profile
version only, so "the protocol version is a byte" is not derivable and stays an explicit conjunct). All of it holds by type in
the code; none of it mentions the encoder or its output. It is needed (`C02_typing_needed`): `FitOK` admits a field number
256 and a protocol version 256, and the model then writes the "byte" 256.
The `example`s at the end show the hypotheses are met by a two-sequence chain with developer fields (non-vacuity), through
the decidable forms `optsOKB` / `fitOKB` of the typing.
-/
namespace Fit.C02
open Fit.Wire
open Fit.Crc (write crcSpec crc_append_self crcSpec_append)

/-- `Fit.DecApi.IsBytes` and `Fit.C18.Bytes` are the same predicate -/
private theorem bytes_of_isBytes (l : List Nat) (h : Fit.DecApi.IsBytes l) : Fit.C18.Bytes l :=
  fun b hb => h b hb

/-- BYTE STREAM FROM TYPING: for options and a FIT value that validation lets through, if the protocol version is a byte
and the messages are byte-typed (`E2E.MsgTyped`: field numbers, developer field numbers / data indexes and developer data
are bytes — the rest is in `MsgOK`), the header and every record byte the encoder writes are bytes. -/
theorem C02_byteOK_of_typing (o : Opts) (ho : OptsOK o) (f : Hdr × List WMsg) (hok : FitOK o f.1 f.2)
    (hpv : f.1.protoVer < 256) (htyped : ∀ m ∈ f.2, Fit.E2E.MsgTyped m) : C02_ByteOK o f :=
  ⟨hpv, bytes_of_isBytes _ <|
    Fit.E2E.encodeMsgs_bytes (fun _ => false) o ho.arch f.2 (freshEnc o) DecState.fresh
      (fun m hm => ⟨hok.msgs m hm, htyped m hm⟩) (DefInv.fresh o.arch o.lruCap ho.capPos ho.cap16 _) ho.cap4
      (fun _ => Or.inl rfl)⟩

/-- FILE CRC COVERS THE WHOLE SEQUENCE (14-byte headers), from the typing of the input: `C02_crc_whole_sequence_partial`
without its hypothesis that the records are bytes. -/
theorem C02_crc_whole_sequence_of_typing (o : Opts) (ho : OptsOK o) (h : Hdr) (ms : List WMsg) (hok : FitOK o h ms)
    (hs : h.size = 14) (hp : h.protoVer < 256) (htyped : ∀ m ∈ ms, Fit.E2E.MsgTyped m) :
    let recs := encodeMsgs o (freshEnc o) ms
    let ds := recs.length % 4294967296
    (encodeFit o h ms) = (hdrBytes h ds ++ recs) ++ Wire.le16 (crcSpec 0 (hdrBytes h ds ++ recs)) :=
  C02_crc_whole_sequence_partial o h ms hs hp (C02_byteOK_of_typing o ho (h, ms) hok hp htyped).recs

/-- WELL-FORMED STREAMS, every chain, 14- and 12-byte headers mixed — `C02_wellformed_mixed` with the byte-stream
hypothesis on the OUTPUT (`C02_ByteOK`) replaced by the byte typing of the INPUT (protocol version, field numbers,
developer field numbers / data indexes / data are bytes: by type in the code). -/
theorem C02_wellformed_mixed_of_typing (o : Opts) (ho : OptsOK o) (fits : List (Hdr × List WMsg))
    (hall : ∀ f ∈ fits, FitOK o f.1 f.2)
    (htyped : ∀ f ∈ fits, f.1.protoVer < 256 ∧ ∀ m ∈ f.2, Fit.E2E.MsgTyped m) :
    ∃ seqs, FitFormat.parseStream (encodeChain o fits) = some seqs ∧ seqs.length = fits.length ∧
      ∀ p ∈ fits.zip seqs,
        p.2.header.size = p.1.1.size ∧
        p.2.header.dataSize = (encodeMsgs o (freshEnc o) p.1.2).length ∧
        FitFormat.headerCrcStrict (encodeChain o fits) p.2 = true ∧
        FitFormat.headerCrcOk (encodeChain o fits) p.2 = true ∧
        (p.1.1.size = 14 → FitFormat.fileCrcOk (encodeChain o fits) p.2 = true) ∧
        (p.1.1.size = 12 → p.2.header.crc = none ∧
          p.2.crc = crcSpec 0 (FitFormat.slice (encodeChain o fits) (p.2.start + 12) p.2.header.dataSize)) :=
  C02_wellformed_mixed o ho fits hall
    (fun f hf => C02_byteOK_of_typing o ho f (hall f hf) (htyped f hf).1 (htyped f hf).2)

/-- WELL-FORMED STREAMS (14-byte headers) — `C02_wellformed` with the byte-stream hypothesis on the OUTPUT
(`C02_ByteOK`) replaced by the byte typing of the INPUT. -/
theorem C02_wellformed_of_typing (o : Opts) (ho : OptsOK o) (fits : List (Hdr × List WMsg))
    (hall : ∀ f ∈ fits, FitOK o f.1 f.2)
    (htyped : ∀ f ∈ fits, f.1.protoVer < 256 ∧ ∀ m ∈ f.2, Fit.E2E.MsgTyped m) (h14 : ∀ f ∈ fits, f.1.size = 14) :
    FitFormat.WellFormed (encodeChain o fits) ∧
    ∃ seqs, FitFormat.parseStream (encodeChain o fits) = some seqs ∧ seqs.length = fits.length :=
  C02_wellformed o ho fits hall
    (fun f hf => C02_byteOK_of_typing o ho f (hall f hf) (htyped f hf).1 (htyped f hf).2) h14

/-- THE TYPING HYPOTHESIS IS NEEDED (it is not implied by `FitOK`): a FIT value that passes the decidable form of `FitOK`
whose only field has number 256 and whose header has protocol version 256 — the model writes 256 as a record "byte" and
as a header "byte", so `C02_ByteOK` fails in both fields. (Unreachable in the code: both are `byte`s.) -/
theorem C02_typing_needed :
    fitOKB ⟨0, false, 1⟩ ⟨14, 256, 2158⟩ [⟨0, [⟨256, 0, 3, [4]⟩], []⟩] = true ∧
    256 ∈ encodeMsgs ⟨0, false, 1⟩ (freshEnc ⟨0, false, 1⟩) [⟨0, [⟨256, 0, 3, [4]⟩], []⟩] ∧
    256 ∈ encodeFit ⟨0, false, 1⟩ ⟨14, 256, 2158⟩ [⟨0, [⟨0, 0, 3, [4]⟩], []⟩] := by
  decide +kernel

/-! ### non-vacuity -/

/-- the decidable forms of the typing (FitModel/Wire.lean) imply the propositional ones -/
private theorem msgOK_of_msgOKB (m : WMsg) (h : msgOKB m = true) : MsgOK m := by
  simp only [msgOKB, Bool.and_eq_true, decide_eq_true_eq, List.all_eq_true] at h
  obtain ⟨⟨⟨⟨h1, h2⟩, h3⟩, h4⟩, h5⟩ := h
  exact ⟨h1, h2, h3, fun f hf => ⟨(h4 f hf).1.1, (h4 f hf).1.2⟩, h5, fun f hf b hb => (h4 f hf).2 b hb⟩

private theorem optsOK_of_optsOKB (o : Opts) (h : optsOKB o = true) : OptsOK o := by
  simp only [optsOKB, Bool.and_eq_true, Bool.or_eq_true, beq_iff_eq, decide_eq_true_eq, Bool.not_eq_true'] at h
  obtain ⟨⟨⟨h1, h2⟩, h3⟩, h4⟩ := h
  refine ⟨h1, h2, h3, fun hc => ?_⟩
  rcases h4 with h4 | h4
  · rw [hc] at h4; cases h4
  · exact h4

private theorem fitOK_of_fitOKB (o : Opts) (h : Hdr) (ms : List WMsg) (hb : fitOKB o h ms = true) : FitOK o h ms := by
  simp only [fitOKB, Bool.and_eq_true, Bool.or_eq_true, beq_iff_eq, decide_eq_true_eq, Bool.not_eq_true',
    List.isEmpty_eq_false_iff, List.all_eq_true] at hb
  obtain ⟨⟨⟨⟨h1, h2⟩, h3⟩, h4⟩, h5⟩ := hb
  exact ⟨h1, h2, h3, fun m hm => msgOK_of_msgOKB m (h4 m hm), h5⟩

/-- a two-sequence chain with developer fields, 14-byte headers -/
private def exFits : List (Hdr × List WMsg) :=
  [(⟨14, 32, 2158⟩, [⟨0, [⟨0, 0, 3, [4]⟩], []⟩, ⟨20, [⟨3, 0x02, 3, [70]⟩], [⟨1, 0, [1, 2]⟩, ⟨2, 0, [9]⟩]⟩]),
   (⟨14, 16, 2158⟩, [⟨20, [⟨253, 0x86, 4, [1, 2, 3, 4]⟩], [⟨7, 1, [255]⟩]⟩])]

/-- the same with a 12-byte header first -/
private def exFitsMixed : List (Hdr × List WMsg) :=
  (⟨12, 32, 2158⟩, [⟨0, [⟨0, 0, 3, [4]⟩], [⟨1, 0, [1, 2]⟩]⟩]) :: exFits

private theorem exTyped : ∀ f ∈ exFitsMixed, f.1.protoVer < 256 ∧ ∀ m ∈ f.2, Fit.E2E.MsgTyped m := by
  intro f hf
  simp only [exFitsMixed, exFits, List.mem_cons, List.not_mem_nil, or_false] at hf
  rcases hf with rfl | rfl | rfl
  all_goals
    refine ⟨by decide, fun m hm => ?_⟩
    simp only [List.mem_cons, List.not_mem_nil, or_false] at hm
    rcases hm with rfl | rfl <;> exact ⟨by decide, by decide, by decide⟩

/-- the hypotheses of `C02_wellformed_of_typing` are met by an ordinary two-sequence chain with developer fields
(non-vacuity): the theorem applies to it, and its conclusion is what the executable spec says of these bytes -/
example :
    (FitFormat.WellFormed (encodeChain ⟨0, false, 1⟩ exFits) ∧
      ∃ seqs, FitFormat.parseStream (encodeChain ⟨0, false, 1⟩ exFits) = some seqs ∧ seqs.length = exFits.length) ∧
    FitFormat.wellFormed (encodeChain ⟨0, false, 1⟩ exFits) = true ∧
    ((FitFormat.parseStream (encodeChain ⟨0, false, 1⟩ exFits)).map List.length) = some 2 :=
  ⟨C02_wellformed_of_typing ⟨0, false, 1⟩ (optsOK_of_optsOKB _ (by decide +kernel)) exFits
      (fun f hf => fitOK_of_fitOKB _ _ _ (by
        simp only [exFits, List.mem_cons, List.not_mem_nil, or_false] at hf
        rcases hf with rfl | rfl <;> decide +kernel))
      (fun f hf => exTyped f (List.mem_cons_of_mem _ hf))
      (by decide),
    by decide +kernel, by decide +kernel⟩

/-- … and those of `C02_wellformed_mixed_of_typing` by a chain that mixes a 12-byte header with 14-byte ones, with
compressed timestamps and big-endian definitions -/
example : ∃ seqs, FitFormat.parseStream (encodeChain ⟨1, true, 4⟩ exFitsMixed) = some seqs ∧ seqs.length = 3 := by
  obtain ⟨seqs, h1, h2, _⟩ := C02_wellformed_mixed_of_typing ⟨1, true, 4⟩ (optsOK_of_optsOKB _ (by decide +kernel)) exFitsMixed
    (fun f hf => fitOK_of_fitOKB _ _ _ (by
      simp only [exFitsMixed, exFits, List.mem_cons, List.not_mem_nil, or_false] at hf
      rcases hf with rfl | rfl | rfl <;> decide +kernel))
    exTyped
  exact ⟨seqs, h1, h2⟩

end Fit.C02
