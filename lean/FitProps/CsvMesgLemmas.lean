import FitProps.CsvScopeLemmas
/-! The reader's `createMesg` on the cells of ONE message within scope: first pass (fields, placeholders, developer
fields), the reversal of every sub-field substitution (`revertAll` over any number of placeholders), the removal of the
component targets. -/
set_option linter.unusedSimpArgs false
set_option linter.unusedVariables false
namespace Fit.Csv
open Fit.Value Fit.Msg Fit.Gen Fit.Gen.Csv

/-! ### first pass -/

theorem parseCells_devs (ar : Arith) (o : Opts) (ds W : List Desc) (n : Nat) :
    ∀ dvs : List DevField, (∀ dv ∈ dvs, readCell ar ds n (writeDev o W dv) = .ok (.dev dv)) →
      parseCells ar ds n (dvs.map (writeDev o W)) = .ok ([], dvs)
  | [], _ => rfl
  | dv :: dvs, h => by
    have h1 := h dv (List.mem_cons_self ..)
    have ih := parseCells_devs ar o ds W n dvs (fun x hx => h x (List.mem_cons_of_mem _ hx))
    simp only [List.map_cons, parseCells, h1, ih]

theorem parseCells_fields (o : Opts) (ds : List Desc) (hds : NoSubNames ds) (m : Message)
    (devCells : List Cell) (devs : List DevField) (hdev : parseCells Arith.so ds m.num devCells = .ok ([], devs)) :
    ∀ fs : List Field, (∀ f ∈ fs, FieldScope m f) →
      parseCells Arith.so ds m.num (fs.map (writeField o m) ++ devCells) = .ok (fs.filterMap (slotOf o m), devs)
  | [], _ => by simpa using hdev
  | f :: fs, h => by
    have h1 := cell_rt o ds hds m f (h f (List.mem_cons_self ..))
    have ih := parseCells_fields o ds hds m devCells devs hdev fs (fun x hx => h x (List.mem_cons_of_mem _ hx))
    simp only [List.map_cons, List.cons_append, parseCells, h1, ih]
    cases hs : slotOf o m f with
    | none => simp [parsedOf, List.filterMap_cons, hs]
    | some sl =>
      cases sl with
      | inl g => simp [parsedOf, List.filterMap_cons, hs]
      | inr nv => obtain ⟨n, v⟩ := nv; simp [parsedOf, List.filterMap_cons, hs]

/-! ### reversal of the sub-field substitutions -/

/-- the reference field numbers of the sub-field maps of message `n` -/
def refNums (n : Nat) : List Nat :=
  match pmesg n with
  | some pm => pm.fields.flatMap fun p => p.subs.flatMap fun s => s.maps.map (·.1)
  | none => []

theorem find?_congr' {α : Type} {p q : α → Bool} : ∀ {l : List α}, (∀ x ∈ l, p x = q x) → l.find? p = l.find? q
  | [], _ => rfl
  | a :: l, h => by
    have h1 := h a (List.mem_cons_self ..)
    have ih := find?_congr' (l := l) (fun x hx => h x (List.mem_cons_of_mem _ hx))
    simp only [List.find?_cons, h1, ih]

/-- `revertSubFieldSubtitution` looks at the message read so far only through the values of the reference fields -/
theorem revert_congr (ar : Arith) (n : Nat) (fields fields' : List Field) (name : Txt) (val : List Atom)
    (h : ∀ r ∈ refNums n, fvalFirst fields r = fvalFirst fields' r) :
    revert ar n fields name val = revert ar n fields' name val := by
  unfold revert
  cases hpm : pmesg n with
  | none => rfl
  | some pm =>
    simp only
    have hc : ∀ c ∈ (pm.fields.flatMap fun p => (p.subs.filter fun s => txt s.name == name).flatMap fun s => s.maps.map fun mp => (p, mp)),
        (toInt64 (fvalFirst fields c.2.1) == some c.2.2) = (toInt64 (fvalFirst fields' c.2.1) == some c.2.2) := by
      intro c hcm
      simp only [List.mem_flatMap, List.mem_filter, List.mem_map] at hcm
      obtain ⟨p, hp, s, ⟨hs, _⟩, mp, hmp, rfl⟩ := hcm
      have hr : mp.1 ∈ refNums n := by
        unfold refNums
        rw [hpm]
        simp only [List.mem_flatMap, List.mem_map]
        exact ⟨p, hp, s, hs, mp, hmp, rfl⟩
      simp only [h _ hr]
    rw [find?_congr' hc]

/-- a field as it will be once the message is read, with the placeholder it goes through (name and value cell) if it
was written under a sub-field's name -/
abbrev Pending := Field × Option (Txt × List Atom)

def toSlot (q : Pending) : Slot :=
  match q.2 with
  | none => .inl q.1
  | some nv => .inr nv

theorem fvalFirst_cons (g : Field) (gs : List Field) (r : Nat) :
    fvalFirst (g :: gs) r = if hasNum r g then g.value else fvalFirst gs r := by
  unfold fvalFirst
  simp only [List.find?_cons]
  cases hasNum r g <;> rfl

theorem fvalFirst_append_congr (A B B' : List Field) (r : Nat) (h : fvalFirst B r = fvalFirst B' r) :
    fvalFirst (A ++ B) r = fvalFirst (A ++ B') r := by
  induction A with
  | nil => simpa using h
  | cons a A ih => simp only [List.cons_append, fvalFirst_cons, ih]

theorem map_inl_slotField (gs : List Field) : (gs.map (fun f => (Sum.inl f : Slot))).map slotField = gs := by
  induction gs with
  | nil => rfl
  | cons g gs ih => simp [slotField, ih]

/-- the values of the reference fields do not depend on which placeholders have been reverted already -/
theorem refs_agree (r : Nat) (hr : r ≠ 255) :
    ∀ ps : List Pending, (∀ q ∈ ps, q.2.isSome = true → hasNum r q.1 = false) →
      fvalFirst ((ps.map toSlot).map slotField) r = fvalFirst (ps.map (·.1)) r
  | [], _ => rfl
  | q :: ps, h => by
    have ih := refs_agree r hr ps (fun x hx => h x (List.mem_cons_of_mem _ hx))
    obtain ⟨g, pend⟩ := q
    cases pend with
    | none => simp only [List.map_cons, toSlot, slotField, fvalFirst_cons, ih]
    | some nv =>
      have h1 := h (g, some nv) (List.mem_cons_self ..) rfl
      simp only at h1
      have h2 : hasNum r placeholderField = false := by
        simp only [hasNum, placeholderField, beq_eq_false_iff_ne, ne_eq]
        exact fun h => hr h.symm
      simp only [List.map_cons, toSlot, slotField, fvalFirst_cons, ih, h1, h2, Bool.false_eq_true, ↓reduceIte]

theorem findIdx_pending (done : List Field) (nv : Txt × List Atom) (rest : List Slot) (hne : nv.1.isEmpty = false) :
    (done.map (fun f => (Sum.inl f : Slot)) ++ Sum.inr nv :: rest).findIdx? pendingSlot = some done.length := by
  induction done with
  | nil =>
    obtain ⟨n, v⟩ := nv
    simp only at hne
    simp [List.findIdx?_cons, pendingSlot, hne]
  | cons d done ih =>
    simp only [List.map_cons, List.cons_append, List.findIdx?_cons, pendingSlot, Bool.false_eq_true, ↓reduceIte, ih,
      Option.map_some, List.length_cons]

theorem getElem?_pending (done : List Field) (nv : Txt × List Atom) (rest : List Slot) :
    (done.map (fun f => (Sum.inl f : Slot)) ++ Sum.inr nv :: rest)[done.length]? = some (Sum.inr nv) := by
  induction done with
  | nil => rfl
  | cons d done ih => simpa using ih

theorem set_pending (done : List Field) (nv : Txt × List Atom) (rest : List Slot) (g : Field) :
    (done.map (fun f => (Sum.inl f : Slot)) ++ Sum.inr nv :: rest).set done.length (Sum.inl g) =
      (done ++ [g]).map (fun f => (Sum.inl f : Slot)) ++ rest := by
  induction done with
  | nil => rfl
  | cons d done ih => simp only [List.map_cons, List.cons_append, List.length_cons, List.set_cons_succ, ih]

/-- **`revertAll` over any number of placeholders**: when every placeholder, whatever has been reverted before it,
is replaced by its main field (`hrev`), the loop ends with every field in place -/
theorem revertAll_pending (ar : Arith) (n : Nat) (gs : List Field) (h255 : 255 ∉ refNums n) :
    ∀ (ps : List Pending) (done : List Field) (fuel : Nat), done ++ ps.map (·.1) = gs → ps.length ≤ fuel →
      (∀ q ∈ ps, ∀ nv, q.2 = some nv → nv.1.isEmpty = false ∧ (∀ r ∈ refNums n, hasNum r q.1 = false) ∧
        ∀ fields', (∀ r ∈ refNums n, fvalFirst fields' r = fvalFirst gs r) → revert ar n fields' nv.1 nv.2 = .ok (some q.1)) →
      revertAll ar n fuel (done.map (fun f => (Sum.inl f : Slot)) ++ ps.map toSlot) = .ok (gs.map (fun f => (Sum.inl f : Slot)))
  | [], done, fuel, hgs, _, _ => by
    simp only [List.map_nil, List.append_nil] at hgs ⊢
    rw [hgs]; exact revertAll_inl ar n gs fuel
  | q :: ps, done, fuel, hgs, hfuel, hq => by
    obtain ⟨g, pend⟩ := q
    have hps := fun x hx => hq x (List.mem_cons_of_mem _ hx)
    have hgs' : (done ++ [g]) ++ ps.map (·.1) = gs := by simpa using hgs
    cases pend with
    | none =>
      have e : done.map (fun f => (Sum.inl f : Slot)) ++ (((g, none) : Pending) :: ps).map toSlot =
          (done ++ [g]).map (fun f => (Sum.inl f : Slot)) ++ ps.map toSlot := by
        simp [toSlot]
      rw [e]
      exact revertAll_pending ar n gs h255 ps (done ++ [g]) fuel hgs' (by simp only [List.length_cons] at hfuel; omega) hps
    | some nv =>
      obtain ⟨hne, hnum, hrev⟩ := hq (g, some nv) (List.mem_cons_self ..) nv rfl
      simp only at hne hnum hrev
      cases fuel with
      | zero => simp at hfuel
      | succ fuel =>
        have e : done.map (fun f => (Sum.inl f : Slot)) ++ (((g, some nv) : Pending) :: ps).map toSlot =
            done.map (fun f => (Sum.inl f : Slot)) ++ Sum.inr nv :: ps.map toSlot := by
          simp [toSlot]
        rw [e]
        -- the values of the reference fields, as the reader sees them now
        have hag : ∀ r ∈ refNums n, fvalFirst ((done.map (fun f => (Sum.inl f : Slot)) ++ Sum.inr nv :: ps.map toSlot).map slotField) r =
            fvalFirst gs r := by
          intro r hr
          have hr255 : r ≠ 255 := fun h => h255 (h ▸ hr)
          have h1 := refs_agree r hr255 (((g, some nv) : Pending) :: ps) (by
            intro x hx hsome
            rcases List.mem_cons.mp hx with rfl | hx'
            · exact hnum r hr
            · obtain ⟨g', pend'⟩ := x
              cases pend' with
              | none => cases hsome
              | some nv' => exact (hps _ hx' nv' rfl).2.1 r hr)
          rw [← hgs, List.map_append, map_inl_slotField]
          apply fvalFirst_append_congr
          simpa [toSlot] using h1
        have hrv := hrev _ hag
        obtain ⟨name, val⟩ := nv
        simp only at hrv hne
        simp only [revertAll, findIdx_pending done (name, val) _ hne, getElem?_pending, hrv, set_pending]
        exact revertAll_pending ar n gs h255 ps (done ++ [g]) fuel hgs' (by simp only [List.length_cons] at hfuel; omega) hps

/-! ### one message within scope -/

structure MesgScope (m : Message) : Prop where
  small : m.num < 65536
  fields : ∀ f ∈ m.fields, FieldScope m f
  nodup : (m.fields.map fieldNumOf).Nodup
  exact : ∀ f ∈ m.fields, f.isExpanded = (m.fields.flatMap (targetsOf m.num)).contains (fieldNumOf f)

theorem mesgScope_of {m : Message} (h : mesgScopeB m = true) : MesgScope m := by
  simp only [mesgScopeB, Bool.and_eq_true, decide_eq_true_eq, List.all_eq_true, targetsExact, beq_iff_eq] at h
  exact ⟨h.1.1.1, fun f hf => fieldScope_of (h.1.1.2 f hf), nodupB_nodup _ h.1.2, h.2⟩

/-- the fields the reader keeps in its first pass: all of them with the verbose option, the known ones without -/
def keptB (o : Opts) (m : Message) (f : Field) : Bool := o.verbose || !isUnknownField m f

def pendOf (o : Opts) (m : Message) (f : Field) : Pending :=
  (unflag f,
    match pfield m.num (fieldNumOf f) with
    | some p =>
      (match substitute m.fields p.subs with
       | some s => some (txt s.name, fieldAtoms o (txt p.units) p.scale p.offset f.value)
       | none => none)
    | none => none)

theorem slotOf_eq (o : Opts) (m : Message) (f : Field) :
    slotOf o m f = if keptB o m f then some (toSlot (pendOf o m f)) else none := by
  unfold slotOf keptB isUnknownField pendOf toSlot
  cases hp : pfield m.num (fieldNumOf f) with
  | some p =>
    simp only [Option.isNone_some, Bool.not_false, Bool.or_true, ↓reduceIte]
    cases substitute m.fields p.subs <;> rfl
  | none =>
    simp only [Option.isNone_none, Bool.not_true, Bool.or_false]

theorem filterMap_slotOf (o : Opts) (m : Message) : ∀ fs : List Field,
    fs.filterMap (slotOf o m) = ((fs.filter (keptB o m)).map (pendOf o m)).map toSlot
  | [] => rfl
  | f :: fs => by
    rw [List.filterMap_cons, slotOf_eq, List.filter_cons]
    cases keptB o m f <;> simp [filterMap_slotOf o m fs]

theorem pendOf_fst (o : Opts) (m : Message) (fs : List Field) : (fs.map (pendOf o m)).map (·.1) = fs.map unflag := by
  simp [List.map_map, Function.comp_def, pendOf]

theorem fvalFirst_filter_unflag (k : Field → Bool) (r : Nat) : ∀ fs : List Field, (∀ f ∈ fs, f.base.isSome = true) →
    (∀ f ∈ fs, hasNum r f = true → k f = true) → fvalFirst ((fs.filter k).map unflag) r = fvalFirst fs r
  | [], _, _ => rfl
  | f :: fs, hb, hk => by
    have ih := fvalFirst_filter_unflag k r fs (fun x hx => hb x (List.mem_cons_of_mem _ hx))
      (fun x hx => hk x (List.mem_cons_of_mem _ hx))
    have hbf := hb f (List.mem_cons_self ..)
    rw [List.filter_cons, fvalFirst_cons]
    cases hh : hasNum r f
    · simp only [Bool.false_eq_true, ↓reduceIte]
      cases k f
      · simpa using ih
      · simp only [↓reduceIte, List.map_cons, fvalFirst_cons, hasNum_unflag r f hbf, hh, Bool.false_eq_true, ih]
    · have := hk f (List.mem_cons_self ..) hh
      simp only [this, ↓reduceIte, List.map_cons, fvalFirst_cons, hasNum_unflag r f hbf, hh, value_unflag]

theorem pmesg_mem {n : Nat} {pm : PMesg} (h : pmesg n = some pm) : pm ∈ profile ∧ pm.num = n := by
  unfold pmesg at h
  exact ⟨List.mem_of_find?_eq_some h, by simpa using List.find?_some h⟩

theorem pmesg_low {n : Nat} {pm : PMesg} {p : PField} (h : pmesg n = some pm) (hp : p ∈ pm.fields) : n < mfgRangeMin := by
  obtain ⟨hm, hnum⟩ := pmesg_mem h
  have ht := mfgNoFieldsOK_true
  simp only [mfgNoFieldsOK, List.all_eq_true, Bool.or_eq_true, decide_eq_true_eq, List.isEmpty_iff] at ht
  rcases ht pm hm with h1 | h1
  · omega
  · rw [h1] at hp; cases hp

/-- a reference field of a sub-field map is a known field of the message without sub-fields, and not numbered 255 -/
theorem refNums_facts {n r : Nat} (hr : r ∈ refNums n) : r ≠ 255 ∧ ∃ q, pfield n r = some q ∧ q.subs = [] := by
  unfold refNums at hr
  cases hpm : pmesg n with
  | none => rw [hpm] at hr; cases hr
  | some pm =>
    rw [hpm] at hr
    simp only [List.mem_flatMap, List.mem_map] at hr
    obtain ⟨p, hp, s, hs, mp, hmp, rfl⟩ := hr
    obtain ⟨hm, hnum⟩ := pmesg_mem hpm
    obtain ⟨h255, q, hq, hqn, hqs⟩ := (sub_refs hm hp).2 s hs mp hmp
    refine ⟨h255, q, ?_, hqs⟩
    have hlow := pmesg_low hpm hp
    have := (field_facts hm (hnum ▸ hlow) hq).2.1
    rw [hnum, hqn] at this
    exact this

theorem mapMatches_fval {fields : List Field} {mp : Nat × Int} (h : mapMatches fields mp = true) :
    toInt64 (fvalFirst fields mp.1) = some mp.2 := by
  unfold mapMatches at h
  unfold fvalFirst
  cases hf : fields.find? (hasNum mp.1) with
  | none => rw [hf] at h; cases h
  | some f => rw [hf] at h; simpa using h

/-- the value cell of a field written under a sub-field's name is ONE piece, which the main field's base type, scale,
offset and units read back as the value -/
theorem subst_atom0 (o : Opts) (hdeg : o.degrees = false) {pm : PMesg} {p : PField} (hpm : pm ∈ profile) (hlow : pm.num < mfgRangeMin)
    (hpf : p ∈ pm.fields) (v : Value) (hv : valueOK p.bt p.isBool v = true) (harr : (elemsOf v).2 = false)
    (hnorm : csvNorm v = v) :
    ∃ a, fieldAtoms o (txt p.units) p.scale p.offset v = [a] ∧
      parseAtom Arith.so a p.bt p.isBool p.scale p.offset (txt p.units) = .ok v := by
  obtain ⟨_, _, _, _, h5, hfl⟩ := field_facts hpm hlow hpf
  have he := elemsOf_scalar harr
  have hsc : scalarOK p.bt p.isBool v = true := by
    unfold valueOK at hv
    rw [he] at hv
    simpa using hv
  have hn : csvNormS v = v := by
    unfold csvNorm at hnorm
    rw [harr] at hnorm
    simpa using hnorm
  by_cases hraw : o.raw = true ∨ isScaledField p.scale p.offset = false
  · have hw : fieldAtoms o (txt p.units) p.scale p.offset v = cellPieces (formatAtoms v) := by
      simp only [fieldAtoms, hdeg, Bool.false_and, Bool.false_eq_true, ↓reduceIte]
      rcases hraw with hr | hs
      · simp [hr]
      · simp [hs]
    obtain ⟨a, _, h2⟩ := scalar_pieces hsc
    have h3 := scalar_rt Arith.so p.bt p.isBool p.scale p.offset (txt p.units) v hsc h5 hfl
    rw [h2, parse_single, hn] at h3
    exact ⟨a, by rw [hw, h2], h3⟩
  · have hraw' : o.raw = false := by
      cases h : o.raw
      · rfl
      · exact absurd (Or.inl h) hraw
    have hscl : isScaledField p.scale p.offset = true := by
      cases h : isScaledField p.scale p.offset
      · exact absurd (Or.inr h) hraw
      · rfl
    obtain ⟨hb, hbts⟩ := scaled_types hpm hpf hscl
    rw [hb] at hsc
    have hint := int32Scalar_of_scalarOK hbts hsc
    obtain ⟨⟨ty, pat⟩, hi⟩ := Option.isSome_iff_exists.mp hint
    have hss : scalarsOf v = some [v] := by
      cases v <;> simp [int32Scalar] at hi <;> rfl
    have hpair : (p.scale, p.offset) ∈ Fit.C12.profilePairs := by
      have h := scaledPairsOK_true
      simp only [scaledPairsOK, List.all_eq_true, Bool.or_eq_true, Bool.not_eq_true', List.contains_iff_mem] at h
      rcases h pm hpm p hpf with h | h
      · rw [hscl] at h; cases h
      · exact h
    have har := arith_so_profile p.bt v hsc ty pat hi (p.scale, p.offset) hpair
    have hdg : (txt p.units == degreesTxt && p.bt == btSint32) = false := by
      cases hc : (txt p.units == degreesTxt && p.bt == btSint32)
      · rfl
      · simp only [Bool.and_eq_true, beq_iff_eq] at hc; exact absurd hc h5
    refine ⟨.scaled v p.scale p.offset, ?_, ?_⟩
    · simp [fieldAtoms, hdeg, hraw', hscl, hss, cellPieces]
    · simp only at har
      simp only [parseAtom, hdg, Bool.false_eq_true, ↓reduceIte, hb, beq_self_eq_true, Bool.and_self, har, int32Bts_ne_string hbts]

/-- … with or without the degrees option: a field with sub-fields is not in semicircles -/
theorem subst_atom (o : Opts) {pm : PMesg} {p : PField} (hpm : pm ∈ profile) (hlow : pm.num < mfgRangeMin)
    (hpf : p ∈ pm.fields) (hsubs : p.subs ≠ []) (v : Value) (hv : valueOK p.bt p.isBool v = true) (harr : (elemsOf v).2 = false)
    (hnorm : csvNorm v = v) :
    ∃ a, fieldAtoms o (txt p.units) p.scale p.offset v = [a] ∧
      parseAtom Arith.so a p.bt p.isBool p.scale p.offset (txt p.units) = .ok v := by
  have hu : txt p.units ≠ semicirclesTxt := fun h => hsubs (semi_facts hpm hpf h).2.2.2.1
  rw [fieldAtoms_noDeg o _ _ _ _ hu]
  exact subst_atom0 (noDeg o) rfl hpm hlow hpf v hv harr hnorm

end Fit.Csv
