import FitProps.CsvScopeLemmas
/-! The reader's `createMesg` on the cells of ONE message within scope: first pass (fields, placeholders, developer
fields), the reversal of every sub-field substitution (`revertAll` over any number of placeholders), the removal of the
component targets. -/
set_option linter.unusedSimpArgs false
set_option linter.unusedVariables false
namespace Fit.Csv
open Fit.Value Fit.Msg Fit.Gen Fit.Gen.Csv

/-! ### first pass -/

theorem parseCells_devs (ar : Arith) (o : Opts) (ds W : List Desc) (n : Nat) :
    ∀ dvs : List DevField, (∀ dv ∈ dvs, readCell ar ds n (writeDev o W dv) = .ok (.dev dv)) →
      parseCells ar ds n (dvs.map (writeDev o W)) = .ok ([], dvs)
  | [], _ => rfl
  | dv :: dvs, h => by
    have h1 := h dv (List.mem_cons_self ..)
    have ih := parseCells_devs ar o ds W n dvs (fun x hx => h x (List.mem_cons_of_mem _ hx))
    simp only [List.map_cons, parseCells, h1, ih]

theorem parseCells_fields (o : Opts) (hdeg : o.degrees = false) (ds : List Desc) (hds : NoSubNames ds) (m : Message)
    (devCells : List Cell) (devs : List DevField) (hdev : parseCells Arith.so ds m.num devCells = .ok ([], devs)) :
    ∀ fs : List Field, (∀ f ∈ fs, FieldScope m f) →
      parseCells Arith.so ds m.num (fs.map (writeField o m) ++ devCells) = .ok (fs.filterMap (slotOf o m), devs)
  | [], _ => by simpa using hdev
  | f :: fs, h => by
    have h1 := cell_rt o hdeg ds hds m f (h f (List.mem_cons_self ..))
    have ih := parseCells_fields o hdeg ds hds m devCells devs hdev fs (fun x hx => h x (List.mem_cons_of_mem _ hx))
    simp only [List.map_cons, List.cons_append, parseCells, h1, ih]
    cases hs : slotOf o m f with
    | none => simp [parsedOf, List.filterMap_cons, hs]
    | some sl =>
      cases sl with
      | inl g => simp [parsedOf, List.filterMap_cons, hs]
      | inr nv => obtain ⟨n, v⟩ := nv; simp [parsedOf, List.filterMap_cons, hs]

/-! ### reversal of the sub-field substitutions -/

/-- the reference field numbers of the sub-field maps of message `n` -/
def refNums (n : Nat) : List Nat :=
  match pmesg n with
  | some pm => pm.fields.flatMap fun p => p.subs.flatMap fun s => s.maps.map (·.1)
  | none => []

theorem find?_congr' {α : Type} {p q : α → Bool} : ∀ {l : List α}, (∀ x ∈ l, p x = q x) → l.find? p = l.find? q
  | [], _ => rfl
  | a :: l, h => by
    have h1 := h a (List.mem_cons_self ..)
    have ih := find?_congr' (l := l) (fun x hx => h x (List.mem_cons_of_mem _ hx))
    simp only [List.find?_cons, h1, ih]

/-- `revertSubFieldSubtitution` looks at the message read so far only through the values of the reference fields -/
theorem revert_congr (ar : Arith) (n : Nat) (fields fields' : List Field) (name : Txt) (val : List Atom)
    (h : ∀ r ∈ refNums n, fvalFirst fields r = fvalFirst fields' r) :
    revert ar n fields name val = revert ar n fields' name val := by
  unfold revert
  cases hpm : pmesg n with
  | none => rfl
  | some pm =>
    simp only
    have hc : ∀ c ∈ (pm.fields.flatMap fun p => (p.subs.filter fun s => txt s.name == name).flatMap fun s => s.maps.map fun mp => (p, mp)),
        (toInt64 (fvalFirst fields c.2.1) == some c.2.2) = (toInt64 (fvalFirst fields' c.2.1) == some c.2.2) := by
      intro c hcm
      simp only [List.mem_flatMap, List.mem_filter, List.mem_map] at hcm
      obtain ⟨p, hp, s, ⟨hs, _⟩, mp, hmp, rfl⟩ := hcm
      have hr : mp.1 ∈ refNums n := by
        unfold refNums
        rw [hpm]
        simp only [List.mem_flatMap, List.mem_map]
        exact ⟨p, hp, s, hs, mp, hmp, rfl⟩
      simp only [h _ hr]
    rw [find?_congr' hc]

/-- a field as it will be once the message is read, with the placeholder it goes through (name and value cell) if it
was written under a sub-field's name -/
abbrev Pending := Field × Option (Txt × List Atom)

def toSlot (q : Pending) : Slot :=
  match q.2 with
  | none => .inl q.1
  | some nv => .inr nv

theorem fvalFirst_cons (g : Field) (gs : List Field) (r : Nat) :
    fvalFirst (g :: gs) r = if hasNum r g then g.value else fvalFirst gs r := by
  unfold fvalFirst
  simp only [List.find?_cons]
  cases hasNum r g <;> rfl

theorem fvalFirst_append_congr (A B B' : List Field) (r : Nat) (h : fvalFirst B r = fvalFirst B' r) :
    fvalFirst (A ++ B) r = fvalFirst (A ++ B') r := by
  induction A with
  | nil => simpa using h
  | cons a A ih => simp only [List.cons_append, fvalFirst_cons, ih]

theorem map_inl_slotField (gs : List Field) : (gs.map (fun f => (Sum.inl f : Slot))).map slotField = gs := by
  induction gs with
  | nil => rfl
  | cons g gs ih => simp [slotField, ih]

/-- the values of the reference fields do not depend on which placeholders have been reverted already -/
theorem refs_agree (r : Nat) (hr : r ≠ 255) :
    ∀ ps : List Pending, (∀ q ∈ ps, q.2.isSome = true → hasNum r q.1 = false) →
      fvalFirst ((ps.map toSlot).map slotField) r = fvalFirst (ps.map (·.1)) r
  | [], _ => rfl
  | q :: ps, h => by
    have ih := refs_agree r hr ps (fun x hx => h x (List.mem_cons_of_mem _ hx))
    obtain ⟨g, pend⟩ := q
    cases pend with
    | none => simp only [List.map_cons, toSlot, slotField, fvalFirst_cons, ih]
    | some nv =>
      have h1 := h (g, some nv) (List.mem_cons_self ..) rfl
      simp only at h1
      have h2 : hasNum r placeholderField = false := by
        simp only [hasNum, placeholderField, beq_eq_false_iff_ne, ne_eq]
        exact fun h => hr h.symm
      simp only [List.map_cons, toSlot, slotField, fvalFirst_cons, ih, h1, h2, Bool.false_eq_true, ↓reduceIte]

theorem findIdx_pending (done : List Field) (nv : Txt × List Atom) (rest : List Slot) (hne : nv.1.isEmpty = false) :
    (done.map (fun f => (Sum.inl f : Slot)) ++ Sum.inr nv :: rest).findIdx? pendingSlot = some done.length := by
  induction done with
  | nil =>
    obtain ⟨n, v⟩ := nv
    simp only at hne
    simp [List.findIdx?_cons, pendingSlot, hne]
  | cons d done ih =>
    simp only [List.map_cons, List.cons_append, List.findIdx?_cons, pendingSlot, Bool.false_eq_true, ↓reduceIte, ih,
      Option.map_some, List.length_cons]

theorem getElem?_pending (done : List Field) (nv : Txt × List Atom) (rest : List Slot) :
    (done.map (fun f => (Sum.inl f : Slot)) ++ Sum.inr nv :: rest)[done.length]? = some (Sum.inr nv) := by
  induction done with
  | nil => rfl
  | cons d done ih => simpa using ih

theorem set_pending (done : List Field) (nv : Txt × List Atom) (rest : List Slot) (g : Field) :
    (done.map (fun f => (Sum.inl f : Slot)) ++ Sum.inr nv :: rest).set done.length (Sum.inl g) =
      (done ++ [g]).map (fun f => (Sum.inl f : Slot)) ++ rest := by
  induction done with
  | nil => rfl
  | cons d done ih => simp only [List.map_cons, List.cons_append, List.length_cons, List.set_cons_succ, ih]

/-- **`revertAll` over any number of placeholders**: when every placeholder, whatever has been reverted before it,
is replaced by its main field (`hrev`), the loop ends with every field in place -/
theorem revertAll_pending (ar : Arith) (n : Nat) (gs : List Field) (h255 : 255 ∉ refNums n) :
    ∀ (ps : List Pending) (done : List Field) (fuel : Nat), done ++ ps.map (·.1) = gs → ps.length ≤ fuel →
      (∀ q ∈ ps, ∀ nv, q.2 = some nv → nv.1.isEmpty = false ∧ (∀ r ∈ refNums n, hasNum r q.1 = false) ∧
        ∀ fields', (∀ r ∈ refNums n, fvalFirst fields' r = fvalFirst gs r) → revert ar n fields' nv.1 nv.2 = .ok (some q.1)) →
      revertAll ar n fuel (done.map (fun f => (Sum.inl f : Slot)) ++ ps.map toSlot) = .ok (gs.map (fun f => (Sum.inl f : Slot)))
  | [], done, fuel, hgs, _, _ => by
    simp only [List.map_nil, List.append_nil] at hgs ⊢
    rw [hgs]; exact revertAll_inl ar n gs fuel
  | q :: ps, done, fuel, hgs, hfuel, hq => by
    obtain ⟨g, pend⟩ := q
    have hps := fun x hx => hq x (List.mem_cons_of_mem _ hx)
    have hgs' : (done ++ [g]) ++ ps.map (·.1) = gs := by simpa using hgs
    cases pend with
    | none =>
      have e : done.map (fun f => (Sum.inl f : Slot)) ++ (((g, none) : Pending) :: ps).map toSlot =
          (done ++ [g]).map (fun f => (Sum.inl f : Slot)) ++ ps.map toSlot := by
        simp [toSlot]
      rw [e]
      exact revertAll_pending ar n gs h255 ps (done ++ [g]) fuel hgs' (by simp only [List.length_cons] at hfuel; omega) hps
    | some nv =>
      obtain ⟨hne, hnum, hrev⟩ := hq (g, some nv) (List.mem_cons_self ..) nv rfl
      simp only at hne hnum hrev
      cases fuel with
      | zero => simp at hfuel
      | succ fuel =>
        have e : done.map (fun f => (Sum.inl f : Slot)) ++ (((g, some nv) : Pending) :: ps).map toSlot =
            done.map (fun f => (Sum.inl f : Slot)) ++ Sum.inr nv :: ps.map toSlot := by
          simp [toSlot]
        rw [e]
        -- the values of the reference fields, as the reader sees them now
        have hag : ∀ r ∈ refNums n, fvalFirst ((done.map (fun f => (Sum.inl f : Slot)) ++ Sum.inr nv :: ps.map toSlot).map slotField) r =
            fvalFirst gs r := by
          intro r hr
          have hr255 : r ≠ 255 := fun h => h255 (h ▸ hr)
          have h1 := refs_agree r hr255 (((g, some nv) : Pending) :: ps) (by
            intro x hx hsome
            rcases List.mem_cons.mp hx with rfl | hx'
            · exact hnum r hr
            · obtain ⟨g', pend'⟩ := x
              cases pend' with
              | none => cases hsome
              | some nv' => exact (hps _ hx' nv' rfl).2.1 r hr)
          rw [← hgs, List.map_append, map_inl_slotField]
          apply fvalFirst_append_congr
          simpa [toSlot] using h1
        have hrv := hrev _ hag
        obtain ⟨name, val⟩ := nv
        simp only at hrv hne
        simp only [revertAll, findIdx_pending done (name, val) _ hne, getElem?_pending, hrv, set_pending]
        exact revertAll_pending ar n gs h255 ps (done ++ [g]) fuel hgs' (by simp only [List.length_cons] at hfuel; omega) hps

end Fit.Csv
