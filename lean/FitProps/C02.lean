import FitProps.WireLemmas
import FitProps.BridgeLemmas
import FitProps.CrcAlgebra
import FitProps.C18
import FitModel.FitFormat
import FitProps.C02ChainLemmas
import FitProps.C02IntegrityLemmas
import FitProps.C02ReferenceLemmas
/-!
# C02 — Successful encodes are well-formed, self-consistent FIT streams

Specification: `FitModel/FitFormat.lean` (independent reading of the protocol framing).
PROPERTY THEOREMS: C02_parses, C02_datasize, C02_header_crc, C02_crc_whole_sequence_partial, C02_legacy_crc_witness,
C02_decodes (the SDK's own decoder accepts every successful encode, with checksums on), and — at the end of the file —
C02_wellformed_mixed, C02_wellformed (the whole-stream statement).
The structural half of `WellFormed` is `C02_parses` (via the refinement "the decoder's framing refines the
spec's framing", FitProps/BridgeLemmas.lean: records_spec); the CRC half is `C02_header_crc` and
`C02_crc_whole_sequence_partial` at the byte level. `C02_wellformed` / `C02_wellformed_mixed` restate both through the
`SeqView.start` / `slice` offsets of a chain of any length (bookkeeping: FitProps/C02ChainLemmas.lean): for 14-byte
headers `FitFormat.WellFormed (encodeChain o fits)` with one sequence per FIT value; for mixed chains headerCrcOk /
fileCrcOk exactly for the sequences whose header has 14 bytes and, for the 12-byte ones, file CRC = CRC of the records
only (the code's behaviour, finding KF-C02-legacy-crc). `C02_wellformed_full` — no restriction on the header size — stays a
`def`: `C02_legacy_crc_witness` refutes it for a 12-byte header. The theorems take the hypothesis that the output is a
byte stream (`C02_ByteOK`: true by type in the code, a fact about `Nat`s in the model).
`WellFormed` as a whole is also evaluated on the implementation's bytes by the driver (`--prop` of family encw).
The clause "the library's own integrity check accepts the stream and counts the same number of sequences":
`C02_integrity_accepts` (model of `CheckIntegrity`, mixed header sizes, no byte hypothesis), `C02_integrity_accepts_as_built`,
`C02_reference_accepts` (14-byte headers: the declarative integrity rules themselves), at the end of this file. The clause
"header and CRC values written back equal the bytes on the wire": `C02_writeback_steps`, `C02_writeback`
(FitProps/C02Writeback.lean). The byte hypothesis discharged: `C02_byteok_of_typed` (FitProps/C02Bytes.lean).
-/
namespace Fit.C02
open Fit.Wire
open Fit.Crc (write crcSpec crc_append_self crcSpec_append)

/-- the full statement: every successful encode is a well-formed stream with one sequence per FIT value — whatever the
header size. Proved for 14-byte headers (`C02_wellformed`, at the end of this file, for byte streams); false for 12-byte
headers (`C02_legacy_crc_witness`, KF-C02-legacy-crc; what holds instead: `C02_wellformed_mixed`). -/
def C02_wellformed_full : Prop :=
  ∀ (o : Opts), OptsOK o → ∀ fits : List (Hdr × List WMsg), (∀ f ∈ fits, FitOK o f.1 f.2) →
    ∃ seqs, FitFormat.parseStream (encodeChain o fits) = some seqs ∧ seqs.length = fits.length ∧
      ∀ s ∈ seqs, FitFormat.headerCrcOk (encodeChain o fits) s = true ∧ FitFormat.fileCrcOk (encodeChain o fits) s = true

/-- THE STREAM PARSES under the independent framing spec: every successful encode of a chain is exactly one
sequence view per FIT value — header, records that fill the declared data size exactly (every data record
has a live definition of its local number), two CRC bytes — with nothing between or after the sequences. -/
theorem C02_parses (o : Opts) (ho : OptsOK o) (fits : List (Hdr × List WMsg)) (hall : ∀ f ∈ fits, FitOK o f.1 f.2) :
    ∃ seqs, FitFormat.parseStream (encodeChain o fits) = some seqs ∧ seqs.length = fits.length := by
  have hlen : fits.length ≤ (encodeChain o fits).length := by
    clear hall
    induction fits with
    | nil => simp
    | cons f fs ih =>
      have := Bridge.encodeFit_length_pos o f.1 f.2
      simp [encodeChain, List.length_append] at ih ⊢; omega
  exact Bridge.parseSeqs_encodeChain o ho fits hall 0 _ hlen

/-- DATA SIZE: the four data-size bytes of the header the encoder leaves on the wire are the little-endian
exact number of record bytes that follow (before the two CRC bytes) — for every message list and option
combination, whatever strategy produced it (C09: all strategies give these bytes). -/
theorem C02_datasize (o : Opts) (h : Hdr) (ms : List WMsg) (hsmall : (encodeMsgs o (freshEnc o) ms).length < 4294967296) :
    ((encodeFit o h ms).drop 4).take 4 = le32 (encodeMsgs o (freshEnc o) ms).length ∧
    (encodeFit o h ms).length = (if h.size = 14 then 14 else 12) + (encodeMsgs o (freshEnc o) ms).length + 2 := by
  simp only [encodeFit, hdrBytes, Nat.mod_eq_of_lt hsmall, Wire.le16, le32]
  constructor
  · split <;> simp
  · split <;> simp [List.length_append] <;> omega

/-- HEADER CRC: a 14-byte header carries the CRC-16 of its first twelve bytes, little-endian. -/
theorem C02_header_crc (h : Hdr) (hs : h.size = 14) (ds : Nat) :
    (hdrBytes h ds).drop 12 = Wire.le16 (write 0 ((hdrBytes h ds).take 12)) ∧ (hdrBytes h ds).length = 14 := by
  simp [hdrBytes, hs, Wire.le16, le32]

theorem b12_bytes (h : Hdr) (ds : Nat) (hs : h.size < 256) (hp : h.protoVer < 256) : Fit.C18.Bytes (b12 h ds) := by
  intro b hb
  simp only [b12, Wire.le16, le32, List.cons_append, List.nil_append, List.mem_cons, List.not_mem_nil, or_false] at hb
  rcases hb with rfl | rfl | rfl | rfl | rfl | rfl | rfl | rfl | rfl | rfl | rfl | rfl <;> omega

/-- FILE CRC COVERS THE WHOLE SEQUENCE (14-byte headers): the stored file CRC — computed by the encoder
over the records only, after resetting the hash — equals the CRC-16 of every preceding byte of the
sequence, header included, because a header followed by its own CRC leaves the CRC state at zero. -/
theorem C02_crc_whole_sequence_partial (o : Opts) (h : Hdr) (ms : List WMsg) (hs : h.size = 14) (hp : h.protoVer < 256)
    (hb : Fit.C18.Bytes (encodeMsgs o (freshEnc o) ms)) :
    let recs := encodeMsgs o (freshEnc o) ms
    let ds := recs.length % 4294967296
    (encodeFit o h ms) = (hdrBytes h ds ++ recs) ++ Wire.le16 (crcSpec 0 (hdrBytes h ds ++ recs)) := by
  intro recs ds
  have hbb : Fit.C18.Bytes (b12 h ds) := b12_bytes h ds (by omega) hp
  have hw : write 0 (b12 h ds) = crcSpec 0 (b12 h ds) := Fit.C18.C18_write_eq_spec _ hbb 0 (by decide)
  have hhdr : hdrBytes h ds = b12 h ds ++ Wire.le16 (crcSpec 0 (b12 h ds)) := by
    have hw' := hw
    simp only [b12, hs] at hw'
    simp only [hdrBytes, hs, if_true, b12, hw']
  have hzero : crcSpec 0 (hdrBytes h ds) = 0 := by
    rw [hhdr]
    have := crc_append_self (b12 h ds) hbb
    simpa [Fit.Crc.le16, Wire.le16] using this
  have hcat : crcSpec 0 (hdrBytes h ds ++ recs) = crcSpec 0 recs := by
    rw [crcSpec_append, hzero]
  rw [hcat, ← Fit.C18.C18_write_eq_spec recs hb 0 (by decide)]
  simp [encodeFit, recs, ds, List.append_assoc]

/-- LEGACY 12-BYTE HEADER (finding KF-C02-legacy-crc): the stored file CRC is the CRC of the records only;
the protocol's CRC of every preceding byte is a different number. -/
theorem C02_legacy_crc_witness :
    let bs := encodeFit ⟨0, false, 1⟩ ⟨12, 32, 2158⟩ [⟨0, [⟨0, 0, 3, [4]⟩], []⟩]
    FitFormat.wellFormed bs = false ∧
    (FitFormat.parseStream bs).isSome = true ∧
    FitFormat.wellFormed (encodeFit ⟨0, false, 1⟩ ⟨14, 32, 2158⟩ [⟨0, [⟨0, 0, 3, [4]⟩], []⟩]) = true := by
  decide +kernel

/-- THE SDK READS WHAT IT WROTE: with checksum verification on, `Decode` accepts every successful encode of
a chain and returns one sequence per FIT value whose header data size is the exact record byte count. -/
theorem C02_decodes (tsKnown : Nat → Bool) (o : Opts) (ho : OptsOK o)
    (fits : List (Hdr × List WMsg)) (hne : fits ≠ []) (hall : ∀ f ∈ fits, FitOK o f.1 f.2)
    (hdesc : ∀ f ∈ fits, msgsDescOK [] f.2 = true) :
    ∃ evs, decodeStream tsKnown true (fits.length + 1) true (encodeChain o fits) = (evs, none) ∧
      (seqsOf evs).length = fits.length ∧ AllMatch (FitMatches o) fits (seqsOf evs) := by
  obtain ⟨evs, h1, h2⟩ := decodeStream_encodeChain tsKnown true o ho fits hall hdesc true (fun _ => hne) _ (Nat.lt_succ_self _)
  exact ⟨evs, h1, h2.length_eq.symm, h2⟩

/-! ### the whole-stream statement (offset bookkeeping: FitProps/C02ChainLemmas.lean) -/

/-- the encoder's output for `f` is a BYTE stream. In the code this holds by type (`[]byte`; `ProtocolVersion` is a
`byte`); the model's bytes are `Nat`, so it is a hypothesis here (`E2E.encodeMsgs_bytes`, FitProps/EndToEndLemmas.lean,
derives the second field from the typing of validated messages). -/
structure C02_ByteOK (o : Opts) (f : Hdr × List WMsg) : Prop where
  protoVer : f.1.protoVer < 256
  recs : Fit.C18.Bytes (encodeMsgs o (freshEnc o) f.2)

/-- WELL-FORMED STREAMS, every chain, 14- and 12-byte headers mixed: a successful encode of `fits` parses under the
independent framing spec into exactly one sequence view per FIT value, in order, and against the bytes of the WHOLE
stream (through the views' own `start` offsets): each view has the header size the caller chose and the exact record
byte count as data size; a 14-byte header carries the CRC-16 of the sequence's first twelve bytes (`headerCrcStrict`,
hence `headerCrcOk`), and its sequence's stored file CRC is the CRC-16 of EVERY preceding byte of the sequence, header
included (`fileCrcOk`); for a 12-byte (legacy) header — no header CRC — the stored file CRC is the CRC-16 of the
records only, the code's behaviour (open finding KF-C02-legacy-crc: the protocol wants the header included,
`C02_legacy_crc_witness`). -/
theorem C02_wellformed_mixed (o : Opts) (ho : OptsOK o) (fits : List (Hdr × List WMsg))
    (hall : ∀ f ∈ fits, FitOK o f.1 f.2) (hbytes : ∀ f ∈ fits, C02_ByteOK o f) :
    ∃ seqs, FitFormat.parseStream (encodeChain o fits) = some seqs ∧ seqs.length = fits.length ∧
      ∀ p ∈ fits.zip seqs,
        p.2.header.size = p.1.1.size ∧
        p.2.header.dataSize = (encodeMsgs o (freshEnc o) p.1.2).length ∧
        FitFormat.headerCrcStrict (encodeChain o fits) p.2 = true ∧
        FitFormat.headerCrcOk (encodeChain o fits) p.2 = true ∧
        (p.1.1.size = 14 → FitFormat.fileCrcOk (encodeChain o fits) p.2 = true) ∧
        (p.1.1.size = 12 → p.2.header.crc = none ∧
          p.2.crc = crcSpec 0 (FitFormat.slice (encodeChain o fits) (p.2.start + 12) p.2.header.dataSize)) := by
  have hlen : fits.length ≤ (encodeChain o fits).length := by
    clear hall hbytes
    induction fits with
    | nil => simp
    | cons f fs ih =>
      have := Bridge.encodeFit_length_pos o f.1 f.2
      simp [encodeChain, List.length_append] at ih ⊢; omega
  obtain ⟨seqs, hs, hl, hfacts⟩ := parseSeqs_facts o ho fits hall [] _ hlen
  refine ⟨seqs, hs, hl, ?_⟩
  intro p hp
  have hpf : p.1 ∈ fits := (List.of_mem_zip hp).1
  have F := hfacts p hp
  rw [List.nil_append] at F
  have hok := hall p.1 hpf
  have hby := hbytes p.1 hpf
  have hsz : p.1.1.size < 256 := by rcases hok.size with h | h <;> omega
  have hb12 : Fit.C18.Bytes (b12 p.1.1 (encodeMsgs o (freshEnc o) p.1.2).length) := b12_bytes _ _ hsz hby.protoVer
  have hw12 := Fit.C18.C18_write_eq_spec _ hb12 0 (by decide)
  have hwR := Fit.C18.C18_write_eq_spec _ hby.recs 0 (by decide)
  have hstrict : FitFormat.headerCrcStrict (encodeChain o fits) p.2 = true := by
    unfold FitFormat.headerCrcStrict
    by_cases h14 : p.1.1.size = 14
    · have hc := F.hcrc
      rw [if_pos h14] at hc
      rw [hc]
      simp only [decide_eq_true_eq]
      rw [F.hdr12, hw12]
    · have hc := F.hcrc
      rw [if_neg h14] at hc
      rw [hc]
  refine ⟨F.size, F.dataSize, hstrict, ?_, ?_, ?_⟩
  · unfold FitFormat.headerCrcOk
    unfold FitFormat.headerCrcStrict at hstrict
    cases hc : p.2.header.crc with
    | none => rfl
    | some c =>
      rw [hc] at hstrict
      simp only [decide_eq_true_eq] at hstrict
      simp [hstrict]
  · intro h14
    unfold FitFormat.fileCrcOk
    rw [F.whole, F.crc, hwR]
    have hhdr : hdrBytes p.1.1 (encodeMsgs o (freshEnc o) p.1.2).length =
        b12 p.1.1 (encodeMsgs o (freshEnc o) p.1.2).length ++
          Wire.le16 (crcSpec 0 (b12 p.1.1 (encodeMsgs o (freshEnc o) p.1.2).length)) := by
      have hw' := hw12
      simp only [b12, h14] at hw'
      simp only [hdrBytes, h14, if_true, b12, hw']
    have hzero : crcSpec 0 (hdrBytes p.1.1 (encodeMsgs o (freshEnc o) p.1.2).length) = 0 := by
      rw [hhdr]
      have := crc_append_self _ hb12
      simpa [Fit.Crc.le16, Wire.le16] using this
    rw [crcSpec_append, hzero]; simp
  · intro h12
    have hne : ¬ p.1.1.size = 14 := by omega
    refine ⟨by rw [F.hcrc, if_neg hne], ?_⟩
    have := F.recs
    rw [F.size, h12] at this
    rw [this, F.crc, hwR]

/-- WELL-FORMED STREAMS (the statement of DESIGN §3 C02, for 14-byte headers — the default; with a 12-byte header the
file-CRC clause is the open finding KF-C02-legacy-crc, see `C02_wellformed_mixed` for what holds then): every
successful encode of a chain of ANY length is a well-formed stream under the independent framing spec — it parses into
sequences with nothing between or after them, every header CRC and every file CRC (over all preceding bytes of its
sequence) is correct — with exactly one sequence per FIT value. -/
theorem C02_wellformed (o : Opts) (ho : OptsOK o) (fits : List (Hdr × List WMsg))
    (hall : ∀ f ∈ fits, FitOK o f.1 f.2) (hbytes : ∀ f ∈ fits, C02_ByteOK o f) (h14 : ∀ f ∈ fits, f.1.size = 14) :
    FitFormat.WellFormed (encodeChain o fits) ∧
    ∃ seqs, FitFormat.parseStream (encodeChain o fits) = some seqs ∧ seqs.length = fits.length := by
  obtain ⟨seqs, hs, hl, hp⟩ := C02_wellformed_mixed o ho fits hall hbytes
  refine ⟨⟨seqs, hs, ?_⟩, seqs, hs, hl⟩
  intro s hsm
  obtain ⟨i, hi, rfl⟩ := List.getElem_of_mem hsm
  have hif : i < fits.length := by omega
  have hmem : (fits[i], seqs[i]) ∈ fits.zip seqs := by
    have : (fits.zip seqs)[i]'(by simp [List.length_zip]; omega) = (fits[i], seqs[i]) := by simp
    rw [← this]; exact List.getElem_mem _
  obtain ⟨_, _, _, h4, h5, _⟩ := hp _ hmem
  exact ⟨h4, h5 (h14 _ (List.getElem_mem hif))⟩

/-- the hypotheses are met by an ordinary two-sequence chain (non-vacuity), and the conclusion is what the executable
spec says of its bytes -/
example :
    let o : Opts := ⟨0, false, 1⟩
    let fits : List (Hdr × List WMsg) := [(⟨14, 32, 2158⟩, [⟨0, [⟨0, 0, 3, [4]⟩], []⟩]), (⟨14, 16, 2158⟩, [⟨20, [⟨253, 4, 0x86, [1, 2, 3, 4]⟩], []⟩])]
    (∀ f ∈ fits, f.1.size = 14 ∧ f.1.protoVer < 256 ∧ (∀ b ∈ encodeMsgs o (freshEnc o) f.2, b < 256)) ∧
    FitFormat.wellFormed (encodeChain o fits) = true ∧ ((FitFormat.parseStream (encodeChain o fits)).map List.length) = some 2 := by
  decide +kernel

/-! ### the library's own integrity check (model of `Decoder.CheckIntegrity`: FitModel/Integrity.lean, property C04) -/

/-- THE LIBRARY'S OWN INTEGRITY CHECK ACCEPTS THE STREAM AND COUNTS THE SAME NUMBER OF SEQUENCES: for every successful
encode of a non-empty chain — 14- and 12-byte headers mixed, every option combination — the model of
`decoder.New(r).CheckIntegrity()` returns no error and exactly one sequence per FIT value. (For a 12-byte header this is
the code's check agreeing with the code's encoder: both leave the header out of the file CRC, finding KF-C02-legacy-crc /
KF-C04-1; what the integrity RULES say is `C02_integrity_accepts_as_built`.) No byte hypothesis: the check compares the
table-form CRC-16 with the table-form CRC-16 the encoder stored. -/
theorem C02_integrity_accepts (o : Opts) (fits : List (Hdr × List WMsg)) (hne : fits ≠ [])
    (hall : ∀ f ∈ fits, FitOK o f.1 f.2) :
    Integrity.checkIntegrity (encodeChain o fits) = .ok fits.length :=
  checkIntegrity_encodeChain o fits hne hall

theorem hdrBytes_bytes (h : Hdr) (ds : Nat) (hs : h.size = 12 ∨ h.size = 14) (hp : h.protoVer < 256) :
    Fit.Crc.Bytes (hdrBytes h ds) := by
  intro b hb
  simp only [hdrBytes] at hb
  split at hb
  · simp only [Wire.le16, Wire.le32, List.mem_append, List.mem_cons, List.not_mem_nil, or_false] at hb
    rcases hs with h1 | h1 <;> omega
  · simp only [Wire.le16, Wire.le32, List.mem_append, List.mem_cons, List.not_mem_nil, or_false] at hb
    rcases hs with h1 | h1 <;> omega

/-- a successful encode of a chain is a byte stream when each sequence is (`C02_ByteOK`) -/
theorem encodeChain_bytes (o : Opts) (fits : List (Hdr × List WMsg)) (hall : ∀ f ∈ fits, FitOK o f.1 f.2)
    (hbytes : ∀ f ∈ fits, C02_ByteOK o f) : Fit.Crc.Bytes (encodeChain o fits) := by
  intro b hb
  obtain ⟨f, hf, hbf⟩ := List.mem_flatMap.mp hb
  have hB : Fit.Crc.Bytes (encodeFit o f.1 f.2) := by
    unfold encodeFit
    refine ((hdrBytes_bytes f.1 _ (hall f hf).size (hbytes f hf).protoVer).append (hbytes f hf).recs).append ?_
    intro x hx; simp [Wire.le16] at hx; omega
  exact hB b hbf

/-- … in terms of the integrity RULES: the declarative reference with the code's checksum rule
(`IntegritySpec.referenceAsBuilt`: file CRC over the records only) judges every successful encode of a non-empty chain,
12- and 14-byte headers mixed, VALID with one sequence per FIT value. -/
theorem C02_integrity_accepts_as_built (o : Opts) (fits : List (Hdr × List WMsg)) (hne : fits ≠ [])
    (hall : ∀ f ∈ fits, FitOK o f.1 f.2) (hbytes : ∀ f ∈ fits, C02_ByteOK o f) :
    IntegritySpec.referenceAsBuilt (encodeChain o fits) = .ok fits.length := by
  rw [← Fit.C04.C04_check_eq_reference_as_built _ (encodeChain_bytes o fits hall hbytes),
    C02_integrity_accepts o fits hne hall]
  rfl

/-- … and for 14-byte headers (the default) in terms of the integrity RULES THEMSELVES: the declarative reference of
property C04 (`IntegritySpec.reference`: header size and tag, non-zero data size, header CRC, file CRC over the WHOLE
sequence from its first byte, nothing but valid sequences to the end) judges every successful encode of a non-empty
chain VALID with one sequence per FIT value. (With a 12-byte header it does not — the example below, KF-C02-legacy-crc.) -/
theorem C02_reference_accepts (o : Opts) (fits : List (Hdr × List WMsg)) (hne : fits ≠ [])
    (hall : ∀ f ∈ fits, FitOK o f.1 f.2) (hbytes : ∀ f ∈ fits, C02_ByteOK o f) (h14 : ∀ f ∈ fits, f.1.size = 14) :
    IntegritySpec.reference (encodeChain o fits) = .ok fits.length := by
  have := refLoop_encodeChain o fits hall (fun f hf => ⟨(hbytes f hf).protoVer, (hbytes f hf).recs⟩) h14
    ((encodeChain o fits).length + 1) 0 (by omega) (by
      cases fits with
      | nil => exact absurd rfl hne
      | cons _ _ => simp)
  unfold IntegritySpec.reference
  rw [this, Nat.zero_add]

/-- non-vacuity, and the same by evaluation: a chain mixing a 14- and a 12-byte header -/
example :
    let o : Opts := ⟨0, false, 1⟩
    let fits : List (Hdr × List WMsg) := [(⟨14, 32, 2158⟩, [⟨0, [⟨0, 0, 3, [4]⟩], []⟩]), (⟨12, 16, 2158⟩, [⟨20, [⟨253, 4, 0x86, [1, 2, 3, 4]⟩], []⟩])]
    Integrity.checkIntegrity (encodeChain o fits) = .ok 2 ∧ IntegritySpec.referenceAsBuilt (encodeChain o fits) = .ok 2 ∧
    IntegritySpec.reference (encodeChain o fits) = .bad 1 := by
  decide +kernel

end Fit.C02
