import FitProps.WireLemmas
import FitProps.BridgeLemmas
import FitProps.CrcAlgebra
import FitProps.C18
import FitModel.FitFormat
/-!
# C02 — Successful encodes are well-formed, self-consistent FIT streams

Specification: `FitModel/FitFormat.lean` (independent reading of the protocol framing).
PROPERTY THEOREMS: C02_parses, C02_datasize, C02_header_crc, C02_crc_whole_sequence_partial, C02_legacy_crc_witness,
C02_decodes (the SDK's own decoder accepts every successful encode, with checksums on)
The structural half of `WellFormed` is `C02_parses` (via the refinement "the decoder's framing refines the
spec's framing", FitProps/BridgeLemmas.lean: records_spec); the CRC half is `C02_header_crc` and
`C02_crc_whole_sequence_partial` at the byte level. What is not done is only the bookkeeping that restates the
two CRC theorems through `SeqView.start`/`slice` offsets of a chain (`C02_wellformed_full` stays a `def`);
`WellFormed` as a whole is evaluated on the implementation's bytes by the driver (`--prop` of family encw).
-/
namespace Fit.C02
open Fit.Wire
open Fit.Crc (write crcSpec crc_append_self crcSpec_append)

/-- the full statement: every successful encode is a well-formed stream with one sequence per FIT value -/
def C02_wellformed_full : Prop :=
  ∀ (o : Opts), OptsOK o → ∀ fits : List (Hdr × List WMsg), (∀ f ∈ fits, FitOK o f.1 f.2) →
    ∃ seqs, FitFormat.parseStream (encodeChain o fits) = some seqs ∧ seqs.length = fits.length ∧
      ∀ s ∈ seqs, FitFormat.headerCrcOk (encodeChain o fits) s = true ∧ FitFormat.fileCrcOk (encodeChain o fits) s = true

/-- THE STREAM PARSES under the independent framing spec: every successful encode of a chain is exactly one
sequence view per FIT value — header, records that fill the declared data size exactly (every data record
has a live definition of its local number), two CRC bytes — with nothing between or after the sequences. -/
theorem C02_parses (o : Opts) (ho : OptsOK o) (fits : List (Hdr × List WMsg)) (hall : ∀ f ∈ fits, FitOK o f.1 f.2) :
    ∃ seqs, FitFormat.parseStream (encodeChain o fits) = some seqs ∧ seqs.length = fits.length := by
  have hlen : fits.length ≤ (encodeChain o fits).length := by
    clear hall
    induction fits with
    | nil => simp
    | cons f fs ih =>
      have := Bridge.encodeFit_length_pos o f.1 f.2
      simp [encodeChain, List.length_append] at ih ⊢; omega
  exact Bridge.parseSeqs_encodeChain o ho fits hall 0 _ hlen

/-- DATA SIZE: the four data-size bytes of the header the encoder leaves on the wire are the little-endian
exact number of record bytes that follow (before the two CRC bytes) — for every message list and option
combination, whatever strategy produced it (C09: all strategies give these bytes). -/
theorem C02_datasize (o : Opts) (h : Hdr) (ms : List WMsg) (hsmall : (encodeMsgs o (freshEnc o) ms).length < 4294967296) :
    ((encodeFit o h ms).drop 4).take 4 = le32 (encodeMsgs o (freshEnc o) ms).length ∧
    (encodeFit o h ms).length = (if h.size = 14 then 14 else 12) + (encodeMsgs o (freshEnc o) ms).length + 2 := by
  simp only [encodeFit, hdrBytes, Nat.mod_eq_of_lt hsmall, Wire.le16, le32]
  constructor
  · split <;> simp
  · split <;> simp [List.length_append] <;> omega

/-- HEADER CRC: a 14-byte header carries the CRC-16 of its first twelve bytes, little-endian. -/
theorem C02_header_crc (h : Hdr) (hs : h.size = 14) (ds : Nat) :
    (hdrBytes h ds).drop 12 = Wire.le16 (write 0 ((hdrBytes h ds).take 12)) ∧ (hdrBytes h ds).length = 14 := by
  simp [hdrBytes, hs, Wire.le16, le32]

theorem b12_bytes (h : Hdr) (ds : Nat) (hs : h.size < 256) (hp : h.protoVer < 256) : Fit.C18.Bytes (b12 h ds) := by
  intro b hb
  simp only [b12, Wire.le16, le32, List.cons_append, List.nil_append, List.mem_cons, List.not_mem_nil, or_false] at hb
  rcases hb with rfl | rfl | rfl | rfl | rfl | rfl | rfl | rfl | rfl | rfl | rfl | rfl <;> omega

/-- FILE CRC COVERS THE WHOLE SEQUENCE (14-byte headers): the stored file CRC — computed by the encoder
over the records only, after resetting the hash — equals the CRC-16 of every preceding byte of the
sequence, header included, because a header followed by its own CRC leaves the CRC state at zero. -/
theorem C02_crc_whole_sequence_partial (o : Opts) (h : Hdr) (ms : List WMsg) (hs : h.size = 14) (hp : h.protoVer < 256)
    (hb : Fit.C18.Bytes (encodeMsgs o (freshEnc o) ms)) :
    let recs := encodeMsgs o (freshEnc o) ms
    let ds := recs.length % 4294967296
    (encodeFit o h ms) = (hdrBytes h ds ++ recs) ++ Wire.le16 (crcSpec 0 (hdrBytes h ds ++ recs)) := by
  intro recs ds
  have hbb : Fit.C18.Bytes (b12 h ds) := b12_bytes h ds (by omega) hp
  have hw : write 0 (b12 h ds) = crcSpec 0 (b12 h ds) := Fit.C18.C18_write_eq_spec _ hbb 0 (by decide)
  have hhdr : hdrBytes h ds = b12 h ds ++ Wire.le16 (crcSpec 0 (b12 h ds)) := by
    have hw' := hw
    simp only [b12, hs] at hw'
    simp only [hdrBytes, hs, if_true, b12, hw']
  have hzero : crcSpec 0 (hdrBytes h ds) = 0 := by
    rw [hhdr]
    have := crc_append_self (b12 h ds) hbb
    simpa [Fit.Crc.le16, Wire.le16] using this
  have hcat : crcSpec 0 (hdrBytes h ds ++ recs) = crcSpec 0 recs := by
    rw [crcSpec_append, hzero]
  rw [hcat, ← Fit.C18.C18_write_eq_spec recs hb 0 (by decide)]
  simp [encodeFit, recs, ds, List.append_assoc]

/-- LEGACY 12-BYTE HEADER (finding KF-C02-legacy-crc): the stored file CRC is the CRC of the records only;
the protocol's CRC of every preceding byte is a different number. -/
theorem C02_legacy_crc_witness :
    let bs := encodeFit ⟨0, false, 1⟩ ⟨12, 32, 2158⟩ [⟨0, [⟨0, 0, 3, [4]⟩], []⟩]
    FitFormat.wellFormed bs = false ∧
    (FitFormat.parseStream bs).isSome = true ∧
    FitFormat.wellFormed (encodeFit ⟨0, false, 1⟩ ⟨14, 32, 2158⟩ [⟨0, [⟨0, 0, 3, [4]⟩], []⟩]) = true := by
  decide +kernel

/-- THE SDK READS WHAT IT WROTE: with checksum verification on, `Decode` accepts every successful encode of
a chain and returns one sequence per FIT value whose header data size is the exact record byte count. -/
theorem C02_decodes (tsKnown : Nat → Bool) (o : Opts) (ho : OptsOK o)
    (fits : List (Hdr × List WMsg)) (hne : fits ≠ []) (hall : ∀ f ∈ fits, FitOK o f.1 f.2)
    (hdesc : ∀ f ∈ fits, msgsDescOK [] f.2 = true) :
    ∃ evs, decodeStream tsKnown true (fits.length + 1) true (encodeChain o fits) = (evs, none) ∧
      (seqsOf evs).length = fits.length ∧ AllMatch (FitMatches o) fits (seqsOf evs) := by
  obtain ⟨evs, h1, h2⟩ := decodeStream_encodeChain tsKnown true o ho fits hall hdesc true (fun _ => hne) _ (Nat.lt_succ_self _)
  exact ⟨evs, h1, h2.length_eq.symm, h2⟩

end Fit.C02
