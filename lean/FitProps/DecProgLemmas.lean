import FitProps.ReadBufferLemmas
import FitModel.DecProg
/-!
The decoder programs of `FitModel/DecProg.lean` are `Good` clients of the read buffer: every request is at most
`reservedbuf` bytes (`request_bound`), and a request cut short by the end of the stream ends the run at once with
an outcome that does not depend on which end-of-stream error it was, up to that error's class.
-/
namespace Fit.DecProg
open Fit.ReadBuffer Fit.Gen.Integ

/-- the side conditions on the regenerated constants: 255 field definitions of 3 bytes fit into one request,
a field value (size byte) fits, and both models mean the same `reservedbuf` -/
theorem consts_ok : 255 * 3 ≤ Fit.Gen.Reader.reservedbuf ∧ 255 ≤ Fit.Gen.Reader.reservedbuf ∧
    Fit.Gen.Integ.reservedbuf = Fit.Gen.Reader.reservedbuf ∧ 13 ≤ Fit.Gen.Reader.reservedbuf := by decide

theorem isBytes_headD {b : Bytes} (h : IsBytes b) : b.headD 0 < 256 := by
  cases b with
  | nil => simp
  | cons x xs => exact h x (by simp)

theorem triplets_lt {b : Bytes} (h : IsBytes b) : ∀ t ∈ triplets b, t.2.1 < 256 := by
  induction b using triplets.induct with
  | case1 a s c rest ih =>
    intro t ht
    simp only [triplets, List.mem_cons] at ht
    rcases ht with rfl | ht
    · exact h s (by simp)
    · exact ih (fun x hx => h x (by simp [hx])) t ht
  | case2 b hb =>
    intro t ht
    rw [triplets] at ht
    · cases ht
    · exact hb

def DefsOK (defs : List (Nat × Def)) : Prop :=
  ∀ p ∈ defs, (∀ t ∈ p.2.fields, t.2.1 < 256) ∧ (∀ t ∈ p.2.devFields, t.2.1 < 256)

abbrev G (p : P) : Prop := Good Out.merge Fit.Gen.Reader.reservedbuf p

theorem good_rdN (chk : Bool) (n : Nat) (st : St) (k : Bytes → St → P) (hn : n ≤ Fit.Gen.Reader.reservedbuf)
    (hk : ∀ b, b.length = n → IsBytes b → G (k b { st with cur := st.cur + n, crc := if chk then Fit.Crc.write st.crc b else st.crc })) :
    G (rdN chk n st k) := by
  unfold rdN
  refine Good.read n _ hn (fun bs h1 h2 => hk bs h1 h2) (Good.ret _) (fun _ => ⟨_, _, rfl, rfl, rfl⟩)

theorem good_fields (chk : Bool) (fs : List Triplet) (hfs : ∀ t ∈ fs, t.2.1 < 256) :
    ∀ (st : St) (acc : List (Nat × Bytes)) (k : St → List (Nat × Bytes) → P),
      (∀ st' acc', st'.defs = st.defs → G (k st' acc')) → G (fields chk fs st acc k) := by
  induction fs with
  | nil => intro st acc k hk; exact hk st acc rfl
  | cons t fs ih =>
    intro st acc k hk
    obtain ⟨num, size, bt⟩ := t
    have hsz : size < 256 := hfs (num, size, bt) (by simp)
    have hfs' : ∀ t ∈ fs, t.2.1 < 256 := fun t ht => hfs t (by simp [ht])
    simp only [fields]
    split
    · exact ih hfs' st acc k hk
    · refine good_rdN chk size st _ (by have := consts_ok.2.1; omega) (fun b _ _ => ?_)
      exact ih hfs' _ _ k (fun st' acc' h => hk st' acc' (by rw [h]))

theorem good_devFields (chk : Bool) (descs : List Triplet) (fs : List Triplet) (hfs : ∀ t ∈ fs, t.2.1 < 256) :
    ∀ (st : St) (cnt : List (Nat × Nat × Bytes)) (k : St → List (Nat × Nat × Bytes) → P),
      (∀ st' cnt', st'.defs = st.defs → G (k st' cnt')) → G (devFields chk descs fs st cnt k) := by
  induction fs with
  | nil => intro st cnt k hk; exact hk st cnt rfl
  | cons t fs ih =>
    intro st cnt k hk
    obtain ⟨num, size, ddi⟩ := t
    have hsz : size < 256 := hfs (num, size, ddi) (by simp)
    have hfs' : ∀ t ∈ fs, t.2.1 < 256 := fun t ht => hfs t (by simp [ht])
    have hb : size ≤ Fit.Gen.Reader.reservedbuf := by have := consts_ok.2.1; omega
    simp only [devFields]
    split
    · refine good_rdN chk size st _ hb (fun b _ _ => ?_)
      exact ih hfs' _ _ k (fun st' c' h => hk st' c' (by rw [h]))
    · split
      · exact Good.ret _
      · split
        · exact ih hfs' st cnt k hk
        · refine good_rdN chk size st _ hb (fun b _ _ => ?_)
          exact ih hfs' _ _ k (fun st' c' h => hk st' c' (by rw [h]))

theorem good_definition (chk : Bool) (header : Nat) (st : St) (k : St → P) (hst : DefsOK st.defs)
    (hk : ∀ st', DefsOK st'.defs → G (k st')) : G (definition chk header st k) := by
  have hc := consts_ok
  unfold definition
  refine good_rdN chk 5 st _ (by omega) (fun b _ hb => ?_)
  have hn : (b.drop 4).headD 0 < 256 := isBytes_headD (isBytes_drop hb 4)
  refine good_rdN chk _ _ _ (by omega) (fun fb _ hfb => ?_)
  have hf := triplets_lt hfb
  simp only
  split
  · exact Good.ret _
  · split
    · refine good_rdN chk 1 _ _ (by omega) (fun nb _ hnb => ?_)
      have hnd : nb.headD 0 < 256 := isBytes_headD hnb
      refine good_rdN chk _ _ _ (by omega) (fun db _ hdb => ?_)
      apply hk
      intro p hp
      simp only [List.mem_cons] at hp
      rcases hp with rfl | hp
      · exact ⟨hf, triplets_lt hdb⟩
      · exact hst p hp
    · apply hk
      intro p hp
      simp only [List.mem_cons] at hp
      rcases hp with rfl | hp
      · exact ⟨hf, by intro t ht; cases ht⟩
      · exact hst p hp

theorem lookup_ok {st : St} (hst : DefsOK st.defs) {i : Nat} {d : Def} (h : st.lookup i = some d) :
    (∀ t ∈ d.fields, t.2.1 < 256) ∧ (∀ t ∈ d.devFields, t.2.1 < 256) := by
  unfold St.lookup at h
  cases hf : st.defs.find? (·.1 == i) with
  | none => simp [hf] at h
  | some p =>
    simp [hf] at h
    subst h
    exact hst p (List.mem_of_find?_eq_some hf)

theorem good_data (chk : Bool) (header : Nat) (st : St) (k : St → P) (hst : DefsOK st.defs)
    (hk : ∀ st', DefsOK st'.defs → G (k st')) : G (data chk header st k) := by
  unfold data
  simp only
  split
  · exact Good.ret _
  · rename_i d hd
    obtain ⟨h1, h2⟩ := lookup_ok hst hd
    refine good_fields chk d.fields h1 st [] _ (fun st' vals hdefs => ?_)
    refine good_devFields chk _ d.devFields h2 _ [] _ (fun st'' nd hdefs' => ?_)
    apply hk
    simp only at hdefs' ⊢
    rw [hdefs', hdefs]; exact hst

theorem good_message (chk : Bool) (st : St) (k : St → P) (hst : DefsOK st.defs)
    (hk : ∀ st', DefsOK st'.defs → G (k st')) : G (message chk st k) := by
  unfold message
  refine good_rdN chk 1 st _ (by have := consts_ok; omega) (fun b _ _ => ?_)
  simp only
  split
  · exact good_definition chk _ _ k hst hk
  · exact good_data chk _ _ k hst hk

theorem good_messages (chk : Bool) (dataSize : Nat) (fuel : Nat) :
    ∀ (st : St) (k : St → P), DefsOK st.defs → (∀ st', DefsOK st'.defs → G (k st')) → G (messages chk dataSize fuel st k) := by
  induction fuel with
  | zero => intro st k hst hk; exact hk st hst
  | succ fuel ih =>
    intro st k hst hk
    simp only [messages]
    split
    · exact good_message chk st _ hst (fun st' hst' => ih st' k hst' hk)
    · exact hk st hst

theorem good_fileCrc (chk : Bool) (st : St) (k : Nat → P) (hk : ∀ c, G (k c)) : G (fileCrc chk st k) := by
  unfold fileCrc
  refine Good.read 2 _ (by have := consts_ok; omega) (fun bs _ _ => ?_) (Good.ret _) (fun _ => ⟨_, _, rfl, rfl, rfl⟩)
  simp only
  split
  · exact Good.ret _
  · exact hk _

theorem good_fileHeader (chk : Bool) (onFirst : RErr → P) (onErr : Err → P) (k : Hdr → P)
    (h1 : G (onFirst .eof)) (h2 : ∀ e, G (onErr e))
    (h3 : ∃ a a', onErr (.io .eof) = .ret a ∧ onErr (.io .unexpectedEof) = .ret a' ∧ a.merge = a'.merge)
    (hk : ∀ h, G (k h)) : G (fileHeader chk onFirst onErr k) := by
  have hc := consts_ok
  unfold fileHeader
  refine Good.read 1 _ (by omega) (fun b0 _ _ => ?_) h1 (fun h => by omega)
  simp only
  split
  · exact h2 _
  · rename_i hsz
    have hsize : b0.headD 0 - 1 ≤ Fit.Gen.Reader.reservedbuf := by omega
    refine Good.read _ _ hsize (fun b _ _ => ?_) (h2 _) (fun _ => h3)
    simp only
    repeat' split
    all_goals first | exact h2 _ | exact hk _

/-- REQUEST BOUND and stop-at-short-read, for the `Next`/`Decode` loop: every request the decoder issues — header,
record headers, definitions (up to 255 × 3 bytes), field values, developer fields, CRC — is at most `reservedbuf` -/
theorem good_decodeLoop (chk : Bool) (fuel : Nat) : ∀ (first : Bool) (evs : List Ev), G (decodeLoop chk fuel first evs) := by
  induction fuel with
  | zero => intro first evs; exact Good.ret _
  | succ fuel ih =>
    intro first evs
    simp only [decodeLoop]
    refine good_fileHeader chk _ _ _ ?_ ?_ ?_ (fun h => ?_)
    · split <;> exact Good.ret _
    · intro e; split <;> exact Good.ret _
    · cases first
      · exact ⟨_, _, rfl, rfl, rfl⟩
      · exact ⟨_, _, rfl, rfl, rfl⟩
    · refine good_messages chk _ _ _ _ (by intro p hp; cases hp) (fun st' _ => ?_)
      exact good_fileCrc chk st' _ (fun c => ih false _)

/-! ### `CheckIntegrity` -/

abbrev GC (p : Prog CiOut) : Prop := Good CiOut.merge Fit.Gen.Reader.reservedbuf p

theorem good_ciBody (seq dataSize : Nat) (fuel : Nat) : ∀ (cur crc : Nat) (k : Nat → Prog CiOut),
    (∀ c, GC (k c)) → GC (checkIntegrity.ciBody seq dataSize fuel cur crc k) := by
  induction fuel with
  | zero => intro cur crc k hk; exact hk crc
  | succ fuel ih =>
    intro cur crc k hk
    simp only [checkIntegrity.ciBody]
    split
    · refine Good.read _ _ ?_ (fun bs _ _ => ih _ _ k hk) (Good.ret _) (fun _ => ⟨_, _, rfl, rfl, rfl⟩)
      have := consts_ok.2.2.1
      rw [this]; exact Nat.min_le_right _ _
    · exact hk crc

/-- `CheckIntegrity` is a `Good` client: header reads, `discardMessages` in chunks of at most `reservedbuf`, CRC -/
theorem good_checkIntegrity (fuel : Nat) : ∀ (seq : Nat), GC (checkIntegrity fuel seq) := by
  have hc := consts_ok
  induction fuel with
  | zero => intro seq; exact Good.ret _
  | succ fuel ih =>
    intro seq
    simp only [checkIntegrity]
    refine Good.read 1 _ (by omega) (fun b0 _ _ => ?_) ?_ (fun h => by omega)
    rotate_left
    · simp only
      split
      · exact Good.ret _
      · exact Good.ret _
    simp only
    split
    · exact Good.ret _
    · rename_i hsz
      have hsize : b0.headD 0 - 1 ≤ Fit.Gen.Reader.reservedbuf := by omega
      refine Good.read _ _ hsize (fun b _ _ => ?_) (Good.ret _) (fun _ => ⟨_, _, rfl, rfl, rfl⟩)
      simp only
      repeat' split
      all_goals first
        | exact Good.ret _
        | (refine good_ciBody _ _ _ _ _ _ (fun c => ?_)
           refine Good.read 2 _ (by omega) (fun bs _ _ => ?_) (Good.ret _) (fun _ => ⟨_, _, rfl, rfl, rfl⟩)
           simp only
           split
           · exact Good.ret _
           · exact ih _)

/-! ### failures of the reader are handed back -/

set_option linter.unusedSimpArgs false

/-- every request of the client, when it fails with error `e`, ends the run with an outcome satisfying `Q e` -/
inductive Keeps (Q : RErr → Out → Prop) : P → Prop
  | ret (a : Out) : Keeps Q (.ret a)
  | read (n : Nat) (k : Except RErr Bytes → P) :
      (∀ bs, Keeps Q (k (.ok bs))) → (∀ e, ∃ a, k (.error e) = .ret a ∧ Q e a) → Keeps Q (.read n k)

/-- whatever the read buffer, whatever the reader: if `ReadN` hands a failure of the reader to the client, the run
ends (no panic) with an outcome satisfying `Q` for that error -/
theorem keeps_run {Q : RErr → Out → Prop} (p : P) (hp : Keeps Q p) :
    ∀ (b : RB) (e : RErr), firstReaderErr p b = some e → ∃ o, runRB p b = .done o ∧ Q e o := by
  induction hp with
  | ret a => intro b e h; simp [firstReaderErr] at h
  | read n k _ herr ih =>
    intro b e h
    simp only [firstReaderErr] at h
    simp only [runRB]
    cases hr : b.readN n with
    | mk r b' =>
      rw [hr] at h
      cases r with
      | ok bs => exact ih bs b' e h
      | err e' =>
        simp only at h ⊢
        obtain ⟨a, hk, hq⟩ := herr e'
        by_cases hf : e'.isReaderFailure = true
        · simp only [hf, if_true, Option.some.injEq] at h
          subst h
          exact ⟨a, by rw [hk]; rfl, hq⟩
        · simp only [hf, if_false] at h
          rw [hk] at h
          simp [firstReaderErr] at h
      | panic => simp at h

variable {Q : RErr → Out → Prop} (hQ : ∀ e evs, Q e { evs := evs, status := some (.io e) })
include hQ

theorem keeps_rdN (chk : Bool) (n : Nat) (st : St) (k : Bytes → St → P)
    (hk : ∀ b st', Keeps Q (k b st')) : Keeps Q (rdN chk n st k) := by
  unfold rdN
  exact Keeps.read n _ (fun bs => hk bs _) (fun e => ⟨_, rfl, hQ e _⟩)

theorem keeps_fields (chk : Bool) (fs : List Triplet) :
    ∀ (st : St) (acc : List (Nat × Bytes)) (k : St → List (Nat × Bytes) → P),
      (∀ st' acc', Keeps Q (k st' acc')) → Keeps Q (fields chk fs st acc k) := by
  induction fs with
  | nil => intro st acc k hk; exact hk st acc
  | cons t fs ih =>
    intro st acc k hk
    obtain ⟨num, size, bt⟩ := t
    simp only [fields]
    split
    · exact ih st acc k hk
    · exact keeps_rdN hQ chk size st _ (fun b st' => ih _ _ k hk)

theorem keeps_devFields (chk : Bool) (descs : List Triplet) (fs : List Triplet) :
    ∀ (st : St) (cnt : List (Nat × Nat × Bytes)) (k : St → List (Nat × Nat × Bytes) → P),
      (∀ st' cnt', Keeps Q (k st' cnt')) → Keeps Q (devFields chk descs fs st cnt k) := by
  induction fs with
  | nil => intro st cnt k hk; exact hk st cnt
  | cons t fs ih =>
    intro st cnt k hk
    obtain ⟨num, size, ddi⟩ := t
    simp only [devFields]
    split
    · exact keeps_rdN hQ chk size st _ (fun b st' => ih _ _ k hk)
    · split
      · exact Keeps.ret _
      · split
        · exact ih st cnt k hk
        · exact keeps_rdN hQ chk size st _ (fun b st' => ih _ _ k hk)

theorem keeps_message (chk : Bool) (st : St) (k : St → P) (hk : ∀ st', Keeps Q (k st')) : Keeps Q (message chk st k) := by
  unfold message
  refine keeps_rdN hQ chk 1 st _ (fun b st' => ?_)
  simp only
  split
  · unfold definition
    refine keeps_rdN hQ chk 5 _ _ (fun b st' => ?_)
    refine keeps_rdN hQ chk _ _ _ (fun fb st' => ?_)
    simp only
    split
    · exact Keeps.ret _
    · split
      · refine keeps_rdN hQ chk 1 _ _ (fun nb st' => ?_)
        exact keeps_rdN hQ chk _ _ _ (fun db st' => hk _)
      · exact hk _
  · unfold data
    simp only
    split
    · exact Keeps.ret _
    · exact keeps_fields hQ chk _ _ _ _ (fun st' vals => keeps_devFields hQ chk _ _ _ _ _ (fun st'' nd => hk _))

theorem keeps_messages (chk : Bool) (dataSize : Nat) (fuel : Nat) :
    ∀ (st : St) (k : St → P), (∀ st', Keeps Q (k st')) → Keeps Q (messages chk dataSize fuel st k) := by
  induction fuel with
  | zero => intro st k hk; exact hk st
  | succ fuel ih =>
    intro st k hk
    simp only [messages]
    split
    · exact keeps_message hQ chk st _ (fun st' => ih st' k hk)
    · exact hk st

theorem keeps_fileCrc (chk : Bool) (st : St) (k : Nat → P) (hk : ∀ c, Keeps Q (k c)) : Keeps Q (fileCrc chk st k) := by
  unfold fileCrc
  refine Keeps.read 2 _ (fun bs => ?_) (fun e => ⟨_, rfl, hQ e _⟩)
  simp only
  split
  · exact Keeps.ret _
  · exact hk _

omit hQ in
theorem keeps_fileHeader (chk : Bool) (onFirst : RErr → P) (onErr : Err → P) (k : Hdr → P)
    (h1 : ∀ e, ∃ a, onFirst e = .ret a ∧ Q e a) (h2 : ∀ e, ∃ a, onErr (.io e) = .ret a ∧ Q e a)
    (h3 : ∀ e, Keeps Q (onErr e)) (hk : ∀ h, Keeps Q (k h)) : Keeps Q (fileHeader chk onFirst onErr k) := by
  unfold fileHeader
  refine Keeps.read 1 _ (fun b0 => ?_) h1
  simp only
  split
  · exact h3 _
  · refine Keeps.read _ _ (fun b => ?_) h2
    simp only
    repeat' split
    all_goals first | exact h3 _ | exact hk _

omit hQ in
/-- `firstReaderErr` only ever reports failures of the reader itself -/
theorem firstReaderErr_isFailure {α : Type} (p : Prog α) : ∀ (b : RB) (e : RErr), firstReaderErr p b = some e → e.isReaderFailure = true := by
  induction p with
  | ret a => intro b e h; simp [firstReaderErr] at h
  | read n k ih =>
    intro b e h
    simp only [firstReaderErr] at h
    cases hr : b.readN n with
    | mk r b' =>
      rw [hr] at h
      cases r with
      | ok bs => exact ih _ b' e h
      | err e' =>
        simp only at h
        by_cases hf : e'.isReaderFailure = true
        · simp only [hf, if_true, Option.some.injEq] at h; subst h; exact hf
        · simp only [hf, if_false] at h; exact ih _ b' e h
      | panic => simp at h

omit hQ in
/-- the `Next`/`Decode` loop: every request that fails with a failure of the reader ends the run with that error -/
theorem keeps_decodeLoop (chk : Bool) (fuel : Nat) : ∀ (first : Bool) (evs : List Ev),
    Keeps (fun e o => e.isReaderFailure = true → o.status = some (.io e)) (decodeLoop chk fuel first evs) := by
  have hQ : ∀ (e : RErr) (evs : List Ev), (fun e (o : Out) => e.isReaderFailure = true → o.status = some (.io e))
      e { evs := evs, status := some (.io e) } := fun _ _ _ => rfl
  induction fuel with
  | zero => intro first evs; exact Keeps.ret _
  | succ fuel ih =>
    intro first evs
    simp only [decodeLoop]
    refine keeps_fileHeader chk _ _ _ ?_ ?_ ?_ (fun h => ?_)
    · intro e
      cases first <;> cases e <;> first
        | exact ⟨_, rfl, fun _ => rfl⟩
        | exact ⟨_, rfl, fun h => by cases h⟩
    · intro e
      cases first <;> cases e <;> first
        | exact ⟨_, rfl, fun _ => rfl⟩
        | exact ⟨_, rfl, fun h => by cases h⟩
    · intro e; split <;> exact Keeps.ret _
    · refine keeps_messages hQ chk _ _ _ _ (fun st' => ?_)
      exact keeps_fileCrc hQ chk st' _ (fun c => ih false _)

end Fit.DecProg
