import FitModel.Validator
/-! Helper lemmas: the two loops of `Validate` compute the declarative specification
(`filter keep` / `map restore`, accepted exactly when every kept value passes `integrity` and at most 255
are kept). -/
namespace Fit.Validator
open Fit.Gen Fit.Value Fit.Msg

theorem restoreField_base (D : Discard) (f : Field) (b : FieldBase) : (restoreField D f b).base = f.base := by
  unfold restoreField; split <;> rfl

theorem restoreField_isExpanded (D : Discard) (f : Field) (b : FieldBase) :
    (restoreField D f b).isExpanded = f.isExpanded := by
  unfold restoreField; split <;> rfl

/-- acceptance condition of the field loop started with `n` fields already kept -/
def FieldsOk (D : Discard) (o : Options) (fs : List Field) (n : Nat) : Prop :=
  (specFields D o fs).all fieldOk = true ∧ n + (specFields D o fs).length ≤ 255

theorem specFields_cons_skip (D : Discard) (o : Options) (f : Field) (fs : List Field)
    (h : keepField D o f = false) : specFields D o (f :: fs) = specFields D o fs := by
  simp [specFields, List.filter_cons, h]

theorem specFields_cons_keep (D : Discard) (o : Options) (f : Field) (fs : List Field)
    (h : keepField D o f = true) : specFields D o (f :: fs) = restoredField D f :: specFields D o fs := by
  simp [specFields, List.filter_cons, h]

/-- the field loop: either an error and the acceptance condition fails, or exactly the specified fields -/
theorem validateFields_char (D : Discard) (o : Options) : ∀ (fs : List Field) (n : Nat), n ≤ 255 →
    ((∃ e, validateFields D o fs n = .error e) ∧ ¬ FieldsOk D o fs n) ∨
    (validateFields D o fs n = .ok (specFields D o fs) ∧ FieldsOk D o fs n)
  | [], n, hn => by
    right; exact ⟨rfl, by simp [FieldsOk, specFields, hn]⟩
  | f :: fs, n, hn => by
    have ih := validateFields_char D o fs
    cases hb : f.base with
    | none =>
      have hk : keepField D o f = false := by simp [keepField, hb]
      simp only [validateFields, hb, FieldsOk, specFields_cons_skip D o f fs hk]
      exact ih n hn
    | some b =>
      by_cases hx : f.isExpanded = true
      · have hk : keepField D o f = false := by simp [keepField, hb, hx]
        simp only [validateFields, hb, hx, ↓reduceIte, FieldsOk, specFields_cons_skip D o f fs hk]
        exact ih n hn
      · have hx' : f.isExpanded = false := by simpa using hx
        by_cases hv : (o.omitInvalid && !valid (restoreField D f b).value b.baseType) = true
        · have hk : keepField D o f = false := by
            simp only [keepField, hb, hx', Bool.not_false, Bool.true_and]
            simp only [Bool.and_eq_true, Bool.not_eq_true'] at hv
            simp [hv.1, hv.2]
          simp only [validateFields, hb, hx', Bool.false_eq_true, ↓reduceIte, hv, FieldsOk,
            specFields_cons_skip D o f fs hk]
          exact ih n hn
        · have hk : keepField D o f = true := by
            simp only [keepField, hb, hx', Bool.not_false, Bool.true_and]
            simp only [Bool.and_eq_true, Bool.not_eq_true', not_and, Bool.not_eq_false] at hv
            cases ho : o.omitInvalid with
            | false => simp
            | true => simp [hv ho]
          have hr : restoredField D f = restoreField D f b := by simp [restoredField, hb]
          have hok : fieldOk (restoredField D f) = (integrity (restoreField D f b).value b.baseType).isNone := by
            rw [hr]; simp [fieldOk, restoreField_base, hb]
          simp only [validateFields, hb, hx', Bool.false_eq_true, ↓reduceIte, hv, FieldsOk,
            specFields_cons_keep D o f fs hk, List.all_cons, List.length_cons, hok]
          cases hi : integrity (restoreField D f b).value b.baseType with
          | some e =>
            left
            exact ⟨⟨e, rfl⟩, by simp⟩
          | none =>
            by_cases h255 : n = 255
            · left
              subst h255
              exact ⟨⟨.exceed, by simp⟩, by simp⟩
            · simp only [h255, ↓reduceIte, Option.isNone_none, Bool.true_and]
              rcases ih (n + 1) (by omega) with ⟨⟨e, he⟩, hno⟩ | ⟨hok', hP⟩
              · left
                refine ⟨⟨e, by simp [he, Except.map]⟩, ?_⟩
                intro hc
                apply hno
                simp only [FieldsOk] at hc ⊢
                exact ⟨hc.1, by omega⟩
              · right
                refine ⟨by simp [hok', hr, Except.map], ?_⟩
                simp only [FieldsOk] at hP
                exact ⟨hP.1, by omega⟩

/-! ### developer fields -/

theorem restoreDev_key (D : Discard) (o : Options) (fd : FieldDesc) (d : DevField) :
    (restoreDev D o fd d).devIdx = d.devIdx ∧ (restoreDev D o fd d).num = d.num := by
  unfold restoreDev
  dsimp only
  split
  · split <;> exact ⟨rfl, rfl⟩
  · split <;> exact ⟨rfl, rfl⟩

theorem lookupFd_congr (fds : List FieldDesc) (d d' : DevField) (h1 : d'.devIdx = d.devIdx) (h2 : d'.num = d.num) :
    lookupFd fds d' = lookupFd fds d := by
  simp [lookupFd, h1, h2]

/-- acceptance condition of the developer-field loop started with `n` kept -/
def DevsOk (D : Discard) (o : Options) (st : State) (ds : List DevField) (n : Nat) : Prop :=
  ds.all (devBacked st) = true ∧ (specDevs D o st ds).all (devOk st) = true ∧ n + (specDevs D o st ds).length ≤ 255

theorem specDevs_cons_skip (D : Discard) (o : Options) (st : State) (d : DevField) (ds : List DevField)
    (h : keepDev D o st d = false) : specDevs D o st (d :: ds) = specDevs D o st ds := by
  simp [specDevs, List.filter_cons, h]

theorem specDevs_cons_keep (D : Discard) (o : Options) (st : State) (d : DevField) (ds : List DevField)
    (h : keepDev D o st d = true) : specDevs D o st (d :: ds) = restoredDev D o st d :: specDevs D o st ds := by
  simp [specDevs, List.filter_cons, h]

theorem validateDevs_char (D : Discard) (o : Options) (st : State) : ∀ (ds : List DevField) (n : Nat), n ≤ 255 →
    ((∃ e, validateDevs D o st ds n = .error e) ∧ ¬ DevsOk D o st ds n) ∨
    (validateDevs D o st ds n = .ok (specDevs D o st ds) ∧ DevsOk D o st ds n)
  | [], n, hn => by
    right; exact ⟨rfl, by simp [DevsOk, specDevs, hn]⟩
  | d :: ds, n, hn => by
    have ih := validateDevs_char D o st ds
    by_cases hc : st.ddis.contains d.devIdx = true
    · have hmem : d.devIdx ∈ st.ddis := by simpa using hc
      cases hl : lookupFd st.fds d with
      | none =>
        left
        refine ⟨⟨.missingFd, by simp [validateDevs, hmem, hl]⟩, ?_⟩
        simp [DevsOk, devBacked, hl]
      | some fd =>
        have hback : devBacked st d = true := by simp [devBacked, hmem, hl]
        by_cases hv : (o.omitInvalid && !valid (restoreDev D o fd d).value fd.btId) = true
        · have hk : keepDev D o st d = false := by
            simp only [keepDev, hl]
            simp only [Bool.and_eq_true, Bool.not_eq_true'] at hv
            simp [hv.1, hv.2]
          simp only [validateDevs, hc, Bool.not_true, Bool.false_eq_true, ↓reduceIte, hl, hv, DevsOk,
            specDevs_cons_skip D o st d ds hk, List.all_cons, hback, Bool.true_and]
          exact ih n hn
        · have hk : keepDev D o st d = true := by
            simp only [keepDev, hl]
            simp only [Bool.and_eq_true, Bool.not_eq_true', not_and, Bool.not_eq_false] at hv
            cases ho : o.omitInvalid with
            | false => simp
            | true => simp [hv ho]
          have hr : restoredDev D o st d = restoreDev D o fd d := by simp [restoredDev, hl]
          have hl' : lookupFd st.fds (restoreDev D o fd d) = some fd := by
            rw [lookupFd_congr st.fds d _ (restoreDev_key D o fd d).1 (restoreDev_key D o fd d).2]; exact hl
          have hok : devOk st (restoredDev D o st d) = (integrity (restoreDev D o fd d).value fd.btId).isNone := by
            rw [hr]; simp [devOk, hl']
          simp only [validateDevs, hc, Bool.not_true, Bool.false_eq_true, ↓reduceIte, hl, hv, DevsOk,
            specDevs_cons_keep D o st d ds hk, List.all_cons, List.length_cons, hok, hback, Bool.true_and]
          cases hi : integrity (restoreDev D o fd d).value fd.btId with
          | some e =>
            left
            exact ⟨⟨e, rfl⟩, by simp⟩
          | none =>
            by_cases h255 : n = 255
            · left
              subst h255
              exact ⟨⟨.exceed, by simp⟩, by simp⟩
            · simp only [h255, ↓reduceIte, Option.isNone_none, Bool.true_and]
              rcases ih (n + 1) (by omega) with ⟨⟨e, he⟩, hno⟩ | ⟨hok', hP⟩
              · left
                refine ⟨⟨e, by simp [he, Except.map]⟩, ?_⟩
                intro hcc
                apply hno
                simp only [DevsOk] at hcc ⊢
                exact ⟨hcc.1, hcc.2.1, by omega⟩
              · right
                refine ⟨by simp [hok', hr, Except.map], ?_⟩
                simp only [DevsOk] at hP
                exact ⟨hP.1, hP.2.1, by omega⟩
    · left
      have hmem : d.devIdx ∉ st.ddis := by simpa using hc
      refine ⟨⟨.missingDdi, by simp [validateDevs, hmem]⟩, ?_⟩
      simp [DevsOk, devBacked, hmem]

/-! ### `Validate` = its specification -/

/-- the message part of `validate`'s answer is the specified message, or an error exactly when the
specification says the message is not writable -/
theorem validate_spec (D : Discard) (o : Options) (st : State) (m : Message) :
    match specValidate D o st m with
    | some m' => (validate D o st m).1 = .ok m'
    | none => ∃ e, (validate D o st m).1 = .error e := by
  unfold specValidate validate
  rcases validateFields_char D o m.fields 0 (by omega) with ⟨⟨e, he⟩, hno⟩ | ⟨hok, hP⟩
  · have : (!(specFields D o m.fields).all fieldOk || decide ((specFields D o m.fields).length > 255)) = true := by
      simp only [FieldsOk, Nat.zero_add, not_and, Nat.not_le] at hno
      cases hall : (specFields D o m.fields).all fieldOk with
      | false => simp
      | true => simp [hno hall]
    simp only [this, ↓reduceIte, he]
    exact ⟨e, rfl⟩
  · simp only [FieldsOk, Nat.zero_add] at hP
    have hlen : decide ((specFields D o m.fields).length > 255) = false := by simp; omega
    simp only [hok, hP.1, Bool.not_true, Bool.false_or, hlen]
    cases hde : m.devFields.isEmpty with
    | true =>
      have hnil : m.devFields = [] := by simpa [List.isEmpty_iff] using hde
      cases hfe : (specFields D o m.fields).isEmpty <;> simp [hnil, specDevs]
    | false =>
      simp only [Bool.and_false, Bool.false_eq_true, ↓reduceIte]
      rcases validateDevs_char D o (remember st m.num (specFields D o m.fields)) m.devFields 0 (by omega) with
        ⟨⟨e, he⟩, hno⟩ | ⟨hok', hQ⟩
      · have : (!m.devFields.all (devBacked (remember st m.num (specFields D o m.fields))) ||
            !(specDevs D o (remember st m.num (specFields D o m.fields)) m.devFields).all
              (devOk (remember st m.num (specFields D o m.fields))) ||
            decide ((specDevs D o (remember st m.num (specFields D o m.fields)) m.devFields).length > 255)) = true := by
          simp only [DevsOk, Nat.zero_add, not_and, Nat.not_le] at hno
          cases h1 : m.devFields.all (devBacked (remember st m.num (specFields D o m.fields))) with
          | false => simp
          | true =>
            cases h2 : (specDevs D o (remember st m.num (specFields D o m.fields)) m.devFields).all
                (devOk (remember st m.num (specFields D o m.fields))) with
            | false => simp
            | true => simp [hno h1 h2]
        simp only [this, ↓reduceIte, he]
        exact ⟨e, rfl⟩
      · simp only [DevsOk, Nat.zero_add] at hQ
        have hlen' : decide ((specDevs D o (remember st m.num (specFields D o m.fields)) m.devFields).length > 255) = false := by
          simp; omega
        simp only [hok', hQ.1, hQ.2.1, hlen', Bool.not_true, Bool.false_or, Bool.false_eq_true, ↓reduceIte]
        cases hne : ((specFields D o m.fields).isEmpty &&
            (specDevs D o (remember st m.num (specFields D o m.fields)) m.devFields).isEmpty) with
        | true => simp only [↓reduceIte]; exact ⟨_, rfl⟩
        | false => simp only [Bool.false_eq_true, ↓reduceIte]

/-- the state after `validate`: unchanged on a field error or an empty message, otherwise `remember` -/
theorem validate_state (D : Discard) (o : Options) (st : State) (m : Message) (m' : Message)
    (h : (validate D o st m).1 = .ok m') : (validate D o st m).2 = remember st m.num m'.fields := by
  unfold validate at h ⊢
  split at h
  · cases h
  · rename_i fs hfs
    simp only [hfs]
    split at h
    · cases h
    · rename_i hne
      simp only [hne, Bool.false_eq_true, ↓reduceIte]
      split at h
      · rename_i hde
        simp only [hde, ↓reduceIte]
        simp only [Except.ok.injEq] at h
        rw [← h]
      · rename_i hde
        simp only [hde, Bool.false_eq_true, ↓reduceIte]
        dsimp only at h
        cases hds : validateDevs D o (remember st m.num fs) m.devFields 0 with
        | error e => rw [hds] at h; cases h
        | ok ds =>
          rw [hds] at h
          dsimp only at h ⊢
          split at h
          · cases h
          · rename_i hne2
            simp only [hne2, Bool.false_eq_true, ↓reduceIte]
            simp only [Except.ok.injEq] at h
            rw [← h]

/-- what an accepted message looks like, read off the specification -/
theorem specValidate_some (D : Discard) (o : Options) (st : State) (m m' : Message)
    (h : specValidate D o st m = some m') :
    m' = { m with fields := specFields D o m.fields,
                  devFields := specDevs D o (remember st m.num (specFields D o m.fields)) m.devFields } ∧
    (specFields D o m.fields).all fieldOk = true ∧ (specFields D o m.fields).length ≤ 255 ∧
    ¬((specFields D o m.fields).isEmpty = true ∧
      (specDevs D o (remember st m.num (specFields D o m.fields)) m.devFields).isEmpty = true) ∧
    m.devFields.all (devBacked (remember st m.num (specFields D o m.fields))) = true ∧
    (specDevs D o (remember st m.num (specFields D o m.fields)) m.devFields).all
      (devOk (remember st m.num (specFields D o m.fields))) = true ∧
    (specDevs D o (remember st m.num (specFields D o m.fields)) m.devFields).length ≤ 255 := by
  unfold specValidate at h
  dsimp only at h
  split at h
  · cases h
  · rename_i h1
    split at h
    · cases h
    · rename_i h2
      split at h
      · cases h
      · rename_i h3
        simp only [Option.some.injEq] at h
        simp only [Bool.or_eq_true, Bool.not_eq_true', decide_eq_true_eq, Bool.and_eq_true, not_or, Bool.not_eq_false,
          Nat.not_lt] at h1 h2 h3
        exact ⟨h.symm, h1.1, h1.2, h3, h2.1.1, h2.1.2, h2.2⟩

theorem mem_specFields {D : Discard} {o : Options} {fs : List Field} {f : Field} (h : f ∈ specFields D o fs) :
    ∃ g ∈ fs, keepField D o g = true ∧ f = restoredField D g := by
  simp only [specFields, List.mem_map, List.mem_filter] at h
  obtain ⟨g, ⟨hg, hk⟩, rfl⟩ := h
  exact ⟨g, hg, hk, rfl⟩

theorem mem_specDevs {D : Discard} {o : Options} {st : State} {ds : List DevField} {d : DevField}
    (h : d ∈ specDevs D o st ds) : ∃ g ∈ ds, keepDev D o st g = true ∧ d = restoredDev D o st g := by
  simp only [specDevs, List.mem_map, List.mem_filter] at h
  obtain ⟨g, ⟨hg, hk⟩, rfl⟩ := h
  exact ⟨g, hg, hk, rfl⟩

/-- a kept field after restoring: it has its `FieldBase`, is not expanded, and is valid unless invalid values are preserved -/
theorem kept_field_props {D : Discard} {o : Options} {g : Field} (hk : keepField D o g = true) :
    ∃ b, g.base = some b ∧ (restoredField D g).base = some b ∧ (restoredField D g).isExpanded = false ∧
      (o.omitInvalid = true → valid (restoredField D g).value b.baseType = true) := by
  unfold keepField at hk
  cases hb : g.base with
  | none => simp [hb] at hk
  | some b =>
    simp only [hb, Bool.and_eq_true, Bool.not_eq_true', Bool.or_eq_true] at hk
    refine ⟨b, rfl, ?_, ?_, ?_⟩
    · simp [restoredField, hb, restoreField_base]
    · simp [restoredField, hb, restoreField_isExpanded, hk.1]
    · intro ho
      rcases hk.2 with h | h
      · rw [ho] at h; cases h
      · simpa [restoredField, hb] using h

theorem integrity_none {v : Value} {bt : Nat} (h : (integrity v bt).isNone = true) :
    align v bt = true ∧ utf8Valid v = true ∧ size v ≤ 255 := by
  unfold integrity at h
  split at h
  · simp at h
  · rename_i h1
    split at h
    · simp at h
    · rename_i h2
      split at h
      · simp at h
      · rename_i h3
        exact ⟨by simpa using h1, by simpa using h2, by omega⟩

/-! ### protocol validator -/

theorem protoFields_ok (fs : List Field) (u : Unit) (h : protoFields fs = .ok u) :
    fs.all fieldAllowed = true ∧ ∀ g ∈ fs, ∀ b, g.base = some b → afterV1 b.baseType = false := by
  induction fs with
  | nil => exact ⟨rfl, fun g hg => by cases hg⟩
  | cons x xs ih =>
    simp only [protoFields] at h
    cases hb : x.base with
    | none =>
      simp only [hb] at h
      obtain ⟨h1, h2⟩ := ih h
      refine ⟨by simp [List.all_cons, fieldAllowed, hb, h1], ?_⟩
      intro g hg b' hgb
      rcases List.mem_cons.mp hg with rfl | hg'
      · rw [hb] at hgb; cases hgb
      · exact h2 g hg' b' hgb
    | some b =>
      simp only [hb] at h
      split at h
      · cases h
      · rename_i ha
        have ha' : afterV1 b.baseType = false := by simpa using ha
        obtain ⟨h1, h2⟩ := ih h
        refine ⟨by simp [List.all_cons, fieldAllowed, hb, ha', h1], ?_⟩
        intro g hg b' hgb
        rcases List.mem_cons.mp hg with rfl | hg'
        · rw [hb] at hgb; cases hgb; exact ha'
        · exact h2 g hg' b' hgb

theorem protoFields_not_err (fs : List Field) (h : fs.all fieldAllowed = true) : ∀ e, protoFields fs ≠ .err e := by
  induction fs with
  | nil => intro e hc; cases hc
  | cons x xs ih =>
    intro e
    simp only [List.all_cons, Bool.and_eq_true] at h
    simp only [protoFields]
    cases hb : x.base with
    | none => exact ih h.2 e
    | some b =>
      have : afterV1 b.baseType = false := by simpa [fieldAllowed, hb] using h.1
      simp only [this, Bool.false_eq_true, ↓reduceIte]
      exact ih h.2 e

theorem protoFields_not_panic (fs : List Field) : protoFields fs ≠ .panic := by
  induction fs with
  | nil => intro hc; cases hc
  | cons x xs ih =>
    simp only [protoFields]
    cases hb : x.base with
    | none => exact ih
    | some b =>
      simp only
      split
      · intro hc; cases hc
      · exact ih

theorem protoValidate_ok (ver : Nat) (m : Message) (u : Unit) (h : protoValidate ver m = .ok u) :
    protoOk ver m = true ∧
    (ver = protoV1 → m.devFields = [] ∧ ∀ g ∈ m.fields, ∀ b, g.base = some b → afterV1 b.baseType = false) := by
  unfold protoValidate at h
  split at h
  · rename_i hv
    split at h
    · cases h
    · rename_i hde
      have hnil : m.devFields = [] := by simpa [List.isEmpty_iff] using hde
      obtain ⟨h1, h2⟩ := protoFields_ok m.fields u h
      exact ⟨by simp [protoOk, hv, hnil, h1], fun _ => ⟨hnil, h2⟩⟩
  · rename_i hv
    exact ⟨by simp [protoOk, hv], fun hc => absurd hc hv⟩

theorem protoOk_not_err (ver : Nat) (m : Message) (h : protoOk ver m = true) : ∀ e, protoValidate ver m ≠ .err e := by
  intro e
  unfold protoValidate
  split
  · rename_i hv
    simp only [protoOk, hv, bne_self_eq_false, Bool.false_or, Bool.and_eq_true] at h
    simp only [h.1, Bool.not_true, Bool.false_eq_true, ↓reduceIte]
    exact protoFields_not_err m.fields h.2 e
  · intro hc; cases hc

theorem protoValidate_not_panic (ver : Nat) (m : Message) : protoValidate ver m ≠ .panic := by
  unfold protoValidate
  split
  · split
    · intro hc; cases hc
    · exact protoFields_not_panic m.fields
  · intro hc; cases hc

/-! ### monotonicity of the validator state, a list lemma -/

theorem remember_lookup (st : State) (n : Nat) (fs : List Field) (d : DevField) (fd : FieldDesc)
    (h : lookupFd st.fds d = some fd) : lookupFd (remember st n fs).fds d = some fd := by
  unfold remember
  split
  · exact h
  · split
    · simp only [lookupFd, List.find?_append] at h ⊢
      simp [h]
    · exact h

theorem remember_contains (st : State) (n : Nat) (fs : List Field) (x : Nat)
    (h : st.ddis.contains x = true) : (remember st n fs).ddis.contains x = true := by
  unfold remember
  split
  · simp only [List.contains_iff_mem, List.mem_append] at h ⊢
    exact Or.inl h
  · split <;> exact h

theorem filter_map_id {α : Type} (l : List α) (p : α → Bool) (g : α → α)
    (h : ∀ x ∈ l, p x = true ∧ g x = x) : (l.filter p).map g = l := by
  induction l with
  | nil => rfl
  | cons x xs ih =>
    have hx := h x (by simp)
    simp only [List.filter_cons, hx.1, ↓reduceIte, List.map_cons, hx.2]
    rw [ih (fun y hy => h y (List.mem_cons_of_mem _ hy))]
end Fit.Validator
