import FitProps.ActivityLemmas
/-! The combiner's accumulator (C20): the invariant that makes the closed form `out = in + Σ last values of the
earlier files` a theorem about the model. Core Lean only. -/
set_option linter.unusedSimpArgs false
set_option linter.unusedVariables false
namespace Fit.Activity
open Fit.Value Fit.Msg Fit.Gen Fit.Gen.Tool

/-! ### wrapping sums commute and associate -/

theorem addW_comm (w a b : Nat) : addW w a b = addW w b a := by unfold addW; rw [Nat.add_comm]

theorem addW_assoc (w a b c : Nat) : addW w a (addW w b c) = addW w (addW w a b) c := by
  unfold addW
  rw [Nat.add_mod_mod, Nat.mod_add_mod, Nat.add_assoc]

theorem sumSlice_nil_right (w : Nat) (xs : List Nat) : sumSlice w xs [] = xs := by cases xs <;> rfl
theorem sumSlice_nil_left (w : Nat) (ys : List Nat) : sumSlice w [] ys = ys := by cases ys <;> rfl

theorem sumSlice_comm (w : Nat) : ∀ xs ys : List Nat, sumSlice w xs ys = sumSlice w ys xs
  | [], ys => by rw [sumSlice_nil_left, sumSlice_nil_right]
  | x :: xs, [] => rfl
  | x :: xs, y :: ys => by simp only [sumSlice, addW_comm w x y, sumSlice_comm w xs ys]

theorem sumSlice_assoc (w : Nat) : ∀ a b c : List Nat, sumSlice w a (sumSlice w b c) = sumSlice w (sumSlice w a b) c
  | [], b, c => by simp only [sumSlice_nil_left]
  | x :: xs, [], c => by simp only [sumSlice_nil_left, sumSlice_nil_right]
  | x :: xs, y :: ys, [] => by simp only [sumSlice_nil_right]
  | x :: xs, y :: ys, z :: zs => by simp only [sumSlice, addW_assoc, sumSlice_assoc w xs ys zs]

/-- `v + (l + V) = (v + V) + l` -/
theorem addW_rot (w v l V : Nat) : addW w v (addW w l V) = addW w (addW w v V) l := by
  rw [addW_comm w l V, addW_assoc]

theorem sumSlice_rot (w : Nat) (v l V : List Nat) : sumSlice w v (sumSlice w l V) = sumSlice w (sumSlice w v V) l := by
  rw [sumSlice_comm w l V, sumSlice_assoc]

/-- the accumulator's carried value can be split: adding `W = l + V` is adding `V`, then `l` -/
theorem sumValue_rot {l V W : Value} (h : sumValue l V = some W) (v : Value) :
    sumValue v W = (sumValue v V).bind (fun x => sumValue x l) := by
  unfold sumValue at h
  split at h <;> first
    | (cases h; cases v <;> first | rfl | simp [sumValue, addW_rot, sumSlice_rot])
    | cases h

theorem sumValue_ne_invalid {a b c : Value} (h : sumValue a b = some c) : c ≠ .invalid := by
  unfold sumValue at h
  split at h <;> first
    | (cases h; intro hc; cases hc)
    | cases h

/-! ### the accumulator seen as a map from (message number, field number) to (value, last) -/

def view (a : Acc) (mn fn : Nat) : Option (Value × Value) :=
  (a.find? (accMatch mn fn)).map fun e => (e.value, e.last)

theorem accMatch_entry (mn fn mn' fn' : Nat) (V L : Value) :
    accMatch mn' fn' ⟨mn, fn, V, L⟩ = decide (mn = mn' ∧ fn = fn') := by
  simp only [accMatch]
  by_cases h1 : mn = mn' <;> by_cases h2 : fn = fn' <;> simp [h1, h2]

theorem view_append_new {a : Acc} {mn fn : Nat} (h : a.find? (accMatch mn fn) = none) (V L : Value) (mn' fn' : Nat) :
    view (a ++ [⟨mn, fn, V, L⟩]) mn' fn' = if mn' = mn ∧ fn' = fn then some (V, L) else view a mn' fn' := by
  unfold view
  rw [List.find?_append]
  by_cases hk : mn' = mn ∧ fn' = fn
  · obtain ⟨rfl, rfl⟩ := hk
    simp [h, accMatch]
  · rw [if_neg hk]
    have : [(⟨mn, fn, V, L⟩ : AccEntry)].find? (accMatch mn' fn') = none := by
      simp only [List.find?_cons, List.find?_nil, accMatch_entry]
      have : ¬ (mn = mn' ∧ fn = fn') := fun ⟨a, b⟩ => hk ⟨a.symm, b.symm⟩
      simp [this]
    rw [this]; simp

theorem view_collect (a : Acc) (mn fn : Nat) (v : Value) (mn' fn' : Nat) :
    view (collect a mn fn v) mn' fn' = if mn' = mn ∧ fn' = fn then some (v, v) else view a mn' fn' := by
  unfold collect
  split
  · rename_i hany
    unfold view
    rw [List.find?_map]
    have hcomp : (accMatch mn' fn' ∘ fun e => if accMatch mn fn e = true then { e with value := v, last := v } else e) = accMatch mn' fn' := by
      funext e
      simp only [Function.comp]
      split <;> rfl
    rw [hcomp]
    by_cases hk : mn' = mn ∧ fn' = fn
    · obtain ⟨rfl, rfl⟩ := hk
      obtain ⟨e, he, hm⟩ := List.any_eq_true.mp hany
      cases hf : a.find? (accMatch mn' fn') with
      | none =>
        have := List.find?_eq_none.mp hf e he
        exact absurd hm this
      | some e' =>
        have hm' : accMatch mn' fn' e' = true := List.find?_some hf
        simp [hm']
    · rw [if_neg hk]
      cases hf : a.find? (accMatch mn' fn') with
      | none => rfl
      | some e' =>
        have hm' : accMatch mn' fn' e' = true := List.find?_some hf
        have : accMatch mn fn e' = false := by
          simp only [accMatch, Bool.and_eq_true, beq_iff_eq] at hm'
          simp only [accMatch, Bool.and_eq_false_iff, beq_eq_false_iff_ne]
          by_cases h1 : e'.mesgNum = mn
          · right; intro h2; exact hk ⟨by rw [← hm'.1, h1], by rw [← hm'.2, h2]⟩
          · left; exact h1
        simp [this]
  · rename_i hany
    have : a.find? (accMatch mn fn) = none := by
      rw [List.find?_eq_none]
      intro x hx hm
      exact hany (List.any_eq_true.mpr ⟨x, hx, hm⟩)
    exact view_append_new this v v mn' fn'

theorem find?_upd (mn fn : Nat) (s : Value) (mn' fn' : Nat) : ∀ a : Acc,
    (accumulate.upd mn fn s a).find? (accMatch mn' fn') =
      if mn' = mn ∧ fn' = fn then (a.find? (accMatch mn fn)).map (fun e => { e with last := s })
      else a.find? (accMatch mn' fn')
  | [] => by simp [accumulate.upd]
  | x :: xs => by
    simp only [accumulate.upd]
    by_cases hk : mn' = mn ∧ fn' = fn
    · obtain ⟨rfl, rfl⟩ := hk
      simp only [and_self, ↓reduceIte]
      cases hx : accMatch mn' fn' x
      · have ih := find?_upd mn' fn' s mn' fn' xs
        simp only [and_self, ↓reduceIte] at ih
        simp [hx, ih]
      · have : accMatch mn' fn' { x with last := s } = true := hx
        simp [hx, this]
    · rw [if_neg hk]
      have ih := find?_upd mn fn s mn' fn' xs
      rw [if_neg hk] at ih
      cases hx : accMatch mn fn x
      · simp only [Bool.false_eq_true, ↓reduceIte, List.find?_cons, ih]
      · simp only [↓reduceIte, List.find?_cons]
        have h1 : accMatch mn' fn' x = false := by
          simp only [accMatch, Bool.and_eq_true, beq_iff_eq] at hx
          simp only [accMatch, Bool.and_eq_false_iff, beq_eq_false_iff_ne]
          by_cases h1 : x.mesgNum = mn'
          · right; intro h2; exact hk ⟨by rw [← h1, hx.1], by rw [← h2, hx.2]⟩
          · left; exact h1
        have h2 : accMatch mn' fn' { x with last := s } = false := h1
        simp [h1, h2]

theorem view_seq (a : Acc) (mn fn : Nat) : view (sequenceCompleted a) mn fn = (view a mn fn).map fun p => (p.2, p.2) := by
  unfold view sequenceCompleted
  rw [List.find?_map]
  have : (accMatch mn fn ∘ fun e : AccEntry => { e with value := e.last }) = accMatch mn fn := by funext e; rfl
  rw [this]
  cases a.find? (accMatch mn fn) <;> rfl

/-- what `Accumulate` does, on views -/
theorem accumulate_spec {a a' : Acc} {mn fn : Nat} {v s : Value} (h : accumulate a mn fn v = some (a', s)) :
    (view a mn fn = none ∧ s = v ∧
      ∀ mn' fn', view a' mn' fn' = if mn' = mn ∧ fn' = fn then some (.invalid, v) else view a mn' fn') ∨
    (∃ V L, view a mn fn = some (V, L) ∧ (if V = .invalid then some v else sumValue v V) = some s ∧
      ∀ mn' fn', view a' mn' fn' = if mn' = mn ∧ fn' = fn then some (V, s) else view a mn' fn') := by
  unfold accumulate at h
  split at h
  · rename_i e he
    right
    split at h
    · rename_i s' hs
      cases h
      refine ⟨e.value, e.last, by simp [view, he], ?_, ?_⟩
      · simpa using hs
      · intro mn' fn'
        unfold view
        rw [find?_upd]
        split
        · simp [he]
        · rfl
    · cases h
  · rename_i hn
    left
    cases h
    exact ⟨by simp [view, hn], rfl, fun mn' fn' => view_append_new hn _ _ mn' fn'⟩

/-! ### the closed form, as a fold over the earlier files -/

/-- one step of the fold of `continueAcc` -/
def contStep (mn fn : Nat) (acc : Option Value) (file : List Message) : Option Value :=
  match acc, lastIn mn fn file with
  | some v, some l => sumValue v l
  | some v, none => some v
  | none, _ => none

/-- `v` plus the last values of the key in the earlier files that have it -/
def cont (earlier : List (List Message)) (mn fn : Nat) (v : Value) : Option Value :=
  earlier.foldl (contStep mn fn) (some v)

theorem continueAcc_eq (earlier : List (List Message)) (mn : Nat) (f : Field) :
    continueAcc earlier mn f =
      if accumulable f then (cont earlier mn (fieldNumOf f) f.value).map fun v => { f with value := v } else some f := by
  unfold continueAcc cont
  cases hacc : accumulable f
  · simp
  · simp only [Bool.not_true, Bool.false_eq_true, ↓reduceIte]
    congr 2

/-- no earlier file has the key -/
def NoEarlier (earlier : List (List Message)) (mn fn : Nat) : Prop := ∀ file ∈ earlier, lastIn mn fn file = none

theorem cont_noEarlier : ∀ (earlier : List (List Message)) (mn fn : Nat) (v : Value),
    NoEarlier earlier mn fn → cont earlier mn fn v = some v
  | [], _, _, _, _ => rfl
  | file :: rest, mn, fn, v, h => by
    unfold cont
    simp only [List.foldl_cons]
    have h0 : lastIn mn fn file = none := h file (List.mem_cons_self ..)
    have : contStep mn fn (some v) file = some v := by simp [contStep, h0]
    rw [this]
    exact cont_noEarlier rest mn fn v (fun f hf => h f (List.mem_cons_of_mem _ hf))

theorem cont_snoc (earlier : List (List Message)) (file : List Message) (mn fn : Nat) (v : Value) :
    cont (earlier ++ [file]) mn fn v = contStep mn fn (cont earlier mn fn v) file := by
  unfold cont; rw [List.foldl_append]; rfl

/-- the valid accumulable values of key (`mn`, `fn`) among the fields `fs` of a message numbered `mn'` -/
def occF (mn fn mn' : Nat) (fs : List Field) : List Value :=
  if mn' == mn then (fs.filter fun f => accumulable f && fieldNumOf f == fn).map (·.value) else []

def occMs (mn fn : Nat) (ms : List Message) : List Value := ms.flatMap fun m => occF mn fn m.num m.fields

theorem lastIn_eq (mn fn : Nat) (file : List Message) : lastIn mn fn file = (occMs mn fn file).getLast? := by
  unfold lastIn occMs
  congr 1
  induction file with
  | nil => rfl
  | cons m ms ih =>
    simp only [List.filter_cons, List.flatMap_cons]
    cases hm : m.num == mn
    · simp only [Bool.false_eq_true, ↓reduceIte, ih, occF, hm, List.nil_append]
    · simp only [↓reduceIte, List.flatMap_cons, ih, occF, hm]

theorem accumulable_ne_invalid {f : Field} (h : accumulable f = true) : f.value ≠ .invalid := by
  unfold accumulable at h
  cases hb : f.base with
  | none => simp [hb] at h
  | some b =>
    simp only [hb, Bool.and_eq_true] at h
    intro hv
    rw [hv] at h
    simp [valid] at h

theorem occF_ne_invalid {mn fn mn' : Nat} {fs : List Field} {x : Value} (h : x ∈ occF mn fn mn' fs) : x ≠ .invalid := by
  unfold occF at h
  split at h
  · simp only [List.mem_map, List.mem_filter, Bool.and_eq_true] at h
    obtain ⟨f, ⟨_, hacc, _⟩, rfl⟩ := h
    exact accumulable_ne_invalid hacc
  · cases h

theorem occMs_ne_invalid {mn fn : Nat} {ms : List Message} {x : Value} (h : x ∈ occMs mn fn ms) : x ≠ .invalid := by
  unfold occMs at h
  simp only [List.mem_flatMap] at h
  obtain ⟨m, _, hx⟩ := h
  exact occF_ne_invalid hx

/-! ### the invariants -/

/-- between two files: every key seen so far has an entry whose `value` (= `last`) stands for the sum of the last
values of the key in the earlier files, in the sense that adding it is the fold of the closed form -/
def Inv (earlier : List (List Message)) (a : Acc) : Prop :=
  ∀ mn fn, (view a mn fn = none → NoEarlier earlier mn fn) ∧
    (∀ V L, view a mn fn = some (V, L) → V = L ∧ V ≠ .invalid ∧ ∀ v, sumValue v V = cont earlier mn fn v)

/-- inside a file, `o mn fn` being the values of the key met so far -/
def WInv (earlier : List (List Message)) (o : Nat → Nat → List Value) (a : Acc) : Prop :=
  ∀ mn fn,
    (view a mn fn = none → NoEarlier earlier mn fn ∧ o mn fn = []) ∧
    (∀ V L, view a mn fn = some (V, L) →
      (V = .invalid → NoEarlier earlier mn fn ∧ (o mn fn).getLast? = some L ∧ L ≠ .invalid) ∧
      (V ≠ .invalid → (∀ v, sumValue v V = cont earlier mn fn v) ∧ ((o mn fn).getLast? = none → L = V) ∧
        (∀ l, (o mn fn).getLast? = some l → sumValue l V = some L)))

theorem WInv_congr {earlier : List (List Message)} {o o' : Nat → Nat → List Value} {a : Acc}
    (h : ∀ mn fn, o mn fn = o' mn fn) (hW : WInv earlier o a) : WInv earlier o' a := by
  have : o = o' := by funext mn fn; exact h mn fn
  rw [← this]; exact hW

theorem Inv.toW {earlier : List (List Message)} {a : Acc} (h : Inv earlier a) : WInv earlier (fun _ _ => []) a := by
  intro mn fn
  obtain ⟨h1, h2⟩ := h mn fn
  refine ⟨fun hn => ⟨h1 hn, rfl⟩, fun V L hv => ?_⟩
  obtain ⟨e, hne, hs⟩ := h2 V L hv
  refine ⟨fun hi => absurd hi hne, fun _ => ⟨hs, fun _ => e.symm, fun l hl => by simp at hl⟩⟩

/-- one accumulable field -/
theorem step_field {earlier : List (List Message)} {o : Nat → Nat → List Value} {a a' : Acc} {mn : Nat} {f : Field} {s : Value}
    (hW : WInv earlier o a) (hacc : accumulable f = true)
    (h : accumulate a mn (fieldNumOf f) f.value = some (a', s)) :
    cont earlier mn (fieldNumOf f) f.value = some s ∧
    WInv earlier (fun mn' fn' => o mn' fn' ++ (if mn' = mn ∧ fn' = fieldNumOf f then [f.value] else [])) a' := by
  have hvne := accumulable_ne_invalid hacc
  rcases accumulate_spec h with ⟨hv, hs, hview⟩ | ⟨V, L, hv, hs, hview⟩
  · obtain ⟨hne, ho⟩ := (hW mn (fieldNumOf f)).1 hv
    subst hs
    refine ⟨cont_noEarlier _ _ _ _ hne, fun mn' fn' => ?_⟩
    rw [hview mn' fn']
    by_cases hk : mn' = mn ∧ fn' = fieldNumOf f
    · obtain ⟨rfl, rfl⟩ := hk
      simp only [and_self, ↓reduceIte]
      refine ⟨fun h => (by cases h), fun V L hvl => ?_⟩
      cases hvl
      exact ⟨fun _ => ⟨hne, by simp, hvne⟩, fun h => absurd rfl h⟩
    · simp only [hk, ↓reduceIte, List.append_nil]
      exact hW mn' fn'
  · obtain ⟨hA, hB⟩ := (hW mn (fieldNumOf f)).2 V L hv
    by_cases hVi : V = .invalid
    · obtain ⟨hne, ho, hL⟩ := hA hVi
      rw [if_pos hVi] at hs
      cases hs
      refine ⟨cont_noEarlier _ _ _ _ hne, fun mn' fn' => ?_⟩
      rw [hview mn' fn']
      by_cases hk : mn' = mn ∧ fn' = fieldNumOf f
      · obtain ⟨rfl, rfl⟩ := hk
        simp only [and_self, ↓reduceIte]
        refine ⟨fun h => (by cases h), fun V' L' hvl => ?_⟩
        cases hvl
        exact ⟨fun _ => ⟨hne, by simp, hvne⟩, fun h => absurd hVi h⟩
      · simp only [hk, ↓reduceIte, List.append_nil]
        exact hW mn' fn'
    · obtain ⟨hc, _, _⟩ := hB hVi
      rw [if_neg hVi] at hs
      refine ⟨by rw [← hc]; exact hs, fun mn' fn' => ?_⟩
      rw [hview mn' fn']
      by_cases hk : mn' = mn ∧ fn' = fieldNumOf f
      · obtain ⟨rfl, rfl⟩ := hk
        simp only [and_self, ↓reduceIte]
        refine ⟨fun h => (by cases h), fun V' L' hvl => ?_⟩
        cases hvl
        refine ⟨fun h => absurd h hVi, fun _ => ⟨hc, fun h => by simp at h, fun l hl => ?_⟩⟩
        simp at hl
        rw [← hl]; exact hs
      · simp only [hk, ↓reduceIte, List.append_nil]
        exact hW mn' fn'

theorem mapM_cons_opt {α β : Type} (g : α → Option β) (x : α) (xs : List α) :
    (x :: xs).mapM g = (g x).bind fun y => (xs.mapM g).bind fun ys => some (y :: ys) := by
  rw [List.mapM_cons]; rfl

theorem occF_cons (mn fn mn' : Nat) (f : Field) (fs : List Field) :
    occF mn fn mn' (f :: fs) =
      (if mn = mn' ∧ accumulable f = true ∧ fn = fieldNumOf f then [f.value] else []) ++ occF mn fn mn' fs := by
  unfold occF
  by_cases h1 : mn' = mn
  · subst h1
    by_cases h2 : accumulable f = true
    · by_cases h3 : fieldNumOf f = fn
      · subst h3; simp [List.filter_cons, h2]
      · have : ¬ fn = fieldNumOf f := fun e => h3 e.symm
        simp [List.filter_cons, h2, h3, this]
    · simp [List.filter_cons, h2]
  · have : ¬ mn = mn' := fun e => h1 e.symm
    simp [h1, this]

/-- the fields of one message -/
theorem accFields_spec (earlier : List (List Message)) (mn : Nat) : ∀ (fs : List Field) (o : Nat → Nat → List Value)
    (a a' : Acc) (fs' : List Field), WInv earlier o a → accFields mn a fs = some (a', fs') →
    fs.mapM (continueAcc earlier mn) = some fs' ∧ WInv earlier (fun mn' fn' => o mn' fn' ++ occF mn' fn' mn fs) a'
  | [], o, a, a', fs', hW, h => by
    simp only [accFields] at h; cases h
    exact ⟨rfl, WInv_congr (fun mn' fn' => by simp [occF]) hW⟩
  | f :: fs, o, a, a', fs', hW, h => by
    simp only [accFields] at h
    rw [mapM_cons_opt, continueAcc_eq]
    split at h
    · rename_i hacc
      split at h
      · rename_i a1 v hv
        split at h
        · rename_i a2 fs2 h2
          cases h
          obtain ⟨hc, hW1⟩ := step_field hW hacc hv
          obtain ⟨hm, hW2⟩ := accFields_spec earlier mn fs _ a1 a' fs2 hW1 h2
          refine ⟨by simp [hacc, hc, hm], WInv_congr (fun mn' fn' => ?_) hW2⟩
          rw [occF_cons, List.append_assoc]
          congr 1
          by_cases hk : mn' = mn ∧ fn' = fieldNumOf f
          · simp [hk, hacc]
          · have : ¬ (mn' = mn ∧ accumulable f = true ∧ fn' = fieldNumOf f) := fun ⟨x, _, y⟩ => hk ⟨x, y⟩
            simp [hk, this]
        · cases h
      · cases h
    · rename_i hacc
      split at h
      · rename_i a2 fs2 h2
        cases h
        obtain ⟨hm, hW2⟩ := accFields_spec earlier mn fs o a a' fs2 hW h2
        refine ⟨by simp [hacc, hm], WInv_congr (fun mn' fn' => ?_) hW2⟩
        rw [occF_cons]
        have : ¬ (mn' = mn ∧ accumulable f = true ∧ fn' = fieldNumOf f) := fun ⟨_, x, _⟩ => hacc x
        simp [this]
      · cases h

/-- a message of a later file as `expectedBody` continues it -/
def msgCont (earlier : List (List Message)) (m : Message) : Option Message :=
  (m.fields.mapM (continueAcc earlier m.num)).map fun fs => { m with fields := fs }

/-- the messages of one later file -/
theorem accMesgs_spec (earlier : List (List Message)) : ∀ (ms : List Message) (o : Nat → Nat → List Value)
    (a a' : Acc) (out : List Message), WInv earlier o a → accMesgs a ms = some (a', out) →
    (ms.filter notFid).mapM (msgCont earlier) = some out ∧
      WInv earlier (fun mn fn => o mn fn ++ occMs mn fn (ms.filter notFid)) a'
  | [], o, a, a', out, hW, h => by
    simp only [accMesgs] at h; cases h
    exact ⟨rfl, WInv_congr (fun mn fn => by simp [occMs]) hW⟩
  | m :: ms, o, a, a', out, hW, h => by
    simp only [accMesgs] at h
    split at h
    · rename_i hf
      have : notFid m = false := by simp [notFid, hf]
      simp only [List.filter_cons, this, Bool.false_eq_true, ↓reduceIte]
      exact accMesgs_spec earlier ms o a a' out hW h
    · rename_i hf
      have hn : notFid m = true := by simp only [notFid]; simpa using hf
      split at h
      · rename_i a1 fs1 h1
        split at h
        · rename_i a2 out2 h2
          cases h
          obtain ⟨hm, hW1⟩ := accFields_spec earlier m.num m.fields o a a1 fs1 hW h1
          obtain ⟨hms, hW2⟩ := accMesgs_spec earlier ms _ a1 a' out2 hW1 h2
          simp only [List.filter_cons, hn, ↓reduceIte]
          refine ⟨?_, WInv_congr (fun mn fn => ?_) hW2⟩
          · rw [mapM_cons_opt]
            simp [msgCont, hm, hms]
          · simp [occMs, List.flatMap_cons, List.append_assoc]
        · cases h
      · cases h

/-- a file is completed -/
theorem inv_next {earlier : List (List Message)} {file : List Message} {a : Acc}
    (hW : WInv earlier (fun mn fn => occMs mn fn file) a) : Inv (earlier ++ [file]) (sequenceCompleted a) := by
  intro mn fn
  rw [view_seq]
  obtain ⟨h1, h2⟩ := hW mn fn
  have hsn : ∀ v, NoEarlier earlier mn fn → cont (earlier ++ [file]) mn fn v = contStep mn fn (some v) file := by
    intro v hne; rw [cont_snoc, cont_noEarlier _ _ _ _ hne]
  cases hv : view a mn fn with
  | none =>
    obtain ⟨hne, ho⟩ := h1 hv
    refine ⟨fun _ file' hf => ?_, fun V L h => by cases h⟩
    rcases List.mem_append.mp hf with hf | hf
    · exact hne file' hf
    · simp only [List.mem_singleton] at hf
      subst hf
      rw [lastIn_eq]; simp only at ho; rw [ho]; rfl
  | some p =>
    obtain ⟨V, L⟩ := p
    refine ⟨fun h => (by cases h), fun V' L' h => ?_⟩
    simp only [Option.map_some, Option.some.injEq, Prod.mk.injEq] at h
    obtain ⟨rfl, rfl⟩ := h
    obtain ⟨hA, hB⟩ := h2 V L hv
    by_cases hVi : V = .invalid
    · obtain ⟨hne, ho, hL⟩ := hA hVi
      refine ⟨rfl, hL, fun v => ?_⟩
      rw [hsn v hne]
      have : lastIn mn fn file = some L := by rw [lastIn_eq]; exact ho
      simp [contStep, this]
    · obtain ⟨hc, hn, hs⟩ := hB hVi
      cases ho : (occMs mn fn file).getLast? with
      | none =>
        have e := hn ho
        refine ⟨rfl, by rw [e]; exact hVi, fun v => ?_⟩
        rw [cont_snoc, e, hc v]
        have : lastIn mn fn file = none := by rw [lastIn_eq]; exact ho
        unfold contStep
        rw [this]
        cases cont earlier mn fn v <;> rfl
      | some l =>
        have e := hs l ho
        refine ⟨rfl, sumValue_ne_invalid e, fun v => ?_⟩
        rw [cont_snoc, sumValue_rot e v, hc v]
        have : lastIn mn fn file = some l := by rw [lastIn_eq]; exact ho
        unfold contStep
        rw [this]
        cases cont earlier mn fn v <;> rfl

/-- the later files, one after the other -/
theorem combineBody_spec : ∀ (files : List (List Message)) (earlier : List (List Message)) (a : Acc) (tail : List Message),
    Inv earlier a → combineBody a files = some tail →
    expectedBody.go earlier (files.map (·.filter notFid)) = some tail
  | [], _, _, tail, _, h => by
    simp only [combineBody] at h; cases h
    simp [expectedBody.go]
  | f :: fs, earlier, a, tail, hI, h => by
    simp only [combineBody] at h
    split at h
    · rename_i a1 out h1
      split at h
      · rename_i rest h2
        cases h
        obtain ⟨hm, hW⟩ := accMesgs_spec earlier f _ a a1 out hI.toW h1
        have hI' : Inv (earlier ++ [f.filter notFid]) (sequenceCompleted a1) :=
          inv_next (WInv_congr (fun mn fn => by simp) hW)
        have ih := combineBody_spec fs _ _ rest hI' h2
        simp only [List.map_cons, expectedBody.go]
        have hm' : (f.filter notFid).mapM (fun m => (m.fields.mapM (continueAcc earlier m.num)).map fun fs => { m with fields := fs }) = some out := hm
        rw [hm', ih]
      · cases h
    · cases h

/-! ### the first file -/

theorem view_collectFields (mn' : Nat) (mn fn : Nat) : ∀ (fs : List Field) (a : Acc),
    view (fs.foldl (fun a f => if accumulable f then collect a mn' (fieldNumOf f) f.value else a) a) mn fn =
      match (occF mn fn mn' fs).getLast? with
      | some l => some (l, l)
      | none => view a mn fn
  | [], a => by simp [occF]
  | f :: fs, a => by
    simp only [List.foldl_cons]
    rw [view_collectFields mn' mn fn fs, occF_cons, List.getLast?_append]
    cases hl : (occF mn fn mn' fs).getLast? with
    | some l => simp
    | none =>
      simp only [Option.none_or]
      by_cases hk : mn = mn' ∧ accumulable f = true ∧ fn = fieldNumOf f
      · obtain ⟨rfl, hacc, rfl⟩ := hk
        simp [hacc, view_collect]
      · simp only [hk, ↓reduceIte, List.getLast?_nil]
        cases hacc : accumulable f
        · simp
        · simp only [↓reduceIte, view_collect]
          have : ¬ (mn = mn' ∧ fn = fieldNumOf f) := fun ⟨x, y⟩ => hk ⟨x, hacc, y⟩
          simp [this]

theorem view_collectMesgs (mn fn : Nat) : ∀ (ms : List Message) (a : Acc),
    view (collectMesgs a ms) mn fn =
      match (occMs mn fn ms).getLast? with
      | some l => some (l, l)
      | none => view a mn fn
  | [], a => by simp [collectMesgs, occMs]
  | m :: ms, a => by
    have e : collectMesgs a (m :: ms) =
        collectMesgs (m.fields.foldl (fun a f => if accumulable f then collect a m.num (fieldNumOf f) f.value else a) a) ms := by
      simp [collectMesgs]
    rw [e, view_collectMesgs mn fn ms]
    have e2 : occMs mn fn (m :: ms) = occF mn fn m.num m.fields ++ occMs mn fn ms := by simp [occMs]
    rw [e2, List.getLast?_append]
    cases hl : (occMs mn fn ms).getLast? with
    | some l => simp
    | none => simp only [Option.none_or]; exact view_collectFields m.num mn fn m.fields a

theorem inv_init (b0 : List Message) : Inv [b0] (collectMesgs [] b0) := by
  intro mn fn
  rw [view_collectMesgs]
  cases hl : (occMs mn fn b0).getLast? with
  | none =>
    refine ⟨fun _ file hf => ?_, fun V L h => by simp [view] at h⟩
    simp only [List.mem_singleton] at hf
    subst hf
    rw [lastIn_eq]; exact hl
  | some l =>
    refine ⟨fun h => (by cases h), fun V L h => ?_⟩
    simp only [Option.some.injEq, Prod.mk.injEq] at h
    obtain ⟨rfl, rfl⟩ := h
    refine ⟨rfl, occMs_ne_invalid (List.mem_of_getLast? hl), fun v => ?_⟩
    have : lastIn mn fn b0 = some l := by rw [lastIn_eq]; exact hl
    simp [cont, contStep, this]

theorem continueAcc_nil (mn : Nat) (f : Field) : continueAcc [] mn f = some f := by
  rw [continueAcc_eq]
  split
  · simp [cont]
  · rfl

theorem mapM_some_id {α : Type} (g : α → Option α) (h : ∀ x, g x = some x) : ∀ xs : List α, xs.mapM g = some xs
  | [] => rfl
  | x :: xs => by rw [mapM_cons_opt, h x, mapM_some_id g h xs]; rfl

/-- **the accumulated quantities of a combined activity follow the closed form** -/
theorem combine_accumulate (fits : List (List Message)) (body : List Message) (tr : List Trailer)
    (h : combine fits = .ok body tr) : expectedBody fits = some body := by
  unfold combine at h
  simp only at h
  unfold expectedBody bodyInputs
  cases hs : sortByCreation (fits.filter (!·.isEmpty)) with
  | nil => simp [hs] at h
  | cons f0 rest =>
    simp only [hs] at h
    split at h
    · cases h
    · split at h
      · cases h
      · rename_i tail htail
        injection h with hb _
        subst hb
        have hgo := combineBody_spec _ [filterBody f0] _ tail (inv_init _) htail
        simp only [expectedBody.go]
        have h0 : (f0.filter fun m => !isTrailerNum m.num).mapM
            (fun m => (m.fields.mapM (continueAcc [] m.num)).map fun fs => { m with fields := fs }) =
            some (f0.filter fun m => !isTrailerNum m.num) := by
          apply mapM_some_id
          intro m
          rw [mapM_some_id _ (continueAcc_nil m.num)]
          rfl
        rw [h0]
        have hR : (rest.map fun f => f.filter fun m => !isTrailerNum m.num && !(m.num == mnFileId || m.num == mnFileCreator)) =
            (rest.map filterBody).map (·.filter notFid) := by
          rw [List.map_map]
          apply List.map_congr_left
          intro f _
          simp only [Function.comp, filterBody_eq, List.filter_filter]
          apply List.filter_congr
          intro x _
          simp [notFid, Bool.and_comm]
        rw [hR, List.nil_append, ← filterBody_eq, hgo]

end Fit.Activity
