import FitProps.C17Defs
/-! Kernel evaluations for `FitProps/C17.lean` (the statements and what they mean are documented there). -/
namespace Fit.C17.Lemmas
open Fit.ProfileSpec Fit.Gen Fit.C17

theorem fieldnum_ok :
    sortedPairs Untyped.fieldnum = sortedPairs (expectedFieldnum (Xlsx.mesgs.map (Mesg.fix f14))) := by
  decide +kernel

theorem mesgnum_ok :
    sortedPairs Untyped.mesgnum = sortedPairs (expectedMesgnum (Xlsx.types.map (TypeRow.fix f14))) ∧
    nodupNat (Untyped.mesgnum.map (fun p => normIdent p.1)) = true := by
  decide +kernel

theorem fieldnum_nodup : nodupNat (Untyped.fieldnum.map (fun p => normIdent p.1)) = true := by
  decide +kernel

end Fit.C17.Lemmas
