import FitProps.Go2LeanReadBuffer
/-!
# C08 — tie of the read buffer's index arithmetic to the source by translation

The cursor / length arithmetic of `readBuffer.ReadN` and `readBuffer.Reset` is translated from the CURRENT source of
decoder/readbuffer.go on every run (`FitModel/Generated/Go_readbuffer.lean`); the theorems below state, for all
arguments, that each translated piece is the corresponding piece of the model `Fit.ReadBuffer.RB.readN` / `RB.reset`
the theorems of C08 are about. (Exact statements with comments: FitProps/Go2LeanReadBuffer.lean.)

PROPERTY THEOREMS (audited by ./check): C08_go2lean_consts, C08_go2lean_remaining, C08_go2lean_cur, C08_go2lean_copy,
C08_go2lean_fill, C08_go2lean_refill, C08_go2lean_window, C08_go2lean_clamp, C08_go2lean_reset, C08_go2lean_readN_recomposed
(and C08_go2lean_oldsize in FitProps/C08CapGo2Lean.lean)
-/
namespace Fit.C08
open Fit.Go2Lean Fit.ReadBuffer Go.readbuffer

theorem C08_go2lean_consts : Go.readbuffer.reservedbuf = Fit.Gen.Reader.reservedbuf ∧
    Go.readbuffer.minReadBufferSize = Fit.Gen.Reader.minReadBufferSize ∧
    Go.readbuffer.maxReadBufferSize = Fit.ReadBuffer.maxReadBufferSize ∧
    Go.readbuffer.defaultReadBufferSize = Fit.Gen.Reader.defaultReadBufferSize := rb_consts

theorem C08_go2lean_remaining (cur last n : Nat) (h : cur ≤ last) (hl : last < 2^62) :
    (ReadN_remaining cur last).remaining = ((last - cur : Nat) : Int) ∧
    ReadN_needFill n (ReadN_remaining cur last).remaining = decide (last - cur < n) := rb_remaining cur last n h hl

theorem C08_go2lean_cur (rem : Nat) (hr : rem < 2^62) :
    let cur := if ReadN_hasTail rem then (ReadN_curTail ReadN_curInit.cur rem).cur else ReadN_curInit.cur
    (ReadN_hasTail rem = decide (rem ≠ 0)) ∧
    (rem ≤ Fit.Gen.Reader.reservedbuf → cur = ((if rem ≠ 0 then Fit.Gen.Reader.reservedbuf - rem else Fit.Gen.Reader.reservedbuf : Nat) : Int)) ∧
    ((ReadN_hasTail rem = true ∧ ReadN_copyDst cur < 0) ↔ (rem ≠ 0 ∧ Fit.Gen.Reader.reservedbuf < rem)) := rb_cur rem hr

theorem C08_go2lean_copy (cur last : Nat) (c : Int) (h : cur ≤ last) (hl : last < 2^62) :
    ReadN_copyDst c = c ∧ ReadN_copySrc last (ReadN_remaining cur last).remaining = (cur : Int) := rb_copy cur last c h hl

theorem C08_go2lean_fill (n rem : Nat) (h : rem < n) (hn : n < 2^62) :
    ReadN_fillLo = (Fit.Gen.Reader.reservedbuf : Int) ∧ ReadN_fillMin n rem = ((n - rem : Nat) : Int) := rb_fill n rem h hn

theorem C08_go2lean_refill (c0 l0 cur : Int) (nr : Nat) (h : nr < 2^62) :
    ReadN_refill c0 l0 cur nr = ⟨cur, ((Fit.Gen.Reader.reservedbuf + nr : Nat) : Int)⟩ := rb_refill c0 l0 cur nr h

theorem C08_go2lean_window (cur n : Nat) (hc : cur < 2^62) (hn : n < 2^62) :
    ReadN_winLo cur = (cur : Int) ∧ ReadN_winHi cur n = ((cur + n : Nat) : Int) ∧
    (ReadN_window cur n).b_cur = ((cur + n : Nat) : Int) := rb_window cur n hc hn

theorem C08_go2lean_clamp (size : Int) : (Reset_clamp size).size = (clampSize size : Int) := rb_clamp size

theorem C08_go2lean_reset (cap size : Nat) (hs : size < 2^62) :
    Reset_grow ((cap : Int) - (Go.readbuffer.reservedbuf : Int)) size = decide (cap < Fit.Gen.Reader.reservedbuf + size) ∧
    Reset_allocLen size = ((Fit.Gen.Reader.reservedbuf + size : Nat) : Int) ∧
    Reset_len size = ((Fit.Gen.Reader.reservedbuf + size : Nat) : Int) := rb_reset cap size hs

/-- `ReadN` re-assembled from the translated pieces in the order of the Go text (`Fit.Go2Lean.readNGo`: the translated runs,
conditions, slice bounds and arguments; from the model only `copy`, `io.ReadAtLeast`, the storing of its bytes and Go's
slice-bounds rule) IS the model's step function `RB.readN` — outcome, returned bytes, every cell, both cursors, the rest of
the reader's schedule — for every buffer state meeting the first three clauses of the model's invariant `Inv`, every
schedule and every request size -/
theorem C08_go2lean_readN_recomposed (b : RB) (n : Nat) (h1 : b.cur ≤ b.last) (h2 : b.last ≤ b.len) (h3 : b.len ≤ b.arr.length)
    (h4 : b.arr.length < 2^62) (hn : n < 2^62) : readNGo b n = b.readN n := rb_readN_recomposed b n h1 h2 h3 h4 hn

/-- non-vacuity: a fresh 4096-byte buffer over a two-chunk reader meets the hypotheses -/
example : let b := RB.fresh [⟨[1, 2, 3], none⟩, ⟨[4, 5], none⟩] 4096
    b.cur ≤ b.last ∧ b.last ≤ b.len ∧ b.len ≤ b.arr.length ∧ b.arr.length < 2^62 := by decide +kernel

end Fit.C08
