import FitModel.TimeAngle
import FitModel.Generated.Go_kitint
import FitModel.Generated.Go_kitangle
/-!
Search for a value on which the guards / constants translated from kit/datetime and kit/semicircles differ from the model
`Fit.TimeAngle`. Run by ./check when an agreement theorem of FitProps/Go2LeanKitInt.lean no longer checks.
-/
open Fit.TimeAngle Fit.F64 Fit.Gen

def probes : List Nat :=
  [0, 1, 2, 3599, 3600, 3601, 0x0FFFFFFF, 0x10000000, 0x7FFFFFFE, 0x7FFFFFFF, 0x80000000, 0x80000001, 0xFFFFFFFE, 0xFFFFFFFF]

def main : IO Unit := do
  for v in probes do
    let g := if Go.kitint.ToTime_isInvalid v then zeroTime else ⟨v, 0⟩
    if g != toTime v then IO.println s!"DIFF ToTime_isInvalid value={v} go-guard={Go.kitint.ToTime_isInvalid v} model-guard={decide (v = uint32Invalid)} op=-"
    let d := Go.kitangle.ToDegrees_isInvalid (IntTy.i32.toInt v)
    if d != decide (v = sint32Invalid) then
      IO.println s!"DIFF ToDegrees_isInvalid semicircles={IntTy.i32.toInt v} go-guard={d} model-guard={decide (v = sint32Invalid)} op=-"
    for w in probes do
      let t := Go.kitint.TzOffsetHoursFromUint32 v w
      let m : Int := (((v + 2 ^ 32 - w) % 2 ^ 32 / 3600 : Nat) : Int)
      if t != m then IO.println s!"DIFF TzOffsetHoursFromUint32 local={v} utc={w} go={t} model={m} op=-"
  if Go.kitangle.piRadians != 2 ^ 31 then IO.println s!"DIFF piRadians go={Go.kitangle.piRadians} model={2 ^ 31} op=-"
  IO.println "DONE"
