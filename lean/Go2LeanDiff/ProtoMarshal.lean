import FitModel.Wire
import FitModel.Generated.Go_protomarshal
import FitModel.Generated.Go_encodermesgdef
/-!
Search for a message / definition on which `MessageDefinition.MarshalAppend` and the header statements translated from
proto/proto_marshal.go and proto/proto.go differ from the wire model (`Fit.Wire.defBytes`). Run by ./check when an agreement
theorem of FitProps/Go2LeanProtoMarshal.lean (C01 part) no longer checks.
-/
open Go.protomarshal Fit.Wire

def hdrOf (m : WMsg) : Nat :=
  if m.devs.isEmpty then MesgDefinitionMask else (NewMessageDefinition_devHeader MesgDefinitionMask).mesgDef_Header

def defOf (arch : Nat) (m : WMsg) : MessageDefinition :=
  { Header := hdrOf m, Reserved := 0, Architecture := arch, MesgNum := m.num,
    FieldDefinitions := m.fields.map (fun f => ⟨f.num, f.data.length % 256, f.bt⟩),
    DeveloperFieldDefinitions := m.devs.map (fun d => ⟨d.num, d.data.length % 256, d.idx⟩) }

def fieldsOf (n : Nat) : List WField :=
  (List.range n).map (fun k => ⟨k % 256, if k % 2 = 0 then 2 else 0x84, 0, List.replicate (k % 3 + 1) (k % 256)⟩)
def devsOf (n : Nat) : List WDev := (List.range n).map (fun k => ⟨k % 256, k % 7, List.replicate (k % 4 + 1) 9⟩)

def showM (m : WMsg) : String := s!"num={m.num} fields={m.fields.length} devs={m.devs.length}"

/-- the definition as the encoder's translated blocks build it (over a dirty `e.mesgDef`) -/
def encDefOf (arch : Nat) (m : WMsg) : MessageDefinition :=
  let o := Go.encodermesgdef.newMessageDefinition_fixed 9 0xFF 0xABCD 7 arch m.num
  { defOf arch m with
    Header := if m.devs.isEmpty then o.e_mesgDef_Header else (Go.encodermesgdef.newMessageDefinition_devHeader o.e_mesgDef_Header).e_mesgDef_Header
    Reserved := o.e_mesgDef_Reserved, Architecture := o.e_mesgDef_Architecture, MesgNum := o.e_mesgDef_MesgNum }

/-- a plain record message (heart rate, cadence) and the operation of family rtw that encodes and decodes it -/
def m0 : WMsg := ⟨20, [⟨3, 2, 3, [0x46]⟩, ⟨4, 2, 3, [0x50]⟩], []⟩
def op0 (arch : Nat) : String := s!"rtw a={arch} h=0 l=0 pv=32 w=plain bs=0 H14.32.0.0 M20/3.2.3.46,4.2.3.50/"

def main : IO Unit := do
  let mut shown := 0
  for arch in [0, 1] do
    for (nm, d) in [("proto", defOf arch m0), ("encoder", encDefOf arch m0)] do
      let g := MessageDefinition.MarshalAppend d []
      if g != some (defBytes arch m0) then
        IO.println s!"DIFF MessageDefinition.MarshalAppend({nm}-built definition) arch={arch} record: heart_rate=0x46 cadence=0x50 go={g} model={defBytes arch m0} op={op0 arch}"
  for arch in [0, 1] do
    for num in [0, 1, 20, 255, 256, 0x1234, 0xFFFF] do
      for nf in [0, 1, 2, 3, 255, 256, 257] do
        for nd in [0, 1, 2, 255, 256] do
          let m : WMsg := ⟨num, fieldsOf nf, devsOf nd⟩
          let g := MessageDefinition.MarshalAppend (defOf arch m) [7]
          let w := some ([7] ++ defBytes arch m)
          if MessageDefinition.MarshalAppend (encDefOf arch m) [7] != w && shown < 12 then
            shown := shown + 1
            IO.println s!"DIFF newMessageDefinition+MarshalAppend arch={arch} {showM m} go={((MessageDefinition.MarshalAppend (encDefOf arch m) [7]).map (·.take 16))} model={(w.map (·.take 16))} (first 16 bytes) op=-"
          if g != w && shown < 12 then
            shown := shown + 1
            IO.println s!"DIFF MessageDefinition.MarshalAppend arch={arch} {showM m} go={(g.map (·.take 16))} model={(w.map (·.take 16))} (first 16 bytes; lengths {g.map (·.length)} / {w.map (·.length)}) op=-"
  for h in List.range 256 do
    let g := (NewMessageDefinition_devHeader h).mesgDef_Header
    if g != h ||| 0x20 then IO.println s!"DIFF NewMessageDefinition_devHeader header={h} go={g} model={h ||| 0x20} op=-"
    let d := (Message_MarshalAppend_header [1, 2] h).b
    if d != [1, 2, h] then IO.println s!"DIFF Message_MarshalAppend_header b=[1,2] header={h} go={d} model={[1, 2, h]} op=-"
  if MesgDefinitionMask != 0x40 || DevDataMask != 0x20 || LittleEndian != 0 || BigEndian != 1 then
    IO.println s!"DIFF consts MesgDefinitionMask={MesgDefinitionMask} DevDataMask={DevDataMask} LittleEndian={LittleEndian} BigEndian={BigEndian} model=64,32,0,1 op=-"
  IO.println "DONE"
