import FitModel.Value
import FitModel.BaseTypeSpec
import FitModel.Generated.Go_basetype
/-!
Search for a base type byte on which `Size()` / `Valid()` translated from profile/basetype/basetype.go differ from the
model's `btSize` / `btValid` or from the protocol's table. Run by ./check when an agreement theorem no longer checks.
-/
open Fit.Value Fit.BaseTypeSpec

def main : IO Unit := do
  for t in List.range 256 do
    let g := Go.basetype.BaseType.Size t
    if g != some (btSize t) then IO.println s!"DIFF Size t={t} go={g} model={btSize t} op=-"
    let sp := ((fitBaseTypes.lookup t).map (·.1)).getD 0
    if g != some sp then IO.println s!"DIFF Size-vs-protocol t={t} go={g} protocol={sp} op=-"
    let v := Go.basetype.BaseType.Valid t
    if v != some (btValid t) then IO.println s!"DIFF Valid t={t} go={v} model={btValid t} op=-"
  if Go.basetype.List_ != Fit.Gen.baseTypeList then IO.println s!"DIFF List go={Go.basetype.List_} model={Fit.Gen.baseTypeList} op=-"
  for p in fitBaseTypes do
    if Go.basetype.BaseType.String_ p.1 != p.2.2 then IO.println s!"DIFF String t={p.1} go={Go.basetype.BaseType.String_ p.1} protocol={p.2.2} op=-"
    if Go.basetype.FromString p.2.2 != p.1 then IO.println s!"DIFF FromString s={p.2.2} go={Go.basetype.FromString p.2.2} protocol={p.1} op=-"
  IO.println "DONE"
