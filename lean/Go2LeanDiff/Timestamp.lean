import FitModel.Wire
import FitModel.DecoderApi
import FitModel.Generated.Go_decoder
import FitModel.Generated.Go_encoder
import Driver.Util
/-!
Search for arguments on which the compressed-timestamp blocks translated from decoder/decoder.go and encoder/encoder.go
differ from the models (`Fit.Wire.decompressHdr`, `Fit.Wire.compressTs` over the timestamp itself). Run by ./check when an
agreement theorem of FitProps/Go2LeanTimestamp.lean no longer checks.
-/
def tss : List Nat :=
  [0, 1, 31, 32, 0x0FFFFFFF, 0x10000000, 0x10000001, 0x1000001F, 0x10000020, 0x10000021, 0x1000003F, 0x10000040, 0x3B9ACA00,
   0x3B9ACA1F, 0x3B9ACA20, 0xFFFFFFE0, 0xFFFFFFFE, 0xFFFFFFFF]

/-- `compressTs` of the model over the timestamp `ts` (what `encTsOf` yields) -/
def modelEnc (tsRef tsLast ts : Nat) : Nat × Option Nat :=
  if ts == 0xFFFFFFFF then (tsRef, none)
  else if ts < 0x10000000 then (tsRef, none)
  else if (ts + 4294967296 - tsRef) % 4294967296 > 31 || (ts + 4294967296 - tsLast) % 4294967296 > 31 then (ts, none)
  else (tsRef, some (ts % 32))

def le32hex (n : Nat) : String := Drv.hex [n % 256, n / 256 % 256, n / 65536 % 256, n / 16777216 % 256]

/-- an operation of family rtw (encode with compressed timestamps, decode, compare): three record messages with timestamps
R, L, T — after the first two the encoder holds reference R and last timestamp L (when R ≤ L ≤ R + 31), the decoder
timestamp L -/
def opOf (R L T : Nat) : String :=
  s!"rtw a=0 h=1 l=0 pv=32 w=plain bs=0 H14.32.0.0 M20/253.134.7.{le32hex R},3.2.3.46/ M20/253.134.7.{le32hex L},3.2.3.47/ M20/253.134.7.{le32hex T},3.2.3.48/"

def main : IO Unit := do
  let mut n := 0
  -- states an encoder / decoder pair can be in, with the operation that leads there
  for R in [0x10000000, 0x3B9ACA00, 0x3B9ACA1F, 0xFFFFFFC0] do
    for dl in [0, 1, 5, 30, 31] do
      for dt in [0, 1, 2, 5, 26, 27, 30, 31, 32, 33, 37, 63, 64] do
        let L := R + dl
        for T in [L + dt, R + dt, L - 1, R - 1] do
          let o := Go.encoder.compressTimestampIntoHeader_decide R L 0 T
          let m := modelEnc R L T
          let okE := o.e_timestampReference == m.1 && (match m.2 with
            | none => o.ret == some false && o.mesg_Header == 0
            | some off => o.ret == none && o.mesg_Header == 0x80 ||| off)
          let d := Go.decoder.decodeMessageData_timestamp (L % 32) L (0x80 ||| (T % 32))
          let okD := m.2.isNone || d.d_timestamp == T
          let f := Go.decoder.decodeFields_timestamp 0 0 L
          let okF := f.d_timestamp == L && f.d_lastTimeOffset == L % 32
          if !(okE && okD && okF) && n < 6 then
            n := n + 1
            IO.println s!"DIFF timestamp-blocks reference={R} last={L} timestamp={T} encoder-ok={okE} decoder-header-ok={okD} decoder-field-ok={okF} op={opOf R L T}"
  n := 0
  for lo in List.range 32 do
    for h in List.range 256 do
      for ts in [0, 0x10000000, 0x1000001F, 0xFFFFFFF0, 0xFFFFFFFF] do
        let o := Go.decoder.decodeMessageData_timestamp lo ts h
        let m := Fit.Wire.decompressHdr ⟨[], ts, lo, []⟩ h
        if (o.d_timestamp != m.1.timestamp || o.d_lastTimeOffset != m.1.lastOff) && n < 5 then
          n := n + 1
          IO.println s!"DIFF decodeMessageData_timestamp lastTimeOffset={lo} timestamp={ts} header={h} go=({o.d_timestamp},{o.d_lastTimeOffset}) model=({m.1.timestamp},{m.1.lastOff}) op=-"
  n := 0
  for t in tss do
    let o := Go.decoder.decodeFields_timestamp 7 9 t
    if (o.d_timestamp != t || o.d_lastTimeOffset != t % 32) && n < 5 then
      n := n + 1
      IO.println s!"DIFF decodeFields_timestamp timestamp={t} go=({o.d_timestamp},{o.d_lastTimeOffset}) model=({t},{t % 32}) op=-"
  n := 0
  for tsRef in tss do
    for tsLast in tss do
      for ts in tss do
        let o := Go.encoder.compressTimestampIntoHeader_decide tsRef tsLast 0 ts
        let m := modelEnc tsRef tsLast ts
        let ok := o.e_timestampReference == m.1 && (match m.2 with
          | none => o.ret == some false && o.mesg_Header == 0
          | some off => o.ret == none && o.mesg_Header == 0x80 ||| off)
        if !ok && n < 5 then
          n := n + 1
          IO.println s!"DIFF compressTimestampIntoHeader_decide timestampReference={tsRef} lastTimestamp={tsLast} timestamp={ts} go=(ref={o.e_timestampReference},ret={o.ret},header={o.mesg_Header}) model=(ref={m.1},offset={m.2}) op=-"
  IO.println "DONE"
