import FitModel.Value
import FitModel.Generated.Go_protomarshal
/-!
Search for a byte on which the `typedef.Bool` clamping translated from proto/value.go, value_marshal.go and
value_unmarshal.go differs from the value model (`Fit.Value.mkBool / boolByte / clampBool`). Run by ./check when an agreement
theorem of FitProps/Go2LeanProtoMarshal.lean (C06 part) no longer checks.
-/
open Go.protomarshal Fit.Value

def main : IO Unit := do
  for v in List.range 256 do
    let g := (Bool_clamp v).num
    if g != clampBool v || mkBool v != .bool g then IO.println s!"DIFF Bool_clamp v={v} go={g} model={clampBool v} op=-"
    let r := (Value_MarshalAppend_bool [5] v).ret
    if r != some [5, boolByte v] then IO.println s!"DIFF Value_MarshalAppend_bool b=[5] val={v} go={r} model={some [5, boolByte v]} op=-"
    for i in [0, 1, 2] do
      let bs := [0, v, 1]
      let u := UnmarshalValue_boolElem bs (i : Nat) [3]
      let w : Option UnmarshalValue_boolElem.Out := some { vals := [3, clampBool (bs.getD i 0)], v := clampBool (bs.getD i 0) }
      if u != w then IO.println s!"DIFF UnmarshalValue_boolElem b={bs} i={i} vals=[3] go={repr u} model={repr w} op=-"
  IO.println "DONE"
