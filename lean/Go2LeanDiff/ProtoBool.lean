import FitModel.Value
import FitModel.Generated.Go_protomarshal
/-!
Search for a byte on which the `typedef.Bool` clamping translated from proto/value.go, value_marshal.go and
value_unmarshal.go differs from the value model (`Fit.Value.mkBool / boolByte / clampBool`). Run by ./check when an agreement
theorem of FitProps/Go2LeanProtoMarshal.lean (C06 part) no longer checks.
-/
open Go.protomarshal Fit.Value

def main : IO Unit := do
  for v in List.range 256 do
    let g := (Bool_clamp v).num
    if g != clampBool v || mkBool v != .bool g then IO.println s!"DIFF Bool_clamp v={v} go={g} model={clampBool v} op=-"
    let r := (Value_MarshalAppend_bool [5] v).ret
    if r != some [5, boolByte v] then IO.println s!"DIFF Value_MarshalAppend_bool b=[5] val={v} go={r} model={some [5, boolByte v]} op=-"
    for i in [0, 1, 2] do
      let bs := [0, v, 1]
      let u := UnmarshalValue_boolElem bs (i : Nat) [3]
      let w : Option UnmarshalValue_boolElem.Out := some { vals := [3, clampBool (bs.getD i 0)], v := clampBool (bs.getD i 0) }
      if u != w then IO.println s!"DIFF UnmarshalValue_boolElem b={bs} i={i} vals=[3] go={repr u} model={repr w} op=-"
  for arch in [0, 1, 2] do
    for n in [0, 1, 0x12, 0x1234, 0x8001, 0x12345678, 0xFFFFFFFF, 0x0102030405060708, 0xFFFFFFFFFFFFFFFF] do
      let cases : List (String × Option (List Nat) × Nat) := [
        ("int16", (Value_MarshalAppend_int16 arch [5] n).ret, 2), ("uint16", (Value_MarshalAppend_uint16 arch [5] n).ret, 2),
        ("int32", (Value_MarshalAppend_int32 arch [5] n).ret, 4), ("uint32", (Value_MarshalAppend_uint32 arch [5] n).ret, 4),
        ("float32", (Value_MarshalAppend_float32 arch [5] n).ret, 4), ("int64", (Value_MarshalAppend_int64 arch [5] n).ret, 8),
        ("uint64", (Value_MarshalAppend_uint64 arch [5] n).ret, 8), ("float64", (Value_MarshalAppend_float64 arch [5] n).ret, 8)]
      for (name, g, w) in cases do
        if g != some ([5] ++ enc w arch n) then
          IO.println s!"DIFF Value_MarshalAppend_{name} arch={arch} b=[5] v.num={n} go={g} model={some ([5] ++ enc w arch n)} op=-"
  for vals in [[], [0], [1], [2], [255], [0, 1, 2, 3, 254, 255], [1, 1, 0]] do
    let g := (Value_MarshalAppend_sliceBool [5] vals).map (·.ret)
    if g != some (some ([5] ++ vals.map boolByte)) then
      IO.println s!"DIFF Value_MarshalAppend_sliceBool b=[5] vals={vals} go={g} model={[5] ++ vals.map boolByte} op=-"
  for arch in [0, 1, 2] do
    for vals in [[], [0x1234], [1, 0x8001, 0xFFFF], [0x0102030405060708, 0xFFFFFFFF, 0]] do
      let m (w : Nat) := some (some ([5] ++ vals.flatMap (enc w arch)))
      let g16 := (Value_MarshalAppend_sliceUint16 arch [5] (vals.map (· % 2 ^ 16))).map (·.ret)
      if g16 != some (some ([5] ++ (vals.map (· % 2 ^ 16)).flatMap (enc 2 arch))) then
        IO.println s!"DIFF Value_MarshalAppend_sliceUint16 arch={arch} b=[5] vals={vals.map (· % 2 ^ 16)} go={g16} model={[5] ++ (vals.map (· % 2 ^ 16)).flatMap (enc 2 arch)} op=-"
      let g32 := (Value_MarshalAppend_sliceUint32 arch [5] (vals.map (· % 2 ^ 32))).map (·.ret)
      if g32 != some (some ([5] ++ (vals.map (· % 2 ^ 32)).flatMap (enc 4 arch))) then
        IO.println s!"DIFF Value_MarshalAppend_sliceUint32 arch={arch} b=[5] vals={vals.map (· % 2 ^ 32)} go={g32} model={[5] ++ (vals.map (· % 2 ^ 32)).flatMap (enc 4 arch)} op=-"
      let g64 := (Value_MarshalAppend_sliceUint64 arch [5] vals).map (·.ret)
      if g64 != m 8 then
        IO.println s!"DIFF Value_MarshalAppend_sliceUint64 arch={arch} b=[5] vals={vals} go={g64} model={m 8} op=-"
  IO.println "DONE"
