import FitModel.FitFormat
import FitModel.Generated.Go_decoder
import FitModel.Generated.Go_encoder
/-!
Search for a header byte on which the record-header conditions / blocks translated from decoder/decoder.go and
encoder/encoder.go differ from the format specification. Run by ./check when an agreement theorem of
FitProps/Go2LeanRecordHeader.lean no longer checks.
-/
def main : IO Unit := do
  for h in List.range 256 do
    if Go.decoder.decodeMessage_isDefinition h != Fit.FitFormat.isDefinition h then
      IO.println s!"DIFF decodeMessage_isDefinition header={h} go={Go.decoder.decodeMessage_isDefinition h} format={Fit.FitFormat.isDefinition h} op=-"
    if Go.decoder.decodeMessageDefinition_hasDevData h != Fit.FitFormat.hasDevData h then
      IO.println s!"DIFF decodeMessageDefinition_hasDevData header={h} go={Go.decoder.decodeMessageDefinition_hasDevData h} format={Fit.FitFormat.hasDevData h} op=-"
    let l := (Go.decoder.decodeMessageData_localMesgNum h).localMesgNum
    if l &&& 15 != Fit.FitFormat.localNum h then
      IO.println s!"DIFF decodeMessageData_localMesgNum header={h} go={l} format={Fit.FitFormat.localNum h} op=-"
  for i in List.range 16 do
    for t in List.range 32 do
      let c := (Go.encoder.encodeMessage_header true i (0x80 ||| t)).mesg_Header
      if c != (0x80 ||| t) ||| ((i <<< 5) % 256) then
        IO.println s!"DIFF encodeMessage_header compressed localMesgNum={i} offset={t} go={c} model={(0x80 ||| t) ||| ((i <<< 5) % 256)} op=-"
    let n := (Go.encoder.encodeMessage_header false i 0).mesg_Header
    if n != i then IO.println s!"DIFF encodeMessage_header normal localMesgNum={i} go={n} model={i} op=-"
  IO.println "DONE"
