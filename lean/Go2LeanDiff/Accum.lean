import FitModel.Accum
import FitModel.Generated.Go_decoderbits
/-!
Search for a history of `Collect` / `Accumulate` / `Reset` calls on which the functions translated from
decoder/accumulator.go and the model `Fit.Accum` differ. Run by ./check when an agreement theorem of
FitProps/Go2LeanAccum.lean no longer checks. The operation line is one of family accum.
-/
open Fit.Accum

inductive Op | c (m f v : Nat) | a (m f v bits : Nat) | r

def Op.str : Op → String
  | .c m f v => s!"c:{m}.{f}.{v}"
  | .a m f v b => s!"a:{m}.{f}.{v}.{b}"
  | .r => "r"

def toGo (e : Entry) : Go.decoderbits.value := ⟨e.mesgNum, e.fieldNum, e.last, e.value⟩

/-- run a history on both sides; `some why` at the first difference -/
def run (ops : List Op) : Option String := Id.run do
  let mut g : Option Go.decoderbits.Accumulator := some ⟨[]⟩
  let mut m : Acc := []
  for op in ops do
    match g with
    | none => return some "translated function panics"
    | some ga =>
      match op with
      | .c mn f v =>
        g := Go.decoderbits.Accumulator.Collect ga mn f v
        m := collect m mn f v
      | .a mn f v b =>
        let r := Go.decoderbits.Accumulator.Accumulate ga mn f v b
        let mr := accumulate m mn f v b
        if r.map (·.2) != some mr.1 then return some s!"Accumulate returns go={r.map (·.2)} model={mr.1}"
        g := r.map (·.1)
        m := mr.2
      | .r =>
        g := Go.decoderbits.Accumulator.Reset ga
        m := reset
    if g.map (·.values) != some (m.map toGo) then return some s!"table after {op.str}: go={repr (g.map (·.values))} model={repr (m.map toGo)}"
  return none

def histories : List (List Op) := Id.run do
  let vals := [0, 1, 200, 250, 255, 256, 70000, 0xFFFFFFF0, 0xFFFFFFFF]
  let mut hs : List (List Op) := []
  for bits in [0, 1, 8, 12, 16, 31, 32, 33, 64, 255] do
    for v0 in vals do
      for v1 in vals do
        hs := [.c 20 3 v0, .a 20 3 v1 bits, .a 20 3 v0 bits] :: hs
        hs := [.a 20 3 v0 bits, .c 21 3 5, .a 20 4 v1 bits, .a 20 3 v1 bits, .c 20 4 v0, .a 20 4 v1 bits] :: hs
  hs := [.c 1 1 1, .r, .a 1 1 7 8, .c 2 2 2, .c 1 1 9, .r, .r, .a 2 2 3 8] :: hs
  return hs

def main : IO Unit := do
  let mut n := 0
  for h in histories do
    match run h with
    | some why =>
      if n < 5 then
        n := n + 1
        IO.println s!"DIFF Accumulator {why} op=accum {" ".intercalate (h.map Op.str)}"
    | none => pure ()
  IO.println "DONE"
