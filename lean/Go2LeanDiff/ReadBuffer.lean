import FitModel.ReadBuffer
import FitModel.Generated.Go_readbuffer
/-!
Search for cursor values / sizes on which the index arithmetic translated from decoder/readbuffer.go differs from the
model `Fit.ReadBuffer.RB.readN` / `RB.reset`. Run by ./check when an agreement theorem of FitProps/Go2LeanReadBuffer.lean
no longer checks. (If the translated definitions changed their parameters this script does not compile: the check then
reports that the search did not run to its end.)
-/
open Fit.ReadBuffer Go.readbuffer

def R : Nat := Fit.Gen.Reader.reservedbuf

def vals : List Nat := [0, 1, 2, 3, 5, 100, 764, 765, 766, 767, 1000, 1530, 4096, 4861, 5000]

def main : IO Unit := do
  for last in vals do
    for cur in vals do
      if cur ≤ last then
        let rem := (ReadN_remaining cur last).remaining
        if rem != ((last - cur : Nat) : Int) then
          IO.println s!"DIFF ReadN_remaining cur={cur} last={last} go={rem} model={last - cur} op=-"
        if ReadN_copySrc last rem != (cur : Int) then
          IO.println s!"DIFF ReadN_copySrc cur={cur} last={last} go={ReadN_copySrc last rem} model={cur} op=-"
        for n in ([0, 1, 2, 765] : List Nat) do
          if ReadN_needFill n rem != decide (last - cur < n) then
            IO.println s!"DIFF ReadN_needFill n={n} remaining={rem} go={ReadN_needFill n rem} model={decide (last - cur < n)} op=-"
  for rem in ([0, 1, 2, 100, 764, 765] : List Nat) do
    let cur := if ReadN_hasTail rem then (ReadN_curTail ReadN_curInit.cur rem).cur else ReadN_curInit.cur
    let m : Nat := if rem ≠ 0 then R - rem else R
    if ReadN_copyDst cur != (m : Int) then
      IO.println s!"DIFF ReadN_cur remaining={rem} go={ReadN_copyDst cur} model={m} op=-"
    for n in ([rem + 1, rem + 2, 765, 1000] : List Nat) do
      if rem < n && ReadN_fillMin n rem != ((n - rem : Nat) : Int) then
        IO.println s!"DIFF ReadN_fillMin n={n} remaining={rem} go={ReadN_fillMin n rem} model={n - rem} op=-"
  if ReadN_fillLo != (R : Int) then IO.println s!"DIFF ReadN_fillLo go={ReadN_fillLo} model={R} op=-"
  for cur in vals do
    for n in ([0, 1, 3, 765] : List Nat) do
      let r := ReadN_refill 0 0 cur n
      if r.b_cur != (cur : Int) || r.b_last != ((R + n : Nat) : Int) then
        IO.println s!"DIFF ReadN_refill cur={cur} nr={n} go=({r.b_cur},{r.b_last}) model=({cur},{R + n}) op=-"
      if ReadN_winLo cur != (cur : Int) || ReadN_winHi cur n != ((cur + n : Nat) : Int) || (ReadN_window cur n).b_cur != ((cur + n : Nat) : Int) then
        IO.println s!"DIFF ReadN_window cur={cur} n={n} go=[{ReadN_winLo cur}:{ReadN_winHi cur n}] then {(ReadN_window cur n).b_cur} model=[{cur}:{cur + n}] then {cur + n} op=-"
  for size in ([-1, 0, 1, 64, 764, 765, 766, 4096, 4097, 4861, 4862, 4294967295, 4294967296] : List Int) do
    if (Reset_clamp size).size != (clampSize size : Int) then
      IO.println s!"DIFF Reset_clamp size={size} go={(Reset_clamp size).size} model={clampSize size} op=-"
  for cap in ([0, 765, 1530, 4861, 5000] : List Nat) do
    for size in ([765, 766, 4096, 4097, 4235, 4861] : List Nat) do
      if Reset_grow ((cap : Int) - (Go.readbuffer.reservedbuf : Int)) size != decide (cap < R + size) then
        IO.println s!"DIFF Reset_grow cap={cap} size={size} go={Reset_grow ((cap : Int) - (Go.readbuffer.reservedbuf : Int)) size} model={decide (cap < R + size)} op=-"
      if Reset_allocLen size != ((R + size : Nat) : Int) || Reset_len size != ((R + size : Nat) : Int) then
        IO.println s!"DIFF Reset_len size={size} go=alloc {Reset_allocLen size} len {Reset_len size} model={R + size} op=-"
  IO.println "DONE"
