import FitModel.Wire
import FitModel.Generated.Go_encoderlru
/-!
Search for a sequence of `Put`s on which the LRU translated from encoder/lru.go and the model `Fit.Wire.Lru` differ
(returned index / is-new flag, or a panic of the translated code): capacities 1..3, items from a small alphabet, every
sequence of up to 5 items, the re-used slices with no spare capacity and with three stale bytes behind them. Run by ./check
when an agreement theorem of FitProps/Go2LeanLru.lean no longer checks.
-/
open Fit.Wire

def alphabet : List (List Nat) := [[1], [2], [3, 4], [5, 6, 7], []]

def seqs : Nat → List (List (List Nat))
  | 0 => [[]]
  | n + 1 => (seqs n) ++ ((seqs n).filter (·.length == n)).flatMap (fun s => alphabet.map (fun a => s ++ [a]))

def runGo (g : Go.encoderlru.lru) (tail : List Nat) : List (List Nat) → List (Option (Nat × Bool))
  | [] => []
  | it :: its => match Go.encoderlru.lru.Put g it tail with
    | none => [none]
    | some r => some (r.2.1, r.2.2) :: runGo r.1 tail its

def runModel (m : Lru) : List (List Nat) → List (Option (Nat × Bool))
  | [] => []
  | it :: its => let r := m.put it; some (r.2.1, r.2.2) :: runModel r.1 its

def main : IO Unit := do
  let mut n := 0
  for cap in [1, 2, 3] do
    for tail in [[], [9, 9, 9]] do
      match Go.encoderlru.lru.ResetWithNewSize ⟨[], []⟩ cap [] [] with
      | none => IO.println s!"DIFF ResetWithNewSize size={cap} go=panic model=empty op=-"; n := n + 1
      | some g0 =>
        if g0.items.length != cap || g0.bucket != [] then
          IO.println s!"DIFF ResetWithNewSize size={cap} go=items:{g0.items.length},bucket:{g0.bucket} model=empty op=-"; n := n + 1
        for s in seqs 5 do
          if n < 20 then
            let a := runGo g0 tail s
            let b := runModel (Lru.empty cap) s
            if a.take b.length != b then
              IO.println s!"DIFF lru.Put size={cap} tail={tail} puts={s} go={a} model={b} op=-"
              n := n + 1
  IO.println "DONE"
