import FitModel.Crc
import FitModel.Generated.Go_crc16
import Driver.Util
/-!
Search for a concrete argument on which a function translated from kit/hash/crc16/crc16.go and the hand-written model
function differ. Run by ./check (`lake env lean --run Go2LeanDiff/Crc.lean`) when an agreement theorem of
FitProps/Go2LeanCrc.lean no longer checks. Output: lines
`DIFF <function> <args> go=<value> model=<value> [op=<operation line of family crc that reaches these arguments>]`.
Not part of the trusted base: whatever it prints is re-run on the implementation before it is reported.
-/
open Fit.Crc Drv

/-- a two-byte string that takes the model from state 0 to state `c` (every 16-bit state has one) -/
def prefixOf (c : Nat) : Option (Nat × Nat) := Id.run do
  for p0 in List.range 256 do
    let s := compute 0 p0
    for p1 in List.range 256 do
      if compute s p1 == c then return some (p0, p1)
  return none

def opFor (c : Nat) (bs : List Nat) : String :=
  if c == 0 then s!"crc w:{hex bs} sum16" else
  match prefixOf c with
  | some (p0, p1) => s!"crc w:{hex [p0, p1]} w:{hex bs} sum16"
  | none => "-"

def states : List Nat :=
  List.range 256 ++ (List.range 256).map (· * 257) ++ (List.range 16).map (2 ^ ·) ++ (List.range 16).map (fun k => 0xFFFF - 2 ^ k)
    ++ [0xA001, 0xCC01, 0x1234, 0x8000, 0xFFFF]

def strings : List (List Nat) :=
  [[], [0], [0xFF], [1, 2], [0x31, 0x32, 0x33, 0x34, 0x35, 0x36, 0x37, 0x38, 0x39], (List.range 300).map (· * 7 % 256),
   (List.range 1500).map (· * 13 % 256)]

def main : IO Unit := do
  let mut n := 0
  for i in List.range 17 do
    if i < 16 && Go.crc16.table[i]? != some (T i) || i == 16 && Go.crc16.table.length != 16 then
      IO.println s!"DIFF table i={i} go={Go.crc16.table[i]?} model={T i} len={Go.crc16.table.length}"
  for crc in states do
    for b in List.range 256 do
      let g := Go.crc16.crc16.compute 0 crc b
      let m := some (compute crc b)
      if g != m && n < 4 then
        n := n + 1
        IO.println s!"DIFF compute crc={crc} b={b} go={g} model={m} op={opFor crc [b]}"
  n := 0
  for c in [0, 0xFFFF, 0x1234] do
    for p in strings do
      let g := Go.crc16.crc16.Write c p
      let m := some (write c p, (p.length : Int))
      if g != m && n < 4 then
        n := n + 1
        IO.println s!"DIFF Write c={c} p={hex p} go={g} model={m} op={opFor c p}"
  for c in [0, 1, 0x1234, 0xFFFF] do
    if Go.crc16.crc16.Sum16 c != sum16 c then IO.println s!"DIFF Sum16 c={c} go={Go.crc16.crc16.Sum16 c} model={sum16 c} op={opFor c []}"
    if Go.crc16.crc16.Sum c [7] != sum c [7] then
      IO.println s!"DIFF Sum c={c} b=07 go={Go.crc16.crc16.Sum c [7]} model={sum c [7]} op={(opFor c []).replace "sum16" "sum:07"}"
    if Go.crc16.crc16.Reset c != reset then
      IO.println s!"DIFF Reset c={c} go={Go.crc16.crc16.Reset c} model={reset} op={(opFor c []).replace "sum16" "reset sum16"}"
  IO.println "DONE"
