import FitModel.Bits
import FitModel.Generated.Go_decoderbits
import Driver.Util
/-!
Search for a store and a bit size on which `(*bits).Pull` translated from decoder/bits.go differs from the model's
`Fit.Bits.pull`. Run by ./check when an agreement theorem of FitProps/Go2LeanBits.lean no longer checks.
-/
open Fit.Bits Drv

def stores : List (List Nat) :=
  [List.replicate 32 0,
   [0x27010E08, 0xFFFF] ++ List.replicate 30 0,
   List.replicate 32 0xFFFFFFFFFFFFFFFF,
   (List.range 32).map (fun i => if i % 5 == 3 then 0 else (i * 0x123456789ABCDEF1 + 77) % 2 ^ 64),
   (List.range 32).map (fun i => if i % 2 == 0 then 0x8000000000000001 else 0),
   [1] ++ List.replicate 30 0 ++ [0x8000000000000000],
   List.replicate 32 1]

def opOf (ws : List Nat) (n : Nat) : String :=
  s!"bits st:{",".intercalate (ws.map (hexN 16))} p:{n}"

def main : IO Unit := do
  let mut k := 0
  for ws in stores do
    for n in [0, 1, 7, 8, 13, 31, 32, 33, 63, 64, 65, 128, 192, 200, 255] do
      let g := (Go.decoderbits.bits.Pull ⟨ws⟩ n).map (fun r => (r.2, r.1.store))
      let m := some ((pull ws n).1, (pull ws n).2)
      if g != m && k < 5 then
        k := k + 1
        IO.println s!"DIFF bits.Pull bitsize={n} go={g.map (·.1)} model={(pull ws n).1} stores-equal={g.map (·.2) == m.map (·.2)} op={opOf ws n}"
  IO.println "DONE"
