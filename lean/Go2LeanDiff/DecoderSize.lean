import FitModel.DecoderApi
import FitModel.Generated.Go_decodersize
/-!
Search for arguments on which the size arithmetic translated from decoder/decoder.go (unit decodersize) differs from the
decoder model `Fit.DecApi`: every base type byte × every size byte for the array inference of unknown and developer
fields; boundary positions for the counter of readN and the loop test. Run by ./check when an agreement theorem of
FitProps/Go2LeanDecoderSize.lean no longer checks.
-/
open Fit.DecApi Fit.Gen Fit.Gen.DecApi

def showRes : Res (Nat × Bool × Bool × Bool) → String
  | .ok a => s!"ok{a}"
  | .panic => "panic"
  | .err _ => "err"
  | .hang => "hang"

def main : IO Unit := do
  let mut n := 0
  let info : FieldInfo := { (default : FieldInfo) with known := false }
  for bt in List.range 256 do
    for size in List.range 256 do
      if n < 20 then
        let m := fieldShape info ⟨0, size, bt⟩
        let g : Res (Nat × Bool × Bool × Bool) := match Go.decodersize.decodeFields_unknownShape false 0 0 bt size false with
          | none => .panic
          | some o => .ok (o.field_BaseType, decide (o.field_Type = profileBool), o.field_Array, o.overrideStringArray)
        if showRes m != showRes g then
          IO.println s!"DIFF decodeFields_unknownShape baseType={bt} size={size} go={showRes g} model={showRes m} op=-"
          n := n + 1
        let gd : Res (Nat × Bool × Bool × Bool) := match Go.decodersize.decodeDeveloperFields_shape size bt with
          | none => .panic
          | some o => .ok (o.baseType, decide (o.profileType = profileBool), o.isArray, decide (bt = btString))
        if showRes m != showRes gd then
          IO.println s!"DIFF decodeDeveloperFields_shape baseType={bt} size={size} go={showRes gd} model={showRes m} op=-"
          n := n + 1
  for cur in [0, 1, 255, 4294967295 - 255, 4294967295] do
    for k in [0, 1, 255, 65535] do
      let g := (Go.decodersize.readN_counters cur 0 k).d_cur
      if g != (cur + k) % 4294967296 then
        IO.println s!"DIFF readN_counters cur={cur} n={k} go={g} model={(cur + k) % 4294967296} op=-"
    for ds in [0, 1, cur, cur + 1] do
      if Go.decodersize.decodeMessages_more cur ds != decide (cur < ds) then
        IO.println s!"DIFF decodeMessages_more cur={cur} dataSize={ds} go={Go.decodersize.decodeMessages_more cur ds} model={decide (cur < ds)} op=-"
  for size in List.range 256 do
    if Go.decodersize.decodeFileHeader_badSize size != decide (size ≠ 12 ∧ size ≠ 14) then
      IO.println s!"DIFF decodeFileHeader_badSize size={size} go={Go.decodersize.decodeFileHeader_badSize size} op=-"
    if Go.decodersize.decodeFields_sizeZero size != (size == 0) || Go.decodersize.decodeDeveloperFields_sizeZero size != (size == 0) then
      IO.println s!"DIFF sizeZero size={size} op=-"
  IO.println "DONE"
