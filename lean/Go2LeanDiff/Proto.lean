import FitModel.Raw
import FitModel.FitFormat
import FitModel.Validator
import FitModel.Generated.Go_proto
/-!
Search for a header byte / base type byte on which the functions translated from proto/*.go differ from the model.
Run by ./check when an agreement theorem of FitProps/Go2LeanProto*.lean no longer checks.
-/
open Fit.Validator Fit.Gen

def main : IO Unit := do
  for h in List.range 256 do
    let g := Go.proto.LocalMesgNum h
    if g != Fit.Raw.localMesgNum h then IO.println s!"DIFF LocalMesgNum header={h} go={g} model={Fit.Raw.localMesgNum h} op=-"
    if g != Fit.FitFormat.localNum h then IO.println s!"DIFF LocalMesgNum-vs-format header={h} go={g} format={Fit.FitFormat.localNum h} op=-"
    if Go.proto.ValidateMessageDefinition_afterV1 h != afterV1 h then
      IO.println s!"DIFF ValidateMessageDefinition_afterV1 bt={h} go={Go.proto.ValidateMessageDefinition_afterV1 h} model={afterV1 h} op=-"
    if Go.proto.ValidateMessage_afterV1 h != afterV1 h then
      IO.println s!"DIFF ValidateMessage_afterV1 bt={h} go={Go.proto.ValidateMessage_afterV1 h} model={afterV1 h} op=-"
    if Go.proto.ValidateMessage_isV1 h != decide (h = protoV1) || Go.proto.ValidateMessageDefinition_isV1 h != decide (h = protoV1) then
      IO.println s!"DIFF isV1 version={h} model={decide (h = protoV1)} op=-"
    if Go.proto.Version.Major h != h / 16 || Go.proto.Version.Minor h != h % 16 then
      IO.println s!"DIFF Version v={h} go={Go.proto.Version.Major h}.{Go.proto.Version.Minor h} expected={h / 16}.{h % 16} op=-"
  IO.println "DONE"
