import FitModel.Raw
import FitModel.Generated.Go_rawsize
/-!
Search for definition contents / positions on which the length bookkeeping translated from decoder/raw.go differs from the
model `Fit.Raw`. Run by ./check when an agreement theorem of FitProps/Go2LeanRawSize.lean no longer checks. (If the translated
definitions changed their parameters this script does not compile: the check reports that the search did not run to its end.)
-/
open Fit.Raw Go.rawsize

def fieldSets : List (List Nat) := [[], [253, 4, 134], [0, 0, 0], [253, 4, 134, 0, 2, 132], [1, 255, 7, 2, 255, 7, 3, 1, 2]]

def main : IO Unit := do
  for fb in fieldSets do
    let n := fb.length / 3
    let arr := [0x40, 0, 0, 20, 0, n] ++ fb ++ [0, 0, 0, 0]
    match Decode_fieldSizes arr 6 n with
    | some o =>
      if o.lenMesg != 1 + sizeSum fb || o.lenMesgDef != 6 + n * 3 then
        IO.println s!"DIFF Decode_fieldSizes fields={fb} go=(lenMesgDef {o.lenMesgDef}, lenMesg {o.lenMesg}) model=({6 + n * 3}, {1 + sizeSum fb}) op=-"
    | none => IO.println s!"DIFF Decode_fieldSizes fields={fb} go=panic model=({6 + n * 3}, {1 + sizeSum fb}) op=-"
    for db in fieldSets do
      let m := db.length / 3
      let pre := [0x60, 0, 0, 20, 0, n] ++ fb ++ [m]
      match Decode_devFieldSizes (pre ++ db ++ [0]) pre.length (1 + sizeSum fb) pre.length m with
      | some o =>
        if o.lenMesg != 1 + sizeSum fb + sizeSum db || o.lenMesgDef != pre.length + m * 3 then
          IO.println s!"DIFF Decode_devFieldSizes fields={fb} devFields={db} go=(lenMesgDef {o.lenMesgDef}, lenMesg {o.lenMesg}) model=({pre.length + m * 3}, {1 + sizeSum fb + sizeSum db}) op=-"
      | none => IO.println s!"DIFF Decode_devFieldSizes fields={fb} devFields={db} go=panic op=-"
  for nb in [0, 1, 255] do
    match Decode_devCount ([0x60, 0, 0, 20, 0, 0] ++ nb :: [0, 0, 0]) 6 with
    | some o => if o.lenMesgDef != 7 || o.nDevFields != nb || o.devFieldFirstIndex != 7 then
        IO.println s!"DIFF Decode_devCount lenMesgDef=6 count byte={nb} go=(lenMesgDef {o.lenMesgDef}, nDevFields {o.nDevFields}, first {o.devFieldFirstIndex}) model=(7, {nb}, 7) op=-"
    | none => IO.println s!"DIFF Decode_devCount lenMesgDef=6 go=panic op=-"
  for h in List.range 256 do
    let isDef := decide (h &&& (128 ||| 64) = 64)
    if Decode_isDefinition [h] != some isDef then IO.println s!"DIFF Decode_isDefinition header={h} go={Decode_isDefinition [h]} model={isDef} op=-"
    if Decode_hasDevData [h] != some (decide (h &&& 32 = 32)) then IO.println s!"DIFF Decode_hasDevData header={h} go={Decode_hasDevData [h]} op=-"
    if Decode_badHeaderSize h != decide (h ≠ 12 ∧ h ≠ 14) then IO.println s!"DIFF Decode_badHeaderSize size={h} go={Decode_badHeaderSize h} op=-"
    match Decode_store [h] 7 (List.replicate 16 0) with
    | some o => if o.lenMesgs != (List.replicate 16 0).set (h &&& 15) 7 then IO.println s!"DIFF Decode_store header={h} go={o.lenMesgs} op=-"
    | none => IO.println s!"DIFF Decode_store header={h} go=panic op=-"
  for l in [0, 1, 2, 255] do
    if Decode_defMissing l != decide (l = 0) then IO.println s!"DIFF Decode_defMissing lenMesg={l} go={Decode_defMissing l} model={decide (l = 0)} op=-"
  for used in ([0, 1, 13, 14, 15, 100, 4294967295, 4294967296] : List Nat) do
    for ds in ([0, 1, 14, 15, 100, 4294967295] : List Nat) do
      for pos in ([12, 14, 1000] : List Nat) do
        if Decode_moreData ds ((pos + used : Nat) : Int) (pos : Int) != decide (used % 2^32 < ds) then
          IO.println s!"DIFF Decode_moreData pos={pos} n={pos + used} dataSize={ds} go={Decode_moreData ds ((pos + used : Nat) : Int) (pos : Int)} model={decide (used % 2^32 < ds)} op=-"
  if Decode_s12_lo != 1 || Decode_s12_hi 9 != 9 || Decode_s13_hi 9 != 9 then
    IO.println s!"DIFF Decode_dataSlices lenMesg=9 go=[{Decode_s12_lo}:{Decode_s12_hi 9}] segment [:{Decode_s13_hi 9}] model=[1:9] segment [:9] op=-"
  IO.println "DONE"
