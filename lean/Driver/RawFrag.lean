import Driver.Raw
-- @family rawfrag Drv.RawFrag.hRawFrag
/-!
`rawfrag b:<hex> [s:<lens>]` — `decoder.NewRaw().Decode(r, fn)` over a reader delivering the bytes according to the schedule,
as the op `raw` of C16's family (same executor, same model `Fit.Raw.decode` run with `io.ReadFull` on the schedule:
`runFullN`). Family of C08: `--spec` = the answer over the contiguous reader (`bytes.NewReader` of the delivered bytes) —
what `C08_raw_chunk_indep` says every clean fragmentation must give, end-of-stream error class included.
-/
namespace Drv.RawFrag
open Drv Fit.ReadBuffer

def hRawFrag : Handler := fun r =>
  match Drv.RawD.parseArgs r.args with
  | none => if r.mode == .model then "bad-op" else if r.mode == .kf then "-" else "n/a"
  | some a =>
    let prog := Fit.Raw.decode a.failAt (a.frag.bytes.length + 1) {}
    match r.mode with
    | .model =>
      let (o, n) := runFullN prog a.frag.schedule 0
      Drv.RawD.showRaw o n
    | .spec =>
      if !cleanB a.frag.schedule then "n/a" else
      let (o, n) := runFullN prog (contiguous (bytesOf a.frag.schedule)) 0
      Drv.RawD.showRaw o n
    | .kf => "-"
    | .prop => "n/a"

end Drv.RawFrag
