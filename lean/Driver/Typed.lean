import Driver.Util
import Driver.MsgCodec
import FitModel.Typed
import FitModel.TypedFactory
import FitModel.ProfileSpec
import FitModel.Generated.Mesgdef
import FitModel.Generated.ProfileTables
-- @family typedms Drv.Typed.hMS
-- @family typedrt Drv.Typed.hRT
-- @family typedsm Drv.Typed.hSM
-- @family typedid Drv.Typed.hID
-- @family typednil Drv.Typed.hNil
-- @family typedseq Drv.Typed.hSeq
-- @family typedmark Drv.Typed.hMark
-- @family typednils Drv.Typed.hNils
-- @family typedmsm Drv.Typed.hMSM
/-!
Driver for the family `typed` (C13): the generic model `Fit.Typed.ofMesg` / `toMesg` instantiated with the
regenerated per-message tables (`Fit.Gen.Mesgdef.tables`); the standard factory's `CreateField` is read from the
regenerated dump of the factory (`Fit.Gen.Prof.mesgs`). Syntax: harness/fam_typed.go.
`--spec`: `typedrt` → `typedNormalFull` (what the property demands; equal to `typedNormal`, what the code does, outside the
classes of KF-C13-1 / KF-C13-2 / KF-C13-3, which `--kf` names); `typedid` → `normDoc` of the struct (the struct up to the
documented normalisation: `C13_struct_mesg_struct_partial`) unless the struct is outside the property's quantifier
(`hasTimeBeyond`, `¬ unknownsOk`: n/a); `typedmsm` (a struct as `Reset` builds it, then through ToMesg and back) → the same,
`--kf` names KF-C13-2 when the struct carries a mark on a non-eligible number (`hasStrayBit`).
`typednils`: as `typedrt`, but every EMPTY array value of the message is handed to the code as a proto.Value built from a
nil Go slice; for the accessors (`SliceUint8()` … on a nil slice return nil) that is the invalid value, so the model
replaces the value of every stored field by `.invalid` (`nilify`); unknown fields are kept verbatim and print the same.
-/
namespace Drv.Typed
open Drv Fit.Value Fit.Msg Fit.Typed

def tableOf (name : String) : Option MesgTable :=
  let p := Fit.ProfileSpec.pack (name.toUTF8.toList.map UInt8.toNat)
  Fit.Gen.Mesgdef.tables.find? (·.name == p)

/-! ### factories -/

inductive Fac | std | unk | alt | nil
  deriving BEq

def facField (fac : Fac) (mesgNum num : Nat) : Field :=
  match fac with
  | .std => { base := some (stdBase mesgNum num), value := .invalid, isExpanded := false }
  | .unk => { base := some (unknownBase num), value := .invalid, isExpanded := false }
  | .alt =>
    let b := stdBase mesgNum num
    { base := some { b with nameKnown := true, scale := 0x4000000000000000, offset := 0xBFF0000000000000, accumulate := !b.accumulate },
      value := .invalid, isExpanded := true }
  | .nil => { base := none, value := .invalid, isExpanded := false }

/-- `o:nil` (default options) | `o:<i|->,<std|zero|unk|alt|nil>` -/
def parseOpts (s : String) : Option (Options × Fac) :=
  if s == "o:nil" then some ({ includeExpanded := false }, .std) else
  match stripPrefix? s "o:" with
  | none => none
  | some r => match r.splitOn "," with
    | [i, f] =>
      if i != "i" && i != "-" then none else
      let fac := match f with
        | "std" | "zero" => some Fac.std | "unk" => some Fac.unk | "alt" => some Fac.alt | "nil" => some Fac.nil | _ => none
      fac.map fun fc => ({ includeExpanded := i == "i" }, fc)
    | _ => none

/-! ### struct text -/

def printSlot : SlotVal → String
  | .val (.bool v) => if v ≥ 2 && v != 255 then "rb:" ++ leHex 1 v else printValue (.bool v)   -- a typedef.Bool other than 0 / 1 / 255
  | .val v => printValue v
  | .time t => s!"t:{t}"

def printStruct (T : MesgTable) (st : Struct) : String :=
  let marks := (List.range 256).filter (isExpanded T st)
  "S{" ++ ";".intercalate (st.vals.map printSlot) ++ "|" ++
    (if marks.isEmpty then "-" else ",".intercalate (marks.map toString)) ++ "|" ++
    ";".intercalate (st.unknown.map printField) ++ "|" ++ ";".intercalate (st.dev.map printDevField) ++ "}"

def parseIntDec (s : String) : Option Int :=
  let (neg, d) := if s.startsWith "-" then (true, (s.drop 1).toString) else (false, s)
  if d.isEmpty || !d.all Char.isDigit || (d.length > 1 && d.startsWith "0") || (neg && d == "0") then none
  else d.toNat?.map fun n => if neg then -(n : Int) else (n : Int)

def parseSlot (s : Slot) (txt : String) : Option SlotVal :=
  match s.kind with
  | .time => do
    let r ← stripPrefix? txt "t:"
    let t ← parseIntDec r
    if t > 2 ^ 40 || t < -(2 ^ 40 : Int) then none else some (.time t)
  | .bool =>
    if let some r := stripPrefix? txt "rb:" then do
      let b ← parseHexByte r
      if b ≥ 2 && b != 255 && r == leHex 1 b then some (.val (.bool b)) else none
    else do
      let v ← parseValue txt
      if shapeOk s (.val v) then some (.val v) else none
  | _ => do
    let v ← parseValue txt
    if shapeOk s (.val v) then some (.val v) else none

def parseMarks (T : MesgTable) (s : String) : Option Nat :=
  if s == "-" then some 0 else do
    let ks ← (s.splitOn ",").mapM fun m => parseDec m 256
    -- strictly increasing, canonical decimals, each accepted by MarkAsExpandedField (an eligible slot)
    if !(ks.zip (ks.drop 1)).all (fun p => p.1 < p.2) then none
    if !((s.splitOn ",").zip ks).all (fun p => p.1 == toString p.2) then none
    if !ks.all (fun k => T.slots.any fun sl => sl.num == k && sl.canExpand) then none
    some (ks.foldl (fun acc k => acc ||| (1 <<< k)) 0)

def parseStruct (T : MesgTable) (txt : String) : Option Struct :=
  if !txt.startsWith "S{" || !txt.endsWith "}" then none else
  match ((txt.drop 2).dropEnd 1).toString.splitOn "|" with
  | [sl, mk, uf, df] => do
    let slots := if sl.isEmpty then [] else sl.splitOn ";"
    if slots.length != T.slots.length then none
    let vals ← (T.slots.zip slots).mapM fun p => parseSlot p.1 p.2
    let state ← parseMarks T mk
    let unknown ← if uf.isEmpty then some [] else (uf.splitOn ";").mapM parseField
    let dev ← if df.isEmpty then some [] else (df.splitOn ";").mapM parseDevField
    if !dev.isEmpty && !T.hasDev then none
    some { vals := vals, state := state, unknown := unknown, dev := dev }
  | _ => none

/-! ### handlers -/

def isEmptyArray : Value → Bool
  | .sliceString vs => vs.isEmpty
  | .sliceBool vs | .sliceInt8 vs | .sliceUint8 vs | .sliceInt16 vs | .sliceUint16 vs | .sliceInt32 vs
  | .sliceUint32 vs | .sliceInt64 vs | .sliceUint64 vs | .sliceFloat32 vs | .sliceFloat64 vs => vs.isEmpty
  | _ => false

/-- a proto.Value built from a nil Go slice, as the typed accessors see it -/
def nilify (T : MesgTable) (m : Message) : Message :=
  { m with fields := m.fields.map fun f => if stored T f && isEmptyArray f.value then { f with value := .invalid } else f }

def fromMesgG (nils withStruct spec : Bool) (args : List String) : String :=
  match args with
  | [name, o, m] =>
    match tableOf name, parseOpts o, parseMessage m with
    | some T, some (opts, fac), some msg0 =>
      let msg := if nils then nilify T msg0 else msg0
      if spec then printMessage (typedNormalFull T (facField fac T.num) opts msg) else
      match ofMesg T msg with
      | .panic => "panic"
      | .ok st =>
        let out := printMessage (toMesg T (facField fac T.num) opts st)
        if withStruct then printStruct T st ++ " " ++ out else out
    | _, _, _ => "bad-op"
  | _ => "bad-op"

def fromMesg (withStruct spec : Bool) (args : List String) : String := fromMesgG false withStruct spec args

/-- the known-finding classes of a message → struct → message op -/
def kfOf (nils : Bool) (args : List String) : String :=
  match args with
  | [name, _, m] =>
    match tableOf name, parseMessage m with
    | some T, some msg0 =>
      let msg := if nils then nilify T msg0 else msg0
      let ids := (if hasForeign T msg then ["KF-C13-1"] else []) ++ (if hasStrayMark T msg then ["KF-C13-2"] else []) ++
        (if hasLostDev T msg then ["KF-C13-3"] else [])
      if ids.isEmpty then "-" else ",".intercalate ids
    | _, _ => "-"
  | _ => "-"

def structToMesg (args : List String) : String :=
  match args with
  | [name, o, s] =>
    match tableOf name with
    | none => "bad-op"
    | some T =>
      match parseOpts o, parseStruct T s with
      | some (opts, fac), some st =>
        let m := toMesg T (facField fac T.num) opts st
        match ofMesg T m with
        | .panic => "panic"
        | .ok st' => printMessage m ++ " " ++ printStruct T st'
      | _, _ => "bad-op"
  | _ => "bad-op"

def structId (spec : Bool) (args : List String) : String :=
  match args with
  | [name, s] =>
    match tableOf name with
    | none => "bad-op"
    | some T =>
      match parseStruct T s with
      | none => "bad-op"
      | some st =>
        if spec then
          (if wellTyped T st && unknownsOk T st && !hasTimeBeyond T st then printStruct T (normDoc T st) else "n/a") else
        match ofMesg T (toMesg T (facField .std T.num) { includeExpanded := true } st) with
        | .panic => "panic"
        | .ok st' => printStruct T st'
  | _ => "bad-op"

/-- `typedmsm <Name> <message>`: `s := NewXxx(&m)`; `s' := NewXxx(&s.ToMesg({std, IncludeExpandedFields}))` → `<s> <s'>`;
mode 1 = what the property demands for `s'` (`normDoc s`), mode 2 = the known-finding classes -/
def mesgStructBack (mode : Nat) (args : List String) : String :=
  match args with
  | [name, m] =>
    match tableOf name, parseMessage m with
    | some T, some msg =>
      match ofMesg T msg with
      | .panic => if mode == 0 then "panic" else if mode == 1 then "n/a" else "-"
      | .ok st =>
        if mode == 2 then (if hasStrayBit T st then "KF-C13-2" else "-") else
        if mode == 1 then
          (if wellTyped T st && unknownsOk T st && !hasTimeBeyond T st then printStruct T st ++ " " ++ printStruct T (normDoc T st) else "n/a") else
        match ofMesg T (toMesg T (facField .std T.num) { includeExpanded := true } st) with
        | .panic => "panic"
        | .ok st' => printStruct T st ++ " " ++ printStruct T st'
    | _, _ => if mode == 0 then "bad-op" else if mode == 1 then "n/a" else "-"
  | _ => if mode == 0 then "bad-op" else if mode == 1 then "n/a" else "-"

def nilStruct (args : List String) : String :=
  match args with
  | [name] =>
    match tableOf name with
    | none => "bad-op"
    | some T =>
      match ofMesg T { num := T.num, fields := [], devFields := [] } with
      | .panic => "panic"
      | .ok st => printStruct T st ++ " " ++ printMessage (toMesg T (facField .std T.num) { includeExpanded := false } st)
  | _ => "bad-op"

/-- `s := NewXxx(&m1); s.Reset(&m2)`: Reset overwrites the whole struct, so only m2 counts (if m1 did not panic) -/
def resetReuse (args : List String) : String :=
  match args with
  | [name, m1, m2] =>
    match tableOf name, parseMessage m1, parseMessage m2 with
    | some T, some a, some b =>
      match ofMesg T a with
      | .panic => "panic"
      | .ok _ => match ofMesg T b with
        | .panic => "panic"
        | .ok st => printStruct T st
    | _, _, _ => "bad-op"
  | _ => "bad-op"

/-- `typedmark <Name> <struct> <k> <0|1>`: `ok := s.MarkAsExpandedField(k, flag)` → `ok=<0|1> <struct>` -/
def markOp (args : List String) : String :=
  match args with
  | [name, s, k, fl] =>
    match tableOf name with
    | none => "bad-op"
    | some T =>
      match parseStruct T s, parseDec k 256, fl with
      | some st, some k, "0" | some st, some k, "1" =>
        let r := markAsExpanded T st k (fl == "1")
        s!"ok={if r.2 then 1 else 0} " ++ printStruct T r.1
      | _, _, _ => "bad-op"
  | _ => "bad-op"

def hMS : Handler := modelOnly (fromMesg true false)
def hRT : Handler := fun r =>
  match r.mode with
  | .model => fromMesg false false r.args
  | .spec => match fromMesg false false r.args with
    | "bad-op" => "n/a"
    | "panic" => "n/a"      -- a nil FieldBase is outside the property's quantifier
    | _ => fromMesg false true r.args
  | .kf => kfOf false r.args
  | .prop => "n/a"
def hNils : Handler := fun r =>
  match r.mode with
  | .model => fromMesgG true true false r.args
  | .spec => match fromMesgG true false false r.args with
    | "bad-op" => "n/a"
    | "panic" => "n/a"
    | _ => match fromMesgG true true false r.args with
      | s => (s.splitOn " ").head! ++ " " ++ fromMesgG true false true r.args
  | .kf => kfOf true r.args
  | .prop => "n/a"
/-- `--prop` for `typedsm` ("invalid-valued fields omitted", evaluated on the implementation's own answer): every field of
the emitted message that belongs to a slot of the struct carries a value that is worth something to the typed layer by the
protocol's notion of invalid (`specVal`, which looks at kind / value type / base type only — not at the probed sentinel) and
is in the slot's normal form (fixed arrays of the declared length) -/
def emittedValid (args : List String) (impl : String) : String :=
  match args with
  | [name, _, stxt] =>
    match tableOf name, (impl.splitOn " ").head? with
    | some T, some mtxt =>
      -- structs outside the property's quantifier (a time the protocol cannot hold, UnknownFields the message type knows)
      let inScope := match parseStruct T stxt with
        | some st => wellTyped T st && unknownsOk T st && !hasTimeBeyond T st
        | none => false
      if !inScope then "n/a" else
      match parseMessage mtxt with
      | none => if impl == "bad-op" || impl == "panic" then "n/a" else "fail:unparsable"
      | some m =>
        let bad := m.fields.filter fun f =>
          stored T f && T.slots.any fun sl => numIs sl.num f && specVal sl f.value != some f.value
        if bad.isEmpty then "ok" else "fail:invalid-valued field emitted " ++ ";".intercalate (bad.map printField)
    | _, _ => "n/a"
  | _ => "n/a"

def hSM : Handler := fun r =>
  match r.mode with
  | .model => structToMesg r.args
  | .kf => "-"
  | .spec => "n/a"
  | .prop => emittedValid r.args r.impl
def hID : Handler := fun r =>
  match r.mode with
  | .model => structId false r.args
  | .spec => match structId true r.args with
    | "bad-op" => "n/a"
    | s => s
  | .kf => "-"
  | .prop => "n/a"
def hMSM : Handler := fun r =>
  match r.mode with
  | .model => mesgStructBack 0 r.args
  | .spec => mesgStructBack 1 r.args
  | .kf => mesgStructBack 2 r.args
  | .prop => "n/a"
def hNil : Handler := modelOnly nilStruct
def hSeq : Handler := modelOnly resetReuse
def hMark : Handler := modelOnly markOp

end Drv.Typed
