import Driver.Util
import FitModel.ProfileSpec
import FitModel.Generated.Xlsx
import FitModel.Generated.XlsxTypes
import FitModel.Generated.ProfileTables
import FitModel.Generated.ProfileTypes
import FitModel.Generated.ProfileStrs
-- @family pmesgx Drv.Profile.hProw
-- @family pfield Drv.Profile.hPfield
-- @family ptype Drv.Profile.hPtype
-- @family pstr Drv.Profile.hPstr
/-!
Driver for the family `profilerows` (C17). Model answer = the regenerated dump of the compiled packages
(`Fit.Gen.Prof`), `--spec` = the independent reading of Profile.xlsx (`Fit.Gen.Xlsx`; for the types: minus exactly the rows
`Fit.ProfileSpec.r7Dropped` lists — reading rule R7), `--kf` = the row mentions one of the three spell-corrected identifiers. Rendering as in harness/fam_profile.go.
-/
namespace Drv.Profile
open Drv Fit.ProfileSpec Fit.Gen

def escByte (b : Nat) : String :=
  let c := Char.ofNat b
  if c.isAlphanum || c == '_' then String.singleton c
  else "%" ++ String.ofList ([hexDigit (b / 16 % 16), hexDigit (b % 16)].map Char.toUpper)

def esc (packed : Nat) : String := String.join ((unpack packed).map escByte)

def fl (b : Bool) (c : String) : String := if b then c else "-"

def renderComps (cs : List Comp) : String :=
  "[" ++ ",".intercalate (cs.map fun c => s!"C{c.num}/{hexN 16 c.scale}/{hexN 16 c.offset}/{c.bits}/{fl c.acc "c"}") ++ "]"

def renderSub (s : Sub) : String :=
  s!"S{esc s.name}/{esc s.ptype}/{hexN 16 s.scale}/{hexN 16 s.offset}/{esc s.units}/{renderComps s.comps}/[" ++
    ",".intercalate (s.maps.map fun m => s!"M{m.refNum}={m.refVal}") ++ "]"

def renderField (f : FieldRow) : String :=
  s!"F{f.num}:{esc f.name}:{esc f.ptype}:{f.baseType}:{fl f.array "a"}:{fl f.acc "c"}:{hexN 16 f.scale}:{hexN 16 f.offset}:{esc f.units}:" ++
    renderComps f.comps ++ ":[" ++ ",".intercalate (f.subs.map renderSub) ++ "]"

def renderMesg (m : Mesg) : String :=
  " ".intercalate ([toString m.num, esc m.name] ++ m.fields.map renderField)

/-- `createUnknownField(num)`: name "unknown", profile type 0 ("enum"), base type 0, scale 1, offset 0 -/
def unknownField (k : Nat) : FieldRow :=
  { num := k, name := 0x1756e6b6e6f776e, ptype := 0x1656e756d, baseType := 0, array := false, acc := false,
    scale := 0x3ff0000000000000, offset := 0, units := 1, comps := [], subs := [] }

/-- where a row is read from: the dump of the compiled packages, the spreadsheet, or the spreadsheet with exactly the three
spell-corrections of KF-C17-1 applied (`Fit.ProfileSpec.f14`) -/
inductive Src | prof | xlsx | xlsxFixed
  deriving BEq

def tables : Src → List Mesg
  | .prof => Prof.mesgs
  | .xlsx => Xlsx.mesgs
  | .xlsxFixed => Xlsx.mesgs.map (Mesg.fix f14)
def typeRows : Src → List TypeRow
  | .prof => Prof.types
  -- reading rule R7 as the explicit list of rows it drops (`C17_dedupe_exact`, `C17_types_eq_xlsx_listed`): a constant missing
  -- from the compiled packages that is not in `r7Dropped` is a failing row here, whatever its comment says
  | .xlsx => Xlsx.types.map (TypeRow.dropListed r7Dropped)
  | .xlsxFixed => Xlsx.types.map fun t => (t.dropListed r7Dropped).fix f14

def prow (spec : Src) (args : List String) : String :=
  match args with
  | [n] => match n.toNat? with
    | some n => match (tables spec).find? (·.num == n) with
      | some m => renderMesg m
      | none => "none"
    | none => "bad-op"
  | _ => "bad-op"

def pfield (spec : Src) (args : List String) : String :=
  match args with
  | [n, k] => match n.toNat?, k.toNat? with
    | some n, some k =>
      if k ≥ 256 then "bad-op" else
      match (tables spec).find? (·.num == n) with
      | some m => match m.fields.find? (·.num == k) with
        | some f => renderField f
        | none => renderField (unknownField k)
      | none => renderField (unknownField k)
    | _, _ => "bad-op"
  | _ => "bad-op"

def ptype (spec : Src) (args : List String) : String :=
  match args with
  | [i] => match i.toNat? with
    | some i => match (typeRows spec)[i]? with
      | some t => " ".intercalate ([esc t.name, toString t.baseType] ++ t.consts.map fun c => s!"{c.value}={esc c.name}")
      | none => "none"
    | none => "none"
  | _ => "none"

def btSize (t : Nat) : Nat := Prof.btSizes.getD t 0

/-- invalid value of a base type: all ones, 0 for the z types (uint8z 10, uint16z 139, uint32z 140, uint64z 144) -/
def baseInvalid (bt : Nat) : Nat :=
  if bt == 10 || bt == 139 || bt == 140 || bt == 144 then 0 else 2 ^ (8 * btSize bt) - 1

def pstr (spec : Src) (args : List String) : String :=
  match args with
  | [i] => match i.toNat? with
    | some i =>
      if spec != .prof then
        -- what the property demands: every constant of the spreadsheet maps to its name and back
        match (typeRows spec)[i]? with
        | some t => " ".intercalate ([esc t.name, s!"inv={baseInvalid t.baseType}/{baseInvalid t.baseType}"] ++
            t.consts.map fun c => s!"{c.value}={esc c.name}={c.value}")
        | none => "none"
      else match Prof.strTables[i]? with
        | some t => " ".intercalate ([esc t.name, s!"inv={t.invalid}/{t.invalidBack}"] ++
            t.rows.map fun r => s!"{r.value}={esc r.str}={r.back}")
        | none => "none"
    | none => "none"
  | _ => "none"

/-- class of KF-C17-1: the spreadsheet row (message / field / type) this op reads carries one of the three spellings of
`Fit.ProfileSpec.f14` AND the three spell-corrections are the ONLY difference between the spreadsheet row and the row of the
compiled packages (a fourth corrected identifier, or any other difference in the same row, is not in the class) -/
def kfClass (op : String) (f : Src → List String → String) (args : List String) : String :=
  let mentions : Bool :=
    match op, args with
    | "pmesgx", [n] => match n.toNat? with
      | some n => (Xlsx.mesgs.find? (·.num == n)).any (Mesg.mentions f14)
      | none => false
    | "pfield", [n, k] => match n.toNat?, k.toNat? with
      | some n, some k => (Xlsx.mesgs.find? (·.num == n)).any fun m => (m.fields.find? (·.num == k)).any (FieldRow.mentions f14)
      | _, _ => false
    | _, [i] => match i.toNat? with
      | some i => (Xlsx.types[i]?).any (TypeRow.mentions f14)
      | none => false
    | _, _ => false
  if mentions && f .prof args == f .xlsxFixed args then "KF-C17-1" else "-"

def mk (op : String) (f : Src → List String → String) : Handler := fun r =>
  match r.mode with
  | .model => f .prof r.args
  | .spec => f .xlsx r.args
  | .kf => kfClass op f r.args
  | .prop => "n/a"

def hProw : Handler := mk "pmesgx" prow
def hPfield : Handler := mk "pfield" pfield
def hPtype : Handler := mk "ptype" ptype
def hPstr : Handler := mk "pstr" pstr

end Drv.Profile
