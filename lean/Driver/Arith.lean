import FitModel.F64
import FitModel.ScaleOffset
import FitModel.ScaleOffsetProfile
import FitModel.TimeAngle
import FitModel.Bits
import FitModel.Accum
import FitModel.Generated.ProfileArith
import FitModel.ValidatorArith
import Driver.Util
import Driver.ValCodec
import Driver.MsgCodec
-- @family f64 Drv.Arith.hF64
-- @family so Drv.Arith.hSo
-- @family sox Drv.Arith.hSox
-- @family sotx Drv.Arith.hSotx
-- @family sodev Drv.Arith.hSoDev
-- @family ta Drv.Arith.hTa
-- @family tax Drv.Arith.hTax
-- @family bits Drv.Arith.hBits
-- @family accum Drv.Arith.hAccum
/-! Driver handlers of the arithmetic layer (C12 / C05): parsing and printing only; every answer is
computed by the definitions of `FitModel/F64.lean`, `ScaleOffset.lean`, … that the theorems are about. -/
namespace Drv.Arith
open Drv Fit.F64

def hexNat? (s : String) : Option Nat :=
  if s.isEmpty then none else s.toList.foldlM (fun acc c => (hexVal c).map (acc * 16 + ·)) 0

/-- exactly `w` hex digits -/
def hexW? (w : Nat) (s : String) : Option Nat := if s.length = w then hexNat? s else none

def parseIntTy : String → Option IntTy
  | "i8" => some .i8 | "u8" => some .u8 | "i16" => some .i16 | "u16" => some .u16
  | "i32" => some .i32 | "u32" => some .u32 | "i64" => some .i64 | "u64" => some .u64
  | _ => none

def b2s (b : Bool) : String := if b then "1" else "0"

def execF64 (args : List String) : String :=
  match args with
  | [op, a, b] =>
    if op == "cvt" then
      match parseIntTy a, hexW? 16 b with
      | some ty, some x => hexN (ty.bits / 4) (cvt ty x)
      | _, _ => "bad-op"
    else
      match hexW? 16 a, hexW? 16 b with
      | some x, some y =>
        match op with
        | "add" => hexN 16 (add x y) | "sub" => hexN 16 (sub x y)
        | "mul" => hexN 16 (mul x y) | "div" => hexN 16 (div x y)
        | "eq" => b2s (feq x y) | "lt" => b2s (flt x y) | "gt" => b2s (fgt x y)
        | _ => "bad-op"
      | _, _ => "bad-op"
  | [op, a] =>
    match op with
    | "round" => match hexW? 16 a with | some x => hexN 16 (round x) | none => "bad-op"
    | "f32" => match hexW? 16 a with | some x => hexN 8 (toF32 x) | none => "bad-op"
    | "of32" => match hexW? 8 a with | some y => hexN 16 (ofF32 y) | none => "bad-op"
    | "ofi" => match a.toInt? with
      | some i => if -(2 ^ 63 : Int) ≤ i ∧ i < 2 ^ 63 then hexN 16 (ofInt i) else "bad-op"
      | none => "bad-op"
    | "ofu" => match a.toNat? with
      | some n => if n < 2 ^ 64 then hexN 16 (ofInt n) else "bad-op"
      | none => "bad-op"
    | _ => "bad-op"
  | _ => "bad-op"

def hF64 : Handler := modelOnly execF64

/-! ### scaleoffset -/
open Fit.ScaleOffset Fit.Value Fit.Gen

/-- the Go type the harness uses for a base type (enum is carried as uint8) -/
def numOfBT (bt : Nat) : Option Num :=
  if bt = btEnum then some (.int .u8) else tgtOfBaseType bt

def numBits : Num → Nat
  | .int ty => ty.bits
  | .f32 => 32
  | .f64 => 64

def parseNum : String → Option Num
  | "f32" => some .f32 | "f64" => some .f64
  | s => (parseIntTy s).map .int

def parseRaws (s : String) (bits : Nat) : Option (List Nat) :=
  if s == "-" then some [] else (s.splitOn ",").mapM (hexW? (bits / 4))

def canon64 (x : Nat) : Nat := if isNaN x then nanBits else x
def canon32 (x : Nat) : Nat := if b32.decode x == .nan then b32.nanBits else x

/-- every NaN canonical (the harness prints them so) -/
def canonGo : GoVal → GoVal
  | .float64 x => .float64 (canon64 x)
  | .float32 x => .float32 (canon32 x)
  | .float64s xs => .float64s (xs.map canon64)
  | .float32s xs => .float32s (xs.map canon32)
  | g => g

def isFinite (x : Nat) : Bool := match decode x with | .fin _ _ _ => true | _ => false

/-- model of the harness' routes (what is called in which order); `Except.error` = the printed error -/
def roundTrip (route : String) (bt : Nat) (t : Num) (raws : List Nat) (s o : Nat) : Except String GoVal :=
  match route, raws with
  | "val", [r] => .ok (toAny (discardValue (applyValue (Fit.ScaleOffset.mkScalar t r) s o) bt s o))
  | "vals", rs => .ok (toAny (discardValue (applyValue (Fit.ScaleOffset.mkSlice t rs) s o) bt s o))
  | "any", [r] => .ok (discardAny (applyAny (goMkScalar t r) s o) bt s o)
  | "anys", rs => .ok (discardAny (applyAny (goMkSlice t rs) s o) bt s o)
  | "anyv", [r] => .ok (discardAny (.value (ofAny (applyAny (.value (Fit.ScaleOffset.mkScalar t r)) s o))) bt s o)
  | "gens", rs => .ok (goMkSlice t (discardSlice t (applySlice t rs s o) s o))
  | "validator", [r] =>
    let v := validatorRestore (applyValue (Fit.ScaleOffset.mkScalar t r) s o) bt s o
    if !(align v bt) then .error "err:type" else .ok (toAny v)
  | "csv", [r] =>
    match applyValue (Fit.ScaleOffset.mkScalar t r) s o with
    | .float64 x =>
      -- the cell is read through the scaled path iff the text written for `x` contains a '.' (`csvHasDot`, tied by `socd`);
      -- strconv's parsing of the shortest text gives back `x` (assumed)
      match csvCell x bt s o with
      | none => .error "err:parse"
      | some (some v) => .ok (toAny v)
      | some none => .ok .nil
    | v => match t with
      -- unit pair: integer text, read back by strconv.ParseInt/ParseUint
      | .int _ => .ok (toAny v)
      | _ => .error "n/a-text"
  | _, _ => .error "bad-op"

def fnvInit : UInt64 := 0xcbf29ce484222325
def fnvAdd (d : UInt64) (bytes : Nat) (v : Nat) : UInt64 := Id.run do
  let mut d := d
  for i in [0:bytes] do
    d := (d ^^^ ((v >>> (8 * i)) % 256).toUInt64) * 0x100000001b3
  return d

structure Dig where
  d : UInt64 := fnvInit
  n : Nat := 0
  fails : Nat := 0
  first : String := "-"

def Dig.add (g : Dig) (raw res bits : Nat) (typeOK : Bool) : Dig :=
  let bad := !typeOK || raw != res
  { d := fnvAdd g.d (bits / 8) res, n := g.n + 1, fails := g.fails + (if bad then 1 else 0),
    first := if bad && g.fails == 0 then hexN (bits / 4) raw else g.first }

def Dig.print (g : Dig) : String := s!"n={g.n} fails={g.fails} first={g.first} digest={hexN 16 g.d.toNat}"

/-- patterns and element type held by a Go value -/
def goPatterns (g : GoVal) : Option (Num × List Nat × Bool) :=
  match goScalarOf g with
  | some (t, p) => some (t, [p], true)
  | none => match goSliceOf g with
    | some (t, ps) => some (t, ps, false)
    | none => none

/-- the (scale, offset) pair occurs in the profile (or is the unit pair) -/
def pairInProfile (s o : Nat) : Bool :=
  isUnit s o || Fit.Gen.PA.triples.any fun t => t.2.1 == s && t.2.2 == o

/-- the domain on which the property demands the identity: an integer target type, a profile pair,
and for the 64-bit types a magnitude of at most 2^49 (`C12_helpers_int64`) -/
def inSpecDomain (bt : Nat) (t : Num) (raws : List Nat) (s o : Nat) : Bool :=
  match t, tgtOfBaseType bt with
  | .int ty, some (.int ty') =>
    ty == ty' && pairInProfile s o &&
      (ty.bits ≤ 32 || raws.all fun r => (ty.toInt r).natAbs ≤ 2 ^ 49)
  | _, _ => false

def isSliceRoute (r : String) : Bool := r == "vals" || r == "gens" || r == "anys"

/-- some raw value of the operation does not survive float64 `Discard ∘ Apply` exactly (class of F07) -/
def inexactFloatRT (t : Num) (raws : List Nat) (s o : Nat) : Bool :=
  !(isUnit s o) && raws.any fun r => discard (apply (toF64 t r) s o) s o != toF64 t r

def soSingle (mode : Mode) (args : List String) : String :=
  match args with
  | ["apply", ty, raw, s, o] =>
    match parseNum ty, hexW? 16 s, hexW? 16 o with
    | some t, some s, some o =>
      match hexW? (numBits t / 4) raw with
      | some r => if mode == .model then hexN 16 (canon64 (apply (toF64 t r) s o)) else if mode == .kf then "-" else "n/a"
      | none => "bad-op"
    | _, _, _ => "bad-op"
  | ["discard", x, s, o] =>
    match hexW? 16 x, hexW? 16 s, hexW? 16 o with
    | some x, some s, some o => if mode == .model then hexN 16 (canon64 (discard x s o)) else if mode == .kf then "-" else "n/a"
    | _, _, _ => "bad-op"
  | ["dv", bt, v, s, o] =>
    match hexW? 2 bt, parseValue v, hexW? 16 s, hexW? 16 o with
    | some bt, some v, some s, some o =>
      if mode == .model then printGoVal (canonGo (toAny (discardValue v bt s o))) else if mode == .kf then "-" else "n/a"
    | _, _, _, _ => "bad-op"
  | ["rt", route, bt, raws, s, o] =>
    match hexW? 2 bt, hexW? 16 s, hexW? 16 o with
    | some bt, some s, some o =>
      match numOfBT bt with
      | none => "bad-op"
      | some t =>
        match parseRaws raws (numBits t) with
        | none => "bad-op"
        | some rs =>
          match mode with
          | .model =>
            match roundTrip route bt t rs s o with
            | .ok g => printGoVal (canonGo g)
            | .error e => e
          | .spec =>
            if inSpecDomain bt t rs s o && !(route == "csv" && isUnit s o) then
              printGoVal (if isSliceRoute route then goMkSlice t rs else match rs with | [r] => goMkScalar t r | _ => .nil)
            else "n/a"
          | .kf => if inexactFloatRT t rs s o && pairInProfile s o then "KF-C12-1" else "-"
          | .prop => "n/a"
    | _, _, _ => "bad-op"
  | _ => "bad-op"

/-! ### `sodev`: the validator's route for a developer field mapped to a native field (C12 through `Fit.ValidatorA`) -/

def parseNative (s : String) : Option (Nat × Nat) :=
  match s.splitOn "." with
  | [m, f] => do
    let m ← m.toNat?
    let f ← f.toNat?
    if m < 65536 ∧ f < 256 ∧ s == s!"{m}.{f}" then some (m, f) else none
  | _ => none

/-- what one developer field mapped to the native field `(mn, fn)` is restored to when it carries `ApplyValue` of the raw
value: the native field is looked up in the regenerated standard factory on EVERY developer field
(`Fit.Validator.restoreDev` with `Fit.ValidatorA.D` / `stdOptions`), then the validator's integrity check -/
def devRoute (spec : Bool) (mn fn raw : Nat) : String :=
  let e := Fit.ValidatorA.stdFactory mn fn
  match tgtOfBaseType e.baseType with
  | some (.int ty) =>
    let t : Num := .int ty
    let rv := Fit.ScaleOffset.mkScalar t (raw % 2 ^ numBits t)
    if spec then
      -- the property: the raw value comes back (every field the factory knows is in range: C10_std_factory_in_range)
      if e.nameKnown then printValue rv else "n/a"
    else
      let fd : Fit.Validator.FieldDesc := ⟨0, 0, e.baseType, 255, 127, mn, fn⟩
      let d := Fit.Validator.restoreDev Fit.ValidatorA.D (Fit.ValidatorA.stdOptions false) fd ⟨0, 0, applyValue rv e.scale e.offset⟩
      match Fit.Validator.integrity d.value e.baseType with
      | some .typeMismatch => "err:type"
      | some .invalidUtf8 => "err:utf8"
      | some _ => "err:exceed"
      | none => printValue d.value
  | _ => "bad-op"

def hSoDev : Handler := fun r =>
  match r.args with
  | [a, b, raws] =>
    match parseNative a, parseNative b, (raws.splitOn ",").mapM (hexW? 16) with
    | some (ma, fa), some (mb, fb), some rs =>
      match r.mode with
      | .kf => "-"
      | .prop => "n/a"
      | m =>
        let spec := m == .spec
        let parts := rs.map fun raw => devRoute spec ma fa raw ++ "," ++ devRoute spec mb fb raw
        if parts.any (fun p => (p.splitOn "bad-op").length > 1) then "bad-op"
        else if spec && parts.any (fun p => (p.splitOn "n/a").length > 1) then "n/a"
        else ";".intercalate parts
    | _, _, _ => "bad-op"
  | _ => "bad-op"

def soTyped (mode : Mode) (args : List String) : String :=
  match args with
  | ["typed", mesg, field, raw] =>
    match lookupTyped mesg field with
    | none => "bad-op"
    | some a =>
      let ty := intTyOfCode a.ty
      match hexW? (ty.bits / 4) raw with
      | none => "bad-op"
      | some r =>
        let g := getScaled ty a.invalid r a.scale a.offset
        match mode with
        | .model => s!"g={hexN 16 g} s={hexN (ty.bits / 4) (setScaled ty a.invalid g a.scale a.offset)}"
        | .spec => if ty.bits ≤ 32 then s!"g={hexN 16 g} s={hexN (ty.bits / 4) r}" else "n/a"
        | .kf => if r != a.invalid && inexactFloatRT (.int ty) [r] a.scale a.offset then "KF-C12-2" else "-"
        | .prop => "n/a"
  | ["tset", mesg, field, x] =>
    match lookupTyped mesg field, hexW? 16 x with
    | some a, some x =>
      let ty := intTyOfCode a.ty
      if mode == .model then hexN (ty.bits / 4) (setScaled ty a.invalid x a.scale a.offset) else if mode == .kf then "-" else "n/a"
    | _, _ => "bad-op"
  | _ => "bad-op"

def hSo : Handler := fun r =>
  match r.args with
  | "typed" :: _ | "tset" :: _ => soTyped r.mode r.args
  | _ => soSingle r.mode r.args

def rangeRaws (lo n stride bits : Nat) : List Nat := (List.range n).map fun i => (lo + i * stride) % 2 ^ bits

def hSox : Handler := fun r =>
  match r.args with
  | [route, bt, s, o, lo, n] =>
    match hexW? 2 bt, hexW? 16 s, hexW? 16 o, lo.toNat?, n.toNat? with
    | some bt, some s, some o, some lo, some n =>
      match numOfBT bt with
      | none => "bad-op"
      | some t =>
        let bits := numBits t
        let raws := rangeRaws lo n 1 bits
        match r.mode with
        | .model =>
          if isSliceRoute route then
            match roundTrip route bt t raws s o with
            | .error e => e
            | .ok g =>
              match goPatterns g with
              | some (rt, ps, false) =>
                if ps.length != raws.length then "err:shape"
                else ((raws.zip ps).foldl (fun (d : Dig) (p : Nat × Nat) => d.add p.1 p.2 bits (rt == t)) {}).print
              | _ => "err:shape"
          else
            (raws.foldl (fun (d : Dig) raw =>
              match roundTrip route bt t [raw] s o with
              | .error "bad-op" => d
              | .error _ => d.add raw (0xeeeeeeeeeeeeeeee % 2 ^ bits) bits false
              | .ok g =>
                match goPatterns (canonGo g) with
                | some (rt, [p], true) => d.add raw (p % 2 ^ bits) bits (rt == t)
                | _ => d.add raw (0xeeeeeeeeeeeeeeee % 2 ^ bits) bits false) {}).print
        | .spec =>
          if inSpecDomain bt t raws s o && !(route == "csv" && isUnit s o) then
            (raws.foldl (fun (d : Dig) raw => d.add raw raw bits true) {}).print else "n/a"
        | .kf => if inexactFloatRT t raws s o && pairInProfile s o then "KF-C12-1" else "-"
        | .prop => "n/a"
    | _, _, _, _, _ => "bad-op"
  | _ => "bad-op"

def hSotx : Handler := fun r =>
  match r.args with
  | [mesg, field, lo, n, stride] =>
    match lookupTyped mesg field, lo.toNat?, n.toNat?, stride.toNat? with
    | some a, some lo, some n, some stride =>
      let ty := intTyOfCode a.ty
      let raws := rangeRaws lo n stride ty.bits
      match r.mode with
      | .model =>
        (raws.foldl (fun (d : Dig) raw =>
          d.add raw (setScaled ty a.invalid (getScaled ty a.invalid raw a.scale a.offset) a.scale a.offset) ty.bits true) {}).print
      | .spec => if ty.bits ≤ 32 then (raws.foldl (fun (d : Dig) raw => d.add raw raw ty.bits true) {}).print else "n/a"
      | .kf => if inexactFloatRT (.int ty) (raws.filter (· != a.invalid)) a.scale a.offset then "KF-C12-2" else "-"
      | .prop => "n/a"
    | _, _, _, _ => "bad-op"
  | _ => "bad-op"

/-! ### datetime, semicircles -/
open Fit.TimeAngle

def execTa (spec : Bool) (args : List String) : String :=
  match args with
  | ["u2t", v] => match hexW? 8 v with
    | some v => if spec then "n/a" else let t := toTime v; s!"{t.sec} {t.nsec}"
    | none => "bad-op"
  | ["rt", v] => match hexW? 8 v with
    | some v => if spec then hexN 8 v else hexN 8 (toUint32 (toTime v))
    | none => "bad-op"
  | ["s2d", v] => match hexW? 8 v with
    | some v => if spec then "n/a" else hexN 16 (toDegrees v)
    | none => "bad-op"
  | ["srt", v] => match hexW? 8 v with
    | some v => if spec then hexN 8 v else hexN 8 (toSemicircles (toDegrees v))
    | none => "bad-op"
  | ["d2s", x] => match hexW? 16 x with
    | some x => if spec then "n/a" else hexN 8 (toSemicircles x)
    | none => "bad-op"
  | ["t2u", sec, nsec] => match sec.toInt?, nsec.toNat? with
    | some sec, some nsec =>
      if nsec ≥ 1000000000 ∨ sec < -(2 ^ 40 : Int) ∨ sec > 2 ^ 40 then "bad-op"
      else if spec then "n/a" else hexN 8 (toUint32 ⟨sec, nsec⟩)
    | _, _ => "bad-op"
  | _ => "bad-op"

def hTa : Handler := modelSpec execTa

/-- `tax`: the implementation sweeps every value of the range. The model's number of failing values is 0 for
every range by `C12_datetime` / `C12_semicircles` (∀ v, model round trip = v); the driver evaluates the model
itself on the strided sample (forward conversion, digest) and, for short ranges, on every value. -/
def execTax (spec : Bool) (args : List String) : String :=
  match args with
  | [kind, lo, n, stride] =>
    match lo.toNat?, n.toNat?, stride.toNat? with
    | some lo, some n, some stride =>
      if lo + n > 2 ^ 32 ∨ stride = 0 ∨ (kind != "dt" ∧ kind != "sc") then "bad-op" else
      let dt := kind == "dt"
      let rt (v : Nat) : Nat := if dt then toUint32 (toTime v) else toSemicircles (toDegrees v)
      let (fails, first) : Nat × String :=
        if spec ∨ n > 2 ^ 16 then (0, "-")
        else (List.range n).foldl (fun (acc : Nat × String) i =>
          let v := lo + i
          if rt v != v then (acc.1 + 1, if acc.1 == 0 then hexN 8 v else acc.2) else acc) (0, "-")
      let cnt := (n + stride - 1) / stride
      let d := (List.range cnt).foldl (fun (d : UInt64) i =>
        let v := lo + i * stride
        if dt then
          let t := toTime v
          fnvAdd (fnvAdd d 8 (wrap 64 t.sec)) 4 t.nsec
        else fnvAdd d 8 (toDegrees v)) fnvInit
      s!"n={n} fails={fails} first={first} sample={hexN 16 d.toNat}"
    | _, _, _ => "bad-op"
  | _ => "bad-op"

def hTax : Handler := modelSpec execTax

/-! ### bits, accum -/

def storeString (ws : List Nat) : String :=
  let trimmed := (ws.reverse.dropWhile (· == 0)).reverse
  if trimmed.isEmpty then "-" else ",".intercalate (trimmed.map (hexN 16))

def execBits (args : List String) : String :=
  match args with
  | [] => "bad-op"
  | head :: toks =>
    let start : Option (Option (List Nat) × List String) :=
      if head.startsWith "mk:" then
        match parseValue (head.drop 3).toString with
        | some v => some (Fit.Bits.makeBits v, ["ok=1"])
        | none => none
      else if head.startsWith "st:" then
        let body := (head.drop 3).toString
        if body.isEmpty then some (some Fit.Bits.zeroStore, [])
        else
          match (body.splitOn ",").mapM hexNat? with
          | some ws =>
            if ws.length > 32 ∨ ws.any (· ≥ 2 ^ 64) then none
            else some (some (ws ++ List.replicate (32 - ws.length) 0), [])
          | none => none
      else none
    match start with
    | none => "bad-op"
    | some (none, _) => "ok=0"
    | some (some st, out0) =>
      let r := toks.foldl (fun (acc : Option (List Nat × List String)) tok =>
        match acc with
        | none => none
        | some (st, out) =>
          match stripPrefix? tok "p:" with
          | some ns =>
            match parseDec ns 256 with
            | some n => let r := Fit.Bits.pull st n; some (r.2, out ++ ["v:" ++ hexN 8 r.1])
            | none => none
          | none => none) (some (st, out0))
      match r with
      | none => "bad-op"
      | some (st, out) => " ".intercalate (out ++ ["st=" ++ storeString st])

def hBits : Handler := modelOnly execBits

def decs (s : String) (k : Nat) : Option (List Nat) :=
  let ps := s.splitOn "."
  if ps.length != k then none else ps.mapM fun p => parseDec p (2 ^ 32)

def execAccum (args : List String) : String :=
  let r := args.foldl (fun (st : Option (Fit.Accum.Acc × List String)) tok =>
    match st with
    | none => none
    | some (a, out) =>
      if tok == "r" then some (Fit.Accum.reset, out)
      else match stripPrefix? tok "c:" with
        | some b =>
          match decs b 3 with
          | some [m, f, v] => if m > 65535 ∨ f > 255 then none else some (Fit.Accum.collect a m f v, out)
          | _ => none
        | none =>
          match stripPrefix? tok "a:" with
          | some b =>
            match decs b 4 with
            | some [m, f, v, bits] =>
              if m > 65535 ∨ f > 255 ∨ bits > 255 then none
              else let r := Fit.Accum.accumulate a m f v bits; some (r.2, out ++ ["v:" ++ hexN 8 r.1])
            | _ => none
          | none => none) (some (Fit.Accum.reset, []))
  match r with
  | none => "bad-op"
  | some (a, out) =>
    let tab := a.map fun e => s!"{e.mesgNum}.{e.fieldNum}.{hexN 8 e.last}.{hexN 8 e.value}"
    " ".intercalate (out ++ ["tab=" ++ ",".intercalate tab])

def hAccum : Handler := modelOnly execAccum

end Drv.Arith
