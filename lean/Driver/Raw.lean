import FitModel.Raw
import FitModel.DecProg
import FitModel.FitFormat
import Driver.DecFrag
-- @family raw Drv.RawD.hRaw
-- @family rawdec Drv.RawD.hRawDec
-- @family rawdech Drv.RawD.hRawDecUsed
/-!
`raw b:<hex> [s:<lens>] [fail=<j>]` — `decoder.NewRaw().Decode(r, fn)` over a reader delivering the bytes according
to the schedule (`bytes.NewReader` without `s:`); `fn` fails at its `j`-th call. Answer: how it ended, the returned
byte count, completed sequences, number of callback invocations, a digest of the (flag, length) series and a digest
of the (flag, length, bytes) series. `--spec`: on streams the independent framing spec (`FitFormat`) parses, the
answer its segmentation demands.

`rawdec b:<hex>` — the real RawDecoder and the real Decoder (checksum ignored, definition and message listeners)
on the same stream, itemised. `--prop`: C16's agreement predicate evaluated on the implementation's two outputs.
-/
namespace Drv.RawD
open Drv Fit.ReadBuffer

def fnvInit : UInt64 := 0xcbf29ce484222325
def fnvByte (d : UInt64) (b : Nat) : UInt64 := (d ^^^ b.toUInt64) * 0x100000001b3
def fnvLen (d : UInt64) (n : Nat) : UInt64 :=
  fnvByte (fnvByte (fnvByte (fnvByte d (n % 256)) (n / 256 % 256)) (n / 65536 % 256)) (n / 16777216 % 256)

/-- digests of a segment series: (flag, length) only, and (flag, length, bytes) -/
def digests (segs : List (Nat × Bytes)) : UInt64 × UInt64 :=
  segs.foldl (fun (acc : UInt64 × UInt64) s =>
    (fnvLen (fnvByte acc.1 s.1) s.2.length, s.2.foldl fnvByte (fnvLen (fnvByte acc.2 s.1) s.2.length))) (fnvInit, fnvInit)

def errName : Fit.Raw.Err → String
  | .io e => Drv.RBuf.errName e
  | .notFit => "notfit" | .defMissing => "defmissing" | .callback => "cb" | .panic => "panic"

def showStatus (s : Option Fit.Raw.Err) : String := match s with | none => "ok" | some e => "err:" ++ errName e

def showRaw (o : Fit.Raw.Out) (n : Nat) : String :=
  let (dl, db) := digests (o.segs.map fun s => (s.flag, s.bytes))
  s!"{showStatus o.status} n={n} q={o.seqs} segs={o.segs.length} l={hexN 16 dl.toNat} d={hexN 16 db.toNat}"

structure Args where
  frag : Drv.DFrag.Args
  failAt : Option Nat := none

def parseArgs (args : List String) : Option Args :=
  let (f, rest) := args.partition (·.startsWith "fail=")
  match Drv.DFrag.parseArgs rest with
  | none => none
  | some a =>
    match f with
    | [] => some ⟨a, none⟩
    | [t] => ((t.drop 5).toString.toNat?).map fun j => ⟨a, some j⟩
    | _ => none

def kindFlag : Fit.FitFormat.Kind → Nat
  | .header => Fit.Gen.Reader.rawFlagFileHeader
  | .definition => Fit.Gen.Reader.rawFlagMesgDef
  | .data => Fit.Gen.Reader.rawFlagMesgData
  | .crc => Fit.Gen.Reader.rawFlagCRC

def hRaw : Handler := fun r =>
  match parseArgs r.args with
  | none => if r.mode == .model then "bad-op" else if r.mode == .kf then "-" else "n/a"
  | some a =>
    let prog := Fit.Raw.decode a.failAt (a.frag.bytes.length + 1) {}
    match r.mode with
    | .model =>
      let (o, n) := runFullN prog a.frag.schedule 0
      showRaw o n
    | .spec =>
      -- the independent framing spec: on a stream it parses (and no callback failure, no reader failure) the raw decoder
      -- must report exactly its segmentation
      if a.failAt.isSome || !cleanB a.frag.schedule then "n/a" else
      let bs := bytesOf a.frag.schedule
      match Fit.FitFormat.parseStream bs with
      | none => "n/a"
      | some [] => "n/a"           -- the empty stream is not a FIT stream
      | some seqs =>
        let segs := (seqs.map Fit.FitFormat.segmentsOf).flatten
        -- the segments of a parsed stream are consecutive: cut them off a running remainder (a segment whose offset is
        -- not the running position would show as a different digest)
        let (cut, _, _) := segs.foldl (fun (acc : List (Nat × Bytes) × Nat × Bytes) s =>
          let rest := if s.2.1 == acc.2.1 then acc.2.2 else bs.drop s.2.1
          ((kindFlag s.1, rest.take s.2.2) :: acc.1, s.2.1 + s.2.2, rest.drop s.2.2)) ([], 0, bs)
        let (dl, db) := digests cut.reverse
        s!"ok n={bs.length} q={seqs.length} segs={segs.length} l={hexN 16 dl.toNat} d={hexN 16 db.toNat}"
    | .kf => "-"
    | .prop =>
      -- a failure of the reader that `io.ReadFull` hands to the raw decoder must be the error `Decode` returns
      if cleanB a.frag.schedule then "n/a" else
      match firstFullErr prog a.frag.schedule with
      | none => "n/a"
      | some e =>
        let status := ((r.impl.splitOn " ").filter (· ≠ "")).headD ""
        if status == "err:" ++ Drv.RBuf.errName e then "ok" else s!"fail:reader-error-{Drv.RBuf.errName e}-not-returned"

/-! ### `rawdec`: the two decoders side by side -/

def showItem (s : Fit.Raw.Seg) : String :=
  if s.flag == Fit.Gen.Reader.rawFlagFileHeader then s!" H{s.bytes.length}"
  else if s.flag == Fit.Gen.Reader.rawFlagMesgDef then " D" ++ hex s.bytes
  else if s.flag == Fit.Gen.Reader.rawFlagMesgData then s!" M{s.bytes.headD 0}.{s.bytes.length}"
  else " C"

def execRawDec (bs : Bytes) : String :=
  -- the real Decoder reads through its read buffer (bytes.Reader, default size): same setting, so that the
  -- end-of-stream error class corresponds (KF-C08-1); C16's theorems are about the exact reader
  let dec := match runRB (Fit.DecProg.decodeLoop false (bs.length + 1) true []) (RB.fresh (contiguous bs) (Fit.Gen.Reader.defaultReadBufferSize : Int)) with
    | .done o => o
    | .panic => { evs := [], status := some (.io (.custom 999999)) }
  let rawP := Fit.Raw.decode none (bs.length + 1) {}
  let raw := runExact rawP bs
  let n := consumedExact rawP bs
  s!"dec={Drv.DFrag.showOut dec} raw={showStatus raw.status};{n};{raw.seqs}{String.join (raw.segs.map showItem)}"

/-- items of the two outputs in a common form: definition (header, arch, global number, fields, developer fields),
data (header), sequence end -/
inductive Item
  | def_ (header arch mesgNum : Nat) (fields devs : List (Nat × Nat × Nat))
  | data (header : Nat)
  | seqEnd
  deriving DecidableEq, Repr

def parseTrips (s : String) : Option (List (Nat × Nat × Nat)) :=
  if s == "" then some [] else
  (s.splitOn ";").mapM fun t =>
    match (t.splitOn ".").mapM String.toNat? with
    | some [a, b, c] => some (a, b, c)
    | _ => none

/-- `D<h>.<a>.<m>(f;f)(d;d)` -/
def parseDecD (t : String) : Option Item :=
  match (t.drop 1).toString.splitOn "(" with
  | [hd, fs, ds] =>
    match (hd.splitOn ".").mapM String.toNat?, parseTrips ((fs.dropEnd 1).toString), parseTrips ((ds.dropEnd 1).toString) with
    | some [h, a, m], some f, some d => some (.def_ h a m f d)
    | _, _, _ => none
  | _ => none

/-- the full decoder's items, the sizes of the sequences reconstructed from its own events
(header size + records as its definitions prescribe + 2), or `none` if the answer is malformed -/
def decItems (toks : List String) : Option (List Item × Nat) :=
  let rec go : List String → List (Nat × Nat) → List Item → Nat → Nat → Option (List Item × Nat)
    | [], _, acc, _, total => some (acc.reverse, total)
    | t :: ts, defs, acc, cur, total =>
      if t.startsWith "after=" then go ts defs acc cur total
      else if t.startsWith "D" then
        match parseDecD t with
        | some (.def_ h a m f d) =>
          let len := 6 + 3 * f.length + (if h &&& 0x20 == 0x20 then 1 + 3 * d.length else 0)
          let payload := (f.map (·.2.1)).foldl (· + ·) 0 + (d.map (·.2.1)).foldl (· + ·) 0
          go ts ((h &&& 0xF, payload) :: defs) (.def_ h a m f d :: acc) (cur + len) total
        | _ => none
      else if t.startsWith "R" then
        match ((t.drop 1).toString.splitOn ".").mapM String.toNat? with
        | some (h :: _) =>
          match defs.find? (·.1 == Fit.Raw.localMesgNum h) with
          | some p => go ts defs (.data h :: acc) (cur + 1 + p.2) total
          | none => none
        | _ => none
      else if t.startsWith "S" then
        match ((t.drop 1).toString.splitOn ".").mapM String.toNat? with
        | some (size :: _) => go ts [] (.seqEnd :: acc) 0 (total + size + cur + 2)
        | _ => none
      else none
  go toks [] [] 0 0

def parseRawDef (bs : Bytes) : Option Item :=
  match bs with
  | h :: _ :: arch :: m0 :: m1 :: nf :: rest =>
    let m := if arch = 0 then m0 + 256 * m1 else 256 * m0 + m1
    let f := Fit.DecProg.triplets (rest.take (3 * nf))
    let d := if h &&& 0x20 == 0x20 then Fit.DecProg.triplets ((rest.drop (3 * nf)).drop 1) else []
    some (.def_ h arch m f d)
  | _ => none

def rawItems (toks : List String) : Option (List Item) :=
  toks.foldr (fun t acc =>
    match acc with
    | none => none
    | some l =>
      if t.startsWith "H" then some l
      else if t.startsWith "D" then
        match unhex (t.drop 1).toString with
        | some bs => (parseRawDef bs).map (· :: l)
        | none => none
      else if t.startsWith "M" then
        match ((t.drop 1).toString.splitOn ".").mapM String.toNat? with
        | some [h, _] => some (.data h :: l)
        | _ => none
      else if t == "C" then some (.seqEnd :: l)
      else none) (some [])

/-- the segments the implementation reported, rebuilt from its itemised answer and the stream: header, data and CRC
segments take their bytes from the stream at the running offset (`H<len>`, `M<header>.<len>`, `C`), definition
segments carry their own bytes (`D<hex>`) -/
def rebuildSegs (bs : Bytes) (toks : List String) : Option (List Fit.Raw.Seg × List (Nat × Bytes)) :=
  let rec go : List String → Nat → List Fit.Raw.Seg → List (Nat × Bytes) → Option (List Fit.Raw.Seg × List (Nat × Bytes))
    | [], _, acc, chk => some (acc.reverse, chk)
    | t :: ts, off, acc, chk =>
      if t.startsWith "H" then
        match (t.drop 1).toString.toNat? with
        | some n => go ts (off + n) (⟨Fit.Gen.Reader.rawFlagFileHeader, Fit.FitFormat.slice bs off n⟩ :: acc) chk
        | none => none
      else if t.startsWith "D" then
        match unhex (t.drop 1).toString with
        | some d => go ts (off + d.length) (⟨Fit.Gen.Reader.rawFlagMesgDef, d⟩ :: acc) ((off, d) :: chk)
        | none => none
      else if t.startsWith "M" then
        match ((t.drop 1).toString.splitOn ".").mapM String.toNat? with
        | some [h, n] => go ts (off + n) (⟨Fit.Gen.Reader.rawFlagMesgData, Fit.FitFormat.slice bs off n⟩ :: acc) ((off, [h]) :: chk)
        | _ => none
      else if t == "C" then go ts (off + 2) (⟨Fit.Gen.Reader.rawFlagCRC, Fit.FitFormat.slice bs off 2⟩ :: acc) chk
      else none
  go toks 0 [] []

/-- C16 on the implementation, from its itemised answer.
First half, for EVERY stream: the reported segments continue the stream (`C16_concat`: the bytes the callback
saw are the stream's bytes at the running offset; their total is at most the returned count, which is at most the
stream; equal on success), have the prescribed lengths (`lengthsOK`, the predicate of `C16_lengths`) and sit where the
protocol prescribes (`layoutOK` / `layoutClosed`, the predicates of `C16_layout`).
Second half: whenever the full decoder accepts the stream — every `Decode` succeeds and the sequences it decoded
cover the stream exactly — the raw decoder accepts it, reports as many sequences and the same ordered series of
definitions (header byte, architecture, global number, field and developer field definitions) and data messages
(header byte, hence kind and local message number). -/
def propRawDec (bs : Bytes) (impl : String) : String :=
  match impl.splitOn " raw=" with
  | [d, r] =>
    if !d.startsWith "dec=" then "fail:answer" else
    let rtoks := (r.splitOn " ").filter (· ≠ "")
    match rtoks with
    | [] => "fail:answer"
    | head :: segs =>
      match head.splitOn ";" with
      | [rstatus, nS, qS] =>
        match nS.toNat?, qS.toNat?, rebuildSegs bs segs with
        | some n, some q, some (rsegs, chk) =>
          let total := (rsegs.map (·.bytes.length)).foldl (· + ·) 0
          if total > n || n > bs.length then "fail:count"
          else if rstatus == "ok" && total != n then "fail:count-on-success"
          else if !(chk.all fun c => Fit.FitFormat.slice bs c.1 c.2.length == c.2) then "fail:concat"
          else if !Fit.Raw.lengthsOK rsegs then "fail:lengths"
          else if !Fit.Raw.layoutOK rsegs then "fail:layout"                         -- `C16_layout`: where each kind of segment sits
          else if rstatus == "ok" && !Fit.Raw.layoutClosed rsegs then "fail:layout-open-at-end"
          else
            -- second half
            let dtoks := ((d.drop 4).toString.splitOn " ").filter (· ≠ "")
            match dtoks with
            | [] => "fail:answer"
            | status :: evs =>
              if status != "end" then "ok" else
              match decItems evs with
              | none => "fail:dec-events"
              | some (items, dtotal) =>
                if dtotal != bs.length then "ok"          -- the loop stopped before the end of the stream: not accepted
                else if rstatus != "ok" then s!"fail:raw-rejects-{rstatus}"
                else if n != bs.length then "fail:raw-count"
                else if q != (items.filter (· == .seqEnd)).length then "fail:sequence-count"
                else
                  match rawItems segs with
                  | none => "fail:raw-items"
                  | some ritems => if ritems == items then "ok" else "fail:series-differ"
        | _, _, _ => "fail:answer"
      | _ => "fail:answer"
  | _ => "fail:answer"

def hRawDec : Handler := fun r =>
  let bs? := match r.args with
    | [a] => (stripPrefix? a "b:").bind unhex
    | _ => none
  match bs? with
  | none => if r.mode == .model then "bad-op" else if r.mode == .kf then "-" else "n/a"
  | some bs =>
    match r.mode with
    | .model => execRawDec bs
    | .spec => "n/a"
    | .kf => "-"
    | .prop => propRawDec bs r.impl

/-- `rawdech m:<0|1> pre:<hex> b:<hex>`: as `rawdec b:<hex>` with a full decoder that was used before (PeekFileId [+ Discard]
on `pre`, then Reset onto `b`). C16 quantifies over streams; what a decoder did before does not enter (C07): the model's
answer and the property are those of `rawdec b:<hex>` — a decoder that carries definitions over from `pre` shows as a
correspondence difference and as a stream the full decoder accepts and the raw decoder rejects. -/
def hRawDecUsed : Handler := fun r =>
  match r.args with
  | [m, pre, b] =>
    if (m == "m:0" || m == "m:1") && ((stripPrefix? pre "pre:").bind unhex).isSome then hRawDec { r with args := [b] }
    else if r.mode == .model then "bad-op" else if r.mode == .kf then "-" else "n/a"
  | _ => if r.mode == .model then "bad-op" else if r.mode == .kf then "-" else "n/a"

end Drv.RawD
