import FitModel.DecProg
import FitProps.LinkLemmasDefs
import Driver.ReadBuffer
import Driver.DecApiShow
-- @family dfrag Drv.DFrag.hDfrag
-- @family cifrag Drv.DFrag.hCifrag
-- @family dfragx Drv.DFrag.hDfragX
/-!
`dfrag [chk=0|1] [size=<int>] b:<hex> [s:<lens>]` — the `for dec.Next() { dec.Decode() }` loop of a fresh decoder
(`WithReadBufferSize(size)`, component expansion off, definition and message listeners) over a reader that
delivers the bytes according to the schedule `<lens>` (see `Driver/ReadBuffer.lean`; without `s:` the reader is
`bytes.NewReader`). Answer: how the loop ended, the listener events, per sequence header and CRCs, and `v=` —
whether everything observed equals the run over the contiguous reader with the default buffer size — and `m=`: the digest
of the VALUES of every message handed to the message listener (number, header byte, every field with number / base type /
flags / value, developer fields: the canonical text of family `decapi`), which the model rebuilds from the bytes the
message events carry (`Fit.Link.apiOf` with the regenerated standard factory, component expansion off).

`cifrag [size=] b: [s:]` — `CheckIntegrity` in the same setting.

`--spec`: the answer of the contiguous run (what C08 demands). `--prop` (failing readers): a failure of the reader that
`ReadN` hands to the decoder must be the error of the run. `--kf`: the stream ends inside a request (KF-C08-1).
-/
namespace Drv.DFrag
open Drv Fit.ReadBuffer Fit.DecProg

structure Args where
  chk : Bool := true
  size : Option Int := none   -- `WithReadBufferSize(size)`; absent = the default size
  bytes : Bytes := []
  sched : Option Sched := none

def parseArgs (args : List String) : Option Args := Id.run do
  let mut r : Args := {}
  let mut lens : Option String := none
  let mut seen := false
  for a in args do
    if let some h := stripPrefix? a "b:" then
      match unhex h with
      | some bs => r := { r with bytes := bs }; seen := true
      | none => return none
    else if let some l := stripPrefix? a "s:" then lens := some l
    else if let some v := stripPrefix? a "chk=" then r := { r with chk := v != "0" }
    else if let some v := stripPrefix? a "size=" then
      match Drv.RBuf.parseInt v with
      | some n => r := { r with size := some n }
      | none => return none
    else return none
  if !seen then return none
  match lens with
  | none => return some r
  | some l =>
    let toks := if l == "" then [] else l.splitOn ","
    match toks.mapM Drv.RBuf.parseLen with
    | some ls => return some { r with sched := some (Drv.RBuf.mkSched r.bytes ls) }
    | none => return none

def Args.schedule (a : Args) : Sched := a.sched.getD (contiguous a.bytes)
def Args.bufSize (a : Args) : Int := a.size.getD (Fit.Gen.Reader.defaultReadBufferSize : Int)

def errName : Err → String
  | .io e => Drv.RBuf.errName e
  | .notFit => "notfit" | .crc => "crc" | .defMissing => "defmissing" | .invalidBaseType => "basetype"

def showTrip (t : Triplet) : String := s!"{t.1}.{t.2.1}.{t.2.2}"

def showEv : Ev → String
  | .def_ h a m fs ds => s!" D{h}.{a}.{m}({";".intercalate (fs.map showTrip)})({";".intercalate (ds.map showTrip)})"
  | .msg h m nf nd _ _ => s!" R{h}.{m}.{nf}.{nd}"
  | .seq sz pv pf ds hc fc n => s!" S{sz}.{pv}.{pf}.{ds}.{hc}.{fc}.{n}"

def showOut (o : Out) : String :=
  (match o.status with | none => "end" | some e => "err:" ++ errName e) ++ String.join (o.evs.map showEv) ++
  (match o.status, o.swallowed with | none, some e => " after=" ++ errName e | _, _ => "")

def showOutcome (o : Outcome Out) : String :=
  match o with | .done a => showOut a | .panic => "panic"

def runOn (a : Args) (s : Sched) (size : Int) : Outcome Out :=
  runRB (decodeLoop a.chk (a.bytes.length + 1) true []) (RB.fresh s size)

/-- the reference of C08: the same bytes from one contiguous buffer, default buffer size -/
def reference (a : Args) : Outcome Out := runOn a (contiguous (bytesOf a.schedule)) (Fit.Gen.Reader.defaultReadBufferSize : Int)

def sameOutcome : Outcome Out → Outcome Out → Bool
  | .done x, .done y => x.evs == y.evs && x.status == y.status && x.swallowed == y.swallowed
  | .panic, .panic => true
  | _, _ => false

/-- `v=` is evaluated only where C08 speaks: the schedule has no failure -/
def vApplies (a : Args) : Bool := cleanB a.schedule

/-- digest of the value-level messages (C)'s functions make of the bytes the message events carry -/
def valueDigest (a : Args) : Outcome Out → String
  | .panic => "-"
  | .done o =>
    let opts : Fit.DecApi.Opts := { chk := a.chk, exp := false, ml := true, dl := false, fac := Drv.DecApi.stdFactory }
    let msgs := (Fit.Link.apiOf opts o).flatMap fun c => c.2.filterMap fun
      | .mesg m => some (Drv.DecApi.showMsg m)
      | _ => none
    Drv.DecApi.digest msgs false

/-- `withM`: the answer carries the value digest (not inside the exhaustive sweeps of `dfragx`) -/
def modelAnswerG (withM : Bool) (a : Args) : String :=
  let o := runOn a a.schedule a.bufSize
  showOutcome o ++ (if withM then " m=" ++ valueDigest a o else "") ++
    (if vApplies a then (if sameOutcome o (reference a) then " v=same" else " v=diff") else " v=na")

def modelAnswer (a : Args) : String := modelAnswerG true a

def fnvStr (d : UInt64) (s : String) : UInt64 :=
  let d := s.foldl (fun d c => (d ^^^ c.toNat.toUInt64) * 0x100000001b3) d
  (d ^^^ 10) * 0x100000001b3

/-- `dfragx [chk=] [size=] b:<hex>`: EXHAUSTIVE sweep over the stream: every split point as a 2-chunk schedule × the three
ways of reporting the end (schedule ends; EOF with the last chunk; a separate (0, EOF)), and a reader failing at every
offset; digest of all `dfrag` answers, their number and the number of `v=diff` -/
def sweepAnswer (a : Args) : String := Id.run do
  let bs := a.bytes
  let L := bs.length
  let mut d : UInt64 := 0xcbf29ce484222325
  let mut n := 0
  let mut diffs := 0
  for cut in [0:L+1] do
    for how in [0:3] do
      let c1 : Chunk := ⟨bs.take cut, none⟩
      let c2 : Chunk := ⟨bs.drop cut, if how == 1 then some .eof else none⟩
      let s : Sched := if how == 2 then [c1, c2, ⟨[], some .eof⟩] else [c1, c2]
      let ans := modelAnswerG false { a with sched := some s }
      d := fnvStr d ans
      n := n + 1
      if ans.endsWith "v=diff" then diffs := diffs + 1
  for k in [0:L+1] do
    let s : Sched := [⟨bs.take k, none⟩, ⟨[], some (.custom 7)⟩]
    let ans := modelAnswerG false { a with sched := some s }
    d := fnvStr d ans
    n := n + 1
  return s!"n={n} d={hexN 16 d.toNat} diff={diffs}"

def hDfragX : Handler := fun r =>
  match parseArgs r.args with
  | none => if r.mode == .model then "bad-op" else if r.mode == .kf then "-" else "n/a"
  | some a =>
    match r.mode with
    | .model => if a.sched.isSome then "bad-op" else sweepAnswer a
    | .kf => "-"
    | _ => "n/a"

def hDfrag : Handler := fun r =>
  match parseArgs r.args with
  | none => if r.mode == .model then "bad-op" else if r.mode == .kf then "-" else "n/a"
  | some a =>
    match r.mode with
    | .model => modelAnswer a
    | .spec => if vApplies a then showOutcome (reference a) ++ " m=" ++ valueDigest a (reference a) ++ " v=same" else "n/a"
    | .kf =>
      if vApplies a then
        (if truncated (decodeLoop a.chk (a.bytes.length + 1) true []) (bytesOf a.schedule) then "KF-C08-1" else "-")
      else "-"
    | .prop =>
      -- C08, second sentence: a failure of the reader that `ReadN` hands to the decoder must come back as the error of the run
      if vApplies a then "n/a" else
      match firstReaderErr (decodeLoop a.chk (a.bytes.length + 1) true []) (RB.fresh a.schedule a.bufSize) with
      | none => "n/a"
      | some e =>
        let status := ((r.impl.splitOn " ").filter (· ≠ "")).headD ""
        if status == "err:" ++ Drv.RBuf.errName e then "ok" else s!"fail:reader-error-{Drv.RBuf.errName e}-not-returned"

def showCi (o : Outcome CiOut) : String :=
  match o with
  | .panic => "panic"
  | .done c => match c.status with
    | none => s!"ok:{c.seq}"
    | some e => s!"err:{errName e}:{c.seq}"

def hCifrag : Handler := fun r =>
  match parseArgs r.args with
  | none => if r.mode == .model then "bad-op" else if r.mode == .kf then "-" else "n/a"
  | some a =>
    let prog := checkIntegrity (a.bytes.length + 1) 0
    match r.mode with
    | .model => showCi (runRB prog (RB.fresh a.schedule a.bufSize))
    | .spec =>
      if vApplies a then showCi (runRB prog (RB.fresh (contiguous (bytesOf a.schedule)) (Fit.Gen.Reader.defaultReadBufferSize : Int)))
      else "n/a"
    | .kf => if vApplies a && truncated prog (bytesOf a.schedule) then "KF-C08-1" else "-"
    | .prop => "n/a"

end Drv.DFrag
