import FitModel.Expand
import FitModel.ExpandSpec
import FitModel.Physical
import FitModel.Generated.ProfileArith
import Driver.Util
import Driver.ValCodec
import Driver.MsgCodec
import Driver.Arith
-- @family expand Drv.ExpandH.hExpand
-- @family expandx Drv.ExpandH.hExpandX
/-! Driver handlers of the component-expansion families (C05): parsing and printing only. The model answer is
`Fit.Expand.decodeSeq` (the code), the demanded answer `Fit.ExpandSpec.specSeq` (the specification: own slicing, own
running totals, own destination look-up) -/
namespace Drv.ExpandH
open Drv Fit.F64 Fit.Value Drv.Arith
/-! ### expand -/
open Fit.Msg Fit.Expand

def profile : Profile := Fit.Gen.PA.mesgs

def printMsgs (ms : List Message) : String := " ".intercalate (ms.map printMessage)

def modelOn (ms : List Message) : List Message := decodeSeq componentValue profile true ms

/-- what the SPECIFICATION demands (`none`: the property does not determine it for this history) -/
def specOn (ms : List Message) : Option (List Message) := Fit.ExpandSpec.specSeq Fit.Physical.specValue profile ms

/-- KF-C05-2: a wire destination of an accumulating component that counts in another unit -/
def kfClass (ms : List Message) : String :=
  if Fit.ExpandSpec.seedsOtherUnit profile ms then "KF-C05-2" else "-"

/-- every physical value of the row is an integer: `dScale / cScale` and `(dOffset − cOffset) × dScale` are -/
def rowExact (c : Fit.PA.Comp) (d : FieldBase) : Bool :=
  match Fit.Physical.Q.ofF64 c.scale, Fit.Physical.Q.ofF64 c.offset, Fit.Physical.Q.ofF64 d.scale, Fit.Physical.Q.ofF64 d.offset with
  | some cs, some co, some ds, some d0 =>
    cs.num != 0 && (Fit.Physical.Q.div ds cs).isInt && (Fit.Physical.Q.mul (Fit.Physical.Q.sub d0 co) ds).isInt
  | _, _, _, _ => false

/-- all component lists a field of the message may expand with (its own and those of its sub-fields) -/
def allComps (f : Fit.PA.Fld) : List Fit.PA.Comp := f.comps ++ f.subs.flatMap (·.comps)

/-- field numbers of the message that a non-integer row feeds (there `within one unit` is all that is asked) -/
def inexactDests (mesgNum : Nat) : List Nat :=
  match profile.find? (·.1 == mesgNum) with
  | none => []
  | some (_, fs) => (fs.flatMap allComps).filterMap fun c =>
      if rowExact c (createField profile mesgNum c.fieldNum).1 then none else some c.fieldNum

def elemsOf (v : Value) : Option (List Nat) :=
  match Fit.ScaleOffset.scalarOf v with
  | some (_, p) => some [p]
  | none => (Fit.ScaleOffset.sliceOf v).map (·.2)

/-- same type and every element within one unit -/
def valuesWithinOne (a b : Value) : Bool :=
  typeOf a == typeOf b &&
    match elemsOf a, elemsOf b with
    | some xs, some ys => xs.length == ys.length && (xs.zip ys).all fun p => p.1 ≤ p.2 + 1 && p.2 ≤ p.1 + 1
    | _, _ => false

/-- C05 on one decoded message: `impl` (expansion on), `spec` (the specification's expansion of the wire
message), `off` (decoded with expansion off), `wire` (what was written) -/
def checkMsg (wire impl spec off : Message) : Option String :=
  let inex := inexactDests wire.num
  if impl.num != spec.num || impl.fields.length != spec.fields.length then some "shape"
  else if off != wire then some "off-differs-from-wire"
  else
    let bad := (impl.fields.zip spec.fields).find? fun p =>
      !(p.1 == p.2 ||
        (p.1.base == p.2.base && p.1.isExpanded == p.2.isExpanded &&
          (match fieldNum p.1 with | some n => inex.contains n | none => false) && valuesWithinOne p.1.value p.2.value))
    match bad with
    | some p => some s!"value-field-{(fieldNum p.1).getD 999}"
    | none =>
      -- expansion off = on minus expanded fields; wire fields that are not destinations are untouched
      let kept := impl.fields.filter (!·.isExpanded)
      let dests := destsPresent profile wire.num wire.fields
      if kept.length != off.fields.length then some "off-count"
      else match (kept.zip off.fields).find? fun p =>
          !(p.1 == p.2 || (p.1.base == p.2.base && (match fieldNum p.1 with | some n => dests.contains n | none => false))) with
        | some p => some s!"touched-field-{(fieldNum p.1).getD 999}"
        | none => none

def splitOnOff (toks : List String) : Option (List String × List String) :=
  match toks with
  | "on" :: rest =>
    let on := rest.takeWhile (· != "off")
    match rest.dropWhile (· != "off") with
    | "off" :: off => some (on, off)
    | _ => none
  | _ => none

/-- the operation's tokens split at "/" into the sequences of one stream -/
def splitSeqs (toks : List String) : List (List String) :=
  toks.foldr (fun t acc =>
    if t == "/" then [] :: acc
    else match acc with
      | cur :: rest => (t :: cur) :: rest
      | [] => [[t]]) [[]]

def parseSeqs (toks : List String) : Option (List (List Message)) := (splitSeqs toks).mapM fun g => g.mapM parseMessage

def printSeqs (seqs : List (List Message)) : String := " / ".intercalate (seqs.map printMsgs)

def joinWords (s : String) : String := " ".intercalate ((s.splitOn " ").filter (· ≠ ""))

/-- C05 on one decoded sequence -/
def checkSeq (ms on off : List Message) : Option String :=
  match specOn ms with
  | none => none
  | some spec =>
    if on.length != ms.length || off.length != ms.length || spec.length != ms.length then some "message-count"
    else
      let rs := (List.range ms.length).filterMap fun i =>
        match ms[i]?, on[i]?, spec[i]?, off[i]? with
        | some w, some a, some b, some c => (checkMsg w a b c).map fun e => s!"msg{i}:{e}"
        | _, _, _, _ => some "index"
      rs.head?

def hExpand : Handler := fun r =>
  match parseSeqs r.args with
  | none => "bad-op"
  | some seqs =>
    match r.mode with
    | .model => joinWords ("on " ++ printSeqs (seqs.map modelOn) ++ " off " ++ printSeqs seqs)
    | .spec => "n/a"
    | .kf => if seqs.any fun ms => Fit.ExpandSpec.seedsOtherUnit profile ms then "KF-C05-2" else "-"
    | .prop =>
      match splitOnOff ((r.impl.splitOn " ").filter (· ≠ "")) with
      | none => "fail:not-decoded:" ++ r.impl
      | some (on, off) =>
        match parseSeqs on, parseSeqs off with
        | some on, some off =>
          if on.length != seqs.length || off.length != seqs.length then "fail:sequence-count"
          else if seqs.all fun ms => (specOn ms).isNone then "n/a"
          else
            let rs := (List.range seqs.length).filterMap fun k =>
              match seqs[k]?, on[k]?, off[k]? with
              | some ms, some a, some c => (checkSeq ms a c).map fun e => s!"seq{k}:{e}"
              | _, _, _ => some "index"
            match rs with
            | [] => "ok"
            | e :: _ => "fail:" ++ e
        | _, _ => "fail:unparsable-answer"

def setScalar (v : Value) (raw : Nat) : Option Value :=
  match Fit.ScaleOffset.scalarOf v with
  | some (.int ty, _) => some (Fit.ScaleOffset.mkScalar (.int ty) (raw % 2 ^ ty.bits))
  | _ => none

def fnvStr (d : UInt64) (s : String) : UInt64 :=
  s.toUTF8.foldl (fun d b => (d ^^^ b.toUInt64) * 0x100000001b3) d

def hExpandX : Handler := fun r =>
  match r.args with
  | [idx, lo, n, tmpl] =>
    match idx.toNat?, lo.toNat?, n.toNat?, parseMessage tmpl with
    | some idx, some lo, some n, some t =>
      match t.fields[idx]? with
      | none => "bad-op"
      | some f =>
        if n > 2 ^ 16 then "bad-op" else
        match (List.range n).mapM fun i => (setScalar f.value (lo + i)).map fun v =>
            { t with fields := t.fields.set idx { f with value := v } } with
        | none => "bad-op"
        | some ms =>
          let dig (out : List Message) : String :=
            s!"n={out.length} digest={hexN 16 (out.foldl (fun d m => fnvStr d (printMessage m ++ "\n")) fnvInit).toNat}"
          -- the rows the container can feed are all integer-preserving: the specification's output is unique
          let unique := (destsPresent profile t.num t.fields).all fun n => !(inexactDests t.num).contains n
          match r.mode with
          | .model => dig (modelOn ms)
          | .spec => if unique then (match specOn ms with | some out => dig out | none => "n/a") else "n/a"
          | .kf => kfClass ms
          | .prop => "n/a"
    | _, _, _, _ => "bad-op"
  | _ => "bad-op"

end Drv.ExpandH
