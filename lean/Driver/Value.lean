import FitModel.Value
import Driver.ValCodec
-- @family value Drv.hValue
-- @family unm Drv.hUnm
-- @family unmre Drv.hUnmRe
-- @family vany Drv.hVany
-- @family utf8 Drv.hUtf8
/-! Handlers of the families `value` (ops value / unm / vany) and `utf8`; see harness/fam_value.go
for the line syntax. -/
namespace Drv
open Fit.Value

def kvArg (args : List String) (key : String) : Option String :=
  args.findSome? fun a => stripPrefix? a (key ++ ":")

def hexNat? (s : String) : Option Nat :=
  if s.isEmpty then none else s.toList.foldlM (fun acc c => (hexVal c).map (acc * 16 + ·)) 0

def kvByte (args : List String) (key : String) : Option Nat := do
  let s ← kvArg args key
  let x ← hexNat? s
  if x < 256 then some x else none

def b2s (b : Bool) : String := if b then "1" else "0"

def printOutcome : Outcome Value → String
  | .ok v => "ok:" ++ printValue v
  | .err => "err"
  | .panic => "panic"

def hexOfNat (n : Nat) : String :=
  if n = 0 then "0" else
    let rec go (fuel n : Nat) (acc : List Char) : List Char :=
      match fuel with
      | 0 => acc
      | f + 1 => if n = 0 then acc else go f (n / 16) (hexDigit (n % 16) :: acc)
    String.ofList (go 64 n [])

def printRaw (r : Raw) : String :=
  hexN 16 r.num ++ "." ++ (match r.ptr with | .mem i => "m" ++ toString i | .other => "x")

/-- known-finding classes of C06 an input value belongs to -/
def kfValue (v : Value) : String :=
  -- KF-C06-1 (F02): some string (piece) of the value is valid UTF-8 and contains a well-formed U+FFFD
  let strs : List (List Nat) := match v with
    | .string s => [cutNul s]
    | .sliceString vs => pieces vs
    | _ => []
  if strs.any (fun s => Fit.Utf8.valid s && Fit.Utf8.hasFFFD s) then "KF-C06-1" else "-"

/-- does the specification constrain the round trip of `v` under base type `bt`? (aligned, and every
string piece valid UTF-8: the encoder rejects other strings, C10) -/
def rtInDomain (v : Value) (bt : Nat) : Bool :=
  align v bt && (match v with
    | .string s => Fit.Utf8.valid (cutNul s)
    | .sliceString vs => (pieces vs).all Fit.Utf8.valid
    | _ => true)

def valueLine (spec : Bool) (v : Value) (arch bt : Nat) : String :=
  let m := marshal v arch
  let mstr := match m with | some bs => hex bs | none => "err"
  -- the specification: the reported size is the number of bytes marshalled
  let sz := if spec then (match m with | some bs => bs.length | none => 0) else size v
  let acc := (accept v).foldl (fun a i => a + 2 ^ i) 0
  let back := if spec then v else ofAny (toAny v)
  let rt := match m with
    | none => "-"
    | some bs =>
      if spec && rtInDomain v bt then "ok:" ++ printValue (norm v)
      else printOutcome (unmarshal bs arch bt (isBoolType v) (isSlice v))
  s!"t={typeOf v} sz={sz} m={mstr} v={b2s (valid v bt)} al={b2s (align v bt)} raw={printRaw (toRaw v)} acc={hexOfNat acc} any={printGoVal (toAny v)} back={printValue back} rt={rt}"

def parseValueOp (args : List String) : Option (Value × Nat × Nat) :=
  match args with
  | [vs, _, _] => do
    let v ← parseValue vs
    let a ← kvByte args "a"
    let bt ← kvByte args "bt"
    some (v, a, bt)
  | _ => none

/-- property predicate on the implementation's answer: the reported size equals the number of bytes
marshalled, and the reported type is the constructor's type -/
def propValue (v : Value) (impl : String) : String :=
  let toks := impl.splitOn " "
  match kvEq toks "t", kvEq toks "sz", kvEq toks "m" with
  | some t, some sz, some m =>
    if t != toString (typeOf v) then "fail:type-of-another-constructor"
    else if m == "err" then (if typeOf v == Fit.Gen.typeInvalid then "ok" else "fail:marshal-rejects-a-valid-type")
    else if sz.toNat? != some (m.length / 2) then "fail:size-differs-from-marshalled-length"
    else "ok"
  | _, _, _ => "fail:unparsable-answer"
where kvEq (toks : List String) (key : String) : Option String :=
  toks.findSome? fun a => stripPrefix? a (key ++ "=")

def hValue : Handler := fun r =>
  match parseValueOp r.args with
  | none => if r.mode == .model then "bad-op" else if r.mode == .kf then "-" else "n/a"
  | some (v, a, bt) =>
    match r.mode with
    | .model => valueLine false v a bt
    | .spec => valueLine true v a bt
    | .prop => propValue v r.impl
    | .kf => kfValue v

def execUnm (args : List String) : String :=
  match args with
  | [_, _, _, _, _] =>
    match (kvArg args "b").bind unhex, kvByte args "a", kvByte args "bt", kvArg args "pb", kvArg args "arr" with
    | some bs, some a, some bt, some pb, some arr =>
      if (pb != "0" ∧ pb != "1") ∨ (arr != "0" ∧ arr != "1") then "bad-op"
      else printOutcome (unmarshal bs a bt (pb == "1") (arr == "1"))
    | _, _, _, _, _ => "bad-op"
  | _ => "bad-op"

/-- `unmre`: unmarshal arbitrary bytes, marshal the value in byte order `a2`, unmarshal again under the same base type and
flags — the very terms of `C06_unmarshal_reencode` -/
def execUnmRe (args : List String) : String :=
  match args with
  | [_, _, _, _, _, _] =>
    match (kvArg args "b").bind unhex, kvByte args "a", kvByte args "a2", kvByte args "bt", kvArg args "pb", kvArg args "arr" with
    | some bs, some a, some a2, some bt, some pb, some arr =>
      if (pb != "0" ∧ pb != "1") ∨ (arr != "0" ∧ arr != "1") then "bad-op"
      else
        let first := unmarshal bs a bt (pb == "1") (arr == "1")
        match first with
        | .ok v =>
          match marshal v a2 with
          | none => printOutcome first ++ " m=err re=-"
          | some m => printOutcome first ++ " m=" ++ hex m ++ " re=" ++ printOutcome (unmarshal m a2 bt (pb == "1") (arr == "1"))
        | _ => printOutcome first ++ " m=- re=-"
    | _, _, _, _, _, _ => "bad-op"
  | _ => "bad-op"

/-- the property on the implementation's answer (`C06_unmarshal_reencode`, every base type): whenever the first read returned a value, it could be marshalled and the second
read returned that very value -/
def propUnmRe (impl : String) : String :=
  match impl.splitOn " " with
  | [first, m, re] =>
    if !first.startsWith "ok:" then "n/a"
    else if m == "m=err" then "fail:returned-value-cannot-be-marshalled"
    else if m == "m=overwritten" then "fail:marshal-overwrote-the-destination"
    else if re != "re=" ++ first then "fail:reencoded-value-reads-back-differently"
    else "ok"
  | _ => if impl == "bad-op" then "n/a" else "fail:unparsable-answer"

def hUnmRe : Handler := fun r =>
  match r.mode with
  | .model => execUnmRe r.args
  | .spec => "n/a"
  | .prop => propUnmRe r.impl
  | .kf => "-"

def execVany (args : List String) : String :=
  match args with
  | [s] => match parseGoVal s with
    | some g => printValue (ofAny g) ++ " any=" ++ printGoVal (toAny (ofAny g))
    | none => "bad-op"
  | _ => "bad-op"

/-- the property on the implementation's answer (`C06_any_reflect_agrees`, `C06_any_wrap_unwrap`): `proto.Any` returned what
the typed constructor returns for the value seen by kind, and unwrapping gives the content back as the unnamed type of its
kind; `n/a` for a float32 signalling NaN through reflection (guard `noSNaN32`) -/
def propVany (args : List String) (impl : String) : String :=
  match args with
  | [s] => match parseGoVal s with
    | some g =>
      if !noSNaN32 g then "n/a"
      else if impl == printValue (ofAnyDirect (underlying g)) ++ " any=" ++ printGoVal (expectAny g) then "ok"
      else if !impl.startsWith (printValue (ofAnyDirect (underlying g)) ++ " ") then "fail:wrapped-value-differs-from-typed-constructor-of-the-kind"
      else "fail:unwrapped-value-differs"
    | none => "n/a"
  | _ => "n/a"

def execUtf8 (args : List String) : String :=
  match args with
  | [s] =>
    match (stripPrefix? s "b:").bind unhex with
    | some bs =>
      let d := Fit.Utf8.decodeRune bs
      s!"r={hexOfNat d.1} n={d.2} ok={b2s (Fit.Utf8.valid bs)} app={hex (Fit.Utf8.appendRune d.1)} s={hex (Fit.Utf8.utf8String bs)}"
    | none => "bad-op"
  | _ => "bad-op"

def hUnm : Handler := modelOnly execUnm
def hVany : Handler := fun r =>
  match r.mode with
  | .model => execVany r.args
  | .spec => "n/a"
  | .prop => propVany r.args r.impl
  | .kf => "-"
def hUtf8 : Handler := modelOnly execUtf8

end Drv
