import FitModel.Value
import Driver.Util
/-!
Text syntax of a protocol value (parsing/printing only; the Go side is harness/valcodec.go — keep the
two in step).

    <value>   ::= <tag> ":" <payload>
    <tag>     ::= inv | bool | i8 | u8 | i16 | u16 | i32 | u32 | i64 | u64 | f32 | f64 | str
                | bools | i8s | u8s | i16s | u16s | i32s | u32s | i64s | u64s | f32s | f64s | strs
    payload of inv            : empty
    payload of a numeric type : the bit pattern, little-endian, exactly <width> bytes in lower-case hex
    payload of str            : the bytes of the Go string (not marshalled: no terminator added)
    payload of a numeric slice: the little-endian patterns of the elements, concatenated
    payload of strs           : each string's bytes in hex followed by "," ("strs:" = [], "strs:," = [""])

Total on the 25 types, lossless, free of blanks and of `; | { }`.
Go values handed to `proto.Any` use the same payloads with a <gotag> (see harness/valcodec.go).
-/
namespace Drv
open Fit.Value

/-- split at the first ':' -/
def splitTag (s : String) : Option (String × String) :=
  match s.splitOn ":" with
  | [] | [_] => none
  | t :: rest => some (t, ":".intercalate rest)

def widthOf : String → Option Nat
  | "bool" | "tbool" | "gobool" | "i8" | "u8" => some 1
  | "i16" | "u16" => some 2
  | "i32" | "u32" | "f32" => some 4
  | "i64" | "u64" | "f64" | "int" | "uint" => some 8
  | _ => none

/-- split bytes into `w`-byte little-endian numbers; `none` if the length is not a multiple of `w` -/
def leElems (w : Nat) (bs : List Nat) : Option (List Nat) :=
  if w = 0 ∨ bs.length % w ≠ 0 then none else some ((chunks w bs.length bs).map ofLE)

def parseStrs (payload : String) : Option (List (List Nat)) :=
  if payload.isEmpty then some []
  else if !payload.endsWith "," then none
  else ((payload.dropEnd 1).toString.splitOn ",").mapM unhex

def mkScalar : String → Nat → Option Value
  | "bool", x => some (mkBool x)      -- the typed constructor proto.Bool normalises
  | "i8", x => some (.int8 x) | "u8", x => some (.uint8 x) | "i16", x => some (.int16 x)
  | "u16", x => some (.uint16 x) | "i32", x => some (.int32 x) | "u32", x => some (.uint32 x)
  | "i64", x => some (.int64 x) | "u64", x => some (.uint64 x) | "f32", x => some (.float32 x)
  | "f64", x => some (.float64 x)
  | _, _ => none

def mkSlice : String → List Nat → Option Value
  | "bools", xs => some (.sliceBool xs)
  | "i8s", xs => some (.sliceInt8 xs) | "u8s", xs => some (.sliceUint8 xs) | "i16s", xs => some (.sliceInt16 xs)
  | "u16s", xs => some (.sliceUint16 xs) | "i32s", xs => some (.sliceInt32 xs) | "u32s", xs => some (.sliceUint32 xs)
  | "i64s", xs => some (.sliceInt64 xs) | "u64s", xs => some (.sliceUint64 xs) | "f32s", xs => some (.sliceFloat32 xs)
  | "f64s", xs => some (.sliceFloat64 xs)
  | _, _ => none

def isLowerHex (s : String) : Bool := s.all fun c => ('0' ≤ c ∧ c ≤ '9') ∨ ('a' ≤ c ∧ c ≤ 'f')

def parseValueTP (tag payload : String) : Option Value := do
  if tag == "strs" then
    let ss ← parseStrs payload
    return .sliceString ss
  if !isLowerHex payload then none
  let bs ← unhex payload
  if tag == "inv" then (if bs.isEmpty then some .invalid else none)
  else if tag == "str" then some (.string bs)
  else
    match widthOf tag with
    | some w => if bs.length = w then mkScalar tag (ofLE bs) else none
    | none =>
      if tag.endsWith "s" then
        match widthOf (tag.dropEnd 1).toString with
        | some w => do
          let xs ← leElems w bs
          mkSlice tag xs
        | none => none
      else none

def parseValue (s : String) : Option Value := do
  let (tag, payload) ← splitTag s
  parseValueTP tag payload

def leHex (w x : Nat) : String := hex (leBytes w x)
def leHexs (w : Nat) (xs : List Nat) : String := String.join (xs.map (leHex w))
def strsHex (vs : List (List Nat)) : String := String.join (vs.map fun s => hex s ++ ",")

def printValue : Value → String
  | .invalid => "inv:"
  | .bool v => "bool:" ++ leHex 1 v | .int8 v => "i8:" ++ leHex 1 v | .uint8 v => "u8:" ++ leHex 1 v
  | .int16 v => "i16:" ++ leHex 2 v | .uint16 v => "u16:" ++ leHex 2 v
  | .int32 v => "i32:" ++ leHex 4 v | .uint32 v => "u32:" ++ leHex 4 v
  | .int64 v => "i64:" ++ leHex 8 v | .uint64 v => "u64:" ++ leHex 8 v
  | .float32 v => "f32:" ++ leHex 4 v | .float64 v => "f64:" ++ leHex 8 v
  | .string s => "str:" ++ hex s
  | .sliceBool vs => "bools:" ++ leHexs 1 vs | .sliceInt8 vs => "i8s:" ++ leHexs 1 vs
  | .sliceUint8 vs => "u8s:" ++ leHexs 1 vs | .sliceInt16 vs => "i16s:" ++ leHexs 2 vs
  | .sliceUint16 vs => "u16s:" ++ leHexs 2 vs | .sliceInt32 vs => "i32s:" ++ leHexs 4 vs
  | .sliceUint32 vs => "u32s:" ++ leHexs 4 vs | .sliceInt64 vs => "i64s:" ++ leHexs 8 vs
  | .sliceUint64 vs => "u64s:" ++ leHexs 8 vs | .sliceFloat32 vs => "f32s:" ++ leHexs 4 vs
  | .sliceFloat64 vs => "f64s:" ++ leHexs 8 vs
  | .sliceString vs => "strs:" ++ strsHex vs

def printGoVal : GoVal → String
  | .nil => "nil:"
  | .tbool v => "tbool:" ++ leHex 1 v
  | .gobool b => "gobool:" ++ (if b then "01" else "00")
  | .int8 v => "i8:" ++ leHex 1 v | .uint8 v => "u8:" ++ leHex 1 v
  | .int16 v => "i16:" ++ leHex 2 v | .uint16 v => "u16:" ++ leHex 2 v
  | .int32 v => "i32:" ++ leHex 4 v | .uint32 v => "u32:" ++ leHex 4 v
  | .int64 v => "i64:" ++ leHex 8 v | .uint64 v => "u64:" ++ leHex 8 v
  | .float32 v => "f32:" ++ leHex 4 v | .float64 v => "f64:" ++ leHex 8 v
  | .string s => "str:" ++ hex s
  | .tbools vs => "tbools:" ++ leHexs 1 vs | .int8s vs => "i8s:" ++ leHexs 1 vs
  | .uint8s vs => "u8s:" ++ leHexs 1 vs | .int16s vs => "i16s:" ++ leHexs 2 vs
  | .uint16s vs => "u16s:" ++ leHexs 2 vs | .int32s vs => "i32s:" ++ leHexs 4 vs
  | .uint32s vs => "u32s:" ++ leHexs 4 vs | .int64s vs => "i64s:" ++ leHexs 8 vs
  | .uint64s vs => "u64s:" ++ leHexs 8 vs | .float32s vs => "f32s:" ++ leHexs 4 vs
  | .float64s vs => "f64s:" ++ leHexs 8 vs
  | .strings vs => "strs:" ++ strsHex vs
  | _ => "other:"

/-- `<gotag>[@k][*…]:<payload>` → the Go value handed to `proto.Any` -/
def parseGoVal (s : String) : Option GoVal := do
  let (head0, payload) ← splitTag s
  let stars := (head0.toList.reverse.takeWhile (· == '*')).length
  let head1 := (head0.dropEnd stars).toString
  let (tag, named) ← (
    if head1.startsWith "val(" then some (head1, false)
    else match head1.splitOn "@" with
      | [t] => some (t, false)
      | [t, k] => if k.toNat?.isSome then some (t, true) else none
      | _ => none)
  let base : GoVal ← (
    if tag == "nil" then (if payload.isEmpty then some GoVal.nil else none)
    else if tag == "struct" ∨ tag == "anys" ∨ tag == "map" then some .unsupported
    else if tag.startsWith "val(" ∧ tag.endsWith ")" then do
      let v ← parseValueTP ((tag.drop 4).dropEnd 1).toString payload
      some (.value v)
    else if tag == "strs" then (parseStrs payload).map .strings
    else if tag == "str" then (unhex payload).map .string
    else do
      let bs ← unhex payload
      match widthOf tag with
      | some w =>
        if bs.length ≠ w then none else
        let x := ofLE bs
        match tag with
        | "gobool" => some (.gobool (x != 0)) | "tbool" => some (.tbool x)
        | "i8" => some (.int8 x) | "u8" => some (.uint8 x) | "i16" => some (.int16 x) | "u16" => some (.uint16 x)
        | "i32" => some (.int32 x) | "u32" => some (.uint32 x) | "i64" => some (.int64 x) | "u64" => some (.uint64 x)
        | "f32" => some (.float32 x) | "f64" => some (.float64 x)
        | "int" | "uint" => some .unsupported
        | _ => none
      | none =>
        if !tag.endsWith "s" then none else
        let b := (tag.dropEnd 1).toString
        match widthOf b with
        | none => none
        | some w => do
          let xs ← leElems w bs
          match b with
          | "gobool" => some (.gobools (xs.map (· != 0))) | "tbool" => some (.tbools xs)
          | "i8" => some (.int8s xs) | "u8" => some (.uint8s xs) | "i16" => some (.int16s xs) | "u16" => some (.uint16s xs)
          | "i32" => some (.int32s xs) | "u32" => some (.uint32s xs) | "i64" => some (.int64s xs) | "u64" => some (.uint64s xs)
          | "f32" => some (.float32s xs) | "f64" => some (.float64s xs)
          | "int" | "uint" => some .unsupported
          | _ => none)
  -- `@0` of tbool is typedef.Bool itself; any other named type goes through reflection
  let g := if named ∧ tag != "tbool" ∧ tag != "tbools" then GoVal.named base else base
  if stars > 2 then none
  else some ((List.range stars).foldl (fun g _ => match g with | .nil => .nil | g => .ptr g) g)

end Drv
