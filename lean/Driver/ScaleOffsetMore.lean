import FitModel.ScaleOffset
import FitModel.ScaleOffsetProfile
import Driver.Arith
-- @family sots Drv.SoMore.hSots
-- @family sov Drv.SoMore.hSov
-- @family socd Drv.SoMore.hSocd
/-! Driver handlers of family scaleoffset (C12), further operations (harness/fam_scaleoffset_more.go): the generated
slice / fixed-array accessors, ONE validator over a sequence of messages with developer fields, the '.' of a CSV cell.
Parsing and printing only; the answers are computed by `FitModel/ScaleOffset.lean`. -/
namespace Drv.SoMore
open Drv Drv.Arith Fit.F64 Fit.ScaleOffset Fit.Value Fit.Gen

/-- `nil` → `none`, `-` → `some []`, else comma-separated patterns of `bits/4` hex digits -/
def parseList (s : String) (bits : Nat) : Option (Option (List Nat)) :=
  if s == "nil" then some none else (parseRaws s bits).map some

def printList (bits : Nat) : Option (List Nat) → String
  | none => "nil"
  | some [] => "-"
  | some xs => ",".intercalate (xs.map (hexN (bits / 4)))

def hSots : Handler := fun r =>
  match r.args with
  | [op, mesg, field, list] =>
    match lookupTyped mesg field with
    | none => "bad-op"
    | some a =>
      if a.arr == 0 then "bad-op" else
      let ty := intTyOfCode a.ty
      let fits (l : Option (List Nat)) : Bool :=
        a.arr == 1 || (match l with | some xs => xs.length + 1 == a.arr | none => false)
      if op == "rt" then
        match parseList list ty.bits with
        | none => "bad-op"
        | some l =>
          if !(fits l) then "bad-op" else
          let g : Option (List Nat) :=
            if a.arr == 1 then getScaledSlice ty a.invalid l a.scale a.offset
            else some (getScaledArray ty a.invalid (l.getD []) a.scale a.offset)
          let s : Option (List Nat) :=
            if a.arr == 1 then setScaledSlice ty a.invalid g a.scale a.offset
            else some (setScaledArray ty a.invalid (g.getD []) a.scale a.offset)
          match r.mode with
          | .model => s!"g={printList 64 g} s={printList ty.bits s}"
          | .spec => if ty.bits ≤ 32 then s!"g={printList 64 g} s={printList ty.bits l}" else "n/a"
          | .kf => "-"
          | .prop => "n/a"
      else if op == "set" then
        match parseList list 64 with
        | none => "bad-op"
        | some l =>
          if !(fits l) then "bad-op" else
          match r.mode with
          | .model =>
            printList ty.bits (if a.arr == 1 then setScaledSlice ty a.invalid l a.scale a.offset
              else some (setScaledArray ty a.invalid (l.getD []) a.scale a.offset))
          | .kf => "-"
          | _ => "n/a"
      else "bad-op"
  | _ => "bad-op"

/-! ### sov -/

/-- decimal without sign and without leading zeros, at most `max` -/
def dec? (s : String) (max : Nat) : Option Nat :=
  if s.isEmpty || (s.length > 1 && s.front == '0') || !(s.all Char.isDigit) then none
  else match s.toNat? with
    | some n => if n ≤ max then some n else none
    | none => none

/-- a developer field of an `m` item as written: developer data index, number, Go type, raw pattern, scale, offset -/
structure RawDev where
  idx : Nat
  num : Nat
  ty : IntTy
  raw : Nat
  scale : Nat
  offset : Nat

inductive Item where
  | ddi (idx : Nat)
  | desc (d : DevDesc)
  | mesg (devs : List RawDev)

def parseDev (s : String) : Option RawDev :=
  match s.splitOn "=" with
  | [id, rest] =>
    match id.splitOn ".", rest.splitOn "@" with
    | [i, n], [tr, so] =>
      match tr.splitOn ":", so.splitOn "/" with
      | [t, raw], [sc, off] =>
        match dec? i 255, dec? n 255, parseIntTy t, hexW? 16 sc, hexW? 16 off with
        | some i, some n, some ty, some sc, some off =>
          (hexW? (ty.bits / 4) raw).map fun raw => ⟨i, n, ty, raw, sc, off⟩
        | _, _, _, _, _ => none
      | _, _ => none
    | _, _ => none
  | _ => none

def validBaseType (bt : Nat) : Bool :=
  [btEnum, btSint8, btUint8, btSint16, btUint16, btSint32, btUint32, btString, btFloat32, btFloat64, btUint8z, btUint16z,
    btUint32z, btByte, btSint64, btUint64, btUint64z].contains bt

def parseItem (s : String) : Option Item :=
  if s.length < 2 then none
  else
    let body := (s.drop 1).toString
    match s.front with
    | 'i' => (dec? body 254).map .ddi
    | 'd' =>
      match body.splitOn "." with
      | [i, n, bt, sc, off, nm, nf] =>
        match dec? i 255, dec? n 255, hexW? 2 bt, dec? sc 255, dec? off 255, dec? nm 65535, dec? nf 255 with
        | some i, some n, some bt, some sc, some off, some nm, some nf =>
          if validBaseType bt then some (.desc ⟨i, n, bt, sc, off, nm, nf⟩) else none
        | _, _, _, _, _, _, _ => none
      | _ => none
    | 'm' =>
      match body.splitOn ":" with
      | mn :: rest@(_ :: _) =>
        match dec? mn 65535 with
        | some mn =>
          if mn == mesgNumDeveloperDataId || mn == mesgNumFieldDescription then none
          else ((":".intercalate rest).splitOn ",").mapM parseDev |>.map .mesg
        | none => none
      | _ => none
    | _ => none

/-- the value the harness hands to the validator: `scaleoffset.ApplyValue(raw, scale, offset)` -/
def devValue (d : RawDev) : Value := applyValue (Fit.ScaleOffset.mkScalar (.int d.ty) d.raw) d.scale d.offset

def toVItem : Item → VItem
  | .ddi i => .ddi i
  | .desc d => .desc d
  | .mesg ds => .mesg (ds.map fun d => (d.idx, d.num, devValue d))

def printErr : DevErr → String
  | .missingDdi => "err:ddi" | .missingDesc => "err:fd" | .typeMismatch => "err:type"

def printAnswer (it : Item) (r : Except DevErr (List Value)) : String :=
  match it, r with
  | .mesg _, .ok vs => "ok:" ++ ",".intercalate (vs.map fun v => printGoVal (canonGo (toAny v)))
  | _, .ok _ => "ok"
  | _, .error e => printErr e

/-- the pair and base type the description in force designates for the restoration (none = the value is left alone) -/
def designated (d : DevDesc) : Nat × Nat × Nat :=
  if d.nativeMesg ≠ mesgNumInvalid ∧ d.nativeField ≠ uint8Invalid then
    match stdFactory d.nativeMesg d.nativeField with
    | some e => e
    | none => (d.btId, oneBits, 0)
  else if d.scale ≠ uint8Invalid ∧ d.offset ≠ sint8Invalid then (d.btId, ofInt d.scale, ofInt (IntTy.i8.toInt d.offset))
  else (d.btId, oneBits, 0)

/-- C12 demands the identity on this developer field: its index was announced, a description exists, the value was
scaled with exactly the pair that description designates, a pair of the profile (or the unit pair), and the raw value
has the Go type of the designated base type (an integer of at most 32 bits) and of the description's own base type -/
def devInDomain (st : VState) (d : RawDev) : Bool :=
  st.ddis.contains d.idx &&
  match st.descs.find? fun x => x.devIdx == d.idx && x.num == d.num with
  | none => false
  | some x =>
    let (bt, s, o) := designated x
    d.ty.bits ≤ 32 && tgtOfBaseType bt == some (.int d.ty) && align (Fit.ScaleOffset.mkScalar (.int d.ty) d.raw) x.btId &&
      ((isUnit s o && isUnit d.scale d.offset) || (s == d.scale && o == d.offset && pairInProfile s o && !(isUnit s o)))

def specLine (items : List Item) : Option (List String) :=
  let rec go (st : VState) : List Item → Option (List String)
    | [] => some []
    | it :: rest =>
      let st' := (validatorStep stdFactory st (toVItem it)).1
      match it with
      | .mesg ds =>
        if ds.all (devInDomain st) then
          (go st' rest).map fun tl =>
            ("ok:" ++ ",".intercalate (ds.map fun d => printGoVal (toAny (Fit.ScaleOffset.mkScalar (.int d.ty) d.raw)))) :: tl
        else none
      | _ => (go st' rest).map ("ok" :: ·)
  go {} items

def hSov : Handler := fun r =>
  if r.args.isEmpty then "bad-op" else
  match r.args.mapM parseItem with
  | none => "bad-op"
  | some items =>
    match r.mode with
    | .model =>
      let rs := validatorSeq stdFactory {} (items.map toVItem)
      " ".intercalate ((items.zip rs).map fun p => printAnswer p.1 p.2)
    | .spec => match specLine items with
      | some l => " ".intercalate l
      | none => "n/a"
    | .kf => "-"
    | .prop => "n/a"

def hSocd : Handler := modelOnly fun args =>
  match args with
  | [x] => match hexW? 16 x with
    | some x => if csvHasDot x then "1" else "0"
    | none => "bad-op"
  | _ => "bad-op"

end Drv.SoMore
