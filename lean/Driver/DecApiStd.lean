import FitModel.DecoderApiDefault
import Driver.DecApiShow
/-!
Printing of the decoder's DEFAULT CONFIGURATION as modelled by `FitModel/DecoderApiDefault.lean` (the decoder-API model
with the standard factory and expansion off, composed with C05's expansion model over the real profile): the `f:std` lines
with `exp1` of the families `decapi` / `dechist`, in the canonical text of those families.
-/
namespace Drv.DecApiStd
open Drv Fit.DecApi Fit.Value Fit.DecApi.Default

def showField (f : Fit.Msg.Field) : String :=
  match f.base with
  | none => "F?"
  | some b =>
    let s := (if b.array then "a" else "") ++ (if b.nameKnown then "n" else "") ++ (if b.profileBool then "b" else "") ++
      (if f.isExpanded then "x" else "")
    s!"F{b.num}:{hexByte b.baseType}:{if s.isEmpty then "-" else s}:{printValue f.value}"

def showXMsg (x : XMsg) : String :=
  "M" ++ toString x.msg.num ++ "h" ++ toString x.header ++ "{" ++ ";".intercalate (x.msg.fields.map showField) ++ "|" ++
    ";".intercalate (x.msg.devFields.map fun d => s!"D{d.devIdx}.{d.num}:{printValue d.value}") ++ "}"

def showXEvent : XEvent → String
  | .mesgDef d => Drv.DecApi.showDef d
  | .mesg m => showXMsg m

def showTok (verbose : Bool) (op : Op) : Option (XOut × List XEvent) → String
  | none => "*"
  | some (out, evs) =>
    let shown := evs.map showXEvent
    let evTok := if shown.isEmpty then "" else if verbose then "/e" ++ Drv.DecApi.digest shown true
      else s!"/e{shown.length}.{Drv.DecApi.digest shown false}"
    (match out with
      | .fit hdr msgs crc =>
        s!"ok:{Drv.DecApi.showHdr hdr}.{crc}:{msgs.length}:{Drv.DecApi.digest (msgs.map showXMsg) verbose}"
      | .other o => Drv.DecApi.showOut verbose op o) ++ evTok

def answer (verbose : Bool) (o : Opts) (bytes : List Nat) (ops : List Op) : List String :=
  (ops.zip (Default.run o bytes ops)).map fun (op, r) => showTok verbose op r

def specToks (verbose : Bool) (o : Opts) (bytes : List Nat) (ops : List Op) : List String :=
  (ops.zip (Default.spec o bytes ops)).map fun (op, r) => showTok verbose op r

end Drv.DecApiStd
