import FitModel.DecoderApi
import FitModel.DecoderApiSpec
import FitModel.Expand
import FitModel.Generated.ProfileArith
import Driver.DecApiShow
/-!
THE DECODER'S DEFAULT CONFIGURATION — `decoder.New(r)`: standard factory, component expansion ON (sub-fields, scales and
offsets, accumulation) — as a COMPOSITION of two models that are each tied and proved on their own:

* the decoder-API model (C) (`FitModel/DecoderApi.lean`) run with the regenerated standard factory and expansion OFF
  (every byte consumed, every record framed, every wire field decoded, timestamps, developer fields, look-ups, errors);
* C05's model of the tail of `decodeFields` (`Fit.Expand.decodeTail`: `collectAccumulableValues`, sub-field substitution,
  `expandComponents` with the REAL component / sub-field graph and scale / offset arithmetic of `Generated/ProfileArith.lean`),
  applied to every decoded message in order, the accumulator living for one sequence (`d.accumulator.Reset()` in `reset()`).

That the composition is the decoder: expansion appends fields to the message and updates the accumulator, nothing else —
it happens after the wire fields of the record are read and before the message is handed out; file_id, developer_data_id
and field_description (the messages the decoder itself reads back) have no components. Tied by the `f:std` lines with `exp1`
of the families `decapi` / `dechist`.
-/
namespace Drv.DecApiStd
open Drv Fit.DecApi Fit.Value Fit.Expand

def profile : Profile := Fit.Gen.PA.mesgs

/-- a field the decoder decoded, with the `FieldBase` of the standard factory (accumulate flag, scale, offset from the
regenerated profile; base type / array / Bool as the decoder decided them) -/
def toField (mesgNum : Nat) (f : DField) : Fit.Msg.Field :=
  let base : Fit.Msg.FieldBase :=
    match (if f.known then lookup profile mesgNum f.num else none) with
    | some fl => { baseOf fl with baseType := f.bt, array := f.array, profileBool := f.isBool }
    | none => { num := f.num, baseType := f.bt, array := f.array, nameKnown := f.known, profileBool := f.isBool }
  { base := some base, value := f.value, isExpanded := f.expanded }

def toMessage (m : Msg) : Fit.Msg.Message :=
  { num := m.num, fields := m.fields.map (toField m.num), devFields := m.devs.map fun d => ⟨d.idx, d.num, d.value⟩ }

def showField (f : Fit.Msg.Field) : String :=
  match f.base with
  | none => "F?"
  | some b =>
    let s := (if b.array then "a" else "") ++ (if b.nameKnown then "n" else "") ++ (if b.profileBool then "b" else "") ++
      (if f.isExpanded then "x" else "")
    s!"F{b.num}:{hexByte b.baseType}:{if s.isEmpty then "-" else s}:{printValue f.value}"

def showMessage (header : Nat) (m : Fit.Msg.Message) : String :=
  "M" ++ toString m.num ++ "h" ++ toString header ++ "{" ++ ";".intercalate (m.fields.map showField) ++ "|" ++
    ";".intercalate (m.devFields.map fun d => s!"D{d.devIdx}.{d.num}:{printValue d.value}") ++ "}"

/-- the expansion state of the decoder object: the accumulator and the (expanded) messages of the sequence so far -/
structure XSt where
  acc : Fit.Accum.Acc := []
  msgs : List String := []

/-- options under which (C) is run: expansion off, every message visible -/
def inner (o : Opts) : Opts := { o with exp := false, ml := true, bo := false, fac := Drv.DecApi.stdFactory }

def innerOp (o : Opts) : Op → Op
  | .reset _ b => .reset (inner o) b
  | op => op

/-- one call: expand the messages it decoded, print its result with the sequence's expanded messages -/
def walkOne (verbose : Bool) (o : Opts) (x : XSt) (op : Op) (r : Option (Out × List Event)) : XSt × String :=
  match r with
  | none =>
    (match op with | .checkIntegrity | .reset _ _ => {} | _ => x, "*")
  | some (out, evs) =>
    let (x, shown) := evs.foldl (fun (p : XSt × List String) e =>
      match e with
      | .mesgDef d => (p.1, if o.dl then p.2 ++ [Drv.DecApi.showDef d] else p.2)
      | .mesg m =>
        let (acc, em) := decodeTail componentValue profile true p.1.acc (toMessage m)
        let s := showMessage m.header em
        ({ acc := acc, msgs := p.1.msgs ++ [s] }, if o.ml then p.2 ++ [s] else p.2)) (x, [])
    let evTok := if shown.isEmpty then "" else if verbose then "/e" ++ Drv.DecApi.digest shown true
      else s!"/e{shown.length}.{Drv.DecApi.digest shown false}"
    match out with
    | .fit f =>
      let ms := if o.bo then [] else x.msgs
      ({}, s!"ok:{Drv.DecApi.showHdr f.hdr}.{f.crc}:{ms.length}:{Drv.DecApi.digest ms verbose}" ++ evTok)
    | .done => ({}, "ok" ++ evTok)
    | .integrity .. => ({}, Drv.DecApi.showOut verbose op out ++ evTok)
    | _ => (x, Drv.DecApi.showOut verbose op out ++ evTok)

def walk (verbose : Bool) (o : Opts) : XSt → List (Op × Option (Out × List Event)) → List String
  | _, [] => []
  | x, (op, r) :: rest =>
    let (x', s) := walkOne verbose o x op r
    s :: walk verbose o x' rest

end Drv.DecApiStd
