import FitModel.Wire
import FitModel.Generated.WireConsts
import Driver.Util
/-! Driver handlers for the wire-level encoder/decoder families (syntax: see harness/wire.go). -/
-- @family encw Drv.hEncW
-- @family decw Drv.hDecW
namespace Drv
open Fit.Wire

def parseNat? (s : String) : Option Nat := s.toNat?

def parseWField (s : String) : Option (Nat × Nat × Nat × Bytes) :=
  match s.splitOn "." with
  | [a, b, c, d] => do
    let a ← parseNat? a; let b ← parseNat? b; let c ← parseNat? c; let d ← unhex d
    pure (a, b, c, d)
  | _ => none

def parseList {α} (f : String → Option α) (s : String) : Option (List α) :=
  if s.isEmpty then some [] else (s.splitOn ",").mapM f

def parseWMsg (s : String) : Option WMsg :=
  match stripPrefix? s "M" with
  | none => none
  | some r =>
    match r.splitOn "/" with
    | [n, fs, ds] => do
      let n ← parseNat? n
      let fs ← parseList parseWField fs
      let ds ← parseList parseWField ds
      pure { num := n, fields := fs.map (fun (a, b, c, d) => ⟨a, b, c, d⟩),
             devs := ds.map (fun (a, b, _, d) => ⟨a, b, d⟩) }
    | _ => none

structure WFile where
  size : Nat
  protoVer : Nat
  profileVer : Nat
  dataSize : Nat
  msgs : List WMsg

def parseWFiles (toks : List String) : Option (List WFile) :=
  let rec go : List String → List WFile → Option (List WFile)
    | [], acc => some (acc.reverse.map fun f => { f with msgs := f.msgs.reverse })
    | t :: ts, acc =>
      match stripPrefix? t "H" with
      | some r =>
        match r.splitOn "." with
        | [a, b, c, d] =>
          match parseNat? a, parseNat? b, parseNat? c, parseNat? d with
          | some a, some b, some c, some d => go ts (⟨a, b, c, d, []⟩ :: acc)
          | _, _, _, _ => none
        | _ => none
      | none =>
        match parseWMsg t, acc with
        | some m, f :: rest => go ts ({ f with msgs := m :: f.msgs } :: rest)
        | _, _ => none
  go toks []

def kvGet (kv : List (String × String)) (k : String) : Nat :=
  match kv.lookup k with
  | some v => v.toNat?.getD 0
  | none => 0

/-- split leading `k=v` tokens from the rest -/
def splitKV (toks : List String) : List (String × String) × List String :=
  let rec go : List String → List (String × String) → List (String × String) × List String
    | [], acc => (acc.reverse, [])
    | t :: ts, acc =>
      match t.splitOn "=" with
      | [k, v] => go ts ((k, v) :: acc)
      | _ => (acc.reverse, t :: ts)
  go toks []

/-- `WithHeaderOption` clamping -/
def mkOpts (arch hopt lmt : Nat) : Opts :=
  if hopt = 0 then ⟨arch, false, (min lmt 15) + 1⟩
  else if hopt = 1 then ⟨arch, true, (min lmt 3) + 1⟩
  else ⟨arch, false, 1⟩

def execEncW (args : List String) : String :=
  let (kv, rest) := splitKV args
  match parseWFiles rest with
  | none => "bad-op"
  | some files =>
    let arch := kvGet kv "a"
    let o := mkOpts arch (kvGet kv "h") (kvGet kv "l")
    let pvOpt := kvGet kv "pv"
    Id.run do
      let mut out : Bytes := []
      let mut wb : Array String := #[]
      let mut status := "ok"
      for f in files do
        let pv := selectProtoVer pvOpt f.protoVer
        match validateFile pv f.msgs with
        | some e => status := e; break
        | none =>
          let h : Hdr := mkHdr f.size pv f.profileVer Fit.Gen.profileVersion
          let bs := encodeFit o h f.msgs
          out := out ++ bs
          let recs := encodeMsgs o (freshEnc o) f.msgs
          let hcrc := if h.size = 14 then Fit.Crc.write 0 ((hdrBytes h (recs.length % 4294967296)).take 12) else 0
          wb := wb.push s!"{h.size}.{pv}.{recs.length % 4294967296}.{hcrc}.{Fit.Crc.write 0 recs}"
      return s!"{status} {hex out} wb={",".intercalate wb.toList}"

def hEncW : Handler := modelOnly execEncW

def errName : Err → String
  | .eof => "err:eof" | .notFit => "err:notfit" | .crcMismatch => "err:crc"
  | .defMissing => "err:defmissing" | .invalidBaseType => "err:basetype"

def tsKnownFn (n : Nat) : Bool := Fit.Gen.tsKnownMesgs.contains n

def showItem : Item → String
  | .def_ _ d =>
    let fs := ";".intercalate (d.fields.map fun f => s!"{f.num}.{f.size}.{f.bt}")
    let ds := ";".intercalate (d.devs.map fun f => s!"{f.num}.{f.size}.{f.idx}")
    s!" D{d.header}.{d.arch}.{d.mesgNum}({fs})({ds})"
  | .data r =>
    let ts := match r.ts with | some t => toString t | none => "-"
    let n := (r.fields.filter fun (fd, _) => fd.size != 0).length + (if r.ts.isSome then 1 else 0)
    s!" R{r.header}.{r.num}.{ts}.{n}"

def showEv : Ev → String
  | .item i => showItem i
  | .seq f =>
    let n := (f.items.filter fun | .data _ => true | _ => false).length
    s!" S{f.hdr.size}.{f.hdr.protoVer}.{f.hdr.profileVer}.{f.hdr.dataSize}.{f.hdr.crc}.{f.crc}.{n}"

def execDecW (args : List String) : String :=
  let (kv, rest) := splitKV args
  match rest with
  | [h] =>
    match unhex h with
    | none => "bad-op"
    | some bs =>
      let chk := (kv.lookup "chk") != some "0"
      let (evs, e) := decodeStream tsKnownFn chk (bs.length + 1) true bs
      (match e with | some e => errName e | none => "end") ++ String.join (evs.map showEv)
  | _ => "bad-op"

def hDecW : Handler := modelOnly execDecW

end Drv
