import FitModel.Wire
import FitModel.FitFormat
import FitModel.Integrity
import FitModel.Generated.WireConsts
import Driver.Util
/-! Driver handlers for the wire-level encoder/decoder families (syntax: see harness/wire.go). -/
-- @family encw Drv.W.hEncW'
-- @family decw Drv.W.hDecW
-- @family rtw Drv.W.hRtW
namespace Drv.W
open Drv Fit.Wire

def parseNat? (s : String) : Option Nat := s.toNat?

def parseWField (s : String) : Option (Nat × Nat × Nat × Bytes) :=
  match s.splitOn "." with
  | [a, b, c, d] => do
    let a ← parseNat? a; let b ← parseNat? b; let c ← parseNat? c; let d ← unhex d
    pure (a, b, c, d)
  | _ => none

def parseList {α} (f : String → Option α) (s : String) : Option (List α) :=
  if s.isEmpty then some [] else (s.splitOn ",").mapM f

def parseWMsg (s : String) : Option WMsg :=
  match stripPrefix? s "M" with
  | none => none
  | some r =>
    match r.splitOn "/" with
    | [n, fs, ds] => do
      let n ← parseNat? n
      let fs ← parseList parseWField fs
      let ds ← parseList parseWField ds
      pure { num := n, fields := fs.map (fun (a, b, c, d) => ⟨a, b, c, d⟩),
             devs := ds.map (fun (a, b, _, d) => ⟨a, b, d⟩) }
    | _ => none

structure WFile where
  size : Nat
  protoVer : Nat
  profileVer : Nat
  dataSize : Nat
  msgs : List WMsg

def parseWFiles (toks : List String) : Option (List WFile) :=
  let rec go : List String → List WFile → Option (List WFile)
    | [], acc => some (acc.reverse.map fun f => { f with msgs := f.msgs.reverse })
    | t :: ts, acc =>
      match stripPrefix? t "H" with
      | some r =>
        match r.splitOn "." with
        | [a, b, c, d] =>
          match parseNat? a, parseNat? b, parseNat? c, parseNat? d with
          | some a, some b, some c, some d => go ts (⟨a, b, c, d, []⟩ :: acc)
          | _, _, _, _ => none
        | _ => none
      | none =>
        match parseWMsg t, acc with
        | some m, f :: rest => go ts ({ f with msgs := m :: f.msgs } :: rest)
        | _, _ => none
  go toks []

def kvGet (kv : List (String × String)) (k : String) : Nat :=
  match kv.lookup k with
  | some v => v.toNat?.getD 0
  | none => 0

/-- split leading `k=v` tokens from the rest -/
def splitKV (toks : List String) : List (String × String) × List String :=
  let rec go : List String → List (String × String) → List (String × String) × List String
    | [], acc => (acc.reverse, [])
    | t :: ts, acc =>
      match t.splitOn "=" with
      | [k, v] => go ts ((k, v) :: acc)
      | _ => (acc.reverse, t :: ts)
  go toks []

/-- `WithHeaderOption` clamping -/
def mkOpts (arch hopt lmt : Nat) : Opts :=
  if hopt = 0 then ⟨arch, false, (min lmt 15) + 1⟩
  else if hopt = 1 then ⟨arch, true, (min lmt 3) + 1⟩
  else ⟨arch, false, 1⟩

def showWB (w : WriteBack) : String := s!"{w.size}.{w.protoVer}.{w.dataSize}.{w.hcrc}.{w.crc}"

/-- verdict and count of the library's own integrity check on the destination content -/
def showCiW : Fit.Integrity.Result → String
  | .ok n => s!"ok:{n}"
  | .err _ n => s!"bad:{n}"

def execEncW (args : List String) : String :=
  let (kv, rest) := splitKV args
  match parseWFiles rest with
  | none => "bad-op"
  | some files =>
    let arch := kvGet kv "a"
    let o := mkOpts arch (kvGet kv "h") (kvGet kv "l")
    let pvOpt := kvGet kv "pv"
    Id.run do
      let mut out : Bytes := []
      let mut wb : Array String := #[]
      let mut status := "ok"
      for f in files do
        let pv := selectProtoVer pvOpt f.protoVer
        match validateFile pv f.msgs with
        | some e => status := e; break
        | none =>
          let h : Hdr := mkHdr f.size pv f.profileVer Fit.Gen.Wire.profileVersion
          let bs := encodeFit o h f.msgs
          out := out ++ bs
          -- what `Encode` stores back into the caller's FIT value: the MODEL's value (`Wire.writeBack`; `C02_writeback_steps`
          -- ties it to the code's assignments step by step, `C02_writeback` to the bytes on the wire)
          wb := wb.push (showWB (writeBack o h f.msgs))
      return s!"{status} {hex out} wb={",".intercalate wb.toList} ci={showCiW (Fit.Integrity.checkIntegrity out)}"

def hEncW : Handler := modelOnly execEncW

def errName : Err → String
  | .eof => "err:eof" | .notFit => "err:notfit" | .crcMismatch => "err:crc"
  | .defMissing => "err:defmissing" | .invalidBaseType => "err:basetype"

def tsKnownFn (n : Nat) : Bool := Fit.Gen.Wire.tsKnownMesgs.contains n

def fnv64 (h : UInt64) (s : String) : UInt64 :=
  s.foldl (fun h c => (h ^^^ c.toNat.toUInt64) * 0x100000001b3) h

/-- digest of the field payloads of a record as `Wire.decodeRecord` cut them: "<num>.<size>.<hex>;…|<num>.<size>.<idx>.<hex>;…"
(FNV-1a 64; the harness computes the same from the bytes the real raw decoder hands out, cut by the live definition) -/
def payloadDigest (r : WRec) : String :=
  let fs := String.join (r.fields.map fun (f, b) => s!"{f.num}.{f.size}.{hex b};")
  let ds := String.join (r.devs.map fun (f, b) => s!"{f.num}.{f.size}.{f.idx}.{hex b};")
  hexN 16 (fnv64 (0xcbf29ce484222325 : UInt64) (fs ++ "|" ++ ds)).toNat

/-- `descs`: the field descriptions the decoder holds when it decodes the developer fields of the record (the record's
own description included); the last number is `len(mesg.DeveloperFields)`; `p…`: the digest of the field payloads -/
def showItem (descs : List Desc) : Item → String
  | .def_ _ d =>
    let fs := ";".intercalate (d.fields.map fun f => s!"{f.num}.{f.size}.{f.bt}")
    let ds := ";".intercalate (d.devs.map fun f => s!"{f.num}.{f.size}.{f.idx}")
    s!" D{d.header}.{d.arch}.{d.mesgNum}({fs})({ds})"
  | .data r =>
    let ts := match r.ts with | some t => toString t | none => "-"
    let n := (readFields r.fields).length + (if r.ts.isSome then 1 else 0)
    s!" R{r.header}.{r.num}.{ts}.{n}.{(devsKept descs r.devs).length}.p{payloadDigest r}"

def showSeq (f : DecFit) : String :=
  let n := (f.items.filter fun | .data _ => true | _ => false).length
  s!" S{f.hdr.size}.{f.hdr.protoVer}.{f.hdr.profileVer}.{f.hdr.dataSize}.{f.hdr.crc}.{f.crc}.{n}"

/-- the events of a run; the field descriptions are threaded through the data records of a sequence exactly as
`decodeRecord` does (`noteDesc`) and dropped at the end of the sequence -/
def showEvs (evs : List Ev) : String := Id.run do
  let mut descs : List Desc := []
  let mut out := ""
  for e in evs do
    match e with
    | .item (.data r) =>
      descs := noteDesc descs r.num r.fields
      out := out ++ showItem descs (.data r)
    | .item i => out := out ++ showItem descs i
    | .seq f =>
      descs := []
      out := out ++ showSeq f
  return out

def execDecW (args : List String) : String :=
  let (kv, rest) := splitKV args
  match rest with
  | [h] =>
    match unhex h with
    | none => "bad-op"
    | some bs =>
      let chk := (kv.lookup "chk") != some "0"
      let (evs, e) := decodeStream tsKnownFn chk (bs.length + 1) true bs
      (match e with | some e => errName e | none => "end") ++ showEvs evs
  | _ => "bad-op"

def hDecW : Handler := modelOnly execDecW


/-! ### rtw: wire-level round trip (encode, then decode) and its property predicate -/

structure RtIn where
  o : Opts
  files : List (Hdr × List WMsg)
  /-- the encoder rejects the input (empty messages / protocol violation): the property does not apply -/
  rejected : Option String

def parseRt (args : List String) : Option RtIn :=
  let (kv, rest) := splitKV args
  match parseWFiles rest with
  | none => none
  | some files =>
    let o := mkOpts (kvGet kv "a") (kvGet kv "h") (kvGet kv "l")
    let pvOpt := kvGet kv "pv"
    let fs := files.map fun f =>
      let pv := selectProtoVer pvOpt f.protoVer
      ((mkHdr f.size pv f.profileVer Fit.Gen.Wire.profileVersion, f.msgs), validateFile pv f.msgs)
    some ⟨o, fs.map (·.1), fs.findSome? (·.2)⟩

def showStream (r : List Ev × Option Err) : String :=
  (match r.2 with | some e => errName e | none => "end") ++ showEvs r.1

def execRtW (args : List String) : String :=
  match parseRt args with
  | none => "bad-op"
  | some i =>
    -- the encoder writes the sequences before the rejected one
    let accepted := match i.rejected with
      | none => i.files
      | some _ => i.files.takeWhile fun f => (validateFile f.1.protoVer f.2).isNone
    match i.rejected with
    | some e => "enc-" ++ e
    | none =>
      let bs := encodeChain i.o accepted
      showStream (decodeStream tsKnownFn true (bs.length + 1) true bs)

/-- records of one decoded sequence as the implementation reported them: (num, ts, nfields, ndevfields, payload digest) -/
def parseEvents (toks : List String) : Option (List (List (Nat × Option Nat × Nat × Nat × String) × Nat)) :=
  let rec go : List String → List (Nat × Option Nat × Nat × Nat × String) → List (List (Nat × Option Nat × Nat × Nat × String) × Nat) →
      Option (List (List (Nat × Option Nat × Nat × Nat × String) × Nat))
    | [], [], acc => some acc.reverse
    | [], _ :: _, _ => none          -- records after the last completed sequence
    | t :: ts, cur, acc =>
      if t.startsWith "D" then go ts cur acc
      else if t.startsWith "R" then
        match (t.drop 1).toString.splitOn "." with
        | [_, n, tsS, k, kd, pd] =>
          match n.toNat?, k.toNat?, kd.toNat? with
          | some n, some k, some kd =>
            let tsV := if tsS == "-" then some none else tsS.toNat?.map some
            match tsV with
            | some v => go ts ((n, v, k, kd, pd) :: cur) acc
            | none => none
          | _, _, _ => none
        | _ => none
      else if t.startsWith "S" then
        match ((t.drop 1).toString.splitOn ".").getLast? with
        | some c => match c.toNat? with
          | some c => go ts [] ((cur.reverse, c) :: acc)
          | none => none
        | none => none
      else none
  go toks [] []

/-- the property on one message: number, and either all fields back, or the original timestamp
reconstructed and the other fields back (counted by the number of non-empty fields); every non-empty developer
field that has a field description (`descs`: those written so far in the sequence, this message included) back -/
def recOK (arch : Nat) (descs : List Desc) (m : WMsg) (r : Nat × Option Nat × Nat × Nat × String) : Bool :=
  let nz (fs : List WField) := (fs.filter fun f => f.data.length != 0).length
  -- the field payloads the record was read with (the harness's digest of the REAL record bytes cut by the live definition) are
  -- the bytes that were written: every field (without the timestamp the encoder moved into the header) and developer field
  let wrote (fs : List WField) : String := "p" ++ payloadDigest
    ⟨0, m.num, arch, none, fs.map (fun f => (⟨f.num, f.data.length % 256, f.bt⟩, f.data)),
      m.devs.map (fun f => (⟨f.num, f.data.length % 256, f.idx⟩, f.data))⟩
  r.1 == m.num &&
  r.2.2.2.1 == (m.devs.filter fun d => (findDesc descs ⟨d.num, d.data.length % 256, d.idx⟩).isSome && d.data.length != 0).length &&
  match r.2.1 with
  | none => r.2.2.1 == nz m.fields && r.2.2.2.2 == wrote m.fields
  | some t => t == tsOf arch m && tsOf arch m != u32Invalid && r.2.2.1 == nz (removeFirst tsFieldNum m.fields) + 1 &&
      r.2.2.2.2 == wrote (removeFirst tsFieldNum m.fields)

/-- `recOK` over the messages of a sequence, the written field descriptions threaded as the decoder records them -/
def recsOK (arch : Nat) : List Desc → List WMsg → List (Nat × Option Nat × Nat × Nat × String) → Bool
  | _, [], [] => true
  | descs, m :: ms, r :: rs =>
    let descs' := noteDesc descs m.num (wireFields m)
    recOK arch descs' m r && recsOK arch descs' ms rs
  | _, _, _ => false

def propRtW (args : List String) (impl : String) : String :=
  match parseRt args with
  | none => "n/a"
  | some i =>
    if i.rejected.isSome then "n/a"
    else if !optsOKB i.o || !(i.files.all fun f => fitOKB i.o f.1 f.2) then "n/a"   -- outside what validation lets through
    -- a developer field written under a field description with an invalid base type: the message validator never lets it
    -- through (family rtw encodes with a PASS-THROUGH validator, which is not one of the validator options C01 quantifies
    -- over); the decoder rejects the stream (`errInvalidBaseType`) — outside the property's domain, see FitProps/C01.lean
    else if !(i.files.all fun f => msgsDescOK [] f.2) then "n/a"
    else
      match (impl.splitOn " ").filter (· ≠ "") with
      | [] => "fail:no-answer"
      | status :: evs =>
        if status != "end" then s!"fail:decode-{status}" else
        match parseEvents evs with
        | none => "fail:events"
        | some seqs =>
          if seqs.length != i.files.length then "fail:sequence-count" else
          let bad := (seqs.zip i.files).findSome? fun (sq, f) =>
            if sq.1.length != f.2.length || sq.2 != f.2.length then some "fail:message-count"
            else if recsOK i.o.arch [] f.2 sq.1 then none else some "fail:message"
          bad.getD "ok"

/-- no known-finding class is left for the round trip: KF-C01-ts (compressed headers with timestamps that are
not valid, unique and non-decreasing) is fixed in /repo, and `C01_wire_records` has no timestamp hypothesis -/
def kfRtW (_args : List String) : String := "-"

/-- C02 on the implementation: the bytes the real encoder wrote form a well-formed stream per the independent framing
spec, one sequence per FIT value; every 14-byte header carries its COMPUTED CRC (`headerCrcStrict`: a zero field is not
good enough — `C02_header_crc`); the header/CRC values written back into the caller's FIT values are the ones on the wire
(`C02_writeback`); the library's own integrity check accepts the stream and counts one sequence per FIT value
(`C02_integrity_accepts`); every file CRC covers its whole sequence (`C02_wellformed`; evaluated LAST, so that on a
12-byte header — where it fails: KF-C02-legacy-crc — all the other clauses have been demanded and have held). -/
def propEncW (args : List String) (impl : String) : String :=
  match parseRt args with
  | none => "n/a"
  | some i =>
    if i.rejected.isSome then "n/a"
    else if !optsOKB i.o || !(i.files.all fun f => fitOKB i.o f.1 f.2) then "n/a"
    else
      match (impl.splitOn " ").filter (· ≠ "") with
      | [status, hx, wb, ci] =>
        if status != "ok" then s!"fail:encode-{status}" else
        match unhex hx with
        | none => "fail:answer"
        | some bs =>
          match Fit.FitFormat.parseStream bs with
          | none => "fail:not-a-fit-stream"
          | some seqs =>
            if seqs.length != i.files.length then "fail:sequence-count"
            else if !(seqs.all fun s => Fit.FitFormat.headerCrcStrict bs s) then "fail:header-crc"
            else
              let onWire := seqs.map fun s =>
                s!"{s.header.size}.{s.header.protocolVersion}.{s.header.dataSize}.{s.header.crc.getD 0}.{s.crc}"
              if "wb=" ++ ",".intercalate onWire != wb then "fail:writeback"
              else if ci != s!"ci=ok:{i.files.length}" then "fail:integrity-check"
              else if !(seqs.all fun s => Fit.FitFormat.fileCrcOk bs s) then "fail:file-crc"
              else "ok"
      | _ => "fail:answer"

def kfEncW (args : List String) : String :=
  match parseRt args with
  | none => "-"
  | some i => if i.files.any fun f => f.1.size == 12 then "KF-C02-legacy-crc" else "-"

def hEncW' : Handler := fun r =>
  match r.mode with
  | .model => execEncW r.args
  | .spec => "n/a"
  | .prop => propEncW r.args r.impl
  | .kf => kfEncW r.args

def hRtW : Handler := fun r =>
  match r.mode with
  | .model => execRtW r.args
  | .spec => "n/a"
  | .prop => propRtW r.args r.impl
  | .kf => kfRtW r.args

end Drv.W
