import FitModel.EndToEnd
import FitModel.Generated.WireConsts
import Driver.Validator
import Driver.Wire
import Driver.DecoderApi
-- @family rte2e Drv.E2E.hRtE2E
-- @family redec Drv.E2E.hReDec
/-!
Driver of the family `rte2e` (syntax: harness/fam_rte2e.go): typed messages → the REAL validator → encoder →
bytes → decoder → decoded messages. The model answer is `Fit.E2E.encodeChain` followed by `Fit.E2E.decodeChain`
(the definitions `FitProps/C01E2E.lean` is about); `--prop` evaluates the end-to-end property on the implementation's
answer: every decoded sequence is `Fit.E2E.normalSeq` of what validation retained; `--kf` prints the finding classes.
-/
namespace Drv.E2E
open Drv Fit.E2E Fit.Msg Fit.Value

structure Line where
  c : Cfg
  o : Fit.DecApi.Opts
  files : List FileIn
  /-- the decoder runs with the standard factory (`df:std`) -/
  std : Bool := false
  /-- `px=1`: component expansion ON under a factory whose component graph the model does not have (the standard factory):
  both sides print the decoded messages WITHOUT the fields created by expansion and with the values of the wire fields that
  are destinations of a component of their message MASKED — reading (ii) of the property -/
  px : Bool := false

def parseHdrTok (s : String) : Option FileIn :=
  match stripPrefix? s "H" with
  | none => none
  | some r =>
    match r.splitOn "." with
    | [a, b, c] =>
      match a.toNat?, b.toNat?, c.toNat? with
      | some a, some b, some c => some { hsize := a, hpv := b, hprofile := c, msgs := [] }
      | _, _, _ => none
    | _ => none

def parseFiles (toks : List String) : Option (List FileIn) :=
  let rec go : List String → List FileIn → Option (List FileIn)
    | [], acc => some (acc.reverse.map fun f => { f with msgs := f.msgs.reverse })
    | t :: ts, acc =>
      if t.startsWith "H" then
        match parseHdrTok t with
        | some f => go ts (f :: acc)
        | none => none
      else
        match parseMessage t, acc with
        | some m, f :: rest => go ts ({ f with msgs := m :: f.msgs } :: rest)
        | _, _ => none
  go toks []

def parseLine (args : List String) : Option Line :=
  let (kv, rest) := W.splitKV args
  match rest with
  | a :: b :: c :: d :: toks => do
    let va ← parseVArgs a b c
    let fac ← (stripPrefix? d "df:").bind DecApi.parseFactory
    let files ← parseFiles toks
    let w := W.mkOpts (W.kvGet kv "a") (W.kvGet kv "h") (W.kvGet kv "l")
    some { c := { w := w, pvOpt := W.kvGet kv "pv", vo := va.o, D := va.D, profileVersion := Fit.Gen.Wire.profileVersion },
           o := { chk := W.kvGet kv "chk" != 0, exp := W.kvGet kv "exp" != 0, fac := fac },
           files := files, std := d == "df:std", px := W.kvGet kv "px" != 0 }
  | _ => none

/-- the field numbers of message `m` that are destinations of a component of some field of that message in the decoder's
factory (standard factory: regenerated table `Fit.Gen.Wire.stdCompDests`, sub-field components included) -/
def compDests (l : Line) (m : Nat) : List Nat :=
  if l.std then (Fit.Gen.Wire.stdCompDests.filter (·.1 == m)).map (·.2)
  else (l.o.fac.filter (·.mesgNum == m)).flatMap fun e => e.info.comps.map (·.fieldNum)

/-- a decoded message for reading (ii): expanded fields left out, destinations masked (flag m, value u8:00) -/
def showMasked (l : Line) (m : Fit.DecApi.Msg) : String :=
  let ds := compDests l m.num
  let fs := (m.fields.filter (!·.expanded)).map fun f =>
    if ds.contains f.num then
      let fl := DecApi.flagsOf f
      s!"F{f.num}:{hexByte f.bt}:{if fl == "-" then "m" else fl ++ "m"}:u8:00"
    else DecApi.showField f
  "M" ++ toString m.num ++ "h" ++ toString m.header ++ "{" ++ ";".intercalate fs ++ "|" ++
    ";".intercalate (m.devs.map fun d => s!"D{d.idx}.{d.num}:{printValue d.value}") ++ "}"

def encErrName : EncErr → String
  | .empty => "err:empty"
  | .panic => "panic"
  | .validation e =>
    match e with
    | .noFields => "err:no-fields" | .typeMismatch => "err:type" | .invalidUtf8 => "err:utf8" | .exceed => "err:exceed"
    | .missingDdi => "err:ddi" | .missingFd => "err:fd" | .protocolViolation => "err:protocol"

def outName : Option Fit.DecApi.Out → String
  | none => "end"
  | some (.err e) => "err:" ++ DecApi.errName e
  | some .panic => "panic"
  | some .hang => "hang"
  | some _ => "other"

/-- the last sentence of the property on the model: the decoded messages handed back to the encoder (`ofDecoded`), encoded
under the same options, decoded again -/
def reencode (l : Line) (fits : List Fit.DecApi.Fit) : String :=
  let (kepts, bytes, err) := encodeChain l.c (backFiles fits) 0
  match err with
  | some (i, e) => s!"{encErrName e}@{i}"
  | none =>
    let (fits2, e2) := decodeChain l.o bytes
    match e2 with
    | some o => "dec-" ++ outName (some o)
    | none =>
      -- `C01_e2e_reencode_partial`: what comes back is what validation retained of the decoded messages, values as they
      -- are, each message with its timestamp where it was or in front
      let got := fits2.map fun f => f.msgs.map proj
      if kepts.length != got.length then "diff@count"
      else
        match (kepts.zip got).zipIdx.find? (fun p => !seqMatches idValue false l.o.fac l.c.w.arch {} p.1.1 p.1.2) with
        | none => "same"
        | some ((k, g), i) =>
          if k.length != g.length then s!"diff@{i}"
          else
            -- first message whose decoded form is none of the allowed forms (the validator's look-ups threaded)
            let rec firstBad (vst : Fit.Validator.State) : List Message → List NMsg → Nat → Nat
              | m :: ms, n :: ns, j =>
                let vst' := Fit.Validator.remember vst m.num m.fields
                if (msgVariants idValue false l.o.fac l.c.w.arch vst'.fds m).contains n then firstBad vst' ms ns (j + 1) else j
              | _, _, j => j
            s!"diff@{i}.{firstBad {} k g 0}"

def answer (l : Line) : String :=
  let (kept, bytes, err) := encodeChain l.c l.files 0
  let encS := match err with
    | none => "ok"
    | some (i, e) => s!"{encErrName e}@{i}"
  let vs := (kept.zipIdx.flatMap fun (ms, i) => ms.map fun m => s!"V{i}:{printMessage m}")
  let (fits, e) := decodeChain l.o bytes
  let ss := (fits.zipIdx.flatMap fun (f, i) => f.msgs.map fun m => s!"S{i}:{if l.px then showMasked l m else DecApi.showMsg m}")
  let re := if e.isNone && !fits.isEmpty && !l.px then reencode l fits else "-"
  " ".intercalate ([s!"enc={encS}"] ++ vs ++ [s!"dec={outName e}", s!"ns={fits.length}"] ++ ss ++ [s!"re={re}"])

/-! ### parsing the implementation's answer -/

def parseDField (s : String) : Option (NField × Bool) :=
  match s.splitOn ":" with
  | [h, bt, fl, tag, payload] =>
    if !h.startsWith "F" then none else do
      let num ← parseDec (h.drop 1).toString 256
      let bt ← parseHexByte bt
      let v ← parseValueTP tag payload
      some (⟨num, bt, v⟩, fl.contains 'x')
  | _ => none

def parseDDev (s : String) : Option NDev :=
  match s.splitOn ":" with
  | [h, tag, payload] =>
    if !h.startsWith "D" then none else
    match ((h.drop 1).toString).splitOn "." with
    | [i, n] => do
      let i ← parseDec i 256
      let n ← parseDec n 256
      let v ← parseValueTP tag payload
      some ⟨n, i, v⟩
    | _ => none
  | _ => none

/-- a decoded message in the `decapi` text syntax → what the property compares (expanded fields dropped) -/
def parseDMsg (s : String) : Option NMsg :=
  if !s.startsWith "M" || !s.endsWith "}" then none else
  match ((s.drop 1).dropEnd 1).toString.splitOn "{" with
  | [head, body] =>
    match head.splitOn "h", body.splitOn "|" with
    | [num, _], [fl, dl] => do
      let num ← parseDec num 65536
      let fs ← if fl.isEmpty then some [] else (fl.splitOn ";").mapM parseDField
      let ds ← if dl.isEmpty then some [] else (dl.splitOn ";").mapM parseDDev
      some ⟨num, (fs.filter (fun p => !p.2)).map (·.1), ds⟩
    | _, _ => none
  | _ => none

structure Impl where
  enc : String
  kept : List (List Message)
  dec : String
  ns : Nat
  seqs : List (List NMsg)
  re : String

def groupTok {α} (pre : String) (parse : String → Option α) (toks : List String) : Option (List (List α)) := do
  let mut acc : Array (Array α) := #[]
  for t in toks do
    match stripPrefix? t pre with
    | none => pure ()
    | some r =>
      match r.splitOn ":" with
      | i :: rest =>
        let i ← i.toNat?
        let x ← parse (":".intercalate rest)
        while acc.size ≤ i do acc := acc.push #[]
        acc := acc.modify i (·.push x)
      | [] => none
  return acc.toList.map (·.toList)

def parseImpl (s : String) : Option Impl := do
  let toks := (s.splitOn " ").filter (· ≠ "")
  let enc ← toks.findSome? (stripPrefix? · "enc=")
  let dec ← toks.findSome? (stripPrefix? · "dec=")
  let ns ← (toks.findSome? (stripPrefix? · "ns=")).bind String.toNat?
  let kept ← groupTok "V" parseMessage (toks.filter (·.startsWith "V"))
  let seqs ← groupTok "S" parseDMsg (toks.filter (·.startsWith "S"))
  let re := (toks.findSome? (stripPrefix? · "re=")).getD "-"
  some ⟨enc, kept, dec, ns, seqs, re⟩

/-- component expansion can touch the fields of these messages (then only C05 can say what comes back) -/
def expansionInert (fac : Fit.DecApi.Factory) (kept : List Message) : Bool :=
  kept.all fun m => m.fields.all fun f => match f.base with
    | some b => (fac.create m.num b.num).comps.isEmpty
    | none => true

def showN (m : NMsg) : String :=
  s!"M{m.num}\{" ++ ";".intercalate (m.fields.map fun f => s!"F{f.num}:{hexByte f.bt}:{printValue f.value}") ++ "|" ++
    ";".intercalate (m.devs.map fun d => s!"D{d.idx}.{d.num}:{printValue d.value}") ++ "}"

/-- a decoded field of a `px=1` line: (number, base type, value) and whether the value is masked -/
def parseMField (s : String) : Option (NField × Bool) :=
  match s.splitOn ":" with
  | [h, bt, fl, tag, payload] =>
    if !h.startsWith "F" then none else do
      let num ← parseDec (h.drop 1).toString 256
      let bt ← parseHexByte bt
      let v ← parseValueTP tag payload
      some (⟨num, bt, v⟩, fl.contains 'm')
  | _ => none

def parseMMsg (s : String) : Option (Nat × List (NField × Bool) × List NDev) :=
  if !s.startsWith "M" || !s.endsWith "}" then none else
  match ((s.drop 1).dropEnd 1).toString.splitOn "{" with
  | [head, body] =>
    match head.splitOn "h", body.splitOn "|" with
    | [num, _], [fl, dl] => do
      let num ← parseDec num 65536
      let fs ← if fl.isEmpty then some [] else (fl.splitOn ";").mapM parseMField
      let ds ← if dl.isEmpty then some [] else (dl.splitOn ";").mapM parseDDev
      some (num, fs, ds)
    | _, _ => none
  | _ => none

/-- reading (ii) of the property on the implementation's answer of a `px=1` line (real decoder, component expansion ON,
standard factory): after deleting the fields marked expanded (the harness left them out), every decoded sequence is the
strict normal form of what validation retained — message numbers, order, per field number and base type, value; developer
fields — except the VALUES of wire fields that are destinations of a component of their message (masked on both sides) -/
def propMasked (l : Line) (impl : String) : String :=
  match parseImpl impl with
  | none => if impl == "bad-op" then "n/a" else "fail:answer"
  | some r =>
    if r.enc.startsWith "panic" then "fail:encode-panic"
    else if r.kept.isEmpty then "n/a"
    else if r.dec != "end" then s!"fail:decode-{r.dec}"
    else if r.ns != r.kept.length then "fail:sequence-count"
    else if !(r.kept.all (inDomain l.o.fac)) then "n/a"
    else
      let toks := ((impl.splitOn " ").filter (· ≠ "")).filter (·.startsWith "S")
      match groupTok "S" parseMMsg toks with
      | none => "fail:answer"
      | some seqs =>
        let seqs := seqs ++ List.replicate (r.kept.length - seqs.length) []
        let eqM (want : NMsg) (got : Nat × List (NField × Bool) × List NDev) : Bool :=
          want.num == got.1 && want.devs == got.2.2 && want.fields.length == got.2.1.length &&
            (want.fields.zip got.2.1).all fun (w, g) => w.num == g.1.num && w.bt == g.1.bt && (g.2 || w.value == g.1.value)
        match (r.kept.zip seqs).zipIdx.findSome? (fun ((kept, got), i) =>
            let want := seqBack strictValue false l.o.fac l.c.w {} kept
            if want.length != got.length then some s!"fail:seq{i}:message-count"
            else
              match (want.zip got).zipIdx.find? (fun p => !eqM p.1.1 p.1.2) with
              | some (_, k) => some s!"fail:seq{i}.msg{k}:expansion-on"
              | none => none) with
        | some why => why
        | none => "ok"

/-- the property on the implementation's answer: what was decoded is the normal form of what validation retained -/
def prop (l : Line) (impl : String) : String :=
  match parseImpl impl with
  | none => if impl == "bad-op" then "n/a" else "fail:answer"
  | some r =>
    if r.enc.startsWith "panic" then "fail:encode-panic"
    else if r.re.startsWith "diff" || r.re.startsWith "dec-" || r.re == "panic" then s!"fail:reencode-{r.re}"
    else if r.kept.isEmpty then "n/a"                      -- nothing was accepted
    else if r.dec != "end" then s!"fail:decode-{r.dec}"
    else if r.ns != r.kept.length || r.seqs.length != r.kept.length then "fail:sequence-count"
    else if !(r.kept.all (inDomain l.o.fac)) then "n/a"
    else if l.o.exp && !(r.kept.all (expansionInert l.o.fac)) then "n/a"
    else
      match (r.kept.zip r.seqs).zipIdx.findSome? (fun ((kept, got), i) =>
          let want := normalSeq l.o.fac l.c.w kept
          -- the predicate of `C01_e2e_roundtrip_partial`: every decoded message is the normal form of the retained
          -- message, with its first timestamp where it was or in front
          if !seqMatches normalValue false l.o.fac l.c.w.arch {} kept got then
            let k := ((want.zip got).zipIdx.find? (fun p => p.1.1 != p.1.2)).map (·.2) |>.getD (min want.length got.length)
            some s!"fail:seq{i}.msg{k}:want={(want[k]?.map showN).getD "-"}"
          -- sharper (deterministic): the timestamp is in front exactly where the encoder compressed it
          else if want != got then some s!"fail:seq{i}:timestamp-placement"
          -- rule (c) taken apart (`C01_e2e_roundtrip_strict_partial`): every string of a string array keeps its place —
          -- the decoder's dropping of empty strings is not part of what the property allows
          else if !seqMatches strictValue false l.o.fac l.c.w.arch {} kept got then some s!"fail:seq{i}:empty-string-dropped"
          else none) with
      | some why => why
      | none => "ok"

/-- finding classes, evaluated on what the MODEL's validator retains -/
def kf (l : Line) : String :=
  let (kept, _, _) := encodeChain l.c l.files 0
  -- (the class of KF-C01-boolarr — a decoded typedef.Bool array holding a byte other than 0 / 1 / 255 — is gone: fixed in /repo 5da5106)
  let ids := (if kept.any (kfZero l.o.fac) then ["KF-C01-zero"] else []) ++
    (if kept.any (kfArr l.o.fac) then ["KF-C01-arr"] else []) ++
    (if kept.any (kfFFFD l.o.fac) then ["KF-C01-fffd"] else []) ++
    (if kept.any (kfEmpty l.o.fac) then ["KF-C01-emptystr"] else [])
  if ids.isEmpty then "-" else ",".intercalate ids

def hRtE2E : Handler := fun r =>
  match parseLine r.args with
  | none => if r.mode == .model then "bad-op" else if r.mode == .kf then "-" else "n/a"
  | some l =>
    match r.mode with
    | .model => answer l
    | .spec => "n/a"
    | .prop => if l.px then propMasked l r.impl else prop l r.impl
    | .kf => kf l

/-! ### op `redec`: the last sentence of the property on ARBITRARY decoder output (syntax: harness/fam_rte2e_redec.go) -/

structure ReLine where
  c : Cfg
  o : Fit.DecApi.Opts
  bytes : List Nat
  verbose : Bool

def parseReLine (args : List String) : Option ReLine :=
  let (kv, rest) := W.splitKV args
  match rest with
  | [a, b, c, d, e] => do
    let va ← parseVArgs a b c
    let fac ← (stripPrefix? d "df:").bind DecApi.parseFactory
    let bytes ← (stripPrefix? e "b:").bind unhex
    let w := W.mkOpts (W.kvGet kv "a") (W.kvGet kv "h") (W.kvGet kv "l")
    some { c := { w := w, pvOpt := W.kvGet kv "pv", vo := va.o, D := va.D, profileVersion := Fit.Gen.Wire.profileVersion },
           o := { chk := W.kvGet kv "chk" != 0, exp := W.kvGet kv "exp" != 0, fac := fac },
           bytes := bytes, verbose := kv.lookup "v" != some "0" }
  | _ => none

/-- a retained message in the decapi syntax (header byte 0) -/
def showKept (m : Message) : String :=
  let fl (f : Field) (b : FieldBase) : String :=
    let s := (if b.array then "a" else "") ++ (if b.nameKnown then "n" else "") ++ (if b.profileBool then "b" else "") ++
      (if f.isExpanded then "x" else "")
    if s.isEmpty then "-" else s
  "M" ++ toString m.num ++ "h0{" ++ ";".intercalate (m.fields.filterMap fun f => f.base.map fun b =>
      s!"F{b.num}:{hexByte b.baseType}:{fl f b}:{printValue f.value}") ++ "|" ++
    ";".intercalate (m.devFields.map fun d => s!"D{d.devIdx}.{d.num}:{printValue d.value}") ++ "}"

def reGroup (pre : String) (items : List (List String)) (verbose : Bool) : List String :=
  if verbose then items.zipIdx.flatMap fun (ms, i) => ms.map fun s => s!"{pre}{i}:{s}"
  else
    let flat := items.zipIdx.flatMap fun (ms, i) => ms.map fun s => s!"{i}:{s}"
    [s!"{pre}#{flat.length}.{DecApi.digest flat false}"]

/-- what the three steps of a `redec` line produce -/
structure ReObs where
  dec : String
  S : List (List Fit.DecApi.Msg)
  enc : String
  V : List (List Message)
  dec2 : String
  T : List (List Fit.DecApi.Msg)

def zeroHdr (m : Fit.DecApi.Msg) : Fit.DecApi.Msg := { m with header := 0 }

/-- the model: `decodeChain`, `backFiles`, `encodeChain`, `decodeChain` -/
def reModel (l : ReLine) : ReObs :=
  let (fits, e) := decodeChain l.o l.bytes
  let S := fits.map (·.msgs)
  if fits.isEmpty || e == some .panic then ⟨outName e, S, "-", [], "-", []⟩ else
  let (kepts, bytes, err) := encodeChain l.c (backFiles fits) 0
  match err with
  | some (i, er) => ⟨outName e, S, s!"{encErrName er}@{i}", kepts, "-", []⟩
  | none =>
    let (fits2, e2) := decodeChain l.o bytes
    ⟨outName e, S, "ok", kepts, outName e2, fits2.map fun f => f.msgs.map zeroHdr⟩

/-- `re=`: every re-decoded sequence is what validation retained, values as they are (the predicate of `C01_e2e_reencode`) -/
def reVerdict (l : ReLine) (r : ReObs) : String :=
  if r.enc != "ok" || r.dec2 != "end" then "-"
  else if r.V.length != r.T.length then "diff@count"
  else
    match (r.V.zip r.T).zipIdx.find? (fun p => !seqMatches idValue false l.o.fac l.c.w.arch {} p.1.1 (p.1.2.map proj)) with
    | none => "same"
    | some ((k, g), i) =>
      if k.length != g.length then s!"diff@{i}"
      else
        let rec firstBad (vst : Fit.Validator.State) : List Message → List NMsg → Nat → Nat
          | m :: ms, n :: ns, j =>
            let vst' := Fit.Validator.remember vst m.num m.fields
            if (msgVariants idValue false l.o.fac l.c.w.arch vst'.fds m).contains n then firstBad vst' ms ns (j + 1) else j
          | _, _, j => j
        s!"diff@{i}.{firstBad {} k (g.map proj) 0}"

def reAnswer (l : ReLine) : String :=
  let r := reModel l
  let head := [s!"dec={r.dec}", s!"ns={r.S.length}"] ++ reGroup "S" (r.S.map (·.map DecApi.showMsg)) l.verbose
  if r.enc == "-" then " ".intercalate (head ++ ["enc=-", "dec2=-", "ns2=0", "re=-"]) else
  let mid := [s!"enc={r.enc}"] ++ reGroup "V" (r.V.map (·.map showKept)) l.verbose
  if r.enc != "ok" then " ".intercalate (head ++ mid ++ ["dec2=-", "ns2=0", "re=-"]) else
  " ".intercalate (head ++ mid ++ [s!"dec2={r.dec2}", s!"ns2={r.T.length}"] ++
    reGroup "T" (r.T.map (·.map DecApi.showMsg)) l.verbose ++ [s!"re={reVerdict l r}"])

def parseFlagsD (s : String) : Option (Bool × Bool × Bool × Bool) :=
  if s == "-" then some (false, false, false, false)
  else if s.all (fun c => c == 'a' || c == 'n' || c == 'b' || c == 'x') then
    some (s.contains 'a', s.contains 'n', s.contains 'b', s.contains 'x')
  else none

def parseDFieldFull (s : String) : Option Fit.DecApi.DField :=
  match s.splitOn ":" with
  | [h, bt, fl, tag, payload] =>
    if !h.startsWith "F" then none else do
      let num ← parseDec (h.drop 1).toString 256
      let bt ← parseHexByte bt
      let (a, n, b, x) ← parseFlagsD fl
      let v ← parseValueTP tag payload
      some ⟨num, bt, n, b, a, v, x⟩
  | _ => none

/-- a message in the decapi syntax, with the attributes of its fields -/
def parseDMsgFull (s : String) : Option Fit.DecApi.Msg :=
  if !s.startsWith "M" || !s.endsWith "}" then none else
  match ((s.drop 1).dropEnd 1).toString.splitOn "{" with
  | [head, body] =>
    match head.splitOn "h", body.splitOn "|" with
    | [num, hd], [fl, dl] => do
      let num ← parseDec num 65536
      let hd ← parseDec hd 256
      let fs ← if fl.isEmpty then some [] else (fl.splitOn ";").mapM parseDFieldFull
      let ds ← if dl.isEmpty then some [] else (dl.splitOn ";").mapM parseDDev
      some ⟨hd, num, fs, ds.map fun d => ⟨d.num, d.idx, d.value⟩⟩
    | _, _ => none
  | _ => none

def parseReImpl (s : String) : Option ReObs := do
  let toks := (s.splitOn " ").filter (· ≠ "")
  let dec ← toks.findSome? (stripPrefix? · "dec=")
  let enc ← toks.findSome? (stripPrefix? · "enc=")
  let dec2 ← toks.findSome? (stripPrefix? · "dec2=")
  let ns ← (toks.findSome? (stripPrefix? · "ns=")).bind String.toNat?
  let ns2 ← (toks.findSome? (stripPrefix? · "ns2=")).bind String.toNat?
  let pad {α} (n : Nat) (l : List (List α)) : List (List α) := l ++ List.replicate (n - l.length) []
  let S ← groupTok "S" parseDMsgFull (toks.filter fun t => t.startsWith "S" && !t.startsWith "S#")
  let V ← groupTok "V" parseDMsgFull (toks.filter fun t => t.startsWith "V" && !t.startsWith "V#")
  let T ← groupTok "T" parseDMsgFull (toks.filter fun t => t.startsWith "T" && !t.startsWith "T#")
  let nv := if enc == "ok" then ns else ((enc.splitOn "@").getLast?.bind String.toNat?).getD 0
  some ⟨dec, pad ns S, enc, (pad nv V).map (·.map ofDecoded), dec2, pad ns2 T⟩

/-- **the last sentence of the property on what the implementation did**: the decoder returned `S`; the encoder accepted it
and validation retained `V`; decoding the written bytes again gave `T`. Demanded: (i) `V` is `S` as it is minus the
invalid-valued fields (`Fit.E2E.retained`: nothing converted or restored), (ii) `T` is `V`, values as they are, each
message with its first timestamp where it was or in front (`seqMatches idValue` — the predicate of `C01_e2e_reencode`). -/
def reJudge (l : ReLine) (r : ReObs) : String :=
  if r.dec == "panic" then "fail:decode-panic"
  else if r.S.isEmpty then "n/a"                                  -- the decoder returned nothing
  else if r.enc.startsWith "panic" then "fail:encode-panic"
  else if r.enc != "ok" then "n/a"                                -- the encoder did not accept the decoded messages
  else if r.dec2 != "end" then s!"fail:redecode-{r.dec2}"
  else if r.V.length != r.S.length || r.T.length != r.S.length then "fail:sequence-count"
  else
    match (r.S.zip r.V).zipIdx.findSome? (fun ((s, v), i) =>
        let want := retained l.c.vo.omitInvalid {} s
        if want == v then none
        else some s!"fail:retained-differs@{i}.{((want.zip v).zipIdx.find? (fun p => p.1.1 != p.1.2)).map (·.2) |>.getD (min want.length v.length)}") with
    | some why => why
    | none =>
      let v := reVerdict l r
      if v == "same" then "ok" else s!"fail:reencode-{v}"

def reProp (l : ReLine) (impl : String) : String :=
  if impl == "bad-op" then "n/a" else
  if (impl.splitOn " ").any (fun t => t.startsWith "S#") then
    -- large streams are answered with digests: the predicate is evaluated on the model's objects when the implementation's
    -- answer is the model's (otherwise the correspondence check reports the line)
    if impl == reAnswer l then reJudge l (reModel l) else "n/a"
  else
    match parseReImpl impl with
    | none => "fail:answer"
    | some r => reJudge l r

/-- classes of DECODER OUTPUT (evaluated on what the MODEL decodes from the bytes of the line): the two classes
`C01_e2e_reencode` excludes (a third, KF-C01-undersized, is repaired in /repo) -/
def reKf (l : ReLine) : String :=
  let (fits, _) := decodeChain l.o l.bytes
  let ids := (if fits.any (fun f => kfPieces f.msgs) then ["KF-C01-strpieces"] else []) ++
    (if fits.any (fun f => kfF64Dev l.c.vo {} f.msgs) then ["KF-C01-f64dev"] else [])
  if ids.isEmpty then "-" else ",".intercalate ids

def hReDec : Handler := fun r =>
  match parseReLine r.args with
  | none => if r.mode == .model then "bad-op" else if r.mode == .kf then "-" else "n/a"
  | some l =>
    match r.mode with
    | .model => reAnswer l
    | .spec => "n/a"
    | .prop => reProp l r.impl
    | .kf => reKf l

end Drv.E2E
