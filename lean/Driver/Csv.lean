import FitModel.CsvSpec
import FitModel.CsvArith
import Driver.ValCodec
-- @family csv Drv.Csv.hCsv
-- @family csvarith Drv.Csv.hCsvArith
/-! Driver of family `csv` (C19): parsing/printing only; op and answer syntax in harness/fam_csv.go. -/
namespace Drv.Csv
open Drv Fit.Msg Fit.Value Fit.Csv Fit.Gen

def parseField5 (s : String) : Option Field :=
  match s.splitOn ":" with
  | [h, bt, x, tag, payload] =>
    if !h.startsWith "F" then none else do
      let num ← (h.drop 1).toString.toNat?
      if num > 255 then none
      let bt ← (if bt.length == 2 && isLowerHex bt then (unhex bt).bind List.head? else none)
      let x ← if x == "x" then some true else if x == "-" then some false else none
      let v ← parseValueTP tag payload
      some { base := some { num := num, baseType := bt }, value := v, isExpanded := x }
  | _ => none

def parseDev (s : String) : Option DevField :=
  match s.splitOn ":" with
  | [h, tag, payload] =>
    if !h.startsWith "D" then none else
    match ((h.drop 1).toString).splitOn "." with
    | [i, n] => do
      let i ← i.toNat?
      let n ← n.toNat?
      let v ← parseValueTP tag payload
      some { devIdx := i, num := n, value := v }
    | _ => none
  | _ => none

def parseMsg (s : String) : Option Message :=
  if !s.startsWith "M" || !s.endsWith "}" then none else
  match ((s.drop 1).dropEnd 1).toString.splitOn "{" with
  | [num, body] =>
    match body.splitOn "|" with
    | [fl, dl] => do
      let num ← num.toNat?
      let fs ← if fl.isEmpty then some [] else (fl.splitOn ";").mapM parseField5
      let ds ← if dl.isEmpty then some [] else (dl.splitOn ";").mapM parseDev
      some { num := num, fields := fs, devFields := ds }
    | _ => none
  | _ => none

def printMsg (m : Message) : String :=
  let fs := m.fields.map fun f => s!"F{fieldNumOf f}:{hexByte (fieldBtOf f)}:{if f.isExpanded then "x" else "-"}:{printValue f.value}"
  let ds := m.devFields.map fun d => s!"D{d.devIdx}.{d.num}:{printValue d.value}"
  s!"M{m.num}\{{";".intercalate fs}|{";".intercalate ds}}"

def splitFiles (toks : List String) : List (List String) :=
  let rec go : List String → List String → List (List String)
    | [], cur => [cur.reverse]
    | t :: ts, cur => if t == "/" then cur.reverse :: go ts [] else go ts (t :: cur)
  go toks []

def pctEnc (s : Txt) : String :=
  String.join (s.map fun c =>
    if (97 ≤ c && c ≤ 122) || (65 ≤ c && c ≤ 90) || (48 ≤ c && c ≤ 57) || c == 95 || c == 46 || c == 47 || c == 42 || c == 94 || c == 45 || c == 43
    then String.singleton (Char.ofNat c) else "%" ++ hexByte c)

def showAtom : Atom → String
  | .int i => "t" ++ pctEnc (intText i)
  | .flt b => "f" ++ hexN 16 (if isNaN64 b then canonNaN64 else b)
  | .str s => "t" ++ pctEnc s
  | .scaled _ _ _ => "q"
  | .degrees _ => "g"
  | .raw t => "r" ++ pctEnc t

def showCell (withValues : Bool) (c : Cell) : String :=
  pctEnc c.name ++ "~" ++ toString c.val.length ++ "~" ++ pctEnc c.units ++
    (if withValues && c.units != degreesTxt then "~" ++ ",".intercalate (c.val.map showAtom) else "")

def showLine (withValues : Bool) : Line → String
  | .data n cells => "L" ++ pctEnc n ++ "(" ++ ";".intercalate (cells.map (showCell withValues)) ++ ")"
  | .definition _ => ""

def hex64? (s : String) : Option Nat :=
  if s.length == 16 && isLowerHex s then s.toList.foldlM (fun acc c => (hexVal c).map (acc * 16 + ·)) 0 else none

def stripExpanded (m : Message) : Message := { m with fields := m.fields.filter (!·.isExpanded) }

def field? (impl key : String) : Option String :=
  ((impl.splitOn " ").filter (· ≠ "")).findSome? fun t => stripPrefix? t (key ++ "=")

/-- C19 evaluated on the implementation's answer: within `CsvUnambiguous` the conversion must not panic or fail, every
line must have the header's column count (no more than it with the trim option), the sequences must be as many as the
files, and the messages written back must be the expected ones -/
def propCsv (o : Opts) (files : List (List Message)) (impl : String) : String :=
  if !csvUnambiguousB o files then "n/a" else
  if impl.startsWith "panic" then "fail:panic" else
  if field? impl "pre" != some "ok" then "n/a" else
  match field? impl "hdr", field? impl "cols", field? impl "defcols" with
  | some hdr, some cols, some defcols =>
    let colsOK := if o.trim then
        (match cols.splitOn "-", hdr.toNat? with
         | [_, mx], some h => (mx.toNat?.getD (h + 1)) ≤ h && defcols == "le"
         | _, _ => false)
      else cols == s!"{hdr}-{hdr}" && (defcols == s!"{hdr}-{hdr}")
    if !colsOK then "fail:columns" else
    if field? impl "back" != some "ok" then "fail:convert-error" else
    if field? impl "seq" != some (toString files.length) then "fail:sequences" else
    match impl.splitOn " w=" with
    | [_, rest] =>
      match rest.splitOn " rt=" with
      | [w, _] =>
        match (splitFiles ((w.splitOn " ").filter (· ≠ ""))).mapM (·.mapM parseMsg) with
        | some back => if back == expected o files then "ok" else "fail:roundtrip"
        | none => "fail:unparsable"
      | _ => "fail:unparsable"
    | _ => "fail:unparsable"
  | _, _, _ => "fail:unparsable"

def hCsv : Handler := fun r =>
  match r.args with
  | o :: rest =>
    match stripPrefix? o "o=", (splitFiles rest).mapM (·.mapM parseMsg) with
    | some flags, some files =>
      let has (c : Char) := flags.toList.contains c
      let opts : Opts := { raw := has 'r', verbose := has 'v', degrees := has 'd', trim := has 't' }
      let lines := toCsv opts files
      match r.mode with
      | .model =>
        let cols := columns opts lines
        let hdr := cols.headD 0
        let dcols := cols.tail
        let mn := dcols.foldl min (dcols.headD 0)
        let mx := dcols.foldl max 0
        let defcols := if opts.trim then "le" else s!"{hdr}-{hdr}"
        let data := String.join (lines.map (showLine (opts.raw && !has 'e')))
        let pre := s!"pre=ok hdr={hdr} cols={mn}-{mx} defcols={defcols} data={data}"
        match fromCsv Arith.so lines with
        | .err => pre ++ " back=err"
        | .unmodelled => pre ++ " back=unmodelled"
        | .ok b =>
          let rt := if b.seqs == files.map (·.map stripExpanded) then "same" else "diff"
          pre ++ s!" back=ok seq={b.seq} w=" ++ " / ".intercalate (b.seqs.map fun f => " ".intercalate (f.map printMsg)) ++ s!" rt={rt}"
      | .kf =>
        "-"   -- no open finding (KF-C19-1…6 fixed in /repo)
      | .prop => propCsv opts files r.impl
      | .spec => "scope=" ++ csvScopeWhy opts files   -- evidence only (family csv is not run with spec=True): which conjunct of the scope fails
    | _, _ => if r.mode == .model then "bad-op" else if r.mode == .kf then "-" else "n/a"
  | [] => if r.mode == .model then "bad-op" else if r.mode == .kf then "-" else "n/a"

/-- tag of the Go type `parseValue` returns for a base type (as the harness) -/
def arithTag (bt : Nat) : Option String :=
  [(btEnum, "u8"), (btByte, "u8"), (btUint8, "u8"), (btUint8z, "u8"), (btSint8, "i8"), (btSint16, "i16"), (btUint16, "u16"),
   (btUint16z, "u16"), (btSint32, "i32"), (btUint32, "u32"), (btUint32z, "u32"), (btSint64, "i64"), (btUint64, "u64"),
   (btUint64z, "u64")].lookup bt

/-- `csvarith <bt> <scale> <offset> <raw>…`: the composite writer∘reader on every raw value as the MODEL of the
arithmetic computes it (`Arith.so`: FitModel/ScaleOffset.lean over FitModel/F64.lean — the definitions the theorems
`C12_csv` and `C19_scaled_roundtrip_profile` are about); the implementation's answer comes from the two verif hooks
of package fitcsv -/
def hCsvArith : Handler := fun r =>
  match r.args with
  | bt :: sc :: off :: raws =>
    match r.mode with
    | .model =>
      match (unhex bt).bind List.head?, hex64? sc, hex64? off with
      | some bt, some sc, some off =>
        match arithTag bt with
        | some tag =>
          let outs := raws.map fun a =>
            match parseValueTP tag a with
            | some v =>
              match Arith.so.scaled v bt sc off with
              | some back => (match splitTag (printValue back) with | some (_, payload) => payload | none => "?")
              | none => "err"
            | none => "bad"
          if outs.contains "bad" then "bad-op" else " ".intercalate outs
        | none => "bad-op"
      | _, _, _ => "bad-op"
    | .kf => "-"
    | _ => "n/a"
  | _ => if r.mode == .model then "bad-op" else if r.mode == .kf then "-" else "n/a"

end Drv.Csv
