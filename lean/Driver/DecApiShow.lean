import FitModel.DecoderApi
import FitModel.Generated.DecApiStdFactory
import Driver.Util
import Driver.ValCodec
/-!
Canonical text of the decoder-API model's observables (messages with values, definitions, digests) and the regenerated
standard factory — shared by the drivers of the families `decapi` / `dechist` / `decentry` (Driver/DecoderApi.lean) and
`dfrag` / `dhfrag` (value digests of the reader-client models).
-/
namespace Drv.DecApi
open Drv Fit.DecApi Fit.Value

def errName : Err → String
  | .eof => "eof" | .notFit => "notfit" | .crc => "crc" | .defMissing => "defmissing"
  | .baseType => "basetype" | .ctx => "ctx" | .other => "other"

def flagsOf (f : DField) : String :=
  let s := (if f.array then "a" else "") ++ (if f.known then "n" else "") ++ (if f.isBool then "b" else "") ++
    (if f.expanded then "x" else "")
  if s.isEmpty then "-" else s

def showField (f : DField) : String := s!"F{f.num}:{hexByte f.bt}:{flagsOf f}:{printValue f.value}"

def showMsg (m : Msg) : String :=
  "M" ++ toString m.num ++ "h" ++ toString m.header ++ "{" ++ ";".intercalate (m.fields.map showField) ++ "|" ++
    ";".intercalate (m.devs.map fun d => s!"D{d.idx}.{d.num}:{printValue d.value}") ++ "}"

def showDef (d : MesgDef) : String :=
  s!"D{d.header}.{d.reserved}.{d.arch}.{d.mesgNum}(" ++ ",".intercalate (d.fields.map fun f => s!"{f.num}.{f.size}.{f.bt}") ++
    ")(" ++ ",".intercalate (d.devs.map fun f => s!"{f.num}.{f.size}.{f.idx}") ++ ")"

def showEvent : Event → String
  | .mesgDef d => showDef d
  | .mesg m => showMsg m

def fnv (h : UInt64) (s : String) : UInt64 :=
  s.foldl (fun h c => (h ^^^ c.toNat.toUInt64) * 0x100000001b3) h

def digest (items : List String) (verbose : Bool) : String :=
  if verbose then "[" ++ "&".intercalate items ++ "]"
  else hexN 16 (items.foldl (fun h it => fnv (fnv h it) "\n") (0xcbf29ce484222325 : UInt64)).toNat

def showHdr (h : Hdr) : String := s!"{h.size}.{h.protoVer}.{h.profileVer}.{h.dataSize}.{h.crc}"

def showOut (verbose : Bool) : Op → Out → String
  | _, .fit f => s!"ok:{showHdr f.hdr}.{f.crc}:{f.msgs.length}:{digest (f.msgs.map showMsg) verbose}"
  | _, .header h => "ok:" ++ showHdr h
  | _, .fileId f =>
    let pn := if f.productName.isEmpty then "-" else hex f.productName
    s!"ok:{f.type}.{f.manufacturer}.{f.product}.{f.serial}.{f.timeCreated}.{f.number}.{pn}.{f.unknown}"
  | _, .done => "ok"
  | _, .bool b => if b then "t" else "f"
  | _, .integrity n none => s!"ok:{n}"
  | _, .integrity n (some e) => s!"err:{errName e}:{n}"
  | _, .err e => "err:" ++ errName e
  | _, .panic => "panic"
  | _, .hang => "hang"

/-- `factory.StandardFactory()` as the decoder reads it with component expansion off (regenerated table) -/
def stdFactory : Factory :=
  Fit.Gen.DecApi.stdFactoryRaw.map fun (m, n, bt, fl) =>
    ⟨m, n, ⟨true, bt, fl / 2 % 2 == 1, fl % 2 == 1, fl / 4 % 2 == 1, []⟩⟩

end Drv.DecApi
