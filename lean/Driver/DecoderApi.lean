import FitModel.DecoderApi
import FitModel.DecoderApiSpec
import FitModel.Generated.DecApiStdFactory
import FitModel.DecoderApiListener
import FitModel.Raw
import Driver.Util
import Driver.ValCodec
import Driver.DecApiShow
import Driver.DecApiStd
import Driver.Raw
-- @family decapi Drv.DecApi.hDecApi
-- @family dechist Drv.DecApi.hDecHist
-- @family decentry Drv.DecApi.hDecEntry
/-!
Driver of the families `decapi` / `dechist` (see harness/fam_decapi.go for the line syntax): runs
`Fit.DecApi.run` — the definitions the theorems of C03 / C07 are about — on the operation line and prints the
per-operation observables in the harness's syntax; `--prop` evaluates the property predicates on the
implementation's answer (C03: no panic / hang, sticky error; C07: every answer the specification
`Fit.DecApi.specRun` defines equals the implementation's); `--kf` prints the known-finding classes.
-/
namespace Drv.DecApi
open Drv Fit.DecApi Fit.Value

def showTok (verbose : Bool) (op : Op) (r : Out × List Event) : String :=
  let evs := r.2.map showEvent
  showOut verbose op r.1 ++
    (if evs.isEmpty then "" else if verbose then "/e" ++ digest evs true else s!"/e{evs.length}.{digest evs false}")

structure Line where
  verbose : Bool
  o : Opts
  ops : List Op
  streams : List (List Nat)
  /-- `f:std` with `exp1`: the decoder's default configuration — answered by the composition of (C) with expansion off
  and C05's expansion model over the real profile (Driver/DecApiStd.lean) -/
  dflt : Bool := false

def parseBit (s pre : String) : Option Bool :=
  match stripPrefix? s pre with
  | some "0" => some false
  | some "1" => some true
  | _ => none

def parseOpts (s : String) (fac : Factory) : Option Opts := do
  let mut o : Opts := { fac := fac }
  for kv in s.splitOn "," do
    if let some b := parseBit kv "chk" then o := { o with chk := b }
    else if let some b := parseBit kv "exp" then o := { o with exp := b }
    else if let some b := parseBit kv "bo" then o := { o with bo := b }
    else if let some b := parseBit kv "bc" then o := { o with bc := b }
    else if let some b := parseBit kv "ml" then o := { o with ml := b }
    else if let some b := parseBit kv "dl" then o := { o with dl := b }
    else if let some _ := parseBit kv "lw" then o := o
    else if let some _ := (stripPrefix? kv "rbs").bind String.toNat? then o := o
    else none
  return o

def parseComp (s : String) : Option Comp :=
  match s.splitOn "." with
  | [dst, bits, acc] => do
    let dst ← dst.toNat?
    let bits ← bits.toNat?
    if dst ≥ 256 ∨ bits ≥ 256 ∨ (acc != "a" ∧ acc != "-") then none
    pure ⟨dst, acc == "a", bits⟩
  | _ => none

def parseFacEntry (s0 : String) : Option FacEntry :=
  let (s, compS) := match s0.splitOn ":" with
    | [a, b] => (a, some b)
    | _ => (s0, none)
  match s.splitOn "." with
  | [mn, fnum, bt, fl] => do
    let comps ← match compS with
      | some c => (c.splitOn ",").mapM parseComp
      | none => some []
    let mn ← mn.toNat?
    let fnum ← fnum.toNat?
    let bt ← match unhex bt with | some [b] => some b | _ => none
    if mn ≥ 65536 ∨ fnum ≥ 256 then none
    let flags := if fl == "-" then [] else fl.toList
    if flags.any (fun c => c != 'a' && c != 'b' && c != 'c') ∨ (fl != "-" ∧ fl.isEmpty) then none
    pure ⟨mn, fnum, ⟨true, bt, flags.contains 'b', flags.contains 'a', flags.contains 'c', comps⟩⟩
  | _ => none

def parseFactory (s : String) : Option Factory :=
  if s == "-" then some [] else if s == "std" then some stdFactory else (s.splitOn ";").mapM parseFacEntry

/-- `decx:0` (the harness cancels the context at the first `Read` of the call, on a reader that delivers one byte per
`Read`, so that every request of the decoder reaches it) is written `.decodeCtxAt 0` by the parser and resolved against
the model's state by `resolveOps`: with the header of the sequence still to be read the first read is the header's and
the first check after it sees the cancellation (`k = 0`); with the header already read (peeks, `Next`) the first read
lies inside the first record and the check after that record is the first to see it (`k = 1`). -/
def resolveOps : Api → List Op → List Op
  | _, [] => []
  | a, op :: ops =>
    let op' := match op with
      | .decodeCtxAt 0 => .decodeCtxAt (if a.d.q.hdrDone then 1 else 0)
      | o => o
    op' :: resolveOps (step a op').1 ops

def parseOp (o : Opts) (streams : List (List Nat)) (s : String) : Option Op :=
  if let some k := (stripPrefix? s "decx:").bind String.toNat? then some (.decodeCtxAt k) else
  match s with
  | "dec" => some .decode
  | "decx" => some (.decodeCtx false)
  | "decc" => some (.decodeCtx true)
  | "pkh" => some .peekHeader
  | "pki" => some .peekFileId
  | "dis" => some .discard
  | "nxt" => some .next
  | "ci" => some .checkIntegrity
  | _ => do
    -- `rst<k>` or `rst<k>/<size>` (Reset with another read buffer size: not observable on the exact-n reader of this model)
    let spec ← stripPrefix? s "rst"
    let k ← match spec.splitOn "/" with
      | [k] => k.toNat?
      | [k, sz] => if sz.toNat?.isSome then k.toNat? else none
      | _ => none
    if k < 1 then none
    let b ← streams[k]?
    pure (.reset o b)

def parseLine (args : List String) : Option Line := do
  let mut verbose := false
  let mut optS : Option String := none
  let mut facS : Option String := none
  let mut opsS : Option String := none
  let mut b : Option (List Nat) := none
  let mut rs : Array (List Nat) := #[]
  for a in args do
    if let some v := stripPrefix? a "v:" then verbose := v == "1"
    else if let some v := stripPrefix? a "o:" then optS := some v
    else if let some v := stripPrefix? a "f:" then facS := some v
    else if let some v := stripPrefix? a "ops:" then opsS := some v
    else if let some v := stripPrefix? a "b:" then
      if b.isSome then none
      b := some (← unhex v)
    else if let some v := stripPrefix? a "r:" then rs := rs.push (← unhex v)
    else none
  let fac ← parseFactory (← facS)
  let o ← parseOpts (← optS) fac
  let streams := (← b) :: rs.toList
  let ops ← ((← opsS).splitOn ",").mapM (parseOp o streams)
  pure ⟨verbose, o, resolveOps (Api.fresh o (streams.headD [])) ops, streams, (← facS) == "std" && o.exp⟩

/-- tokens up to and including the first panic / hang -/
def cut : List (Op × Out × List Event) → List (Op × Out × List Event)
  | [] => []
  | x :: xs => match x.2.1 with
    | .panic | .hang => [x]
    | _ => x :: cut xs

/-- default configuration: `Fit.DecApi.Default.run` — (C) with the standard factory and expansion off, then C05's expansion
of every message (FitModel/DecoderApiDefault.lean) -/
def answerDflt (l : Line) : String :=
  " ".intercalate (Drv.DecApiStd.answer l.verbose l.o (l.streams.headD []) l.ops)

def specToksDflt (l : Line) : List String := Drv.DecApiStd.specToks l.verbose l.o (l.streams.headD []) l.ops

def answer (l : Line) : String :=
  if l.dflt then answerDflt l else
  let res := run (Api.fresh l.o (l.streams.headD [])) l.ops
  " ".intercalate ((cut (l.ops.zip res)).map fun (op, r) => showTok l.verbose op r)

/-! ### C03 on the implementation's answer: no panic / hang, and an error is sticky until `Reset` -/

def tokErr (t : String) : Option String :=
  let t := (t.splitOn "/").headD ""
  match t.splitOn ":" with
  | "err" :: c :: _ => some c
  | _ => none

/-- no fake success: where the specification (new decoders on the sequence's bytes — for which `C03_no_fake_success`
is proved) demands an error of `Decode` / `Discard`, the implementation must not answer `ok` -/
def exclRun : Spec → List Op → List Bool
  | _, [] => []
  | p, op :: ops => p.excluded op :: exclRun (specStep p op).1 ops

def fakeSuccess (l : Line) (toks : List String) : Option Nat :=
  let spec := specRun (Spec.fresh l.o (l.streams.headD [])) l.ops
  -- operations in the class of KF-C07-4 (a predecessor's last record overran its data size: where the current sequence
  -- starts then depends on how the predecessor was consumed) are C07's subject, not a fake success of this sequence
  let excl := exclRun (Spec.fresh l.o (l.streams.headD [])) l.ops
  ((((l.ops.zip spec).zip excl).zip toks).zipIdx.find? (fun ((((op, sp), ex), t), _) =>
    !ex && match op, sp with
    | .decode, some (.err _, _) | .decodeCtx _, some (.err _, _) | .decodeCtxAt _, some (.err _, _) | .discard, some (.err _, _) =>
      t.startsWith "ok"
    | _, _ => false)).map (·.2)

def propC03 (l : Line) (impl : String) : String :=
  let toks := impl.splitOn " "
  let heads := toks.map fun t => (t.splitOn "/").headD ""
  if heads.any (fun t => t == "panic" || t.startsWith "panic(") then "fail:panic"
  else if heads.contains "hang" then "fail:hang"
  else if toks.length != l.ops.length then "fail:answer-count"
  else if let some i := fakeSuccess l toks then s!"fail:fake-success:op{i}"
  else Id.run do
    let mut sticky : Option String := none
    for (op, t) in l.ops.zip toks do
      match op with
      | .reset _ _ => sticky := none
      | .next =>
        if sticky.isSome ∧ t != "f" then return "fail:not-sticky:next"
      | .checkIntegrity =>
        if let some c := sticky then
          if t != s!"err:{c}:0" then return "fail:not-sticky:ci"
      | _ =>
        match sticky with
        | some c => if tokErr t != some c then return s!"fail:not-sticky:{t}"
        | none => sticky := tokErr t
    return "ok"

/-! ### C07 on the implementation's answer -/

def propC07 (l : Line) (impl : String) : String :=
  let toks := impl.splitOn " "
  if toks.length != l.ops.length then "fail:answer-count"
  else if l.dflt then
    match ((specToksDflt l).zip toks).zipIdx.find? (fun ((sp, t), _) => sp != "*" && sp != t) with
    | some ((sp, _), i) => s!"fail:op{i}:demanded=" ++ sp
    | none => "ok"
  else
    let spec := specRun (Spec.fresh l.o (l.streams.headD [])) l.ops
    match ((l.ops.zip spec).zip toks).zipIdx.find? (fun (((op, sp), t), _) =>
        match sp with
        | some r => showTok l.verbose op r != t
        | none => false) with
    | some (((op, sp), _), i) =>
      s!"fail:op{i}:demanded=" ++ (match sp with | some r => showTok l.verbose op r | none => "")
    | none => "ok"

def specAnswer (l : Line) : String :=
  if l.dflt then " ".intercalate (specToksDflt l) else
  " ".intercalate (((l.ops.zip (specRun (Spec.fresh l.o (l.streams.headD [])) l.ops))).map fun (op, sp) =>
    match sp with | some r => showTok l.verbose op r | none => "*")

def kfClasses (l : Line) : String :=
  let ks := kfRun (Spec.fresh l.o (l.streams.headD [])) (Api.fresh l.o (l.streams.headD [])) l.ops
  if ks.isEmpty then "-" else ",".intercalate ks

def handler (c07 : Bool) : Handler := fun r =>
  match parseLine r.args with
  | none => if r.mode == .model then "bad-op" else if r.mode == .kf then "-" else "n/a"
  | some l =>
    match r.mode with
    | .model => answer l
    | .spec => "n/a"
    | .prop => if c07 then propC07 l r.impl else propC03 l r.impl
    | .kf => if c07 then kfClasses l else "-"

/-! ### family `decentry`: raw decoding and the typed-file listener on the same streams (syntax: harness/fam_decapi_entry.go) -/

inductive Entry
  | raw (failAt : Option Nat)
  | lis (n : Nat) (fs : String)

def parseEntry (s : String) : Option Entry :=
  match s.splitOn ":" with
  | ["raw", "-"] => some (.raw none)
  | ["raw", j] => j.toNat?.map fun j => .raw (some j)
  | ["lis", n, fs] => if fs == "all" ∨ fs == "act" ∨ fs == "none" then n.toNat?.map fun n => .lis n fs else none
  | _ => none

/-- the file sets of the line: which `file_id.type` values have a file constructor -/
def listedBy (fs : String) (t : Nat) : Bool :=
  if fs == "all" then (Fit.FileDef.fileTypeOf t).isSome else if fs == "act" then t == 4 else false

def showFileType : Option Nat → String
  | none => "nil"
  | some t => match Fit.FileDef.fileTypeOf t with
    | some T => T.gotype
    | none => "?"

/-- `for dec.Next() { _, err := dec.Decode(); file := lis.File() }` on the decoder-API model, the listener's file chosen
by `listenerFile` from the messages handed to the message listener during that `Decode` -/
def lisRun (fs : String) : Nat → Api → Option Nat → List String → List String
  | 0, _, _, acc => acc ++ ["runaway"]
  | fuel + 1, a, prev, acc =>
    let (a1, o1, _) := step a .next
    match o1 with
    | .bool true =>
      let (a2, o2, evs) := step a1 .decode
      let msgs := evs.filterMap fun | .mesg m => some m | .mesgDef _ => none
      let cur := listenerFile (listedBy fs) prev msgs
      let file := showFileType cur
      match o2 with
      | .fit _ => lisRun fs fuel a2 cur (acc ++ ["ok:" ++ file])
      | .err e => acc ++ [s!"err:{errName e}:{file}"]
      | .panic => acc ++ ["panic"]
      | .hang => acc ++ ["hang"]
      | _ => acc ++ ["?"]
    | .bool false => acc ++ ["end"]
    | .panic => acc ++ ["panic"]
    | .hang => acc ++ ["hang"]
    | _ => acc ++ ["?"]

def parseEntryLine (args : List String) : Option (Entry × Opts × List Nat) := do
  let mut e : Option String := none
  let mut optS : Option String := none
  let mut facS : Option String := none
  let mut b : Option (List Nat) := none
  for a in args do
    if let some v := stripPrefix? a "e:" then e := some v
    else if let some v := stripPrefix? a "o:" then optS := some v
    else if let some v := stripPrefix? a "f:" then facS := some v
    else if let some v := stripPrefix? a "b:" then
      if b.isSome then none
      b := some (← unhex v)
    else none
  let fac ← parseFactory (← facS)
  let o ← parseOpts (← optS) fac
  pure (← parseEntry (← e), o, ← b)

def entryAnswer : Entry → Opts → List Nat → String
  | .raw failAt, _, bytes =>
    let (o, n) := Fit.ReadBuffer.runFullN (Fit.Raw.decode failAt (bytes.length + 1) {}) (Fit.ReadBuffer.contiguous bytes) 0
    Drv.RawD.showRaw o n
  | .lis _ fs, o, bytes =>
    " ".intercalate (lisRun fs (bytes.length + 2) (Api.fresh { o with ml := true, dl := false } bytes) none [])

/-- C03 on the implementation's answer: a result or an error, never a panic, never a hang -/
def propEntry (impl : String) : String :=
  let toks := impl.splitOn " "
  if toks.any (fun t => t == "panic" || t.startsWith "panic(") then "fail:panic"
  else if toks.contains "hang" then "fail:hang"
  else if toks.any (fun t => t.startsWith "mismatch" || t == "runaway" || t == "err:panic") then "fail:" ++ (toks.headD "")
  else "ok"

def hDecEntry : Handler := fun r =>
  match parseEntryLine r.args with
  | none => if r.mode == .model then "bad-op" else if r.mode == .kf then "-" else "n/a"
  | some (e, o, b) =>
    match r.mode with
    | .model => entryAnswer e o b
    | .spec => "n/a"
    | .prop => propEntry r.impl
    | .kf => "-"

def hDecApi : Handler := handler false
def hDecHist : Handler := handler true

end Drv.DecApi
