import FitProps.LinkLemmasDefs
import FitModel.Integrity
import Driver.Util
import Driver.DecoderApi
-- @family linkdecapi Drv.Links.hLinkDecApi
-- @family linkinteg Drv.Links.hLinkInteg
-- @family linkraw Drv.Links.hLinkRaw
-- @family linkwire Drv.Links.hLinkWire
/-!
Executable cross-checks of the links between the decoder models (`FitProps/Links.lean`): both models are evaluated
on the same operation line and the projections compared — a sanity net beside the theorems (and the place where a
genuine disagreement between two models would show first). The lines are those of existing families with the
first token replaced (`checklib/props/_links.py`):

* `linkdecapi <arguments of a decapi/dechist line>` — for every stream of the line (`b:`, `r:`): the `Next`/`Decode` loop
  of the API model (C) against `apiOf` of the reader-client model (D) on the exact-n reader (`Link_decprog_eq_api`);
  `CheckIntegrity` of (C) against (B);
* `linkinteg b:<hex>` (arguments of an `integ` / `dfrag` / `rawdec` line; others ignored) — (B) `Integrity` against (D) and
  against (C), `CheckIntegrity` and the decode loop with both checksum settings.

* `linkraw b:<hex>` (arguments of a `rawdec` line) — where the independent framing spec `FitFormat.segments` segments the
  stream, the raw decoder model must accept it and report exactly those segments (`Link_fitformat_raw`).

* `linkwire chk=<0|1> <hex>` (a `decw` line) — the wire model (A) against (D) in the common form `WEv` (definitions, per message header /
  number / field bytes, per sequence header and CRCs, error class), on every stream (`Link_wire_eq_decprog`).

Answer: `ok`, `n/a:<hypothesis not met>`, or `diff:<which>`.
-/
namespace Drv.Links
open Drv Fit.Link Fit.ReadBuffer

def decLinkOK (o : Fit.DecApi.Opts) (bs : List Nat) : Bool :=
  let fuel := bs.length + 1
  normCalls (apiLoop fuel (Fit.DecApi.Api.fresh o bs)) ==
    apiOf o (runExact (Fit.DecProg.decodeLoop o.chk fuel true []) bs)

def errBC : Fit.Integrity.Err → Fit.DecApi.Err
  | .eof => .eof | .notFit => .notFit | .crc => .crc | .defMissing => .defMissing | .invalidBaseType => .baseType

def ciOutOf : Fit.Integrity.Result → Fit.DecApi.Out
  | .ok n => .integrity n none
  | .err e n => .integrity n (some (errBC e))

def ciLinkOK (o : Fit.DecApi.Opts) (bs : List Nat) : Bool :=
  (Fit.DecApi.step (Fit.DecApi.Api.fresh o bs) .checkIntegrity).2.1 == ciOutOf (Fit.Integrity.checkIntegrity bs)

def errB : Fit.DecProg.Err → Fit.Integrity.Err
  | .io _ => .eof | .notFit => .notFit | .crc => .crc | .defMissing => .defMissing | .invalidBaseType => .invalidBaseType

def hLinkDecApi : Handler := modelOnly fun args0 =>
  -- `force:1` (not generated; for experiments): compare also outside the hypotheses of the link
  let force := args0.contains "force:1"
  let args := args0.filter (· != "force:1")
  match Drv.DecApi.parseLine args with
  | none => "bad-op"
  | some l =>
    if !force && !facFdOK l.o.fac then "n/a:factory-fd"
    else if !force && !facBtOK l.o.fac then "n/a:factory-bt"
    else
      let bad := l.streams.zipIdx.filterMap fun (bs, i) =>
        if !decLinkOK l.o bs then some s!"decode[{i}]"
        else if !ciLinkOK l.o bs then some s!"ci[{i}]"
        else none
      if bad.isEmpty then "ok" else "diff:" ++ ",".intercalate bad

def bytesArg (args : List String) : Option (List Nat) :=
  args.findSome? fun a => (stripPrefix? a "b:").bind unhex

def hLinkInteg : Handler := modelOnly fun args =>
  match bytesArg args with
  | none => "bad-op"
  | some bs =>
    let fuel := bs.length + 1
    let ci := runExact (Fit.DecProg.checkIntegrity fuel 0) bs
    let ciB : Fit.Integrity.Result := match ci.status with
      | none => .ok ci.seq
      | some e => .err (errB e) ci.seq
    let dec (chk : Bool) : Bool :=
      let o := runExact (Fit.DecProg.decodeLoop chk fuel true []) bs
      let nseq := (o.evs.filter fun | .seq .. => true | _ => false).length
      let nmsg := (o.evs.map fun | .seq _ _ _ _ _ _ n => n | _ => 0).sum
      let r : Fit.Integrity.DResult := match o.status with
        | none => .ok nseq nmsg
        | some e => .err (errB e) nseq
      r == Fit.Integrity.decodeAll chk bs
    let bad := (if ciB == Fit.Integrity.checkIntegrity bs then [] else ["ci-D"]) ++
      (if ciLinkOK {} bs then [] else ["ci-C"]) ++
      (if dec true then [] else ["dec1"]) ++ (if dec false then [] else ["dec0"])
    if bad.isEmpty then "ok" else "diff:" ++ ",".intercalate bad

def hLinkRaw : Handler := modelOnly fun args =>
  match bytesArg args with
  | none => "bad-op"
  | some bs =>
    match Fit.FitFormat.segments bs with
    | none => "n/a:spec-rejects"
    | some segs =>
      if bs.isEmpty then "n/a:empty" else
      let out := runExact (Fit.Raw.decode none (bs.length + 1) {}) bs
      if out.status.isSome then "diff:raw-rejects"
      else if layout 0 out.segs != segs then "diff:segments"
      else if Fit.Raw.flat out.segs != bs then "diff:bytes"
      else "ok"

def hLinkWire : Handler := modelOnly fun args =>
  let chk := !(args.contains "chk=0")
  match (match (args.filter fun a => !a.startsWith "chk=").map unhex with | [] => [some []] | l => l) with
  | [some bs] =>
    let fuel := bs.length + 1
    let a := Fit.Wire.decodeStream (fun _ => true) chk fuel true bs
    let d := runExact (Fit.DecProg.decodeLoop chk fuel true []) bs
    -- `Link_wire_eq_decprog`: equal on every byte list
    if wireObsA a == wireObsD d then "ok" else "diff:wire"
  | _ => "bad-op"

end Drv.Links
