import FitModel.ActivitySpec
import Driver.MsgCodec
-- @family conceal Drv.Act.hConceal
-- @family remove Drv.Act.hRemove
-- @family reduce Drv.Act.hReduce
-- @family combine Drv.Act.hCombine
/-! Driver of family `activity` (C20): parsing/printing only; the op syntax is in harness/fam_activity.go. -/
namespace Drv.Act
open Drv Fit.Msg Fit.Value Fit.Activity Fit.Gen Fit.Gen.Tool

def parseMsgs (toks : List String) : Option (List Message) := toks.mapM parseMessage

def printMsgs (ms : List Message) : String := " ".intercalate (ms.map printMessage)

def withCount (pre : String) (ms : List Message) : String :=
  if ms.isEmpty then s!"{pre}n=0" else s!"{pre}n={ms.length} {printMsgs ms}"

/-- `n=<k> <msg>...` (after an optional list of leading tokens already removed) -/
def parseCounted (toks : List String) : Option (List Message) :=
  match toks with
  | t :: rest =>
    match (stripPrefix? t "n=").bind String.toNat? with
    | some k => if rest.length != k then none else parseMsgs rest
    | none => none
  | [] => none

def implToks (r : Req) : List String := (r.impl.splitOn " ").filter (· ≠ "")

def dec32 (s : String) : Option Nat := parseDec s (2 ^ 32)

/-- C20 on a conceal run, exactly the statements of FitProps/C20.lean evaluated on the output `out`.
Always (no hypothesis): same length, only position fields touched (`C20_conceal_only_positions`) — a failure is a failure
whatever the input. Under `DistOK` (the property's hypothesis; `n/a` without it): records stripped exactly inside the
stretches (`C20_conceal_records_exact`) and, where the record carries each position field once, nothing left of them
(`C20_conceal_hides`). For laps and for sessions, when the activity is well-formed (`lapsSeqB`, `lapUniqueB`,
`recUniqueB` — the hypotheses of `C20_conceal_lap_session_full`, nothing about the records' timestamps): no start/end
position pointing into a concealed stretch. The answer is `ok` only when EVERY clause was demanded and held; `n/a` when a
clause was not demanded because a hypothesis of its theorem fails on this input (never `ok` vacuously). -/
def propConceal (first last : Nat) (ms out : List Message) : String :=
  if out.length != ms.length then "fail:length" else
  if !(ms.zip out).all (fun p => touchB p.1 p.2) then "fail:touched-other-than-positions" else
  if !distOKB ms then "n/a" else
  if !(ms.zip out).all (fun p => !isRecord p.1 || p.2 == hideIf (inEnd last ms) (hideIf (inStart first) p.1)) then "fail:records" else
  if !(ms.zip out).all (fun p => !isRecord p.1 || !(uniqueNumB fnRecordPositionLat p.1 && uniqueNumB fnRecordPositionLong p.1) ||
      !(inStart first p.1 || inEnd last ms p.1) || posFree p.2) then "fail:hides" else
  let recU := recUniqueB ms
  let lapDem := recU && lapsSeqB lapPH ms && lapUniqueB lapPH ms
  let sesDem := recU && lapsSeqB sesPH ms && lapUniqueB sesPH ms
  if lapDem && !noLeakB lapPH first last ms out then "fail:lap-position-into-concealed" else
  if sesDem && !noLeakB sesPH first last ms out then "fail:session-position-into-concealed" else
  if lapDem && sesDem then "ok" else "n/a"

def kfConceal (first last : Nat) (ms : List Message) : String :=
  let ids := (if unitsDisagree lapPH first ms || unitsDisagree sesPH first ms then ["KF-C20-1"] else []) ++
    (if overlapTie first last ms then ["KF-C20-4"] else [])
  if ids.isEmpty then "-" else ",".intercalate ids

def hConceal : Handler := fun r =>
  match r.args with
  | a :: b :: ms =>
    match dec32 a, dec32 b, parseMsgs ms with
    | some first, some last, some ms =>
      match r.mode with
      | .model => withCount "" (conceal first last ms)
      | .kf => kfConceal first last ms
      | .prop =>
        match parseCounted (implToks r) with
        | some out => propConceal first last ms out
        | none => "fail:unparsable"
      | .spec => "n/a"
    | _, _, _ => if r.mode == .model then "bad-op" else if r.mode == .kf then "-" else "n/a"
  | _ => if r.mode == .model then "bad-op" else if r.mode == .kf then "-" else "n/a"

def parseNums (s : String) : Option (List Nat) :=
  if s == "-" then some [] else (s.splitOn ",").mapM fun p => parseDec p 65536

def parseRemove (args : List String) : Option (RemoveOpts × List Message) :=
  match args with
  | u :: d :: n :: ms => do
    let u ← if u == "u=1" then some true else if u == "u=0" then some false else none
    let d ← if d == "d=1" then some true else if d == "d=0" then some false else none
    let nums ← (stripPrefix? n "n=").bind parseNums
    let ms ← parseMsgs ms
    some ({ unknown := u, nums := nums, devData := d }, ms)
  | _ => none

def hRemove : Handler := fun r =>
  match parseRemove r.args with
  | some (o, ms) =>
    match r.mode with
    | .model => withCount "" (remove o ms)
    | .kf => "-"
    | .prop =>
      match parseCounted (implToks r) with
      | some out =>
        if out == (ms.filter fun m => !selected o m).map (fun m => if o.devData then { m with devFields := [] } else m)
        then "ok" else "fail:not-exactly-the-selected"
      | none => "fail:unparsable"
    | .spec => "n/a"
  | none => if r.mode == .model then "bad-op" else if r.mode == .kf then "-" else "n/a"

def hex64? (s : String) : Option Nat :=
  if s.length == 16 && isLowerHex s then s.toList.foldlM (fun acc c => (hexVal c).map (acc * 16 + ·)) 0 else none

def parseMethod (s : String) : Option Method :=
  if s == "none" then some .none
  else if let some q := stripPrefix? s "dist:" then
    (dec32 q).bind fun q => if q * 25 < 2 ^ 32 then some (.distance (q * 25)) else none   -- uint32(q/4 · 100)
  else if let some t := stripPrefix? s "time:" then (dec32 t).map .time
  else if let some rest := stripPrefix? s "rdp:" then
    match rest.splitOn ":" with
    | [e, k] => do
      let bits ← hex64? e
      let keep ← if k == "-" then some [] else (k.splitOn ",").mapM String.toNat?
      -- `o.rdpEpsilon == 0`: +0.0 or −0.0
      some (.rdp (bits == 0 || bits == 2 ^ 63) keep)
    | _ => none
  else none

def showReduce : ReduceResult → String
  | .ok ms => withCount "ok " ms
  | .badArgument => "err:badarg"
  | .zeroPoints => "err:nopoints"

def isSublistB : List Message → List Message → Bool
  | [], _ => true
  | _ :: _, [] => false
  | a :: as, b :: bs => if a == b then isSublistB as bs else isSublistB (a :: as) bs

/-- C20 on a reduce run: `ReducedI` (decided by `reducedIB`, `C20_reduce_exact_*_all`) for the interval methods on EVERY
input — records without a valid key included — and, when every record carries a valid key, `Reduced` as well; sublist +
all non-records kept for RDP, and with the simplifier's contract exactly the records it kept (`n/a` when the contract
fails) -/
def propReduce (m : Method) (ms : List Message) (impl : List String) : String :=
  match impl with
  | "ok" :: rest =>
    match parseCounted rest with
    | none => "fail:unparsable"
    | some out =>
      match m with
      | .distance th =>
        if th == 0 then "fail:accepted-zero-interval" else
        if !reducedIB dist wrapSub th 0 false ms out then "fail:reduced-distance" else
        if keysValidB dist ms && !reducedB dist wrapSub th none ms out then "fail:reduced-distance-valid-keys" else "ok"
      | .time th =>
        if th == 0 then "fail:accepted-zero-interval" else
        if !reducedIB tstamp wrapSub th 0 false ms out then "fail:reduced-time" else
        if keysValidB tstamp ms && !reducedB tstamp wrapSub th none ms out then "fail:reduced-time-valid-keys" else "ok"
      | .rdp _ simplified =>
        if !isSublistB out ms then "fail:not-a-sublist" else
        if out.filter (fun m => !isRecord m) != ms.filter (fun m => !isRecord m) then "fail:non-record-dropped" else
        -- the simplifier's contract: a sublist of the points handed over
        if !isSublistNat simplified (pointIndexes ms) then "n/a" else
        if out != rdpExpected simplified ms then "fail:rdp-kept-differs-from-simplifier" else "ok"
      | .none => "fail:accepted-without-method"
  | _ => "n/a"

def hReduce : Handler := fun r =>
  match r.args with
  | m :: ms =>
    match parseMethod m, parseMsgs ms with
    | some m, some ms =>
      match r.mode with
      | .model => showReduce (reduce m ms)
      | .kf => "-"
      | .prop => propReduce m ms (implToks r)
      | .spec => "n/a"
    | _, _ => if r.mode == .model then "bad-op" else if r.mode == .kf then "-" else "n/a"
  | [] => if r.mode == .model then "bad-op" else if r.mode == .kf then "-" else "n/a"

/-- split the tokens at "/" into files -/
def splitFiles (toks : List String) : List (List String) :=
  let rec go : List String → List String → List (List String)
    | [], cur => [cur.reverse]
    | t :: ts, cur => if t == "/" then cur.reverse :: go ts [] else go ts (t :: cur)
  go toks []

def showTrailer (timing : Bool) : Trailer → String
  | .sport s => s!"T{mnSport}[{fnSportSport}={hexN 2 s}]"
  | .splitSummary t ts => s!"T{mnSplitSummary}[{fnSplitSummarySplitType}={hexN 2 t},{fnTimestamp}={hexN 8 ts}]"
  | .session s ts =>
    let timingS := if timing then s!"{fnSessionTotalElapsedTime}={hexN 8 s.elapsed},{fnSessionTotalTimerTime}={hexN 8 s.timer}," else ""
    s!"T{mnSession}[{fnSessionSport}={hexN 2 s.sport},{fnSessionStartTime}={hexN 8 s.startTime},{timingS}{fnSessionTotalDistance}={hexN 8 s.distance},{fnTimestamp}={hexN 8 ts}]"
  | .activity ts timer n ty =>
    s!"T{mnActivity}[{fnTimestamp}={hexN 8 ts},{fnActivityTotalTimerTime}={hexN 8 timer},{fnActivityNumSessions}={hexN 4 n},{fnActivityType}={hexN 2 ty}]"

def hCombine : Handler := fun r =>
  match (splitFiles r.args).mapM parseMsgs with
  | some fits =>
    match r.mode with
    | .model =>
      let sv := fits.all fun f => f.all fun m => !(m.num == mnSession) || u32 (fval m fnSessionStartTime) != uint32Invalid
      match combine fits with
      | .ok body trailer =>
        let parts := body.map printMessage ++ trailer.map (showTrailer sv)
        " ".intercalate (["ok", s!"sv={if sv then 1 else 0}", s!"n={parts.length}"] ++ parts)
      | .noSession => "err:nosession"
      | .panic => "panic"
      | .unmodelled => "unmodelled"
    | .kf => "-"
    | .prop =>
      match implToks r with
      | "ok" :: _ :: _ :: parts =>
        match (parts.filter (·.startsWith "M")).mapM parseMessage, expectedBody fits with
        | some body, some exp =>
          if body.map blankAcc != exp.map blankAcc then "fail:records-order-or-content" else
          if body != exp then "fail:accumulated-not-continued" else "ok"
        | none, _ => "fail:unparsable"
        | _, none => "n/a"
      | _ => "n/a"
    | .spec => "n/a"
  | none => if r.mode == .model then "bad-op" else if r.mode == .kf then "-" else "n/a"

end Drv.Act
