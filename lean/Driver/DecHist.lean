import FitModel.DecHist
import Driver.DecFrag
import Driver.DecoderApi
-- @family dhfrag Drv.DHist.hDhfrag
/-!
`dhfrag [chk=0|1] [size=<int>] ops:<op,...> b:<hex> [s:<lens>]` — a HISTORY of API calls (`dec`, `decx` = DecodeWithContext
with a live context, `decc` = context cancelled before the call, `decx:<k>` (k ≥ 1) = context cancelled by the listeners at
the k-th record of the call, `pkh`, `pki`, `dis`, `nxt`, `ci` = CheckIntegrity — the line ends there) on ONE decoder
(`WithReadBufferSize(size)`, standard factory, component expansion off, definition and message listeners) over a reader
that delivers the bytes according to the schedule `<lens>` (as `dfrag`). Model: `Fit.DecHist.history` on the model read
buffer. Answer: one token per call, then the listener events and per decoded sequence header / CRCs, then `v=`.

`--spec`: the answer over the contiguous reader with the default buffer size (what C08 demands of every call).
`--kf`: the stream ends inside a request (KF-C08-1). `--prop`: the API model (C) `Fit.DecApi.run` — the object of C03 / C07 —
on the delivered bytes, projected to the same observable, must equal the implementation's answer over the fragmenting
reader (clean schedules, stream not ending inside a request).
-/
namespace Drv.DHist
open Drv Fit.ReadBuffer Fit.DecHist

def parseOp (s : String) : Option Op :=
  if let some k := (stripPrefix? s "decx:").bind String.toNat? then (if k ≥ 1 then some (.decodeCtxAt k) else none) else
  match s with
  | "dec" => some .decode
  | "decx" => some (.decodeCtx false)
  | "decc" => some (.decodeCtx true)
  | "pkh" => some .peekHeader
  | "pki" => some .peekFileId
  | "dis" => some .discard
  | "nxt" => some .next
  | "ci" => some .checkIntegrity
  | _ => none

structure Line where
  a : Drv.DFrag.Args
  ops : List Op

def parseLine (args : List String) : Option Line := do
  let opsS ← args.findSome? (stripPrefix? · "ops:")
  let ops ← (opsS.splitOn ",").mapM parseOp
  let a ← Drv.DFrag.parseArgs (args.filter fun t => !t.startsWith "ops:")
  -- calls after a CheckIntegrity are not executed (the reader has to be re-seeked): such lines are not generated
  if (ops.dropLast.contains .checkIntegrity) then none
  pure ⟨a, ops⟩

def herrName : HErr → String
  | .dec e => Drv.DFrag.errName e
  | .ctx => "ctx"

def showHdr (h : Fit.DecProg.Hdr) : String := s!"{h.size}.{h.protoVer}.{h.profileVer}.{h.dataSize}.{h.crc}"

def showRes : OpRes → String
  | .fit h c n => s!"F{showHdr h}.{c}.{n}"
  | .header h => "H" ++ showHdr h
  | .fileId f => if f then "I1" else "I0"
  | .done => "ok"
  | .bool b => if b then "t" else "f"
  | .integrity n none => s!"ci:{n}:ok"
  | .integrity n (some e) => s!"ci:{n}:{herrName e}"
  | .err e => "err:" ++ herrName e

def showOut (o : Out) : String :=
  " ".intercalate (o.res.map showRes) ++ " |" ++ String.join (o.evs.map Drv.DFrag.showEv)

def showOutcome : Outcome Out → String
  | .done o => showOut o
  | .panic => "panic"

def prog (l : Line) : Prog Out := history l.a.chk (l.a.bytes.length + 1) l.ops

def runOn (l : Line) (s : Sched) (size : Int) : Outcome Out := runRB (prog l) (RB.fresh s size)

def reference (l : Line) : Outcome Out :=
  runOn l (contiguous (bytesOf l.a.schedule)) (Fit.Gen.Reader.defaultReadBufferSize : Int)

def sameOutcome : Outcome Out → Outcome Out → Bool
  | .done x, .done y => x.res == y.res && x.evs == y.evs
  | .panic, .panic => true
  | _, _ => false

def modelAnswer (l : Line) : String :=
  let o := runOn l l.a.schedule l.a.bufSize
  showOutcome o ++ (if Drv.DFrag.vApplies l.a then (if sameOutcome o (reference l) then " v=same" else " v=diff") else " v=na")

/-! ### the API model (C) on the delivered bytes, in the same observable -/

open Fit.DecApi in
def apiOp : Fit.DecHist.Op → Fit.DecApi.Op
  | .decode => .decode
  | .decodeCtx c => .decodeCtx c
  | .decodeCtxAt k => .decodeCtxAt k
  | .peekHeader => .peekHeader
  | .peekFileId => .peekFileId
  | .discard => .discard
  | .next => .next
  | .checkIntegrity => .checkIntegrity

def apiErr : Fit.DecApi.Err → String
  | .eof => "eof" | .notFit => "notfit" | .crc => "crc" | .defMissing => "defmissing"
  | .baseType => "basetype" | .ctx => "ctx" | .other => "other"

def apiHdr (h : Fit.DecApi.Hdr) : String := s!"{h.size}.{h.protoVer}.{h.profileVer}.{h.dataSize}.{h.crc}"

def apiEvent : Fit.DecApi.Event → String
  | .mesgDef d => s!" D{d.header}.{d.arch}.{d.mesgNum}({";".intercalate (d.fields.map fun f => s!"{f.num}.{f.size}.{f.bt}")})({";".intercalate (d.devs.map fun f => s!"{f.num}.{f.size}.{f.idx}")})"
  | .mesg m => s!" R{m.header}.{m.num}.{m.fields.length}.{m.devs.length}"

/-- (C)'s run, call by call: tokens and events in `dhfrag` syntax (end-of-stream errors as one class `eof`) -/
def apiRun (o : Fit.DecApi.Opts) (bytes : List Nat) (ops : List Op) : String := Id.run do
  let mut a := Fit.DecApi.Api.fresh o bytes
  let mut toks : Array String := #[]
  let mut evs : String := ""
  for op in ops do
    let (a', out, es) := Fit.DecApi.step a (apiOp op)
    for e in es do evs := evs ++ apiEvent e
    let tok := match out with
      | .fit f => s!"F{apiHdr f.hdr}.{f.crc}.{f.msgs.length}"
      | .header h => "H" ++ apiHdr h
      | .fileId _ => if a'.d.q.fileId.isSome then "I1" else "I0"
      | .done => "ok"
      | .bool b => if b then "t" else "f"
      | .integrity n none => s!"ci:{n}:ok"
      | .integrity n (some e) => s!"ci:{n}:{apiErr e}"
      | .err e => "err:" ++ apiErr e
      | .panic => "panic"
      | .hang => "hang"
    toks := toks.push tok
    if let .fit f := out then
      evs := evs ++ s!" S{apiHdr f.hdr}.{f.crc}.{f.msgs.length}"
    a := a'
  return " ".intercalate toks.toList ++ " |" ++ evs

/-- the implementation's answer with the two end-of-stream errors as one class and without the `v=` token -/
def normImpl (s : String) : String :=
  let s := (s.splitOn " v=").headD ""
  (s.replace "err:ueof" "err:eof").replace ":ueof" ":eof"

def hDhfrag : Handler := fun r =>
  match parseLine r.args with
  | none => if r.mode == .model then "bad-op" else if r.mode == .kf then "-" else "n/a"
  | some l =>
    match r.mode with
    | .model => modelAnswer l
    | .spec => if Drv.DFrag.vApplies l.a then showOutcome (reference l) ++ " v=same" else "n/a"
    | .kf => if Drv.DFrag.vApplies l.a && truncated (prog l) (bytesOf l.a.schedule) then "KF-C08-1" else "-"
    | .prop =>
      -- C03: never a panic, never a hang, whatever the reader does
      let toks := r.impl.splitOn " "
      if toks.any (fun t => t == "panic" || t.startsWith "panic(") then "fail:panic"
      else if toks.contains "hang" then "fail:hang"
      else if !Drv.DFrag.vApplies l.a then
        -- a failing reader: C03 demands no panic / hang (tested above); C08, second sentence: a failure of the reader that
        -- `ReadN` hands to the decoder comes back — wherever the model's own answer shows it, the implementation's must
        match firstReaderErr (prog l) (RB.fresh l.a.schedule l.a.bufSize) with
        | none => "ok"
        | some e =>
          let name := Drv.RBuf.errName e
          let shows (ts : List String) := ts.any fun t => t == "err:" ++ name || t.endsWith (":" ++ name)
          if shows ((modelAnswer l).splitOn " ") && !shows toks then s!"fail:reader-error-{name}-not-returned" else "ok"
      else
      let o : Fit.DecApi.Opts := { chk := l.a.chk, exp := false, ml := true, dl := true, fac := Drv.DecApi.stdFactory }
      let want := apiRun o (bytesOf l.a.schedule) l.ops
      if normImpl r.impl == want then "ok" else "fail:api-model-differs:" ++ want

end Drv.DHist
