import FitModel.Writer
import FitModel.WriterShort
import FitModel.WriterPanic
import FitModel.Integrity
import FitModel.Generated.WireConsts
import Driver.Util
import Driver.Wire
/-! Driver handlers of the families `enc-writers` (C09) and `enc-faults` (C11); syntax: harness/fam_writers.go. -/
-- @family wr Drv.Wr.hWr
-- @family wrx Drv.Wr.hWrX
-- @family wrc Drv.Wr.hWrC
namespace Drv.Wr
open Drv Fit.Wire Fit.Writer

/-- the harness's `wrValidator`: state = messages seen since `Reset` -/
def markValidator : MsgValidator Nat where
  init := 0
  step c m :=
    let c := c + 1
    if m.num == 65001 then (c, none)
    else (c, some { m with fields := m.fields.filter fun f => !(f.num == 250 || (f.num == 251 && c % 3 == 0)) })

structure Cfg where
  kind : Kind
  bs : Nat
  stream : Bool
  o : Opts
  pvOpt : Nat
  v : Bool
  pre : Bytes
  /-- where the destination is positioned when the encoder gets it (`pre.length` unless `pos=` says otherwise) -/
  pos : Nat
  faults : List (Nat × Nat)
  /-- operations answered (n < len, nil) — entries `k<s>j` of `f=` -/
  shorts : List (Nat × Nat) := []
  /-- `ap=1`: the destination is an O_APPEND file -/
  ap : Bool := false
  hasF : Bool
  cont : Bool
  /-- `m=c`: batch through `EncodeWithContext` -/
  ctxMode : Bool := false
  /-- `cx=i.k`: the context of the call for file `i` is cancelled after `k` polls (every other call: `context.Background()`) -/
  cx : Option (Nat × Nat) := none
  /-- `k=nil`: the encoder was made with a nil writer -/
  nilw : Bool := false
  files : List Drv.W.WFile

def parseKind : String → Option Kind
  | "plain" => some .plain | "at" => some .at | "seek" => some .seek | "both" => some .both | _ => none

def parseInt (s : String) : Option Int :=
  if s.startsWith "-" then (s.drop 1).toString.toNat?.map fun n => -(n : Int) else s.toNat?.map fun n => (n : Int)

/-- entries `k.j` (fails after j bytes) and `k<s>j` (takes j bytes, no error): (is-short, k, j) -/
def parseFaults (s : String) : Option (List (Bool × Nat × Nat)) :=
  if s == "-" || s.isEmpty then some []
  else (s.splitOn ",").mapM fun e =>
    match e.splitOn "." with
    | [a, b] => do let a ← a.toNat?; let b ← b.toNat?; pure (false, a, b)
    | _ =>
      match e.splitOn "s" with
      | [a, b] => do let a ← a.toNat?; let b ← b.toNat?; pure (true, a, b)
      | _ => none

def parse (args : List String) (needKind : Bool) : Option Cfg := do
  let (kv, rest) := Drv.W.splitKV args
  let files ← Drv.W.parseWFiles rest
  let nilw := needKind && kv.lookup "k" == some "nil"
  let kind ← if needKind && !nilw then (kv.lookup "k").bind parseKind else some Kind.plain
  let cx ← match kv.lookup "cx" with
    | none => some none
    | some s => match s.splitOn "." with
      | [a, b] => do let a ← a.toNat?; let b ← b.toNat?; pure (some (a, b))
      | _ => none
  if cx.isSome && kv.lookup "m" != some "c" then none
  let bs : Nat := match (kv.lookup "bs").bind parseInt with
    | some i => i.toNat
    | none => 0
  let pre ← match kv.lookup "pre" with
    | some "-" | none => some []
    | some h => unhex h
  let fs ← match kv.lookup "f" with
    | some s => parseFaults s
    | none => some []
  let hasF := match kv.lookup "f" with
    | some s => s != "-" && !s.isEmpty
    | none => false
  if (fs.map (·.2.1)).eraseDups.length != fs.length then none
  if cx.isSome && (fs.any (·.1)) then none
  let pos ← match kv.lookup "pos" with
    | some p => p.toNat?
    | none => some pre.length
  if pos > pre.length then none
  let ap := kv.lookup "ap" == some "1"
  if ap && kind == Kind.at then none
  if nilw && (ap || !pre.isEmpty) then none
  pure { ap := ap, kind := kind, bs := bs, stream := kv.lookup "m" == some "s", ctxMode := kv.lookup "m" == some "c", cx := cx, nilw := nilw,
         o := Drv.W.mkOpts (Drv.W.kvGet kv "a") (Drv.W.kvGet kv "h") (Drv.W.kvGet kv "l"),
         pvOpt := Drv.W.kvGet kv "pv", v := Drv.W.kvGet kv "v" == 1, pre := pre, pos := pos, faults := (fs.filter (!·.1)).map (·.2), shorts := (fs.filter (·.1)).map (·.2), hasF := hasF,
         cont := kv.lookup "c" == some "1", files := files }

def faultsOf (fs : List (Nat × Nat)) : Faults := fun k => fs.lookup k

def resName : Res → String
  | .ok => "ok" | .err => "err" | .ep => "ep" | .ee => "ee" | .ev => "ev" | .ec => "ec"

structure Out where
  results : Array Res := #[]
  hits : Array Nat := #[]
  d : Dest
  refused : Bool := false
  /-- the guarded model (FitModel/WriterPanic.lean) reached `.panic` on the calls of this run -/
  panicked : Bool := false
  nilRun : Bool := false

/-- on an encoder made with a nil writer the error of the output path is "writer is nil" (`en`), not a destination error -/
def Out.resShow (o : Out) (r : Res) : String := if o.nilRun && r == .err then "en" else resName r

def failedCount (d : Dest) : Nat := (d.log.filter fun op => !op.ok).length

/-- the header the stream encoder writes: its own zero-valued `FileHeader` after `selectProtocolVersion` / `encodeFileHeader` -/
def streamHdr (pvOpt : Nat) : Hdr := mkHdr 0 (selectProtoVer pvOpt 0) 0 Fit.Gen.Wire.profileVersion

def fitIn (pvOpt : Nat) (f : Drv.W.WFile) : FitIn :=
  { hdr := mkHdr f.size (selectProtoVer pvOpt f.protoVer) f.profileVer Fit.Gen.Wire.profileVersion, ds0 := f.dataSize, msgs := f.msgs }

/-- the context of call number `i` of a batch run -/
def ctxOf (c : Cfg) (i : Nat) : Ctx :=
  match c.cx with
  | some (j, k) => if i == j then some k else none
  | none => none

/-- one run (mirror of `wrRun` in the harness) for a validator `V` -/
def runWith {σ : Type} (V : MsgValidator σ) (sc : StreamCfg) (c : Cfg) (fs : List (Nat × Nat)) : Out := Id.run do
  let F := faultsOf fs
  let d0 : Dest := { content := c.pre, pos := c.pos }
  let mut out : Out := { d := d0 }
  let note := fun (out : Out) (before : Nat) (d : Dest) (r : Res) =>
    let fired := failedInjected d - before
    { out with results := out.results.push r, hits := out.hits ++ (Array.replicate fired out.results.size), d := d }
  if c.stream then
    if c.kind == .plain then return { out with refused := true }
    let h := streamHdr c.pvOpt
    let mut s := Stream.new c.o c.kind c.bs d0
    let mut vs := V.init
    let mut stop := false
    for f in c.files do
      if stop then break
      for m in f.msgs do
        if stop then break
        let before := failedInjected s.e.w.d
        let r := s.writeMessageV V F c.o h vs m
        s := r.1; vs := r.2.1
        out := note out before s.e.w.d r.2.2
        if r.2.2 != .ok && !c.cont then stop := true
      if stop then break
      let before := failedInjected s.e.w.d
      let r := s.sequenceCompletedV V F sc c.o h vs
      s := r.1; vs := r.2.1
      out := note out before s.e.w.d r.2.2
      if r.2.2 != .ok && !c.cont then stop := true
    return out
  else
    if c.ctxMode then
      -- `EncodeWithContext`: the model with cancellation points (`encodeCtxV`); `cx=i.k` cancels the context of call `i` after `k` polls
      let mut x : EncC := { e := Enc.new c.o c.kind c.bs d0 }
      let mut i := 0
      for f in c.files do
        let before := failedInjected x.e.w.d
        let r := encodeCtxV V pinnedCtxCfg F c.o (ctxOf c i) x (fitIn c.pvOpt f)
        x := r.1
        out := note out before x.e.w.d r.2
        i := i + 1
        if r.2 != .ok && !c.cont then break
      return out
    let mut e := Enc.new c.o c.kind c.bs d0
    for f in c.files do
      let before := failedInjected e.w.d
      let r := encodeV V F c.o e (fitIn c.pvOpt f)
      e := r.1
      out := note out before e.w.d r.2
      if r.2 != .ok && !c.cont then break
    return out
where
  /-- operations that failed because the schedule said so (a negative seek is not an injected fault; the encoder never issues one) -/
  failedInjected (d : Dest) : Nat := failedCount d

/-- the schedule of a run with contract-breaking answers (FitModel/WriterShort.lean) -/
def schedOf (fs shorts : List (Nat × Nat)) : Sched where
  resp := fun k => match shorts.lookup k with
    | some j => .short j
    | none => match fs.lookup k with
      | some j => .fail j
      | none => .ok
  extra := shorts.length

/-- `runWith` over the extended model (used only when the op has `k<s>j` entries) -/
def runWithR {σ : Type} (V : MsgValidator σ) (sc : StreamCfg) (c : Cfg) : Out := Id.run do
  let R := schedOf c.faults c.shorts
  let d0 : Dest := { content := c.pre, pos := c.pos }
  let mut out : Out := { d := d0 }
  let note := fun (out : Out) (before : Nat) (d : Dest) (r : Res) =>
    let fired := failedCount d - before
    { out with results := out.results.push r, hits := out.hits ++ (Array.replicate fired out.results.size), d := d }
  if c.stream then
    if c.kind == .plain then return { out with refused := true }
    let h := streamHdr c.pvOpt
    let mut s := Stream.new c.o c.kind c.bs d0
    let mut vs := V.init
    let mut stop := false
    for f in c.files do
      if stop then break
      for m in f.msgs do
        if stop then break
        let before := failedCount s.e.w.d
        let r := s.writeMessageVR V R c.o h vs m
        s := r.1; vs := r.2.1
        out := note out before s.e.w.d r.2.2
        if r.2.2 != .ok && !c.cont then stop := true
      if stop then break
      let before := failedCount s.e.w.d
      let r := s.sequenceCompletedVR V R sc c.o h vs
      s := r.1; vs := r.2.1
      out := note out before s.e.w.d r.2.2
      if r.2.2 != .ok && !c.cont then stop := true
    return out
  else
    let mut e := Enc.new c.o c.kind c.bs d0
    for f in c.files do
      let before := failedCount e.w.d
      let r := encodeVR V R c.o e (fitIn c.pvOpt f)
      e := r.1
      out := note out before e.w.d r.2
      if r.2 != .ok && !c.cont then break
    return out

/-- does the GUARDED model (every Go operation that can panic is a guarded operation) reach `.panic` on the calls of this run?
All calls are made whatever their results (a superset of what the run does); `C11_no_panic` proves the answer is `false`. -/
def panics {σ : Type} (V : MsgValidator σ) (sc : StreamCfg) (c : Cfg) (fs : List (Nat × Nat)) : Bool :=
  let R := schedOf fs c.shorts
  let d0 : Dest := { content := c.pre, pos := c.pos }
  if c.stream then
    let calls : List StreamCall := c.files.flatMap fun f => f.msgs.map StreamCall.writeMessage ++ [StreamCall.sequenceCompleted]
    (runStreamCalls V R sc c.o (streamHdr c.pvOpt) (Stream.new c.o c.kind c.bs d0) V.init calls).isPanic
  else
    let calls : List EncCall := (List.range c.files.length).zip c.files |>.map fun (i, f) => ⟨ctxOf c i, fitIn c.pvOpt f⟩
    (runEncCalls V pinnedCtxCfg c.nilw R c.o ⟨Enc.new c.o c.kind c.bs d0, false⟩ calls).isPanic

/-- a run on an encoder made with a nil writer: the guarded model's own results (the plain model has no nil writer) -/
def runNil {σ : Type} (V : MsgValidator σ) (c : Cfg) : Out :=
  let d0 : Dest := { content := c.pre, pos := c.pos }
  let calls : List EncCall := (List.range c.files.length).zip c.files |>.map fun (i, f) => ⟨ctxOf c i, fitIn c.pvOpt f⟩
  match runEncCalls V pinnedCtxCfg true (schedOf [] []) c.o ⟨Enc.new c.o .plain c.bs d0, false⟩ calls with
  | .panic => { d := d0, panicked := true, nilRun := true }
  | .ret r =>
    let rs := if c.cont then r.2 else
      match r.2.findIdx? (· != .ok) with
      | some i => r.2.take (i + 1)
      | none => r.2
    { d := d0, results := rs.toArray, nilRun := true }

def run (c : Cfg) (fs : List (Nat × Nat)) : Out :=
  if c.nilw then (if c.stream then { d := { content := c.pre, pos := c.pos }, refused := true }
    else if c.v then runNil markValidator c else runNil passThrough c) else
  let o :=
    if !c.shorts.isEmpty then (if c.v then runWithR markValidator pinnedStreamCfg c else runWithR passThrough pinnedStreamCfg c)
    else if c.v then runWith markValidator pinnedStreamCfg c fs else runWith passThrough pinnedStreamCfg c fs
  if o.refused then o else
  { o with panicked := if c.v then panics markValidator pinnedStreamCfg c fs else panics passThrough pinnedStreamCfg c fs }

def fnv (bs : Bytes) : UInt64 := bs.foldl (fun h b => (h ^^^ b.toUInt64) * 0x100000001b3) 0xcbf29ce484222325

/-- digest of the bytes handed to one destination operation (low 32 bits of FNV-1a 64), as the harness logs it -/
def opDig (p : Bytes) : String := hexN 8 ((fnv p).toNat % 4294967296)

def showOp : DOp → String
  | .write p t ok => s!"w{p.length}#{opDig p}:{t}" ++ (if ok then "" else "!")
  | .writeAt p off t ok => s!"a{p.length}#{opDig p}@{off}:{t}" ++ (if ok then "" else "!")
  | .seek dlt ok => s!"s{dlt}" ++ (if ok then "" else "!")

def joinOr (xs : List String) : String := if xs.isEmpty then "-" else ",".intercalate xs

def showCi : Fit.Integrity.Result → String
  | .ok n => s!"ok:{n}"
  | .err _ n => s!"bad:{n}"

def showRun (o : Out) : String :=
  s!"r={joinOr (o.results.toList.map o.resShow)} hit={joinOr (o.hits.toList.map toString)} log={joinOr (o.d.log.reverse.map showOp)} out={hex o.d.content} ci={showCi (Fit.Integrity.checkIntegrity o.d.content)}"

def execWr (args : List String) : String :=
  match parse args true with
  | none => "bad-op"
  | some c =>
    let o := run c c.faults
    -- O_APPEND: the same operations land elsewhere (Dest.runAppend)
    let o := if c.ap then { o with d := { o.d with content := (({ content := c.pre, pos := c.pos } : Dest).runAppend o.d.log.reverse).content } } else o
    if o.refused then "refused" else if o.panicked then "panic" else showRun o

def opLen : DOp → Nat
  | .write p _ _ => p.length
  | .writeAt p _ _ _ => p.length
  | .seek _ _ => 0

def isSeek : DOp → Bool
  | .seek _ _ => true
  | _ => false

/-- the fault points of the sweep: every operation of the fault-free run × j ∈ {0, 1, len-1, len} -/
def faultPoints (log : List DOp) : List (Nat × Nat) := Id.run do
  let mut pts : Array (Nat × Nat) := #[]
  let mut k := 0
  for op in log do
    let ln := opLen op
    let mut js : List Nat := [0]
    if !isSeek op then
      for j in [1, ln - 1, ln] do
        if j > 0 && j ≤ ln && some j != js.getLast? then js := js ++ [j]
    for j in js do pts := pts.push (k, j)
    k := k + 1
  return pts.toList

/-- replay of an operation log (oldest first) on a destination: the first `k` operations in full, `j` bytes of operation `k` -/
def replay (pre : Bytes) (pos0 : Nat) (ops : List DOp) (k j : Nat) : Bytes := Id.run do
  let mut c := pre
  let mut pos := pos0
  let mut i := 0
  for op in ops do
    if i > k then break
    match op with
    | .write p _ _ =>
      let q := if i == k then p.take j else p
      c := overwrite c pos q
      pos := pos + q.length
    | .writeAt p off _ _ =>
      let q := if i == k then p.take j else p
      c := overwrite c off q
    | .seek dlt _ => if i < k then pos := ((pos : Int) + dlt).toNat
    i := i + 1
  return c

def execWrX (args : List String) : String :=
  match parse args true with
  | none => "bad-op"
  | some c =>
    if c.hasF || c.ap || c.nilw then "bad-op" else
    let base := run c []
    if base.refused then "refused" else
    if base.panicked then "panic" else
    let pts := faultPoints base.d.log.reverse
    let entries := pts.map fun (k, j) =>
      let o := run c [(k, j)]
      let ci := Fit.Integrity.checkIntegrity o.d.content
      let tail := match ci with
        | .ok _ => "/" ++ hex o.d.content
        | _ => ""
      -- self-check of the model: the single-fault run leaves the crash state of the healthy run's operation sequence
      -- … stated with the definitions of C11_fault_is_crash_prefix: the destination is the replay of `crashOps k j` of the healthy log
      let crash := ({ content := c.pre, pos := c.pos } : Dest).run (crashOps k j base.d.log.reverse)
      let tail := if o.d.content == replay c.pre c.pos base.d.log.reverse k j && o.d.log.length == k + 1 &&
          o.d.content == crash.content && o.d.pos == crash.pos && o.d.log == crash.log then tail else tail ++ "/not-a-crash-prefix"
      if o.panicked then s!" {k}.{j}=panic/-/-/-" else
      s!" {k}.{j}={joinOr (o.results.toList.map resName)}/{joinOr (o.hits.toList.map toString)}/{hexN 16 (fnv o.d.content).toNat}/{showCi ci}{tail}"
    s!"n={pts.length}{String.join entries}"

/-! ### the specification side: `d₀ ++ encodeChain` -/

/-- what validation lets through of one FIT value (`none` = rejected), for validator `V` -/
def acceptedMsgs {σ : Type} (V : MsgValidator σ) (pv : Nat) (ms : List WMsg) : Option (List WMsg) :=
  if ms.isEmpty then none
  else if !ms.all (protoOK pv) then none
  else validateAll V V.init ms

def acceptedOf (c : Cfg) (pv : Nat) (ms : List WMsg) : Option (List WMsg) :=
  if c.v then acceptedMsgs markValidator pv ms else acceptedMsgs passThrough pv ms

/-- the chain the specification demands for a batch run: header of each FIT value normalised, accepted messages -/
def specChain (c : Cfg) (stream : Bool) : Option (List (Hdr × List WMsg)) :=
  c.files.mapM fun f =>
    let h := if stream then streamHdr c.pvOpt else (fitIn c.pvOpt f).hdr
    (acceptedOf c h.protoVer f.msgs).map fun ms => (h, ms)

def kinds : List (String × Kind) := [("plain", .plain), ("at", .at), ("seek", .seek), ("both", .both)]
def sizes : List Int := [-1, 0, 1, 2, 3, 7, 13, 14, 15, 16, 64, 4096, 65536]

def streamComparable (c : Cfg) : Bool :=
  c.files.all fun f => !(f.size == 12 || (f.profileVer != 0 && f.profileVer != 21158) ||
    (c.pvOpt == 0 && f.protoVer != 0 && f.protoVer != 16))

/-- number of configurations the harness compares -/
def configCount (c : Cfg) : Nat :=
  let perMode (stream : Bool) := (kinds.filter fun (_, k) => !(stream && k == .plain) && !(k == .at && !c.pre.isEmpty)).length * sizes.length
  -- batch through Encode, batch through EncodeWithContext, stream
  perMode false + perMode false + (if streamComparable c then perMode true else 0)

/-- `wrc`: the model's answer IS the specification: every configuration leaves `pre ++ encodeChain` -/
def execWrC (args : List String) : String :=
  match parse args false with
  | none => "bad-op"
  | some c =>
    if c.hasF then "bad-op" else
    match specChain c false with
    | none => "rejected"
    | some fits => s!"same {configCount c} {hex (c.pre ++ encodeChain c.o fits)}"

/-! ### property predicates evaluated on the implementation's answer -/

def field (impl key : String) : Option String :=
  (impl.splitOn " ").findSome? fun t => stripPrefix? t (key ++ "=")

/-- the contents the property allows an accepted destination to have: `pre` followed by the first `m` completed sequences -/
def boundaries (c : Cfg) : List Bytes :=
  match specChain c c.stream with
  | none => []
  | some fits => (List.range (fits.length + 1)).map fun m => c.pre ++ encodeChain c.o (fits.take m)

/-- does the property's second clause apply: default (zero) file headers, accepted input, a destination the encoder owns -/
def zeroHeaders (c : Cfg) : Bool :=
  c.stream || c.files.all fun f => f.size == 0 && f.protoVer == 0 && f.profileVer == 0 && f.dataSize == 0

/-- C11 on one run: every fault that fired made the call in progress fail, nothing panicked, and — zero headers, accepted
input — a destination content that passes the integrity check is `pre` + completed sequences -/
def c11Run (c : Cfg) (results hits : List String) (ci : String) (out : Option Bytes) : Option String :=
  if results.contains "panic" then some "fail:panic"
  else if hits.any (fun h => match h.toNat? with
      | some i => results[i]? != some "err"
      | none => true) then some "fail:fault-swallowed"
  else if ci.startsWith "ok" && !c.cont && zeroHeaders c && (specChain c c.stream).isSome && !(c.kind == .at && !c.pre.isEmpty) && c.pos == c.pre.length && c.shorts.isEmpty && !c.ap then
    match out with
    | none => some "fail:answer"
    | some bs => if (boundaries c).contains bs then none else some "fail:incomplete-output-accepted"
  else none

/-- `cx=i.k` on accepted input: is the cancellation observed by call `i` (it polls `ctxPolls` times)? -/
def cancelObserved (c : Cfg) (fits : List (Hdr × List WMsg)) : Option Nat :=
  match c.cx with
  | some (i, k) =>
    match fits[i]? with
    | some f => if k < ctxPolls c.kind f.2.length then some i else none
    | none => none
  | none => none

/-- a fault-free batch run through `EncodeWithContext` on accepted input whose call `i` observes the cancellation: the calls
before it succeeded and their sequences are at the head of the destination; call `i` returns the context's error; when the
caller goes on (`c=1`), every later call that reports success has left its sequence in the destination (C02: what the encoder
reports as successfully written is there) — the sequences after `i` are at the tail -/
def ctxProp (c : Cfg) (fits : List (Hdr × List WMsg)) (i : Nat) (results : List String) (out : Option Bytes) : String :=
  match out with
  | none => "fail:answer"
  | some bs =>
    if (results.take i).any (· != "ok") then "fail:accepted-input-failed"
    else if results[i]? == some "ok" then "fail:cancel-swallowed"
    else if results[i]? != some "ec" then "fail:cancelled-call-result"
    else if !(c.pre ++ encodeChain c.o (fits.take i)).isPrefixOf bs then "fail:completed-sequences-damaged"
    else if !c.cont then (if results.length == i + 1 then "ok" else "fail:calls-after-stop")
    else if (results.drop (i + 1)).any (· != "ok") then "fail:accepted-input-failed-after-cancel"
    else if !(encodeChain c.o (fits.drop (i + 1))).isSuffixOf bs then "fail:success-without-output"
    else "ok"

def listOf (s : String) : List String := if s == "-" then [] else s.splitOn ","

def propWr (args : List String) (impl : String) : String :=
  match parse args true with
  | none => "n/a"
  | some c =>
    if impl == "refused" then (if c.stream && c.kind == .plain then "ok" else "fail:refused")
    else if impl == "panic" then "fail:panic"
    else
      match field impl "r", field impl "hit", field impl "out", field impl "ci" with
      | some r, some hit, some out, some ci =>
        let results := listOf r
        match c11Run c results (listOf hit) ci (unhex out) with
        | some e => e
        | none =>
          -- C09: a fault-free, accepted run leaves exactly pre ++ encodeChain (write-at destinations: the encoder's own, i.e. empty before)
          if c.hasF then "ok"
          else if (c.kind == .at && !c.pre.isEmpty) || c.pos != c.pre.length || c.ap then "n/a"
          else if c.nilw then
            -- an encoder without a writer: every call fails (validation first), nothing is written, nothing panics
            (if results.all (fun r => r == "en" || r == "ee" || r == "ep" || r == "ev") && out == "" then "ok" else "fail:nil-writer")
          else match specChain c c.stream with
            | none => "n/a"
            | some fits =>
              match cancelObserved c fits with
              | some i => ctxProp c fits i results (unhex out)
              | none =>
              if results.any (· != "ok") then "fail:accepted-input-failed"
              else if unhex out != some (c.pre ++ encodeChain c.o fits) then "fail:bytes-differ-from-spec"
              -- C02: the library's own integrity check accepts the stream and counts the same number of sequences
              -- (`C02_integrity_accepts`; behind a prefix the check accepts with n sequences the counts add up: `C04_append`;
              -- behind any other prefix the check fails whatever follows, nothing is demanded)
              else if fits.isEmpty then "ok"
              else
                let want : Option Nat :=
                  if c.pre.isEmpty then some fits.length
                  else match Fit.Integrity.checkIntegrity c.pre with
                    | .ok n => some (n + fits.length)
                    | .err _ _ => none
                match want with
                | some n => if ci == s!"ok:{n}" then "ok" else s!"fail:integrity-check:want=ok:{n}"
                | none => "ok"
      | _, _, _, _ => "fail:answer"

def propWrX (args : List String) (impl : String) : String :=
  match parse args true with
  | none => "n/a"
  | some c =>
    if impl == "refused" then (if c.stream && c.kind == .plain then "ok" else "fail:refused")
    else if impl == "panic" then "fail:panic"
    else
      let toks := (impl.splitOn " ").filter (· ≠ "")
      let bad := toks.findSome? fun t =>
        match t.splitOn "=" with
        | [kj, v] =>
          if kj == "n" then none else
          match v.splitOn "/" with
          | r :: hit :: _ :: ci :: rest =>
            if rest.contains "not-a-crash-prefix" then some s!"fail:not-a-crash-prefix@{kj}" else
            (c11Run c (listOf r) (listOf hit) ci (rest.head?.bind unhex)).map fun e => s!"{e}@{kj}"
          | _ => some "fail:answer"
        | _ => some "fail:answer"
      bad.getD "ok"

def propWrC (args : List String) (impl : String) : String :=
  match parse args false with
  | none => "n/a"
  | some _ => if impl.startsWith "differ" then "fail:" ++ impl.replace " " "_" else if impl == "panic" then "fail:panic" else "ok"

/-- known-finding classes: KF-C11-1 (F13) — a stream encoder that starts a second sequence -/
def kfOf (args : List String) : String :=
  match parse args true with
  | none => "-"
  | some c =>
    if c.stream && c.files.length ≥ 2 && !pinnedStreamCfg.clearsHeader then "KF-C11-1"
    -- KF-C09-ctx-discard (fixed in /repo 4876fc8; the class is empty for the repaired code): `EncodeWithContext` on a plain writer whose context is cancelled during the DRY RUN, and the caller
    -- goes on using the encoder (a later FIT value exists)
    else if !pinnedCtxCfg.restoresWriter && c.ctxMode && !c.stream && c.kind == .plain && !c.nilw && c.cont &&
        (match c.cx with
          | some (i, k) => (match c.files[i]? with
            | some f => decide (k < f.msgs.length) && decide (i + 1 < c.files.length)
            | none => false)
          | none => false) then "KF-C09-ctx-discard"
    else "-"

def hWr : Handler := fun r =>
  match r.mode with
  | .model => execWr r.args
  | .spec => "n/a"
  | .prop => propWr r.args r.impl
  | .kf => kfOf r.args

def hWrX : Handler := fun r =>
  match r.mode with
  | .model => execWrX r.args
  | .spec => "n/a"
  | .prop => propWrX r.args r.impl
  | .kf => kfOf r.args

def hWrC : Handler := fun r =>
  match r.mode with
  | .model => execWrC r.args
  | .spec => "n/a"
  | .prop => propWrC r.args r.impl
  | .kf => "-"

end Drv.Wr
