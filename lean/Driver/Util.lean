/-! Line-protocol utilities of the model driver (parsing/printing only; nothing here is a model). -/
namespace Drv

def hexVal (c : Char) : Option Nat :=
  if '0' ≤ c ∧ c ≤ '9' then some (c.toNat - '0'.toNat)
  else if 'a' ≤ c ∧ c ≤ 'f' then some (c.toNat - 'a'.toNat + 10)
  else if 'A' ≤ c ∧ c ≤ 'F' then some (c.toNat - 'A'.toNat + 10)
  else none

/-- hex string → bytes (as `Nat`s); `none` on odd length or a non-hex character -/
def unhex (s : String) : Option (List Nat) :=
  let rec go : List Char → List Nat → Option (List Nat)
    | [], acc => some acc.reverse
    | [_], _ => none
    | a :: b :: rest, acc =>
      match hexVal a, hexVal b with
      | some x, some y => go rest ((x * 16 + y) :: acc)
      | _, _ => none
  go s.toList []

def hexDigit (n : Nat) : Char :=
  if n < 10 then Char.ofNat (n + '0'.toNat) else Char.ofNat (n - 10 + 'a'.toNat)

def hexByte (b : Nat) : String := String.ofList [hexDigit (b / 16 % 16), hexDigit (b % 16)]

def hex (bs : List Nat) : String := String.join (bs.map hexByte)

/-- fixed-width lower-case hex of a number (`w` hex digits) -/
def hexN (w n : Nat) : String :=
  String.ofList ((List.range w).reverse.map fun i => hexDigit (n / 16 ^ i % 16))

def stripPrefix? (s pre : String) : Option String :=
  if s.startsWith pre then some (s.drop pre.length).toString else none

end Drv

namespace Drv
/-- what the driver is asked for: the model's answer, the observable the specification demands
(`n/a` when the family has none), the verdict of the property predicate on the implementation's
answer (`ok` / `fail:<why>` / `n/a`), or the known-finding classes the operation belongs to (`-` if none) -/
inductive Mode | model | spec | prop | kf
  deriving BEq, Repr

structure Req where
  mode : Mode
  args : List String
  impl : String := ""

abbrev Handler := Req → String

/-- lift a model-only executor -/
def modelOnly (f : List String → String) : Handler := fun r =>
  match r.mode with
  | .model => f r.args
  | .kf => "-"
  | _ => "n/a"

/-- lift an executor with a model and a spec variant (`true` = spec) -/
def modelSpec (f : Bool → List String → String) : Handler := fun r =>
  match r.mode with
  | .model => f false r.args
  | .spec => f true r.args
  | .kf => "-"
  | .prop => "n/a"
end Drv
