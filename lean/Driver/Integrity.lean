import FitModel.Integrity
import FitModel.IntegritySpec
import FitModel.FitFormat
import Driver.Util
-- @family integ Drv.hInteg
-- @family integv Drv.hIntegV
-- @family integcx Drv.hIntegCx
-- @family fitformat Drv.hFitFormat
namespace Drv
open Fit.Integrity

private def errName : Err → String
  | .eof => "eof" | .notFit => "not-fit" | .crc => "crc" | .defMissing => "def-missing" | .invalidBaseType => "invalid-basetype"

def showResult : Result → String
  | .ok n => s!"ok:{n}"
  | .err e n => s!"err:{errName e}:{n}"

def showDResult : DResult → String
  | .ok n m => s!"ok:{n}:{m}"
  | .err e n => s!"err:{errName e}:{n}"

structure IntegArgs where
  chk : Bool := true
  bytes : List Nat := []
  kv : List (String × String) := []

def IntegArgs.get (a : IntegArgs) (k : String) : Option Nat := (a.kv.lookup k).bind String.toNat?

/-- tokens `k=v` (options) and `b:<hex>` (the byte string) -/
def parseIntegArgs (args : List String) : Option IntegArgs := Id.run do
  let mut r : IntegArgs := {}
  let mut seen := false
  for a in args do
    if let some h := stripPrefix? a "b:" then
      match unhex h with
      | some bs => r := { r with bytes := bs }; seen := true
      | none => return none
    else
      match a.splitOn "=" with
      | [k, v] =>
        if k == "chk" then r := { r with chk := v != "0" }
        r := { r with kv := (k, v) :: r.kv }
      | _ => return none
  if seen then return some r else return none

/-- verdict and count of a `ci=…` answer of the implementation -/
def parseCi (impl : String) : Option (Bool × Nat) :=
  match (impl.splitOn " ").find? (·.startsWith "ci=") with
  | none => none
  | some t =>
    match ((t.drop 3).toString).splitOn ":" with
    | ["ok", n] => n.toNat?.map fun n => (true, n)
    | ["err", _, n] => n.toNat?.map fun n => (false, n)
    | _ => none

/-- the EXACT class of KF-C04-1: the integrity rules and the rules as built (checksum restarts after the header) give
different verdicts or counts — `IntegritySpec.kfC04`, the complement of the hypothesis of `C04_reference_partial` -/
def kfInteg (bs : List Nat) : String := if Fit.IntegritySpec.kfC04 bs then "KF-C04-1" else "-"

/-- the `eo=<n> el=<length>` tag of the harness: "these bytes ARE the output of the real encoder for a chain of `n` sequences, all
with 14-byte headers" (the generator knows). On a tagged operation the predicate the theorems assume of encoder output
must hold — for `n = 1` the very `IsEncoderOutput14` of `C04_burst` / `C04_truncation`, proved of the encoder model by
`C04_encoder_output` — and its failure is a property failure, not an abstention. -/
def encoderTagOK (a : IntegArgs) : Option Bool :=
  -- the tag names the length of the bytes it speaks about (`el=<len>`): a line whose bytes were cut down by the
  -- shrinker of the framework is no longer a tagged line (the replay of a `fail:not-encoder-output` stays the real output)
  match a.get "eo", a.get "el" with
  | some n, some l =>
    if l ≠ a.bytes.length then none
    else some (if n = 1 then decide (Fit.IntegritySpec.IsEncoderOutput14 a.bytes) else Fit.IntegritySpec.isEncoderChain14 a.bytes n)
  | _, _ => none

/-- `integ [chk=0|1] [rb=<n>] b:<hex>`: outcome of `CheckIntegrity` and of the decode loop -/
def hInteg : Handler := fun r =>
  match parseIntegArgs r.args with
  | none => if r.mode == .model then "bad-op" else if r.mode == .kf then "-" else "n/a"
  | some a =>
    match r.mode with
    | .model => s!"ci={showResult (checkIntegrity a.bytes)} dec={showDResult (decodeAll a.chk a.bytes)}"
    | .spec => "n/a"
    -- a tagged encoder output that is not "encoder output" is never the known finding (else `fail:not-encoder-output`
    -- would be attributed to KF-C04-1 whenever the broken output happens to lie in its class, e.g. a zero header CRC)
    | .kf => if encoderTagOK a == some false then "-" else kfInteg a.bytes
    | .prop =>
      if encoderTagOK a == some false then "fail:not-encoder-output" else
      -- the property: verdict and count of valid leading sequences equal the reference's
      match parseCi r.impl with
      | none => "fail:unparsable-answer"
      | some (ok, n) =>
        match Fit.IntegritySpec.reference a.bytes with
        | .ok m => if ok ∧ n = m then "ok" else s!"fail:reference=ok:{m}"
        | .bad m => if !ok ∧ n = m then "ok" else s!"fail:reference=bad:{m}"

def showVerdict : Fit.IntegritySpec.Verdict → String
  | .ok n => s!"ok:{n}"
  | .bad n => s!"bad:{n}"

/-- `integv b:<hex>`: verdict and count of valid leading sequences of `CheckIntegrity` only.
model = the model of the code; spec = THE REFERENCE (`IntegritySpec.reference`), which the property demands -/
def hIntegV : Handler := fun r =>
  match parseIntegArgs r.args with
  | none => if r.mode == .model then "bad-op" else if r.mode == .kf then "-" else "n/a"
  | some a =>
    match r.mode with
    | .model => showVerdict (match checkIntegrity a.bytes with | .ok n => .ok n | .err _ n => .bad n)
    | .spec => showVerdict (Fit.IntegritySpec.reference a.bytes)
    | .kf => kfInteg a.bytes
    | .prop => "n/a"

/-! ### exhaustive corruption sweeps (digest ops) -/

def fnvInit : UInt64 := 0xcbf29ce484222325
def fnvMix (d : UInt64) (x : Nat) : UInt64 := (d ^^^ x.toUInt64) * 0x100000001b3

def errCode : Err → Nat
  | .eof => 1 | .notFit => 2 | .crc => 3 | .defMissing => 4 | .invalidBaseType => 5
def resultCode : Result → Nat
  | .ok _ => 0 | .err e _ => errCode e
def dresultCode : DResult → Nat
  | .ok _ _ => 0 | .err e _ => errCode e

/-- xor the bits of `w` into the byte string starting at bit position `p` (bit `i` of byte `j` is bit `8j+i`) -/
def xorAt (bs : List Nat) (p w : Nat) : List Nat :=
  let j := p / 8
  let v := w <<< (p % 8)           -- at most 16 + 7 bits: three bytes
  let rec go : List Nat → Nat → Nat → List Nat
    | [], _, _ => []
    | b :: rest, i, v =>
      if i < j then b :: go rest (i + 1) v
      else if v = 0 then b :: rest
      else (b ^^^ (v % 256)) :: go rest (i + 1) (v / 256)
  go bs 0 v

structure Sweep where
  n : Nat := 0
  ciOk : Nat := 0
  decOk : Nat := 0
  d : UInt64 := fnvInit

def Sweep.add (s : Sweep) (chk : Bool) (bs : List Nat) : Sweep :=
  let c := resultCode (checkIntegrity bs)
  let e := dresultCode (decodeAll chk bs)
  { n := s.n + 1, ciOk := s.ciOk + (if c = 0 then 1 else 0), decOk := s.decOk + (if e = 0 then 1 else 0),
    d := fnvMix (fnvMix s.d c) e }

def Sweep.show (s : Sweep) : String := s!"n={s.n} ci_ok={s.ciOk} dec_ok={s.decOk} h={hexN 16 s.d.toNat}"

/-- the corruptions of one `integcx` op, in the order both sides enumerate them -/
def sweep (a : IntegArgs) (kind : String) : Option Sweep := do
  let len := a.bytes.length
  let lo := (a.get "lo").getD 0
  let hi := min ((a.get "hi").getD len) len
  -- `end=<byte>`: a burst must END before this byte offset (default: the end of the file)
  let lim := min ((a.get "end").getD len) len
  match kind with
  | "flip" =>
    let mut s : Sweep := {}
    for p in [8 * lo : 8 * hi] do
      s := s.add a.chk (xorAt a.bytes p 1)
    return s
  | "burst" =>
    let k ← a.get "len"
    let w ← a.get "pat"
    if k < 1 ∨ k > 16 ∨ w ≥ 2 ^ k ∨ w % 2 = 0 ∨ w < 2 ^ (k - 1) then none
    let mut s : Sweep := {}
    for p in [8 * lo : 8 * hi] do
      if p + k ≤ 8 * lim then
        s := s.add a.chk (xorAt a.bytes p w)
    return s
  | "trunc" =>
    let mut s : Sweep := {}
    for k in [lo : hi] do
      s := s.add a.chk (a.bytes.take k)
    return s
  | _ => none

/-- "encoder output" as a predicate on bytes: the hypothesis of C04_burst / C04_truncation, evaluated -/
def isEncoderOutput14 (bs : List Nat) : Bool := decide (Fit.IntegritySpec.IsEncoderOutput14 bs)

/-- the sequences of a stream as (start, end) byte offsets, by the independent framing reader -/
def seqSpans (bs : List Nat) : List (Nat × Nat) :=
  match Fit.FitFormat.parseStream bs with
  | some seqs => seqs.map fun s => (s.start, s.start + s.len)
  | none => []

def implCount (impl key : String) : Option Nat :=
  (impl.splitOn " ").findSome? fun t => (stripPrefix? t (key ++ "=")).bind String.toNat?

/-- C04 on one sweep: what the theorems demand of the digest the implementation printed.
* the bytes must be encoder output: tagged operations (`eo=<n>`) FAIL when the predicate is false; untagged ones
  (fixtures of unknown origin) are judged only when the single-sequence predicate holds;
* `trunc`: every cut is rejected (`C04_truncation`, header cuts included) except the cuts that fall exactly on a
  boundary between two sequences of a chain, which leave a valid shorter chain (`C04_truncation_chain_encoder`,
  `C02_integrity_accepts`): accepted count = number of such boundaries in the swept range. For a single sequence this is
  demanded of the check and of the decode loop; for a chain of the check only — the property's truncation clause is about
  single-sequence files, and the documented contract of `Next` ("return false when invalid or reach EOF") ends the
  `for dec.Next() { dec.Decode() }` loop without error when the cut falls inside the HEADER of a later sequence;
* `flip` / `burst`: when the swept range (for bursts: up to `end`) lies inside the records and trailing CRC of ONE
  sequence, every corruption is rejected — by the check and the decode loop for a single sequence (`C04_burst`,
  `C04_bitflip`), by the check for a chain (`C04_burst_chain_encoder`); ranges that touch a header are not judged here
  (header theorems: `C04_header_burst` and its two exceptions). -/
def propCx (a : IntegArgs) (kind impl : String) : String :=
  let tag := encoderTagOK a
  if tag == some false then "fail:not-encoder-output"
  else if !a.chk then "n/a"
  else if tag.isNone && !isEncoderOutput14 a.bytes then "n/a"
  else
    let len := a.bytes.length
    let lo := (a.get "lo").getD 0
    let hi := min ((a.get "hi").getD len) len
    let lim := min ((a.get "end").getD len) len
    let spans := seqSpans a.bytes
    match implCount impl "ci_ok", implCount impl "dec_ok" with
    | some ci, some dec =>
      if kind == "trunc" then
        let want := (spans.filter fun sp => sp.2 < len ∧ lo ≤ sp.2 ∧ sp.2 < hi).length
        if ci = want ∧ (dec = want ∨ spans.length > 1) then "ok" else s!"fail:truncated-file-accepted:want={want}"
      else if kind == "flip" ∨ kind == "burst" then
        let inside := spans.any fun sp => sp.1 + 14 ≤ lo ∧ hi ≤ sp.2 ∧ (kind == "flip" ∨ lim ≤ sp.2)
        if !inside then "n/a"
        -- a chain: only the check is judged (`C04_burst_chain_encoder`). `Decode` of a corrupted EARLIER sequence of a
        -- chain may run past the declared data size (the last record may overrun it; a corrupted field size in a
        -- definition makes it long) into the next sequence and compare its checksum with two bytes found THERE: the
        -- guarantee of the single-sequence theorem (every overrun ends in EOF) is gone, acceptance has probability 2^-16
        -- per corruption (met in the thorough tier: corpus/integrity.txt). The property speaks of single-sequence files.
        else if ci = 0 ∧ (dec = 0 ∨ spans.length > 1) then "ok" else "fail:corrupted-file-accepted"
      else "n/a"
    | _, _ => "fail:unparsable-answer"

/-- `integcx <flip|burst|trunc> [lo=<byte>] [hi=<byte>] [end=<byte>] [len=<k> pat=<w>] [chk=..] [eo=<n>] b:<hex>` -/
def hIntegCx : Handler := fun r =>
  match r.args with
  | kind :: rest =>
    match parseIntegArgs rest with
    | none => if r.mode == .model then "bad-op" else if r.mode == .kf then "-" else "n/a"
    | some a =>
      match r.mode with
      | .model => match sweep a kind with | some s => s.show | none => "bad-op"
      | .spec => "n/a"
      | .kf => "-"
      | .prop => if r.impl == "bad-op" then "n/a" else propCx a kind r.impl
  | [] => if r.mode == .model then "bad-op" else if r.mode == .kf then "-" else "n/a"

/-! ### the framing specification on implementation bytes -/

def kindName : Fit.FitFormat.Kind → String
  | .header => "H" | .definition => "D" | .data => "M" | .crc => "C"

/-- `fitformat b:<hex>`: the independent framing reader: well-formedness and segment list -/
def hFitFormat : Handler := fun r =>
  match parseIntegArgs r.args with
  | none => if r.mode == .model then "bad-op" else if r.mode == .kf then "-" else "n/a"
  | some a =>
    match r.mode with
    | .model =>
      match Fit.FitFormat.segments a.bytes with
      | none => "malformed"
      | some segs =>
        " ".intercalate (segs.map fun (k, o, l) => s!"{kindName k}{o}+{l}")
    | .kf => "-"
    | _ => "n/a"

end Drv
