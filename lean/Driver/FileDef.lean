import FitModel.FileDef
import FitModel.FileDefContent
import Driver.Util
import Driver.MsgCodec
import Driver.Typed
-- @family filedef Drv.hFileDef
-- @family filedefc Drv.FileDefC.hFileDefC
namespace Drv
open Fit.FileDef

def hexNat (s : String) : Option Nat :=
  s.toList.foldl (fun acc c => match acc, hexVal c with
    | some a, some d => some (a * 16 + d)
    | _, _ => none) (some 0)

def parseTsF (s : String) : Option TsF :=
  if s == "-" then some .absent
  else if s == "o" then some .other
  else if s.length == 8 then (hexNat s).map .u32
  else none

def showTsF : TsF → String
  | .absent => "-"
  | .other => "o"
  | .u32 v => hexN 8 v

/-- input descriptor `num:f1:f253:f254:tag:seed:dg:ft` -/
def parseMsg (s : String) : Option Msg :=
  match s.splitOn ":" with
  | [n, a, b, c, t, _seed, d, ft] => do
    let num ← n.toNat?
    let f1 ← parseTsF a
    let f253 ← parseTsF b
    let f254 ← parseTsF c
    let tag ← t.toNat?
    let dg ← hexNat d
    let ft ← ft.toNat?
    if tag == 0 then none else
    some { num, f1, f253, f254, tag, dg, ft }
  | _ => none

/-- output form `num:f1:f253:f254:tag:dg` -/
def parseOMsg (s : String) : Option Msg :=
  match s.splitOn ":" with
  | [n, a, b, c, t, d] => do
    let num ← n.toNat?
    let f1 ← parseTsF a
    let f253 ← parseTsF b
    let f254 ← parseTsF c
    let tag ← t.toNat?
    let dg ← hexNat d
    some { num, f1, f253, f254, tag, dg, ft := 0 }
  | _ => none

def showOMsg (m : Msg) : String :=
  s!"{m.num}:{showTsF m.f1}:{showTsF m.f253}:{showTsF m.f254}:{m.tag}:{hexN 16 m.dg}"

def showFIT (l : List Msg) : String :=
  " ".intercalate (s!"n={l.length}" :: l.map showOMsg)

def parseAll {α} (f : String → Option α) (l : List String) : Option (List α) :=
  l.foldr (fun s acc => match f s, acc with
    | some a, some r => some (a :: r)
    | _, _ => none) (some [])

/-- `n=<k> <omsg>…` → messages (rest of the tokens returned) -/
def parseFIT (toks : List String) : Option (List Msg × List String) :=
  match toks with
  | t :: rest =>
    match (stripPrefix? t "n=").bind String.toNat? with
    | some k => if rest.length < k then none else
        (parseAll parseOMsg (rest.take k)).map (fun l => (l, rest.drop k))
    | none => none
  | [] => none

/-! the property predicates of C14 (first half), evaluated on an output sequence -/

def content (m : Msg) : Nat × Nat × Nat := (m.num, m.tag, m.dg)

/-- position of the message with this tag in the input -/
def posOf (input : List Msg) (tag : Nat) : Nat := (input.findIdx? (fun m => m.tag == tag)).getD input.length

/-- equal key and equal number ⇒ arrival order kept -/
def stableB (input : List Msg) : List Msg → Bool
  | [] => true
  | x :: xs => xs.all (fun y => !(key x == key y && x.num == y.num) || posOf input x.tag < posOf input y.tag) && stableB input xs

def propFileDef (T : FileType) (input out : List Msg) : String :=
  let hasFileId := input.any (fun m => m.num == Generated.mesgNumFileId)
  -- a file to which no file_id was added gives back the zero-valued one (tag 0): not one of the input messages
  let out' := if hasFileId then out else out.filter (fun m => !(m.tag == 0 && m.num == Generated.mesgNumFileId))
  if !hasFileId && out'.length + 1 != out.length then "fail:conservation" else
  if !countEq (out'.map content) ((keepLastDecl T input).map content) then "fail:conservation" else
  match out with
  | [] => "fail:prefix"
  | fid :: r =>
    if fid.num != Generated.mesgNumFileId then "fail:prefix" else
    let r1 := r.dropWhile (fun m => m.num == Generated.mesgNumDeveloperDataId)
    let r2 := r1.dropWhile (fun m => m.num == Generated.mesgNumFieldDescription)
    if r2.any (fun m => isPrefixNum m.num) then "fail:prefix" else
    if !sortedB r2 then "fail:order" else
    if !stableB input r2 then "fail:stable" else "ok"

def hFileDef : Handler := fun r =>
  match r.args with
  | [] => "bad-op"
  | b :: ms =>
    match b.toNat?.bind fileTypeOf, parseAll parseMsg ms with
    | some T, some input =>
      match r.mode with
      | .model => showFIT (toFIT T (build T input)) ++ " again=1"
      | .spec => "n/a"
      | .prop =>
        match parseFIT ((r.impl.splitOn " ").filter (· ≠ "")) with
        | some (out, _) => propFileDef T input out
        | none => "fail:unparsable"
      | .kf =>
        -- KF-C14-2: the file type does not sort everything after the developer-data prefix, and on this
        -- input that leaves the model's own output out of order
        let out := toFIT T (build T input)
        if T.sortFrom != 3 && propFileDef T input out == "fail:order" then "KF-C14-2" else "-"
    | _, _ => if r.mode == .model then "bad-op" else if r.mode == .kf then "-" else "n/a"

end Drv

/-! `filedefc <filetype byte> <opts> <message>…` → `n=<k> <message>…` — the file types on real protocol messages
(`FitModel/FileDefContent.lean`; message syntax of MsgCodec, options of the typed family).
* model: `toFITC (buildC …)`: structs stored by `Typed.ofMesg`, emitted by `Typed.toMesg`, suffix sorted;
* `--spec`: what the property demands, computed WITHOUT structs: every message normalised by `normC` (= C13's
  `typedNormal` for typed kinds), singletons keep their last occurrence, prefix, and everything after the prefix
  stably sorted (`sortFrom := 3` whatever the file type does: the 8 types that sort less are KF-C14-2);
* `--kf`: KF-C14-2 iff the file type does not sort from the end of the prefix and on this input the model's own
  output differs from the demanded one. -/
namespace Drv.FileDefC
open Drv Fit.FileDef Fit.FileDef.Content Fit.Typed Fit.Msg

def showOut (l : List Message) : String := " ".intercalate (s!"n={l.length}" :: l.map printMessage)

def parseArgs (args : List String) : Option (FileType × Options × Drv.Typed.Fac × List Message) :=
  match args with
  | b :: o :: ms => do
    let T ← b.toNat?.bind fileTypeOf
    let (opts, fac) ← Drv.Typed.parseOpts o
    let input ← parseAll parseMessage ms
    some (T, opts, fac, input)
  | _ => none

def hFileDefC : Handler := fun r =>
  match parseArgs r.args with
  | none => if r.mode == .model then "bad-op" else if r.mode == .kf then "-" else "n/a"
  | some (T, opts, fac, input) =>
    let fc := Drv.Typed.facField fac
    let model : Option (List Message) := match buildC T input with
      | .panic => none
      | .ok f => some (toFITC fc opts T f)
    let demanded := G.toFIT (msgC fc opts) { T with sortFrom := 3 } (G.build (msgC fc opts) T input)
    match r.mode with
    | .model => match model with
      | none => "panic"
      | some out => showOut out
    | .spec =>
      -- a nil FieldBase (Add panics, or an unrelated message the comparator may trip over) is outside the quantifier
      if !allBased input then "n/a" else showOut demanded
    | .prop => "n/a"
    | .kf =>
      if T.sortFrom != 3 && allBased input && model != some demanded &&
          model == some (G.toFIT (msgC fc opts) T (G.build (msgC fc opts) T input)) then "KF-C14-2" else "-"

end Drv.FileDefC
