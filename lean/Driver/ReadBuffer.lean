import FitModel.ReadBuffer
import Driver.Util
-- @family rb Drv.RBuf.hRb
/-!
`rb <tok>...` — drive the read buffer with an arbitrary sequence of `Reset` / `ReadN` calls.

* `reset:<size>:<hex>:<lens>` — `Reset(reader, size)`; the reader will deliver the bytes `<hex>` cut into chunks
  of the given lengths (`<lens>` = comma separated `<len>[e|u|x<k>]`: `e` = `io.EOF` together with the chunk,
  `u` = `io.ErrUnexpectedEOF` (as the reader's own error), `x<k>` = the reader's error number `k`; a chunk is
  clipped to what is left of the bytes); afterwards `(0, io.EOF)` for ever.
* `r:<n>` — `ReadN(n)`; answers the bytes in hex (`-` for none), `err:<class>` or `panic`. After a call that did
  not succeed the following `r:` tokens are skipped up to the next `reset` (the decoder's errors are sticky).

`--spec`: what the exact-n reader over the delivered bytes answers (requests ≤ reservedbuf, schedules without
failures); `--kf`: the stream ends inside a request (`KF-C08-1`).
-/
namespace Drv.RBuf
open Drv Fit.ReadBuffer

def errName : RErr → String
  | .eof => "eof" | .unexpectedEof => "ueof" | .shortBuffer => "short" | .custom k => s!"c{k}"

def showRes : Res → String
  | .ok [] => "-"
  | .ok bs => hex bs
  | .err e => "err:" ++ errName e
  | .panic => "panic"

/-- `<len>[e|u|x<k>]` -/
def parseLen (t : String) : Option (Nat × Option RErr) :=
  let digits := t.takeWhile Char.isDigit
  let rest := (t.dropWhile Char.isDigit).toString
  match digits.toString.toNat? with
  | none => none
  | some n =>
    if rest == "" then some (n, none)
    else if rest == "e" then some (n, some .eof)
    else if rest == "u" then some (n, some .unexpectedEof)
    else if rest.startsWith "x" then (rest.drop 1).toString.toNat?.map fun k => (n, some (.custom k))
    else none

def mkSched (bs : Bytes) (lens : List (Nat × Option RErr)) : Sched :=
  (lens.foldl (fun (acc : List Chunk × Bytes) l => (⟨acc.2.take l.1, l.2⟩ :: acc.1, acc.2.drop l.1)) ([], bs)).1.reverse

def parseSched (hx lens : String) : Option Sched :=
  match unhex hx with
  | none => none
  | some bs =>
    let toks := if lens == "" then [] else lens.splitOn ","
    (toks.mapM parseLen).map (mkSched bs)

def parseInt (s : String) : Option Int :=
  if s.startsWith "-" then (s.drop 1).toString.toNat?.map fun n => - (n : Int) else s.toNat?.map fun n => (n : Int)

inductive Tok
  | reset (size : Int) (s : Sched)
  | read (n : Nat)

def parseTok (t : String) : Option Tok :=
  match t.splitOn ":" with
  | ["reset", sz, hx, lens] =>
    match parseInt sz, parseSched hx lens with
    | some sz, some s => some (.reset sz s)
    | _, _ => none
  | ["r", n] => n.toNat?.map .read
  | _ => none

/-- segments: a `reset` followed by its reads -/
def segments (toks : List Tok) : List (Int × Sched × List Nat) :=
  (toks.foldl (fun (acc : List (Int × Sched × List Nat)) t =>
    match t, acc with
    | .reset sz s, _ => (sz, s, []) :: acc
    | .read n, (sz, s, ns) :: rest => (sz, s, ns ++ [n]) :: rest
    | .read _, [] => acc) []).reverse

def execModel (toks : List Tok) : String :=
  let segs := segments toks
  let (out, _) := segs.foldl (fun (acc : List String × RB) seg =>
    let b := acc.2.reset seg.2.1 seg.1
    let (rs, b') := b.readMany seg.2.2
    (acc.1 ++ rs.map showRes, b')) ([], RB.zero)
  if out.isEmpty then "none" else " ".intercalate out

def specApplies (seg : Int × Sched × List Nat) : Bool :=
  cleanB seg.2.1 && seg.2.2.all (· ≤ Fit.Gen.Reader.reservedbuf)

def execSpec (toks : List Tok) : String :=
  let segs := segments toks
  if !segs.all specApplies then "n/a" else
  let out := segs.flatMap fun seg => (exactMany (bytesOf seg.2.1) seg.2.2).map showRes
  if out.isEmpty then "none" else " ".intercalate out

def kfClass (toks : List Tok) : String :=
  let segs := segments toks
  if segs.all specApplies && segs.any (fun seg => (exactMany (bytesOf seg.2.1) seg.2.2).getLast? == some (.err .unexpectedEof))
  then "KF-C08-1" else "-"

def hRb : Handler := fun r =>
  match r.args.mapM parseTok with
  | none => if r.mode == .model then "bad-op" else if r.mode == .kf then "-" else "n/a"
  | some toks =>
    match toks with
    | .read _ :: _ => if r.mode == .model then "bad-op" else if r.mode == .kf then "-" else "n/a"
    | _ =>
      match r.mode with
      | .model => execModel toks
      | .spec => execSpec toks
      | .kf => kfClass toks
      | .prop => "n/a"

end Drv.RBuf
