import FitModel.Validator
import FitModel.ValidatorArith
import Driver.MsgCodec
import Driver.Value
-- @family validate Drv.hValidate
-- @family validate2 Drv.hValidate2
-- @family encgate Drv.hEncGate
-- @family streamgate Drv.hStreamGate
-- @family pvalidate Drv.hPValidate
-- @family pvalidatedef Drv.hPValidateDef
/-! Handlers of the families `validate` and `proto-validate`; see harness/fam_validate.go for the line syntax. -/
namespace Drv
open Fit.Value Fit.Msg Fit.Validator

private def errName : Err → String
  | .noFields => "err:no-fields" | .typeMismatch => "err:type" | .invalidUtf8 => "err:utf8" | .exceed => "err:exceed"
  | .missingDdi => "err:ddi" | .missingFd => "err:fd" | .protocolViolation => "err:protocol"

/-- `fac:<s|c>/<table|->` → the factory function (absent pairs are unknown fields); `fac:s/=`: the standard factory
resolved INSIDE the model through the regenerated table (`Fit.ValidatorA.stdFactory`), nothing carried in the line -/
def parseFac (s : String) : Option (Nat → Nat → FacEntry) :=
  if s == "s/=" then some Fit.ValidatorA.stdFactory else
  if !(s.startsWith "s/" || s.startsWith "c/") then none else
  let body := (s.drop 2).toString
  if body == "-" then some (fun _ _ => {}) else do
    let entries ← (body.splitOn ",").mapM fun e =>
      match e.splitOn "=" with
      | [k, v] =>
        match k.splitOn ".", v.splitOn ":" with
        | [mn, fn], [kn, bt, sc, off] => do
          let mn ← parseDec mn 65536
          let fn ← parseDec fn 256
          let bt ← parseHexByte bt
          let sc ← parseF64 sc "1" f64One
          let off ← parseF64 off "0" 0
          if kn != "n" && kn != "u" then none
          some ((mn, fn), ({ nameKnown := kn == "n", baseType := bt, scale := sc, offset := off } : FacEntry))
        | _, _ => none
      | _ => none
    some fun mn fn => match entries.find? (fun e => e.1 == (mn, fn)) with
      | some e => e.2
      | none => {}

/-- a value the real code can never return here, used when the line lacks an oracle entry (shows up as a disagreement) -/
def needOracle : Value := .string ("need-oracle".toList.map (·.toNat))

/-- `dv:<table|->` → the discard oracle (results of the real scaleoffset.DiscardValue on float64-typed values);
`dv:=`: the arithmetic INSIDE the model (`Fit.ValidatorA.D` = `Fit.ScaleOffset.discardValue` over the binary64 model of C12) -/
def parseDv (s : String) : Option Discard :=
  if s == "=" then some Fit.ValidatorA.D else
  if s == "-" then some (fun _ _ _ _ => needOracle) else do
    let entries ← (s.splitOn ",").mapM fun e =>
      match e.splitOn ">" with
      | [k, r] => do
        let r ← parseValue r
        some (k, r)
      | _ => none
    some fun v bt sc off =>
      let key := s!"{printValue v}@{hexByte bt}@{hexN 16 sc}@{hexN 16 off}"
      match entries.find? (fun e => e.1 == key) with
      | some e => e.2
      | none => needOracle

structure VArgs where
  D : Discard
  o : Options

def parseVArgs (a b c : String) : Option VArgs := do
  let o ← stripPrefix? a "o:"
  let f ← (stripPrefix? b "fac:").bind parseFac
  let d ← (stripPrefix? c "dv:").bind parseDv
  if o != "p" && o != "o" then none
  some { D := d, o := { omitInvalid := o == "o", factory := f } }

/-- `validate` / `validate2`: a validator instance over a sequence of messages and resets -/
def execValidate (times : Nat) (args : List String) : String :=
  match args with
  | a :: b :: c :: toks =>
    match parseVArgs a b c with
    | none => "bad-op"
    | some va => Id.run do
      let mut st : State := {}
      let mut out : Array String := #[]
      for tok in toks do
        if tok == "reset" then st := State.reset
        else
          match parseMessage tok with
          | none => return "bad-op"
          | some m =>
            let mut cur := m
            let mut rs : Array String := #[]
            for _ in [0:times] do
              let (r, st') := validate va.D va.o st cur
              st := st'
              match r with
              | .error e => rs := rs.push (errName e); break
              | .ok m' => rs := rs.push ("ok:" ++ printMessage m'); cur := m'
            out := out.push ("~".intercalate rs.toList)
      return " ".intercalate out.toList
  | _ => "bad-op"

/-- tokens of a gate line after the header: a message, `seq` (the sequence is completed: the next `Encode` of the same
Encoder / `StreamEncoder.SequenceCompleted`), `reset` (`Encoder.Reset` / `StreamEncoder.Reset` with the same options, the same
validator object included) -/
inductive GTok where
  | msg (m : Message)
  | seq
  | reset

def parseGTok (s : String) : Option GTok :=
  if s == "seq" then some .seq else if s == "reset" then some .reset else (parseMessage s).map .msg

/-- the sequences of a gate line: maximal runs of messages between `seq` / `reset`; a line whose first token is not a
message, or with two separators in a row, or ending in a separator other than one final `seq`, is not an operation -/
def splitSeqs (toks : List GTok) : Option (List (List Message × Option GTok)) :=
  let rec go (cur : List Message) (acc : List (List Message × Option GTok)) : List GTok → Option (List (List Message × Option GTok))
    | [] => if cur.isEmpty then some acc.reverse else some ((cur.reverse, none) :: acc).reverse
    | .msg m :: ts => go (m :: cur) acc ts
    | sep :: ts => if cur.isEmpty then none else go [] ((cur.reverse, some sep) :: acc) ts
  go [] [] toks

def parseGate (args : List String) : Option (Nat × VArgs × List (List Message × Option GTok)) :=
  match args with
  | v :: h :: a :: b :: c :: toks => do
    let opt ← kvByte [v] "v"
    let hdr ← kvByte [h] "h"
    let ver := selectVersion opt hdr
    let va ← parseVArgs a b c
    let ts ← toks.mapM parseGTok
    let seqs ← splitSeqs ts
    if seqs.isEmpty then none
    some (ver, va, seqs)
  | _ => none

def sepName : Option GTok → List String
  | some .seq => ["seq"]
  | some .reset => ["reset"]
  | _ => []

/-- one `Encode` per sequence on the same encoder: every sequence is judged from a FRESH validator state (`gateBatch` starts
from `{}`): that is what `validateMessages` / `reset` must guarantee -/
def execEncGate (args : List String) : String :=
  match parseGate args with
  | some (ver, va, seqs) =>
    " ".intercalate (seqs.map fun (ms, _) =>
      match gateBatch va.D ver va.o ms with
      | .panic => "panic"
      | .err e => errName e
      | .ok ms' => "ok:" ++ ",".intercalate (ms'.map printMessage))
  | none => "bad-op"

/-- `WriteMessage` per message; `SequenceCompleted` / `Reset` start the next sequence with a fresh validator state -/
def execStreamGate (args : List String) : String :=
  match parseGate args with
  | some (ver, va, seqs) => Id.run do
    let mut out : Array String := #[]
    for (ms, sep) in seqs do
      let mut st : State := {}
      for m in ms do
        let (r, st') := gateStream va.D ver va.o st m
        st := st'
        out := out.push (match r with | .panic => "panic" | .err e => errName e | .ok m' => "ok:" ++ printMessage m')
      for t in sepName sep do out := out.push t
    return " ".intercalate out.toList
  | none => "bad-op"

def resName : Res Unit → String
  | .ok _ => "ok" | .err e => errName e | .panic => "panic"

def execPValidate (args : List String) : String :=
  match args with
  | [v, m] =>
    match kvByte [v] "v", parseMessage m with
    | some ver, some m => resName (protoValidate ver m)
    | _, _ => "bad-op"
  | _ => "bad-op"

def execPValidateDef (args : List String) : String :=
  match args with
  | [_, _, _] =>
    match kvByte args "v", (kvArg args "dev").bind (parseDec · 301), (kvArg args "bts").bind unhex with
    | some ver, some nd, some bts => resName (protoValidateDef ver nd bts)
    | _, _, _ => "bad-op"
  | _ => "bad-op"

/-! ### the property on the implementation's answer (`--prop`) and the known-finding classes (`--kf`) -/

/-- one message's verdict: accepted ⇒ the answer is exactly the specified message; not writable ⇒ an error -/
def judge (expected : Option Message) (got : String) : Option String :=
  if got == "panic" then some "panic-instead-of-error"
  else match expected with
    | some m' => if got == "ok:" ++ printMessage m' then none
                 else if got.startsWith "err:" then some "writable-message-rejected" else some "written-message-differs-from-filter-of-input"
    | none => if got.startsWith "err:" then none else some "unwritable-message-accepted"

def propValidate (times : Nat) (args : List String) (impl : String) : String :=
  match args with
  | a :: b :: c :: toks =>
    match parseVArgs a b c with
    | none => "n/a"
    | some va => Id.run do
      let answers := (impl.splitOn " ").filter (· ≠ "")
      let mut st : State := {}
      let mut k := 0
      for tok in toks do
        if tok == "reset" then st := State.reset
        else
          match parseMessage tok with
          | none => return "n/a"
          | some m =>
            let got := answers.getD k ""
            k := k + 1
            let parts := got.splitOn "~"
            let first := parts.getD 0 ""
            if let some why := judge (specValidate va.D va.o st m) first then return "fail:" ++ why
            -- validating twice equals validating once
            if times == 2 && first.startsWith "ok:" && parts.getD 1 "" != first then return "fail:second-validation-differs"
            -- follow the validator's state as the model does
            let mut cur := m
            for _ in [0:times] do
              let (r, st') := validate va.D va.o st cur
              st := st'
              match r with
              | .error _ => break
              | .ok m' => cur := m'
      return "ok"
  | _ => "n/a"

def propStreamGate (args : List String) (impl : String) : String :=
  match parseGate args with
  | some (ver, va, seqs) => Id.run do
    let answers := (impl.splitOn " ").filter (· ≠ "")
    let mut k := 0
    for (ms, sep) in seqs do
      let mut st : State := {}      -- every sequence starts from a fresh validator (what SequenceCompleted / Reset guarantee)
      for m in ms do
        let got := answers.getD k ""
        k := k + 1
        let expected := if protoOk ver m then specValidate va.D va.o st m else none
        if let some why := judge expected got then return "fail:" ++ why
        st := (gateStream va.D ver va.o st m).2
      for t in sepName sep do
        if answers.getD k "" != t then return "fail:sequence-not-completed"
        k := k + 1
    return "ok"
  | none => "n/a"

def propEncGate (args : List String) (impl : String) : String :=
  match parseGate args with
  | some (ver, va, seqs) => Id.run do
    let answers := (impl.splitOn " ").filter (· ≠ "")
    if answers.length != seqs.length then return (if impl == "panic" then "fail:panic-instead-of-error" else "fail:answer")
    for ((ms, _), got) in seqs.zip answers do
      if got == "panic" then return "fail:panic-instead-of-error"
      let mut st : State := {}
      let mut outs : Array String := #[]
      let mut writable := ms.all (protoOk ver)
      for m in ms do
        match specValidate va.D va.o st m with
        | none => writable := false; break
        | some m' =>
          outs := outs.push (printMessage m')
          st := (validate va.D va.o st m).2
      if writable then
        if got == "ok:" ++ ",".intercalate outs.toList then pure ()
        else if got.startsWith "err:" then return "fail:writable-messages-rejected" else return "fail:written-messages-differ-from-filter-of-input"
      else if got.startsWith "err:" then pure () else return "fail:unwritable-messages-accepted"
    return "ok"
  | none => "n/a"

def propPValidate (args : List String) (impl : String) : String :=
  match args with
  | [v, m] =>
    match kvByte [v] "v", parseMessage m with
    | some ver, some m =>
      if impl == "panic" then "fail:panic-instead-of-error"
      else if protoOk ver m then (if impl == "ok" then "ok" else "fail:allowed-message-rejected")
      else if impl == "err:protocol" then "ok" else "fail:protocol-violation-accepted"
    | _, _ => "n/a"
  | _ => "n/a"

def hasNilBase (ms : List Message) : Bool := ms.any fun m => m.fields.any (·.base.isNone)

/-- float64-typed value under a float64 base type with a non-trivial scale/offset: restoring it is not idempotent -/
def f64Typed : Value → Bool
  | .float64 _ | .sliceFloat64 _ => true
  | _ => false

def hasRescaledF64 (ms : List Message) : Bool := ms.any fun m =>
  m.fields.any (fun f => match f.base with
    | some b => b.baseType == Fit.Gen.btFloat64 && f64Typed f.value && (scaleNotOne b.scale || offsetNotZero b.offset)
    | none => false) || m.devFields.any (fun d => f64Typed d.value)

def kfGate (args : List String) : String :=
  match parseGate args with
  | some _ => "-"      -- KF-C10-1 (nil FieldBase under protocol 1.0) is fixed: no class left for gate ops
  | none => "-"

def kfPValidate (args : List String) : String :=
  match args with
  | [v, m] =>
    match kvByte [v] "v", parseMessage m with
    | some _, some _ => "-"   -- KF-C10-1 fixed
    | _, _ => "-"
  | _ => "-"

def kfValidate2 (args : List String) : String :=
  match args with
  | _ :: _ :: _ :: toks =>
    let ms := toks.filterMap parseMessage
    -- KF-C10-3 (a message with developer fields of which nothing survives was accepted as the empty message) is
    -- fixed: no class left for it; such a message must now be rejected (specValidate = none)
    if hasRescaledF64 ms then "KF-C10-2" else "-"
  | _ => "-"

def withProp (model : List String → String) (prop : List String → String → String) (kf : List String → String) : Handler := fun r =>
  match r.mode with
  | .model => model r.args
  | .spec => "n/a"
  | .prop => prop r.args r.impl
  | .kf => kf r.args

def hValidate : Handler := withProp (execValidate 1) (propValidate 1) (fun _ => "-")
def hValidate2 : Handler := withProp (execValidate 2) (propValidate 2) kfValidate2
def hEncGate : Handler := withProp execEncGate propEncGate kfGate
def hStreamGate : Handler := withProp execStreamGate propStreamGate kfGate
def hPValidate : Handler := withProp execPValidate propPValidate kfPValidate
def hPValidateDef : Handler := modelOnly execPValidateDef

end Drv
