import FitModel.CsvText
import Driver.Csv
-- @family csvtext Drv.CsvText.hCsvText
-- @family csvparse Drv.CsvText.hCsvParse
/-! Driver of the text layer of C19 (FitModel/CsvText.lean): parsing/printing only; op and answer syntax in
harness/fam_csvtext.go. -/
namespace Drv.CsvText
open Drv Drv.Csv Fit.Msg Fit.Value Fit.Csv Fit.Gen

/-- the float side is not executable in the driver: the operations of these families carry no float -/
def tpDriver : TextParam where
  floatText := fun a => match a with
    | .flt b => txt ("<f" ++ hexN 16 b ++ ">")
    | _ => txt "<float>"
  readFloat := fun _ _ _ _ _ _ => .unmodelled

def isFloatValue : Value → Bool
  | .float32 _ | .float64 _ | .sliceFloat32 _ | .sliceFloat64 _ => true
  | _ => false

/-- the CSV can be compared byte for byte: raw values, no degrees, no float anywhere -/
def comparable (raw degrees : Bool) (files : List (List Message)) : Bool :=
  raw && !degrees && files.all fun f => f.all fun m =>
    m.fields.all (fun x => !isFloatValue x.value) && m.devFields.all (fun x => !isFloatValue x.value)

def fnv64 (bs : List Nat) : Nat :=
  bs.foldl (fun h b => ((h ^^^ (b % 256)) * 1099511628211) % 2 ^ 64) 14695981039346656037

def showText (lines : List Txt) : String :=
  let t := joinLines lines
  if t.length ≤ 6000 then "text=" ++ hex t
  else s!"big len={t.length} lines={lines.length} fnv={hexN 16 (fnv64 t)}"

def printBack (r : R Back) : String :=
  match r with
  | .err => "back=err"
  | .unmodelled => "back=unmodelled"
  | .ok b => s!"back=ok seq={b.seq} w=" ++ " / ".intercalate (b.seqs.map fun f => " ".intercalate (f.map printMsg))

/-- C19 on the implementation's answer to a `csvtext` operation: within `CsvUnambiguous` (and text-comparable) the
conversion must not panic or fail, the sequences must be as many as the files and the messages written back the expected ones -/
def propCsvText (o : Opts) (files : List (List Message)) (impl : String) : String :=
  if !csvUnambiguousB o files || !comparable o.raw o.degrees files then "n/a" else
  if impl.startsWith "panic" then "fail:panic" else
  if impl.startsWith "csv=err" || impl.startsWith "pre=" then "fail:convert-error" else
  if field? impl "back" != some "ok" then "fail:convert-error" else
  if field? impl "seq" != some (toString files.length) then "fail:sequences" else
  match impl.splitOn " w=" with
  | [_, w] =>
    match (splitFiles ((w.splitOn " ").filter (· ≠ ""))).mapM (·.mapM parseMsg) with
    | some back => if back == expected o files then "ok" else "fail:roundtrip"
    | none => "fail:unparsable"
  | _ => "fail:unparsable"

/-- the class of KF-C19-7 (fixed): a line of the CSV (before padding) of `scanLimit` = 65536 bytes or more, without the trim option -/
def hasLongLine (o : Opts) (files : List (List Message)) : Bool :=
  !o.trim && (toCsv o files).any fun l => (lineText tpDriver 0 l).length ≥ scanLimit

/-- `csvtext o=<flags> <msgs>…`: the CSV text the model writes (header and Data lines, local message number 0) -/
def hCsvText : Handler := fun r =>
  match r.mode with
  | .prop | .kf =>
    match r.args with
    | o :: rest =>
      match stripPrefix? o "o=", (splitFiles rest).mapM (·.mapM parseMsg) with
      | some flags, some files =>
        let has (c : Char) := flags.toList.contains c
        let opts : Opts := { raw := has 'r', verbose := has 'v', degrees := has 'd', trim := has 't' }
        if r.mode == .prop then propCsvText opts files r.impl
        else "-"   -- no open finding (KF-C19-7 fixed in /repo)
      | _, _ => if r.mode == .kf then "-" else "n/a"
    | [] => if r.mode == .kf then "-" else "n/a"
  | .model =>
    match r.args with
    | o :: rest =>
      match stripPrefix? o "o=", (splitFiles rest).mapM (·.mapM parseMsg) with
      | some flags, some files =>
        let has (c : Char) := flags.toList.contains c
        let opts : Opts := { raw := has 'r', verbose := has 'v', degrees := has 'd', trim := has 't' }
        if !comparable opts.raw opts.degrees files then "skip" else
        match csvText tpDriver opts (toCsv opts files) with
        | none => "panic"
        | some lines => showText lines ++ " " ++ printBack (fromCsvText (Arith.so.withText tpDriver) lines)
      | _, _ => "bad-op"
    | [] => "bad-op"
  | _ => "n/a"

/-- `csvparse <hex of a CSV text>`: what the reader makes of it -/
def hCsvParse : Handler := fun r =>
  match r.mode with
  | .model =>
    match r.args with
    | [h] =>
      match unhex h with
      | some t => printBack (fromCsvText (Arith.so.withText tpDriver) (splitLines t))
      | none => "bad-op"
    | _ => "bad-op"
  | .kf => "-"
  | _ => "n/a"

end Drv.CsvText
